open BinNums
open Datatypes

module Pos =
 struct
  (** val succ : positive -> positive **)

  let rec succ = function
  | Coq_xI p -> Coq_xO (succ p)
  | Coq_xO p -> Coq_xI p
  | Coq_xH -> Coq_xO Coq_xH

  (** val of_succ_nat : nat -> positive **)

  let rec of_succ_nat = function
  | O -> Coq_xH
  | S x -> succ (of_succ_nat x)
 end
