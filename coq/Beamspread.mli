open Datatypes
open List
open Num

val gamma_of : 'a1 coq_Num -> 'a1 -> 'a1 -> 'a1 -> 'a1

val gamma_list : 'a1 coq_Num -> 'a1 list -> 'a1 list -> 'a1 list

val gamma_prefix : 'a1 coq_Num -> 'a1 list -> nat -> 'a1

val virtual_distance : 'a1 coq_Num -> 'a1 list -> 'a1 list -> 'a1

val beamspread : 'a1 coq_Num -> 'a1 list -> 'a1 list -> 'a1 list -> 'a1

val rev_gamma_of : 'a1 coq_Num -> 'a1 -> 'a1 -> 'a1 -> 'a1

val rev_gamma_list : 'a1 coq_Num -> 'a1 list -> 'a1 list -> 'a1 list

val reverse_beamspread :
  'a1 coq_Num -> 'a1 list -> 'a1 list -> 'a1 list -> 'a1

val tube_step : 'a1 coq_Num -> ('a1 * 'a1) -> ('a1 * 'a1) -> 'a1 * 'a1

val tube : 'a1 coq_Num -> 'a1 list -> 'a1 list -> 'a1 * 'a1

val snell_betas : 'a1 coq_Num -> 'a1 list -> 'a1 list -> 'a1 list

val tube_amplitude : 'a1 coq_Num -> 'a1 list -> 'a1 list -> 'a1 list -> 'a1
