open Datatypes

val rev : 'a1 list -> 'a1 list

val fold_left : ('a1 -> 'a2 -> 'a1) -> 'a2 list -> 'a1 -> 'a1

val combine : 'a1 list -> 'a2 list -> ('a1 * 'a2) list

val firstn : nat -> 'a1 list -> 'a1 list

val seq : nat -> nat -> nat list
