open Datatypes
open List
open Num

(** val gamma_of : 'a1 coq_Num -> 'a1 -> 'a1 -> 'a1 -> 'a1 **)

let gamma_of n v_prev v_cur theta =
  let nu = n.ndiv v_prev v_cur in
  let s = n.nsin theta in
  let c = n.ncos theta in
  n.ndiv (n.nsub (n.nmul nu nu) (n.nmul s s)) (n.nmul (n.nmul nu c) c)

(** val gamma_list : 'a1 coq_Num -> 'a1 list -> 'a1 list -> 'a1 list **)

let rec gamma_list n vel thetas =
  match vel with
  | [] -> []
  | v0 :: vel' ->
    (match vel' with
     | [] -> []
     | v1 :: _ ->
       (match thetas with
        | [] -> []
        | th :: thetas' ->
          (gamma_of n v0 v1 th) :: (gamma_list n vel' thetas')))

(** val gamma_prefix : 'a1 coq_Num -> 'a1 list -> nat -> 'a1 **)

let gamma_prefix n gl k =
  fold_left (fun g x -> n.nmul g x) (firstn k gl) n.n1

(** val virtual_distance : 'a1 coq_Num -> 'a1 list -> 'a1 list -> 'a1 **)

let virtual_distance n legs gl =
  match legs with
  | [] -> n.n0
  | r1 :: rest ->
    fold_left (fun vd kr ->
      n.nadd vd (n.ndiv (snd kr) (gamma_prefix n gl (fst kr))))
      (combine (seq (S O) (length rest)) rest) r1

(** val beamspread :
    'a1 coq_Num -> 'a1 list -> 'a1 list -> 'a1 list -> 'a1 **)

let beamspread n vel legs thetas =
  n.ndiv n.n1 (n.nsqrt (virtual_distance n legs (gamma_list n vel thetas)))

(** val rev_gamma_of : 'a1 coq_Num -> 'a1 -> 'a1 -> 'a1 -> 'a1 **)

let rev_gamma_of n v_next v_prev theta =
  let nu = n.ndiv v_next v_prev in
  let s = n.nsin theta in
  let c = n.ncos theta in
  n.ndiv (n.nmul (n.nmul nu c) c)
    (n.nsub n.n1 (n.nmul (n.nmul (n.nmul nu nu) s) s))

(** val rev_gamma_list : 'a1 coq_Num -> 'a1 list -> 'a1 list -> 'a1 list **)

let rec rev_gamma_list n rvel rthetas =
  match rvel with
  | [] -> []
  | vn :: rvel' ->
    (match rvel' with
     | [] -> []
     | vp :: _ ->
       (match rthetas with
        | [] -> []
        | th :: rthetas' ->
          (rev_gamma_of n vn vp th) :: (rev_gamma_list n rvel' rthetas')))

(** val reverse_beamspread :
    'a1 coq_Num -> 'a1 list -> 'a1 list -> 'a1 list -> 'a1 **)

let reverse_beamspread n vel legs thetas =
  n.ndiv n.n1
    (n.nsqrt
      (virtual_distance n (rev legs)
        (rev_gamma_list n (rev vel) (rev thetas))))

(** val tube_step : 'a1 coq_Num -> ('a1 * 'a1) -> ('a1 * 'a1) -> 'a1 * 'a1 **)

let tube_step n st br =
  let (rho, amp) = st in
  let (beta, r) = br in
  let rho_start = n.nmul rho beta in
  let rho_end = n.nadd rho_start r in
  (rho_end, (n.nmul amp (n.nsqrt (n.ndiv rho_start rho_end))))

(** val tube : 'a1 coq_Num -> 'a1 list -> 'a1 list -> 'a1 * 'a1 **)

let tube n legs betas =
  match legs with
  | [] -> (n.n0, n.n0)
  | r1 :: rest ->
    fold_left (tube_step n) (combine betas rest) (r1,
      (n.ndiv n.n1 (n.nsqrt r1)))

(** val snell_betas : 'a1 coq_Num -> 'a1 list -> 'a1 list -> 'a1 list **)

let rec snell_betas n vel thetas =
  match vel with
  | [] -> []
  | v0 :: vel' ->
    (match vel' with
     | [] -> []
     | v1 :: _ ->
       (match thetas with
        | [] -> []
        | th :: thetas' ->
          let s_out = n.nmul (n.ndiv v1 v0) (n.nsin th) in
          let cos_out2 = n.nsub n.n1 (n.nmul s_out s_out) in
          (n.ndiv (n.nmul v0 cos_out2)
            (n.nmul v1 (n.nmul (n.ncos th) (n.ncos th)))) :: (snell_betas n
                                                               vel' thetas')))

(** val tube_amplitude :
    'a1 coq_Num -> 'a1 list -> 'a1 list -> 'a1 list -> 'a1 **)

let tube_amplitude n vel legs thetas =
  snd (tube n legs (snell_betas n vel thetas))
