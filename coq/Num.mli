open BinInt
open BinNums
open Datatypes
open List

type 't coq_Num = { n0 : 't; n1 : 't; nadd : ('t -> 't -> 't);
                    nsub : ('t -> 't -> 't); nmul : ('t -> 't -> 't);
                    ndiv : ('t -> 't -> 't); nopp : ('t -> 't);
                    nsqrt : ('t -> 't); nsin : ('t -> 't); ncos : ('t -> 't);
                    nasin : ('t -> 't); nacos : ('t -> 't);
                    natan2 : ('t -> 't -> 't); nexp : ('t -> 't);
                    nln : ('t -> 't); npi : 't; nltb : ('t -> 't -> bool);
                    nleb : ('t -> 't -> bool); neqb : ('t -> 't -> bool);
                    nofZ : (coq_Z -> 't); nfloor : ('t -> coq_Z);
                    ntrunc : ('t -> coq_Z); nround : ('t -> coq_Z) }

val n0 : 'a1 coq_Num -> 'a1

val n1 : 'a1 coq_Num -> 'a1

val nadd : 'a1 coq_Num -> 'a1 -> 'a1 -> 'a1

val nsub : 'a1 coq_Num -> 'a1 -> 'a1 -> 'a1

val nmul : 'a1 coq_Num -> 'a1 -> 'a1 -> 'a1

val ndiv : 'a1 coq_Num -> 'a1 -> 'a1 -> 'a1

val nopp : 'a1 coq_Num -> 'a1 -> 'a1

val nsqrt : 'a1 coq_Num -> 'a1 -> 'a1

val nsin : 'a1 coq_Num -> 'a1 -> 'a1

val ncos : 'a1 coq_Num -> 'a1 -> 'a1

val nasin : 'a1 coq_Num -> 'a1 -> 'a1

val nacos : 'a1 coq_Num -> 'a1 -> 'a1

val natan2 : 'a1 coq_Num -> 'a1 -> 'a1 -> 'a1

val nexp : 'a1 coq_Num -> 'a1 -> 'a1

val nln : 'a1 coq_Num -> 'a1 -> 'a1

val npi : 'a1 coq_Num -> 'a1

val nltb : 'a1 coq_Num -> 'a1 -> 'a1 -> bool

val nleb : 'a1 coq_Num -> 'a1 -> 'a1 -> bool

val neqb : 'a1 coq_Num -> 'a1 -> 'a1 -> bool

val nofZ : 'a1 coq_Num -> coq_Z -> 'a1

val nfloor : 'a1 coq_Num -> 'a1 -> coq_Z

val ntrunc : 'a1 coq_Num -> 'a1 -> coq_Z

val nround : 'a1 coq_Num -> 'a1 -> coq_Z

val nsum : 'a1 coq_Num -> 'a1 list -> 'a1

val nprod : 'a1 coq_Num -> 'a1 list -> 'a1

val nsq : 'a1 coq_Num -> 'a1 -> 'a1

val nofnat : 'a1 coq_Num -> nat -> 'a1

val nmax : 'a1 coq_Num -> 'a1 -> 'a1 -> 'a1

val nmin : 'a1 coq_Num -> 'a1 -> 'a1 -> 'a1

val nabs : 'a1 coq_Num -> 'a1 -> 'a1
