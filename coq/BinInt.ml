open BinNums
open BinPos
open Datatypes

module Z =
 struct
  (** val of_nat : nat -> coq_Z **)

  let of_nat = function
  | O -> Z0
  | S n0 -> Zpos (Pos.of_succ_nat n0)
 end
