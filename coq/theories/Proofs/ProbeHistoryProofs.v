(* Proofs/ProbeHistoryProofs.v — C16, part 2: set_reference_element, one arbitrary
   operation, arbitrary histories (induction over operation lists), make_matrix_probe. *)
From Coq Require Import List Reals Lra Lia ZArith Nsatz.
From Arim Require Import Base.Num Base.NumR Model.Vec3 Proofs.Vec3Proofs Model.Probe Proofs.ProbeProofs.
Import ListNotations.

(* ---- numpy indexing ------------------------------------------------------------------ *)
Lemma py_index_nonneg {A} (l : list A) (k : Z) (d : A) : (0 <= k < Z.of_nat (length l))%Z ->
  py_index l k = Some (List.nth (Z.to_nat k) l d).
Proof.
  intros H. unfold py_index.
  destruct (Z.leb_spec 0 k); [|lia]. destruct (Z.ltb_spec k (Z.of_nat (length l))); [|lia].
  apply nth_error_nth'. lia.
Qed.

Lemma py_index_neg {A} (l : list A) (k : Z) (d : A) : (- Z.of_nat (length l) <= k < 0)%Z ->
  py_index l k = Some (List.nth (Z.to_nat (Z.of_nat (length l) + k)) l d).
Proof.
  intros H. unfold py_index.
  destruct (Z.leb_spec 0 k); [lia|]. destruct (Z.leb_spec (- Z.of_nat (length l)) k); [|lia].
  apply nth_error_nth'. lia.
Qed.

(* which element a reference choice designates (None: the mean point) *)
Definition ref_elt (r : refelt) (n : nat) : option nat :=
  match r with
  | RefFirst => Some 0%nat
  | RefLast => Some (n - 1)%nat
  | RefMean => None
  | RefIdx k => Some (Z.to_nat (if (0 <=? k)%Z then k else Z.of_nat n + k))
  end.

(* preconditions under which the implementation does not raise *)
Definition op_ok (n : nat) (o : opR) : Prop :=
  match o with
  | OpRotate M _ => proper_rotation NumR M
  | OpSetRef (RefIdx k) => (- Z.of_nat n <= k < Z.of_nat n)%Z
  | OpSetRef _ => (0 < n)%nat
  | _ => True
  end.

Definition is_set_ref (o : opR) : bool := match o with OpSetRef _ => true | _ => false end.

Lemma ref_point_R (n : nat) (r : refelt) (locs : list vec) :
  length locs = n -> op_ok n (OpSetRef r) ->
  exists q, ref_point NumR r locs = Some q /\
    match ref_elt r n with
    | Some e => (e < n)%nat /\ q = List.nth e locs (vzero NumR)
    | None => q = vmean NumR locs
    end.
Proof.
  intros Hn Hok. destruct r as [| | |k]; cbn [op_ok] in Hok; cbn [ref_point ref_elt].
  - rewrite (py_index_nonneg locs 0 (vzero NumR)) by lia. eexists. split; [reflexivity|]. split; [lia|reflexivity].
  - rewrite (py_index_neg locs (-1) (vzero NumR)) by lia. eexists. split; [reflexivity|]. split; [lia|].
    f_equal. lia.
  - destruct locs as [|x l]; [cbn in Hn; lia|]. eexists. split; reflexivity.
  - destruct (Z.leb_spec 0 k).
    + rewrite (py_index_nonneg locs k (vzero NumR)) by lia. eexists. split; [reflexivity|]. split; [lia|reflexivity].
    + rewrite (py_index_neg locs k (vzero NumR)) by lia. eexists. split; [reflexivity|]. split; [lia|].
      rewrite Hn. reflexivity.
Qed.

Local Open Scope R_scope.

(* ---- changing only the PCS origin ------------------------------------------------------ *)
Lemma mvec_vsub3 (A : mat) (x q o : vec) :
  mvec NumR A (vsub NumR x q) = vsub NumR (mvec NumR A (vsub NumR x o)) (mvec NumR A (vsub NumR q o)).
Proof. v3_start. v3_split; ring. Qed.

Lemma mvec_vsub_self (A : mat) (q : vec) : mvec NumR A (vsub NumR q q) = vzero NumR.
Proof. v3_start. v3_split; ring. Qed.

(* same elements, same axes, another origin: the PCS coordinates shift by the PCS
   coordinates (old frame) of the new origin *)
Lemma new_origin_shift (p p' : probeR) :
  p_locs p' = p_locs p -> cs_i (p_pcs p') = cs_i (p_pcs p) -> cs_j (p_pcs p') = cs_j (p_pcs p) ->
  locations_pcs NumR p' =
  map (fun x => vsub NumR x (cs_from_gcs NumR (p_pcs p) (cs_o (p_pcs p')))) (locations_pcs NumR p).
Proof.
  intros Hl Hi Hj. unfold locations_pcs. rewrite Hl, map_map. apply map_ext. intros x.
  rewrite !cs_from_gcs_R. unfold cs_axes, cs_k. rewrite Hi, Hj. apply mvec_vsub3.
Qed.

Lemma p_set_ref_R (n : nat) (r : refelt) (p : probeR) : good n p -> op_ok n (OpSetRef r) ->
  exists q, ref_point NumR r (p_locs p) = Some q /\
    let p' := mkProbe (p_locs p) (p_oris p) (mkCS q (cs_i (p_pcs p)) (cs_j (p_pcs p))) in
    p_set_ref NumR r p = Some p' /\ good n p' /\
    locations_pcs NumR p' =
      map (fun x => vsub NumR x (cs_from_gcs NumR (p_pcs p) q)) (locations_pcs NumR p) /\
    orientations_pcs NumR p' = orientations_pcs NumR p /\
    cs_from_gcs NumR (p_pcs p') q = vzero NumR.
Proof.
  intros (Hf & Hn & Hnorm) Hok.
  destruct (ref_point_R n r (p_locs p) Hn Hok) as (q & Hq & _).
  exists q. split; [exact Hq|]. cbn zeta. unfold p_set_ref. rewrite Hq.
  assert (Hf' : frame_ok (mkCS q (cs_i (p_pcs p)) (cs_j (p_pcs p)))) by exact Hf.
  split; [reflexivity|]. split; [|split; [|split]].
  - split; [exact Hf'|]. split; [exact Hn|exact Hnorm].
  - apply (new_origin_shift p); reflexivity.
  - rewrite !orientations_pcs_R by assumption. reflexivity.
  - rewrite cs_from_gcs_R. cbn [p_pcs cs_o]. apply mvec_vsub_self.
Qed.

(* ---- the mean reference point -------------------------------------------------------------- *)
Lemma fold_vadd_acc (l : list vec) (acc : vec) :
  fold_left (vadd NumR) l acc = vadd NumR acc (vsum NumR l).
Proof.
  revert acc. induction l as [|x l IH]; intros acc.
  - cbn. v3_start. v3_split; ring.
  - unfold vsum. cbn [fold_left]. rewrite IH, (IH (vadd NumR _ x)). unfold vsum.
    generalize (fold_left (vadd NumR) l (n0 NumR, n0 NumR, n0 NumR)). intros s.
    v3_start. v3_split; ring.
Qed.

Lemma vsum_cons (x : vec) (l : list vec) : vsum NumR (x :: l) = vadd NumR x (vsum NumR l).
Proof.
  unfold vsum at 1. cbn [fold_left]. rewrite fold_vadd_acc.
  generalize (vsum NumR l). intros s. v3_start. v3_split; ring.
Qed.

Lemma vsum_map_from_gcs (A : mat) (o : vec) (l : list vec) :
  vsum NumR (map (fun x => mvec NumR A (vsub NumR x o)) l) =
  vsub NumR (mvec NumR A (vsum NumR l)) (vscale NumR (IZR (Z.of_nat (length l))) (mvec NumR A o)).
Proof.
  induction l as [|x l IH].
  - cbn. v3_start. v3_split; ring.
  - cbn [map length]. rewrite !vsum_cons, IH, Nat2Z.inj_succ, succ_IZR.
    generalize (vsum NumR l) (IZR (Z.of_nat (length l))). intros s N.
    v3_start. v3_split; ring.
Qed.

(* with the mean point as origin, the PCS coordinates of the elements have mean zero *)
Lemma mean_reference_centred (p : probeR) : p_locs p <> [] ->
  let p' := mkProbe (p_locs p) (p_oris p) (mkCS (vmean NumR (p_locs p)) (cs_i (p_pcs p)) (cs_j (p_pcs p))) in
  vmean NumR (locations_pcs NumR p') = vzero NumR.
Proof.
  intros Hne. cbn zeta. unfold locations_pcs. cbn [p_locs p_pcs].
  rewrite (map_ext _ (fun x => mvec NumR (cs_axes NumR (p_pcs p)) (vsub NumR x (vmean NumR (p_locs p))))).
  2:{ intros x. rewrite cs_from_gcs_R. reflexivity. }
  unfold vmean at 1. rewrite vsum_map_from_gcs, map_length. unfold vmean.
  assert (HN : IZR (Z.of_nat (length (p_locs p))) <> 0).
  { apply not_0_IZR. destruct (p_locs p); [contradiction|cbn [length]; lia]. }
  cbn [nofZ NumR]. generalize dependent (IZR (Z.of_nat (length (p_locs p)))). intros N HN.
  generalize (vsum NumR (p_locs p)) (cs_axes NumR (p_pcs p)). intros s A.
  v3_start. v3_split; field; exact HN.
Qed.

(* ---- one arbitrary operation ------------------------------------------------------------------ *)
Lemma apply_op_cases (n : nat) (o : opR) (p : probeR) : good n p -> op_ok n o ->
  exists p', apply_op NumR o p = Some p' /\
    if is_set_ref o
    then p_locs p' = p_locs p /\ p_oris p' = p_oris p /\
         cs_i (p_pcs p') = cs_i (p_pcs p) /\ cs_j (p_pcs p') = cs_j (p_pcs p)
    else exists M t, proper_rotation NumR M /\ moved M t p p'.
Proof.
  intros Hg Hok. pose proof Hg as (Hf & _).
  destruct o as [M ce|v| | |r|]; cbn [apply_op is_set_ref].
  - cbn [op_ok] in Hok. pose proof Hok as [[_ Hc] _].
    destruct (p_rotate_moved M ce p Hc Hf) as (p' & E & Hm). exists p'. split; [exact E|].
    exists M, (centre_shift M ce). split; assumption.
  - destruct (p_translate_moved v p Hf) as (p' & E & Hm). exists p'. split; [exact E|].
    exists (mid3 NumR), v. split; [exact mid3_proper|exact Hm].
  - destruct (p_flip_moved p Hf) as (p' & E & Hm). exists p'. split; [exact E|].
    eexists _, _. split; [apply rotation_matrix_z_proper|exact Hm].
  - destruct (p_to_O_moved p Hf) as (p' & E & Hm). exists p'. split; [exact E|].
    eexists _, _. split; [exact mid3_proper|exact Hm].
  - destruct (p_set_ref_R n r p Hg Hok) as (q & _ & E & _). eexists. split; [exact E|].
    cbn [p_locs p_oris p_pcs cs_i cs_j]. repeat split.
  - destruct (p_reset_moved p Hf) as (p' & E & Hm). exists p'. split; [exact E|].
    eexists _, _. split; [apply frame_axes_proper; exact Hf|exact Hm].
Qed.

Lemma vsub_vzero (x : vec) : vsub NumR x (vzero NumR) = x.
Proof. v3_start. v3_split; ring. Qed.

Lemma vsub_vsub_vadd (x a b : vec) : vsub NumR (vsub NumR x a) b = vsub NumR x (vadd NumR a b).
Proof. v3_start. v3_split; ring. Qed.

(* everything the property says about one step *)
Lemma step_props (n : nat) (o : opR) (p : probeR) : good n p -> op_ok n o ->
  exists p', apply_op NumR o p = Some p' /\ good n p' /\
    (forall (a b : nat) (d : vec), (a < n)%nat -> (b < n)%nat ->
       dist2 (List.nth a (p_locs p') d) (List.nth b (p_locs p') d) =
       dist2 (List.nth a (p_locs p) d) (List.nth b (p_locs p) d)) /\
    (exists d, locations_pcs NumR p' = map (fun x => vsub NumR x d) (locations_pcs NumR p) /\
               (is_set_ref o = false -> d = vzero NumR)) /\
    orientations_pcs NumR p' = orientations_pcs NumR p.
Proof.
  intros Hg Hok. destruct (apply_op_cases n o p Hg Hok) as (p' & E & H).
  exists p'. split; [exact E|]. destruct (is_set_ref o) eqn:Hs.
  - destruct o; try discriminate. destruct (p_set_ref_R n r p Hg Hok) as (q & _ & E' & Hg' & Hl & Ho & _).
    cbn [apply_op] in E. rewrite E' in E. injection E as <-.
    split; [exact Hg'|]. split; [|split].
    + intros a b d _ _. reflexivity.
    + eexists. split; [exact Hl|]. discriminate.
    + exact Ho.
  - destruct H as (M & t & HM & Hm). pose proof Hg as (_ & Hn & _).
    split; [exact (moved_good n M t p p' HM Hm Hg)|]. split; [|split].
    + intros a b d Ha Hb. apply (moved_rigid M t p p' HM Hm); rewrite Hn; assumption.
    + exists (vzero NumR). split; [|reflexivity].
      rewrite (moved_locations_pcs M t p p' HM Hm).
      rewrite (map_ext _ (fun x => x) vsub_vzero), map_id. reflexivity.
    + exact (moved_orientations_pcs n M t p p' HM Hm Hg).
Qed.

(* ---- arbitrary histories ------------------------------------------------------------------------ *)
Lemma run_ops_props (n : nat) (ops : list opR) : forall (p : probeR),
  good n p -> Forall (op_ok n) ops ->
  exists p', run_ops NumR ops p = Some p' /\ good n p' /\
    (forall (a b : nat) (d : vec), (a < n)%nat -> (b < n)%nat ->
       dist2 (List.nth a (p_locs p') d) (List.nth b (p_locs p') d) =
       dist2 (List.nth a (p_locs p) d) (List.nth b (p_locs p) d)) /\
    (exists d, locations_pcs NumR p' = map (fun x => vsub NumR x d) (locations_pcs NumR p) /\
               (forallb (fun o => negb (is_set_ref o)) ops = true -> d = vzero NumR)) /\
    orientations_pcs NumR p' = orientations_pcs NumR p.
Proof.
  induction ops as [|o ops IH]; intros p Hg Hok.
  - exists p. split; [reflexivity|]. split; [exact Hg|]. split; [reflexivity|]. split; [|reflexivity].
    exists (vzero NumR). split; [|reflexivity].
    rewrite (map_ext _ (fun x => x) vsub_vzero), map_id. reflexivity.
  - inversion Hok as [|? ? Ho Hrest]; subst.
    destruct (step_props n o p Hg Ho) as (q & E & Hgq & Hr & (d1 & Hl1 & Hd1) & Ho1).
    destruct (IH q Hgq Hrest) as (p' & E' & Hg' & Hr' & (d2 & Hl2 & Hd2) & Ho2).
    exists p'. cbn [run_ops]. rewrite E. split; [exact E'|]. split; [exact Hg'|]. split; [|split].
    + intros a b d Ha Hb. rewrite (Hr' a b d Ha Hb). apply Hr; assumption.
    + exists (vadd NumR d1 d2). split.
      * rewrite Hl2, Hl1, map_map. apply map_ext. intros x. apply vsub_vsub_vadd.
      * cbn [forallb]. intros H. apply andb_prop in H. destruct H as [H1 H2].
        rewrite (Hd1 (proj1 (Bool.negb_true_iff _) H1)), (Hd2 H2). v3_unfold. v3_split; ring.
    + rewrite Ho2. exact Ho1.
Qed.

(* ---- reset_position ---------------------------------------------------------------------------------- *)
Lemma gcs_from_gcs (x : vec) : cs_from_gcs NumR (gcs NumR) x = x.
Proof. rewrite cs_from_gcs_R. unfold gcs, cs_axes, cs_k. cbn [cs_o cs_i cs_j]. v3_start. v3_split; ring. Qed.

Lemma gcs_axes_id (x : vec) : mvec NumR (cs_axes NumR (gcs NumR)) x = x.
Proof. unfold gcs, cs_axes, cs_k. cbn [cs_o cs_i cs_j]. v3_start. v3_split; ring. Qed.

Lemma reset_restores_R (n : nat) (p : probeR) : good n p ->
  exists p', p_reset NumR p = Some p' /\
    p_pcs p' = gcs NumR /\
    p_locs p' = locations_pcs NumR p /\
    locations_pcs NumR p' = p_locs p' /\
    orientations_pcs NumR p = Some (p_oris p') /\
    orientations_pcs NumR p' = Some (p_oris p').
Proof.
  intros (Hf & _). rewrite (p_reset_R p Hf). eexists. split; [reflexivity|].
  cbn [p_pcs p_locs p_oris]. split; [reflexivity|]. split; [reflexivity|]. split; [|split].
  - unfold locations_pcs at 1. cbn [p_pcs p_locs]. rewrite (map_ext _ (fun x => x) gcs_from_gcs). apply map_id.
  - apply orientations_pcs_R. exact Hf.
  - rewrite orientations_pcs_R by (cbn [p_pcs]; exact gcs_frame_ok). cbn [p_pcs p_oris]. f_equal.
    apply option_map_map_id. exact gcs_axes_id.
Qed.

(* ---- exported oriented points ---------------------------------------------------------------------------- *)
Lemma oriented_points_R (n : nat) (p : probeR) : good n p ->
  length (p_oriented NumR p) = n /\
  proper_rotation NumR (cs_i (p_pcs p), cs_j (p_pcs p), cs_k NumR (p_pcs p)) /\
  forall (e : nat) (d : vec * mat), (e < n)%nat ->
    List.nth e (p_oriented NumR p) d =
    (List.nth e (p_locs p) (fst d), (cs_i (p_pcs p), cs_j (p_pcs p), cs_k NumR (p_pcs p))).
Proof.
  intros (Hf & Hn & _). unfold p_oriented. split; [rewrite map_length; exact Hn|].
  split; [exact (frame_axes_proper _ Hf)|]. intros e d He.
  set (f := fun l : vec => (l, cs_axes NumR (p_pcs p))).
  rewrite (nth_indep _ d (f (fst d))) by (rewrite map_length, Hn; exact He).
  rewrite (map_nth f). reflexivity.
Qed.

(* ---- make_matrix_probe -------------------------------------------------------------------------------------- *)
Lemma fold_Rplus_acc (l : list R) (acc : R) : fold_left Rplus l acc = acc + fold_left Rplus l 0.
Proof.
  revert acc. induction l as [|x l IH]; intros acc; cbn [fold_left]; [ring|].
  rewrite IH, (IH (0 + x)). ring.
Qed.

Lemma arange_sum (m : nat) (pitch : R) :
  nsum NumR (map (fun x => x * pitch) (map (fun k => IZR (Z.of_nat k)) (seq 0 m))) =
  pitch * (IZR (Z.of_nat m) * (IZR (Z.of_nat m) - 1) / 2).
Proof.
  unfold nsum. cbn [nadd n0 NumR]. induction m as [|m IH].
  - cbn. field.
  - rewrite seq_S, !map_app, fold_left_app, IH. cbn [map fold_left Nat.add].
    rewrite Nat2Z.inj_succ, succ_IZR. field.
Qed.

(* element k of an axis of num elements sits at (k - (num-1)/2) * pitch; for num = 1 the
   pitch is ignored by the code and the formula gives 0 as well *)
Definition axis_pos (num : Z) (pitch : R) (k : nat) : R :=
  (IZR (Z.of_nat k) - (IZR num - 1) / 2) * pitch.

Lemma axis_coords_R (num : Z) (pitch : R) : (1 <= num)%Z ->
  axis_coords NumR num pitch = map (axis_pos num pitch) (seq 0 (Z.to_nat num)).
Proof.
  intros H. unfold axis_coords. cbn [nofZ nmul nsub ndiv NumR].
  destruct (Z.ltb_spec 1 num) as [H1|H1].
  - rewrite arange_sum, Z2Nat.id by lia. rewrite !map_map. apply map_ext. intros k.
    unfold axis_pos. assert (IZR num <> 0) by (apply not_0_IZR; lia). field. assumption.
  - assert (num = 1%Z) by lia. subst num. change (Z.to_nat 1) with 1%nat.
    cbn [seq map]. unfold nsum, axis_pos. cbn [fold_left nadd n0 NumR Z.of_nat]. f_equal. field.
Qed.

Lemma nth_grid {A} (f : nat -> nat -> A) (nx : nat) (d : A) : forall (ny s ix iy : nat),
  (ix < nx)%nat -> (iy < ny)%nat ->
  List.nth (iy * nx + ix) (flat_map (fun y => map (fun x => f x y) (seq 0 nx)) (seq s ny)) d = f ix (s + iy)%nat.
Proof.
  induction ny as [|ny IH]; intros s ix iy Hx Hy; [lia|].
  cbn [seq flat_map]. destruct iy as [|iy].
  - cbn [Nat.mul Nat.add]. rewrite app_nth1 by (rewrite map_length, seq_length; exact Hx).
    rewrite (nth_indep _ d (f 0%nat s)) by (rewrite map_length, seq_length; exact Hx).
    rewrite (map_nth (fun x => f x s)), seq_nth by exact Hx. rewrite Nat.add_0_r. reflexivity.
  - rewrite app_nth2 by (rewrite map_length, seq_length; lia).
    rewrite map_length, seq_length.
    replace (S iy * nx + ix - nx)%nat with (iy * nx + ix)%nat by lia.
    rewrite IH by lia. f_equal. lia.
Qed.

Lemma length_grid {A} (f : nat -> nat -> A) (nx : nat) : forall (ny s : nat),
  length (flat_map (fun y => map (fun x => f x y) (seq 0 nx)) (seq s ny)) = (ny * nx)%nat.
Proof.
  induction ny as [|ny IH]; intros s; [reflexivity|].
  cbn [seq flat_map]. rewrite app_length, map_length, seq_length, IH. lia.
Qed.

Lemma flat_map_map {A B C} (g : A -> B) (f : B -> list C) (l : list A) :
  flat_map f (map g l) = flat_map (fun a => f (g a)) l.
Proof. induction l as [|a l IH]; [reflexivity|]. cbn [map flat_map]. rewrite IH. reflexivity. Qed.

Lemma matrix_locations_R (numx numy : Z) (px py : R) : (1 <= numx)%Z -> (1 <= numy)%Z ->
  matrix_locations NumR numx px numy py =
  flat_map (fun iy => map (fun ix => (axis_pos numx px ix, axis_pos numy py iy, 0))
                          (seq 0 (Z.to_nat numx))) (seq 0 (Z.to_nat numy)).
Proof.
  intros Hx Hy. unfold matrix_locations. rewrite (axis_coords_R numx px Hx), (axis_coords_R numy py Hy).
  rewrite flat_map_map. apply flat_map_ext. intros iy. rewrite map_map. reflexivity.
Qed.

(* admissible `orientations` arguments: unit normals, one per element *)
Definition ori_arg_ok (n : nat) (a : ori_arg (T:=R)) : Prop :=
  match a with
  | OriNone => True
  | OriOne v => unit_v v
  | OriEach l => Forall unit_v l /\ length l = n
  end.

Lemma init_oris_ok (n : nat) (a : ori_arg (T:=R)) : ori_arg_ok n a ->
  exists os, init_oris n a = Some os /\
    match os with None => True | Some l => Forall unit_v l /\ length l = n end.
Proof.
  intros Ha. destruct a as [|v|l]; cbn [init_oris ori_arg_ok] in *.
  - exists None. split; [reflexivity|exact I].
  - exists (Some (repeat v n)). split; [reflexivity|]. rewrite repeat_length. split; [|reflexivity].
    apply Forall_forall. intros x Hin. apply repeat_spec in Hin. subst x. exact Ha.
  - destruct Ha as [Hu Hl]. rewrite Hl, Nat.eqb_refl. exists (Some l). split; [reflexivity|]. split; assumption.
Qed.

Lemma make_matrix_probe_R (numx numy : Z) (px py : R) (a : ori_arg) :
  (1 <= numx)%Z -> (1 <= numy)%Z ->
  let n := (Z.to_nat numy * Z.to_nat numx)%nat in
  ori_arg_ok n a ->
  exists p0, make_matrix_probe NumR numx px numy py a = Some p0 /\
    good n p0 /\ (0 < n)%nat /\
    p_pcs p0 = gcs NumR /\
    locations_pcs NumR p0 = p_locs p0 /\
    (forall (ix iy : nat) (d : vec), (ix < Z.to_nat numx)%nat -> (iy < Z.to_nat numy)%nat ->
       List.nth (iy * Z.to_nat numx + ix) (p_locs p0) d = (axis_pos numx px ix, axis_pos numy py iy, 0)).
Proof.
  intros Hx Hy n Ha. unfold make_matrix_probe.
  destruct (Z.ltb_spec numx 1); [lia|]. destruct (Z.ltb_spec numy 1); [lia|]. cbn [orb].
  rewrite (matrix_locations_R numx numy px py Hx Hy).
  set (locs := flat_map _ _).
  assert (Hlen : length locs = n) by apply length_grid.
  match goal with |- context [init_oris ?len a] => replace len with n by (symmetry; exact Hlen) end.
  destruct (init_oris_ok n a Ha) as (os & Eo & Hos). rewrite Eo. eexists. split; [reflexivity|].
  cbn [p_pcs p_locs]. split; [|split; [|split; [|split]]].
  - split; [exact gcs_frame_ok|]. split; [exact Hlen|]. unfold normals_ok. cbn [p_oris p_locs].
    destruct os as [l|]; [|exact I]. destruct Hos as [Hu Hl]. split; [exact Hu|]. rewrite Hl. symmetry. exact Hlen.
  - unfold n. nia.
  - reflexivity.
  - unfold locations_pcs. cbn [p_pcs p_locs]. rewrite (map_ext _ (fun x => x) gcs_from_gcs). apply map_id.
  - intros ix iy d Hix Hiy. unfold locs. rewrite nth_grid by assumption. reflexivity.
Qed.

(* make_matrix_probe raises exactly when a size is < 1 or the normals do not match *)
Lemma make_matrix_probe_error (numx numy : Z) (px py : R) (a : ori_arg) :
  (numx < 1)%Z \/ (numy < 1)%Z -> make_matrix_probe NumR numx px numy py a = None.
Proof.
  intros H. unfold make_matrix_probe.
  destruct (Z.ltb_spec numx 1); [reflexivity|]. destruct (Z.ltb_spec numy 1); [reflexivity|]. lia.
Qed.

(* ---- the property, from make_matrix_probe through any history ---------------------------------------------------- *)
Lemma history_from_matrix_probe (numx numy : Z) (px py : R) (a : ori_arg) (ops : list opR) :
  (1 <= numx)%Z -> (1 <= numy)%Z ->
  let n := (Z.to_nat numy * Z.to_nat numx)%nat in
  ori_arg_ok n a -> Forall (op_ok n) ops ->
  exists p0 p', make_matrix_probe NumR numx px numy py a = Some p0 /\
    run_ops NumR ops p0 = Some p' /\ good n p0 /\ good n p' /\
    (forall (a b : nat) (d : vec), (a < n)%nat -> (b < n)%nat ->
       dist2 (List.nth a (p_locs p') d) (List.nth b (p_locs p') d) =
       dist2 (List.nth a (p_locs p0) d) (List.nth b (p_locs p0) d)) /\
    (exists d, locations_pcs NumR p' = map (fun x => vsub NumR x d) (p_locs p0) /\
               (forallb (fun o => negb (is_set_ref o)) ops = true -> d = vzero NumR)) /\
    orientations_pcs NumR p' = Some (p_oris p0).
Proof.
  intros Hx Hy n Ha Hops.
  destruct (make_matrix_probe_R numx numy px py a Hx Hy Ha) as (p0 & E0 & Hg0 & _ & Hpcs & Hlp & _).
  destruct (run_ops_props n ops p0 Hg0 Hops) as (p' & E & Hg' & Hr & (d & Hl & Hd) & Ho).
  exists p0, p'. split; [exact E0|]. split; [exact E|]. split; [exact Hg0|]. split; [exact Hg'|].
  split; [exact Hr|]. split.
  - exists d. rewrite <- Hlp. split; assumption.
  - rewrite Ho, orientations_pcs_R by apply Hg0. rewrite Hpcs. f_equal.
    apply option_map_map_id. exact gcs_axes_id.
Qed.
