(* Proofs/InterfaceComplex.v — the interface model on complex numbers (pairs of
   reals): energy balance beyond the critical angles (C04 stretch goals).
   Beyond a critical angle the cosine of the refracted angle is purely imaginary
   (cos(pi/2 + i y) = -i sinh y) while its sine stays real (cosh y): the lemmas take
   the coefficients on such inputs, `cim b` = (0, b). *)
Set Warnings "-notation-overridden".
From Coq Require Import Reals Field Lra Nsatz Psatz ZArith.
From Flocq Require Import Core.Raux.
From Arim Require Import Base.Num Base.NumR Model.Interface Proofs.InterfaceProofs.
Local Open Scope R_scope.

Definition cim (b : R) : R * R := (0, b).
Local Notation C := (NumC NumR).

Lemma cre_eq : forall a, cre NumR a = (a, 0). Proof. reflexivity. Qed.

Lemma mul_rr : forall a b, nmul C (a, 0) (b, 0) = (a * b, 0).
Proof. intros. cbn [NumC nmul]. unfold cmul. cbn [fst snd NumR nsub nadd nmul]. apply pair_eq; ring. Qed.
Lemma mul_ri : forall a b, nmul C (a, 0) (cim b) = cim (a * b).
Proof. intros. cbn [NumC nmul]. unfold cmul, cim. cbn [fst snd NumR nsub nadd nmul]. apply pair_eq; ring. Qed.
Lemma mul_ir : forall a b, nmul C (cim a) (b, 0) = cim (a * b).
Proof. intros. cbn [NumC nmul]. unfold cmul, cim. cbn [fst snd NumR nsub nadd nmul]. apply pair_eq; ring. Qed.
Lemma mul_ii : forall a b, nmul C (cim a) (cim b) = (- (a * b), 0).
Proof. intros. cbn [NumC nmul]. unfold cmul, cim. cbn [fst snd NumR nsub nadd nmul]. apply pair_eq; ring. Qed.
Lemma div_rr : forall a b, ndiv C (a, 0) (b, 0) = (a / b, 0).
Proof. intros. cbn [NumC ndiv]. unfold cdiv. cbn [fst snd NumR neqb n0 ndiv]. rewrite (Req_bool_true 0 0 eq_refl).
  apply pair_eq; unfold Rdiv; ring. Qed.
Lemma div_ir : forall a b, ndiv C (cim a) (b, 0) = cim (a / b).
Proof. intros. cbn [NumC ndiv]. unfold cdiv, cim. cbn [fst snd NumR neqb n0 ndiv]. rewrite (Req_bool_true 0 0 eq_refl).
  apply pair_eq; unfold Rdiv; ring. Qed.
Lemma add_rr : forall a b, nadd C (a, 0) (b, 0) = (a + b, 0).
Proof. intros. cbn [NumC nadd]. unfold cadd. cbn [fst snd NumR nadd]. apply pair_eq; ring. Qed.
Lemma sub_rr : forall a b, nsub C (a, 0) (b, 0) = (a - b, 0).
Proof. intros. cbn [NumC nsub]. unfold csub. cbn [fst snd NumR nsub]. apply pair_eq; ring. Qed.
Lemma add_ii : forall a b, nadd C (cim a) (cim b) = cim (a + b).
Proof. intros. cbn [NumC nadd]. unfold cadd, cim. cbn [fst snd NumR nadd]. apply pair_eq; ring. Qed.
Lemma sub_ii : forall a b, nsub C (cim a) (cim b) = cim (a - b).
Proof. intros. cbn [NumC nsub]. unfold csub, cim. cbn [fst snd NumR nsub]. apply pair_eq; ring. Qed.
Lemma add_ri : forall a b, nadd C (a, 0) (cim b) = (a, b).
Proof. intros. cbn [NumC nadd]. unfold cadd, cim. cbn [fst snd NumR nadd]. apply pair_eq; ring. Qed.
Lemma sub_ri : forall a b, nsub C (a, 0) (cim b) = (a, - b).
Proof. intros. cbn [NumC nsub]. unfold csub, cim. cbn [fst snd NumR nsub]. apply pair_eq; ring. Qed.
Lemma opp_r : forall a, nopp C (a, 0) = (- a, 0).
Proof. intros. cbn [NumC nopp]. unfold copp. cbn [fst snd NumR nopp]. apply pair_eq; ring. Qed.
Lemma ofZ_C : forall z, nofZ C z = (IZR z, 0). Proof. reflexivity. Qed.

(* |(x, -y) / (x, y)|^2 = 1 *)
Lemma norm2_conj_quot : forall x y, y <> 0 -> cnorm2 NumR (ndiv C (x, - y) (x, y)) = 1.
Proof.
  intros x y Hy. cbn [NumC ndiv]. unfold cdiv, cnorm2. cbn [fst snd NumR neqb n0 ndiv nadd nmul nsub].
  rewrite Req_bool_false by exact Hy. cbn [fst snd].
  assert (D : x * x + y * y <> 0) by nra. field. exact D.
Qed.

Lemma total_reflection_sc : forall sf cf sl bl st bt rho_f rho_s v_f v_l v_t,
  rho_s <> 0 -> v_l <> 0 -> cf <> 0 -> rho_f <> 0 -> v_f <> 0 -> bl <> 0 ->
  cnorm2 NumR (fst3 (fluid_solid_sc C (sf, 0) (cf, 0) (sl, 0) (cim bl) (st, 0) (cim bt)
                         (rho_f, 0) (rho_s, 0) (v_f, 0) (v_l, 0) (v_t, 0))) = 1.
Proof.
  intros sf cf sl bl st bt rho_f rho_s v_f v_l v_t Hrs Hvl Hcf Hrf Hvf Hbl.
  unfold fluid_solid_sc, fluid_solid_k, fluid_solid_n_k, fst3, sin2, cos2. cbn [fst snd].
  rewrite !ofZ_C.
  repeat (rewrite ?mul_rr, ?mul_ri, ?mul_ir, ?mul_ii, ?div_rr, ?div_ir, ?add_rr, ?sub_rr, ?add_ii, ?sub_ii, ?opp_r).
  rewrite add_ri, sub_ri.
  match goal with |- context [ndiv C (?x, - ?y) (_, _)] =>
     replace (- y) with (- (rho_f * v_f / (rho_s * v_l) * bl / cf)) by (field; repeat split; assumption) end.
  apply norm2_conj_quot.
  unfold Rdiv. repeat apply Rmult_integral_contrapositive_currified; try assumption;
  apply Rinv_neq_0_compat; try assumption. apply Rmult_integral_contrapositive_currified; assumption.
Qed.

Lemma norm2_quot : forall a b x y, y <> 0 ->
  cnorm2 NumR (ndiv C (a, b) (x, y)) = (a * a + b * b) / (x * x + y * y).
Proof.
  intros a b x y Hy. cbn [NumC ndiv]. unfold cdiv, cnorm2. cbn [fst snd NumR neqb n0 ndiv nadd nmul nsub].
  rewrite Req_bool_false by exact Hy. cbn [fst snd].
  assert (D : x * x + y * y <> 0) by nra. field. exact D.
Qed.

Lemma add_pp : forall a b c d, nadd C (a, b) (c, d) = (a + c, b + d). Proof. reflexivity. Qed.
Lemma sub_pp : forall a b c d, nsub C (a, b) (c, d) = (a - c, b - d). Proof. reflexivity. Qed.
Lemma mul_pr : forall a b c, nmul C (a, b) (c, 0) = (a * c, b * c).
Proof. intros. cbn [NumC nmul]. unfold cmul. cbn [fst snd NumR nsub nadd nmul]. apply pair_eq; ring. Qed.
Ltac cnorm := 
  repeat (rewrite ?mul_rr, ?mul_ri, ?mul_ir, ?mul_ii, ?div_rr, ?div_ir, ?add_rr, ?sub_rr, ?add_ii, ?sub_ii, ?opp_r).

Lemma between_sc : forall sf cf sl bl st ct rho_f rho_s v_f v_l v_t,
  0 < rho_f -> 0 < rho_s -> 0 < v_f -> 0 < v_l -> 0 < v_t ->
  0 < cf -> 0 <= sl -> 0 <= st -> 0 < ct -> bl <> 0 ->
  sl * v_t = st * v_l ->
  let r := fluid_solid_sc C (sf, 0) (cf, 0) (sl, 0) (cim bl) (st, 0) (ct, 0)
                         (rho_f, 0) (rho_s, 0) (v_f, 0) (v_l, 0) (v_t, 0) in
  cnorm2 NumR (fst3 r) + cnorm2 NumR (thd3 r) * ((rho_f * v_f * ct) / (rho_s * v_t * cf)) = 1.
Proof.
  intros sf cf sl bl st ct rho_f rho_s v_f v_l v_t Hrf Hrs Hvf Hvl Hvt Hcf Hsl Hst Hct Hbl Hsn. cbv zeta.
  unfold fluid_solid_sc, fluid_solid_k, fluid_solid_n_k, fst3, thd3, sin2, cos2. cbn [fst snd].
  rewrite !ofZ_C. cnorm. unfold cim. rewrite !add_pp, !sub_pp.
  assert (St : st = sl * v_t / v_l) by (rewrite Hsn; field; lra).
  assert (P : 0 < 4 * (v_t * v_t / (v_l * v_l)) * sl * st * ct + rho_f * v_f / (rho_s * v_l) / cf).
  { apply Rplus_le_lt_0_compat.
    - assert (K1 : 0 < v_t * v_t / (v_l * v_l)) by (apply Rdiv_lt_0_compat; nra).
      apply Rmult_le_pos; [apply Rmult_le_pos; [apply Rmult_le_pos; [lra | exact Hsl] | exact Hst] | lra].
    - apply Rdiv_lt_0_compat; [|lra]. apply Rdiv_lt_0_compat; nra. }
  assert (Y : v_t * v_t / (v_l * v_l) * (2 * sl * bl) * (2 * st * ct) + 0 + rho_f * v_f / (rho_s * v_l) * bl / cf <> 0).
  { replace (v_t * v_t / (v_l * v_l) * (2 * sl * bl) * (2 * st * ct) + 0 + rho_f * v_f / (rho_s * v_l) * bl / cf)
      with (bl * (4 * (v_t * v_t / (v_l * v_l)) * sl * st * ct + rho_f * v_f / (rho_s * v_l) / cf))
      by (field; repeat split; lra).
    apply Rmult_integral_contrapositive_currified; lra. }
  rewrite !norm2_quot by exact Y.
  set (X := 0 + (ct * ct - st * st) * (ct * ct - st * st)) in *.
  set (Y1 := v_t * v_t / (v_l * v_l) * (2 * sl * bl) * (2 * st * ct)) in *.
  set (Y2 := rho_f * v_f / (rho_s * v_l) * bl / cf) in *.
  assert (D : X * X + (Y1 + 0 + Y2) * (Y1 + 0 + Y2) <> 0) by nra.
  assert (Y2' : rho_f * v_f * bl / (rho_s * v_l * cf) = Y2) by (unfold Y2; field; repeat split; lra).
  rewrite Y2'.
  assert (E : (0 * 0 + - (2) * (v_t * v_t / (v_l * v_l)) * (2 * sl * bl) * (- (2) * (v_t * v_t / (v_l * v_l)) * (2 * sl * bl)))
              * (rho_f * v_f * ct / (rho_s * v_t * cf)) = 4 * Y1 * Y2).
  { unfold Y1, Y2. rewrite St. field. repeat split; lra. }
  apply Rmult_eq_reg_r with (X * X + (Y1 + 0 + Y2) * (Y1 + 0 + Y2)); [|exact D].
  rewrite Rmult_plus_distr_r. unfold Rdiv at 1 2.
  rewrite (Rmult_assoc _ (/ _) (_ * _ / _)), (Rmult_comm (/ _) (_ * _ / _)), <- (Rmult_assoc _ (_ * _ / _) (/ _)), E.
  field. replace (Y1 + Y2) with (Y1 + 0 + Y2) by ring. exact D.
Qed.

(* T incidence beyond the L critical angle (reflected L wave evanescent, fluid and
   T angles real): |R_TT|^2 + |T|^2 (z_t cos a_f)/(z_f cos a_t) = 1 *)
Lemma solid_t_beyond_l_sc : forall sf cf sl bl st ct rho_f rho_s v_f v_l v_t,
  0 < rho_f -> 0 < rho_s -> 0 < v_f -> 0 < v_l -> 0 < v_t ->
  0 < cf -> 0 <= sl -> 0 <= st -> 0 < ct -> bl <> 0 ->
  sl * v_t = st * v_l ->
  let r := solid_t_fluid_sc C (sf, 0) (cf, 0) (sl, 0) (cim bl) (st, 0) (ct, 0)
                         (rho_f, 0) (rho_s, 0) (v_f, 0) (v_l, 0) (v_t, 0) in
  cnorm2 NumR (snd3 r) + cnorm2 NumR (thd3 r) * ((rho_s * v_t * cf) / (rho_f * v_f * ct)) = 1.
Proof.
  intros sf cf sl bl st ct rho_f rho_s v_f v_l v_t Hrf Hrs Hvf Hvl Hvt Hcf Hsl Hst Hct Hbl Hsn. cbv zeta.
  unfold solid_t_fluid_sc, solid_t_fluid_k, fluid_solid_n_k, snd3, thd3, sin2, cos2. cbn [fst snd].
  rewrite !ofZ_C. cnorm. unfold cim. rewrite !add_pp, !sub_pp.
  assert (St : st = sl * v_t / v_l) by (rewrite Hsn; field; lra).
  assert (P : 0 < 4 * (v_t * v_t / (v_l * v_l)) * sl * st * ct + rho_f * v_f / (rho_s * v_l) / cf).
  { apply Rplus_le_lt_0_compat.
    - assert (K1 : 0 < v_t * v_t / (v_l * v_l)) by (apply Rdiv_lt_0_compat; nra).
      apply Rmult_le_pos; [apply Rmult_le_pos; [apply Rmult_le_pos; [lra | exact Hsl] | exact Hst] | lra].
    - apply Rdiv_lt_0_compat; [|lra]. apply Rdiv_lt_0_compat; nra. }
  assert (Y : v_t * v_t / (v_l * v_l) * (2 * sl * bl) * (2 * st * ct) + 0 + rho_f * v_f / (rho_s * v_l) * bl / cf <> 0).
  { replace (v_t * v_t / (v_l * v_l) * (2 * sl * bl) * (2 * st * ct) + 0 + rho_f * v_f / (rho_s * v_l) * bl / cf)
      with (bl * (4 * (v_t * v_t / (v_l * v_l)) * sl * st * ct + rho_f * v_f / (rho_s * v_l) / cf))
      by (field; repeat split; lra).
    apply Rmult_integral_contrapositive_currified; lra. }
  rewrite !mul_pr.
  set (X := (ct * ct - st * st) * (ct * ct - st * st)) in *.
  set (Y1 := v_t * v_t / (v_l * v_l) * (2 * sl * bl) * (2 * st * ct)) in *.
  set (Y2 := rho_f * v_f / (rho_s * v_l) * bl / cf) in *.
  set (m := rho_s * v_l * cf).
  assert (M : m <> 0) by (unfold m; repeat apply Rmult_integral_contrapositive_currified; lra).
  replace ((0 + X + 0) * rho_s * v_l * cf) with ((0 + X + 0) * m) by (unfold m; ring).
  replace ((Y1 + 0 + Y2) * rho_s * v_l * cf) with ((Y1 + 0 + Y2) * m) by (unfold m; ring).
  assert (Ym : (Y1 + 0 + Y2) * m <> 0) by (apply Rmult_integral_contrapositive_currified; assumption).
  rewrite norm2_quot by exact Y. rewrite norm2_quot by exact Ym.
  assert (D : X * X + (Y1 + 0 + Y2) * (Y1 + 0 + Y2) <> 0) by nra.
  assert (E : (0 * 0 + 2 * rho_f * v_f * bl * (2 * st * ct) * (2 * rho_f * v_f * bl * (2 * st * ct)))
              * (rho_s * v_t * cf / (rho_f * v_f * ct)) = 4 * Y1 * Y2 * (m * m)).
  { unfold Y1, Y2, m. rewrite St. field. repeat split; lra. }
  apply Rmult_eq_reg_r with ((X * X + (Y1 + 0 + Y2) * (Y1 + 0 + Y2)) * (m * m));
    [| apply Rmult_integral_contrapositive_currified; [exact D | nra] ].
  transitivity ((0 - X - 0) * (0 - X - 0) * (m * m) + (Y1 - 0 - Y2) * (Y1 - 0 - Y2) * (m * m)
                + (0 * 0 + 2 * rho_f * v_f * bl * (2 * st * ct) * (2 * rho_f * v_f * bl * (2 * st * ct)))
                  * (rho_s * v_t * cf / (rho_f * v_f * ct))).
  - assert (D1 : X * X + (Y1 + Y2) * (Y1 + Y2) <> 0).
    { replace (X * X + (Y1 + Y2) * (Y1 + Y2)) with (X * X + (Y1 + 0 + Y2) * (Y1 + 0 + Y2)) by ring. exact D. }
    assert (D2 : X * m * (X * m) + (Y1 + Y2) * m * ((Y1 + Y2) * m) <> 0).
    { replace (X * m * (X * m) + (Y1 + Y2) * m * ((Y1 + Y2) * m))
        with ((X * X + (Y1 + Y2) * (Y1 + Y2)) * (m * m)) by ring.
      apply Rmult_integral_contrapositive_currified; [exact D1 | nra]. }
    field. repeat split; try lra; try exact M; try exact D1; try exact D2.
  - rewrite E. ring.
Qed.

(* ---- double angles; the _ang layer on complex angles ------------------------- *)
Lemma rcosh_R : forall y, rcosh NumR y = (exp y + exp (- y)) / 2.
Proof. reflexivity. Qed.

Lemma exp_2 : forall y, exp (2 * y) = exp y * exp y.
Proof. intro y. replace (2 * y) with (y + y) by ring. apply exp_plus. Qed.

Lemma two_z : forall a b, nmul C (nofZ C 2%Z) (a, b) = (2 * a, 2 * b).
Proof. intros. rewrite ofZ_C. cbn [NumC nmul]. unfold cmul. cbn [fst snd NumR nsub nadd nmul]. apply pair_eq; ring. Qed.
Lemma four_z : forall a b, nmul C (nofZ C 4%Z) (a, b) = (2 * (2 * a), 2 * (2 * b)).
Proof. intros. rewrite ofZ_C. cbn [NumC nmul]. unfold cmul. cbn [fst snd NumR nsub nadd nmul]. apply pair_eq; ring. Qed.

Lemma csin_2 : forall a b,
  csin NumR (2 * a, 2 * b) = nmul C (nmul C (nofZ C 2%Z) (csin NumR (a, b))) (ccos NumR (a, b)).
Proof.
  intros a b. unfold csin, ccos. cbn [fst snd]. rewrite two_z. cbn [NumC nmul]. unfold cmul. cbn [fst snd].
  rewrite !rcosh_R, !rsinh_R. cbn [NumR nsin ncos nmul nsub nadd nopp].
  rewrite sin_2a, cos_2a. replace (- (2 * b)) with (2 * - b) by ring. rewrite !exp_2.
  rewrite (exp_Ropp b). pose proof (exp_pos b) as E.
  apply pair_eq; field; lra.
Qed.

Lemma ccos_2 : forall a b,
  ccos NumR (2 * a, 2 * b)
  = nsub C (nmul C (ccos NumR (a, b)) (ccos NumR (a, b))) (nmul C (csin NumR (a, b)) (csin NumR (a, b))).
Proof.
  intros a b. unfold csin, ccos. cbn [fst snd]. cbn [NumC nmul nsub]. unfold cmul, csub. cbn [fst snd].
  rewrite !rcosh_R, !rsinh_R. cbn [NumR nsin ncos nmul nsub nadd nopp].
  rewrite sin_2a, cos_2a. replace (- (2 * b)) with (2 * - b) by ring. rewrite !exp_2.
  rewrite (exp_Ropp b). pose proof (exp_pos b) as E.
  pose proof (sin2_cos2 a) as P. unfold Rsqr in P.
  apply pair_eq; field_simplify_eq; try lra; cbn [Rpow_def.pow]; nsatz.
Qed.

Lemma csin_4 : forall a b,
  csin NumR (2 * (2 * a), 2 * (2 * b)) = sin4 C (csin NumR (a, b)) (ccos NumR (a, b)).
Proof.
  intros a b. unfold sin4, sin2, cos2. rewrite csin_2, csin_2, ccos_2. reflexivity.
Qed.

Lemma ang_sc_fluid_solid_C : forall a_f a_l a_t rho_f rho_s v_f v_l v_t,
  fluid_solid_ang C a_f a_l a_t rho_f rho_s v_f v_l v_t
  = fluid_solid_sc C (csin NumR a_f) (ccos NumR a_f) (csin NumR a_l) (ccos NumR a_l)
                     (csin NumR a_t) (ccos NumR a_t) rho_f rho_s v_f v_l v_t.
Proof.
  intros [af1 af2] [al1 al2] [at1 at2] *. unfold fluid_solid_ang, fluid_solid_sc, sin2, cos2.
  rewrite !two_z. change (nsin C) with (csin NumR). change (ncos C) with (ccos NumR).
  rewrite !csin_2, ccos_2. reflexivity.
Qed.
Lemma ang_sc_solid_l_C : forall a_f a_l a_t rho_f rho_s v_f v_l v_t,
  solid_l_fluid_ang C a_f a_l a_t rho_f rho_s v_f v_l v_t
  = solid_l_fluid_sc C (csin NumR a_f) (ccos NumR a_f) (csin NumR a_l) (ccos NumR a_l)
                     (csin NumR a_t) (ccos NumR a_t) rho_f rho_s v_f v_l v_t.
Proof.
  intros [af1 af2] [al1 al2] [at1 at2] *. unfold solid_l_fluid_ang, solid_l_fluid_sc, sin2, cos2.
  rewrite !two_z. change (nsin C) with (csin NumR). change (ncos C) with (ccos NumR).
  rewrite !csin_2, ccos_2. reflexivity.
Qed.
Lemma ang_sc_solid_t_C : forall a_f a_l a_t rho_f rho_s v_f v_l v_t,
  solid_t_fluid_ang C a_f a_l a_t rho_f rho_s v_f v_l v_t
  = solid_t_fluid_sc C (csin NumR a_f) (ccos NumR a_f) (csin NumR a_l) (ccos NumR a_l)
                     (csin NumR a_t) (ccos NumR a_t) rho_f rho_s v_f v_l v_t.
Proof.
  intros [af1 af2] [al1 al2] [at1 at2] *. unfold solid_t_fluid_ang, solid_t_fluid_sc.
  rewrite !two_z, four_z. change (nsin C) with (csin NumR). change (ncos C) with (ccos NumR).
  rewrite csin_4. unfold sin2, cos2. rewrite !csin_2, ccos_2. reflexivity.
Qed.

(* trig of the angles snell_angles returns *)
Lemma ccos_real : forall x, ccos NumR (x, 0) = (cos x, 0).
Proof.
  intro x. unfold ccos. cbn [fst snd]. rewrite rcosh_0, rsinh_0.
  cbn [NumR nsin ncos nmul nopp]. apply pair_eq; ring.
Qed.

Lemma rsinh_pos : forall y, 0 < y -> 0 < rsinh NumR y.
Proof.
  intros y Hy. rewrite rsinh_R. assert (exp (- y) < exp y) by (apply exp_increasing; lra). lra.
Qed.

Lemma racosh_pos : forall s, 1 < s -> 0 < racosh NumR s.
Proof.
  intros s Hs. rewrite racosh_R by lra.
  pose proof (sqrt_pos ((s - 1) * (s + 1))) as Q0.
  rewrite <- ln_1. apply ln_increasing; lra.
Qed.

(* beyond the critical angle: sin real (= the Snell sine), cos = -i sinh(acosh s) *)
Lemma post_critical_trig : forall alpha a b, a <> 0 -> 1 < b / a * sin alpha ->
  let beta := snell_angles C (alpha, 0) (cre NumR a) (cre NumR b) in
  exists bl, bl <> 0 /\ csin NumR beta = (b / a * sin alpha, 0) /\ ccos NumR beta = cim bl.
Proof.
  intros alpha a b Ha Hs. cbv zeta.
  exists (- rsinh NumR (racosh NumR (b / a * sin alpha))).
  split; [| split].
  - pose proof (rsinh_pos _ (racosh_pos _ Hs)). lra.
  - unfold snell_angles. change (nsin C) with (csin NumR). change (nasin C) with (carcsin NumR).
    rewrite snell_sin_C_real by exact Ha. apply csin_carcsin_real.
  - unfold snell_angles. change (nsin C) with (csin NumR). change (nasin C) with (carcsin NumR).
    rewrite snell_sin_C_real by exact Ha. unfold carcsin.
    cbn [fst snd NumR neqb nltb n0 n1 nopp npi ndiv nofZ nasin].
    rewrite (Req_bool_true 0 0 eq_refl). rewrite Rlt_bool_true by exact Hs.
    unfold ccos, cim. cbn [fst snd NumR nsin ncos nmul nopp]. rewrite sin_PI2, cos_PI2.
    apply pair_eq; ring.
Qed.

Lemma pre_critical_trig : forall alpha a b, 0 <= alpha < PI / 2 -> 0 < a -> 0 < b -> b / a * sin alpha < 1 ->
  let beta := snell_angles C (alpha, 0) (cre NumR a) (cre NumR b) in
  exists c, 0 < c /\ csin NumR beta = (b / a * sin alpha, 0) /\ ccos NumR beta = (c, 0).
Proof.
  intros alpha a b Hal Ha Hb Hs. cbv zeta.
  assert (S0 : 0 <= sin alpha) by (apply sin_ge_0; [lra| pose proof PI_RGT_0; lra]).
  assert (X0 : 0 <= b / a * sin alpha).
  { apply Rmult_le_pos; [|exact S0]. apply Rlt_le, Rdiv_lt_0_compat; lra. }
  rewrite snell_angles_C_pre by lra.
  destruct (snell_real_facts alpha a b Hal Ha Hb Hs) as (SB & _ & CB & _).
  exists (cos (snell_angles NumR alpha a b)). split; [exact CB | split].
  - rewrite csin_real. apply pair_eq; [|reflexivity].
    apply Rmult_eq_reg_r with a; [|lra]. rewrite SB. field. lra.
  - apply ccos_real.
Qed.

(* fluid -> solid, complex dtype, beyond both critical angles: |R| = 1 *)
Lemma total_reflection_auto : forall alpha rho_f rho_s v_f v_l v_t,
  0 < rho_f -> 0 < rho_s -> 0 < v_f -> 0 < v_l -> 0 < v_t ->
  0 <= alpha < PI / 2 -> 1 < v_l / v_f * sin alpha -> 1 < v_t / v_f * sin alpha ->
  cnorm2 NumR (fst3 (fluid_solid_auto C (alpha, 0) (cre NumR rho_f) (cre NumR rho_s)
                       (cre NumR v_f) (cre NumR v_l) (cre NumR v_t))) = 1.
Proof.
  intros alpha rho_f rho_s v_f v_l v_t Hrf Hrs Hvf Hvl Hvt Hal HL HT.
  unfold fluid_solid_auto. rewrite ang_sc_fluid_solid_C.
  destruct (post_critical_trig alpha v_f v_l) as (bl & Hbl & SL & CL); [lra | exact HL |].
  destruct (post_critical_trig alpha v_f v_t) as (bt & Hbt & ST & CT); [lra | exact HT |].
  rewrite SL, CL, ST, CT, csin_real, ccos_real. unfold cre. cbn [NumR n0].
  apply total_reflection_sc; try lra.
  apply Rgt_not_eq, cos_gt_0; lra.
Qed.

(* between the critical angles: |R|^2 + |T_T|^2 (z_f cos a_t)/(z_t cos a_f) = 1 *)
Lemma between_criticals_auto : forall alpha rho_f rho_s v_f v_l v_t,
  0 < rho_f -> 0 < rho_s -> 0 < v_f -> 0 < v_l -> 0 < v_t ->
  0 <= alpha < PI / 2 -> 1 < v_l / v_f * sin alpha -> v_t / v_f * sin alpha < 1 ->
  let a_t := snell_angles NumR alpha v_f v_t in
  let r := fluid_solid_auto C (alpha, 0) (cre NumR rho_f) (cre NumR rho_s)
                       (cre NumR v_f) (cre NumR v_l) (cre NumR v_t) in
  cnorm2 NumR (fst3 r) + cnorm2 NumR (thd3 r) * ((rho_f * v_f * cos a_t) / (rho_s * v_t * cos alpha)) = 1.
Proof.
  intros alpha rho_f rho_s v_f v_l v_t Hrf Hrs Hvf Hvl Hvt Hal HL HT. cbv zeta.
  unfold fluid_solid_auto. rewrite ang_sc_fluid_solid_C.
  destruct (post_critical_trig alpha v_f v_l) as (bl & Hbl & SL & CL); [lra | exact HL |].
  assert (S0 : 0 <= sin alpha) by (apply sin_ge_0; [lra| pose proof PI_RGT_0; lra]).
  assert (X0 : 0 <= v_t / v_f * sin alpha).
  { apply Rmult_le_pos; [|exact S0]. apply Rlt_le, Rdiv_lt_0_compat; lra. }
  rewrite (snell_angles_C_pre alpha v_f v_t) by lra.
  destruct (snell_real_facts alpha v_f v_t Hal Hvf Hvt HT) as (SB & SB0 & CB & _).
  rewrite SL, CL, !csin_real, !ccos_real. unfold cre. cbn [NumR n0].
  apply between_sc; try lra.
  - apply cos_gt_0; lra.
  - apply Rmult_eq_reg_r with v_f; [|lra].
    replace (sin (snell_angles NumR alpha v_f v_t) * v_l * v_f)
      with (sin (snell_angles NumR alpha v_f v_t) * v_f * v_l) by ring.
    rewrite SB. field. lra.
Qed.

(* T incidence, complex dtype, beyond the L critical angle, below the fluid one *)
Lemma solid_t_beyond_l_auto : forall alpha rho_f rho_s v_f v_l v_t,
  0 < rho_f -> 0 < rho_s -> 0 < v_f -> 0 < v_l -> 0 < v_t ->
  0 <= alpha < PI / 2 -> 1 < v_l / v_t * sin alpha -> v_f / v_t * sin alpha < 1 ->
  let a_f := snell_angles NumR alpha v_t v_f in
  let r := solid_t_fluid_auto C (alpha, 0) (cre NumR rho_f) (cre NumR rho_s)
                       (cre NumR v_f) (cre NumR v_l) (cre NumR v_t) in
  cnorm2 NumR (snd3 r) + cnorm2 NumR (thd3 r) * ((rho_s * v_t * cos a_f) / (rho_f * v_f * cos alpha)) = 1.
Proof.
  intros alpha rho_f rho_s v_f v_l v_t Hrf Hrs Hvf Hvl Hvt Hal HL HF. cbv zeta.
  unfold solid_t_fluid_auto. rewrite ang_sc_solid_t_C.
  destruct (post_critical_trig alpha v_t v_l) as (bl & Hbl & SL & CL); [lra | exact HL |].
  assert (S0 : 0 <= sin alpha) by (apply sin_ge_0; [lra| pose proof PI_RGT_0; lra]).
  assert (X0 : 0 <= v_f / v_t * sin alpha).
  { apply Rmult_le_pos; [|exact S0]. apply Rlt_le, Rdiv_lt_0_compat; lra. }
  rewrite (snell_angles_C_pre alpha v_t v_f) by lra.
  destruct (snell_real_facts alpha v_t v_f Hal Hvt Hvf HF) as (SB & SB0 & CB & _).
  rewrite SL, CL, !csin_real, !ccos_real. unfold cre. cbn [NumR n0].
  apply solid_t_beyond_l_sc; try lra.
  - apply cos_gt_0; lra.
  - field. lra.
Qed.

(* the Stokes relations for the functions as called with three COMPLEX angles *)
Lemma stokes_fl_C_angles : forall a_f a_l a_t rho_f rho_s v_f v_l v_t,
  ccos NumR a_f <> n0 C -> rho_s <> n0 C -> v_l <> n0 C ->
  fluid_solid_n_ang C a_f a_l a_t rho_f rho_s v_f v_l v_t <> n0 C ->
  thd3 (solid_l_fluid_ang C a_f a_l a_t rho_f rho_s v_f v_l v_t)
  = nmul C (snd3 (fluid_solid_ang C a_f a_l a_t rho_f rho_s v_f v_l v_t))
           (ndiv C (nmul C (nmul C rho_f v_f) (ccos NumR a_l)) (nmul C (nmul C rho_s v_l) (ccos NumR a_f))).
Proof.
  intros a_f a_l a_t rho_f rho_s v_f v_l v_t Hc Hr Hv Hn.
  rewrite ang_sc_solid_l_C, ang_sc_fluid_solid_C.
  apply (stokes_fl_F C NumC_R_field NumC_R_two); try assumption.
  unfold fluid_solid_n_sc. unfold fluid_solid_n_ang in Hn.
  destruct a_f as [af1 af2], a_l as [al1 al2], a_t as [at1 at2].
  rewrite !two_z in Hn. change (nsin C) with (csin NumR) in Hn. change (ncos C) with (ccos NumR) in Hn.
  rewrite !csin_2, ccos_2 in Hn. exact Hn.
Qed.

(* ---- T incidence beyond the L AND the fluid critical angle (fluid faster than the
   T wave): the reflected L wave and the transmitted wave are evanescent,
   |R_TT| = 1 *)
Lemma div_ii : forall a b, b <> 0 -> ndiv C (cim a) (cim b) = (a / b, 0).
Proof.
  intros a b Hb. cbn [NumC ndiv]. unfold cdiv, cim. cbn [fst snd NumR neqb n0 ndiv nadd nmul nsub].
  rewrite Req_bool_false by exact Hb. cbn [fst snd]. apply pair_eq; field; exact Hb.
Qed.

Lemma norm2_quot_eq : forall a b x y, y <> 0 -> a * a + b * b = x * x + y * y ->
  cnorm2 NumR (ndiv C (a, b) (x, y)) = 1.
Proof.
  intros a b x y Hy E. rewrite norm2_quot by exact Hy. rewrite E.
  assert (D : x * x + y * y <> 0) by nra. field. exact D.
Qed.

Lemma solid_t_total_sc : forall sf bf sl bl st ct rho_f rho_s v_f v_l v_t,
  0 < rho_f -> 0 < rho_s -> 0 < v_f -> 0 < v_l -> 0 < v_t ->
  bf <> 0 -> 0 < sl -> 0 < st -> 0 < ct -> bl <> 0 ->
  cnorm2 NumR (snd3 (solid_t_fluid_sc C (sf, 0) (cim bf) (sl, 0) (cim bl) (st, 0) (ct, 0)
                         (rho_f, 0) (rho_s, 0) (v_f, 0) (v_l, 0) (v_t, 0))) = 1.
Proof.
  intros sf bf sl bl st ct rho_f rho_s v_f v_l v_t Hrf Hrs Hvf Hvl Hvt Hbf Hsl Hst Hct Hbl.
  unfold solid_t_fluid_sc, solid_t_fluid_k, fluid_solid_n_k, snd3, sin2, cos2. cbn [fst snd].
  rewrite !ofZ_C. cnorm. rewrite !div_ii by exact Hbf. cnorm. unfold cim. rewrite !add_pp, !sub_pp.
  apply norm2_quot_eq; [| ring].
  assert (K1 : 0 < v_t * v_t / (v_l * v_l)) by (apply Rdiv_lt_0_compat; nra).
  replace (v_t * v_t / (v_l * v_l) * (2 * sl * bl) * (2 * st * ct) + 0 + 0)
    with (bl * (4 * (v_t * v_t / (v_l * v_l)) * sl * st * ct)) by ring.
  apply Rmult_integral_contrapositive_currified; [exact Hbl|].
  apply Rgt_not_eq, Rlt_gt.
  apply Rmult_lt_0_compat; [apply Rmult_lt_0_compat; [apply Rmult_lt_0_compat; [lra | exact Hsl] | exact Hst] | exact Hct].
Qed.

Lemma solid_t_total_auto : forall alpha rho_f rho_s v_f v_l v_t,
  0 < rho_f -> 0 < rho_s -> 0 < v_f -> 0 < v_l -> 0 < v_t ->
  0 <= alpha < PI / 2 -> 1 < v_l / v_t * sin alpha -> 1 < v_f / v_t * sin alpha ->
  cnorm2 NumR (snd3 (solid_t_fluid_auto C (alpha, 0) (cre NumR rho_f) (cre NumR rho_s)
                       (cre NumR v_f) (cre NumR v_l) (cre NumR v_t))) = 1.
Proof.
  intros alpha rho_f rho_s v_f v_l v_t Hrf Hrs Hvf Hvl Hvt Hal HL HF.
  unfold solid_t_fluid_auto. rewrite ang_sc_solid_t_C.
  destruct (post_critical_trig alpha v_t v_l) as (bl & Hbl & SL & CL); [lra | exact HL |].
  destruct (post_critical_trig alpha v_t v_f) as (bf & Hbf & SF & CF); [lra | exact HF |].
  rewrite SL, CL, SF, CF, csin_real, ccos_real. unfold cre. cbn [NumR n0].
  assert (S1 : 0 < sin alpha).
  { destruct (Rle_lt_or_eq_dec 0 (sin alpha)) as [H|H].
    - apply sin_ge_0; [lra | pose proof PI_RGT_0; lra].
    - exact H.
    - rewrite <- H in HL. lra. }
  apply solid_t_total_sc; try lra.
  apply cos_gt_0; lra.
Qed.

(* ---- the other two Stokes relations for three complex angles ------------------- *)
Lemma n_ang_sc_C : forall a_f a_l a_t rho_f rho_s v_f v_l v_t,
  fluid_solid_n_ang C a_f a_l a_t rho_f rho_s v_f v_l v_t
  = fluid_solid_n_sc C (csin NumR a_f) (ccos NumR a_f) (csin NumR a_l) (ccos NumR a_l)
                       (csin NumR a_t) (ccos NumR a_t) rho_f rho_s v_f v_l v_t.
Proof.
  intros [af1 af2] [al1 al2] [at1 at2] *. unfold fluid_solid_n_ang, fluid_solid_n_sc, sin2, cos2.
  rewrite !two_z. change (nsin C) with (csin NumR). change (ncos C) with (ccos NumR).
  rewrite !csin_2, ccos_2. reflexivity.
Qed.

Lemma stokes_ft_C_angles : forall a_f a_l a_t rho_f rho_s v_f v_l v_t,
  ccos NumR a_f <> n0 C -> rho_s <> n0 C -> v_l <> n0 C -> v_t <> n0 C ->
  nmul C (csin NumR a_l) v_t = nmul C (csin NumR a_t) v_l ->
  fluid_solid_n_ang C a_f a_l a_t rho_f rho_s v_f v_l v_t <> n0 C ->
  thd3 (solid_t_fluid_ang C a_f a_l a_t rho_f rho_s v_f v_l v_t)
  = nmul C (nopp C (thd3 (fluid_solid_ang C a_f a_l a_t rho_f rho_s v_f v_l v_t)))
           (ndiv C (nmul C (nmul C rho_f v_f) (ccos NumR a_t)) (nmul C (nmul C rho_s v_t) (ccos NumR a_f))).
Proof.
  intros a_f a_l a_t rho_f rho_s v_f v_l v_t Hc Hr Hv Hvt Hsn Hn.
  rewrite ang_sc_solid_t_C, ang_sc_fluid_solid_C. rewrite n_ang_sc_C in Hn.
  apply (stokes_ft_F C NumC_R_field NumC_R_two); assumption.
Qed.

Lemma stokes_lt_C_angles : forall a_f a_l a_t rho_f rho_s v_f v_l v_t,
  ccos NumR a_l <> n0 C -> rho_s <> n0 C -> v_l <> n0 C -> v_t <> n0 C ->
  nmul C (csin NumR a_l) v_t = nmul C (csin NumR a_t) v_l ->
  fluid_solid_n_ang C a_f a_l a_t rho_f rho_s v_f v_l v_t <> n0 C ->
  fst3 (solid_t_fluid_ang C a_f a_l a_t rho_f rho_s v_f v_l v_t)
  = nmul C (nopp C (snd3 (solid_l_fluid_ang C a_f a_l a_t rho_f rho_s v_f v_l v_t)))
           (ndiv C (nmul C (nmul C rho_s v_l) (ccos NumR a_t)) (nmul C (nmul C rho_s v_t) (ccos NumR a_l))).
Proof.
  intros a_f a_l a_t rho_f rho_s v_f v_l v_t Hc Hr Hv Hvt Hsn Hn.
  rewrite ang_sc_solid_t_C, ang_sc_solid_l_C. rewrite n_ang_sc_C in Hn.
  apply (stokes_lt_F C NumC_R_field NumC_R_two); assumption.
Qed.

(* ---- normal incidence, complex dtype -------------------------------------------- *)
Lemma snell_angles_C_0 : forall a b, a <> 0 ->
  snell_angles C (0, 0) (cre NumR a) (cre NumR b) = (0, 0).
Proof.
  intros a b Ha. rewrite snell_angles_C_pre by (try exact Ha; rewrite sin_0; lra).
  rewrite snell_angles_0. reflexivity.
Qed.

Lemma normal_incidence_C : forall rho_f rho_s v_f v_l v_t,
  0 < rho_f -> 0 < rho_s -> 0 < v_f -> 0 < v_l -> 0 < v_t ->
  let zf := rho_f * v_f in let zl := rho_s * v_l in
  fluid_solid_auto C (0, 0) (cre NumR rho_f) (cre NumR rho_s) (cre NumR v_f) (cre NumR v_l) (cre NumR v_t)
    = (((zl - zf) / (zl + zf), 0), (2 * zl / (zl + zf), 0), (0, 0)) /\
  solid_l_fluid_auto C (0, 0) (cre NumR rho_f) (cre NumR rho_s) (cre NumR v_f) (cre NumR v_l) (cre NumR v_t)
    = (((zf - zl) / (zl + zf), 0), (0, 0), (2 * zf / (zl + zf), 0)) /\
  solid_t_fluid_auto C (0, 0) (cre NumR rho_f) (cre NumR rho_s) (cre NumR v_f) (cre NumR v_l) (cre NumR v_t)
    = ((0, 0), (-1, 0), (0, 0)).
Proof.
  intros rho_f rho_s v_f v_l v_t Hrf Hrs Hvf Hvl Hvt. cbv zeta.
  unfold fluid_solid_auto, solid_l_fluid_auto, solid_t_fluid_auto.
  rewrite !snell_angles_C_0 by lra.
  rewrite ang_sc_fluid_solid_C, ang_sc_solid_l_C, ang_sc_solid_t_C.
  rewrite csin_real, ccos_real, sin_0, cos_0.
  assert (Z : rho_s * v_l + rho_f * v_f <> 0) by nra.
  assert (Z2 : rho_s * v_l <> 0) by nra.
  unfold fluid_solid_sc, solid_l_fluid_sc, solid_t_fluid_sc, fluid_solid_k, solid_l_fluid_k, solid_t_fluid_k,
         fluid_solid_n_k, sin4, sin2, cos2, cre. cbn [NumR n0].
  rewrite !ofZ_C. cnorm.
  repeat split; (apply f_equal2; [apply f_equal2 |]); apply pair_eq; try reflexivity; try (field; repeat split; try lra; apply Rgt_not_eq; nra).
Qed.
