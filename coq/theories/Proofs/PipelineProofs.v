(* Proofs/PipelineProofs.v — lemmas for C08, part 3: the public multi-frequency entry points
   (Model/Pipeline.v): ray_weights_for_views, scat_unshifted_transfer_functions,
   timeshift_spectra, singlefreq_/multifreq_scat_transfer_functions.
   Everything up to the last section is for ANY numeric instance (no axioms). *)
From Coq Require Import List ZArith Bool Arith Lia.
From Arim Require Import Base.Num Model.Interface Model.Weights Model.Beamspread Model.ScatMatrix
                         Model.Chunk Model.Amplitudes Model.Pipeline
                         Proofs.AmplitudesProofs Proofs.AmplitudesWeightsProofs.
Import ListNotations.

(* ---------- options and lists ------------------------------------------------------------ *)
Lemma mapM_nth_error_inv {A B} (f : A -> option B) l ys k y :
  mapM f l = Some ys -> nth_error ys k = Some y -> exists x, nth_error l k = Some x /\ f x = Some y.
Proof.
  intros H Hy. pose proof (mapM_length _ _ _ H) as L.
  destruct (nth_error l k) as [x|] eqn:Ex.
  - destruct (mapM_nth_error _ _ _ _ _ H Ex) as (y' & Hy' & Hn). rewrite Hn in Hy. inversion Hy; subst y'.
    exists x. split; [reflexivity | exact Hy'].
  - apply nth_error_None in Ex. assert (Hk : k < length ys) by (apply nth_error_Some; rewrite Hy; discriminate). lia.
Qed.

Lemma mapM_keys {A B} (f : A -> option B) (key : B -> A) l ys :
  (forall x y, f x = Some y -> key y = x) -> mapM f l = Some ys -> map key ys = l.
Proof.
  intros Hk. revert ys. induction l as [|x l IH]; intros ys H; cbn in H.
  - inversion H. reflexivity.
  - destruct (f x) as [y|] eqn:E; [|discriminate]. destruct (mapM f l) as [ys'|]; [|discriminate].
    cbn in H. inversion H; subst ys. cbn. rewrite (Hk x y E), (IH ys' eq_refl). reflexivity.
Qed.

Lemma mapM_find {B} (f : nat -> option B) (key : B -> nat) l ys k :
  (forall x y, f x = Some y -> key y = x) -> mapM f l = Some ys -> In k l ->
  exists e, f k = Some e /\ find (fun e => key e =? k) ys = Some e.
Proof.
  intros Hk. revert ys. induction l as [|x l IH]; intros ys H Hin; [contradiction|]. cbn in H.
  destruct (f x) as [y|] eqn:E; [|discriminate]. destruct (mapM f l) as [ys'|] eqn:E'; [|discriminate].
  cbn in H. inversion H; subst ys. cbn [find]. rewrite (Hk x y E).
  destruct (Nat.eqb_spec x k) as [Exk|Nxk].
  - subst x. exists y. split; [exact E | reflexivity].
  - destruct Hin as [Hx|Hin]; [contradiction|]. exact (IH ys' eq_refl Hin).
Qed.

Lemma mapM_find_none {B} (f : nat -> option B) (key : B -> nat) l ys k :
  (forall x y, f x = Some y -> key y = x) -> mapM f l = Some ys -> ~ In k l ->
  find (fun e => key e =? k) ys = None.
Proof.
  intros Hk H Hnin. rewrite <- (mapM_keys f key l ys Hk H) in Hnin.
  destruct (find (fun e => key e =? k) ys) as [e|] eqn:E; [|reflexivity].
  apply find_some in E as [Hin He]. apply Nat.eqb_eq in He. exfalso. apply Hnin. rewrite <- He. apply in_map. exact Hin.
Qed.

Lemma mem_In k l : mem k l = true <-> In k l.
Proof.
  unfold mem. rewrite existsb_exists. split.
  - intros (x & Hx & E). apply Nat.eqb_eq in E. subst x. exact Hx.
  - intros H. exists k. split; [exact H | apply Nat.eqb_refl].
Qed.

Lemma nth_error_seq0 n k : k < n -> nth_error (seq 0 n) k = Some k.
Proof.
  intros H. rewrite nth_error_nth' with (d := 0) by (rewrite seq_length; exact H). rewrite seq_nth by exact H. reflexivity.
Qed.

Lemma nth_error_all_points n s : s < n -> nth_error (all_points n) s = Some (Z.of_nat s).
Proof. intros H. unfold all_points. rewrite nth_error_map, (nth_error_seq0 n s H). reflexivity. Qed.

Lemma all_points_length n : length (all_points n) = n.
Proof. unfold all_points. rewrite map_length, seq_length. reflexivity. Qed.

Lemma get2_lt {V} (M : list (list V)) i j v : get2 M i j = Some v -> i < length M.
Proof.
  unfold get2. intros H. apply nth_error_Some. destruct (nth_error M i); [discriminate | discriminate].
Qed.

Lemma has_shape_get2 {V} r c (M : list (list V)) i j :
  has_shape r c M = true -> i < r -> j < c -> exists v, get2 M i j = Some v.
Proof. exact (get2_some r c M i j). Qed.

Lemma has_shape_row {V} r c (M : list (list V)) i row :
  has_shape r c M = true -> nth_error M i = Some row -> length row = c.
Proof.
  intros H Hr. apply has_shape_spec in H as [_ F]. rewrite Forall_forall in F. exact (F row (nth_error_In _ _ Hr)).
Qed.

(* ---------- ray_weights_for_views -------------------------------------------------------- *)
Section RayWeightsForViews.
  Context {T : Type} (N : Num T).
  Local Notation K := (T * T)%type.

  Variables (paths : list (path (T := T))) (views : list view) (f : T) (width : option T)
            (ud ub ut ua : bool).

  Let entry_of (k : nat) : option (rw_entry (T := T)) :=
    bind (nth_error paths k) (fun p =>
    bind (if mem k (map v_tx views) then omap Some (path_tx_weights N ud ut ub ua width f p) else Some None) (fun wtx =>
    bind (if mem k (map v_rx views) then omap Some (path_rx_weights N ud ut ub ua width f p) else Some None) (fun wrx =>
    Some (mkEntry k (p_angles p) wtx wrx)))).

  Let all_paths := nodup Nat.eq_dec (map v_tx views ++ map v_rx views).

  Lemma rwfv_unfold : ray_weights_for_views N paths views f width ud ub ut ua = mapM entry_of all_paths.
  Proof. reflexivity. Qed.

  Lemma entry_of_key k e : entry_of k = Some e -> e_path e = k.
  Proof.
    unfold entry_of. destruct (nth_error paths k) as [p|]; [|discriminate]. cbn.
    destruct (if mem k (map v_tx views) then _ else _) as [wtx|]; [|discriminate]. cbn.
    destruct (if mem k (map v_rx views) then _ else _) as [wrx|]; [|discriminate]. cbn.
    intros H. inversion H. reflexivity.
  Qed.

  (* one entry per distinct path of the views *)
  Lemma rwfv_paths rw :
    ray_weights_for_views N paths views f width ud ub ut ua = Some rw ->
    map e_path rw = all_paths /\ NoDup (map e_path rw).
  Proof.
    rewrite rwfv_unfold. intros H. pose proof (mapM_keys entry_of e_path all_paths rw entry_of_key H) as E.
    split; [exact E|]. rewrite E. apply NoDup_nodup.
  Qed.

  Lemma rwfv_entry rw k :
    ray_weights_for_views N paths views f width ud ub ut ua = Some rw -> In k all_paths ->
    exists p wtx wrx, nth_error paths k = Some p /\ rw_find rw k = Some (mkEntry k (p_angles p) wtx wrx) /\
      (In k (map v_tx views) -> exists Q, wtx = Some Q /\ path_tx_weights N ud ut ub ua width f p = Some Q) /\
      (~ In k (map v_tx views) -> wtx = None) /\
      (In k (map v_rx views) -> exists Q, wrx = Some Q /\ path_rx_weights N ud ut ub ua width f p = Some Q) /\
      (~ In k (map v_rx views) -> wrx = None).
  Proof.
    rewrite rwfv_unfold. intros H Hin.
    destruct (mapM_find entry_of e_path all_paths rw k entry_of_key H Hin) as (e & He & Hf).
    unfold entry_of in He. destruct (nth_error paths k) as [p|]; [|discriminate]. cbn in He.
    destruct (mem k (map v_tx views)) eqn:Mt; destruct (mem k (map v_rx views)) eqn:Mr;
      try (apply mem_In in Mt); try (apply mem_In in Mr);
      try (assert (Nt : ~ In k (map v_tx views)) by (rewrite <- mem_In, Mt; discriminate));
      try (assert (Nr : ~ In k (map v_rx views)) by (rewrite <- mem_In, Mr; discriminate)).
    - destruct (path_tx_weights N ud ut ub ua width f p) as [Q|] eqn:EQ; [|discriminate]. cbn in He.
      destruct (path_rx_weights N ud ut ub ua width f p) as [Q'|] eqn:EQ'; [|discriminate]. cbn in He.
      inversion He; subst e. exists p, (Some Q), (Some Q'). split; [reflexivity|]. split; [exact Hf|].
      split; [intros _; exists Q; split; [reflexivity | exact EQ]|]. split; [intros C; contradiction|].
      split; [intros _; exists Q'; split; [reflexivity | exact EQ'] | intros C; contradiction].
    - destruct (path_tx_weights N ud ut ub ua width f p) as [Q|] eqn:EQ; [|discriminate]. cbn in He.
      inversion He; subst e. exists p, (Some Q), None. split; [reflexivity|]. split; [exact Hf|].
      split; [intros _; exists Q; split; [reflexivity | exact EQ]|]. split; [intros C; contradiction|].
      split; [intros C; contradiction | reflexivity].
    - cbn in He. destruct (path_rx_weights N ud ut ub ua width f p) as [Q'|] eqn:EQ'; [|discriminate]. cbn in He.
      inversion He; subst e. exists p, None, (Some Q'). split; [reflexivity|]. split; [exact Hf|].
      split; [intros C; contradiction|]. split; [reflexivity|].
      split; [intros _; exists Q'; split; [reflexivity | exact EQ'] | intros C; contradiction].
    - cbn in He. inversion He; subst e. exists p, None, None. split; [reflexivity|]. split; [exact Hf|].
      split; [intros C; contradiction|]. split; [reflexivity|]. split; [intros C; contradiction | reflexivity].
  Qed.

  (* which path of a view gets which weights: the tx path the TRANSMIT weights, the rx path the
     RECEIVE weights, both with the caller's switches and frequency; the scattering angles of both *)
  Theorem rwfv_view rw v :
    ray_weights_for_views N paths views f width ud ub ut ua = Some rw -> In v views ->
    exists ptx prx Qtx Qrx,
      nth_error paths (v_tx v) = Some ptx /\ nth_error paths (v_rx v) = Some prx /\
      path_tx_weights N ud ut ub ua width f ptx = Some Qtx /\
      path_rx_weights N ud ut ub ua width f prx = Some Qrx /\
      rw_tx rw (v_tx v) = Some Qtx /\ rw_rx rw (v_rx v) = Some Qrx /\
      rw_angles rw (v_tx v) = Some (p_angles ptx) /\ rw_angles rw (v_rx v) = Some (p_angles prx).
  Proof.
    intros H Hv.
    assert (It : In (v_tx v) (map v_tx views)) by (apply in_map; exact Hv).
    assert (Ir : In (v_rx v) (map v_rx views)) by (apply in_map; exact Hv).
    assert (At : In (v_tx v) all_paths) by (apply nodup_In, in_or_app; left; exact It).
    assert (Ar : In (v_rx v) all_paths) by (apply nodup_In, in_or_app; right; exact Ir).
    destruct (rwfv_entry rw _ H At) as (ptx & wtx & wrx & Ep & Ef & Htx & _ & _ & _).
    destruct (rwfv_entry rw _ H Ar) as (prx & wtx' & wrx' & Ep' & Ef' & _ & _ & Hrx & _).
    destruct (Htx It) as (Qtx & E1 & E2). destruct (Hrx Ir) as (Qrx & E3 & E4). subst wtx wrx'.
    exists ptx, prx, Qtx, Qrx. unfold rw_tx, rw_rx, rw_angles. rewrite Ef, Ef'. cbn.
    repeat split; assumption.
  Qed.

  (* a path that no view transmits through has no transmit weights (KeyError), and conversely *)
  Theorem rwfv_no_tx rw k :
    ray_weights_for_views N paths views f width ud ub ut ua = Some rw ->
    ~ In k (map v_tx views) -> rw_tx rw k = None.
  Proof.
    intros H Hn. unfold rw_tx. destruct (in_dec Nat.eq_dec k all_paths) as [Hin|Hnin].
    - destruct (rwfv_entry rw k H Hin) as (p & wtx & wrx & _ & Ef & _ & Hnone & _). rewrite Ef. cbn. exact (Hnone Hn).
    - unfold rw_find. rewrite rwfv_unfold in H.
      rewrite (mapM_find_none entry_of e_path all_paths rw k entry_of_key H Hnin). reflexivity.
  Qed.

  Theorem rwfv_no_rx rw k :
    ray_weights_for_views N paths views f width ud ub ut ua = Some rw ->
    ~ In k (map v_rx views) -> rw_rx rw k = None.
  Proof.
    intros H Hn. unfold rw_rx. destruct (in_dec Nat.eq_dec k all_paths) as [Hin|Hnin].
    - destruct (rwfv_entry rw k H Hin) as (p & wtx & wrx & _ & Ef & _ & _ & _ & Hnone). rewrite Ef. cbn. exact (Hnone Hn).
    - unfold rw_find. rewrite rwfv_unfold in H.
      rewrite (mapM_find_none entry_of e_path all_paths rw k entry_of_key H Hnin). reflexivity.
  Qed.
End RayWeightsForViews.

(* ---------- the arrays of ray weights of a path, ray by ray --------------------------------- *)
Section PathWeights.
  Context {T : Type} (N : Num T).
  Local Notation K := (T * T)%type.

  Lemma weights_of_rays_shape (g : ray (T := T) -> option (K * (T * K * T * T))) rays Q :
    weights_of_rays g rays = Some Q ->
    length Q = length rays /\
    forall e row, nth_error Q e = Some row -> exists rrow, nth_error rays e = Some rrow /\ length row = length rrow.
  Proof.
    unfold weights_of_rays. intros H. split; [exact (mapM_length _ _ _ H)|].
    intros e row Hr. destruct (mapM_nth_error_inv _ _ _ _ _ H Hr) as (rrow & Hrr & Hm).
    exists rrow. split; [exact Hrr | exact (mapM_length _ _ _ Hm)].
  Qed.

  (* every entry of the array is the weight the one-ray function returns for that ray *)
  Lemma weights_of_rays_entry (g : ray (T := T) -> option (K * (T * K * T * T))) rays Q e s w :
    weights_of_rays g rays = Some Q -> get2 Q e s = Some w ->
    exists r dict, get2 rays e s = Some r /\ g r = Some (w, dict).
  Proof.
    unfold weights_of_rays, get2. intros H Hw.
    destruct (nth_error Q e) as [row|] eqn:Er; [|discriminate]. cbn in Hw.
    destruct (mapM_nth_error_inv _ _ _ _ _ H Er) as (rrow & Hrr & Hm).
    destruct (mapM_nth_error_inv _ _ _ _ _ Hm Hw) as (r & Hr & Hg).
    destruct (g r) as [[w' dict]|] eqn:Eg; [|discriminate]. cbn in Hg. inversion Hg; subst w'.
    exists r, dict. rewrite Hrr. cbn. split; [exact Hr | exact Eg].
  Qed.

  Lemma path_tx_weights_entry ud ut ub ua width f (p : path (T := T)) Q e s w :
    path_tx_weights N ud ut ub ua width f p = Some Q -> get2 Q e s = Some w ->
    exists r dict, get2 (p_rays p) e s = Some r /\
      tx_ray_weights N ud ut ub ua width f (p_couplant p) r = Some (w, dict).
  Proof.
    unfold path_tx_weights. destruct (width_missing ud width); [discriminate|].
    apply weights_of_rays_entry.
  Qed.

  Lemma path_rx_weights_entry ud ut ub ua width f (p : path (T := T)) Q e s w :
    path_rx_weights N ud ut ub ua width f p = Some Q -> get2 Q e s = Some w ->
    exists r dict, get2 (p_rays p) e s = Some r /\
      rx_ray_weights N ud ut ub ua width f (p_couplant p) (p_block p) r = Some (w, dict).
  Proof.
    unfold path_rx_weights. destruct (width_missing ud width); [discriminate|].
    apply weights_of_rays_entry.
  Qed.

  Lemma path_tx_weights_length ud ut ub ua width f (p : path (T := T)) Q :
    path_tx_weights N ud ut ub ua width f p = Some Q -> length Q = length (p_rays p).
  Proof.
    unfold path_tx_weights. destruct (width_missing ud width); [discriminate|].
    intros H. exact (proj1 (weights_of_rays_shape _ _ _ H)).
  Qed.

  (* use_directivity without probe_element_width: ValueError, whatever the rays *)
  Lemma path_weights_need_width ut ub ua f (p : path (T := T)) :
    path_tx_weights N true ut ub ua None f p = None /\ path_rx_weights N true ut ub ua None f p = None.
  Proof. split; reflexivity. Qed.
End PathWeights.

(* ---------- model_amplitudes_factory(...)[...] of a view ------------------------------------- *)
Section Coefficients.
  Context {T : Type} (N : Num T).
  Local Notation K := (T * T)%type.

  (* the scattering as a function of the two angles: itself, or the bilinear interpolant of the matrix *)
  Definition scat_fun (P : T) (sc : scattering (T := T)) : T -> T -> K :=
    match sc with ScatFn Sf => Sf | ScatMat M => interp_c N P M end.

  Lemma model_coefficients_spec P tx rx v rw sc a Pk :
    model_coefficients N P tx rx v rw sc a = Some Pk ->
    exists Qtx Qrx Ttx Trx,
      rw_tx rw (v_tx v) = Some Qtx /\ rw_rx rw (v_rx v) = Some Qrx /\
      rw_angles rw (v_tx v) = Some Ttx /\ rw_angles rw (v_rx v) = Some Trx /\
      length tx = length rx /\
      spec_amp N (scat_fun P (sc (v_scat v))) a (length Qtx) (snd (shape2 Qtx)) Qtx Qrx Ttx Trx tx rx
               (all_points (snd (shape2 Qtx))) = Some Pk.
  Proof.
    unfold model_coefficients. intros H.
    destruct (rw_tx rw (v_tx v)) as [Qtx|]; [|discriminate]. destruct (rw_rx rw (v_rx v)) as [Qrx|]; [|discriminate].
    destruct (rw_angles rw (v_tx v)) as [Ttx|]; [|discriminate]. destruct (rw_angles rw (v_rx v)) as [Trx|]; [|discriminate].
    cbn [bind] in H. cbn [shape2 fst] in H.
    destruct (factory tx rx (length Qtx) (snd (shape2 Qtx)) Qtx Qrx Ttx Trx a) as [o|] eqn:Ef; [|discriminate].
    cbn [bind] in H.
    destruct (factory_inv _ _ _ _ _ _ _ _ _ _ Ef) as (_ & _ & _ & _ & _ & _ & _ & _ & Etx & Erx & _ & Enp & _).
    rewrite Enp in H.
    exists Qtx, Qrx, Ttx, Trx. repeat (split; [reflexivity|]).
    destruct (sc (v_scat v)) as [Sf|M]; cbn [scat_fun].
    - assert (Hlen : length tx = length rx).
      { unfold getitem_fn in H. rewrite Etx, Erx in H. destruct (Nat.eqb_spec (length tx) (length rx)); [assumption | discriminate]. }
      split; [exact Hlen|]. rewrite <- H. symmetry. exact (getitem_fn_is_spec N Sf tx rx _ _ _ _ _ _ a o _ Hlen Ef).
    - assert (Hok : mat_ok M = true /\ length tx = length rx).
      { unfold getitem_mat in H. rewrite Etx, Erx in H. destruct (mat_ok M); [|discriminate].
        destruct (Nat.eqb_spec (length tx) (length rx)); [split; [reflexivity | assumption] | discriminate]. }
      destruct Hok as [Hok Hlen]. split; [exact Hlen|]. rewrite <- H. symmetry.
      exact (getitem_mat_is_spec N P M tx rx _ _ _ _ _ _ a o _ Hok Hlen Ef).
  Qed.

  (* entry (scatterer s, timetrace t) of the coefficients of a view *)
  Lemma model_coefficients_entry P tx rx v rw sc a Pk Qtx Qrx Ttx Trx s t p zi zj :
    model_coefficients N P tx rx v rw sc a = Some Pk ->
    rw_tx rw (v_tx v) = Some Qtx -> rw_rx rw (v_rx v) = Some Qrx ->
    rw_angles rw (v_tx v) = Some Ttx -> rw_angles rw (v_rx v) = Some Trx ->
    get2 Pk s t = Some p -> nth_error tx t = Some zi -> nth_error rx t = Some zj ->
    exists i j q q' th th',
      norm_index (length Qtx) zi = Some i /\ norm_index (length Qtx) zj = Some j /\
      get2 Qtx i s = Some q /\ get2 Qrx j s = Some q' /\ get2 Ttx i s = Some th /\ get2 Trx j s = Some th' /\
      p = model_amplitude N (scat_fun P (sc (v_scat v))) a q q' th th'.
  Proof.
    intros H E1 E2 E3 E4 Hp Hi Hj.
    destruct (model_coefficients_spec _ _ _ _ _ _ _ _ H) as (Qtx' & Qrx' & Ttx' & Trx' & F1 & F2 & F3 & F4 & Hlen & Hs).
    rewrite E1 in F1. rewrite E2 in F2. rewrite E3 in F3. rewrite E4 in F4.
    inversion F1; inversion F2; inversion F3; inversion F4; subst Qtx' Qrx' Ttx' Trx'. clear F1 F2 F3 F4.
    destruct (spec_amp_sound N _ _ _ _ _ _ _ _ _ _ _ _ Hs) as [L Hent].
    rewrite all_points_length in L.
    assert (Hsn : s < snd (shape2 Qtx)) by (rewrite <- L; exact (get2_lt _ _ _ _ Hp)).
    destruct (Hent s (Z.of_nat s) (nth_error_all_points _ _ Hsn)) as (g & row & Hg & Hrow & _ & Hk).
    rewrite (norm_index_nat _ _ Hsn) in Hg. inversion Hg; subst g.
    destruct (Hk t zi zj Hi Hj) as (i & j & q & q' & th & th' & A1 & A2 & A3 & A4 & A5 & A6 & A7).
    exists i, j, q, q', th, th'. repeat (split; [assumption|]).
    unfold get2 in Hp. rewrite Hrow in Hp. cbn in Hp. rewrite A7 in Hp. inversion Hp. reflexivity.
  Qed.

  Lemma model_coefficients_length P tx rx v rw sc a Pk Qtx :
    model_coefficients N P tx rx v rw sc a = Some Pk -> rw_tx rw (v_tx v) = Some Qtx ->
    length Pk = snd (shape2 Qtx).
  Proof.
    intros H E1.
    destruct (model_coefficients_spec _ _ _ _ _ _ _ _ H) as (Qtx' & Qrx' & Ttx' & Trx' & F1 & _ & _ & _ & _ & Hs).
    rewrite E1 in F1. inversion F1; subst Qtx'.
    rewrite (proj1 (spec_amp_sound N _ _ _ _ _ _ _ _ _ _ _ _ Hs)). apply all_points_length.
  Qed.
End Coefficients.

(* ---------- first_nonzero_freq_idx --------------------------------------------------------------- *)
Lemma default_first_none_one : default_first 1 None = 0%Z.
Proof. reflexivity. Qed.

Lemma default_first_none_several n : n <> 1 -> default_first n None = 1%Z.
Proof. intros H. unfold default_first. destruct (Nat.eqb_spec n 1); [contradiction | reflexivity]. Qed.

Lemma default_first_some n z : default_first n (Some z) = z.
Proof. reflexivity. Qed.

Lemma first_bin_nonneg n z : (0 <= z)%Z -> first_bin n z = Some (Nat.min n (Z.to_nat z)).
Proof. intros H. unfold first_bin. apply Z.leb_le in H. rewrite H. reflexivity. Qed.

Lemma first_bin_from_end n z : (- Z.of_nat n <= z < 0)%Z -> first_bin n z = Some (Z.to_nat (Z.of_nat n + z)).
Proof.
  intros [H1 H2]. unfold first_bin.
  destruct (Z.leb_spec 0 z); [lia|]. destruct (Nat.eqb_spec n 0); [lia|]. cbn [orb].
  apply Z.leb_le in H1. rewrite H1. reflexivity.
Qed.

Lemma first_bin_index_error n z : n <> 0 -> (z < - Z.of_nat n)%Z -> first_bin n z = None.
Proof.
  intros Hn H. unfold first_bin.
  destruct (Z.leb_spec 0 z); [lia|]. destruct (Nat.eqb_spec n 0); [contradiction|]. cbn [orb].
  destruct (Z.leb_spec (- Z.of_nat n) z); [lia | reflexivity].
Qed.

Lemma first_bin_le n z off : first_bin n z = Some off -> off <= n.
Proof.
  unfold first_bin. destruct ((0 <=? z)%Z || (n =? 0)) eqn:E0.
  - intros E. inversion E. apply Nat.le_min_l.
  - apply orb_false_iff in E0 as [E0 _]. apply Z.leb_gt in E0.
    destruct (Z.leb_spec (- Z.of_nat n) z) as [Hz|Hz]; [|discriminate]. intros E. inversion E. lia.
Qed.

(* the defaults, resolved: one frequency -> bin 0; several -> bin 1 (bin 0 is left at zero);
   an explicit 0 is bin 0 *)
Lemma first_bin_default_one : first_bin 1 (default_first 1 None) = Some 0.
Proof. reflexivity. Qed.

Lemma first_bin_default_several n : 2 <= n -> first_bin n (default_first n None) = Some 1.
Proof.
  intros H. rewrite default_first_none_several by lia. rewrite first_bin_nonneg by lia.
  f_equal. change (Z.to_nat 1) with 1. lia.
Qed.

Lemma first_bin_default_empty : first_bin 0 (default_first 0 None) = Some 0.
Proof. reflexivity. Qed.

Lemma first_bin_explicit_zero n : first_bin n (default_first n (Some 0%Z)) = Some 0.
Proof. cbn [default_first]. rewrite first_bin_nonneg by lia. f_equal. change (Z.to_nat 0) with 0. lia. Qed.

Lemma first_nonzero_several n : 2 <= n -> default_first n None = 1%Z /\ first_bin n (default_first n None) = Some 1.
Proof. intros H. split; [apply default_first_none_several; lia | exact (first_bin_default_several n H)]. Qed.

Lemma first_nonzero_explicit_cases n z :
  ((0 <= z)%Z -> first_bin n (default_first n (Some z)) = Some (Nat.min n (Z.to_nat z))) /\
  ((- Z.of_nat n <= z < 0)%Z -> first_bin n (default_first n (Some z)) = Some (Z.to_nat (Z.of_nat n + z))) /\
  (n <> 0 -> (z < - Z.of_nat n)%Z -> first_bin n (default_first n (Some z)) = None).
Proof.
  split; [exact (first_bin_nonneg n z)|]. split; [exact (first_bin_from_end n z) | exact (first_bin_index_error n z)].
Qed.

Lemma nonzero_start_some n z off : first_bin n z = Some off -> nonzero_start n z = off.
Proof. unfold nonzero_start. intros H. rewrite H. reflexivity. Qed.

(* ---------- the transfer function of one view ---------------------------------------------------- *)
Section Unshifted.
  Context {T : Type} (N : Num T).
  Local Notation K := (T * T)%type.
  Local Notation zero := (n0 (NumC N)).

  Lemma coefficients_allfreq_inv P tx rx v so mats nonzero (rws : list (list (rw_entry (T := T)))) a coefs :
    length rws = length nonzero ->
    coefficients_allfreq N P tx rx v so mats nonzero rws a = Some coefs ->
    length coefs = length nonzero /\
    forall k f, nth_error nonzero k = Some f ->
      exists rw Pk, nth_error rws k = Some rw /\ nth_error coefs k = Some Pk /\
        model_coefficients N P tx rx v rw (scattering_at so mats k f) a = Some Pk.
  Proof.
    unfold coefficients_allfreq. intros L H. split.
    - rewrite (mapM_length _ _ _ H), !combine_length, seq_length. lia.
    - intros k f Hk.
      assert (Hlt : k < length nonzero) by (apply nth_error_Some; rewrite Hk; discriminate).
      destruct (nth_error rws k) as [rw|] eqn:Er; [|apply nth_error_None in Er; lia].
      pose proof (nth_error_combine _ _ _ _ _ (nth_error_combine _ _ _ _ _ (nth_error_seq0 _ _ Hlt) Hk) Er) as Hc.
      destruct (mapM_nth_error _ _ _ _ _ H Hc) as (Pk & HPk & Hn). cbn [fst snd] in HPk.
      exists rw, Pk. split; [reflexivity|]. split; assumption.
  Qed.

  Lemma assemble_tf_inv ns nt off coefs H :
    assemble_tf N ns nt off coefs = Some H ->
    length H = ns /\ Forall (fun Pk => has_shape ns nt Pk = true) coefs /\
    (forall s rows, nth_error H s = Some rows -> length rows = nt) /\
    forall s t, s < ns -> t < nt ->
      exists vals, mapM (fun Pk => get2 Pk s t) coefs = Some vals /\
        get2 H s t = Some (repeat zero off ++ map (cconj N) vals).
  Proof.
    unfold assemble_tf. destruct (forallb (has_shape ns nt) coefs) eqn:Ef; [|discriminate]. intros HH.
    destruct (mapM_seq_nth _ _ _ HH) as [L Hn]. split; [exact L|]. split.
    { apply Forall_forall. intros Pk Hin. rewrite forallb_forall in Ef. exact (Ef Pk Hin). }
    split.
    { intros s rows Hs. assert (Hlt : s < ns) by (rewrite <- L; apply nth_error_Some; rewrite Hs; discriminate).
      rewrite (Hn s Hlt) in Hs. cbn beta in Hs. exact (proj1 (mapM_seq_nth _ _ _ Hs)). }
    intros s t Hs Ht.
    destruct (nth_error H s) as [rows|] eqn:Hrow; [|apply nth_error_None in Hrow; lia].
    pose proof Hrow as Er. rewrite (Hn s Hs) in Er. cbn beta in Er.
    destruct (mapM_seq_nth _ _ _ Er) as [_ Hn']. pose proof (Hn' t Ht) as Hb. cbn beta in Hb.
    unfold bins in Hb. rewrite <- omap_mapM in Hb.
    assert (Eg : get2 H s t = nth_error rows t) by (unfold get2; rewrite Hrow; reflexivity).
    rewrite Eg, Hb.
    destruct (mapM (fun Pk => get2 Pk s t) coefs) as [vals|] eqn:Ev.
    - exists vals. split; reflexivity.
    - exfalso. clear - Ef Ev Hs Ht. induction coefs as [|Pk coefs IH]; [discriminate|].
      cbn in Ef. apply andb_true_iff in Ef as [E1 E2]. cbn in Ev.
      destruct (get2_some ns nt Pk s t E1 Hs Ht) as (p & Ep). rewrite Ep in Ev.
      destruct (mapM (fun Pk0 => get2 Pk0 s t) coefs) as [vs|] eqn:Ev'; [discriminate|]. exact (IH E2 eq_refl).
  Qed.

  Lemma row_zero_bin (H : list (list (list K))) s t off (l : list K) b :
    get2 H s t = Some (repeat zero off ++ l) -> b < off -> get3 H s t b = Some zero.
  Proof.
    intros E Hb. unfold get3. rewrite E. cbn [bind]. rewrite nth_error_app1 by (rewrite repeat_length; exact Hb).
    rewrite nth_error_nth' with (d := zero) by (rewrite repeat_length; exact Hb). rewrite nth_repeat. reflexivity.
  Qed.

  Lemma row_coef_bin (H : list (list (list K))) s t off (l : list K) k :
    get2 H s t = Some (repeat zero off ++ l) -> get3 H s t (off + k) = nth_error l k.
  Proof.
    intros E. unfold get3. rewrite E. cbn [bind]. rewrite nth_error_app2 by (rewrite repeat_length; lia).
    rewrite repeat_length. f_equal. lia.
  Qed.

  (* everything the function computes for the view number vi *)
  Lemma unshifted_view_inv P paths views tx rx freqs so width ud ub ut ua a numangles first out vi v :
    scat_unshifted_transfer_functions N P paths views tx rx freqs so width ud ub ut ua a numangles first = Some out ->
    nth_error views vi = Some v ->
    length out = length views /\
    exists off ptx prx H delays rws coefs,
      first_bin (length freqs) (default_first (length freqs) first) = Some off /\
      nth_error out vi = Some (H, delays) /\
      nth_error paths (v_tx v) = Some ptx /\ nth_error paths (v_rx v) = Some prx /\
      view_delays N ptx prx tx rx = Some delays /\
      mapM (fun f => ray_weights_for_views N paths views f width ud ub ut ua) (skipn off freqs) = Some rws /\
      coefficients_allfreq N P tx rx v so (precompute so (skipn off freqs) numangles) (skipn off freqs) rws a = Some coefs /\
      assemble_tf N (snd (shape2 (p_times ptx))) (length tx) off coefs = Some H.
  Proof.
    unfold scat_unshifted_transfer_functions. intros Hout Hv.
    destruct (mapM _ (skipn _ freqs)) as [rws|] eqn:Erws; [|discriminate]. cbn [bind] in Hout.
    split; [exact (mapM_length _ _ _ Hout)|].
    destruct (mapM_nth_error _ _ _ _ _ Hout Hv) as ([H delays] & Hy & Hn).
    destruct (first_bin (length freqs) (default_first (length freqs) first)) as [off|] eqn:Eoff; [|discriminate].
    cbn [bind] in Hy. rewrite (nonzero_start_some _ _ _ Eoff) in Hy, Erws.
    unfold unshifted_for_view in Hy.
    destruct (nth_error paths (v_tx v)) as [ptx|]; [|discriminate].
    destruct (nth_error paths (v_rx v)) as [prx|]; [|discriminate]. cbn [bind] in Hy.
    destruct (view_delays N ptx prx tx rx) as [d|] eqn:Ed; [|discriminate]. cbn [bind] in Hy.
    destruct (coefficients_allfreq N P tx rx v so _ _ rws a) as [coefs|] eqn:Ec; [|discriminate]. cbn [bind] in Hy.
    destruct (assemble_tf N _ _ off coefs) as [H'|] eqn:Ea; [|discriminate]. cbn [bind] in Hy.
    inversion Hy; subst H' d.
    exists off, ptx, prx, H, delays, rws, coefs. repeat (split; [first [reflexivity | assumption]|]). exact Ea.
  Qed.
End Unshifted.

Lemma nth_error_skipn_add {A} (l : list A) n k : nth_error (skipn n l) k = nth_error l (n + k).
Proof.
  revert l. induction n as [|n IH]; intros l; [reflexivity|].
  destruct l as [|x l]; cbn; [destruct k; reflexivity | apply IH].
Qed.

Lemma nth_error_map2 {A B C} (f : A -> B -> C) l1 l2 k :
  nth_error (map2 f l1 l2) k
  = match nth_error l1 k, nth_error l2 k with Some x, Some y => Some (f x y) | _, _ => None end.
Proof.
  revert l2 k. induction l1 as [|x l1 IH]; intros l2 k.
  - cbn. destruct k; reflexivity.
  - destruct l2 as [|y l2].
    + cbn. destruct k as [|k]; cbn; [reflexivity|]. destruct (nth_error l1 k); reflexivity.
    + destruct k as [|k]; cbn; [reflexivity | apply IH].
Qed.

Lemma map2_length {A B C} (f : A -> B -> C) l1 l2 : length (map2 f l1 l2) = Nat.min (length l1) (length l2).
Proof.
  revert l2. induction l1 as [|x l1 IH]; intros [|y l2]; cbn; try reflexivity. rewrite IH. reflexivity.
Qed.

Section UnshiftedTheorems.
  Context {T : Type} (N : Num T).
  Local Notation K := (T * T)%type.
  Local Notation C := (NumC N).
  Local Notation zero := (n0 (NumC N)).

  (* ---- delays ------------------------------------------------------------------------- *)
  Lemma take_entry {V} (M : list (list V)) idx A t z :
    take M idx = Some A -> nth_error idx t = Some z ->
    exists i row, norm_index (length M) z = Some i /\ nth_error M i = Some row /\ nth_error A t = Some row.
  Proof.
    unfold take. intros H Hz. destruct (mapM_nth_error _ _ _ _ _ H Hz) as (row & Hl & Hn).
    unfold lookup in Hl. destruct (norm_index (length M) z) as [i|]; [|discriminate]. cbn in Hl.
    exists i, row. repeat split; assumption.
  Qed.

  (* delays[s][t] = times_tx[tx[t]][s] + times_rx[rx[t]][s] *)
  Theorem view_delays_entry (ptx prx : path (T := T)) tx rx D :
    view_delays N ptx prx tx rx = Some D ->
    length D = snd (shape2 (p_times ptx)) /\
    (forall s row, nth_error D s = Some row -> length row = length tx) /\
    forall s t zi zj, s < snd (shape2 (p_times ptx)) -> nth_error tx t = Some zi -> nth_error rx t = Some zj ->
      exists i j d d', norm_index (length (p_times ptx)) zi = Some i /\ norm_index (length (p_times prx)) zj = Some j /\
        get2 (p_times ptx) i s = Some d /\ get2 (p_times prx) j s = Some d' /\
        get2 D s t = Some (nadd N d d').
  Proof.
    unfold view_delays. set (ns := snd (shape2 (p_times ptx))). intros H.
    destruct (take (p_times ptx) tx) as [A|] eqn:EA; [|discriminate].
    destruct (take (p_times prx) rx) as [B|] eqn:EB; [|discriminate]. cbn [bind] in H.
    destruct (has_shape (length tx) ns A) eqn:SA; [|discriminate].
    destruct (has_shape (length tx) ns B) eqn:SB; [|discriminate]. cbn [andb] in H.
    destruct (mapM_seq_nth _ _ _ H) as [L Hn].
    pose proof (proj1 (proj1 (has_shape_spec _ _ _) SA)) as LA.
    pose proof (proj1 (proj1 (has_shape_spec _ _ _) SB)) as LB.
    assert (LM : length (map2 (map2 (nadd N)) A B) = length tx) by (rewrite map2_length, LA, LB; apply Nat.min_id).
    split; [exact L|]. split.
    { intros s row Hs. assert (Hlt : s < ns) by (rewrite <- L; apply nth_error_Some; rewrite Hs; discriminate).
      rewrite (Hn s Hlt) in Hs. cbn beta in Hs. rewrite (column_length _ _ _ Hs). exact LM. }
    intros s t zi zj Hs Hi Hj.
    destruct (take_entry _ _ _ _ _ EA Hi) as (i & ra & Ni & Ri & Ai).
    destruct (take_entry _ _ _ _ _ EB Hj) as (j & rb & Nj & Rj & Bj).
    pose proof (has_shape_row _ _ _ _ _ SA Ai) as La. pose proof (has_shape_row _ _ _ _ _ SB Bj) as Lb.
    destruct (nth_error ra s) as [d|] eqn:Ed; [|apply nth_error_None in Ed; lia].
    destruct (nth_error rb s) as [d'|] eqn:Ed'; [|apply nth_error_None in Ed'; lia].
    exists i, j, d, d'. split; [exact Ni|]. split; [exact Nj|].
    split; [unfold get2; rewrite Ri; exact Ed|]. split; [unfold get2; rewrite Rj; exact Ed'|].
    assert (Ht : t < length tx) by (apply nth_error_Some; rewrite Hi; discriminate).
    destruct (nth_error D s) as [col|] eqn:Ec; [|apply nth_error_None in Ec; lia].
    pose proof Ec as Ec'. rewrite (Hn s Hs) in Ec'. cbn beta in Ec'.
    assert (Eg : get2 D s t = nth_error col t) by (unfold get2; rewrite Ec; reflexivity).
    rewrite Eg, (column_nth _ _ _ t Ec') by (rewrite LM; exact Ht).
    unfold get2. rewrite nth_error_map2, Ai, Bj. cbn [bind]. rewrite nth_error_map2, Ed, Ed'. reflexivity.
  Qed.

  (* ---- (a) the bins of the unshifted transfer function -------------------------------- *)
  Variables (P : T) (paths : list (path (T := T))) (views : list view) (tx rx : list Z) (freqs : list T)
            (so : scat_obj (T := T)) (width : option T) (ud ub ut ua : bool) (a : T) (numangles : Z)
            (first : option Z).
  Variables (out : list (list (list (list K)) * list (list T))).
  Hypothesis Hout :
    scat_unshifted_transfer_functions N P paths views tx rx freqs so width ud ub ut ua a numangles first = Some out.

  Let z := default_first (length freqs) first.

  Theorem unshifted_defined vi v :
    nth_error views vi = Some v ->
    length out = length views /\
    exists off ptx prx H delays,
      first_bin (length freqs) z = Some off /\ off <= length freqs /\
      nth_error out vi = Some (H, delays) /\
      nth_error paths (v_tx v) = Some ptx /\ nth_error paths (v_rx v) = Some prx /\
      view_delays N ptx prx tx rx = Some delays /\
      length H = snd (shape2 (p_times ptx)) /\
      (forall s rows, nth_error H s = Some rows -> length rows = length tx) /\
      (forall s t row, get2 H s t = Some row -> length row = length freqs).
  Proof.
    intros Hv.
    destruct (unshifted_view_inv N _ _ _ _ _ _ _ _ _ _ _ _ _ _ _ _ vi v Hout Hv)
      as (Lout & off & ptx & prx & H & delays & rws & coefs & Eoff & Eout & Ep & Ep' & Ed & Erws & Ec & Ea).
    split; [exact Lout|]. exists off, ptx, prx, H, delays.
    pose proof (first_bin_le _ _ _ Eoff) as Hle.
    destruct (assemble_tf_inv N _ _ _ _ _ Ea) as (LH & _ & Hrows & Hst).
    destruct (coefficients_allfreq_inv N _ _ _ _ _ _ _ _ _ _ (mapM_length _ _ _ Erws) Ec) as (Lc & _).
    repeat (split; [assumption|]).
    intros s t row Hg.
    assert (Hs : s < snd (shape2 (p_times ptx))) by (rewrite <- LH; exact (get2_lt _ _ _ _ Hg)).
    assert (Ht : t < length tx).
    { unfold get2 in Hg. destruct (nth_error H s) as [rows|] eqn:Er; [|discriminate]. cbn in Hg.
      rewrite <- (Hrows s rows Er). apply nth_error_Some. rewrite Hg. discriminate. }
    destruct (Hst s t Hs Ht) as (vals & Hv' & Hg'). rewrite Hg in Hg'. inversion Hg'; subst row.
    rewrite app_length, repeat_length, map_length, (mapM_length _ _ _ Hv'), Lc, skipn_length. lia.
  Qed.

  Variables (vi : nat) (v : view) (H : list (list (list K))) (delays : list (list T)) (off : nat).
  Hypothesis Hv : nth_error views vi = Some v.
  Hypothesis Hvi : nth_error out vi = Some (H, delays).
  Hypothesis Hoff : first_bin (length freqs) z = Some off.

  Let mats := precompute so (skipn off freqs) numangles.

  (* the bins before first_nonzero_freq_idx are left at zero *)
  Theorem unshifted_zero_bins s t b :
    s < length H -> t < length tx -> b < off -> get3 H s t b = Some zero.
  Proof.
    intros Hs Ht Hb.
    destruct (unshifted_view_inv N _ _ _ _ _ _ _ _ _ _ _ _ _ _ _ _ vi v Hout Hv)
      as (_ & off' & ptx & prx & H' & delays' & rws & coefs & Eoff & Eout & _ & _ & _ & _ & _ & Ea).
    fold z in Eoff. rewrite Hoff in Eoff. inversion Eoff; subst off'.
    rewrite Hvi in Eout. inversion Eout; subst H' delays'.
    destruct (assemble_tf_inv N _ _ _ _ _ Ea) as (LH & _ & _ & Hst).
    rewrite LH in Hs. destruct (Hst s t Hs Ht) as (vals & _ & Hg).
    exact (row_zero_bin N _ _ _ _ _ _ Hg Hb).
  Qed.

  (* bin first + k: the conjugate of the coefficients of the view at the k-th non-zero frequency,
     computed from ray_weights_for_views AT THAT FREQUENCY WITH THE CALLER'S SWITCHES *)
  Theorem unshifted_bin k f :
    nth_error freqs (off + k) = Some f ->
    exists rw Pk,
      ray_weights_for_views N paths views f width ud ub ut ua = Some rw /\
      model_coefficients N P tx rx v rw (scattering_at so mats k f) a = Some Pk /\
      has_shape (length H) (length tx) Pk = true /\
      forall s t, s < length H -> t < length tx ->
        exists p, get2 Pk s t = Some p /\ get3 H s t (off + k) = Some (cconj N p).
  Proof.
    intros Hf.
    destruct (unshifted_view_inv N _ _ _ _ _ _ _ _ _ _ _ _ _ _ _ _ vi v Hout Hv)
      as (_ & off' & ptx & prx & H' & delays' & rws & coefs & Eoff & Eout & _ & _ & _ & Erws & Ec & Ea).
    fold z in Eoff. rewrite Hoff in Eoff. inversion Eoff; subst off'.
    rewrite Hvi in Eout. inversion Eout; subst H' delays'.
    destruct (coefficients_allfreq_inv N _ _ _ _ _ _ _ _ _ _ (mapM_length _ _ _ Erws) Ec) as (Lc & Hk).
    rewrite <- nth_error_skipn_add in Hf.
    destruct (Hk k f Hf) as (rw & Pk & Er & EPk & Em).
    destruct (mapM_nth_error _ _ _ _ _ Erws Hf) as (rw' & Erw & Er'). rewrite Er in Er'. inversion Er'; subst rw'.
    destruct (assemble_tf_inv N _ _ _ _ _ Ea) as (LH & Fs & _ & Hst).
    exists rw, Pk. split; [exact Erw|]. split; [exact Em|].
    rewrite Forall_forall in Fs. split; [rewrite LH; exact (Fs Pk (nth_error_In _ _ EPk))|].
    intros s t Hs Ht. rewrite LH in Hs. destruct (Hst s t Hs Ht) as (vals & Hvals & Hg).
    destruct (mapM_nth_error _ _ _ _ _ Hvals EPk) as (p & Hp & Hn).
    exists p. split; [exact Hp|]. rewrite (row_coef_bin N _ _ _ _ _ _ Hg). exact (map_nth_error _ _ _ Hn).
  Qed.

  (* ... entry by entry: conj( S_f(theta_i - a, theta_j - a) Q_i(f) Q'_j(f) ) with Q the TRANSMIT weight
     of the ray (element tx[t], scatterer s) of the view's tx path and Q' the RECEIVE weight of the ray
     (element rx[t], scatterer s) of its rx path, both computed by the one-ray functions with the switches
     (use_directivity, use_transrefl, use_beamspread, use_attenuation) = (ud, ut, ub, ua) exactly as
     passed by the caller, the caller's width and the frequency of the bin *)
  Theorem unshifted_bin_formula k f s t zi zj :
    nth_error freqs (off + k) = Some f -> s < length H ->
    nth_error tx t = Some zi -> nth_error rx t = Some zj ->
    exists ptx prx i j r r' q dq q' dq' th th',
      nth_error paths (v_tx v) = Some ptx /\ nth_error paths (v_rx v) = Some prx /\
      norm_index (length (p_rays ptx)) zi = Some i /\ norm_index (length (p_rays ptx)) zj = Some j /\
      get2 (p_rays ptx) i s = Some r /\ get2 (p_rays prx) j s = Some r' /\
      tx_ray_weights N ud ut ub ua width f (p_couplant ptx) r = Some (q, dq) /\
      rx_ray_weights N ud ut ub ua width f (p_couplant prx) (p_block prx) r' = Some (q', dq') /\
      get2 (p_angles ptx) i s = Some th /\ get2 (p_angles prx) j s = Some th' /\
      get3 H s t (off + k)
      = Some (cconj N (model_amplitude N (scat_fun N P (scattering_at so mats k f (v_scat v))) a q q' th th')).
  Proof.
    intros Hf Hs Hi Hj.
    assert (Ht : t < length tx) by (apply nth_error_Some; rewrite Hi; discriminate).
    destruct (unshifted_bin k f Hf) as (rw & Pk & Erw & Em & _ & Hst).
    destruct (Hst s t Hs Ht) as (p & Hp & Hg).
    destruct (rwfv_view N _ _ _ _ _ _ _ _ rw v Erw (nth_error_In _ _ Hv))
      as (ptx & prx & Qtx & Qrx & Ep & Ep' & EQ & EQ' & L1 & L2 & L3 & L4).
    destruct (model_coefficients_entry N _ _ _ _ _ _ _ _ _ _ _ _ s t p zi zj Em L1 L2 L3 L4 Hp Hi Hj)
      as (i & j & q & q' & th & th' & Ni & Nj & G1 & G2 & G3 & G4 & Ep0).
    destruct (path_tx_weights_entry N _ _ _ _ _ _ _ _ _ _ _ EQ G1) as (r & dq & Gr & Wr).
    destruct (path_rx_weights_entry N _ _ _ _ _ _ _ _ _ _ _ EQ' G2) as (r' & dq' & Gr' & Wr').
    rewrite (path_tx_weights_length N _ _ _ _ _ _ _ _ EQ) in Ni, Nj.
    exists ptx, prx, i, j, r, r', q, dq, q', dq', th, th'.
    repeat (split; [assumption|]). rewrite Hg, Ep0. reflexivity.
  Qed.

  (* ---- (c) switching a factor off replaces exactly that factor by one, in every bin ------ *)
  Theorem unshifted_bin_switch k f s t zi zj ptx prx i j r r' th th' w1 d tr b at' w1' d' tr' b' at'' :
    nth_error freqs (off + k) = Some f -> s < length H ->
    nth_error tx t = Some zi -> nth_error rx t = Some zj ->
    nth_error paths (v_tx v) = Some ptx -> nth_error paths (v_rx v) = Some prx ->
    norm_index (length (p_rays ptx)) zi = Some i -> norm_index (length (p_rays ptx)) zj = Some j ->
    get2 (p_rays ptx) i s = Some r -> get2 (p_rays prx) j s = Some r' ->
    get2 (p_angles ptx) i s = Some th -> get2 (p_angles prx) j s = Some th' ->
    tx_ray_weights N true true true true width f (p_couplant ptx) r = Some (w1, (d, tr, b, at')) ->
    rx_ray_weights N true true true true width f (p_couplant prx) (p_block prx) r' = Some (w1', (d', tr', b', at'')) ->
    get3 H s t (off + k)
    = Some (cconj N (model_amplitude N (scat_fun N P (scattering_at so mats k f (v_scat v))) a
              (product4 N (switch ud d (n1 N)) (switch ut tr (cre N (n1 N))) (switch ub b (n1 N)) (switch ua at' (n1 N)))
              (nmul C (product4 N (switch ud d' (n1 N)) (switch ut tr' (cre N (n1 N))) (switch ub b' (n1 N))
                                  (switch ua at'' (n1 N)))
                      (cre N (nsqrt N (wavelength_in_block N (p_block prx) (r_lastmode r') f))))
              th th')).
  Proof.
    intros Hf Hs Hi Hj Ep Ep' Ni Nj Gr Gr' Gt Gt' W1 W1'.
    destruct (unshifted_bin_formula k f s t zi zj Hf Hs Hi Hj)
      as (ptx0 & prx0 & i0 & j0 & r0 & r0' & q & dq & q' & dq' & th0 & th0' & Fp & Fp' & Fi & Fj & Fr & Fr' & Wq & Wq' & Ft & Ft' & Hg).
    rewrite Ep in Fp. inversion Fp; subst ptx0. rewrite Ep' in Fp'. inversion Fp'; subst prx0.
    rewrite Ni in Fi. inversion Fi; subst i0. rewrite Nj in Fj. inversion Fj; subst j0.
    rewrite Gr in Fr. inversion Fr; subst r0. rewrite Gr' in Fr'. inversion Fr'; subst r0'.
    rewrite Gt in Ft. inversion Ft; subst th0. rewrite Gt' in Ft'. inversion Ft'; subst th0'.
    rewrite (switch_sets_tx N _ _ _ _ _ _ _ _ _ W1 ud ut ub ua) in Wq. inversion Wq; subst q.
    rewrite (switch_sets_rx N _ _ _ _ _ _ _ _ _ _ W1' ud ut ub ua) in Wq'. inversion Wq'; subst q'.
    exact Hg.
  Qed.
End UnshiftedTheorems.

Lemma nth_error_ext_eq {A} (l l' : list A) : (forall k, nth_error l k = nth_error l' k) -> l = l'.
Proof.
  revert l'. induction l as [|x l IH]; intros [|y l'] H.
  - reflexivity.
  - specialize (H 0). discriminate.
  - specialize (H 0). discriminate.
  - pose proof (H 0) as H0. cbn in H0. inversion H0; subst y. f_equal. apply IH. intros k. exact (H (S k)).
Qed.

(* ---------- (e) reciprocity lifts to the transfer functions ------------------------------------- *)
Section Reciprocity.
  Context {T : Type} (N : Num T).
  Local Notation K := (T * T)%type.

  Variables (P : T) (paths : list (path (T := T))) (views : list view) (tx rx : list Z) (freqs : list T)
            (so : scat_obj (T := T)) (width : option T) (ud ub ut ua : bool) (a : T) (numangles : Z)
            (first : option Z).
  Variables (out : list (list (list (list K)) * list (list T))).
  Hypothesis Hout :
    scat_unshifted_transfer_functions N P paths views tx rx freqs so width ud ub ut ua a numangles first = Some out.
  Variables (vi vi' : nat) (v v' : view) (H H' : list (list (list K))) (D D' : list (list T)) (off : nat).
  Hypothesis Hv : nth_error views vi = Some v.
  Hypothesis Hv' : nth_error views vi' = Some v'.
  Hypothesis Hvi : nth_error out vi = Some (H, D).
  Hypothesis Hvi' : nth_error out vi' = Some (H', D').
  Hypothesis Hoff : first_bin (length freqs) (default_first (length freqs) first) = Some off.

  (* if at every non-zero frequency the coefficients of view v for (scatterer s, timetrace t) equal
     those of view v' for (s, t') — the conclusion of C03 for a view, its reciprocal view and a pair
     of timetraces (i, j), (j, i) — then the two rows of the transfer functions are equal, bin by bin *)
  Theorem unshifted_reciprocity s t t' :
    s < length H -> s < length H' -> t < length tx -> t' < length tx ->
    (forall k f rw Pk Pk',
        nth_error freqs (off + k) = Some f ->
        ray_weights_for_views N paths views f width ud ub ut ua = Some rw ->
        model_coefficients N P tx rx v rw (scattering_at so (precompute so (skipn off freqs) numangles) k f) a = Some Pk ->
        model_coefficients N P tx rx v' rw (scattering_at so (precompute so (skipn off freqs) numangles) k f) a = Some Pk' ->
        get2 Pk s t = get2 Pk' s t') ->
    get2 H s t = get2 H' s t' /\ forall b, get3 H s t b = get3 H' s t' b.
  Proof.
    intros Hs Hs' Ht Ht' Hrec.
    destruct (unshifted_view_inv N _ _ _ _ _ _ _ _ _ _ _ _ _ _ _ _ vi v Hout Hv)
      as (_ & off1 & ptx & prx & H1 & D1 & rws & coefs & Eoff & Eout & _ & _ & _ & Erws & Ec & Ea).
    destruct (unshifted_view_inv N _ _ _ _ _ _ _ _ _ _ _ _ _ _ _ _ vi' v' Hout Hv')
      as (_ & off2 & ptx' & prx' & H2 & D2 & rws' & coefs' & Eoff' & Eout' & _ & _ & _ & Erws' & Ec' & Ea').
    rewrite Hoff in Eoff, Eoff'. inversion Eoff; subst off1. inversion Eoff'; subst off2.
    rewrite Hvi in Eout. inversion Eout; subst H1 D1. rewrite Hvi' in Eout'. inversion Eout'; subst H2 D2.
    rewrite Erws in Erws'. inversion Erws'; subst rws'.
    destruct (coefficients_allfreq_inv N _ _ _ _ _ _ _ _ _ _ (mapM_length _ _ _ Erws) Ec) as (Lc & Hk).
    destruct (coefficients_allfreq_inv N _ _ _ _ _ _ _ _ _ _ (mapM_length _ _ _ Erws) Ec') as (Lc' & Hk').
    destruct (assemble_tf_inv N _ _ _ _ _ Ea) as (LH & _ & _ & Hst).
    destruct (assemble_tf_inv N _ _ _ _ _ Ea') as (LH' & _ & _ & Hst').
    rewrite LH in Hs. rewrite LH' in Hs'.
    destruct (Hst s t Hs Ht) as (vals & Hvals & Hg). destruct (Hst' s t' Hs' Ht') as (vals' & Hvals' & Hg').
    assert (E : vals = vals').
    { apply nth_error_ext_eq. intros k.
      destruct (nth_error (skipn off freqs) k) as [f|] eqn:Ef.
      - destruct (Hk k f Ef) as (rw & Pk & Er & EPk & Em). destruct (Hk' k f Ef) as (rw' & Pk' & Er' & EPk' & Em').
        rewrite Er in Er'. inversion Er'; subst rw'.
        destruct (mapM_nth_error _ _ _ _ _ Erws Ef) as (rw0 & Erw & Er0). rewrite Er in Er0. inversion Er0; subst rw0.
        destruct (mapM_nth_error _ _ _ _ _ Hvals EPk) as (p & Hp & Hn).
        destruct (mapM_nth_error _ _ _ _ _ Hvals' EPk') as (p' & Hp' & Hn').
        rewrite Hn, Hn', <- Hp, <- Hp'. rewrite nth_error_skipn_add in Ef.
        exact (Hrec k f rw Pk Pk' Ef Erw Em Em').
      - apply nth_error_None in Ef.
        assert (L1 : length vals <= k) by (rewrite (mapM_length _ _ _ Hvals), Lc; exact Ef).
        assert (L2 : length vals' <= k) by (rewrite (mapM_length _ _ _ Hvals'), Lc'; exact Ef).
        apply nth_error_None in L1. apply nth_error_None in L2. rewrite L1, L2. reflexivity. }
    subst vals'. assert (Eg : get2 H s t = get2 H' s t') by (rewrite Hg, Hg'; reflexivity).
    split; [exact Eg|]. intros b. unfold get3. rewrite Eg. reflexivity.
  Qed.
End Reciprocity.

(* ---------- (d) timeshift_spectra, the sum over the scatterers, the two wrappers ----------------- *)
Lemma zipM_inv {A B R} (f : A -> B -> option R) l1 l2 ys :
  zipM f l1 l2 = Some ys ->
  length l1 = length l2 /\ length ys = length l1 /\
  forall k x, nth_error l1 k = Some x ->
    exists y r, nth_error l2 k = Some y /\ nth_error ys k = Some r /\ f x y = Some r.
Proof.
  unfold zipM. destruct (Nat.eqb_spec (length l1) (length l2)) as [L|]; [|discriminate]. intros H.
  split; [exact L|]. split; [rewrite (mapM_length _ _ _ H), combine_length; lia|].
  intros k x Hx. destruct (nth_error l2 k) as [y|] eqn:Ey.
  - destruct (mapM_nth_error _ _ _ _ _ H (nth_error_combine _ _ _ _ _ Hx Ey)) as (r & Hr & Hn).
    exists y, r. repeat split; assumption.
  - apply nth_error_None in Ey. assert (k < length l1) by (apply nth_error_Some; rewrite Hx; discriminate). lia.
Qed.

Section Shift.
  Context {T : Type} (N : Num T).
  Local Notation K := (T * T)%type.
  Local Notation C := (NumC N).
  Local Notation zero := (n0 (NumC N)).

  (* the value of a spectrum at bin b; a one-bin spectrum is used for every frequency *)
  Definition spectrum_value (x : list K) (b : nat) : option K :=
    match x with [x0] => Some x0 | _ => nth_error x b end.

  Lemma timeshift_row_entry freqs x d y :
    timeshift_row N freqs x d = Some y ->
    length y = length freqs /\ (length x = 1 \/ length x = length freqs) /\
    forall b f, nth_error freqs b = Some f ->
      exists xb, spectrum_value x b = Some xb /\ nth_error y b = Some (nmul C (phase N f d) xb).
  Proof.
    unfold timeshift_row, spectrum_value.
    assert (G : forall x, (if length x =? length freqs then Some (map2 (fun f xk => nmul C (phase N f d) xk) freqs x) else None) = Some y ->
                length y = length freqs /\ length x = length freqs /\
                forall b f, nth_error freqs b = Some f -> exists xb, nth_error x b = Some xb /\ nth_error y b = Some (nmul C (phase N f d) xb)).
    { intros x0. destruct (Nat.eqb_spec (length x0) (length freqs)) as [L|]; [|discriminate]. intros E. inversion E; subst y.
      split; [rewrite map2_length, L; apply Nat.min_id|]. split; [exact L|].
      intros b f Hf. assert (b < length x0) by (rewrite L; apply nth_error_Some; rewrite Hf; discriminate).
      destruct (nth_error x0 b) as [xb|] eqn:Ex; [|apply nth_error_None in Ex; lia].
      exists xb. split; [reflexivity|]. rewrite nth_error_map2, Hf, Ex. reflexivity. }
    destruct x as [|x0 [|x1 x]].
    - intros E. destruct (G [] E) as (A1 & A2 & A3). split; [exact A1|]. split; [right; exact A2 | exact A3].
    - intros E. inversion E; subst y. split; [apply map_length|]. split; [left; reflexivity|].
      intros b f Hf. exists x0. split; [reflexivity|]. exact (map_nth_error _ _ _ Hf).
    - intros E. destruct (G (x0 :: x1 :: x) E) as (A1 & A2 & A3). split; [exact A1|]. split; [right; exact A2 | exact A3].
  Qed.

  (* out[s][t][b] = exp(-2j pi f_b delays[s][t]) * x[s][t][b]   (x[s][t][0] for a one-bin spectrum) *)
  Theorem timeshift_spectra_entry X D freqs Y :
    timeshift_spectra N X D freqs = Some Y ->
    length Y = length X /\
    (forall s Ys, nth_error Y s = Some Ys -> exists Xs, nth_error X s = Some Xs /\ length Ys = length Xs) /\
    (forall s t y, get2 Y s t = Some y -> length y = length freqs) /\
    forall s t x b f, get2 X s t = Some x -> nth_error freqs b = Some f ->
      exists d xb, get2 D s t = Some d /\ spectrum_value x b = Some xb /\
        get3 Y s t b = Some (nmul C (phase N f d) xb).
  Proof.
    unfold timeshift_spectra. intros HY. destruct (zipM_inv _ _ _ _ HY) as (L1 & L2 & Hs).
    assert (Hrow : forall s Xs, nth_error X s = Some Xs -> exists Ds Ys, nth_error D s = Some Ds /\ nth_error Y s = Some Ys /\
              zipM (timeshift_row N freqs) Xs Ds = Some Ys).
    { intros s Xs HXs. destruct (Hs s Xs HXs) as (Ds & Ys & A1 & A2 & A3). exists Ds, Ys. repeat split; assumption. }
    split; [exact L2|]. split.
    { intros s Ys HYs. assert (Hlt : s < length X) by (rewrite <- L2; apply nth_error_Some; rewrite HYs; discriminate).
      destruct (nth_error X s) as [Xs|] eqn:EX; [|apply nth_error_None in EX; lia].
      destruct (Hrow s Xs EX) as (Ds & Ys' & _ & B2 & B3). rewrite HYs in B2. inversion B2; subst Ys'.
      exists Xs. split; [reflexivity|]. exact (proj1 (proj2 (zipM_inv _ _ _ _ B3))). }
    split.
    { intros s t y Hy. unfold get2 in Hy. destruct (nth_error Y s) as [Ys|] eqn:EY; [|discriminate]. cbn in Hy.
      assert (Hlt : s < length X) by (rewrite <- L2; apply nth_error_Some; rewrite EY; discriminate).
      destruct (nth_error X s) as [Xs|] eqn:EX; [|apply nth_error_None in EX; lia].
      destruct (Hrow s Xs EX) as (Ds & Ys' & _ & B2 & B3). rewrite EY in B2. inversion B2; subst Ys'.
      destruct (zipM_inv _ _ _ _ B3) as (M1 & M2 & M3).
      assert (Hlt' : t < length Xs) by (rewrite <- M2; apply nth_error_Some; rewrite Hy; discriminate).
      destruct (nth_error Xs t) as [x|] eqn:Ex; [|apply nth_error_None in Ex; lia].
      destruct (M3 t x Ex) as (d & y' & _ & C2 & C3). rewrite Hy in C2. inversion C2; subst y'.
      exact (proj1 (timeshift_row_entry _ _ _ _ C3)). }
    intros s t x b f Hx Hf. unfold get2 in Hx. destruct (nth_error X s) as [Xs|] eqn:EX; [|discriminate]. cbn in Hx.
    destruct (Hrow s Xs EX) as (Ds & Ys & B1 & B2 & B3).
    destruct (zipM_inv _ _ _ _ B3) as (_ & _ & M3). destruct (M3 t x Hx) as (d & y & C1 & C2 & C3).
    destruct (timeshift_row_entry _ _ _ _ C3) as (_ & _ & R). destruct (R b f Hf) as (xb & E1 & E2).
    exists d, xb. split; [unfold get2; rewrite B1; exact C1|]. split; [exact E1|].
    unfold get3, get2. rewrite B2. cbn. rewrite C2. cbn. exact E2.
  Qed.

  (* ---- the sum over the first axis ------------------------------------------------------------ *)
  (* numpy accumulates in order, starting from the first term; no term: 0 *)
  Definition csum1 (l : list K) : K :=
    match l with [] => zero | x :: r => fold_left (nadd C) r x end.

  Lemma get2_add_arrays (A B : list (list K)) t b :
    get2 (add_arrays N A B) t b
    = match get2 A t b, get2 B t b with Some x, Some y => Some (nadd C x y) | _, _ => None end.
  Proof.
    unfold add_arrays, get2. rewrite nth_error_map2.
    destruct (nth_error A t) as [ra|], (nth_error B t) as [rb|]; cbn [bind]; try reflexivity.
    - rewrite nth_error_map2. reflexivity.
    - destruct (nth_error ra b); reflexivity.
  Qed.

  Lemma get2_fold_add rest : forall (acc : list (list K)) t b x ys,
    get2 acc t b = Some x -> mapM (fun Y => get2 Y t b) rest = Some ys ->
    get2 (fold_left (add_arrays N) rest acc) t b = Some (fold_left (nadd C) ys x).
  Proof.
    induction rest as [|Y rest IH]; intros acc t b x ys Hx Hys; cbn in Hys.
    - inversion Hys. exact Hx.
    - destruct (get2 Y t b) as [y|] eqn:Ey; [|discriminate].
      destruct (mapM (fun Y0 => get2 Y0 t b) rest) as [ys'|] eqn:E; [|discriminate]. cbn in Hys. inversion Hys; subst ys.
      cbn [fold_left]. apply IH; [|exact E]. rewrite get2_add_arrays, Hx, Ey. reflexivity.
  Qed.

  Lemma get2_zeros nt nf t b : t < nt -> b < nf -> get2 (repeat (repeat zero nf) nt) t b = Some zero.
  Proof.
    intros Ht Hb. unfold get2.
    rewrite nth_error_nth' with (d := repeat zero nf) by (rewrite repeat_length; exact Ht). rewrite nth_repeat. cbn [bind].
    rewrite nth_error_nth' with (d := zero) by (rewrite repeat_length; exact Hb). rewrite nth_repeat. reflexivity.
  Qed.

  (* entry (t, b) of the sum = the sum of the entries (t, b), for any number of scatterers *)
  Theorem sum_scatterers_entry nt nf tf t b terms :
    t < nt -> b < nf -> mapM (fun Y => get2 Y t b) tf = Some terms ->
    get2 (sum_scatterers N nt nf tf) t b = Some (csum1 terms).
  Proof.
    intros Ht Hb Hterms. destruct tf as [|Y0 [|Y1 rest]].
    - inversion Hterms. cbn. exact (get2_zeros nt nf t b Ht Hb).
    - cbn [mapM] in Hterms. destruct (get2 Y0 t b) as [y|] eqn:Ey; [|discriminate]. cbn in Hterms. inversion Hterms. exact Ey.
    - rewrite mapM_cons in Hterms. destruct (get2 Y0 t b) as [y|] eqn:Ey; [|discriminate].
      destruct (mapM (fun Y => get2 Y t b) (Y1 :: rest)) as [ys|] eqn:E; [|discriminate]. cbn in Hterms. inversion Hterms.
      cbn [sum_scatterers csum1]. exact (get2_fold_add (Y1 :: rest) Y0 t b y ys Ey E).
  Qed.

  (* one scatterer: the lazy branch `tf[0]`, which is also what the sum gives *)
  Theorem sum_one_scatterer nt nf Y : sum_scatterers N nt nf [Y] = Y.
  Proof. reflexivity. Qed.

  Theorem csum1_one p : csum1 [p] = p.
  Proof. reflexivity. Qed.

  (* ---- timeshift then sum: entry (t, b) of the result of the wrappers, for one view ---------- *)
  Theorem shifted_sum_entry freqs nt (H : list (list (list K))) (D : list (list T)) tf :
    shifted_sum N freqs nt (H, D) = Some tf ->
    (forall s Hs, nth_error H s = Some Hs -> length Hs = nt) ->
    forall t b f, t < nt -> nth_error freqs b = Some f ->
      exists terms, length terms = length H /\
        (forall s, s < length H ->
           exists d x xb, get2 D s t = Some d /\ get2 H s t = Some x /\ spectrum_value x b = Some xb /\
             nth_error terms s = Some (nmul C (phase N f d) xb)) /\
        get2 tf t b = Some (csum1 terms).
  Proof.
    unfold shifted_sum. cbn [fst snd]. intros Htf Hshape t b f Ht Hf.
    destruct (timeshift_spectra N H D freqs) as [Y|] eqn:EY; [|discriminate]. cbn in Htf. inversion Htf; subst tf.
    destruct (timeshift_spectra_entry _ _ _ _ EY) as (LY & HYs & HYl & Hent).
    assert (Hb : b < length freqs) by (apply nth_error_Some; rewrite Hf; discriminate).
    assert (Hget : forall s, s < length H -> exists d x xb, get2 D s t = Some d /\ get2 H s t = Some x /\
               spectrum_value x b = Some xb /\ get3 Y s t b = Some (nmul C (phase N f d) xb)).
    { intros s Hs. destruct (nth_error H s) as [Hrow|] eqn:EH; [|apply nth_error_None in EH; lia].
      pose proof (Hshape s Hrow EH) as Lr.
      destruct (nth_error Hrow t) as [x|] eqn:Ex; [|apply nth_error_None in Ex; lia].
      assert (Gx : get2 H s t = Some x) by (unfold get2; rewrite EH; exact Ex).
      destruct (Hent s t x b f Gx Hf) as (d & xb & A1 & A2 & A3). exists d, x, xb. repeat split; assumption. }
    assert (Hterms : exists terms, mapM (fun Ys => get2 Ys t b) Y = Some terms).
    { apply mapM_total. intros Ys Hin. destruct (In_nth_error _ _ Hin) as (s & Hs).
      assert (Hlt : s < length H) by (rewrite <- LY; apply nth_error_Some; rewrite Hs; discriminate).
      destruct (Hget s Hlt) as (d & x & xb & _ & _ & _ & G). unfold get3, get2 in G. rewrite Hs in G. cbn in G.
      exists (nmul C (phase N f d) xb). exact G. }
    destruct Hterms as (terms & Hterms). exists terms.
    split; [rewrite (mapM_length _ _ _ Hterms); exact LY|]. split.
    - intros s Hs. destruct (Hget s Hs) as (d & x & xb & A1 & A2 & A3 & G). exists d, x, xb.
      repeat (split; [assumption|]).
      destruct (nth_error Y s) as [Ys|] eqn:EYs; [|apply nth_error_None in EYs; lia].
      destruct (mapM_nth_error _ _ _ _ _ Hterms EYs) as (y & Hy & Hn). rewrite Hn, <- Hy, <- G.
      unfold get3, get2. rewrite EYs. reflexivity.
    - exact (sum_scatterers_entry nt (length freqs) Y t b terms Ht Hb Hterms).
  Qed.
End Shift.

(* ---- the two wrappers -------------------------------------------------------------------------------- *)
Section Wrappers.
  Context {T : Type} (N : Num T) {Name : Type}.
  Local Notation K := (T * T)%type.

  Lemma zip_names_inv (views : list (Name * view)) freqs nt us (res : list (Name * list (list K))) :
    zip_names N views freqs nt us = Some res -> length us = length views ->
    length res = length views /\
    forall vi name v, nth_error views vi = Some (name, v) ->
      exists u tf, nth_error us vi = Some u /\ nth_error res vi = Some (name, tf) /\
        shifted_sum N freqs nt u = Some tf.
  Proof.
    unfold zip_names. intros Hres L. split.
    { rewrite (mapM_length _ _ _ Hres), combine_length, map_length. lia. }
    intros vi name v Hv.
    assert (Hn : nth_error (map fst views) vi = Some name) by (rewrite nth_error_map, Hv; reflexivity).
    destruct (nth_error us vi) as [u|] eqn:Eu.
    - destruct (mapM_nth_error _ _ _ _ _ Hres (nth_error_combine _ _ _ _ _ Hn Eu)) as (r & Hr & Hnr).
      cbn [fst snd] in Hr. destruct (shifted_sum N freqs nt u) as [tf|] eqn:Es; [|discriminate]. cbn in Hr. inversion Hr; subst r.
      exists u, tf. split; [reflexivity|]. split; [exact Hnr | exact Es].
    - apply nth_error_None in Eu. assert (vi < length views) by (apply nth_error_Some; rewrite Hv; discriminate). lia.
  Qed.
End Wrappers.

Section WrapperTheorems.
  Context {T : Type} (N : Num T) {Name : Type}.
  Local Notation K := (T * T)%type.
  Local Notation C := (NumC N).

  Lemma spectrum_value_full (x : list K) nf b : length x = nf -> b < nf -> spectrum_value x b = nth_error x b.
  Proof.
    intros L Hb. destruct x as [|x0 [|x1 x]]; try reflexivity. cbn in L. subst nf.
    assert (b = 0) by lia. subst b. reflexivity.
  Qed.

  Lemma spectrum_value_single (x : list K) b : length x = 1 -> spectrum_value x b = nth_error x 0.
  Proof. intros L. destruct x as [|x0 [|x1 x]]; try discriminate. reflexivity. Qed.

  Variables (P : T) (paths : list (path (T := T))) (views : list (Name * view)) (tx rx : list Z)
            (so : scat_obj (T := T)) (width : option T) (ud ub ut ua : bool) (a : T) (numangles : Z).

  (* both wrappers: what they do with the result `us` of scat_unshifted_transfer_functions called on
     the frequencies `ufreqs` *)
  Lemma wrapper_entry ufreqs freqs us (res : list (Name * list (list K))) vi name v :
    scat_unshifted_transfer_functions N P paths (map snd views) tx rx ufreqs so width ud ub ut ua a numangles None = Some us ->
    zip_names N views freqs (length tx) us = Some res ->
    nth_error views vi = Some (name, v) ->
    length res = length views /\
    exists H D tf,
      nth_error us vi = Some (H, D) /\ nth_error res vi = Some (name, tf) /\
      shifted_sum N freqs (length tx) (H, D) = Some tf /\
      (forall s t x, get2 H s t = Some x -> length x = length ufreqs) /\
      forall t b f, t < length tx -> nth_error freqs b = Some f ->
        exists terms, length terms = length H /\
          (forall s, s < length H ->
             exists d x xb, get2 D s t = Some d /\ get2 H s t = Some x /\ spectrum_value x b = Some xb /\
               nth_error terms s = Some (nmul C (phase N f d) xb)) /\
          get2 tf t b = Some (csum1 N terms).
  Proof.
    intros Hus Hres Hv.
    assert (Hv' : nth_error (map snd views) vi = Some v) by (rewrite nth_error_map, Hv; reflexivity).
    destruct (unshifted_defined N _ _ _ _ _ _ _ _ _ _ _ _ _ _ _ _ Hus vi v Hv')
      as (Lus & off & ptx & prx & H & D & _ & _ & Eus & _ & _ & _ & _ & Hrows & Hlen).
    rewrite map_length in Lus.
    destruct (zip_names_inv N _ _ _ _ _ Hres Lus) as (Lres & Hz). split; [exact Lres|].
    destruct (Hz vi name v Hv) as (u & tf & Eu & Er & Es). rewrite Eus in Eu. inversion Eu; subst u.
    exists H, D, tf. repeat (split; [assumption|]).
    exact (shifted_sum_entry N freqs (length tx) H D tf Es Hrows).
  Qed.

  (* multifreq_scat_transfer_functions: for every view, timetrace t and frequency bin b
       tf[t][b] = sum over the scatterers s of exp(-2j pi f_b delays[s][t]) * H[s][t][b]
     with (H, delays) what scat_unshifted_transfer_functions yields for that view on the same arguments *)
  Theorem multifreq_entry freqs (res : list (Name * list (list K))) vi name v :
    multifreq_scat_transfer_functions N P paths views tx rx freqs so width ud ub ut ua a numangles = Some res ->
    nth_error views vi = Some (name, v) ->
    length res = length views /\
    exists us H D tf,
      scat_unshifted_transfer_functions N P paths (map snd views) tx rx freqs so width ud ub ut ua a numangles None = Some us /\
      nth_error us vi = Some (H, D) /\ nth_error res vi = Some (name, tf) /\
      shifted_sum N freqs (length tx) (H, D) = Some tf /\
      forall t b f, t < length tx -> nth_error freqs b = Some f ->
        exists terms, length terms = length H /\
          (forall s, s < length H ->
             exists d x xb, get2 D s t = Some d /\ get2 H s t = Some x /\ nth_error x b = Some xb /\
               nth_error terms s = Some (nmul C (phase N f d) xb)) /\
          get2 tf t b = Some (csum1 N terms).
  Proof.
    unfold multifreq_scat_transfer_functions. intros Hres Hv.
    destruct (scat_unshifted_transfer_functions N P paths (map snd views) tx rx freqs so width ud ub ut ua a numangles None)
      as [us|] eqn:Hus; [|discriminate]. cbn [bind] in Hres.
    destruct (wrapper_entry freqs freqs us res vi name v Hus Hres Hv) as (Lres & H & D & tf & E1 & E2 & E3 & Hlen & Hent).
    split; [exact Lres|]. exists us, H, D, tf. repeat (split; [first [reflexivity | assumption]|]).
    intros t b f Ht Hf. destruct (Hent t b f Ht Hf) as (terms & Lt & Hs & Hg).
    assert (Hb : b < length freqs) by (apply nth_error_Some; rewrite Hf; discriminate).
    exists terms. split; [exact Lt|]. split; [|exact Hg].
    intros s Hlt. destruct (Hs s Hlt) as (d & x & xb & A1 & A2 & A3 & A4). exists d, x, xb.
    rewrite (spectrum_value_full x (length freqs) b (Hlen s t x A2) Hb) in A3. repeat split; assumption.
  Qed.

  (* singlefreq_scat_transfer_functions: the unshifted function is evaluated at the ONE frequency
     `frequency` (bin 0) and that value is shifted for every frequency of freq_array:
       tf[t][b] = sum over s of exp(-2j pi f_b delays[s][t]) * H[s][t][0] *)
  Theorem singlefreq_entry frequency freqs (res : list (Name * list (list K))) vi name v :
    singlefreq_scat_transfer_functions N P paths views tx rx frequency freqs so width ud ub ut ua a numangles = Some res ->
    nth_error views vi = Some (name, v) ->
    length res = length views /\
    exists us H D tf,
      scat_unshifted_transfer_functions N P paths (map snd views) tx rx [frequency] so width ud ub ut ua a numangles None = Some us /\
      nth_error us vi = Some (H, D) /\ nth_error res vi = Some (name, tf) /\
      shifted_sum N freqs (length tx) (H, D) = Some tf /\
      forall t b f, t < length tx -> nth_error freqs b = Some f ->
        exists terms, length terms = length H /\
          (forall s, s < length H ->
             exists d x xb, get2 D s t = Some d /\ get2 H s t = Some x /\ x = [xb] /\
               nth_error terms s = Some (nmul C (phase N f d) xb)) /\
          get2 tf t b = Some (csum1 N terms).
  Proof.
    unfold singlefreq_scat_transfer_functions. intros Hres Hv.
    destruct (scat_unshifted_transfer_functions N P paths (map snd views) tx rx [frequency] so width ud ub ut ua a numangles None)
      as [us|] eqn:Hus; [|discriminate]. cbn [bind] in Hres.
    destruct (wrapper_entry [frequency] freqs us res vi name v Hus Hres Hv) as (Lres & H & D & tf & E1 & E2 & E3 & Hlen & Hent).
    split; [exact Lres|]. exists us, H, D, tf. repeat (split; [first [reflexivity | assumption]|]).
    intros t b f Ht Hf. destruct (Hent t b f Ht Hf) as (terms & Lt & Hs & Hg).
    exists terms. split; [exact Lt|]. split; [|exact Hg].
    intros s Hlt. destruct (Hs s Hlt) as (d & x & xb & A1 & A2 & A3 & A4). exists d, x, xb.
    pose proof (Hlen s t x A2) as Lx. cbn in Lx.
    destruct x as [|x0 [|x1 x]]; try discriminate. cbn in A3. inversion A3; subst x0. repeat split; assumption.
  Qed.
End WrapperTheorems.

(* ---------- over the reals ----------------------------------------------------------------------- *)
From Coq Require Import Reals Lra.
From Coquelicot Require Import Complex.
From Arim Require Import Base.NumR Model.Dft.
Local Open Scope R_scope.

(* the phase factor is exp(-2 i pi f d) = cis(-2 pi f d) of Model/Dft.v, the product Coquelicot's *)
Lemma phase_R f d : phase NumR f d = cis (- 2 * PI * f * d).
Proof. reflexivity. Qed.

Lemma cmul_R (z w : R * R) : nmul (NumC NumR) z w = Cmult z w.
Proof. reflexivity. Qed.

Lemma cconj_R (z : R * R) : cconj NumR z = Cconj z.
Proof. reflexivity. Qed.

(* timeshift_spectra on the frequencies k / (n dt) of an n-point transform IS shift_spectrum of C11 *)
Lemma timeshift_bin_is_shift_spectrum (X : nat -> C) n dt delay k :
  nmul (NumC NumR) (phase NumR (INR k / (INR n * dt)) delay) (X k) = shift_spectrum X n dt delay k.
Proof. reflexivity. Qed.

(* the ordered accumulation is the sum *)
Lemma csum1_R (l : list (R * R)) : csum1 NumR l = fold_right Cplus (RtoC 0) l.
Proof.
  assert (G : forall r x, fold_left (nadd (NumC NumR)) r x = Cplus x (fold_right Cplus (RtoC 0) r)).
  { induction r as [|y r IH]; intros x; cbn [fold_left fold_right].
    - destruct x as [x1 x2]. unfold Cplus, RtoC. cbn. f_equal; ring.
    - rewrite IH. change (nadd (NumC NumR) x y) with (Cplus x y). rewrite Cplus_assoc. reflexivity. }
  destruct l as [|x r]; [reflexivity|]. cbn [csum1 fold_right]. apply G.
Qed.
