(* Proofs/ConfigTimeProofs.v — Time.from_vect on linearly spaced vectors (C20). Axiom-free. *)
From Coq Require Import List ZArith Arith QArith Lia Lqa.
From Arim Require Import Model.Config.
Import ListNotations.
Local Open Scope Q_scope.

Lemma diffs_linspace : forall t0 step n s,
  Forall (fun d => d == step) (diffs (linspaceQ t0 step s n)) /\
  List.length (diffs (linspaceQ t0 step s n)) = Nat.pred n.
Proof.
  intros t0 step. induction n as [|n IH]; intros s; [split; constructor|].
  destruct n as [|n]; [split; constructor|].
  destruct (IH (S s)) as [H1 H2].
  change (linspaceQ t0 step s (S (S n))) with
    ((t0 + inject_Z (Z.of_nat s) * step) :: linspaceQ t0 step (S s) (S n)).
  change (linspaceQ t0 step (S s) (S n)) with
    ((t0 + inject_Z (Z.of_nat (S s)) * step) :: linspaceQ t0 step (S (S s)) n) in *.
  cbn [diffs]. split.
  - constructor; [|exact H1].
    rewrite Nat2Z.inj_succ. unfold Z.succ. rewrite inject_Z_plus. ring.
  - cbn [List.length]. cbn [diffs List.length] in H2. now rewrite H2.
Qed.

Lemma qsum_const : forall step l acc, Forall (fun d => d == step) l ->
  fold_left Qplus l acc == acc + inject_Z (Z.of_nat (List.length l)) * step.
Proof.
  intros step. induction l as [|d l IH]; intros acc H.
  - cbn. ring.
  - inversion H as [|? ? Hd Hl]; subst. cbn [fold_left List.length]. rewrite (IH _ Hl).
    rewrite Nat2Z.inj_succ. unfold Z.succ. rewrite inject_Z_plus. rewrite Hd. ring.
Qed.

Lemma qabs_zero : forall x, x == 0 -> qabs x == 0.
Proof. intros x H. unfold qabs. destruct (Qle_bool 0 x); rewrite H; ring. Qed.

Lemma qabs_nonneg : forall x, 0 <= qabs x.
Proof.
  intros x. unfold qabs. destruct (Qle_bool 0 x) eqn:E.
  - now apply Qle_bool_iff.
  - assert (~ 0 <= x) by (intros H; apply Qle_bool_iff in H; congruence). lra.
Qed.

Lemma time_from_vect_linspace : forall t0 step n, (2 <= n)%nat ->
  exists t0' avg, time_from_vect (linspaceQ t0 step 0 n) = Some (t0', avg, n) /\ t0' == t0 /\ avg == step.
Proof.
  intros t0 step n Hn. destruct n as [|[|n]]; try lia.
  destruct (diffs_linspace t0 step (S (S n)) 0) as [Hd Hl].
  set (l := linspaceQ t0 step 0 (S (S n))) in *.
  assert (El : l = (t0 + inject_Z (Z.of_nat 0) * step) :: (t0 + inject_Z (Z.of_nat 1) * step) :: linspaceQ t0 step 2 n) by reflexivity.
  unfold time_from_vect. rewrite El. rewrite <- El.
  set (ds := diffs l) in *.
  set (avg := qsum ds / inject_Z (Z.of_nat (List.length ds))).
  assert (Havg : avg == step).
  { unfold avg, qsum. rewrite (qsum_const step ds 0 Hd). rewrite Hl. cbn [Nat.pred].
    assert (Hnz : ~ inject_Z (Z.of_nat (S n)) == 0).
    { intros H. rewrite Nat2Z.inj_succ in H. unfold Z.succ in H. rewrite inject_Z_plus in H.
      assert (0 <= inject_Z (Z.of_nat n)) by (change 0 with (inject_Z 0); rewrite <- Zle_Qle; lia).
      change (inject_Z 1) with 1 in H. lra. }
    field. exact Hnz. }
  assert (Hall : forallb (fun s => Qle_bool (qabs (s - avg)) ((1 # 100) * qabs avg)) ds = true).
  { apply forallb_forall. intros s Hs. rewrite Forall_forall in Hd. specialize (Hd s Hs).
    apply Qle_bool_iff. rewrite (qabs_zero (s - avg)) by (rewrite Hd, Havg; ring).
    pose proof (qabs_nonneg avg). lra. }
  rewrite Hall. exists (t0 + inject_Z (Z.of_nat 0) * step), avg. split.
  - f_equal. f_equal. unfold l, linspaceQ. now rewrite map_length, seq_length.
  - split; [cbn; ring | exact Havg].
Qed.
