(* Proofs/FermatSnellN.v — the continuous side of C01 for ANY NUMBER of flat parallel
   interfaces in the plane (generalises Proofs/FermatSnell.v, which has one interface).

   Setting.  n >= 0 horizontal interfaces separate n+1 layers; layer k has thickness h_k > 0
   and velocity v_k > 0 (a list `ls` of pairs (h_k, v_k), one per LEG).  The source has
   abscissa a, the target abscissa b, the ray crosses interface k at abscissa x_k (a list
   `xs` of n reals).  Travel time
       ttimeN ls a xs b = sum_k sqrt ((x_{k+1} - x_k)^2 + h_k^2) / v_k,   x_0 = a, x_{n+1} = b.
   leg h v d   = sqrt (d*d + h*h) / v            time of one leg of horizontal extent d
   slope h v d = d / (v * sqrt (d*d + h*h))      = sin(theta) / v, theta = angle to the vertical
   snellN ls a xs b : sin(theta_k)/v_k = sin(theta_{k+1})/v_{k+1} at every interface.

   Proved here (for every n, by induction over the lists):
     leg_derive, leg_tangent, leg_convex   each leg time is differentiable with derivative
                                           `slope`, lies above its tangents, is convex
     snell_global_min                      Snell at every interface  ==>  global minimiser
     fermat_snellN                         local minimiser           ==>  Snell at every interface
     ttimeN_partial, stationary_iff_snell  d/dx_k ttimeN = slope_k - slope_{k+1}; stationary <=> Snell
                                           (stationaryN and the *_Reals lemmas use the standard
                                           library's derivable_pt_lim, the others Coquelicot's is_derive)
     snell_min_equiv                       Snell <=> global minimiser <=> local minimiser
     snell_discrete_min                    continuous Snell time <= discrete minimum over sampled
                                           crossing points <= time through any tuple of samples
     discrete_between_snell                the same for the verified solver (discrete_between with
                                           L := the Snell ray's travel time)
   Standard-library real numbers (their classical axioms) and Coquelicot. *)
From Coq Require Import Reals Lra Lia List Bool Arith.
From Coquelicot Require Import Coquelicot.
From Arim Require Import Model.MinPlus Model.Fermat Proofs.MinPlusProofs Proofs.FermatProofs
                         Proofs.FermatSnell.
Import ListNotations.
Local Open Scope R_scope.

(* ---- one leg ---------------------------------------------------------------------- *)
Definition leg (h v d : R) : R := sqrt (d * d + h * h) / v.
Definition slope (h v d : R) : R := d / (v * sqrt (d * d + h * h)).

Lemma leg_root_pos h d : 0 < h -> 0 < sqrt (d * d + h * h).
Proof. intros Hh. apply sqrt_lt_R0, sq_sum_pos. lra. Qed.

Lemma leg_pos h v d : 0 < h -> 0 < v -> 0 < leg h v d.
Proof. intros Hh Hv. unfold leg. apply Rdiv_lt_0_compat; [apply leg_root_pos|]; assumption. Qed.

(* slope = sin(theta) / v with sin(theta) = d / |leg| *)
Lemma slope_sin_over_v h v d : 0 < h -> 0 < v ->
  slope h v d = d / sqrt (d * d + h * h) / v.
Proof.
  intros Hh Hv. pose proof (leg_root_pos h d Hh) as HA. unfold slope. field. split; lra.
Qed.

(* ... and theta = atan (d / h) is the angle of the leg to the vertical *)
Lemma slope_sin_atan h v d : 0 < h -> 0 < v -> slope h v d = sin (atan (d / h)) / v.
Proof.
  intros Hh Hv. rewrite slope_sin_over_v by assumption. f_equal.
  rewrite sin_atan. unfold Rsqr.
  replace (1 + d / h * (d / h)) with ((d * d + h * h) / (h * h)) by (field; lra).
  rewrite sqrt_div_alt by nra.
  rewrite sqrt_square by lra.
  pose proof (leg_root_pos h d Hh) as HA. field. split; lra.
Qed.

Lemma leg_derive h v d : 0 < h -> 0 < v -> is_derive (leg h v) d (slope h v d).
Proof.
  intros Hh Hv. unfold leg, slope.
  pose proof (sq_sum_pos d h ltac:(lra)) as H1.
  pose proof (leg_root_pos h d Hh) as HA.
  auto_derive.
  - repeat split; auto; lra.
  - field. split; lra.
Qed.

(* the same with the standard library's notion of derivative *)
Lemma leg_derive_Reals h v d : 0 < h -> 0 < v -> derivable_pt_lim (leg h v) d (slope h v d).
Proof. intros Hh Hv. apply is_derive_Reals, leg_derive; assumption. Qed.

(* Cauchy-Schwarz for the vectors (e, h) and (d, h) *)
Lemma cauchy_leg h d e : e * d + h * h <= sqrt (e * e + h * h) * sqrt (d * d + h * h).
Proof.
  rewrite <- sqrt_mult_alt by nra.
  apply Rle_trans with (Rabs (e * d + h * h)); [apply Rle_abs|].
  rewrite <- sqrt_Rsqr_abs. apply sqrt_le_1_alt. unfold Rsqr.
  pose proof (Rle_0_sqr (h * (e - d))) as H. unfold Rsqr in H. nra.
Qed.

(* the leg time lies above each of its tangent lines *)
Lemma leg_tangent h v d e : 0 < h -> 0 < v ->
  leg h v d + slope h v d * (e - d) <= leg h v e.
Proof.
  intros Hh Hv. unfold leg, slope.
  pose proof (leg_root_pos h d Hh) as HA.
  pose proof (cauchy_leg h d e) as HC.
  assert (HAA : sqrt (d * d + h * h) * sqrt (d * d + h * h) = d * d + h * h) by (apply sqrt_sqrt; nra).
  set (A := sqrt (d * d + h * h)) in *. set (B := sqrt (e * e + h * h)) in *.
  assert (HvA : 0 < v * A) by (apply Rmult_lt_0_compat; assumption).
  apply Rmult_le_reg_r with (v * A); [exact HvA|].
  replace ((A / v + d / (v * A) * (e - d)) * (v * A)) with (A * A + d * (e - d)) by (field; split; lra).
  replace (B / v * (v * A)) with (B * A) by (field; lra).
  rewrite HAA. lra.
Qed.

(* hence it is a convex function of the horizontal extent *)
Lemma leg_convex h v d e t : 0 < h -> 0 < v -> 0 <= t <= 1 ->
  leg h v (t * d + (1 - t) * e) <= t * leg h v d + (1 - t) * leg h v e.
Proof.
  intros Hh Hv Ht. set (m := t * d + (1 - t) * e).
  pose proof (leg_tangent h v m d Hh Hv) as H1.
  pose proof (leg_tangent h v m e Hh Hv) as H2.
  assert (H1' : t * (leg h v m + slope h v m * (d - m)) <= t * leg h v d)
    by (apply Rmult_le_compat_l; lra).
  assert (H2' : (1 - t) * (leg h v m + slope h v m * (e - m)) <= (1 - t) * leg h v e)
    by (apply Rmult_le_compat_l; lra).
  assert (E : t * (leg h v m + slope h v m * (d - m)) + (1 - t) * (leg h v m + slope h v m * (e - m))
              = leg h v m) by (unfold m; ring).
  lra.
Qed.

(* ---- the travel time through n interfaces ------------------------------------------ *)
Fixpoint ttimeN (ls : list (R * R)) (a : R) (xs : list R) (b : R) : R :=
  match ls with
  | [] => 0
  | (h, v) :: ls' =>
      match xs with
      | [] => leg h v (b - a)
      | x :: xs' => leg h v (x - a) + ttimeN ls' x xs' b
      end
  end.

(* sin(theta_k) / v_k of the n+1 legs *)
Fixpoint slopesN (ls : list (R * R)) (a : R) (xs : list R) (b : R) : list R :=
  match ls with
  | [] => []
  | (h, v) :: ls' =>
      match xs with
      | [] => [slope h v (b - a)]
      | x :: xs' => slope h v (x - a) :: slopesN ls' x xs' b
      end
  end.

Definition layers_ok (ls : list (R * R)) : Prop := List.Forall (fun l => 0 < fst l /\ 0 < snd l) ls.

(* consecutive entries are equal *)
Fixpoint chain_eq (ss : list R) : Prop :=
  match ss with
  | s1 :: t => match t with
               | s2 :: _ => s1 = s2 /\ chain_eq t
               | [] => True
               end
  | [] => True
  end.

(* Snell's law at every interface *)
Definition snellN (ls : list (R * R)) (a : R) (xs : list R) (b : R) : Prop :=
  chain_eq (slopesN ls a xs b).

Lemma chain_eq_const ss : chain_eq ss -> List.Forall (fun s => s = hd 0 ss) ss.
Proof.
  induction ss as [|s1 t IH]; intros H; [constructor|].
  destruct t as [|s2 t'].
  - constructor; [reflexivity | constructor].
  - destruct H as [E H]. specialize (IH H). cbn [hd] in *. subst s2.
    constructor; [reflexivity | exact IH].
Qed.

Lemma const_chain_eq p ss : List.Forall (fun s => s = p) ss -> chain_eq ss.
Proof.
  induction ss as [|s1 t IH]; intros H; [exact I|].
  inversion H as [|? ? E1 Ht]; subst. destruct t as [|s2 t']; [exact I|].
  split; [|apply IH; exact Ht]. inversion Ht; subst; reflexivity.
Qed.

(* the Snell invariant p = sin(theta_k) / v_k *)
Lemma snellN_invariant ls a xs b :
  snellN ls a xs b <-> exists p, List.Forall (fun s => s = p) (slopesN ls a xs b).
Proof.
  split.
  - intros H. eexists. apply chain_eq_const. exact H.
  - intros [p H]. eapply const_chain_eq. exact H.
Qed.

Lemma slopesN_length ls : forall a xs b, length ls = S (length xs) ->
  length (slopesN ls a xs b) = length ls.
Proof.
  induction ls as [|[h v] ls' IH]; intros a xs b Hl; [reflexivity|].
  destruct xs as [|x xs']; cbn [slopesN length] in *.
  - destruct ls'; [reflexivity | discriminate].
  - f_equal. apply IH. lia.
Qed.

(* sum of the tangent-line inequalities of all legs; the two rays may start at different
   abscissae a, a' (needed for the induction): the linear terms telescope *)
Lemma snell_master p ls : layers_ok ls -> forall a a' xs ys b,
  length ls = S (length xs) -> length ys = length xs ->
  List.Forall (fun s => s = p) (slopesN ls a xs b) ->
  ttimeN ls a xs b + p * ((b - a') - (b - a)) <= ttimeN ls a' ys b.
Proof.
  intros Hok. induction Hok as [|[h v] ls' [Hh Hv] Hok' IH]; intros a a' xs ys b Hl Hl' Hp.
  - discriminate.
  - cbn [fst snd] in Hh, Hv.
    destruct xs as [|x xs']; destruct ys as [|y ys']; try discriminate;
      cbn [ttimeN slopesN length] in *.
    + inversion Hp as [|? ? E _]; subst p.
      pose proof (leg_tangent h v (b - a) (b - a') Hh Hv). lra.
    + inversion Hp as [|? ? E Hp']; subst.
      pose proof (leg_tangent h v (x - a) (y - a') Hh Hv) as H1.
      assert (Hl1 : length ls' = S (length xs')) by lia.
      assert (Hl2 : length ys' = length xs') by lia.
      pose proof (IH x y xs' ys' b Hl1 Hl2 Hp') as H2.
      lra.
Qed.

(* SNELL ==> GLOBAL MINIMUM *)
Theorem snell_global_min_lemma ls a xs b :
  layers_ok ls -> length ls = S (length xs) -> snellN ls a xs b ->
  forall ys, length ys = length xs -> ttimeN ls a xs b <= ttimeN ls a ys b.
Proof.
  intros Hok Hl Hs ys Hl'.
  apply snellN_invariant in Hs. destruct Hs as [p Hp].
  pose proof (snell_master p ls Hok a a xs ys b Hl Hl' Hp). lra.
Qed.

(* ---- converse: a (local) minimiser satisfies Snell at every interface ---------------- *)
(* ys is within eps of xs, coordinate by coordinate *)
Definition near (eps : R) (xs ys : list R) : Prop :=
  List.Forall2 (fun x y => Rabs (y - x) < eps) xs ys.

Definition local_minN (ls : list (R * R)) (a : R) (xs : list R) (b : R) : Prop :=
  exists eps, 0 < eps /\ forall ys, near eps xs ys -> ttimeN ls a xs b <= ttimeN ls a ys b.

Definition global_minN (ls : list (R * R)) (a : R) (xs : list R) (b : R) : Prop :=
  forall ys, length ys = length xs -> ttimeN ls a xs b <= ttimeN ls a ys b.

Lemma near_refl eps xs : 0 < eps -> near eps xs xs.
Proof.
  intros He. induction xs as [|x xs IH]; constructor; [|exact IH].
  replace (x - x) with 0 by ring. rewrite Rabs_R0. exact He.
Qed.

Lemma near_length eps xs ys : near eps xs ys -> length ys = length xs.
Proof. intros H. induction H; cbn [length]; congruence. Qed.

(* what does not depend on the first crossing point *)
Definition restN (ls : list (R * R)) (xs : list R) (b : R) : R :=
  match xs with
  | [] => 0
  | z :: xs' => ttimeN ls z xs' b
  end.

(* as a function of the FIRST crossing point y alone, the travel time is the one-interface
   travel time of Proofs/FermatSnell.v between (a, h0) and (next crossing point, h1) + constant *)
Lemma ttimeN_first h0 v0 h1 v1 ls a y xs b :
  length ls = length xs ->
  ttimeN ((h0, v0) :: (h1, v1) :: ls) a (y :: xs) b
  = ttime a h0 (hd b xs) h1 v0 v1 y + restN ls xs b.
Proof.
  intros Hl. unfold ttime, restN. cbn [ttimeN].
  destruct xs as [|z xs']; cbn [hd]; unfold leg.
  - destruct ls; [|discriminate]. ring.
  - ring.
Qed.

Lemma slope_forms h v d : 0 < h -> 0 < v ->
  d / sqrt (d * d + h * h) / v = slope h v d.
Proof. intros Hh Hv. symmetry. apply slope_sin_over_v; assumption. Qed.

Theorem fermat_snellN_lemma ls : layers_ok ls -> forall a xs b,
  length ls = S (length xs) -> local_minN ls a xs b -> snellN ls a xs b.
Proof.
  intros Hok. induction Hok as [|[h0 v0] ls' [Hh0 Hv0] Hok' IH]; intros a xs b Hl Hmin.
  - discriminate.
  - cbn [fst snd] in Hh0, Hv0.
    destruct xs as [|x xs']; [exact I|].
    destruct ls' as [|[h1 v1] ls'']; [discriminate|].
    assert (Hl' : length ls'' = length xs') by (cbn [length] in Hl; lia).
    pose proof (Forall_inv Hok') as [Hh1 Hv1]. cbn [fst snd] in Hh1, Hv1.
    destruct Hmin as (eps & Heps & Hmin).
    (* Snell at the first interface, by the one-interface theorem *)
    assert (S1 : slope h0 v0 (x - a) = slope h1 v1 (hd b xs' - x)).
    { rewrite <- !slope_forms by assumption.
      apply (fermat_stationary_snell_lemma a h0 (hd b xs') h1 v0 v1 x (x - eps) (x + eps));
        try lra.
      intros y Hy.
      assert (Hn : near eps (x :: xs') (y :: xs')).
      { constructor; [|apply near_refl; exact Heps]. apply Rabs_def1; lra. }
      pose proof (Hmin _ Hn) as Hle.
      rewrite !ttimeN_first in Hle by exact Hl'. lra. }
    (* the tail is a local minimiser of the tail problem *)
    assert (Htail : local_minN ((h1, v1) :: ls'') x xs' b).
    { exists eps. split; [exact Heps|]. intros ys' Hn'.
      assert (Hn : near eps (x :: xs') (x :: ys')).
      { constructor; [|exact Hn']. replace (x - x) with 0 by ring. rewrite Rabs_R0. exact Heps. }
      pose proof (Hmin _ Hn) as Hle.
      change (leg h0 v0 (x - a) + ttimeN ((h1, v1) :: ls'') x xs' b
              <= leg h0 v0 (x - a) + ttimeN ((h1, v1) :: ls'') x ys' b) in Hle.
      lra. }
    assert (Hl1 : length ((h1, v1) :: ls'') = S (length xs')) by (cbn [length]; lia).
    pose proof (IH x xs' b Hl1 Htail) as IHs.
    unfold snellN in *. cbn [slopesN] in *.
    destruct xs' as [|z xs'']; cbn [hd] in S1; (split; [exact S1 | exact IHs]).
Qed.

Lemma global_min_local ls a xs b : global_minN ls a xs b -> local_minN ls a xs b.
Proof.
  intros H. exists 1. split; [lra|]. intros ys Hn. apply H. eapply near_length. exact Hn.
Qed.

(* Snell <=> global minimiser <=> local minimiser *)
Theorem snell_min_equiv_lemma ls a xs b :
  layers_ok ls -> length ls = S (length xs) ->
  (snellN ls a xs b <-> global_minN ls a xs b) /\ (snellN ls a xs b <-> local_minN ls a xs b).
Proof.
  intros Hok Hl. split; split.
  - intros Hs ys Hy. apply snell_global_min_lemma; assumption.
  - intros Hg. apply fermat_snellN_lemma; [assumption | assumption |]. apply global_min_local, Hg.
  - intros Hs. apply global_min_local. intros ys Hy. apply snell_global_min_lemma; assumption.
  - intros Hm. apply fermat_snellN_lemma; assumption.
Qed.

(* ---- partial derivatives: stationary <=> Snell ---------------------------------------- *)
(* d/dx_k ttimeN = sin(theta_k)/v_k - sin(theta_{k+1})/v_{k+1}  (k = length pre) *)
Lemma ttimeN_partial_lemma ls : layers_ok ls -> forall (pre : list R) (a x : R) (post : list R) (b : R),
  length ls = S (length (pre ++ x :: post)) ->
  is_derive (fun y : R => ttimeN ls a (pre ++ y :: post) b) x
    (nth (length pre) (slopesN ls a (pre ++ x :: post) b) 0
     - nth (S (length pre)) (slopesN ls a (pre ++ x :: post) b) 0).
Proof.
  intros Hok. induction Hok as [|[h0 v0] ls' [Hh0 Hv0] Hok' IH]; intros pre a x post b Hl.
  - discriminate.
  - cbn [fst snd] in Hh0, Hv0. destruct pre as [|z pre'].
    + cbn [app length] in *.
      destruct ls' as [|[h1 v1] ls'']; [discriminate|].
      assert (Hl' : length ls'' = length post) by (cbn [length] in Hl; lia).
      pose proof (Forall_inv Hok') as [Hh1 Hv1]. cbn [fst snd] in Hh1, Hv1.
      apply (is_derive_ext (fun y => ttime a h0 (hd b post) h1 v0 v1 y + restN ls'' post b)).
      { intros y. symmetry. apply ttimeN_first. exact Hl'. }
      assert (E : nth 0 (slopesN ((h0, v0) :: (h1, v1) :: ls'') a (x :: post) b) 0
                  - nth 1 (slopesN ((h0, v0) :: (h1, v1) :: ls'') a (x :: post) b) 0
                  = slope h0 v0 (x - a) - slope h1 v1 (hd b post - x)).
      { destruct post; reflexivity. }
      rewrite E. rewrite <- !slope_forms by assumption.
      pose proof (ttime_derive a h0 (hd b post) h1 v0 v1 x ltac:(lra) ltac:(lra) ltac:(lra) ltac:(lra)) as Hd.
      set (g := ttime a h0 (hd b post) h1 v0 v1) in *.
      set (c := restN ls'' post b).
      auto_derive.
      * eexists. exact Hd.
      * rewrite (is_derive_unique (fun x0 : R => g x0) x _ Hd). ring.
    + cbn [app length] in *.
      assert (Hl' : length ls' = S (length (pre' ++ x :: post))) by lia.
      pose proof (IH pre' z x post b Hl') as Hd.
      cbn [ttimeN slopesN nth].
      set (g := fun y => ttimeN ls' z (pre' ++ y :: post) b) in *.
      change (is_derive (fun y => leg h0 v0 (z - a) + g y) x
                (nth (length pre') (slopesN ls' z (pre' ++ x :: post) b) 0
                 - nth (S (length pre')) (slopesN ls' z (pre' ++ x :: post) b) 0)).
      set (c := leg h0 v0 (z - a)).
      auto_derive.
      * eexists. exact Hd.
      * rewrite (is_derive_unique (fun x0 : R => g x0) x _ Hd). ring.
Qed.

Lemma ttimeN_partial_Reals ls : layers_ok ls -> forall (pre : list R) (a x : R) (post : list R) (b : R),
  length ls = S (length (pre ++ x :: post)) ->
  derivable_pt_lim (fun y : R => ttimeN ls a (pre ++ y :: post) b) x
    (nth (length pre) (slopesN ls a (pre ++ x :: post) b) 0
     - nth (S (length pre)) (slopesN ls a (pre ++ x :: post) b) 0).
Proof. intros Hok pre a x post b Hl. apply is_derive_Reals, ttimeN_partial_lemma; assumption. Qed.

(* every partial derivative of the travel time vanishes (standard-library derivative) *)
Definition stationaryN (ls : list (R * R)) (a : R) (xs : list R) (b : R) : Prop :=
  forall (pre : list R) (x : R) (post : list R), xs = pre ++ x :: post ->
    derivable_pt_lim (fun y : R => ttimeN ls a (pre ++ y :: post) b) x 0.

Lemma chain_eq_nth ss :
  chain_eq ss <-> (forall k, (S k < length ss)%nat -> nth k ss 0 = nth (S k) ss 0).
Proof.
  induction ss as [|s1 t IH]; [split; [intros _ k Hk; cbn in Hk; lia | intros _; exact I]|].
  destruct t as [|s2 t'].
  - split; [intros _ k Hk; cbn in Hk; lia | intros _; exact I].
  - split.
    + intros [E H] k Hk. destruct k as [|k']; [exact E|].
      apply (proj1 IH H k'). cbn [length] in *. lia.
    + intros H. split.
      * apply (H 0%nat). cbn [length]. lia.
      * apply (proj2 IH). intros k Hk. apply (H (S k)). cbn [length] in *. lia.
Qed.

Theorem stationary_iff_snell_lemma ls a xs b :
  layers_ok ls -> length ls = S (length xs) ->
  (stationaryN ls a xs b <-> snellN ls a xs b).
Proof.
  intros Hok Hl. unfold snellN. rewrite chain_eq_nth. rewrite (slopesN_length ls a xs b Hl).
  split.
  - intros Hst k Hk.
    assert (Hk' : (k < length xs)%nat) by lia.
    destruct (nth_split xs 0 Hk') as (pre & post & E & Hlen).
    pose proof (Hst pre (nth k xs 0) post E) as H0. apply is_derive_Reals in H0.
    assert (Hl' : length ls = S (length (pre ++ nth k xs 0 :: post))) by (rewrite <- E; exact Hl).
    pose proof (ttimeN_partial_lemma ls Hok pre a (nth k xs 0) post b Hl') as H1.
    rewrite <- E, Hlen in H1.
    apply is_derive_unique in H0. apply is_derive_unique in H1. rewrite H0 in H1. lra.
  - intros Hs pre x post E. subst xs.
    pose proof (ttimeN_partial_lemma ls Hok pre a x post b Hl) as H1.
    rewrite (Hs (length pre)) in H1.
    + replace (nth (S (length pre)) (slopesN ls a (pre ++ x :: post) b) 0
               - nth (S (length pre)) (slopesN ls a (pre ++ x :: post) b) 0) with 0 in H1 by ring.
      apply is_derive_Reals. exact H1.
    + rewrite Hl, app_length. cbn [length]. lia.
Qed.

(* ---- the discrete minimum over sampled crossing points -------------------------------- *)
(* all ways of choosing one sample per interface *)
Fixpoint choices (ss : list (list R)) : list (list R) :=
  match ss with
  | [] => [[]]
  | s :: ss' => flat_map (fun x => map (cons x) (choices ss')) s
  end.

Definition is_choice (ys : list R) (ss : list (list R)) : Prop :=
  List.Forall2 (fun y s => In y s) ys ss.

Lemma in_choices ss : forall ys, In ys (choices ss) <-> is_choice ys ss.
Proof.
  unfold is_choice. induction ss as [|s ss' IH]; intros ys; cbn [choices].
  - split.
    + intros [<- | []]. constructor.
    + intros H. inversion H. left. reflexivity.
  - rewrite in_flat_map. split.
    + intros (x & Hx & Hin). apply in_map_iff in Hin. destruct Hin as (ys' & <- & Hys').
      constructor; [exact Hx | apply IH; exact Hys'].
    + intros H. inversion H as [|y s0 ys' ss0 Hy Hys']; subst.
      exists y. split; [exact Hy|]. apply in_map. apply IH. exact Hys'.
Qed.

Lemma choices_nonempty ss : List.Forall (fun s => s <> []) ss -> choices ss <> [].
Proof.
  induction 1 as [|s ss' Hs _ IH]; cbn [choices]; [discriminate|].
  destruct s as [|x s']; [contradiction|]. cbn [flat_map].
  destruct (choices ss') as [|c cs]; [contradiction|]. discriminate.
Qed.

Lemma is_choice_length ys ss : is_choice ys ss -> length ys = length ss.
Proof. intros H. induction H; cbn [length]; congruence. Qed.

(* minimum of a non-empty list (0 for the empty list) *)
Definition list_min (l : list R) : R :=
  match l with
  | [] => 0
  | x :: l' => fold_right Rmin x l'
  end.

Lemma fold_min_spec x l :
  In (fold_right Rmin x l) (x :: l) /\ (forall y, In y (x :: l) -> fold_right Rmin x l <= y).
Proof.
  induction l as [|z l IH]; cbn [fold_right].
  - split; [left; reflexivity | intros y [<- | []]; lra].
  - destruct IH as [Hin Hle]. split.
    + destruct (Rle_dec z (fold_right Rmin x l)) as [Hz | Hz].
      * rewrite Rmin_left by exact Hz. right. left. reflexivity.
      * rewrite Rmin_right by lra.
        destruct Hin as [E | Hin]; [left; exact E | right; right; exact Hin].
    + intros y Hy. pose proof (Rmin_l z (fold_right Rmin x l)). pose proof (Rmin_r z (fold_right Rmin x l)).
      destruct Hy as [<- | [<- | Hy]].
      * specialize (Hle x (or_introl eq_refl)). lra.
      * lra.
      * specialize (Hle y (or_intror Hy)). lra.
Qed.

Lemma list_min_in l : l <> [] -> In (list_min l) l.
Proof. destruct l as [|x l']; [congruence|]. intros _. apply fold_min_spec. Qed.

Lemma list_min_le l y : In y l -> list_min l <= y.
Proof. destruct l as [|x l']; [intros []|]. apply fold_min_spec. Qed.

(* the discrete minimum: min over all choices of one sample per interface of the travel time *)
Definition discrete_minN (ls : list (R * R)) (a : R) (samples : list (list R)) (b : R) : R :=
  list_min (map (fun ys => ttimeN ls a ys b) (choices samples)).

(* continuous Snell time <= discrete minimum (attained by a tuple of samples) <= time of the ray
   through ANY tuple of samples, in particular the samples nearest to the Snell crossing points *)
Theorem snell_discrete_min_lemma ls a xs b samples :
  layers_ok ls -> length ls = S (length xs) -> snellN ls a xs b ->
  length samples = length xs -> List.Forall (fun s => s <> []) samples ->
  ttimeN ls a xs b <= discrete_minN ls a samples b
  /\ (exists ys, is_choice ys samples /\ discrete_minN ls a samples b = ttimeN ls a ys b)
  /\ (forall ys, is_choice ys samples -> discrete_minN ls a samples b <= ttimeN ls a ys b).
Proof.
  intros Hok Hl Hs Hn Hne. unfold discrete_minN.
  assert (Hne' : map (fun ys => ttimeN ls a ys b) (choices samples) <> []).
  { pose proof (choices_nonempty samples Hne) as H. destruct (choices samples); [contradiction | discriminate]. }
  pose proof (list_min_in _ Hne') as Hin. apply in_map_iff in Hin.
  destruct Hin as (ys & Eys & Hys). apply in_choices in Hys.
  split; [|split].
  - rewrite <- Eys. apply snell_global_min_lemma; try assumption.
    rewrite (is_choice_length _ _ Hys). exact Hn.
  - exists ys. split; [exact Hys | symmetry; exact Eys].
  - intros zs Hzs. apply list_min_le. apply in_map_iff. exists zs. split; [reflexivity|].
    apply in_choices. exact Hzs.
Qed.

(* ---- the verified solver against the Snell ray ----------------------------------------- *)
(* discrete_between_lemma (Proofs/FermatProofs.v) over the reals with the lower bound
   L := travel time of the Snell ray: if the sample points of the interior sets lie on n flat
   parallel interfaces (the discrete cost of an index tuple is ttimeN through the abscissae
   `sample ridx` of its interior points), then
       Snell time <= times[i][j] <= time of the ray through any tuple of samples. *)
Theorem discrete_between_snell_lemma (D V PS : Type) (size : PS -> nat)
    (dtab : PS -> PS -> list (list D)) (divv : D -> V -> R)
    (wf : PS -> V -> PS -> nat -> nat -> R) :
  leg_model size dtab divv wf ->
  forall (p : fpath V PS) (r : rays R) (i j : nat) ls a xs b (sample : list nat -> list R),
    layers_ok ls -> length ls = S (length xs) -> snellN ls a xs b ->
    interior_ok size p -> solve_pure Rltb Rplus size dtab divv p = Some r ->
    (i < size (startp p))%nat -> (j < size (endp p))%nat ->
    (forall ridx c, cost Rplus size wf p ridx = Some c -> last ridx 0%nat = i -> hd 0%nat ridx = j ->
                    length (sample ridx) = length xs /\ ttimeN ls a (sample ridx) b = c) ->
    exists t, get2 (r_times r) i j = Some t
              /\ ttimeN ls a xs b <= t
              /\ (forall ridx c, cost Rplus size wf p ridx = Some c -> last ridx 0%nat = i -> hd 0%nat ridx = j ->
                                 t <= ttimeN ls a (sample ridx) b).
Proof.
  intros Hleg p r i j ls a xs b sample Hok Hl Hs Hint Hsolve Hi Hj Hsample.
  destruct cost_structure_R_lemma as (Hord & Hmono & _).
  set (ctime := fun ys : list R =>
                  if Nat.eqb (length ys) (length xs) then ttimeN ls a ys b else ttimeN ls a xs b).
  assert (Hc : forall ridx c, cost Rplus size wf p ridx = Some c -> last ridx 0%nat = i -> hd 0%nat ridx = j ->
                              ctime (sample ridx) = c).
  { intros ridx c H1 H2 H3. destruct (Hsample ridx c H1 H2 H3) as [E1 E2].
    unfold ctime. rewrite E1, Nat.eqb_refl. exact E2. }
  assert (HL : forall ys, Rleb (ttimeN ls a xs b) (ctime ys) = true).
  { intros ys. apply Rleb_le. unfold ctime.
    destruct (Nat.eqb (length ys) (length xs)) eqn:E.
    - apply Nat.eqb_eq in E. apply snell_global_min_lemma; assumption.
    - lra. }
  destruct (discrete_between_lemma R D V PS Rleb Rltb Rplus size dtab divv wf Hord Hleg Hmono
              p r i j (list R) ctime sample (ttimeN ls a xs b) Hint Hsolve Hi Hj Hc HL)
    as (t & Ht & HLt & Hup).
  exists t. split; [exact Ht|]. split; [apply Rleb_le; exact HLt|].
  intros ridx c H1 H2 H3. specialize (Hup ridx c H1 H2 H3). apply Rleb_le in Hup.
  destruct (Hsample ridx c H1 H2 H3) as [E1 _]. unfold ctime in Hup.
  rewrite E1, Nat.eqb_refl in Hup. exact Hup.
Qed.

(* ---- non-vacuity: two interfaces, three 3-4-5 legs, velocities 1, 4/3, 1 ------------------ *)
(* legs (3,4), (4,3), (3,4) of length 5: sin(theta)/v = (3/5)/1 = (4/5)/(4/3) = (3/5)/1 *)
Definition ex_layers : list (R * R) := [(4, 1); (3, 4 / 3); (4, 1)].

Lemma sqrt_345 x y : x * x + y * y = 5 * 5 -> sqrt (x * x + y * y) = 5.
Proof. intros E. rewrite E. apply sqrt_square. lra. Qed.

Lemma snell_example_lemma :
  layers_ok ex_layers
  /\ snellN ex_layers 0 [3; 7] 10
  /\ ttimeN ex_layers 0 [3; 7] 10 = 55 / 4
  /\ (forall y1 y2, 55 / 4 <= ttimeN ex_layers 0 [y1; y2] 10)
  /\ 55 / 4 <= discrete_minN ex_layers 0 [[2; 4]; [6; 8]] 10.
Proof.
  assert (Hok : layers_ok ex_layers).
  { unfold ex_layers, layers_ok. repeat constructor; cbn [fst snd]; lra. }
  assert (Hs : snellN ex_layers 0 [3; 7] 10).
  { unfold snellN, ex_layers. cbn [slopesN chain_eq]. unfold slope.
    rewrite (sqrt_345 (3 - 0) 4) by lra. rewrite (sqrt_345 (7 - 3) 3) by lra.
    rewrite (sqrt_345 (10 - 7) 4) by lra. split; [|split; [|exact I]]; field. }
  assert (Ht : ttimeN ex_layers 0 [3; 7] 10 = 55 / 4).
  { unfold ex_layers. cbn [ttimeN]. unfold leg.
    rewrite (sqrt_345 (3 - 0) 4) by lra. rewrite (sqrt_345 (7 - 3) 3) by lra.
    rewrite (sqrt_345 (10 - 7) 4) by lra. field. }
  split; [exact Hok|]. split; [exact Hs|]. split; [exact Ht|]. split.
  - intros y1 y2. rewrite <- Ht.
    apply snell_global_min_lemma; [exact Hok | reflexivity | exact Hs | reflexivity].
  - rewrite <- Ht.
    apply (snell_discrete_min_lemma ex_layers 0 [3; 7] 10 [[2; 4]; [6; 8]]);
      [exact Hok | reflexivity | exact Hs | reflexivity |].
    repeat constructor; discriminate.
Qed.
