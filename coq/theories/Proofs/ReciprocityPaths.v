(* Proofs/ReciprocityPaths.v — C03: the per-interface records of `qratio_general`
   (Proofs/ReciprocityProofs.v) are BUILT from the interface model and their Stokes relation
   `ifr_ratio_ok` is PROVED, for every block-in-immersion path (front-wall transmission into
   L or T followed by any number of wall reflections LL / LT / TL / TT against the couplant).

   Part 1 ((sin, cos) layer): a wall is the (sin, cos) of the three angles (fluid, L, T) of
           Model/Interface.v's `_sc` functions; `front_ifr`, `refl_ifr` are the records;
           `front_ratio_ok`, `refl_ratio_ok` discharge `ifr_ratio_ok`.
   Part 2 a path = first mode m0, front wall a0, list of (outgoing mode, wall): the mode word
           of arim's path names.  `qratio_immersion`: Q c_last^2 sigma = kappa Q' with the
           `Forall ifr_ratio_ok` hypothesis of `qratio_general` discharged; sigma = +1 / -1 as
           the last leg is L / T.  `qratio_skip`: the four one-reflection paths, explicit.
   Part 3 (angle layer, real sub-critical angles): the interfaces are the `iface` records
           read by Model.Weights.transrefl_for_path / reverse_transrefl_for_path; their
           factors ARE the F / G of the records (the Snell angles the reverse function
           recomputes are the forward ones), the gammas of Model.Beamspread are the records'
           gammas, the reverse gammas their inverses in reverse order.
           `qratio_model`: the identity for the model's own four functions (real dtype).
   Part 4 (default dtype, force_complex=True): the same interfaces with materials and angles
           embedded in the complex pairs; both products are the real ones with imaginary part 0
           (sub-critical: InterfaceFastFluid's *_auto_C_real), hence `qratio_model_complex` for
           Model.Weights.tx_weight / rx_weight, directivity and attenuation each on or off.
   Remaining hypotheses everywhere: positive material constants and leg lengths, and every wave
   at every wall sub-critical (real angle < pi/2).  Beyond a critical angle nothing is claimed. *)
Set Warnings "-notation-overridden".
From Coq Require Import List ZArith Bool Reals Lra Field.
From Arim Require Import Base.Num Base.NumR Model.Interface Model.Beamspread Model.Weights
                         Proofs.InterfaceProofs Proofs.InterfaceComplex Proofs.InterfaceFastFluid
                         Proofs.BeamspreadProofs Proofs.ReciprocityProofs.
Import ListNotations.
Local Open Scope R_scope.

(* (sin, cos) of the fluid, L and T angles at one wall *)
Record wall := mkWall { wsf : R; wcf : R; wsl : R; wcl : R; wst : R; wct : R }.

Definition mode_sign (m : wmode) : R := match m with ModeL => 1 | ModeT => -1 end.
Definition mode_conv (m1 m2 : wmode) : bool :=
  match m1, m2 with ModeL, ModeL => false | ModeT, ModeT => false | _, _ => true end.

Section Immersion.
  Variables rho_f rho_s v_f v_l v_t : R.
  Hypothesis Prf : 0 < rho_f. Hypothesis Prs : 0 < rho_s.
  Hypothesis Pvf : 0 < v_f. Hypothesis Pvl : 0 < v_l. Hypothesis Pvt : 0 < v_t.

  (* ------------------------------------------------------------------------------- *)
  (* Part 1: one interface                                                             *)
  Definition wFS (a : wall) := fluid_solid_sc NumR (wsf a) (wcf a) (wsl a) (wcl a) (wst a) (wct a) rho_f rho_s v_f v_l v_t.
  Definition wLF (a : wall) := solid_l_fluid_sc NumR (wsf a) (wcf a) (wsl a) (wcl a) (wst a) (wct a) rho_f rho_s v_f v_l v_t.
  Definition wTF (a : wall) := solid_t_fluid_sc NumR (wsf a) (wcf a) (wsl a) (wcl a) (wst a) (wct a) rho_f rho_s v_f v_l v_t.
  Definition wN (a : wall) := fluid_solid_n_sc NumR (wsf a) (wcf a) (wsl a) (wcl a) (wst a) (wct a) rho_f rho_s v_f v_l v_t.

  (* sub-critical (positive cosines), Snell between the L and T angles, N <> 0 *)
  Definition wall_ok (a : wall) : Prop :=
    0 < wcf a /\ 0 < wcl a /\ 0 < wct a /\ wsl a * v_t = wst a * v_l /\ wN a <> 0.

  (* N <> 0 follows from non-negative sines *)
  Lemma wall_ok_of_signs a :
    0 < wcf a -> 0 < wcl a -> 0 < wct a -> 0 <= wsl a -> 0 <= wst a -> wsl a * v_t = wst a * v_l -> wall_ok a.
  Proof.
    intros H1 H2 H3 H4 H5 H6. repeat split; try assumption.
    apply Rgt_not_eq, Rlt_gt. unfold wN. apply n_pos; assumption.
  Qed.

  Definition vel_of (m : wmode) : R := match m with ModeL => v_l | ModeT => v_t end.
  Definition cos_of (m : wmode) (a : wall) : R := match m with ModeL => wcl a | ModeT => wct a end.

  Lemma vel_of_pos m : 0 < vel_of m. Proof. destruct m; assumption. Qed.

  (* the factors of transmission_reflection_for_path (F) and of
     reverse_transmission_reflection_for_path (G), unit = displacement, on the _sc layer *)
  Definition front_F (m : wmode) (a : wall) : R :=
    match m with
    | ModeL => snd3 (wFS a) * ((rho_f * v_f) / (rho_s * v_l))
    | ModeT => thd3 (wFS a) * ((rho_f * v_f) / (rho_s * v_t))
    end.
  Definition front_G (m : wmode) (a : wall) : R :=
    match m with
    | ModeL => thd3 (wLF a) * ((rho_s * v_l) / (rho_f * v_f))
    | ModeT => thd3 (wTF a) * ((rho_s * v_t) / (rho_f * v_f))
    end.
  Definition refl_F (m1 m2 : wmode) (a : wall) : R :=
    match m1, m2 with
    | ModeL, ModeL => fst3 (wLF a) * (v_l / v_l)
    | ModeL, ModeT => snd3 (wLF a) * (v_l / v_t)
    | ModeT, ModeL => fst3 (wTF a) * (v_t / v_l)
    | ModeT, ModeT => snd3 (wTF a) * (v_t / v_t)
    end.
  (* the reverse of a reflection m1 -> m2 is the reflection m2 -> m1 at the same wall angles *)
  Definition refl_G (m1 m2 : wmode) (a : wall) : R := refl_F m2 m1 a.

  Definition front_ifr (m : wmode) (a : wall) : ifr :=
    mkIfr (front_F m a) (front_G m a) (wcf a) (cos_of m a) v_f (vel_of m) rho_f rho_s (mode_conv ModeL m).
  Definition refl_ifr (m1 m2 : wmode) (a : wall) : ifr :=
    mkIfr (refl_F m1 m2 a) (refl_G m1 m2 a) (cos_of m1 a) (cos_of m2 a) (vel_of m1) (vel_of m2) rho_s rho_s (mode_conv m1 m2).

  Lemma front_pos m a : wall_ok a -> ifr_pos (front_ifr m a).
  Proof. intros (H1 & H2 & H3 & _). unfold ifr_pos. destruct m; cbn; repeat split; assumption. Qed.

  Lemma refl_pos m1 m2 a : wall_ok a -> ifr_pos (refl_ifr m1 m2 a).
  Proof. intros (H1 & H2 & H3 & _). unfold ifr_pos. destruct m1, m2; cbn; repeat split; assumption. Qed.

  Lemma front_ratio_ok m a : wall_ok a -> ifr_ratio_ok (front_ifr m a).
  Proof.
    intros (H1 & H2 & H3 & Hsn & Hn). unfold ifr_ratio_ok, ifr_sign.
    destruct m; cbn [fF fG fcin fcout fvin fvout frin frout fsgn front_ifr front_F front_G cos_of vel_of mode_conv].
    - pose proof (ratio_front_L NumR NumR_field NumR_two (wsf a) (wcf a) (wsl a) (wcl a) (wst a) (wct a)
                    rho_f rho_s v_f v_l v_t (Rgt_not_eq _ _ H1) (Rgt_not_eq _ _ Prf) (Rgt_not_eq _ _ Prs)
                    (Rgt_not_eq _ _ Pvf) (Rgt_not_eq _ _ Pvl) Hn) as E.
      cbn [NumR nmul ndiv] in E. unfold wFS, wLF. rewrite E. ring.
    - pose proof (ratio_front_T NumR NumR_field NumR_two (wsf a) (wcf a) (wsl a) (wcl a) (wst a) (wct a)
                    rho_f rho_s v_f v_l v_t (Rgt_not_eq _ _ H1) (Rgt_not_eq _ _ Prf) (Rgt_not_eq _ _ Prs)
                    (Rgt_not_eq _ _ Pvf) (Rgt_not_eq _ _ Pvl) (Rgt_not_eq _ _ Pvt) Hsn Hn) as E.
      cbn [NumR nmul ndiv nopp n1] in E. unfold wFS, wTF. rewrite E. ring.
  Qed.

  Lemma refl_ratio_ok m1 m2 a : wall_ok a -> ifr_ratio_ok (refl_ifr m1 m2 a).
  Proof.
    intros (H1 & H2 & H3 & Hsn & Hn). unfold ifr_ratio_ok, ifr_sign.
    destruct m1, m2; cbn [fF fG fcin fcout fvin fvout frin frout fsgn refl_ifr refl_F refl_G cos_of vel_of mode_conv]; try ring.
    - pose proof (ratio_refl_LT NumR NumR_field NumR_two (wsf a) (wcf a) (wsl a) (wcl a) (wst a) (wct a)
                    rho_f rho_s v_f v_l v_t (Rgt_not_eq _ _ H2) (Rgt_not_eq _ _ Prs)
                    (Rgt_not_eq _ _ Pvl) (Rgt_not_eq _ _ Pvt) Hsn Hn) as E.
      cbn [NumR nmul ndiv nopp n1] in E. unfold wLF, wTF. rewrite E. ring.
    - pose proof (ratio_refl_TL NumR NumR_field NumR_two (wsf a) (wcf a) (wsl a) (wcl a) (wst a) (wct a)
                    rho_f rho_s v_f v_l v_t (Rgt_not_eq _ _ H2) (Rgt_not_eq _ _ Prs)
                    (Rgt_not_eq _ _ Pvl) (Rgt_not_eq _ _ Pvt) Hsn Hn) as E.
      cbn [NumR nmul ndiv nopp n1] in E. unfold wLF, wTF. rewrite E. ring.
  Qed.

  (* ------------------------------------------------------------------------------- *)
  (* Part 2: a whole path.  m0 = mode of the first leg in the block, a0 = front wall,
     l = [(m_1, a_1); ...] = outgoing mode and wall of every reflection, in path order;
     the incident mode of a reflection is the outgoing mode of the previous interface.  *)
  Fixpoint refl_ifrs (m : wmode) (l : list (wmode * wall)) : list ifr :=
    match l with
    | [] => []
    | (m2, a) :: l' => refl_ifr m m2 a :: refl_ifrs m2 l'
    end.
  Definition path_ifrs (m0 : wmode) (a0 : wall) (l : list (wmode * wall)) : list ifr :=
    front_ifr m0 a0 :: refl_ifrs m0 l.
  Definition last_mode {A} (m0 : wmode) (l : list (wmode * A)) : wmode := last (map fst l) m0.

  Lemma refl_ifrs_pos l : forall m, Forall wall_ok (map snd l) -> Forall ifr_pos (refl_ifrs m l).
  Proof.
    induction l as [|[m2 a] l IH]; intros m H; cbn; [constructor|].
    inversion H as [|? ? Ha Hl]; subst. constructor; [apply refl_pos; assumption | apply IH; assumption].
  Qed.

  Lemma refl_ifrs_ratio l : forall m, Forall wall_ok (map snd l) -> Forall ifr_ratio_ok (refl_ifrs m l).
  Proof.
    induction l as [|[m2 a] l IH]; intros m H; cbn; [constructor|].
    inversion H as [|? ? Ha Hl]; subst. constructor; [apply refl_ratio_ok; assumption | apply IH; assumption].
  Qed.

  Lemma refl_ifrs_chained l : forall m x, fvout x = vel_of m -> frout x = rho_s ->
    ifr_chained (x :: refl_ifrs m l).
  Proof.
    induction l as [|[m2 a] l IH]; intros m x Hv Hr; [exact I|].
    cbn [refl_ifrs]. cbn [ifr_chained]. repeat split.
    - rewrite Hv. reflexivity.
    - rewrite Hr. reflexivity.
    - apply IH; reflexivity.
  Qed.

  Lemma refl_ifrs_last l : forall m x, fvout x = vel_of m -> frout x = rho_s ->
    fvout (last (refl_ifrs m l) x) = vel_of (last (map fst l) m) /\ frout (last (refl_ifrs m l) x) = rho_s.
  Proof.
    induction l as [|[m2 a] l IH]; intros m x Hv Hr; [split; assumption|].
    cbn [refl_ifrs map fst]. rewrite ifr_last_cons.
    replace (last (m2 :: map fst l) m) with (last (map fst l) m2).
    - apply IH; reflexivity.
    - destruct (map fst l) as [|m3 ms]; [reflexivity|]. cbn [last].
      clear. revert m3. induction ms as [|m4 ms IHm]; intros m3; [reflexivity|]. exact (IHm m4).
  Qed.

  (* sigma: the product of the signs only depends on the mode of the last leg *)
  Lemma mode_conv_sign m1 m2 : (if mode_conv m1 m2 then -1 else 1) * mode_sign m1 = mode_sign m2.
  Proof. destruct m1, m2; cbn; ring. Qed.

  Lemma last_mode_cons {A} m m2 (a : A) l : last_mode m ((m2, a) :: l) = last_mode m2 l.
  Proof.
    unfold last_mode. cbn [map fst]. destruct (map fst l) as [|m3 ms]; [reflexivity|]. cbn [last].
    clear. revert m3. induction ms as [|m4 ms IHm]; intros m3; [reflexivity|]. exact (IHm m4).
  Qed.

  Lemma refl_ifrs_sign l : forall m, rprod ifr_sign (refl_ifrs m l) * mode_sign m = mode_sign (last_mode m l).
  Proof.
    induction l as [|[m2 a] l IH]; intros m.
    - unfold rprod, last_mode. cbn. ring.
    - rewrite last_mode_cons. cbn [refl_ifrs]. unfold rprod. cbn [fold_right]. fold (rprod ifr_sign (refl_ifrs m2 l)).
      rewrite <- IH. unfold ifr_sign at 1. cbn [fsgn refl_ifr]. rewrite <- (mode_conv_sign m m2). ring.
  Qed.

  Lemma path_sign m0 a0 l : rprod ifr_sign (path_ifrs m0 a0 l) = mode_sign (last_mode m0 l).
  Proof.
    unfold path_ifrs, rprod. cbn [fold_right]. fold (rprod ifr_sign (refl_ifrs m0 l)).
    rewrite <- refl_ifrs_sign. unfold ifr_sign at 1. cbn [fsgn front_ifr]. destruct m0; cbn; ring.
  Qed.

  Definition kappa (f : R) : R := rho_f * v_f * sqrt (v_f * f) / rho_s.

  (* THE THEOREM on the (sin, cos) layer: every immersion path, any number of reflections *)
  Theorem qratio_immersion m0 a0 l r1 rs D A f :
    Forall wall_ok (a0 :: map snd l) -> length rs = S (length l) -> 0 < r1 -> all_pos rs -> 0 < f ->
    let L := path_ifrs m0 a0 l in
    let gs := map ifr_gamma L in
    let c := vel_of (last_mode m0 l) in
    let vd := virtual_distance NumR (r1 :: rs) gs in
    let vd' := virtual_distance NumR (rev (r1 :: rs)) (map Rinv (rev gs)) in
    let Q := D * rprod fF L * (1 / sqrt vd) * A in
    let Q' := D * rprod fG L * (1 / sqrt vd') * A * sqrt (c / f) in
    Q * (c * c) * mode_sign (last_mode m0 l) = kappa f * Q'.
  Proof.
    intros Hw Hlen Hr1 Hrs Hf. inversion Hw as [|? ? Ha0 Hl]; subst.
    assert (Hpos : Forall ifr_pos (front_ifr m0 a0 :: refl_ifrs m0 l))
      by (constructor; [apply front_pos; assumption | apply refl_ifrs_pos; assumption]).
    assert (Hrat : Forall ifr_ratio_ok (front_ifr m0 a0 :: refl_ifrs m0 l))
      by (constructor; [apply front_ratio_ok; assumption | apply refl_ifrs_ratio; assumption]).
    assert (Hch : ifr_chained (front_ifr m0 a0 :: refl_ifrs m0 l))
      by (apply refl_ifrs_chained; reflexivity).
    assert (Hlen' : length rs = length (front_ifr m0 a0 :: refl_ifrs m0 l)).
    { rewrite Hlen. cbn [length]. f_equal. clear. revert m0. induction l as [|[m2 a] l IH]; intros m0; [reflexivity|].
      cbn [refl_ifrs length]. f_equal. apply IH. }
    pose proof (qratio_general (front_ifr m0 a0) (refl_ifrs m0 l) r1 rs D A f Hpos Hch Hrat Hlen' Hr1 Hrs Hf) as E.
    cbv zeta in E.
    destruct (refl_ifrs_last l m0 (front_ifr m0 a0) eq_refl eq_refl) as [Ev Er].
    rewrite Ev, Er in E. fold (path_ifrs m0 a0 l) in E. rewrite path_sign in E.
    cbv zeta. unfold kappa, last_mode. exact E.
  Qed.

  (* the four skip paths (one reflection), explicit *)
  Lemma vd3 r1 r2 r3 g1 g2 : g1 <> 0 -> g2 <> 0 ->
    virtual_distance NumR [r1; r2; r3] [g1; g2] = r1 + r2 / g1 + r3 / (g1 * g2).
  Proof. intros H1 H2. unfold virtual_distance, gamma_prefix. cbn. field. split; assumption. Qed.

  Theorem qratio_skip m0 m1 a0 a1 r1 r2 r3 D A f :
    wall_ok a0 -> wall_ok a1 -> 0 < r1 -> 0 < r2 -> 0 < r3 -> 0 < f ->
    let g1 := v_f * (cos_of m0 a0 * cos_of m0 a0) / (vel_of m0 * (wcf a0 * wcf a0)) in
    let g2 := vel_of m0 * (cos_of m1 a1 * cos_of m1 a1) / (vel_of m1 * (cos_of m0 a1 * cos_of m0 a1)) in
    let Q := D * (front_F m0 a0 * refl_F m0 m1 a1) * (1 / sqrt (r1 + r2 / g1 + r3 / (g1 * g2))) * A in
    let Q' := D * (front_G m0 a0 * refl_F m1 m0 a1) * (1 / sqrt (r3 + r2 / (/ g2) + r1 / (/ g2 * / g1))) * A
              * sqrt (vel_of m1 / f) in
    Q * (vel_of m1 * vel_of m1) * mode_sign m1 = kappa f * Q'.
  Proof.
    intros Ha0 Ha1 Hr1 Hr2 Hr3 Hf g1 g2 Q Q'.
    assert (Hw : Forall wall_ok (a0 :: map snd [(m1, a1)])) by (constructor; [assumption | constructor; [assumption | constructor]]).
    assert (Hrs : all_pos [r2; r3]) by (constructor; [assumption | constructor; [assumption | constructor]]).
    pose proof (qratio_immersion m0 a0 [(m1, a1)] r1 [r2; r3] D A f Hw eq_refl Hr1 Hrs Hf) as E.
    cbv zeta in E. unfold last_mode, path_ifrs, rprod in E. cbn [map fst last refl_ifrs rev app] in E.
    cbn [fold_right fF fG front_ifr refl_ifr] in E.
    unfold ifr_gamma in E. cbn [fcin fcout fvin fvout front_ifr refl_ifr] in E.
    fold g1 g2 in E.
    destruct Ha0 as (A1 & A2 & A3 & _). destruct Ha1 as (B1 & B2 & B3 & _).
    assert (Hg1 : 0 < g1).
    { unfold g1. pose proof (vel_of_pos m0). apply Rdiv_lt_0_compat; repeat apply Rmult_lt_0_compat; try assumption;
        destruct m0; cbn; assumption. }
    assert (Hg2 : 0 < g2).
    { unfold g2. pose proof (vel_of_pos m0). pose proof (vel_of_pos m1).
      apply Rdiv_lt_0_compat; repeat apply Rmult_lt_0_compat; try assumption; destruct m0, m1; cbn; assumption. }
    rewrite vd3 in E by lra.
    rewrite vd3 in E by (apply Rinv_neq_0_compat; lra).
    unfold Q, Q', refl_G in *. rewrite !Rmult_1_r in E. exact E.
  Qed.

  (* ------------------------------------------------------------------------------- *)
  (* Part 3: the angle layer — what Model.Weights / Model.Beamspread compute from the
     conventional incidence angles of one ray (real dtype, every angle sub-critical).     *)
  Variable vtf : R.        (* transverse_vel of the couplant (None in arim): never read *)
  Definition fluid : material R := mkMaterial rho_f v_f vtf.
  Definition solid : material R := mkMaterial rho_s v_l v_t.
  (* interior interface 1: transmission couplant -> block into mode m;
     later interfaces: reflection in the block against the couplant, m1 -> m2 *)
  Definition front_iface (m : wmode) (th : R) : iface (K := R) :=
    mkIface FluidSolid true fluid solid fluid ModeL m th.
  Definition refl_iface (m1 m2 : wmode) (th : R) : iface (K := R) :=
    mkIface SolidFluid false solid solid fluid m1 m2 th.

  Local Notation snell := (snell_angles NumR).

  Lemma snell_id th v : - (PI / 2) <= th <= PI / 2 -> v <> 0 -> snell th v v = th.
  Proof.
    intros H Hv. unfold snell_angles, snell_sin. cbn [NumR nasin nsin nmul ndiv].
    replace (v / v * sin th) with (sin th) by (field; assumption). apply asin_sin. exact H.
  Qed.

  Lemma snell_comp th a b c : a <> 0 -> b <> 0 -> -1 <= b / a * sin th <= 1 ->
    snell (snell th a b) b c = snell th a c.
  Proof.
    intros Ha Hb Hs. unfold snell_angles, snell_sin. cbn [NumR nasin nsin nmul ndiv].
    rewrite sin_asin by exact Hs. f_equal. field. split; assumption.
  Qed.

  Lemma snell_range th a b : - (PI / 2) <= snell th a b <= PI / 2.
  Proof. unfold snell_angles. cbn [NumR nasin]. apply asin_bound. Qed.

  (* the wall seen from an incidence angle th of a wave of velocity v_in: the three angles
     by snell_angles; and the walls the three interface functions build when the angle of
     their own incident wave is passed as it is *)
  Definition wall_gen (v_in th : R) : wall :=
    mkWall (sin (snell th v_in v_f)) (cos (snell th v_in v_f))
           (sin (snell th v_in v_l)) (cos (snell th v_in v_l))
           (sin (snell th v_in v_t)) (cos (snell th v_in v_t)).
  Definition wall_inc_f (th : R) : wall :=
    mkWall (sin th) (cos th) (sin (snell th v_f v_l)) (cos (snell th v_f v_l))
           (sin (snell th v_f v_t)) (cos (snell th v_f v_t)).
  Definition wall_inc (m : wmode) (th : R) : wall :=
    match m with
    | ModeL => mkWall (sin (snell th v_l v_f)) (cos (snell th v_l v_f)) (sin th) (cos th)
                      (sin (snell th v_l v_t)) (cos (snell th v_l v_t))
    | ModeT => mkWall (sin (snell th v_t v_f)) (cos (snell th v_t v_f))
                      (sin (snell th v_t v_l)) (cos (snell th v_t v_l)) (sin th) (cos th)
    end.

  Lemma wall_inc_f_gen th : - (PI / 2) <= th <= PI / 2 -> wall_inc_f th = wall_gen v_f th.
  Proof. intros H. unfold wall_inc_f, wall_gen. rewrite (snell_id th v_f) by (try assumption; lra). reflexivity. Qed.

  Lemma wall_inc_gen m th : - (PI / 2) <= th <= PI / 2 -> wall_inc m th = wall_gen (vel_of m) th.
  Proof.
    intros H. unfold wall_inc, wall_gen. destruct m; cbn [vel_of].
    - rewrite (snell_id th v_l) by (try assumption; lra). reflexivity.
    - rewrite (snell_id th v_t) by (try assumption; lra). reflexivity.
  Qed.

  (* Snell: the wall seen from the refracted / reflected wave is the same wall *)
  Lemma wall_gen_snell a b th : 0 < a -> 0 < b -> -1 <= b / a * sin th <= 1 ->
    wall_gen b (snell th a b) = wall_gen a th.
  Proof. intros Ha Hb Hs. unfold wall_gen. rewrite !snell_comp by (try assumption; lra). reflexivity. Qed.

  (* every wave at the wall is sub-critical (real angle < pi/2) *)
  Definition subcritical (v_in th : R) : Prop :=
    0 <= th < PI / 2 /\ v_f / v_in * sin th < 1 /\ v_l / v_in * sin th < 1 /\ v_t / v_in * sin th < 1.

  Lemma sub_bound a b th : 0 < a -> 0 < b -> 0 <= th < PI / 2 -> b / a * sin th < 1 -> -1 <= b / a * sin th <= 1.
  Proof.
    intros Ha Hb Hth Hs. destruct (inc_real_facts th Hth) as (S0 & _ & _).
    assert (0 < b / a) by (apply Rdiv_lt_0_compat; assumption).
    assert (0 <= b / a * sin th) by (apply Rmult_le_pos; lra). lra.
  Qed.

  Lemma sub_range th : 0 <= th < PI / 2 -> - (PI / 2) <= th <= PI / 2.
  Proof. intros H. pose proof PI_RGT_0. lra. Qed.

  Lemma wall_gen_ok v_in th : 0 < v_in -> subcritical v_in th -> wall_ok (wall_gen v_in th).
  Proof.
    intros Hv (Hth & HF & HL & HT).
    destruct (snell_real_facts th v_in v_f Hth Hv Pvf HF) as (SF & SF0 & CF & PF).
    destruct (snell_real_facts th v_in v_l Hth Hv Pvl HL) as (SL & SL0 & CL & PL).
    destruct (snell_real_facts th v_in v_t Hth Hv Pvt HT) as (ST & ST0 & CT & PT).
    apply wall_ok_of_signs; unfold wall_gen; cbn [wsf wcf wsl wcl wst wct]; try assumption.
    apply Rmult_eq_reg_r with v_in; [|lra].
    replace (sin (snell th v_in v_l) * v_t * v_in) with (v_t * (sin (snell th v_in v_l) * v_in)) by ring.
    replace (sin (snell th v_in v_t) * v_l * v_in) with (v_l * (sin (snell th v_in v_t) * v_in)) by ring.
    rewrite SL, ST. ring.
  Qed.

  (* ---- the factors of the two products ARE the F and G of the records ---------------- *)
  Lemma tr_forward_front m th :
    tr_forward NumR Displacement (front_iface m th) = Some (front_F m (wall_inc_f th)).
  Proof.
    unfold tr_forward, front_iface. cbn [i_trans i_kind i_mprev i_mnext i_modeprev i_modenext i_theta].
    unfold transmission_at_interface, impedance_ratio, fluid_solid_auto. rewrite ang_sc_fluid_solid.
    destruct m; reflexivity.
  Qed.

  Lemma tr_forward_refl m1 m2 th :
    tr_forward NumR Displacement (refl_iface m1 m2 th) = Some (refl_F m1 m2 (wall_inc m1 th)).
  Proof.
    unfold tr_forward, refl_iface. cbn [i_trans i_kind i_mprev i_mnext i_against i_modeprev i_modenext i_theta].
    unfold reflection_at_interface, solid_l_fluid_auto, solid_t_fluid_auto. rewrite ang_sc_solid_l, ang_sc_solid_t.
    destruct m1, m2; reflexivity.
  Qed.

  Lemma tr_reverse_front_raw m th :
    tr_reverse NumR Displacement (front_iface m th) = Some (front_G m (wall_inc m (snell th v_f (vel_of m)))).
  Proof.
    unfold tr_reverse, front_iface. cbn [i_trans i_kind i_mprev i_mnext i_modeprev i_modenext i_theta ikind_reverse].
    unfold transmission_at_interface, impedance_ratio, solid_l_fluid_auto, solid_t_fluid_auto.
    rewrite ang_sc_solid_l, ang_sc_solid_t. destruct m; reflexivity.
  Qed.

  Lemma tr_reverse_refl_raw m1 m2 th :
    tr_reverse NumR Displacement (refl_iface m1 m2 th)
    = Some (refl_G m1 m2 (wall_inc m2 (snell th (vel_of m1) (vel_of m2)))).
  Proof.
    unfold tr_reverse, refl_iface. cbn [i_trans i_kind i_mprev i_mnext i_against i_modeprev i_modenext i_theta].
    unfold reflection_at_interface, solid_l_fluid_auto, solid_t_fluid_auto. rewrite ang_sc_solid_l, ang_sc_solid_t.
    destruct m1, m2; reflexivity.
  Qed.

  (* the angle the reverse function computes for itself leads to the SAME wall *)
  Lemma reverse_wall_front m th : subcritical v_f th ->
    wall_inc m (snell th v_f (vel_of m)) = wall_inc_f th.
  Proof.
    intros (Hth & HF & HL & HT).
    rewrite wall_inc_gen by apply snell_range. rewrite wall_inc_f_gen by (apply sub_range; assumption).
    apply wall_gen_snell; [assumption | apply vel_of_pos |].
    destruct m; cbn [vel_of]; apply sub_bound; assumption.
  Qed.

  Lemma reverse_wall_refl m1 m2 th : subcritical (vel_of m1) th ->
    wall_inc m2 (snell th (vel_of m1) (vel_of m2)) = wall_inc m1 th.
  Proof.
    intros (Hth & HF & HL & HT).
    rewrite wall_inc_gen by apply snell_range. rewrite (wall_inc_gen m1) by (apply sub_range; assumption).
    apply wall_gen_snell; [apply vel_of_pos | apply vel_of_pos |].
    pose proof (vel_of_pos m1). destruct m2; cbn [vel_of]; apply sub_bound; assumption.
  Qed.

  Lemma tr_reverse_front m th : subcritical v_f th ->
    tr_reverse NumR Displacement (front_iface m th) = Some (front_G m (wall_inc_f th)).
  Proof. intros H. rewrite tr_reverse_front_raw, reverse_wall_front by assumption. reflexivity. Qed.

  Lemma tr_reverse_refl m1 m2 th : subcritical (vel_of m1) th ->
    tr_reverse NumR Displacement (refl_iface m1 m2 th) = Some (refl_G m1 m2 (wall_inc m1 th)).
  Proof. intros H. rewrite tr_reverse_refl_raw, reverse_wall_refl by assumption. reflexivity. Qed.

  Lemma wall_inc_f_ok th : subcritical v_f th -> wall_ok (wall_inc_f th).
  Proof.
    intros H. rewrite wall_inc_f_gen by (apply sub_range; apply H). apply wall_gen_ok; assumption.
  Qed.

  Lemma wall_inc_ok m th : subcritical (vel_of m) th -> wall_ok (wall_inc m th).
  Proof.
    intros H. rewrite wall_inc_gen by (apply sub_range; apply H). apply wall_gen_ok; [apply vel_of_pos | assumption].
  Qed.

  (* ---- a path on the angle layer: m0, th0 and [(m_k, th_k)] -------------------------- *)
  Fixpoint refl_ifaces (m : wmode) (l : list (wmode * R)) : list (iface (K := R)) :=
    match l with
    | [] => []
    | (m2, th) :: l' => refl_iface m m2 th :: refl_ifaces m2 l'
    end.
  Definition path_ifaces (m0 : wmode) (th0 : R) (l : list (wmode * R)) : list (iface (K := R)) :=
    front_iface m0 th0 :: refl_ifaces m0 l.
  Fixpoint refl_walls (m : wmode) (l : list (wmode * R)) : list (wmode * wall) :=
    match l with
    | [] => []
    | (m2, th) :: l' => (m2, wall_inc m th) :: refl_walls m2 l'
    end.
  Fixpoint refl_sub (m : wmode) (l : list (wmode * R)) : Prop :=
    match l with
    | [] => True
    | (m2, th) :: l' => subcritical (vel_of m) th /\ refl_sub m2 l'
    end.

  Lemma refl_walls_ok l : forall m, refl_sub m l -> Forall wall_ok (map snd (refl_walls m l)).
  Proof.
    induction l as [|[m2 th] l IH]; intros m H; cbn; [constructor|]. destruct H as [H1 H2].
    constructor; [apply wall_inc_ok; assumption | apply IH; assumption].
  Qed.

  Lemma refl_walls_modes l : forall m, map fst (refl_walls m l) = map fst l.
  Proof. induction l as [|[m2 th] l IH]; intros m; cbn; [reflexivity|]. rewrite IH. reflexivity. Qed.

  Lemma refl_walls_length l : forall m, length (refl_walls m l) = length l.
  Proof. induction l as [|[m2 th] l IH]; intros m; cbn; [reflexivity|]. rewrite IH. reflexivity. Qed.

  (* the loop of transmission_reflection_for_path *)
  Definition pstep (f : iface (K := R) -> option R) (acc : option (option R)) (x : iface (K := R)) : option (option R) :=
    match acc, f x with
    | Some None, Some t => Some (Some t)
    | Some (Some a), Some t => Some (Some (a * t))
    | _, _ => None
    end.
  Lemma product_of_pstep f l : product_of NumR f l = fold_left (pstep f) l (Some None).
  Proof. reflexivity. Qed.

  Lemma product_refl_forward l : forall m acc,
    fold_left (pstep (tr_forward NumR Displacement)) (refl_ifaces m l) (Some (Some acc))
    = Some (Some (acc * rprod fF (refl_ifrs m (refl_walls m l)))).
  Proof.
    induction l as [|[m2 th] l IH]; intros m acc.
    - unfold rprod. cbn. rewrite Rmult_1_r. reflexivity.
    - cbn [refl_ifaces refl_walls refl_ifrs fold_left]. unfold pstep at 2. rewrite tr_forward_refl.
      rewrite IH. unfold rprod. cbn [fold_right fF refl_ifr]. do 2 f_equal. ring.
  Qed.

  Lemma product_refl_reverse l : forall m acc, refl_sub m l ->
    fold_left (pstep (tr_reverse NumR Displacement)) (refl_ifaces m l) (Some (Some acc))
    = Some (Some (acc * rprod fG (refl_ifrs m (refl_walls m l)))).
  Proof.
    induction l as [|[m2 th] l IH]; intros m acc H.
    - unfold rprod. cbn. rewrite Rmult_1_r. reflexivity.
    - destruct H as [H1 H2].
      cbn [refl_ifaces refl_walls refl_ifrs fold_left]. unfold pstep at 2. rewrite tr_reverse_refl by assumption.
      rewrite IH by assumption. unfold rprod. cbn [fold_right fG refl_ifr]. do 2 f_equal. ring.
  Qed.

  Definition model_ifrs (m0 : wmode) (th0 : R) (l : list (wmode * R)) : list ifr :=
    path_ifrs m0 (wall_inc_f th0) (refl_walls m0 l).

  Theorem transrefl_is_product m0 th0 l :
    transrefl_for_path NumR Displacement (path_ifaces m0 th0 l) = Some (Some (rprod fF (model_ifrs m0 th0 l))).
  Proof.
    unfold transrefl_for_path. rewrite product_of_pstep. unfold path_ifaces. cbn [fold_left].
    unfold pstep at 2. rewrite tr_forward_front. rewrite product_refl_forward. reflexivity.
  Qed.

  Theorem reverse_transrefl_is_product m0 th0 l : subcritical v_f th0 -> refl_sub m0 l ->
    reverse_transrefl_for_path NumR Displacement (path_ifaces m0 th0 l) = Some (Some (rprod fG (model_ifrs m0 th0 l))).
  Proof.
    intros H0 Hl. unfold reverse_transrefl_for_path. rewrite product_of_pstep. unfold path_ifaces. cbn [fold_left].
    unfold pstep at 2. rewrite tr_reverse_front by assumption. rewrite product_refl_reverse by assumption. reflexivity.
  Qed.

  (* ---- beamspread: the gammas of Model.Beamspread are the gammas of the records ------- *)
  Lemma cos_snell_sq a b th : 0 <= th < PI / 2 -> 0 < a -> 0 < b -> b / a * sin th < 1 ->
    cos (snell th a b) * cos (snell th a b) = 1 - (b / a * sin th) * (b / a * sin th).
  Proof.
    intros Hth Ha Hb Hs. pose proof (sub_bound a b th Ha Hb Hth Hs) as Hbd.
    unfold snell_angles, snell_sin. cbn [NumR nasin nsin nmul ndiv].
    pose proof (sin2_cos2 (asin (b / a * sin th))) as P. unfold Rsqr in P. rewrite sin_asin in P by exact Hbd. lra.
  Qed.

  Lemma cos_self_sq v th : v <> 0 -> cos th * cos th = 1 - (v / v * sin th) * (v / v * sin th).
  Proof.
    intros Hv. pose proof (sin2_cos2 th) as P. unfold Rsqr in P.
    replace (v / v * sin th) with (sin th) by (field; assumption). lra.
  Qed.

  Lemma gamma_front m th : subcritical v_f th ->
    gamma_of NumR v_f (vel_of m) th = ifr_gamma (front_ifr m (wall_inc_f th)).
  Proof.
    intros (Hth & HF & HL & HT). destruct (inc_real_facts th Hth) as (_ & C0 & _).
    rewrite (gamma_is_beta_R v_f (vel_of m) th (cos_of m (wall_inc_f th))); [reflexivity | assumption | apply vel_of_pos | lra |].
    destruct m; cbn [cos_of wall_inc_f wcl wct vel_of]; apply cos_snell_sq; assumption.
  Qed.

  Lemma gamma_refl m1 m2 th : subcritical (vel_of m1) th ->
    gamma_of NumR (vel_of m1) (vel_of m2) th = ifr_gamma (refl_ifr m1 m2 (wall_inc m1 th)).
  Proof.
    intros (Hth & HF & HL & HT). destruct (inc_real_facts th Hth) as (_ & C0 & _).
    rewrite (gamma_is_beta_R (vel_of m1) (vel_of m2) th (cos_of m2 (wall_inc m1 th)));
      [ | apply vel_of_pos | apply vel_of_pos | lra |].
    - unfold ifr_gamma, beta_of. cbn [fcin fcout fvin fvout refl_ifr NumR nmul ndiv].
      destruct m1; reflexivity.
    - destruct m1, m2; cbn [cos_of wall_inc wcl wct vel_of] in *;
        first [ apply cos_self_sq; lra | apply cos_snell_sq; assumption ].
  Qed.

  (* velocities of the legs and incidence angles, as Model.Beamspread reads them *)
  Definition path_vels (m0 : wmode) (l : list (wmode * R)) : list R :=
    v_f :: vel_of m0 :: map (fun p => vel_of (fst p)) l.
  Definition path_thetas (th0 : R) (l : list (wmode * R)) : list R := th0 :: map snd l.

  Lemma gamma_list_refl l : forall m, refl_sub m l ->
    gamma_list NumR (vel_of m :: map (fun p => vel_of (fst p)) l) (map snd l)
    = map ifr_gamma (refl_ifrs m (refl_walls m l)).
  Proof.
    induction l as [|[m2 th] l IH]; intros m H; [reflexivity|]. destruct H as [H1 H2].
    cbn [map fst snd gamma_list refl_walls refl_ifrs]. rewrite gamma_refl by assumption.
    f_equal. apply IH. assumption.
  Qed.

  Theorem gamma_list_is_records m0 th0 l : subcritical v_f th0 -> refl_sub m0 l ->
    gamma_list NumR (path_vels m0 l) (path_thetas th0 l) = map ifr_gamma (model_ifrs m0 th0 l).
  Proof.
    intros H0 Hl. unfold path_vels, path_thetas, model_ifrs, path_ifrs. cbn [gamma_list map].
    rewrite gamma_front by assumption. f_equal. apply gamma_list_refl. assumption.
  Qed.

  (* reverse_beamspread: rev_gamma_list on the reversed lists = inverses in reverse order *)
  Fixpoint glist (v0 : R) (xs : list (R * R)) : list R :=
    match xs with
    | [] => []
    | (v1, th) :: xs' => gamma_of NumR v0 v1 th :: glist v1 xs'
    end.
  Fixpoint gcond (v0 : R) (xs : list (R * R)) : Prop :=
    match xs with
    | [] => True
    | (v1, th) :: xs' =>
        (0 < v0 /\ 0 < v1 /\ cos th <> 0 /\ 1 - v1 / v0 * (v1 / v0) * sin th * sin th <> 0) /\ gcond v1 xs'
    end.

  Lemma gamma_list_glist xs : forall v0, gamma_list NumR (v0 :: map fst xs) (map snd xs) = glist v0 xs.
  Proof. induction xs as [|[v1 th] xs IH]; intros v0; [reflexivity|]. cbn [map fst snd glist]. rewrite <- IH. reflexivity. Qed.

  Lemma rgl_snoc (A0 B0 : list R) : forall v1 v0 th, length A0 = length B0 ->
    rev_gamma_list NumR (A0 ++ [v1; v0]) (B0 ++ [th])
    = rev_gamma_list NumR (A0 ++ [v1]) B0 ++ [rev_gamma_of NumR v1 v0 th].
  Proof.
    revert B0. induction A0 as [|a A0 IH]; intros [|b B0] v1 v0 th Hl; try discriminate; [reflexivity|].
    injection Hl as Hl. specialize (IH B0 v1 v0 th Hl).
    destruct A0 as [|a' A0].
    - destruct B0; [|discriminate]. reflexivity.
    - cbn [app rev_gamma_list] in *. rewrite IH. reflexivity.
  Qed.

  Lemma rev_gamma_list_inv xs : forall v0, gcond v0 xs ->
    rev_gamma_list NumR (rev (v0 :: map fst xs)) (rev (map snd xs)) = map Rinv (rev (glist v0 xs)).
  Proof.
    induction xs as [|[v1 th] xs IH]; intros v0 H; [reflexivity|].
    destruct H as [(H1 & H2 & H3 & H4) H']. specialize (IH v1 H').
    cbn [map fst snd glist rev]. cbn [map fst snd rev] in IH.
    rewrite <- app_assoc. cbn [app].
    rewrite rgl_snoc by (rewrite !rev_length, !map_length; reflexivity).
    rewrite IH. rewrite map_app. cbn [map]. rewrite rev_gamma_inv by assumption. reflexivity.
  Qed.

  Definition path_pairs (m0 : wmode) (th0 : R) (l : list (wmode * R)) : list (R * R) :=
    (vel_of m0, th0) :: map (fun p => (vel_of (fst p), snd p)) l.

  Lemma path_pairs_fst m0 th0 l : v_f :: map fst (path_pairs m0 th0 l) = path_vels m0 l.
  Proof. unfold path_pairs, path_vels. cbn [map fst]. rewrite map_map. reflexivity. Qed.
  Lemma path_pairs_snd m0 th0 l : map snd (path_pairs m0 th0 l) = path_thetas th0 l.
  Proof. unfold path_pairs, path_thetas. cbn [map snd]. rewrite map_map. reflexivity. Qed.

  Lemma gcond_one a b th : 0 < a -> 0 < b -> 0 <= th < PI / 2 -> b / a * sin th < 1 ->
    0 < a /\ 0 < b /\ cos th <> 0 /\ 1 - b / a * (b / a) * sin th * sin th <> 0.
  Proof.
    intros Ha Hb Hth Hs. destruct (inc_real_facts th Hth) as (_ & C0 & _).
    destruct (snell_real_facts th a b Hth Ha Hb Hs) as (_ & _ & CB & _).
    pose proof (cos_snell_sq a b th Hth Ha Hb Hs) as E.
    repeat split; try assumption; try lra.
    replace (1 - b / a * (b / a) * sin th * sin th) with (1 - b / a * sin th * (b / a * sin th)) by ring.
    rewrite <- E. apply Rgt_not_eq. apply Rmult_lt_0_compat; assumption.
  Qed.

  Lemma gcond_refl l : forall m, refl_sub m l -> gcond (vel_of m) (map (fun p => (vel_of (fst p), snd p)) l).
  Proof.
    induction l as [|[m2 th] l IH]; intros m H; [exact I|]. destruct H as [(Hth & HF & HL & HT) H2].
    cbn [map fst snd gcond]. split; [|apply IH; assumption].
    apply gcond_one; [apply vel_of_pos | apply vel_of_pos | assumption | destruct m2; assumption].
  Qed.

  Theorem rev_gamma_list_is_records m0 th0 l : subcritical v_f th0 -> refl_sub m0 l ->
    rev_gamma_list NumR (rev (path_vels m0 l)) (rev (path_thetas th0 l))
    = map Rinv (rev (map ifr_gamma (model_ifrs m0 th0 l))).
  Proof.
    intros H0 Hl. rewrite <- (gamma_list_is_records m0 th0 l H0 Hl).
    rewrite <- (path_pairs_fst m0 th0 l), <- (path_pairs_snd m0 th0 l).
    rewrite gamma_list_glist. apply rev_gamma_list_inv.
    unfold path_pairs. cbn [gcond]. split; [|apply gcond_refl; assumption].
    destruct H0 as (Hth & HF & HL & HT).
    apply gcond_one; [assumption | apply vel_of_pos | assumption | destruct m0; assumption].
  Qed.

  (* THE THEOREM on the model's own functions: for every immersion path (mode word m0 m1 ...
     of any length), real sub-critical incidence angles, any leg lengths, D, A, f:
     both products are defined (no factor raises), and
       Q c_last^2 sigma = kappa Q'
     with Q = D * transrefl * beamspread * A,  Q' = D * reverse_transrefl * reverse_beamspread * A * sqrt(c_last / f). *)
  Theorem qratio_model m0 th0 l r1 rs D A f :
    subcritical v_f th0 -> refl_sub m0 l -> length rs = S (length l) -> 0 < r1 -> all_pos rs -> 0 < f ->
    let ifs := path_ifaces m0 th0 l in
    let vel := path_vels m0 l in
    let ths := path_thetas th0 l in
    let c := vel_of (last_mode m0 l) in
    exists TR TR' : R,
      transrefl_for_path NumR Displacement ifs = Some (Some TR) /\
      reverse_transrefl_for_path NumR Displacement ifs = Some (Some TR') /\
      (D * TR * beamspread NumR vel (r1 :: rs) ths * A) * (c * c) * mode_sign (last_mode m0 l)
      = kappa f * (D * TR' * reverse_beamspread NumR vel (r1 :: rs) ths * A * sqrt (c / f)).
  Proof.
    intros H0 Hl Hlen Hr1 Hrs Hf ifs vel ths c.
    exists (rprod fF (model_ifrs m0 th0 l)), (rprod fG (model_ifrs m0 th0 l)).
    split; [apply transrefl_is_product|]. split; [apply reverse_transrefl_is_product; assumption|].
    unfold beamspread, reverse_beamspread, vel, ths.
    rewrite gamma_list_is_records, rev_gamma_list_is_records by assumption.
    cbn [NumR n1 ndiv nsqrt].
    assert (Hw : Forall wall_ok (wall_inc_f th0 :: map snd (refl_walls m0 l)))
      by (constructor; [apply wall_inc_f_ok; assumption | apply refl_walls_ok; assumption]).
    assert (Hlen' : length rs = S (length (refl_walls m0 l))) by (rewrite refl_walls_length; assumption).
    pose proof (qratio_immersion m0 (wall_inc_f th0) (refl_walls m0 l) r1 rs D A f Hw Hlen' Hr1 Hrs Hf) as E.
    cbv zeta in E. unfold last_mode in E. rewrite refl_walls_modes in E.
    unfold c, last_mode, model_ifrs. exact E.
  Qed.

  (* ------------------------------------------------------------------------------- *)
  (* Part 4: the default dtype (force_complex=True): complex numbers as pairs, real
     materials and real sub-critical angles embedded with imaginary part 0.             *)
  Local Notation C := (NumC NumR).
  Definition material_C (m : material R) : material (R * R) :=
    mkMaterial (cre NumR (m_rho m)) (cre NumR (m_vl m)) (cre NumR (m_vt m)).
  Definition iface_C (x : iface (K := R)) : iface (K := R * R) :=
    mkIface (i_kind x) (i_trans x) (material_C (i_mprev x)) (material_C (i_mnext x)) (material_C (i_against x))
            (i_modeprev x) (i_modenext x) (i_theta x, 0).

  Lemma sub_bounds_in v_in th : 0 < v_in -> subcritical v_in th ->
    -1 <= v_f / v_in * sin th <= 1 /\ -1 <= v_l / v_in * sin th <= 1 /\ -1 <= v_t / v_in * sin th <= 1.
  Proof. intros Hv (Hth & HF & HL & HT). repeat split; apply sub_bound; assumption. Qed.

  Lemma sin_snell a b th : a <> 0 -> -1 <= b / a * sin th <= 1 -> sin (snell th a b) = b / a * sin th.
  Proof. intros Ha Hs. unfold snell_angles, snell_sin. cbn [NumR nasin nsin nmul ndiv]. apply sin_asin. exact Hs. Qed.

  (* the refracted / reflected wave is sub-critical for the same wall *)
  Lemma sub_bounds_out a b th : 0 < a -> 0 < b -> subcritical a th -> -1 <= b / a * sin th <= 1 ->
    -1 <= v_f / b * sin (snell th a b) <= 1 /\ -1 <= v_l / b * sin (snell th a b) <= 1
    /\ -1 <= v_t / b * sin (snell th a b) <= 1.
  Proof.
    intros Ha Hb H Hs. destruct (sub_bounds_in a th Ha H) as (BF & BL & BT).
    rewrite sin_snell by (try assumption; lra).
    replace (v_f / b * (b / a * sin th)) with (v_f / a * sin th) by (field; lra).
    replace (v_l / b * (b / a * sin th)) with (v_l / a * sin th) by (field; lra).
    replace (v_t / b * (b / a * sin th)) with (v_t / a * sin th) by (field; lra).
    repeat split; lra.
  Qed.

  Lemma tr_forward_front_C m th : subcritical v_f th ->
    tr_forward C Displacement (iface_C (front_iface m th)) = Some (front_F m (wall_inc_f th), 0).
  Proof.
    intros H. destruct (sub_bounds_in v_f th Pvf H) as (BF & BL & BT).
    unfold tr_forward, iface_C, front_iface. cbn [i_trans i_kind i_mprev i_mnext i_modeprev i_modenext i_theta].
    unfold transmission_at_interface, impedance_ratio, material_C, fluid, solid. cbn [m_rho m_vl m_vt velocity].
    rewrite fluid_solid_auto_C_real by (try assumption; lra).
    unfold fluid_solid_auto. rewrite ang_sc_fluid_solid.
    destruct m; unfold cre3, cre; cbn [fst3 snd3 thd3 fst snd NumR n0 velocity m_vl m_vt]; rewrite !mul_rr, div_rr, mul_rr; reflexivity.
  Qed.

  (* a reflection m1 -> m2 computed by the complex functions at a real angle th of a wave of
     velocity vel_of m1, every wave sub-critical *)
  Lemma refl_C_at m1 m2 th :
    -1 <= v_f / vel_of m1 * sin th <= 1 -> -1 <= v_l / vel_of m1 * sin th <= 1 -> -1 <= v_t / vel_of m1 * sin th <= 1 ->
    reflection_at_interface C SolidFluid (material_C solid) (material_C fluid) m1 m2 (th, 0) Displacement
    = Some (refl_F m1 m2 (wall_inc m1 th), 0).
  Proof.
    intros BF BL BT.
    unfold reflection_at_interface, material_C, fluid, solid. cbn [m_rho m_vl m_vt].
    destruct m1; cbn [vel_of] in *.
    - rewrite solid_l_fluid_auto_C_real by (try assumption; lra).
      unfold solid_l_fluid_auto. rewrite ang_sc_solid_l.
      destruct m2; unfold cre3, cre; cbn [fst3 snd3 thd3 fst snd NumR n0 velocity m_vl m_vt]; rewrite div_rr, mul_rr; reflexivity.
    - rewrite solid_t_fluid_auto_C_real by (try assumption; lra).
      unfold solid_t_fluid_auto. rewrite ang_sc_solid_t.
      destruct m2; unfold cre3, cre; cbn [fst3 snd3 thd3 fst snd NumR n0 velocity m_vl m_vt]; rewrite div_rr, mul_rr; reflexivity.
  Qed.

  Lemma tr_forward_refl_C m1 m2 th : subcritical (vel_of m1) th ->
    tr_forward C Displacement (iface_C (refl_iface m1 m2 th)) = Some (refl_F m1 m2 (wall_inc m1 th), 0).
  Proof.
    intros H. destruct (sub_bounds_in (vel_of m1) th (vel_of_pos m1) H) as (BF & BL & BT).
    unfold tr_forward, iface_C, refl_iface. cbn [i_trans i_kind i_mprev i_mnext i_against i_modeprev i_modenext i_theta].
    apply refl_C_at; assumption.
  Qed.

  Lemma velocity_C m md : velocity (material_C m) md = cre NumR (velocity m md).
  Proof. destruct md; reflexivity. Qed.

  Lemma tr_reverse_refl_C m1 m2 th : subcritical (vel_of m1) th ->
    tr_reverse C Displacement (iface_C (refl_iface m1 m2 th)) = Some (refl_G m1 m2 (wall_inc m1 th), 0).
  Proof.
    intros H. pose proof (vel_of_pos m1) as P1. pose proof (vel_of_pos m2) as P2.
    assert (Hs : -1 <= vel_of m2 / vel_of m1 * sin th <= 1).
    { destruct (sub_bounds_in (vel_of m1) th P1 H) as (BF & BL & BT). destruct m2; assumption. }
    destruct (sub_bounds_out (vel_of m1) (vel_of m2) th P1 P2 H Hs) as (BF & BL & BT).
    unfold tr_reverse, iface_C, refl_iface. cbn [i_trans i_kind i_mprev i_mnext i_against i_modeprev i_modenext i_theta].
    rewrite !velocity_C.
    replace (velocity solid m1) with (vel_of m1) by (destruct m1; reflexivity).
    replace (velocity solid m2) with (vel_of m2) by (destruct m2; reflexivity).
    rewrite snell_angles_C_pre by (try assumption; lra).
    rewrite refl_C_at by assumption. rewrite reverse_wall_refl by assumption. reflexivity.
  Qed.

  Lemma tr_reverse_front_C m th : subcritical v_f th ->
    tr_reverse C Displacement (iface_C (front_iface m th)) = Some (front_G m (wall_inc_f th), 0).
  Proof.
    intros H. pose proof (vel_of_pos m) as P1.
    assert (Hs : -1 <= vel_of m / v_f * sin th <= 1).
    { destruct (sub_bounds_in v_f th Pvf H) as (BF & BL & BT). destruct m; assumption. }
    destruct (sub_bounds_out v_f (vel_of m) th Pvf P1 H Hs) as (BF & BL & BT).
    unfold tr_reverse, iface_C, front_iface.
    cbn [i_trans i_kind i_mprev i_mnext i_against i_modeprev i_modenext i_theta ikind_reverse].
    rewrite !velocity_C.
    replace (velocity fluid ModeL) with v_f by reflexivity.
    replace (velocity solid m) with (vel_of m) by (destruct m; reflexivity).
    rewrite snell_angles_C_pre by (try assumption; lra).
    rewrite <- (reverse_wall_front m th H).
    unfold transmission_at_interface, impedance_ratio, material_C, fluid, solid. cbn [m_rho m_vl m_vt].
    destruct m; cbn [vel_of] in *.
    - rewrite solid_l_fluid_auto_C_real by (try assumption; lra).
      unfold solid_l_fluid_auto. rewrite ang_sc_solid_l.
      unfold cre3, cre; cbn [fst3 snd3 thd3 fst snd NumR n0 velocity m_vl m_vt]; rewrite !mul_rr, div_rr, mul_rr; reflexivity.
    - rewrite solid_t_fluid_auto_C_real by (try assumption; lra).
      unfold solid_t_fluid_auto. rewrite ang_sc_solid_t.
      unfold cre3, cre; cbn [fst3 snd3 thd3 fst snd NumR n0 velocity m_vl m_vt]; rewrite !mul_rr, div_rr, mul_rr; reflexivity.
  Qed.

  (* the loops on the complex dtype *)
  Definition pstepC (f : iface (K := R * R) -> option (R * R)) (acc : option (option (R * R)))
             (x : iface (K := R * R)) : option (option (R * R)) :=
    match acc, f x with
    | Some None, Some t => Some (Some t)
    | Some (Some a), Some t => Some (Some (nmul C a t))
    | _, _ => None
    end.
  Lemma product_of_pstepC f l : product_of C f l = fold_left (pstepC f) l (Some None).
  Proof. reflexivity. Qed.

  Lemma product_refl_forward_C l : forall m acc, refl_sub m l ->
    fold_left (pstepC (tr_forward C Displacement)) (map iface_C (refl_ifaces m l)) (Some (Some (acc, 0)))
    = Some (Some (acc * rprod fF (refl_ifrs m (refl_walls m l)), 0)).
  Proof.
    induction l as [|[m2 th] l IH]; intros m acc H.
    - unfold rprod. cbn. rewrite Rmult_1_r. reflexivity.
    - destruct H as [H1 H2].
      cbn [refl_ifaces refl_walls refl_ifrs fold_left map]. unfold pstepC at 2. rewrite tr_forward_refl_C by assumption.
      rewrite mul_rr. rewrite IH by assumption. unfold rprod. cbn [fold_right fF refl_ifr]. do 3 f_equal. ring.
  Qed.

  Lemma product_refl_reverse_C l : forall m acc, refl_sub m l ->
    fold_left (pstepC (tr_reverse C Displacement)) (map iface_C (refl_ifaces m l)) (Some (Some (acc, 0)))
    = Some (Some (acc * rprod fG (refl_ifrs m (refl_walls m l)), 0)).
  Proof.
    induction l as [|[m2 th] l IH]; intros m acc H.
    - unfold rprod. cbn. rewrite Rmult_1_r. reflexivity.
    - destruct H as [H1 H2].
      cbn [refl_ifaces refl_walls refl_ifrs fold_left map]. unfold pstepC at 2. rewrite tr_reverse_refl_C by assumption.
      rewrite mul_rr. rewrite IH by assumption. unfold rprod. cbn [fold_right fG refl_ifr]. do 3 f_equal. ring.
  Qed.

  Theorem transrefl_C_is_real m0 th0 l : subcritical v_f th0 -> refl_sub m0 l ->
    transrefl_for_path C Displacement (map iface_C (path_ifaces m0 th0 l))
    = Some (Some (rprod fF (model_ifrs m0 th0 l), 0)).
  Proof.
    intros H0 Hl. unfold transrefl_for_path. rewrite product_of_pstepC. unfold path_ifaces. cbn [fold_left map].
    unfold pstepC at 2. rewrite tr_forward_front_C by assumption. rewrite product_refl_forward_C by assumption. reflexivity.
  Qed.

  Theorem reverse_transrefl_C_is_real m0 th0 l : subcritical v_f th0 -> refl_sub m0 l ->
    reverse_transrefl_for_path C Displacement (map iface_C (path_ifaces m0 th0 l))
    = Some (Some (rprod fG (model_ifrs m0 th0 l), 0)).
  Proof.
    intros H0 Hl. unfold reverse_transrefl_for_path. rewrite product_of_pstepC. unfold path_ifaces. cbn [fold_left map].
    unfold pstepC at 2. rewrite tr_reverse_front_C by assumption. rewrite product_refl_reverse_C by assumption. reflexivity.
  Qed.

  (* the ray weights of Model.Weights with transrefl and beamspread switched on *)
  Lemma tx_weight_real ud ua dirv TR bs att :
    tx_weight NumR ud true true ua dirv (TR, 0) bs att
    = (switch ud dirv 1 * TR * bs * switch ua att 1, 0).
  Proof.
    unfold tx_weight. destruct ud, ua; unfold switch, cre; cbn [NumR n0 n1]; rewrite !mul_rr; reflexivity.
  Qed.

  Lemma rx_weight_real ud ua dirv TR bs att lam :
    rx_weight NumR ud true true ua dirv (TR, 0) bs att lam
    = (switch ud dirv 1 * TR * bs * switch ua att 1 * sqrt lam, 0).
  Proof.
    unfold rx_weight. rewrite tx_weight_real. unfold cre. cbn [NumR n0 nsqrt]. rewrite mul_rr. reflexivity.
  Qed.

  (* THE THEOREM on the default dtype and on the model's ray weights: directivity and
     attenuation each on or off (the same switch on both sides), transrefl and beamspread on *)
  Theorem qratio_model_complex m0 th0 l r1 rs dirv att f ud ua :
    subcritical v_f th0 -> refl_sub m0 l -> length rs = S (length l) -> 0 < r1 -> all_pos rs -> 0 < f ->
    let ifs := map iface_C (path_ifaces m0 th0 l) in
    let vel := path_vels m0 l in
    let ths := path_thetas th0 l in
    let c := vel_of (last_mode m0 l) in
    exists (TR TR' : R * R) (Q Q' : R),
      transrefl_for_path C Displacement ifs = Some (Some TR) /\
      reverse_transrefl_for_path C Displacement ifs = Some (Some TR') /\
      tx_weight NumR ud true true ua dirv TR (beamspread NumR vel (r1 :: rs) ths) att = (Q, 0) /\
      rx_weight NumR ud true true ua dirv TR' (reverse_beamspread NumR vel (r1 :: rs) ths) att (c / f) = (Q', 0) /\
      Q * (c * c) * mode_sign (last_mode m0 l) = kappa f * Q'.
  Proof.
    intros H0 Hl Hlen Hr1 Hrs Hf ifs vel ths c.
    destruct (qratio_model m0 th0 l r1 rs (switch ud dirv 1) (switch ua att 1) f H0 Hl Hlen Hr1 Hrs Hf)
      as (TR & TR' & E1 & E2 & E3).
    rewrite transrefl_is_product in E1. rewrite reverse_transrefl_is_product in E2 by assumption.
    injection E1 as E1. injection E2 as E2. subst TR TR'.
    exists (rprod fF (model_ifrs m0 th0 l), 0), (rprod fG (model_ifrs m0 th0 l), 0).
    eexists. eexists.
    split; [apply transrefl_C_is_real; assumption|].
    split; [apply reverse_transrefl_C_is_real; assumption|].
    split; [apply tx_weight_real|]. split; [apply rx_weight_real|].
    exact E3.
  Qed.
End Immersion.

(* ---- the four skip paths, explicit (front wall angles ..0, reflecting wall angles ..1) ---- *)
Lemma qratio_skip_LL :
  forall rho_f rho_s v_f v_l v_t, 0 < rho_f -> 0 < rho_s -> 0 < v_f -> 0 < v_l -> 0 < v_t ->
  forall sf0 cf0 sl0 cl0 st0 ct0 sf1 cf1 sl1 cl1 st1 ct1,
  0 < cf0 -> 0 < cl0 -> 0 < ct0 -> sl0 * v_t = st0 * v_l ->
  fluid_solid_n_sc NumR sf0 cf0 sl0 cl0 st0 ct0 rho_f rho_s v_f v_l v_t <> 0 ->
  0 < cf1 -> 0 < cl1 -> 0 < ct1 -> sl1 * v_t = st1 * v_l ->
  fluid_solid_n_sc NumR sf1 cf1 sl1 cl1 st1 ct1 rho_f rho_s v_f v_l v_t <> 0 ->
  forall r1 r2 r3 D A f, 0 < r1 -> 0 < r2 -> 0 < r3 -> 0 < f ->
  let FS0 := fluid_solid_sc NumR sf0 cf0 sl0 cl0 st0 ct0 rho_f rho_s v_f v_l v_t in
  let LF0 := solid_l_fluid_sc NumR sf0 cf0 sl0 cl0 st0 ct0 rho_f rho_s v_f v_l v_t in
  let TF0 := solid_t_fluid_sc NumR sf0 cf0 sl0 cl0 st0 ct0 rho_f rho_s v_f v_l v_t in
  let LF1 := solid_l_fluid_sc NumR sf1 cf1 sl1 cl1 st1 ct1 rho_f rho_s v_f v_l v_t in
  let TF1 := solid_t_fluid_sc NumR sf1 cf1 sl1 cl1 st1 ct1 rho_f rho_s v_f v_l v_t in
  let g1 := v_f * (cl0 * cl0) / (v_l * (cf0 * cf0)) in
  let g2 := v_l * (cl1 * cl1) / (v_l * (cl1 * cl1)) in
  let Q  := D * ((snd3 FS0 * ((rho_f * v_f) / (rho_s * v_l))) * (fst3 LF1 * (v_l / v_l)))
            * (1 / sqrt (r1 + r2 / g1 + r3 / (g1 * g2))) * A in
  let Q' := D * ((thd3 LF0 * ((rho_s * v_l) / (rho_f * v_f))) * (fst3 LF1 * (v_l / v_l)))
            * (1 / sqrt (r3 + r2 / (/ g2) + r1 / (/ g2 * / g1))) * A * sqrt (v_l / f) in
  Q * (v_l * v_l) * 1 = (rho_f * v_f * sqrt (v_f * f) / rho_s) * Q'.
Proof.
  intros rho_f rho_s v_f v_l v_t Prf Prs Pvf Pvl Pvt sf0 cf0 sl0 cl0 st0 ct0 sf1 cf1 sl1 cl1 st1 ct1
         A1 A2 A3 A4 A5 B1 B2 B3 B4 B5 r1 r2 r3 D A f Hr1 Hr2 Hr3 Hf.
  exact (qratio_skip rho_f rho_s v_f v_l v_t Prf Prs Pvf Pvl Pvt ModeL ModeL
           (mkWall sf0 cf0 sl0 cl0 st0 ct0) (mkWall sf1 cf1 sl1 cl1 st1 ct1) r1 r2 r3 D A f
           (conj A1 (conj A2 (conj A3 (conj A4 A5)))) (conj B1 (conj B2 (conj B3 (conj B4 B5)))) Hr1 Hr2 Hr3 Hf).
Qed.

Lemma qratio_skip_LT :
  forall rho_f rho_s v_f v_l v_t, 0 < rho_f -> 0 < rho_s -> 0 < v_f -> 0 < v_l -> 0 < v_t ->
  forall sf0 cf0 sl0 cl0 st0 ct0 sf1 cf1 sl1 cl1 st1 ct1,
  0 < cf0 -> 0 < cl0 -> 0 < ct0 -> sl0 * v_t = st0 * v_l ->
  fluid_solid_n_sc NumR sf0 cf0 sl0 cl0 st0 ct0 rho_f rho_s v_f v_l v_t <> 0 ->
  0 < cf1 -> 0 < cl1 -> 0 < ct1 -> sl1 * v_t = st1 * v_l ->
  fluid_solid_n_sc NumR sf1 cf1 sl1 cl1 st1 ct1 rho_f rho_s v_f v_l v_t <> 0 ->
  forall r1 r2 r3 D A f, 0 < r1 -> 0 < r2 -> 0 < r3 -> 0 < f ->
  let FS0 := fluid_solid_sc NumR sf0 cf0 sl0 cl0 st0 ct0 rho_f rho_s v_f v_l v_t in
  let LF0 := solid_l_fluid_sc NumR sf0 cf0 sl0 cl0 st0 ct0 rho_f rho_s v_f v_l v_t in
  let TF0 := solid_t_fluid_sc NumR sf0 cf0 sl0 cl0 st0 ct0 rho_f rho_s v_f v_l v_t in
  let LF1 := solid_l_fluid_sc NumR sf1 cf1 sl1 cl1 st1 ct1 rho_f rho_s v_f v_l v_t in
  let TF1 := solid_t_fluid_sc NumR sf1 cf1 sl1 cl1 st1 ct1 rho_f rho_s v_f v_l v_t in
  let g1 := v_f * (cl0 * cl0) / (v_l * (cf0 * cf0)) in
  let g2 := v_l * (ct1 * ct1) / (v_t * (cl1 * cl1)) in
  let Q  := D * ((snd3 FS0 * ((rho_f * v_f) / (rho_s * v_l))) * (snd3 LF1 * (v_l / v_t)))
            * (1 / sqrt (r1 + r2 / g1 + r3 / (g1 * g2))) * A in
  let Q' := D * ((thd3 LF0 * ((rho_s * v_l) / (rho_f * v_f))) * (fst3 TF1 * (v_t / v_l)))
            * (1 / sqrt (r3 + r2 / (/ g2) + r1 / (/ g2 * / g1))) * A * sqrt (v_t / f) in
  Q * (v_t * v_t) * (-1) = (rho_f * v_f * sqrt (v_f * f) / rho_s) * Q'.
Proof.
  intros rho_f rho_s v_f v_l v_t Prf Prs Pvf Pvl Pvt sf0 cf0 sl0 cl0 st0 ct0 sf1 cf1 sl1 cl1 st1 ct1
         A1 A2 A3 A4 A5 B1 B2 B3 B4 B5 r1 r2 r3 D A f Hr1 Hr2 Hr3 Hf.
  exact (qratio_skip rho_f rho_s v_f v_l v_t Prf Prs Pvf Pvl Pvt ModeL ModeT
           (mkWall sf0 cf0 sl0 cl0 st0 ct0) (mkWall sf1 cf1 sl1 cl1 st1 ct1) r1 r2 r3 D A f
           (conj A1 (conj A2 (conj A3 (conj A4 A5)))) (conj B1 (conj B2 (conj B3 (conj B4 B5)))) Hr1 Hr2 Hr3 Hf).
Qed.

Lemma qratio_skip_TL :
  forall rho_f rho_s v_f v_l v_t, 0 < rho_f -> 0 < rho_s -> 0 < v_f -> 0 < v_l -> 0 < v_t ->
  forall sf0 cf0 sl0 cl0 st0 ct0 sf1 cf1 sl1 cl1 st1 ct1,
  0 < cf0 -> 0 < cl0 -> 0 < ct0 -> sl0 * v_t = st0 * v_l ->
  fluid_solid_n_sc NumR sf0 cf0 sl0 cl0 st0 ct0 rho_f rho_s v_f v_l v_t <> 0 ->
  0 < cf1 -> 0 < cl1 -> 0 < ct1 -> sl1 * v_t = st1 * v_l ->
  fluid_solid_n_sc NumR sf1 cf1 sl1 cl1 st1 ct1 rho_f rho_s v_f v_l v_t <> 0 ->
  forall r1 r2 r3 D A f, 0 < r1 -> 0 < r2 -> 0 < r3 -> 0 < f ->
  let FS0 := fluid_solid_sc NumR sf0 cf0 sl0 cl0 st0 ct0 rho_f rho_s v_f v_l v_t in
  let LF0 := solid_l_fluid_sc NumR sf0 cf0 sl0 cl0 st0 ct0 rho_f rho_s v_f v_l v_t in
  let TF0 := solid_t_fluid_sc NumR sf0 cf0 sl0 cl0 st0 ct0 rho_f rho_s v_f v_l v_t in
  let LF1 := solid_l_fluid_sc NumR sf1 cf1 sl1 cl1 st1 ct1 rho_f rho_s v_f v_l v_t in
  let TF1 := solid_t_fluid_sc NumR sf1 cf1 sl1 cl1 st1 ct1 rho_f rho_s v_f v_l v_t in
  let g1 := v_f * (ct0 * ct0) / (v_t * (cf0 * cf0)) in
  let g2 := v_t * (cl1 * cl1) / (v_l * (ct1 * ct1)) in
  let Q  := D * ((thd3 FS0 * ((rho_f * v_f) / (rho_s * v_t))) * (fst3 TF1 * (v_t / v_l)))
            * (1 / sqrt (r1 + r2 / g1 + r3 / (g1 * g2))) * A in
  let Q' := D * ((thd3 TF0 * ((rho_s * v_t) / (rho_f * v_f))) * (snd3 LF1 * (v_l / v_t)))
            * (1 / sqrt (r3 + r2 / (/ g2) + r1 / (/ g2 * / g1))) * A * sqrt (v_l / f) in
  Q * (v_l * v_l) * 1 = (rho_f * v_f * sqrt (v_f * f) / rho_s) * Q'.
Proof.
  intros rho_f rho_s v_f v_l v_t Prf Prs Pvf Pvl Pvt sf0 cf0 sl0 cl0 st0 ct0 sf1 cf1 sl1 cl1 st1 ct1
         A1 A2 A3 A4 A5 B1 B2 B3 B4 B5 r1 r2 r3 D A f Hr1 Hr2 Hr3 Hf.
  exact (qratio_skip rho_f rho_s v_f v_l v_t Prf Prs Pvf Pvl Pvt ModeT ModeL
           (mkWall sf0 cf0 sl0 cl0 st0 ct0) (mkWall sf1 cf1 sl1 cl1 st1 ct1) r1 r2 r3 D A f
           (conj A1 (conj A2 (conj A3 (conj A4 A5)))) (conj B1 (conj B2 (conj B3 (conj B4 B5)))) Hr1 Hr2 Hr3 Hf).
Qed.

Lemma qratio_skip_TT :
  forall rho_f rho_s v_f v_l v_t, 0 < rho_f -> 0 < rho_s -> 0 < v_f -> 0 < v_l -> 0 < v_t ->
  forall sf0 cf0 sl0 cl0 st0 ct0 sf1 cf1 sl1 cl1 st1 ct1,
  0 < cf0 -> 0 < cl0 -> 0 < ct0 -> sl0 * v_t = st0 * v_l ->
  fluid_solid_n_sc NumR sf0 cf0 sl0 cl0 st0 ct0 rho_f rho_s v_f v_l v_t <> 0 ->
  0 < cf1 -> 0 < cl1 -> 0 < ct1 -> sl1 * v_t = st1 * v_l ->
  fluid_solid_n_sc NumR sf1 cf1 sl1 cl1 st1 ct1 rho_f rho_s v_f v_l v_t <> 0 ->
  forall r1 r2 r3 D A f, 0 < r1 -> 0 < r2 -> 0 < r3 -> 0 < f ->
  let FS0 := fluid_solid_sc NumR sf0 cf0 sl0 cl0 st0 ct0 rho_f rho_s v_f v_l v_t in
  let LF0 := solid_l_fluid_sc NumR sf0 cf0 sl0 cl0 st0 ct0 rho_f rho_s v_f v_l v_t in
  let TF0 := solid_t_fluid_sc NumR sf0 cf0 sl0 cl0 st0 ct0 rho_f rho_s v_f v_l v_t in
  let LF1 := solid_l_fluid_sc NumR sf1 cf1 sl1 cl1 st1 ct1 rho_f rho_s v_f v_l v_t in
  let TF1 := solid_t_fluid_sc NumR sf1 cf1 sl1 cl1 st1 ct1 rho_f rho_s v_f v_l v_t in
  let g1 := v_f * (ct0 * ct0) / (v_t * (cf0 * cf0)) in
  let g2 := v_t * (ct1 * ct1) / (v_t * (ct1 * ct1)) in
  let Q  := D * ((thd3 FS0 * ((rho_f * v_f) / (rho_s * v_t))) * (snd3 TF1 * (v_t / v_t)))
            * (1 / sqrt (r1 + r2 / g1 + r3 / (g1 * g2))) * A in
  let Q' := D * ((thd3 TF0 * ((rho_s * v_t) / (rho_f * v_f))) * (snd3 TF1 * (v_t / v_t)))
            * (1 / sqrt (r3 + r2 / (/ g2) + r1 / (/ g2 * / g1))) * A * sqrt (v_t / f) in
  Q * (v_t * v_t) * (-1) = (rho_f * v_f * sqrt (v_f * f) / rho_s) * Q'.
Proof.
  intros rho_f rho_s v_f v_l v_t Prf Prs Pvf Pvl Pvt sf0 cf0 sl0 cl0 st0 ct0 sf1 cf1 sl1 cl1 st1 ct1
         A1 A2 A3 A4 A5 B1 B2 B3 B4 B5 r1 r2 r3 D A f Hr1 Hr2 Hr3 Hf.
  exact (qratio_skip rho_f rho_s v_f v_l v_t Prf Prs Pvf Pvl Pvt ModeT ModeT
           (mkWall sf0 cf0 sl0 cl0 st0 ct0) (mkWall sf1 cf1 sl1 cl1 st1 ct1) r1 r2 r3 D A f
           (conj A1 (conj A2 (conj A3 (conj A4 A5)))) (conj B1 (conj B2 (conj B3 (conj B4 B5)))) Hr1 Hr2 Hr3 Hf).
Qed.

(* ---- what the records are, spelled out (all six interface events) ------------------------ *)
Lemma records_unfold : forall rho_f rho_s v_f v_l v_t (a : wall),
  let FS := fluid_solid_sc NumR (wsf a) (wcf a) (wsl a) (wcl a) (wst a) (wct a) rho_f rho_s v_f v_l v_t in
  let LF := solid_l_fluid_sc NumR (wsf a) (wcf a) (wsl a) (wcl a) (wst a) (wct a) rho_f rho_s v_f v_l v_t in
  let TF := solid_t_fluid_sc NumR (wsf a) (wcf a) (wsl a) (wcl a) (wst a) (wct a) rho_f rho_s v_f v_l v_t in
  front_ifr rho_f rho_s v_f v_l v_t ModeL a
    = mkIfr (snd3 FS * ((rho_f * v_f) / (rho_s * v_l))) (thd3 LF * ((rho_s * v_l) / (rho_f * v_f)))
            (wcf a) (wcl a) v_f v_l rho_f rho_s false /\
  front_ifr rho_f rho_s v_f v_l v_t ModeT a
    = mkIfr (thd3 FS * ((rho_f * v_f) / (rho_s * v_t))) (thd3 TF * ((rho_s * v_t) / (rho_f * v_f)))
            (wcf a) (wct a) v_f v_t rho_f rho_s true /\
  refl_ifr rho_f rho_s v_f v_l v_t ModeL ModeL a
    = mkIfr (fst3 LF * (v_l / v_l)) (fst3 LF * (v_l / v_l)) (wcl a) (wcl a) v_l v_l rho_s rho_s false /\
  refl_ifr rho_f rho_s v_f v_l v_t ModeL ModeT a
    = mkIfr (snd3 LF * (v_l / v_t)) (fst3 TF * (v_t / v_l)) (wcl a) (wct a) v_l v_t rho_s rho_s true /\
  refl_ifr rho_f rho_s v_f v_l v_t ModeT ModeL a
    = mkIfr (fst3 TF * (v_t / v_l)) (snd3 LF * (v_l / v_t)) (wct a) (wcl a) v_t v_l rho_s rho_s true /\
  refl_ifr rho_f rho_s v_f v_l v_t ModeT ModeT a
    = mkIfr (snd3 TF * (v_t / v_t)) (snd3 TF * (v_t / v_t)) (wct a) (wct a) v_t v_t rho_s rho_s false.
Proof. intros. repeat split; reflexivity. Qed.

(* the angle-layer objects, spelled out *)
Lemma path_objects_unfold : forall rho_f rho_s v_f v_l v_t vtf m0 th0 m1 th1 l,
  let fluid := mkMaterial rho_f v_f vtf in
  let solid := mkMaterial rho_s v_l v_t in
  path_ifaces rho_f rho_s v_f v_l v_t vtf m0 th0 []
    = [mkIface FluidSolid true fluid solid fluid ModeL m0 th0] /\
  path_ifaces rho_f rho_s v_f v_l v_t vtf m0 th0 ((m1, th1) :: l)
    = mkIface FluidSolid true fluid solid fluid ModeL m0 th0
      :: mkIface SolidFluid false solid solid fluid m0 m1 th1
      :: tl (path_ifaces rho_f rho_s v_f v_l v_t vtf m1 th1 l) /\
  path_vels v_f v_l v_t m0 ((m1, th1) :: l) = v_f :: vel_of v_l v_t m0 :: tl (path_vels v_f v_l v_t m1 l) /\
  path_thetas th0 ((m1, th1) :: l) = th0 :: path_thetas th1 l /\
  (subcritical v_f v_l v_t v_f th0 <->
     0 <= th0 < PI / 2 /\ v_f / v_f * sin th0 < 1 /\ v_l / v_f * sin th0 < 1 /\ v_t / v_f * sin th0 < 1) /\
  (refl_sub v_f v_l v_t m0 ((m1, th1) :: l) <->
     (0 <= th1 < PI / 2 /\ v_f / vel_of v_l v_t m0 * sin th1 < 1 /\ v_l / vel_of v_l v_t m0 * sin th1 < 1
      /\ v_t / vel_of v_l v_t m0 * sin th1 < 1) /\ refl_sub v_f v_l v_t m1 l).
Proof. intros. do 4 (split; [reflexivity|]). split; apply iff_refl. Qed.

(* non-vacuity: the double-skip path LTL, every incidence angle pi/6, v_f = 1, v_l = 3/2, v_t = 1 *)
Lemma subcritical_example :
  subcritical 1 (3 / 2) 1 1 (PI / 6)
  /\ refl_sub 1 (3 / 2) 1 ModeL [(ModeT, PI / 6); (ModeL, PI / 6)].
Proof.
  pose proof PI_RGT_0 as HP.
  assert (S : sin (PI / 6) = 1 / 2) by exact sin_PI6.
  unfold subcritical, refl_sub, subcritical, vel_of. rewrite S.
  repeat split; lra.
Qed.
