(* Proofs/AmplitudesProofs.v — lemmas for C08, part 1: index plumbing of the two
   ModelAmplitudes classes and the sensitivities (discrete; no axioms needed: the numeric type
   is abstract). *)
From Coq Require Import List ZArith Bool Arith Lia.
From Arim Require Import Base.Num Model.Interface Model.Weights Model.ScatMatrix Model.Chunk
                         Model.Amplitudes Proofs.ChunkProofs.
Import ListNotations.

(* ---------- options and lists ---------------------------------------------------------- *)
Lemma mapM_cons {A B} (f : A -> option B) x l :
  mapM f (x :: l) = lift2 cons (f x) (mapM f l).
Proof. reflexivity. Qed.

Lemma mapM_length {A B} (f : A -> option B) l ys : mapM f l = Some ys -> length ys = length l.
Proof.
  revert ys. induction l as [|x l IH]; intros ys H; cbn in H.
  - inversion H. reflexivity.
  - destruct (f x) as [y|]; [|discriminate]. destruct (mapM f l) as [ys'|]; [|discriminate].
    cbn in H. inversion H. cbn. rewrite (IH ys' eq_refl). reflexivity.
Qed.

Lemma mapM_app {A B} (f : A -> option B) l1 l2 :
  mapM f (l1 ++ l2) = lift2 (@app B) (mapM f l1) (mapM f l2).
Proof.
  induction l1 as [|x l1 IH]; cbn.
  - destruct (mapM f l2); reflexivity.
  - rewrite IH. destruct (f x), (mapM f l1), (mapM f l2); reflexivity.
Qed.

Lemma mapM_ext {A B} (f g : A -> option B) l : (forall x, In x l -> f x = g x) -> mapM f l = mapM g l.
Proof.
  induction l as [|x l IH]; intros H; cbn; [reflexivity|].
  rewrite (H x (or_introl eq_refl)), IH; [reflexivity|]. intros y Hy. apply H. right. exact Hy.
Qed.

Lemma mapM_map {A B C} (f : B -> option C) (g : A -> B) l : mapM f (map g l) = mapM (fun x => f (g x)) l.
Proof. induction l as [|x l IH]; cbn; [reflexivity|]. rewrite IH. reflexivity. Qed.

Lemma mapM_nth_error {A B} (f : A -> option B) l ys k x :
  mapM f l = Some ys -> nth_error l k = Some x -> exists y, f x = Some y /\ nth_error ys k = Some y.
Proof.
  revert ys k. induction l as [|x0 l IH]; intros ys k H Hk.
  - destruct k; discriminate.
  - cbn in H. destruct (f x0) as [y0|] eqn:E0; [|discriminate].
    destruct (mapM f l) as [ys'|] eqn:E; [|discriminate]. cbn in H. inversion H; subst ys.
    destruct k as [|k]; cbn in Hk.
    + inversion Hk; subst. exists y0. split; [exact E0 | reflexivity].
    + destruct (IH ys' k eq_refl Hk) as (y & Hy & Hn). exists y. split; assumption.
Qed.

(* bind (mapM f l) (mapM g) fuses into one traversal *)
Lemma mapM_bind {A B C} (f : A -> option B) (g : B -> option C) l :
  bind (mapM f l) (mapM g) = mapM (fun x => bind (f x) g) l.
Proof.
  induction l as [|x l IH]; cbn; [reflexivity|].
  rewrite <- IH. destruct (f x) as [y|]; cbn.
  - destruct (mapM f l) as [ys|]; cbn; [reflexivity|]. destruct (g y); reflexivity.
  - reflexivity.
Qed.

Lemma omap_mapM {A B C} (f : A -> option B) (h : B -> C) l :
  omap (map h) (mapM f l) = mapM (fun x => omap h (f x)) l.
Proof.
  induction l as [|x l IH]; cbn; [reflexivity|].
  rewrite <- IH. destruct (f x), (mapM f l); reflexivity.
Qed.

(* two traversals of the SAME list combined elementwise *)
Lemma lift2_map2_mapM {A B C D} (f : A -> option B) (g : A -> option C) (h : B -> C -> D) l :
  lift2 (map2 h) (mapM f l) (mapM g l) = mapM (fun x => lift2 h (f x) (g x)) l.
Proof.
  induction l as [|x l IH]; cbn; [reflexivity|].
  rewrite <- IH. destruct (f x), (g x), (mapM f l), (mapM g l); reflexivity.
Qed.

(* two traversals of two lists of the same length *)
Lemma lift2_map2_mapM_combine {A A' B C D} (f : A -> option B) (g : A' -> option C) (h : B -> C -> D) l l' :
  length l = length l' ->
  lift2 (map2 h) (mapM f l) (mapM g l') = mapM (fun s => lift2 h (f (fst s)) (g (snd s))) (combine l l').
Proof.
  revert l'. induction l as [|x l IH]; intros [|x' l'] H; try discriminate; cbn; [reflexivity|].
  rewrite <- (IH l') by (cbn in H; lia).
  destruct (f x), (g x'), (mapM f l), (mapM g l'); reflexivity.
Qed.

Lemma mapM_fst_combine {A A' B} (f : A -> option B) (l : list A) (l' : list A') :
  length l = length l' -> mapM (fun s => f (fst s)) (combine l l') = mapM f l.
Proof.
  revert l'. induction l as [|x l IH]; intros [|x' l'] H; try discriminate; cbn; [reflexivity|].
  rewrite IH by (cbn in H; lia). reflexivity.
Qed.

Lemma mapM_snd_combine {A A' B} (f : A' -> option B) (l : list A) (l' : list A') :
  length l = length l' -> mapM (fun s => f (snd s)) (combine l l') = mapM f l'.
Proof.
  revert l'. induction l as [|x l IH]; intros [|x' l'] H; try discriminate; cbn; [reflexivity|].
  rewrite IH by (cbn in H; lia). reflexivity.
Qed.

Lemma bind_lift2 {A B C D} (x : option A) (F : A -> option B) (G : A -> option C) (h : B -> C -> D) :
  lift2 h (bind x F) (bind x G) = bind x (fun a => lift2 h (F a) (G a)).
Proof. destruct x; reflexivity. Qed.

Lemma omap_bind {A B C} (x : option A) (F : A -> option B) (h : B -> C) :
  omap h (bind x F) = bind x (fun a => omap h (F a)).
Proof. destruct x; reflexivity. Qed.

(* ---------- indices -------------------------------------------------------------------- *)
Lemma norm_index_lt n z k : norm_index n z = Some k -> k < n.
Proof.
  unfold norm_index. intros H.
  destruct ((0 <=? z)%Z && (z <? Z.of_nat n)%Z) eqn:E1.
  - apply andb_true_iff in E1 as [H1 H2]. apply Z.leb_le in H1. apply Z.ltb_lt in H2. inversion H. lia.
  - destruct ((- Z.of_nat n <=? z)%Z && (z <? 0)%Z) eqn:E2; [|discriminate].
    apply andb_true_iff in E2 as [H1 H2]. apply Z.leb_le in H1. apply Z.ltb_lt in H2. inversion H. lia.
Qed.

Lemma norm_index_nat n k : k < n -> norm_index n (Z.of_nat k) = Some k.
Proof.
  intros H. unfold norm_index.
  replace ((0 <=? Z.of_nat k)%Z) with true by (symmetry; apply Z.leb_le; lia).
  replace ((Z.of_nat k <? Z.of_nat n)%Z) with true by (symmetry; apply Z.ltb_lt; lia).
  cbn. rewrite Nat2Z.id. reflexivity.
Qed.

Lemma norm_index_neg n k : 0 < k <= n -> norm_index n (- Z.of_nat k) = Some (n - k).
Proof.
  intros H. unfold norm_index.
  replace ((0 <=? - Z.of_nat k)%Z) with false by (symmetry; apply Z.leb_gt; lia).
  replace ((- Z.of_nat n <=? - Z.of_nat k)%Z) with true by (symmetry; apply Z.leb_le; lia).
  replace ((- Z.of_nat k <? 0)%Z) with true by (symmetry; apply Z.ltb_lt; lia).
  cbn. f_equal. lia.
Qed.

Lemma norm_index_none n z : (z < - Z.of_nat n \/ Z.of_nat n <= z)%Z -> norm_index n z = None.
Proof.
  intros H. unfold norm_index.
  destruct ((0 <=? z)%Z && (z <? Z.of_nat n)%Z) eqn:E1.
  - apply andb_true_iff in E1 as [H1 H2]. apply Z.leb_le in H1. apply Z.ltb_lt in H2. lia.
  - destruct ((- Z.of_nat n <=? z)%Z && (z <? 0)%Z) eqn:E2; [|reflexivity].
    apply andb_true_iff in E2 as [H1 H2]. apply Z.leb_le in H1. apply Z.ltb_lt in H2. lia.
Qed.

(* ---------- shapes and the transposition ----------------------------------------------- *)
Lemma has_shape_spec {V} r c (M : list (list V)) :
  has_shape r c M = true <-> length M = r /\ Forall (fun row => length row = c) M.
Proof.
  unfold has_shape. rewrite andb_true_iff, Nat.eqb_eq, forallb_forall, Forall_forall.
  split; intros [H1 H2]; split; try assumption; intros x Hx; specialize (H2 x Hx); apply Nat.eqb_eq; assumption.
Qed.

Lemma column_some {V} c (M : list (list V)) g :
  Forall (fun row => length row = c) M -> g < c -> exists col, column g M = Some col.
Proof.
  intros H Hg. unfold column. induction H as [|row M Hr HM IH]; cbn.
  - exists []. reflexivity.
  - destruct IH as (col & E). rewrite E.
    destruct (nth_error row g) as [v|] eqn:Ev.
    + exists (v :: col). reflexivity.
    + apply nth_error_None in Ev. lia.
Qed.

Lemma column_length {V} (M : list (list V)) g col : column g M = Some col -> length col = length M.
Proof. apply mapM_length. Qed.

Lemma column_nth {V} (M : list (list V)) g col i :
  column g M = Some col -> i < length M -> nth_error col i = get2 M i g.
Proof.
  intros H Hi. unfold get2.
  destruct (nth_error M i) as [row|] eqn:Er; [|apply nth_error_None in Er; lia].
  destruct (mapM_nth_error _ _ _ _ _ H Er) as (y & Hy & Hn). cbn. rewrite Hn, Hy. reflexivity.
Qed.

Lemma lookup_column {V} (M : list (list V)) g col z :
  column g M = Some col -> lookup col z = bind (norm_index (length M) z) (fun i => get2 M i g).
Proof.
  intros H. unfold lookup. rewrite (column_length M g col H).
  destruct (norm_index (length M) z) as [i|] eqn:E; cbn; [|reflexivity].
  apply (column_nth M g col i H). exact (norm_index_lt _ _ _ E).
Qed.

Lemma mapM_seq_nth {B} (f : nat -> option B) c ys :
  mapM f (seq 0 c) = Some ys -> length ys = c /\ forall g, g < c -> nth_error ys g = f g.
Proof.
  intros H. split.
  - rewrite (mapM_length _ _ _ H). apply seq_length.
  - intros g Hg.
    assert (Hn : nth_error (seq 0 c) g = Some g).
    { rewrite nth_error_nth' with (d := 0) by (rewrite seq_length; exact Hg). rewrite seq_nth by exact Hg. reflexivity. }
    destruct (mapM_nth_error _ _ _ _ _ H Hn) as (y & Hy & Hy'). rewrite Hy', Hy. reflexivity.
Qed.

Lemma transpose_some {V} r c (M : list (list V)) :
  has_shape r c M = true -> exists Mt, transpose c M = Some Mt.
Proof.
  intros H. apply has_shape_spec in H as [_ H]. unfold transpose.
  assert (G : forall l, (forall g, In g l -> g < c) -> exists Mt, mapM (fun j => column j M) l = Some Mt).
  { induction l as [|g l IH]; intros Hl; cbn.
    - exists []. reflexivity.
    - destruct (column_some c M g H (Hl g (or_introl eq_refl))) as (col & E). rewrite E.
      destruct IH as (Mt & E'). { intros g' Hg'. apply Hl. right. exact Hg'. }
      rewrite E'. exists (col :: Mt). reflexivity. }
  apply G. intros g Hg. apply in_seq in Hg. lia.
Qed.

Lemma lookup_transpose {V} c (M Mt : list (list V)) z :
  transpose c M = Some Mt -> lookup Mt z = bind (norm_index c z) (fun g => column g M).
Proof.
  intros H. destruct (mapM_seq_nth _ _ _ H) as [L Hn]. unfold lookup. rewrite L.
  destruct (norm_index c z) as [g|] eqn:E; cbn; [|reflexivity].
  apply Hn. exact (norm_index_lt _ _ _ E).
Qed.

(* np.take(A.T[G], idx, axis=-1), row of grid index zg, entry of element index zi, in terms of
   the original (element, grid) layout *)
Lemma take_row_transposed {V} r c (M Mt : list (list V)) zg idx :
  has_shape r c M = true -> transpose c M = Some Mt ->
  bind (lookup Mt zg) (fun row => take row idx)
  = bind (norm_index c zg) (fun g => mapM (fun zi => bind (norm_index r zi) (fun i => get2 M i g)) idx).
Proof.
  intros Hs Ht. rewrite (lookup_transpose c M Mt zg Ht).
  destruct (norm_index c zg) as [g|] eqn:E; cbn; [|reflexivity].
  apply has_shape_spec in Hs as [Hl Hs].
  destruct (column_some c M g Hs (norm_index_lt _ _ _ E)) as (col & Ec). rewrite Ec. cbn.
  unfold take. apply mapM_ext. intros zi _. rewrite (lookup_column M g col zi Ec), Hl. reflexivity.
Qed.

(* ---------- the two classes against the specification ---------------------------------- *)
Section Classes.
  Context {T : Type} (N : Num T).
  Local Notation K := (T * T)%type.

  Lemma factory_inv tx rx ne ng (Qtx Qrx : list (list K)) (Ttx Trx : list (list T)) a o :
    factory tx rx ne ng Qtx Qrx Ttx Trx a = Some o ->
    has_shape ne ng Qtx = true /\ has_shape ne ng Qrx = true /\ has_shape ne ng Ttx = true /\ has_shape ne ng Trx = true /\
    transpose ng Qtx = Some (ma_qtx o) /\ transpose ng Qrx = Some (ma_qrx o) /\
    transpose ng Ttx = Some (ma_ttx o) /\ transpose ng Trx = Some (ma_trx o) /\
    ma_tx o = tx /\ ma_rx o = rx /\ ma_angle o = a /\ ma_numpoints o = ng /\ ma_numelements o = ne.
  Proof.
    unfold factory. intros H.
    destruct (has_shape ne ng Qtx) eqn:E1; [|discriminate].
    destruct (has_shape ne ng Qrx) eqn:E2; [|discriminate].
    destruct (has_shape ne ng Ttx) eqn:E3; [|discriminate].
    destruct (has_shape ne ng Trx) eqn:E4; [|discriminate]. cbn in H.
    destruct (transpose ng Qtx) as [qt|]; [|discriminate].
    destruct (transpose ng Qrx) as [qr|]; [|discriminate].
    destruct (transpose ng Ttx) as [tht|]; [|discriminate].
    destruct (transpose ng Trx) as [thr|]; [|discriminate].
    inversion H; subst o; cbn. repeat split; reflexivity.
  Qed.

  Lemma factory_some tx rx ne ng (Qtx Qrx : list (list K)) (Ttx Trx : list (list T)) a :
    has_shape ne ng Qtx = true -> has_shape ne ng Qrx = true -> has_shape ne ng Ttx = true -> has_shape ne ng Trx = true ->
    exists o, factory tx rx ne ng Qtx Qrx Ttx Trx a = Some o.
  Proof.
    intros H1 H2 H3 H4. unfold factory. rewrite H1, H2, H3, H4. cbn.
    destruct (transpose_some ne ng Qtx H1) as (a1 & E1). destruct (transpose_some ne ng Qrx H2) as (a2 & E2).
    destruct (transpose_some ne ng Ttx H3) as (a3 & E3). destruct (transpose_some ne ng Trx H4) as (a4 & E4).
    rewrite E1, E2, E3, E4. eexists. reflexivity.
  Qed.

  (* np.take(A.T[G], idx, axis=-1) in the original layout *)
  Definition take2_spec {V} (ne ng : nat) (M : list (list V)) (G idx : list Z) : option (list (list V)) :=
    mapM (fun zg => bind (norm_index ng zg) (fun g =>
          mapM (fun zi => bind (norm_index ne zi) (fun i => get2 M i g)) idx)) G.

  Lemma take2_transposed {V} ne ng (M Mt : list (list V)) G idx :
    has_shape ne ng M = true -> transpose ng M = Some Mt -> take2 Mt G idx = take2_spec ne ng M G idx.
  Proof.
    intros Hs Ht. unfold take2, take, take2_spec. rewrite mapM_bind.
    apply mapM_ext. intros zg _. exact (take_row_transposed ne ng M Mt zg idx Hs Ht).
  Qed.

  Theorem getitem_fn_is_spec (S : T -> T -> K) tx rx ne ng Qtx Qrx Ttx Trx a o G :
    length tx = length rx ->
    factory tx rx ne ng Qtx Qrx Ttx Trx a = Some o ->
    getitem_fn N S o G = spec_amp N S a ne ng Qtx Qrx Ttx Trx tx rx G.
  Proof.
    intros Hlen Hf.
    destruct (factory_inv _ _ _ _ _ _ _ _ _ _ Hf) as (S1 & S2 & S3 & S4 & T1 & T2 & T3 & T4 & Etx & Erx & Ea & _ & _).
    unfold getitem_fn. rewrite Etx, Erx, Ea, Hlen, Nat.eqb_refl.
    rewrite (take2_transposed ne ng Ttx _ G tx S3 T3), (take2_transposed ne ng Trx _ G rx S4 T4),
            (take2_transposed ne ng Qtx _ G tx S1 T1), (take2_transposed ne ng Qrx _ G rx S2 T2).
    unfold take2_spec, sub_angle, spec_amp.
    rewrite !omap_mapM, !lift2_map2_mapM.
    apply mapM_ext. intros zg _.
    destruct (norm_index ng zg) as [g|]; cbn; [|reflexivity].
    rewrite !omap_mapM.
    rewrite (lift2_map2_mapM_combine _ _ S tx rx Hlen).
    rewrite <- (mapM_fst_combine (fun zi => bind (norm_index ne zi) (fun i => get2 Qtx i g)) tx rx Hlen).
    rewrite lift2_map2_mapM.
    rewrite <- (mapM_snd_combine (fun zi => bind (norm_index ne zi) (fun i => get2 Qrx i g)) tx rx Hlen).
    rewrite lift2_map2_mapM.
    apply mapM_ext. intros [zi zj] _. cbn [fst snd]. unfold entry, model_amplitude.
    destruct (norm_index ne zi) as [i|]; cbn; [|reflexivity].
    destruct (norm_index ne zj) as [j|]; cbn.
    - destruct (get2 Ttx i g), (get2 Trx j g), (get2 Qtx i g), (get2 Qrx j g); reflexivity.
    - destruct (get2 Ttx i g), (get2 Qtx i g); reflexivity.
  Qed.

  Lemma zip4_mapM {A B C X} (f1 f2 : X -> option A) (f3 f4 : X -> option B)
        (k : (A * A) * (B * B) -> option C) (G : list X) :
    match mapM f1 G, mapM f2 G, mapM f3 G, mapM f4 G with
    | Some a, Some b, Some c, Some d => mapM k (zip4 a b c d)
    | _, _, _, _ => None
    end
    = mapM (fun x => match f1 x, f2 x, f3 x, f4 x with
                     | Some a, Some b, Some c, Some d => k ((a, b), (c, d))
                     | _, _, _, _ => None
                     end) G.
  Proof.
    induction G as [|x G IH]; [reflexivity|].
    cbn [mapM]. rewrite <- IH.
    destruct (f1 x) as [a|]; [|reflexivity].
    destruct (f2 x) as [b|]; [|cbn; destruct (mapM f1 G); reflexivity].
    destruct (f3 x) as [c|]; [|cbn; destruct (mapM f1 G), (mapM f2 G); reflexivity].
    destruct (f4 x) as [d|]; [|cbn; destruct (mapM f1 G), (mapM f2 G), (mapM f3 G); reflexivity].
    destruct (mapM f1 G), (mapM f2 G), (mapM f3 G), (mapM f4 G); cbn; try reflexivity;
      destruct (k (a, b, (c, d))); reflexivity.
  Qed.

  Theorem getitem_mat_is_spec (P : T) (M : list (list K)) tx rx ne ng Qtx Qrx Ttx Trx a o G :
    mat_ok M = true -> length tx = length rx ->
    factory tx rx ne ng Qtx Qrx Ttx Trx a = Some o ->
    getitem_mat N P M o G = spec_amp N (interp_c N P M) a ne ng Qtx Qrx Ttx Trx tx rx G.
  Proof.
    intros Hm Hlen Hf.
    destruct (factory_inv _ _ _ _ _ _ _ _ _ _ Hf) as (S1 & S2 & S3 & S4 & T1 & T2 & T3 & T4 & Etx & Erx & Ea & _ & _).
    unfold getitem_mat. rewrite Hm, Etx, Erx, Ea, Hlen, Nat.eqb_refl. cbn [andb].
    unfold take. rewrite zip4_mapM. unfold spec_amp. apply mapM_ext. intros zg _.
    rewrite (lookup_transpose ng Qtx _ zg T1), (lookup_transpose ng Qrx _ zg T2),
            (lookup_transpose ng Ttx _ zg T3), (lookup_transpose ng Trx _ zg T4).
    destruct (norm_index ng zg) as [g|] eqn:Eg; cbn [bind]; [|reflexivity].
    pose proof (norm_index_lt _ _ _ Eg) as Hg.
    apply has_shape_spec in S1 as [L1 F1]. apply has_shape_spec in S2 as [L2 F2].
    apply has_shape_spec in S3 as [L3 F3]. apply has_shape_spec in S4 as [L4 F4].
    destruct (column_some ng Qtx g F1 Hg) as (c1 & E1). destruct (column_some ng Qrx g F2 Hg) as (c2 & E2).
    destruct (column_some ng Ttx g F3 Hg) as (c3 & E3). destruct (column_some ng Trx g F4 Hg) as (c4 & E4).
    rewrite E1, E2, E3, E4. cbn [fst snd]. unfold kernel_point.
    apply mapM_ext. intros [zi zj] _. cbn [fst snd].
    rewrite (lookup_column Ttx g c3 zi E3), (lookup_column Trx g c4 zj E4),
            (lookup_column Qtx g c1 zi E1), (lookup_column Qrx g c2 zj E2), L1, L2, L3, L4.
    unfold entry.
    destruct (norm_index ne zi) as [i|]; cbn; [|reflexivity].
    destruct (norm_index ne zj) as [j|]; cbn.
    - destruct (get2 Ttx i g), (get2 Trx j g), (get2 Qtx i g), (get2 Qrx j g); reflexivity.
    - destruct (get2 Ttx i g); reflexivity.
  Qed.

  (* the matrix class is the function class applied to the bilinear interpolant *)
  Theorem getitem_mat_eq_fn (P : T) (M : list (list K)) tx rx ne ng Qtx Qrx Ttx Trx a o G :
    mat_ok M = true -> length tx = length rx ->
    factory tx rx ne ng Qtx Qrx Ttx Trx a = Some o ->
    getitem_mat N P M o G = getitem_fn N (interp_c N P M) o G.
  Proof.
    intros Hm Hlen Hf.
    rewrite (getitem_mat_is_spec P M tx rx ne ng Qtx Qrx Ttx Trx a o G Hm Hlen Hf).
    symmetry. exact (getitem_fn_is_spec _ tx rx ne ng Qtx Qrx Ttx Trx a o G Hlen Hf).
  Qed.
End Classes.

(* ---------- entry-wise reading of the specification -------------------------------------- *)
Lemma nth_error_combine {A B} (l : list A) (l' : list B) k x y :
  nth_error l k = Some x -> nth_error l' k = Some y -> nth_error (combine l l') k = Some (x, y).
Proof.
  revert l' k. induction l as [|a l IH]; intros [|b l'] [|k] H1 H2; try discriminate; cbn in *.
  - inversion H1; inversion H2; reflexivity.
  - apply IH; assumption.
Qed.

Lemma get2_some {V} r c (M : list (list V)) i j :
  has_shape r c M = true -> i < r -> j < c -> exists v, get2 M i j = Some v.
Proof.
  intros H Hi Hj. apply has_shape_spec in H as [L F]. unfold get2.
  destruct (nth_error M i) as [row|] eqn:E; [|apply nth_error_None in E; lia].
  cbn. rewrite Forall_forall in F. specialize (F row (nth_error_In _ _ E)).
  destruct (nth_error row j) as [v|] eqn:E'; [exists v; reflexivity | apply nth_error_None in E'; lia].
Qed.

Lemma mapM_total {A B} (f : A -> option B) l :
  (forall x, In x l -> exists y, f x = Some y) -> exists ys, mapM f l = Some ys.
Proof.
  induction l as [|x l IH]; intros H; cbn.
  - exists []. reflexivity.
  - destruct (H x (or_introl eq_refl)) as (y & E). rewrite E.
    destruct IH as (ys & E'). { intros x' Hx'. apply H. right. exact Hx'. }
    rewrite E'. exists (y :: ys). reflexivity.
Qed.

Lemma mapM_none {A B} (f : A -> option B) l x : In x l -> f x = None -> mapM f l = None.
Proof.
  induction l as [|x0 l IH]; intros Hin Hx; [contradiction|]. cbn.
  destruct Hin as [E|Hin].
  - subst x0. rewrite Hx. reflexivity.
  - rewrite (IH Hin Hx). destruct (f x0); reflexivity.
Qed.

Section SpecReading.
  Context {T : Type} (N : Num T).
  Local Notation K := (T * T)%type.
  Variables (S : T -> T -> K) (a : T) (ne ng : nat) (Qtx Qrx : list (list K)) (Ttx Trx : list (list T)).

  Lemma spec_amp_sound tx rx G P :
    spec_amp N S a ne ng Qtx Qrx Ttx Trx tx rx G = Some P ->
    length P = length G /\
    forall p zg, nth_error G p = Some zg ->
      exists g row, norm_index ng zg = Some g /\ nth_error P p = Some row /\
        length row = length (combine tx rx) /\
        forall k zi zj, nth_error tx k = Some zi -> nth_error rx k = Some zj ->
          exists i j q q' th th',
            norm_index ne zi = Some i /\ norm_index ne zj = Some j /\
            get2 Qtx i g = Some q /\ get2 Qrx j g = Some q' /\ get2 Ttx i g = Some th /\ get2 Trx j g = Some th' /\
            nth_error row k = Some (model_amplitude N S a q q' th th').
  Proof.
    intros H. split; [exact (mapM_length _ _ _ H)|].
    intros p zg Hp. destruct (mapM_nth_error _ _ _ _ _ H Hp) as (row & Hrow & Hn).
    destruct (norm_index ng zg) as [g|]; [|discriminate]. cbn in Hrow.
    exists g, row. split; [reflexivity|]. split; [exact Hn|]. split; [exact (mapM_length _ _ _ Hrow)|].
    intros k zi zj Hi Hj.
    destruct (mapM_nth_error _ _ _ _ _ Hrow (nth_error_combine _ _ _ _ _ Hi Hj)) as (v & Hv & Hk).
    cbn [fst snd] in Hv. unfold entry in Hv.
    destruct (norm_index ne zi) as [i|]; [|discriminate]. destruct (norm_index ne zj) as [j|]; [|discriminate].
    cbn in Hv.
    destruct (get2 Qtx i g) as [q|] eqn:E1; [|discriminate]. destruct (get2 Qrx j g) as [q'|] eqn:E2; [|discriminate].
    destruct (get2 Ttx i g) as [th|] eqn:E3; [|discriminate]. destruct (get2 Trx j g) as [th'|] eqn:E4; [|discriminate].
    inversion Hv; subst v. exists i, j, q, q', th, th'.
    split; [reflexivity|]. split; [reflexivity|]. split; [exact E1|]. split; [exact E2|]. split; [exact E3|].
    split; [exact E4 | exact Hk].
  Qed.

  Definition valid_index (n : nat) (z : Z) : Prop := (- Z.of_nat n <= z < Z.of_nat n)%Z.

  Lemma norm_index_valid n z : valid_index n z -> exists k, norm_index n z = Some k /\ k < n.
  Proof.
    intros [H1 H2]. destruct (Z_lt_le_dec z 0) as [Hz|Hz].
    - exists (n - Z.to_nat (- z)). replace z with (- Z.of_nat (Z.to_nat (- z)))%Z at 1 by lia.
      split; [apply norm_index_neg|]; lia.
    - exists (Z.to_nat z). replace z with (Z.of_nat (Z.to_nat z)) at 1 by lia.
      split; [apply norm_index_nat|]; lia.
  Qed.

  Lemma spec_amp_total tx rx G :
    has_shape ne ng Qtx = true -> has_shape ne ng Qrx = true -> has_shape ne ng Ttx = true -> has_shape ne ng Trx = true ->
    Forall (valid_index ng) G -> Forall (valid_index ne) tx -> Forall (valid_index ne) rx ->
    exists P, spec_amp N S a ne ng Qtx Qrx Ttx Trx tx rx G = Some P.
  Proof.
    intros S1 S2 S3 S4 HG Htx Hrx. rewrite Forall_forall in HG, Htx, Hrx.
    apply mapM_total. intros zg Hzg.
    destruct (norm_index_valid ng zg (HG zg Hzg)) as (g & Eg & Hg). rewrite Eg. cbn.
    apply mapM_total. intros [zi zj] Hin. cbn [fst snd].
    destruct (norm_index_valid ne zi (Htx zi (in_combine_l _ _ _ _ Hin))) as (i & Ei & Hi).
    destruct (norm_index_valid ne zj (Hrx zj (in_combine_r _ _ _ _ Hin))) as (j & Ej & Hj).
    unfold entry. rewrite Ei, Ej. cbn.
    destruct (get2_some ne ng Qtx i g S1 Hi Hg) as (q & E1). destruct (get2_some ne ng Qrx j g S2 Hj Hg) as (q' & E2).
    destruct (get2_some ne ng Ttx i g S3 Hi Hg) as (th & E3). destruct (get2_some ne ng Trx j g S4 Hj Hg) as (th' & E4).
    rewrite E1, E2, E3, E4. eexists. reflexivity.
  Qed.

  (* IndexError: a grid index outside -ng..ng-1 makes the whole indexing fail; so does an
     element index outside -ne..ne-1 as soon as one grid point is selected *)
  Lemma spec_amp_bad_grid tx rx G zg :
    In zg G -> ~ valid_index ng zg -> spec_amp N S a ne ng Qtx Qrx Ttx Trx tx rx G = None.
  Proof.
    intros Hin Hbad. apply (mapM_none _ G zg Hin).
    rewrite norm_index_none; [reflexivity|]. unfold valid_index in Hbad. lia.
  Qed.

  Lemma spec_amp_bad_element tx rx G zg k zi zj :
    In zg G -> nth_error tx k = Some zi -> nth_error rx k = Some zj ->
    ~ valid_index ne zi \/ ~ valid_index ne zj ->
    spec_amp N S a ne ng Qtx Qrx Ttx Trx tx rx G = None.
  Proof.
    intros Hin Hi Hj Hbad. apply (mapM_none _ G zg Hin).
    destruct (norm_index ng zg) as [g|]; [|reflexivity]. cbn.
    apply (mapM_none _ _ (zi, zj) (nth_error_In _ _ (nth_error_combine _ _ _ _ _ Hi Hj))).
    cbn [fst snd]. unfold entry.
    destruct Hbad as [Hb|Hb].
    - rewrite (norm_index_none ne zi); [reflexivity|]. unfold valid_index in Hb. lia.
    - rewrite (norm_index_none ne zj); [|unfold valid_index in Hb; lia].
      destruct (norm_index ne zi); reflexivity.
  Qed.
End SpecReading.

(* ---------- sensitivities: independent of the block size --------------------------------- *)
Lemma skipn_repeat {V} (z : V) r m : skipn m (repeat z r) = repeat z (r - m).
Proof.
  revert m. induction r as [|r IH]; intros [|m]; cbn; try reflexivity. apply IH.
Qed.

Lemma firstn_app_exact {V} (l1 l2 : list V) : firstn (length l1) (l1 ++ l2) = l1.
Proof. rewrite firstn_app, Nat.sub_diag, firstn_all. cbn. apply app_nil_r. Qed.

Lemma skipn_app_exact {V} (l1 l2 : list V) m : skipn (length l1 + m) (l1 ++ l2) = skipn m l2.
Proof.
  rewrite skipn_app. rewrite skipn_all2 by lia. cbn. f_equal. lia.
Qed.

Section Sensitivity.
  Context {T : Type} (N : Num T).
  Local Notation K := (T * T)%type.
  Context {V : Type}.
  Variables (getitem : list Z -> option (list (list K))) (rowP : Z -> option (list K)).
  Hypothesis pointwise : forall G, getitem G = mapM rowP G.
  Variables (f : list K -> V) (zero : V) (n b : nat).
  Hypothesis Hb : 1 <= b.

  Let A (k : nat) : nat := Nat.min (k * b) n.

  Let step := (fun (acc : option (list V)) (ch : nat * nat) =>
                 bind acc (fun s => bind (getitem (map Z.of_nat (range_of ch))) (fun P => write_range ch (map f P) s))).

  Lemma sens_step a0 a1 P1 : a0 <= a1 -> a1 <= n -> length P1 = a0 ->
    step (Some (map f P1 ++ repeat zero (n - a0))) (a0, a1)
    = omap (fun P2 => map f (P1 ++ P2) ++ repeat zero (n - a1)) (mapM rowP (map Z.of_nat (seq a0 (a1 - a0)))).
  Proof.
    intros H01 H1n L1. unfold step, range_of. cbn [bind fst snd]. rewrite pointwise.
    destruct (mapM rowP (map Z.of_nat (seq a0 (a1 - a0)))) as [P2|] eqn:E2; cbn [bind omap]; [|reflexivity].
    assert (L2 : length P2 = a1 - a0).
    { rewrite (mapM_length _ _ _ E2), map_length, seq_length. reflexivity. }
    unfold write_range. cbn [fst snd]. rewrite map_length, L2, Nat.eqb_refl.
    f_equal. rewrite map_app, <- app_assoc. f_equal.
    - rewrite <- L1 at 1. rewrite <- (map_length f P1). apply firstn_app_exact.
    - f_equal. replace a1 with (length (map f P1) + (a1 - a0)) at 1 by (rewrite map_length; lia).
      rewrite skipn_app_exact, skipn_repeat. f_equal. lia.
  Qed.

  Lemma sens_prefix k :
    fold_left step (map (chunk n b) (seq 0 k)) (Some (repeat zero n))
    = omap (fun P => map f P ++ repeat zero (n - A k)) (mapM rowP (map Z.of_nat (seq 0 (A k)))).
  Proof.
    induction k as [|k IH].
    - unfold A. cbn. rewrite Nat.sub_0_r. reflexivity.
    - rewrite seq_S, map_app, fold_left_app, IH.
      assert (Ech : chunk n b k = (A k, A (S k))).
      { unfold chunk, A. f_equal. f_equal. lia. }
      cbn [map fold_left Nat.add]. rewrite Ech.
      assert (HA : A k <= A (S k)) by (unfold A; nia).
      assert (HAn : A (S k) <= n) by (unfold A; lia).
      assert (Eseq : seq 0 (A (S k)) = seq 0 (A k) ++ seq (A k) (A (S k) - A k)).
      { replace (A (S k)) with (A k + (A (S k) - A k)) at 1 by lia. apply seq_app. }
      rewrite Eseq, map_app, mapM_app.
      clear IH Ech Eseq. set (a0 := A k) in *. set (a1 := A (S k)) in *. clearbody a0 a1.
      rename HA into H01, HAn into H1n.
      destruct (mapM rowP (map Z.of_nat (seq 0 a0))) as [P1|] eqn:E1; cbn [omap lift2]; [|reflexivity].
      assert (L1 : length P1 = a0).
      { rewrite (mapM_length _ _ _ E1), map_length, seq_length. reflexivity. }
      rewrite (sens_step a0 a1 P1 H01 H1n L1).
      destruct (mapM rowP (map Z.of_nat (seq a0 (a1 - a0)))); reflexivity.
  Qed.

  Theorem sens_loop_unchunked :
    1 <= n -> sens_loop getitem f zero n b = spec_sensitivity getitem f n.
  Proof.
    intros Hn. unfold sens_loop, spec_sensitivity.
    pose proof (ceil_div_pos n b Hb Hn) as Hc. unfold numchunks.
    destruct (ceil_div n b =? 0) eqn:E; [apply Nat.eqb_eq in E; lia|].
    unfold chunks, numchunks. fold step. rewrite sens_prefix.
    assert (EA : A (ceil_div n b) = n). { unfold A. pose proof (ceil_div_spec n b Hb). lia. }
    rewrite EA, Nat.sub_diag, pointwise. cbn [repeat].
    destruct (mapM rowP (map Z.of_nat (seq 0 n))); cbn; [rewrite app_nil_r|]; reflexivity.
  Qed.
End Sensitivity.

Section SensitivityClasses.
  Context {T : Type} (N : Num T).
  Local Notation K := (T * T)%type.

  (* spec_amp is pointwise in the grid index *)
  Definition spec_row (S : T -> T -> K) a ne ng (Qtx Qrx : list (list K)) (Ttx Trx : list (list T)) tx rx (zg : Z) :=
    bind (norm_index ng zg) (fun g => mapM (fun s => entry N S a ne Qtx Qrx Ttx Trx g (fst s) (snd s)) (combine tx rx)).

  Lemma spec_amp_pointwise S a ne ng Qtx Qrx Ttx Trx tx rx G :
    spec_amp N S a ne ng Qtx Qrx Ttx Trx tx rx G = mapM (spec_row S a ne ng Qtx Qrx Ttx Trx tx rx) G.
  Proof. reflexivity. Qed.

  Variables (tx rx : list Z) (ne ng : nat) (Qtx Qrx : list (list K)) (Ttx Trx : list (list T)) (a : T)
            (o : amplitudes (T := T)).
  Hypothesis Hlen : length tx = length rx.
  Hypothesis Hf : factory tx rx ne ng Qtx Qrx Ttx Trx a = Some o.

  Theorem sensitivity_uniform_fn_unchunked (S : T -> T -> K) w b : 1 <= b -> 1 <= ng ->
    sensitivity_uniform_tfm N (getitem_fn N S o) ng (length tx) w b
    = if length w =? length tx then
        omap (map (fun row => ndiv (NumC N) (wsum_uniform N w row) (cre N (nofnat N (length tx)))))
             (getitem_fn N S o (map Z.of_nat (seq 0 ng)))
      else None.
  Proof.
    intros Hb Hn. unfold sensitivity_uniform_tfm. destruct (length w =? length tx); [|reflexivity].
    rewrite (sens_loop_unchunked (getitem_fn N S o) (spec_row S a ne ng Qtx Qrx Ttx Trx tx rx)
               (fun G => getitem_fn_is_spec N S tx rx ne ng Qtx Qrx Ttx Trx a o G Hlen Hf) _ _ ng b Hb Hn).
    unfold spec_sensitivity. destruct (getitem_fn N S o (map Z.of_nat (seq 0 ng))); cbn; [rewrite map_map|]; reflexivity.
  Qed.

  Theorem sensitivity_assisted_fn_unchunked (S : T -> T -> K) w b : 1 <= b -> 1 <= ng ->
    sensitivity_model_assisted_tfm N (getitem_fn N S o) ng (length tx) w b
    = if length w =? length tx then
        omap (map (fun row => ndiv N (wsum_assisted N w row) (nofnat N (length tx))))
             (getitem_fn N S o (map Z.of_nat (seq 0 ng)))
      else None.
  Proof.
    intros Hb Hn. unfold sensitivity_model_assisted_tfm. destruct (length w =? length tx); [|reflexivity].
    rewrite (sens_loop_unchunked (getitem_fn N S o) (spec_row S a ne ng Qtx Qrx Ttx Trx tx rx)
               (fun G => getitem_fn_is_spec N S tx rx ne ng Qtx Qrx Ttx Trx a o G Hlen Hf) _ _ ng b Hb Hn).
    unfold spec_sensitivity. destruct (getitem_fn N S o (map Z.of_nat (seq 0 ng))); cbn; [rewrite map_map|]; reflexivity.
  Qed.

  Theorem sensitivity_uniform_mat_unchunked (P : T) (M : list (list K)) w b : mat_ok M = true -> 1 <= b -> 1 <= ng ->
    sensitivity_uniform_tfm N (getitem_mat N P M o) ng (length tx) w b
    = if length w =? length tx then
        omap (map (fun row => ndiv (NumC N) (wsum_uniform N w row) (cre N (nofnat N (length tx)))))
             (getitem_mat N P M o (map Z.of_nat (seq 0 ng)))
      else None.
  Proof.
    intros Hm Hb Hn. unfold sensitivity_uniform_tfm. destruct (length w =? length tx); [|reflexivity].
    rewrite (sens_loop_unchunked (getitem_mat N P M o) (spec_row (interp_c N P M) a ne ng Qtx Qrx Ttx Trx tx rx)
               (fun G => getitem_mat_is_spec N P M tx rx ne ng Qtx Qrx Ttx Trx a o G Hm Hlen Hf) _ _ ng b Hb Hn).
    unfold spec_sensitivity. destruct (getitem_mat N P M o (map Z.of_nat (seq 0 ng))); cbn; [rewrite map_map|]; reflexivity.
  Qed.

  Theorem sensitivity_assisted_mat_unchunked (P : T) (M : list (list K)) w b : mat_ok M = true -> 1 <= b -> 1 <= ng ->
    sensitivity_model_assisted_tfm N (getitem_mat N P M o) ng (length tx) w b
    = if length w =? length tx then
        omap (map (fun row => ndiv N (wsum_assisted N w row) (nofnat N (length tx))))
             (getitem_mat N P M o (map Z.of_nat (seq 0 ng)))
      else None.
  Proof.
    intros Hm Hb Hn. unfold sensitivity_model_assisted_tfm. destruct (length w =? length tx); [|reflexivity].
    rewrite (sens_loop_unchunked (getitem_mat N P M o) (spec_row (interp_c N P M) a ne ng Qtx Qrx Ttx Trx tx rx)
               (fun G => getitem_mat_is_spec N P M tx rx ne ng Qtx Qrx Ttx Trx a o G Hm Hlen Hf) _ _ ng b Hb Hn).
    unfold spec_sensitivity. destruct (getitem_mat N P M o (map Z.of_nat (seq 0 ng))); cbn; [rewrite map_map|]; reflexivity.
  Qed.
End SensitivityClasses.
