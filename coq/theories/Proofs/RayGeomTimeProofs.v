(* Proofs/RayGeomTimeProofs.v — C05, part 3: the leg sizes of RayGeometry divided by the leg
   velocities add up (left-nested, as the solver accumulates) to the travel time of the
   ray reported by the Fermat solver of Model/Fermat.v (C01: solve_realised). *)
From Coq Require Import List ZArith Bool Arith Lia Reals Lra.
From Flocq Require Import Core.Raux.
From Arim Require Import Base.Num Base.NumR Model.Vec3 Model.RayGeom Proofs.RayGeomProofs Proofs.RayGeomRealProofs.
From Arim Require Model.MinPlus Model.Fermat Proofs.MinPlusProofs Proofs.FermatProofs.
Import ListNotations.

(* the point sets and the leg velocities of a Fermat path, first to last *)
Fixpoint path_sets {V PS} (p : Fermat.fpath V PS) : list PS :=
  match p with Fermat.Start P => [P] | Fermat.Leg h _ P => path_sets h ++ [P] end.
Fixpoint path_vels {V PS} (p : Fermat.fpath V PS) : list V :=
  match p with Fermat.Start _ => [] | Fermat.Leg h v _ => path_vels h ++ [v] end.

Lemma path_sets_length {V PS} (p : Fermat.fpath V PS) : length (path_sets p) = S (Fermat.nlegs p).
Proof. induction p as [P|h IH v P]; cbn; [reflexivity|]. rewrite app_length, IH. cbn. lia. Qed.
Lemma path_vels_length {V PS} (p : Fermat.fpath V PS) : length (path_vels p) = Fermat.nlegs p.
Proof. induction p as [P|h IH v P]; cbn; [reflexivity|]. rewrite app_length, IH. cbn. lia. Qed.

(* the comparison of the solver on the reals is a total preorder *)
Lemma Rle_bool_total_preorder : MinPlusProofs.total_preorder Rle_bool Rlt_bool.
Proof.
  unfold MinPlusProofs.total_preorder. repeat split.
  - intros a. apply Rle_bool_true. lra.
  - intros a b c H1 H2. apply Rle_bool_true.
    destruct (Rle_bool_spec a b); [|discriminate]. destruct (Rle_bool_spec b c); [|discriminate]. lra.
  - intros a b. destruct (Rle_or_lt a b) as [H|H]; [left | right]; apply Rle_bool_true; lra.
  - intros a b. destruct (Rlt_bool_spec a b) as [H|H]; destruct (Rle_bool_spec b a) as [H'|H']; try reflexivity; lra.
Qed.

Lemma dist_euclid (a b : vec3 R) : Fermat.dist NumR a b = euclid a b.
Proof. destruct a as [[x1 y1] z1], b as [[x2 y2] z2]. reflexivity. Qed.

Section Time.
  Local Open Scope R_scope.

  (* ---- legs_time: one more leg at the end ------------------------------------------------- *)
  Lemma legs_time_from_snoc ifs ray vs : forall k v acc,
    legs_time_from NumR ifs ray k (vs ++ [v]) acc =
    match legs_time_from NumR ifs ray k vs acc with
    | Some t => match inc_leg_size NumR ifs ray (Z.of_nat (k + length vs)) with
                | Val l => Some (t + l / v)
                | _ => None
                end
    | None => None
    end.
  Proof.
    induction vs as [|u vs IH]; intros k v acc; cbn [app legs_time_from length].
    - rewrite Nat.add_0_r. destruct (inc_leg_size NumR ifs ray (Z.of_nat k)); reflexivity.
    - destruct (inc_leg_size NumR ifs ray (Z.of_nat k)) as [l| | |]; try reflexivity.
      rewrite IH. replace (S k + length vs)%nat with (k + S (length vs))%nat by lia. reflexivity.
  Qed.

  Lemma legs_time_snoc ifs ray vs v : vs <> [] ->
    legs_time NumR ifs ray (vs ++ [v]) =
    match legs_time NumR ifs ray vs with
    | Some t => match inc_leg_size NumR ifs ray (Z.of_nat (S (length vs))) with
                | Val l => Some (t + l / v)
                | _ => None
                end
    | None => None
    end.
  Proof.
    destruct vs as [|u vs]; [congruence|]. intros _. cbn [app legs_time length].
    destruct (inc_leg_size NumR ifs ray 1) as [l| | |]; try reflexivity.
    rewrite legs_time_from_snoc. replace (2 + length vs)%nat with (S (S (length vs))) by lia. reflexivity.
  Qed.

  (* ---- ... and the earlier legs do not depend on the interfaces after them ------------------ *)
  Lemma ray_point_prefix (ifs : list (iface (T:=R))) ray f j a :
    length ray = length ifs -> (a < length ifs)%nat ->
    ray_point (ifs ++ [f]) (ray ++ [j]) a = ray_point ifs ray a.
  Proof. intros Hl Ha. unfold ray_point. rewrite !nth_error_app1 by lia. reflexivity. Qed.

  Lemma inc_leg_size_prefix (ifs : list (iface (T:=R))) ray f j k :
    length ray = length ifs -> (1 <= k < length ifs)%nat ->
    inc_leg_size NumR (ifs ++ [f]) (ray ++ [j]) (Z.of_nat k) = inc_leg_size NumR ifs ray (Z.of_nat k).
  Proof.
    intros Hl Hk. destruct k as [|a]; [lia|].
    assert (Hl' : length (ray ++ [j]) = length (ifs ++ [f])) by (rewrite !app_length, Hl; reflexivity).
    assert (R1 : resolve (length (ifs ++ [f])) (Z.of_nat (S a)) = Some (S a))
      by (apply resolve_of_nat; rewrite app_length; cbn; lia).
    assert (R2 : resolve (length ifs) (Z.of_nat (S a)) = Some (S a)) by (apply resolve_of_nat; lia).
    unfold inc_leg_size, guarded, numinterfaces. rewrite R1, R2. cbn [Nat.eqb].
    rewrite (leg_points_resolved _ _ Hl' _ _ (resolve_pred _ _ _ R1)), (leg_points_resolved _ _ Hl' _ _ R1),
      (leg_points_resolved _ _ Hl _ _ (resolve_pred _ _ _ R2)), (leg_points_resolved _ _ Hl _ _ R2).
    rewrite !ray_point_prefix by lia. reflexivity.
  Qed.

  Lemma legs_time_from_prefix (ifs : list (iface (T:=R))) ray f j vs : forall k acc,
    length ray = length ifs -> (1 <= k)%nat -> (k + length vs <= length ifs)%nat ->
    legs_time_from NumR (ifs ++ [f]) (ray ++ [j]) k vs acc = legs_time_from NumR ifs ray k vs acc.
  Proof.
    induction vs as [|u vs IH]; intros k acc Hl Hk Hb; cbn [legs_time_from]; [reflexivity|].
    cbn [length] in Hb. rewrite inc_leg_size_prefix by (try assumption; lia).
    destruct (inc_leg_size NumR ifs ray (Z.of_nat k)); try reflexivity. apply IH; [assumption | lia | lia].
  Qed.

  Lemma legs_time_prefix (ifs : list (iface (T:=R))) ray f j vs :
    length ray = length ifs -> (S (length vs) <= length ifs)%nat ->
    legs_time NumR (ifs ++ [f]) (ray ++ [j]) vs = legs_time NumR ifs ray vs.
  Proof.
    intros Hl Hb. destruct vs as [|u vs]; [reflexivity|]. cbn [legs_time]. cbn [length] in Hb.
    change 1%Z with (Z.of_nat 1). rewrite inc_leg_size_prefix by (try assumption; lia).
    destruct (inc_leg_size NumR ifs ray (Z.of_nat 1)); try reflexivity.
    apply legs_time_from_prefix; [assumption | lia | lia].
  Qed.

  (* leg size at a non-negative index *)
  Lemma inc_leg_size_nat (ifs : list (iface (T:=R))) ray a s e :
    length ray = length ifs -> (S a < length ifs)%nat ->
    ray_point ifs ray a = Some s -> ray_point ifs ray (S a) = Some e ->
    inc_leg_size NumR ifs ray (Z.of_nat (S a)) = Val (euclid s e).
  Proof.
    intros Hl Ha Hs He. apply (leg_size_is_distance_R ifs ray Hl _ a s e); try assumption.
    apply resolve_of_nat. exact Ha.
  Qed.

  (* ---- the cost of a ray in the Fermat model is the legs_time of RayGeometry -------------- *)
  Lemma nth_error_nth_default {A} (l : list A) k d : (k < length l)%nat -> nth_error l k = Some (nth k l d).
  Proof. intros H. apply nth_error_nth'. exact H. Qed.

  Lemma snoc_inv {A} (l : list A) : l <> [] -> exists l' x, l = l' ++ [x].
  Proof. intros H. destruct (exists_last H) as (l' & x & E). eauto. Qed.

  Lemma cost_is_legs_time (p : Fermat.cpath (T:=R)) : forall (ifs : list (iface (T:=R))) ray c,
    map if_points ifs = map (Fermat.pts (T:=R)) (path_sets p) -> length ray = length ifs ->
    Fermat.c_cost NumR p (rev ray) = Some c ->
    legs_time NumR ifs ray (path_vels p) = Some c.
  Proof.
    induction p as [P|h IH v P]; intros ifs ray c Hmap Hlen Hc; [discriminate Hc|].
    (* split off the last interface and the last ray index *)
    assert (Hn : length ifs = S (length (path_sets h))).
    { apply (f_equal (@length _)) in Hmap. rewrite !map_length in Hmap. cbn [path_sets] in Hmap.
      rewrite app_length in Hmap. cbn in Hmap. lia. }
    destruct (snoc_inv ifs) as (ifs' & f & ->); [intros ->; discriminate Hn|].
    destruct (snoc_inv ray) as (ray' & j & ->); [intros ->; rewrite app_length in Hlen; cbn in Hlen; lia|].
    repeat rewrite app_length in Hlen. repeat rewrite app_length in Hn. cbn [length] in Hlen, Hn.
    assert (Hlen' : length ray' = length ifs') by lia.
    cbn [path_sets] in Hmap. rewrite !map_app in Hmap. cbn [map] in Hmap.
    apply app_inj_tail in Hmap. destruct Hmap as [Hmap Hf].
    rewrite rev_app_distr in Hc. cbn [rev app] in Hc.
    cbn [path_vels].
    unfold Fermat.c_cost in Hc. cbn [Fermat.cost] in Hc.
    destruct (rev ray') as [|k more] eqn:Erev; [discriminate Hc|].
    destruct (Nat.ltb_spec j (Fermat.psize P)) as [Hj|Hj]; [|discriminate Hc].
    assert (Hray' : ray' = rev more ++ [k]).
    { rewrite <- (rev_involutive ray'), Erev. reflexivity. }
    assert (He : ray_point (ifs' ++ [f]) (ray' ++ [j]) (length ifs') = Some (nth j (Fermat.pts P) (Fermat.origin NumR))).
    { unfold ray_point. rewrite nth_error_app2 by lia. rewrite Nat.sub_diag. cbn [nth_error].
      rewrite <- Hlen', nth_error_app2 by lia. rewrite Nat.sub_diag. cbn [nth_error].
      rewrite Hf. apply nth_error_nth_default. exact Hj. }
    destruct h as [P0|h2 v2 Pm].
    - (* one leg *)
      destruct more as [|? ?]; [|discriminate Hc].
      destruct (Nat.ltb_spec k (Fermat.psize P0)) as [Hk|Hk]; [|discriminate Hc].
      injection Hc as <-.
      cbn [path_sets map] in Hmap. destruct ifs' as [|f0 [|? ?]]; try discriminate Hmap.
      injection Hmap as Hf0. cbn [rev app] in Hray'. subst ray'.
      cbn [path_vels app legs_time legs_time_from].
      change 1%Z with (Z.of_nat 1).
      rewrite (inc_leg_size_nat [f0; f] [k; j] 0 (nth k (Fermat.pts P0) (Fermat.origin NumR))
                 (nth j (Fermat.pts P) (Fermat.origin NumR))).
      + unfold Fermat.leg_entry. rewrite dist_euclid. reflexivity.
      + reflexivity.
      + cbn. lia.
      + unfold ray_point. cbn [app nth_error]. rewrite Hf0. apply nth_error_nth_default. exact Hk.
      + exact He.
    - (* at least two legs: induction hypothesis on the head *)
      fold (Fermat.c_cost NumR (Fermat.Leg h2 v2 Pm) (k :: more)) in Hc.
      destruct (Fermat.c_cost NumR (Fermat.Leg h2 v2 Pm) (k :: more)) as [c'|] eqn:Ec; [|discriminate Hc].
      injection Hc as <-.
      rewrite <- Erev in Ec.
      specialize (IH ifs' ray' c' Hmap Hlen' Ec).
      assert (Hpv : length (path_vels (Fermat.Leg h2 v2 Pm)) = (length ifs' - 1)%nat).
      { rewrite path_vels_length. rewrite path_sets_length in Hn. lia. }
      assert (Hifs'2 : (2 <= length ifs')%nat).
      { rewrite path_sets_length in Hn. cbn [Fermat.nlegs] in Hn. lia. }
      rewrite legs_time_snoc by (cbn [path_vels]; intros E; apply app_eq_nil in E; destruct E; discriminate).
      rewrite legs_time_prefix by (try assumption; lia).
      rewrite IH, Hpv.
      (* the last leg: from the point k of Pm to the point j of P *)
      assert (Hm : nth_error ifs' (length ifs' - 1) <> None) by (apply nth_error_Some; lia).
      destruct (nth_error ifs' (length ifs' - 1)) as [fm|] eqn:Efm; [|contradiction].
      assert (Hfm : if_points fm = Fermat.pts Pm).
      { assert (E1 : nth_error (map if_points ifs') (length ifs' - 1) = Some (if_points fm))
          by (rewrite nth_error_map, Efm; reflexivity).
        rewrite Hmap in E1. cbn [path_sets] in E1. rewrite map_app in E1.
        rewrite nth_error_app2 in E1 by (rewrite map_length; rewrite path_sets_length in Hn |- *; cbn [Fermat.nlegs] in Hn; lia).
        rewrite map_length in E1.
        replace (length ifs' - 1 - length (path_sets h2))%nat with 0%nat in E1
          by (rewrite path_sets_length in Hn |- *; cbn [Fermat.nlegs] in Hn; lia).
        cbn in E1. congruence. }
      assert (Hk : (k < Fermat.psize Pm)%nat).
      { (* the cost of the head is defined, so its last index is in range *)
        unfold Fermat.c_cost in Ec. rewrite Erev in Ec. cbn [Fermat.cost] in Ec.
        destruct more as [|k2 more2]; [discriminate Ec|].
        destruct (Nat.ltb_spec k (Fermat.psize Pm)) as [H|H]; [exact H | discriminate Ec]. }
      assert (Hs : ray_point (ifs' ++ [f]) (ray' ++ [j]) (length ifs' - 1) = Some (nth k (Fermat.pts Pm) (Fermat.origin NumR))).
      { rewrite ray_point_prefix by (try assumption; lia). unfold ray_point. rewrite Efm.
        assert (Ek : nth_error ray' (length ifs' - 1) = Some k).
        { rewrite Hray'. rewrite Hray', app_length in Hlen'. cbn [length] in Hlen'.
          rewrite nth_error_app2 by lia. replace (length ifs' - 1 - length (rev more))%nat with 0%nat by lia. reflexivity. }
        rewrite Ek, Hfm. apply nth_error_nth_default. exact Hk. }
      assert (El : inc_leg_size NumR (ifs' ++ [f]) (ray' ++ [j]) (Z.of_nat (S (length ifs' - 1)))
                   = Val (euclid (nth k (Fermat.pts Pm) (Fermat.origin NumR)) (nth j (Fermat.pts P) (Fermat.origin NumR)))).
      { apply inc_leg_size_nat.
        - rewrite !app_length. cbn [length]. lia.
        - rewrite app_length. cbn [length]. lia.
        - exact Hs.
        - replace (S (length ifs' - 1)) with (length ifs') by lia. exact He. }
      rewrite El. unfold Fermat.leg_entry. rewrite dist_euclid. reflexivity.
  Qed.

  (* ---- sum of leg / velocity = the solver's travel time ---------------------------------------- *)
  Theorem legs_sum_to_time_R (p : Fermat.cpath (T:=R)) r (ifs : list (iface (T:=R))) i j :
    FermatProofs.interior_ok Fermat.psize p -> Fermat.c_solve_pure NumR p = Some r ->
    map if_points ifs = map (Fermat.pts (T:=R)) (path_sets p) ->
    (i < Fermat.psize (Fermat.startp p))%nat -> (j < Fermat.psize (Fermat.endp p))%nat ->
    exists t, MinPlus.get2 (Fermat.r_times r) i j = Some t /\
              legs_time NumR ifs (Fermat.ray_of r i j) (path_vels p) = Some t /\
              hd 0%nat (Fermat.ray_of r i j) = i /\ last (Fermat.ray_of r i j) 0%nat = j.
  Proof.
    intros Hok Hsolve Hmap Hi Hj.
    destruct (FermatProofs.solve_realised_b R R R Fermat.pset Rle_bool Rlt_bool Rplus Fermat.psize
                (Fermat.distance_pairwise NumR) Rdiv (Fermat.leg_entry NumR)
                Rle_bool_total_preorder (FermatProofs.c_leg_tab NumR) p r i j Hok Hsolve Hi Hj)
      as (t & Ht & Hc & Hhd & Hlast & Hlen).
    exists t. split; [exact Ht|]. split; [|split; assumption].
    apply cost_is_legs_time; [exact Hmap | | exact Hc].
    rewrite Hlen. apply (f_equal (@length _)) in Hmap. rewrite !map_length, path_sets_length in Hmap. lia.
  Qed.
End Time.
