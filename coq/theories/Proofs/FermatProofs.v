(* Proofs/FermatProofs.v — lemmas about Model/Fermat.v (C01). Axiom-free.

   Part 1: table calculus (tables given by entry functions).
   Part 2: the solver with an ARBITRARY argmin choice `sel`, at function level (optT/optI),
           optimality and realisation (the Bellman step uses only monotonicity of add).
   Part 3: the model's kernel (cell1 = first strict minimiser) is such a choice, and the
           list-level solver solve_pure produces exactly the tables of optT/optI.
   Part 4: the caches (solver_grouping).   Part 5: reversal.
   Part 6: Rays.reverse and the bracket of the continuous problem.
   Part 7: the brute-force specification function `brute` is the minimum over all tuples. *)
From Coq Require Import Arith List Bool Lia.
From Arim Require Import Model.MinPlus Model.Fermat Proofs.MinPlusProofs.
Import ListNotations.

(* ---------- Part 1: tables ------------------------------------------------ *)
Lemma combine_map_same {A B C} (f : A -> B) (g : A -> C) l :
  combine (map f l) (map g l) = map (fun x => (f x, g x)) l.
Proof. induction l as [|x l IH]; simpl; auto. now rewrite IH. Qed.

Lemma tab_S {A} n m (f : nat -> nat -> A) :
  tab (S n) m f = map (fun j => f 0 j) (seq 0 m) :: tab n m (fun i => f (S i)).
Proof. unfold tab. simpl. f_equal. rewrite <- seq_shift, map_map. reflexivity. Qed.

Lemma repeat_map_seq {A} (x : A) p : repeat x p = map (fun _ => x) (seq 0 p).
Proof.
  generalize 0 as a. induction p as [|p IH]; intros a; simpl; auto. now rewrite (IH (S a)).
Qed.

Lemma transpose_tab {A} m p (g : nat -> nat -> A) :
  transpose p (tab m p g) = tab p m (fun j k => g k j).
Proof.
  revert g; induction m as [|m IH]; intros g.
  - unfold tab at 1. simpl. rewrite repeat_map_seq. reflexivity.
  - rewrite tab_S. simpl. rewrite IH. unfold tab.
    rewrite combine_map_same, map_map. apply map_ext. intros j. simpl.
    f_equal. rewrite <- seq_shift, map_map. reflexivity.
Qed.

Lemma all_some_map_Some {A B} (c : B -> A) l : all_some (map (fun x => Some (c x)) l) = Some (map c l).
Proof. induction l as [|x l IH]; simpl; auto. now rewrite IH. Qed.

Lemma all_some2_tab {A} n p (c : nat -> nat -> A) :
  all_some2 (tab n p (fun i j => Some (c i j))) = Some (tab n p c).
Proof.
  unfold all_some2, tab. rewrite map_map.
  rewrite (map_ext _ (fun i => Some (map (fun j => c i j) (seq 0 p)))).
  - apply all_some_map_Some.
  - intros i. apply all_some_map_Some.
Qed.

Lemma tab_map {A B} (f : A -> B) n p (c : nat -> nat -> A) :
  map (map f) (tab n p c) = tab n p (fun i j => f (c i j)).
Proof. unfold tab. rewrite map_map. apply map_ext. intros i. now rewrite map_map. Qed.

Lemma nth_map_seq {A} (f : nat -> A) m k d : k < m -> nth k (map f (seq 0 m)) d = f k.
Proof.
  intros H. rewrite (nth_indep _ d (f 0)) by now rewrite map_length, seq_length.
  rewrite (map_nth f (seq 0 m) 0 k). now rewrite seq_nth.
Qed.

Lemma expand_layer_tab n m p (fl kx : nat -> nat -> nat) :
  (forall i j, i < n -> j < p -> kx i j < m) ->
  expand_layer (tab n m fl) (tab n p kx) = tab n p (fun i j => fl i (kx i j)).
Proof.
  intros H. unfold expand_layer, tab. rewrite combine_map_same, map_map.
  apply map_ext_in. intros i Hi. apply in_seq in Hi. simpl.
  rewrite map_map. apply map_ext_in. intros j Hj. apply in_seq in Hj.
  apply nth_map_seq. apply H; lia.
Qed.

Lemma nth_tab {A} n m (f : nat -> nat -> A) i j d :
  i < n -> j < m -> nth j (nth i (tab n m f) []) d = f i j.
Proof. intros Hi Hj. unfold tab. rewrite nth_map_seq by exact Hi. now apply nth_map_seq. Qed.

(* ---------- Part 2: the solver with an ARBITRARY argmin choice, at function level ------ *)
(* `sel m h` chooses among the candidates h 0 .. h (m-1): it returns (value, index); the only
   thing assumed is that for m >= 1 the index is in range, the value is the candidate at that
   index, and it is <= every candidate.  The code's kernel (first strict minimiser) is one such
   choice (cell1 below); so is `<=` (last minimiser) or any other tie-breaking. *)
Section FermatGeneric.
  Variables T V PS : Type.
  Variable leb : T -> T -> bool.
  Variable add : T -> T -> T.
  Variable size : PS -> nat.
  Variable wf : PS -> V -> PS -> nat -> nat -> T.
  Variable sel : nat -> (nat -> T) -> T * nat.
  Hypothesis leb_refl : forall a, leb a a = true.
  Hypothesis leb_trans : forall a b c, leb a b = true -> leb b c = true -> leb a c = true.
  Hypothesis add_mono : forall a b c, leb a b = true -> leb (add a c) (add b c) = true.
  Hypothesis sel_spec : forall m h, 1 <= m ->
    snd (sel m h) < m
    /\ fst (sel m h) = h (snd (sel m h))
    /\ (forall k, k < m -> leb (fst (sel m h)) (h k) = true).

  Notation fpath := (@fpath V PS).
  Notation cost := (cost add size wf).

  (* time table, Bellman index and interior-index layers of the path (Leg h v P), as functions *)
  Fixpoint optT (h : fpath) (v : V) (P : PS) (i j : nat) : T :=
    match h with
    | Start P0 => wf P0 v P i j
    | Leg h' v' Pm => fst (sel (size Pm) (fun k => add (optT h' v' Pm i k) (wf Pm v P k j)))
    end.

  Definition kidx (h : fpath) (v : V) (P : PS) (i j : nat) : nat :=
    match h with
    | Start _ => 0
    | Leg h' v' Pm => snd (sel (size Pm) (fun k => add (optT h' v' Pm i k) (wf Pm v P k j)))
    end.

  Fixpoint optI (h : fpath) (v : V) (P : PS) : list (nat -> nat -> nat) :=
    match h with
    | Start _ => []
    | Leg h' v' Pm =>
        map (fun fl i j => fl i (kidx (Leg h' v' Pm) v P i j)) (optI h' v' Pm) ++ [kidx (Leg h' v' Pm) v P]
    end.

  Lemma optI_Leg h' v' Pm v P :
    optI (Leg h' v' Pm) v P
    = map (fun fl i j => fl i (kidx (Leg h' v' Pm) v P i j)) (optI h' v' Pm) ++ [kidx (Leg h' v' Pm) v P].
  Proof. reflexivity. Qed.

  (* every interior point set is non-empty *)
  Fixpoint interior_ok (p : fpath) : Prop :=
    match p with
    | Start _ => True
    | Leg h _ _ => match h with Start _ => True | Leg _ _ Pm => 1 <= size Pm /\ interior_ok h end
    end.

  Lemma kidx_lt h' v' Pm v P i j : 1 <= size Pm -> kidx (Leg h' v' Pm) v P i j < size Pm.
  Proof. intros H. simpl. now apply sel_spec. Qed.

  (* ---------- Part 3: optimality and realisation ------------------------- *)
  (* the ray reported for (i, j), LAST index first *)
  Fixpoint rayf (h : fpath) (v : V) (P : PS) (i j : nat) : list nat :=
    match h with
    | Start _ => [j; i]
    | Leg h' v' Pm => j :: rayf h' v' Pm i (kidx (Leg h' v' Pm) v P i j)
    end.

  Lemma rayf_shape h v P i j : exists k more, rayf h v P i j = j :: k :: more.
  Proof.
    destruct h as [P0|h' v' Pm]; simpl; [eauto|].
    destruct h' as [P0|h'' v'' Pm']; simpl; eauto.
  Qed.

  Lemma cost_hd_lt h v P j rest c : cost (Leg h v P) (j :: rest) = Some c -> j < size P.
  Proof.
    simpl. destruct rest as [|k more]; [discriminate|].
    destruct (j <? size P) eqn:E; [|discriminate]. intros _. now apply Nat.ltb_lt.
  Qed.

  Lemma cost_step h' v' Pm v P j k more :
    cost (Leg (Leg h' v' Pm) v P) (j :: k :: more)
    = if j <? size P
      then match cost (Leg h' v' Pm) (k :: more) with
           | Some c => Some (add c (wf Pm v P k j))
           | None => None
           end
      else None.
  Proof. reflexivity. Qed.

  Lemma realised_f h : forall v P i j, interior_ok (Leg h v P) ->
    i < size (startp h) -> j < size P ->
    cost (Leg h v P) (rayf h v P i j) = Some (optT h v P i j).
  Proof.
    induction h as [P0|h' IH v' Pm]; intros v P i j Hok Hi Hj.
    - simpl in *. apply Nat.ltb_lt in Hi, Hj. now rewrite Hi, Hj.
    - destruct Hok as [Hm Hok].
      set (kk := kidx (Leg h' v' Pm) v P i j).
      assert (Hkk : kk < size Pm) by (apply kidx_lt; exact Hm).
      specialize (IH v' Pm i kk Hok Hi Hkk).
      cbn [rayf]. fold kk.
      destruct (rayf_shape h' v' Pm i kk) as (k & more & Hs). rewrite Hs in *.
      rewrite cost_step. apply Nat.ltb_lt in Hj. rewrite Hj.
      rewrite IH. f_equal. cbn [optT].
      destruct (sel_spec (size Pm) (fun k0 => add (optT h' v' Pm i k0) (wf Pm v P k0 j)) Hm) as (_ & Hat & _).
      rewrite Hat. reflexivity.
  Qed.

  Lemma optimal_f h : forall v P ridx c, interior_ok (Leg h v P) ->
    cost (Leg h v P) ridx = Some c ->
    leb (optT h v P (last ridx 0) (hd 0 ridx)) c = true.
  Proof.
    induction h as [P0|h' IH v' Pm]; intros v P ridx c Hok Hc.
    - simpl in Hc. destruct ridx as [|j [|k more]]; try discriminate.
      destruct (j <? size P); [|discriminate]. destruct more; [|discriminate].
      destruct (k <? size P0); [|discriminate]. injection Hc as <-. simpl. apply leb_refl.
    - destruct Hok as [Hm Hok].
      destruct ridx as [|j [|k more]]; try discriminate.
      rewrite cost_step in Hc. destruct (j <? size P); [|discriminate].
      destruct (cost (Leg h' v' Pm) (k :: more)) as [c'|] eqn:Ec; [|discriminate].
      injection Hc as <-.
      pose proof (cost_hd_lt _ _ _ _ _ _ Ec) as Hk.
      specialize (IH v' Pm (k :: more) c' Hok Ec). cbn [hd] in IH.
      change (last (j :: k :: more) 0) with (last (k :: more) 0). cbn [hd optT].
      set (i := last (k :: more) 0) in *.
      destruct (sel_spec (size Pm) (fun k0 => add (optT h' v' Pm i k0) (wf Pm v P k0 j)) Hm) as (_ & _ & Hle).
      eapply leb_trans; [apply (Hle k Hk)|]. apply add_mono. exact IH.
  Qed.

  Lemma cost_last_lt h : forall v P ridx c,
    cost (Leg h v P) ridx = Some c -> last ridx 0 < size (startp h) /\ length ridx = S (S (nlegs h)).
  Proof.
    induction h as [P0|h' IH v' Pm]; intros v P ridx c Hc.
    - simpl in Hc. destruct ridx as [|j [|k more]]; try discriminate.
      destruct (j <? size P); [|discriminate]. destruct more; [|discriminate].
      destruct (k <? size P0) eqn:E; [|discriminate]. simpl. apply Nat.ltb_lt in E. auto.
    - destruct ridx as [|j [|k more]]; try discriminate.
      rewrite cost_step in Hc. destruct (j <? size P); [|discriminate].
      destruct (cost (Leg h' v' Pm) (k :: more)) as [c'|] eqn:Ec; [|discriminate].
      destruct (IH v' Pm (k :: more) c' Ec) as [H1 H2].
      change (last (j :: k :: more) 0) with (last (k :: more) 0). split; [exact H1|].
      cbn [length nlegs startp] in *. lia.
  Qed.

  Lemma rayf_optI h : forall v P i j,
    rayf h v P i j = j :: rev (map (fun fl => fl i j) (optI h v P)) ++ [i].
  Proof.
    induction h as [P0|h' IH v' Pm]; intros v P i j; [reflexivity|].
    cbn [rayf optI]. rewrite IH. f_equal.
    rewrite map_app, map_map. cbn [map]. rewrite rev_unit. reflexivity.
  Qed.

  Lemma ray_of_tab h v P i j : i < size (startp h) -> j < size P ->
    rev (ray_of (mkRays (tab (size (startp h)) (size P) (optT h v P))
                        (map (tab (size (startp h)) (size P)) (optI h v P))) i j)
    = rayf h v P i j.
  Proof.
    intros Hi Hj. unfold ray_of. cbn [r_int]. rewrite map_map.
    rewrite (map_ext _ (fun fl => fl i j)) by (intros fl; now apply nth_tab).
    rewrite rayf_optI. cbn [rev]. rewrite rev_unit. reflexivity.
  Qed.


  (* the answer of the solver that uses the choice `sel`: tables of optT / optI *)
  Definition solve_sel (h : fpath) (v : V) (P : PS) : rays T :=
    mkRays (tab (size (startp h)) (size P) (optT h v P))
           (map (tab (size (startp h)) (size P)) (optI h v P)).

  Theorem sel_optimal h v P ridx c : interior_ok (Leg h v P) ->
    cost (Leg h v P) ridx = Some c ->
    exists t, get2 (r_times (solve_sel h v P)) (last ridx 0) (hd 0 ridx) = Some t /\ leb t c = true.
  Proof.
    intros Hok Hc. cbn [solve_sel r_times].
    destruct (cost_last_lt h v P ridx c Hc) as [Hi _].
    assert (Hj : hd 0 ridx < size P).
    { destruct ridx as [|j rest]; [discriminate|]. simpl. eapply cost_hd_lt; eauto. }
    exists (optT h v P (last ridx 0) (hd 0 ridx)). split.
    - apply get2_tab; assumption.
    - now apply optimal_f.
  Qed.

  Theorem sel_realised h v P i j : interior_ok (Leg h v P) ->
    i < size (startp h) -> j < size P ->
    exists t, get2 (r_times (solve_sel h v P)) i j = Some t
              /\ cost (Leg h v P) (rev (ray_of (solve_sel h v P) i j)) = Some t
              /\ hd 0 (ray_of (solve_sel h v P) i j) = i /\ last (ray_of (solve_sel h v P) i j) 0 = j
              /\ length (ray_of (solve_sel h v P) i j) = S (S (nlegs h)).
  Proof.
    intros Hok Hi Hj. unfold solve_sel. cbn [r_times].
    exists (optT h v P i j). split; [now apply get2_tab|]. split.
    - rewrite ray_of_tab by assumption. now apply realised_f.
    - unfold ray_of. cbn [hd]. split; [reflexivity|]. split.
      + change (i :: ?l ++ [j]) with ((i :: l) ++ [j]). apply last_last.
      + pose proof (cost_last_lt h v P (rayf h v P i j) _ (realised_f h v P i j Hok Hi Hj)) as [_ Hl].
        rewrite <- (ray_of_tab h v P i j Hi Hj), rev_length in Hl. unfold ray_of in Hl.
        cbn [r_int] in Hl. cbn [r_int]. exact Hl.
  Qed.

  Theorem sel_shape h v P :
    length (r_times (solve_sel h v P)) = size (startp h)
    /\ (forall row, In row (r_times (solve_sel h v P)) -> length row = size P)
    /\ length (r_int (solve_sel h v P)) = nlegs h.
  Proof.
    unfold solve_sel. cbn [r_times r_int]. repeat split.
    - apply tab_length.
    - intros row. apply tab_row_length.
    - rewrite map_length. revert v P. induction h as [P0|h' IH v' Pm]; intros v P; simpl; auto.
      rewrite app_length, map_length, IH. simpl. lia.
  Qed.
End FermatGeneric.

Arguments interior_ok {V PS}.

(* ---------- Part 3: the model's kernel is one such choice; what solve_pure computes ------ *)
Section FermatProofs.
  Variables T D V PS : Type.
  Variable leb ltb : T -> T -> bool.
  Variable add : T -> T -> T.
  Variable size : PS -> nat.
  Variable dtab : PS -> PS -> list (list D).
  Variable divv : D -> V -> T.
  Variable wf : PS -> V -> PS -> nat -> nat -> T.
  Hypothesis leb_refl : forall a, leb a a = true.
  Hypothesis leb_trans : forall a b c, leb a b = true -> leb b c = true -> leb a c = true.
  Hypothesis leb_total : forall a b, leb a b = true \/ leb b a = true.
  Hypothesis ltb_leb : forall a b, ltb a b = negb (leb b a).
  Hypothesis add_mono : forall a b c, leb a b = true -> leb (add a c) (add b c) = true.
  (* the leg table is the table of the entry function wf:
     distance_pairwise(P, Q)[i, j] / v = wf P v Q i j *)
  Hypothesis leg_tab : forall P v Q, leg_times divv (dtab P Q) v = tab (size P) (size Q) (wf P v Q).

  Notation fpath := (@fpath V PS).
  Notation solve_pure := (solve_pure ltb add size dtab divv).
  Notation cost := (cost add size wf).

  (* the min-plus cell on candidates h 0 .. h (m-1); total (h 0 is the junk value for m = 0) *)
  Definition cell1 (m : nat) (h : nat -> T) : T * nat :=
    match scan_list ltb 1 (map h (seq 1 (m - 1))) (Some (h 0, 0)) with
    | Some r => r
    | None => (h 0, 0)
    end.

  Lemma scan_list_from_some l : forall k0 a, exists r, scan_list ltb k0 l (Some a) = Some r.
  Proof.
    induction l as [|x l IH]; intros k0 a; simpl; [eauto|].
    destruct a as [b kb]. destruct (ltb x b); apply IH.
  Qed.

  Lemma cellf_cell1 m h : 1 <= m ->
    scan_list ltb 0 (map h (seq 0 m)) None = Some (cell1 m h).
  Proof.
    intros Hm. destruct m as [|m]; [lia|]. unfold cell1. simpl. rewrite Nat.sub_0_r.
    destruct (scan_list_from_some (map h (seq 1 m)) 1 (h 0, 0)) as [r Hr]. now rewrite Hr.
  Qed.

  Lemma cell1_spec m h : 1 <= m ->
    snd (cell1 m h) < m
    /\ fst (cell1 m h) = h (snd (cell1 m h))
    /\ (forall k, k < m -> leb (fst (cell1 m h)) (h k) = true)
    /\ (forall k, k < snd (cell1 m h) -> ltb (fst (cell1 m h)) (h k) = true).
  Proof.
    intros Hm.
    pose proof (scan_list_best T leb ltb leb_refl leb_trans leb_total ltb_leb (map h (seq 0 m))) as H.
    rewrite cellf_cell1 in H by exact Hm. destruct (cell1 m h) as [b kb]. simpl in *.
    destruct H as (Hat & Hle & Hlt).
    assert (Hkb : kb < m).
    { assert (kb < length (map h (seq 0 m))) by (apply nth_error_Some; congruence).
      now rewrite map_length, seq_length in H. }
    rewrite nth_error_map', nth_error_seq in Hat by exact Hkb. simpl in Hat. injection Hat as Hat.
    repeat split; auto.
    - intros k Hk. apply (Hle k). now rewrite nth_error_map', nth_error_seq.
    - intros k Hk. apply (Hlt k (h k) Hk). rewrite nth_error_map', nth_error_seq by lia. reflexivity.
  Qed.


  Lemma cell1_sel m h : 1 <= m ->
    snd (cell1 m h) < m
    /\ fst (cell1 m h) = h (snd (cell1 m h))
    /\ (forall k, k < m -> leb (fst (cell1 m h)) (h k) = true).
  Proof. intros Hm. destruct (cell1_spec m h Hm) as (H1 & H2 & H3 & _). auto. Qed.

  Notation optT := (optT T V PS add size wf cell1).
  Notation optI := (optI T V PS add size wf cell1).
  Notation kidx := (kidx T V PS add size wf cell1).
  Notation interior_ok := (interior_ok size).

  Lemma kidx_lt_m h' v' Pm v P i j : 1 <= size Pm -> kidx (Leg h' v' Pm) v P i j < size Pm.
  Proof. intros H. eapply kidx_lt; eauto using cell1_sel. Qed.

  Theorem solve_pure_tab h : forall v P, interior_ok (Leg h v P) ->
    solve_pure (Leg h v P)
    = Some (mkRays (tab (size (startp h)) (size P) (optT h v P))
                   (map (tab (size (startp h)) (size P)) (optI h v P))).
  Proof.
    induction h as [P0|h' IH v' Pm]; intros v P Hok.
    - simpl. unfold two_interfaces. now rewrite leg_tab.
    - change (solve_pure (Leg (Leg h' v' Pm) v P)) with
        (match solve_pure (Leg h' v' Pm) with
         | None => None
         | Some rh =>
             match find_minimum_times ltb add (size Pm) (r_times rh)
                     (transpose (size P) (leg_times divv (dtab Pm P) v)) with
             | None => None
             | Some ti => Some (mkRays (fst ti) (expand_rays (r_int rh) (snd ti)))
             end
         end).
      destruct Hok as [Hm Hok]. rewrite (IH v' Pm Hok). cbn [r_times r_int].
      rewrite leg_tab, transpose_tab. unfold find_minimum_times.
      destruct (size Pm =? 0) eqn:E; [apply Nat.eqb_eq in E; lia|].
      rewrite minplus_tab.
      rewrite (tab_ext _ _ _ (fun i j => Some (cell1 (size Pm)
                 (fun k => add (optT h' v' Pm i k) (wf Pm v P k j))))).
      2:{ intros i j _ _. now apply cellf_cell1. }
      rewrite all_some2_tab. cbn [fst snd]. rewrite !tab_map. f_equal. f_equal.
      unfold expand_rays. cbn [startp]. rewrite (optI_Leg T V PS add size wf cell1). rewrite map_app, !map_map. f_equal.
      apply map_ext. intros fl. apply expand_layer_tab.
      intros i j _ _. apply (kidx_lt_m h' v' Pm v P i j Hm).
  Qed.


  Lemma solve_pure_sel h v P : interior_ok (Leg h v P) ->
    solve_pure (Leg h v P) = Some (solve_sel T V PS add size wf cell1 h v P).
  Proof. exact (solve_pure_tab h v P). Qed.

  (* ---- statements about the list-level solver ---------------------------- *)
  Theorem solve_pure_defined p : 1 <= nlegs p -> interior_ok p -> exists r, solve_pure p = Some r.
  Proof.
    destruct p as [P0|h v P]; [simpl; lia|]. intros _ Hok. rewrite (solve_pure_tab h v P Hok). eauto.
  Qed.

  Theorem solve_shape p r : interior_ok p -> solve_pure p = Some r ->
    length (r_times r) = size (startp p)
    /\ (forall row, In row (r_times r) -> length row = size (endp p))
    /\ length (r_int r) = nlegs p - 1.
  Proof.
    destruct p as [P0|h v P]; [discriminate|]. intros Hok E.
    rewrite (solve_pure_sel h v P Hok) in E. injection E as <-. cbn [startp endp nlegs].
    replace (S (nlegs h) - 1) with (nlegs h) by lia. apply sel_shape.
  Qed.

  Theorem solve_optimal_lemma p r ridx c : interior_ok p -> solve_pure p = Some r ->
    cost p ridx = Some c ->
    exists t, get2 (r_times r) (last ridx 0) (hd 0 ridx) = Some t /\ leb t c = true.
  Proof.
    destruct p as [P0|h v P]; [discriminate|]. intros Hok E Hc.
    rewrite (solve_pure_sel h v P Hok) in E. injection E as <-.
    eapply sel_optimal; eauto using cell1_sel.
  Qed.

  Theorem solve_realised_lemma p r i j : interior_ok p -> solve_pure p = Some r ->
    i < size (startp p) -> j < size (endp p) ->
    exists t, get2 (r_times r) i j = Some t
              /\ cost p (rev (ray_of r i j)) = Some t
              /\ hd 0 (ray_of r i j) = i /\ last (ray_of r i j) 0 = j
              /\ length (ray_of r i j) = S (nlegs p).
  Proof.
    destruct p as [P0|h v P]; [discriminate|]. intros Hok E Hi Hj. cbn [startp endp] in *.
    rewrite (solve_pure_sel h v P Hok) in E. injection E as <-. cbn [nlegs].
    eapply sel_realised; eauto using cell1_sel.
  Qed.
End FermatProofs.

(* ---------- the concrete instance satisfies the leg-table hypothesis ---------- *)
Lemma map_as_seq {A B} (f : A -> B) (l : list A) (d : A) :
  map f l = map (fun i => f (nth i l d)) (seq 0 (length l)).
Proof.
  induction l as [|x l IH]; simpl; auto. f_equal.
  rewrite <- seq_shift, map_map. exact IH.
Qed.

Lemma c_leg_tab {T} (N : Base.Num.Num T) (P : pset) (v : T) (Q : pset) :
  leg_times (Base.Num.ndiv N) (distance_pairwise N P Q) v
  = tab (psize P) (psize Q) (leg_entry N P v Q).
Proof.
  unfold leg_times, distance_pairwise, tab, psize, leg_entry.
  rewrite map_map. rewrite (map_as_seq _ (pts P) (origin N)). apply map_ext. intros i.
  rewrite map_map. rewrite (map_as_seq _ (pts Q) (origin N)). reflexivity.
Qed.

(* ---------- Part 4: the caches (solver_grouping) ---------------------------- *)
Section Grouping.
  Variables T D V PS : Type.
  Variable ltb : T -> T -> bool.
  Variable add : T -> T -> T.
  Variable ps_eqb : PS -> PS -> bool.
  Variable v_eqb : V -> V -> bool.
  Variable size : PS -> nat.
  Variable dtab : PS -> PS -> list (list D).
  Variable divv : D -> V -> T.
  (* identity of Points objects is an equivalence deciding equality of the objects;
     float == is only needed to be sound (nan != nan just causes a cache miss) *)
  Hypothesis ps_eqb_spec : forall a b, ps_eqb a b = true <-> a = b.
  Hypothesis v_eqb_sound : forall a b, v_eqb a b = true -> a = b.

  Notation fpath := (@fpath V PS).
  Notation solve_pure := (solve_pure ltb add size dtab divv).
  Notation solve_st := (solve_st ltb add ps_eqb v_eqb size dtab divv).
  Notation solve_one := (solve_one ps_eqb v_eqb size dtab divv).
  Notation solve_all := (solve_all ltb add ps_eqb v_eqb size dtab divv).
  Notation state := (state T D V PS).

  Lemma fpath_eqb_eq (a b : fpath) : fpath_eqb ps_eqb v_eqb a b = true -> a = b.
  Proof.
    revert b; induction a as [P|h IH v P]; intros [Q|h' v' Q]; simpl; try discriminate.
    - intros H. apply ps_eqb_spec in H. now subst.
    - intros H. apply andb_prop in H as [H H3]. apply andb_prop in H as [H1 H2].
      apply IH in H1. apply v_eqb_sound in H2. apply ps_eqb_spec in H3. now subst.
  Qed.

  Lemma dkey_eqb_eq (a b : PS * PS) : dkey_eqb ps_eqb a b = true <-> a = b.
  Proof.
    destruct a as [a1 a2], b as [b1 b2]. unfold dkey_eqb. simpl. rewrite andb_true_iff, !ps_eqb_spec.
    split; [intros [-> ->]; reflexivity | intros [= -> ->]; auto].
  Qed.

  (* every cache entry equals the stand-alone solution of its key *)
  Definition inv (st : state) : Prop :=
    (forall k r, lookup_r ps_eqb v_eqb k (fst st) = Some r -> solve_pure k = Some r)
    /\ (forall k d, lookup_d ps_eqb k (snd st) = Some d -> d = dtab (fst k) (snd k)).

  Lemma inv_empty : inv ([], []).
  Proof. split; intros k x H; discriminate. Qed.

  Lemma consecutive_times_ok p1 v p2 (dc : dcache D PS) :
    (forall k d, lookup_d ps_eqb k dc = Some d -> d = dtab (fst k) (snd k)) ->
    fst (consecutive_times ps_eqb size dtab divv p1 v p2 dc) = two_interfaces (leg_times divv (dtab p1 p2) v)
    /\ (forall k d, lookup_d ps_eqb k (snd (consecutive_times ps_eqb size dtab divv p1 v p2 dc)) = Some d ->
                    d = dtab (fst k) (snd k)).
  Proof.
    intros Hd. unfold consecutive_times.
    destruct (lookup_d ps_eqb (p1, p2) dc) as [d|] eqn:E.
    - apply Hd in E. simpl in E. subst d. split; [reflexivity|exact Hd].
    - (* the `rkey` slip: key == rkey, so the transposed copy is never stored *)
      assert (Hk : dkey_eqb ps_eqb (p1, p2) (p1, p2) = true) by now apply dkey_eqb_eq.
      rewrite Hk. simpl. split; [reflexivity|].
      intros k d. destruct (dkey_eqb ps_eqb k (p1, p2)) eqn:Ek.
      + apply dkey_eqb_eq in Ek. subst k. intros [= <-]. reflexivity.
      + apply Hd.
  Qed.

  Lemma solve_one_ok P0 v P (st : state) : inv st ->
    solve_pure (Leg (Start P0) v P) = Some (fst (solve_one P0 v P st)) /\ inv (snd (solve_one P0 v P st)).
  Proof.
    intros [Hr Hd]. unfold solve_one.
    destruct (lookup_r ps_eqb v_eqb (Leg (Start P0) v P) (fst st)) as [r|] eqn:E.
    - cbn [fst snd]. split; [now apply Hr | now split].
    - destruct (consecutive_times_ok P0 v P (snd st) Hd) as [H1 H2]. cbn [fst snd]. rewrite H1.
      split; [reflexivity|]. split; cbn [fst snd]; assumption.
  Qed.

  Lemma solve_pure_step h' v' Pm v P :
    solve_pure (Leg (Leg h' v' Pm) v P)
    = match solve_pure (Leg h' v' Pm) with
      | None => None
      | Some rh =>
          match find_minimum_times ltb add (size Pm) (r_times rh)
                  (transpose (size P) (leg_times divv (dtab Pm P) v)) with
          | None => None
          | Some ti => Some (mkRays (fst ti) (expand_rays (r_int rh) (snd ti)))
          end
      end.
  Proof. reflexivity. Qed.

  Lemma solve_st_step h' v' Pm v P (st : state) :
    solve_st (Leg (Leg h' v' Pm) v P) st
    = match lookup_r ps_eqb v_eqb (Leg (Leg h' v' Pm) v P) (fst st) with
      | Some r => Some (r, st)
      | None =>
          match solve_st (Leg h' v' Pm) st with
          | None => None
          | Some (rh, st1) =>
              let rt := solve_one Pm v P st1 in
              let st2 := snd rt in
              match find_minimum_times ltb add (size Pm) (r_times rh)
                      (transpose (size P) (r_times (fst rt))) with
              | None => None
              | Some ti =>
                  let res := mkRays (fst ti) (expand_rays (r_int rh) (snd ti)) in
                  Some (res, ((Leg (Leg h' v' Pm) v P, res) :: fst st2, snd st2))
              end
          end
      end.
  Proof. reflexivity. Qed.

  Lemma solve_st_ok (p : fpath) : forall st, inv st ->
    match solve_st p st with
    | Some (r, st') => solve_pure p = Some r /\ inv st'
    | None => solve_pure p = None
    end.
  Proof.
    induction p as [P0|h IH v P]; intros st Hinv; [reflexivity|].
    destruct h as [P0|h' v' Pm].
    - cbn [Fermat.solve_st]. destruct (solve_one_ok P0 v P st Hinv) as [H1 H2].
      destruct (solve_one P0 v P st) as [r st']. simpl in *. auto.
    - rewrite solve_st_step, solve_pure_step.
      destruct (lookup_r ps_eqb v_eqb (Leg (Leg h' v' Pm) v P) (fst st)) as [r|] eqn:E.
      + destruct Hinv as [Hr Hd]. split; [|now split]. rewrite <- solve_pure_step. now apply Hr.
      + specialize (IH st Hinv).
        destruct (solve_st (Leg h' v' Pm) st) as [[rh st1]|]; [|now rewrite IH].
        destruct IH as [IH1 Hinv1]. rewrite IH1.
        destruct (solve_one_ok Pm v P st1 Hinv1) as [H1 H2].
        destruct (solve_one Pm v P st1) as [rt st2]. cbn [fst snd] in *.
        assert (Ert : r_times rt = leg_times divv (dtab Pm P) v).
        { cbn in H1. injection H1 as <-. reflexivity. }
        rewrite Ert.
        destruct (find_minimum_times ltb add (size Pm) (r_times rh)
                    (transpose (size P) (leg_times divv (dtab Pm P) v))) as [ti|] eqn:Ef; [|reflexivity].
        split; [reflexivity|]. destruct H2 as [Hr2 Hd2]. split; [|exact Hd2].
        intros k r. cbn [fst lookup_r].
        destruct (fpath_eqb ps_eqb v_eqb k (Leg (Leg h' v' Pm) v P)) eqn:Ek.
        * apply fpath_eqb_eq in Ek. subst k. intros [= <-].
          rewrite solve_pure_step, IH1, Ef. reflexivity.
        * apply Hr2.
  Qed.

  (* solving a list of paths with one solver = solving each path alone
     (same values, same error behaviour), whatever the list and its order *)
  Theorem solve_all_alone (ps : list fpath) : forall st, inv st ->
    solve_all ps st = all_some (map (fun p => option_map (fun r => (p, r)) (solve_pure p)) ps).
  Proof.
    induction ps as [|p ps IH]; intros st Hinv; [reflexivity|].
    cbn [Fermat.solve_all map]. pose proof (solve_st_ok p st Hinv) as H.
    destruct (solve_st p st) as [[r st']|].
    - destruct H as [H1 H2]. rewrite H1. cbn [option_map all_some]. rewrite (IH st' H2). reflexivity.
    - rewrite H. reflexivity.
  Qed.

  Theorem solver_grouping_lemma (ps : list fpath) :
    solver_solve ltb add ps_eqb v_eqb size dtab divv ps
    = all_some (map (fun p => option_map (fun r => (p, r)) (solve_pure p)) ps).
  Proof. apply solve_all_alone. apply inv_empty. Qed.
End Grouping.

(* ---------- bundled statements (used by Props/C01.v) -------------------------- *)
(* the leg table is the table of the entry function wf *)
Definition leg_model {T D V PS} (size : PS -> nat) (dtab : PS -> PS -> list (list D))
           (divv : D -> V -> T) (wf : PS -> V -> PS -> nat -> nat -> T) : Prop :=
  forall P v Q, leg_times divv (dtab P Q) v = tab (size P) (size Q) (wf P v Q).

Section Bundled.
  Variables T D V PS : Type.
  Variable leb ltb : T -> T -> bool.
  Variable add : T -> T -> T.
  Variable size : PS -> nat.
  Variable dtab : PS -> PS -> list (list D).
  Variable divv : D -> V -> T.
  Variable wf : PS -> V -> PS -> nat -> nat -> T.
  Hypothesis Hord : total_preorder leb ltb.
  Hypothesis Hmono : monotone_add leb add.
  Hypothesis Hleg : leg_model size dtab divv wf.

  Lemma solve_optimal_b (p : @fpath V PS) r ridx c :
    interior_ok size p -> solve_pure ltb add size dtab divv p = Some r ->
    cost add size wf p ridx = Some c ->
    exists t, get2 (r_times r) (last ridx 0) (hd 0 ridx) = Some t /\ leb t c = true.
  Proof.
    destruct Hord as (H1 & H2 & H3 & H4).
    exact (solve_optimal_lemma T D V PS leb ltb add size dtab divv wf H1 H2 H3 H4 Hmono Hleg p r ridx c).
  Qed.

  Lemma solve_realised_b (p : @fpath V PS) r i j :
    interior_ok size p -> solve_pure ltb add size dtab divv p = Some r ->
    i < size (startp p) -> j < size (endp p) ->
    exists t, get2 (r_times r) i j = Some t
              /\ cost add size wf p (rev (ray_of r i j)) = Some t
              /\ hd 0 (ray_of r i j) = i /\ last (ray_of r i j) 0 = j
              /\ length (ray_of r i j) = S (nlegs p).
  Proof.
    destruct Hord as (H1 & H2 & H3 & H4).
    exact (solve_realised_lemma T D V PS leb ltb add size dtab divv wf H1 H2 H3 H4 Hleg p r i j).
  Qed.

  Lemma solve_defined_b (p : @fpath V PS) :
    1 <= nlegs p -> interior_ok size p -> exists r, solve_pure ltb add size dtab divv p = Some r.
  Proof.
    destruct Hord as (H1 & H2 & H3 & H4).
    exact (solve_pure_defined T D V PS leb ltb add size dtab divv wf H1 H2 H3 H4 Hleg p).
  Qed.

  Lemma solve_shape_b (p : @fpath V PS) r :
    interior_ok size p -> solve_pure ltb add size dtab divv p = Some r ->
    length (r_times r) = size (startp p)
    /\ (forall row, In row (r_times r) -> length row = size (endp p))
    /\ length (r_int r) = nlegs p - 1.
  Proof.
    destruct Hord as (H1 & H2 & H3 & H4).
    exact (solve_shape T D V PS leb ltb add size dtab divv wf H1 H2 H3 H4 Hleg p r).
  Qed.
End Bundled.

(* ---------- Part 5: reversal ---------------------------------------------------- *)
Lemma last_rev_cons {A} (k : A) more d : last (rev (k :: more)) d = k.
Proof. simpl. apply last_last. Qed.

Lemma hd_rev {A} (l : list A) d : hd d (rev l) = last l d.
Proof.
  induction l as [|x l IH] using rev_ind; [reflexivity|].
  rewrite rev_unit, last_last. reflexivity.
Qed.

Lemma last_rev {A} (l : list A) d : last (rev l) d = hd d l.
Proof. destruct l as [|x l]; [reflexivity|]. apply last_rev_cons. Qed.

Section PathReverse.
  Variables V PS : Type.
  Notation fpath := (@fpath V PS).

  Lemma startp_prepend P0 v (q : fpath) : startp (prepend P0 v q) = P0.
  Proof. induction q as [P|h IH v' P]; simpl; auto. Qed.

  Lemma endp_prepend P0 v (q : fpath) : endp (prepend P0 v q) = endp q.
  Proof. destruct q; reflexivity. Qed.

  Lemma startp_reverse (p : fpath) : startp (path_reverse p) = endp p.
  Proof. destruct p as [P|h v P]; simpl; [reflexivity|apply startp_prepend]. Qed.

  Lemma endp_reverse (p : fpath) : endp (path_reverse p) = startp p.
  Proof.
    induction p as [P|h IH v P]; simpl; [reflexivity|]. now rewrite endp_prepend.
  Qed.

  Lemma reverse_prepend P0 v (q : fpath) : path_reverse (prepend P0 v q) = Leg (path_reverse q) v P0.
  Proof. induction q as [P|h IH v' P]; simpl; [reflexivity|]. now rewrite IH. Qed.

  Lemma path_reverse_involutive (p : fpath) : path_reverse (path_reverse p) = p.
  Proof. induction p as [P|h IH v P]; simpl; [reflexivity|]. now rewrite reverse_prepend, IH. Qed.

  Lemma nlegs_prepend P0 v (q : fpath) : nlegs (prepend P0 v q) = S (nlegs q).
  Proof. induction q as [P|h IH v' P]; simpl; auto. Qed.

  Lemma nlegs_reverse (p : fpath) : nlegs (path_reverse p) = nlegs p.
  Proof. induction p as [P|h IH v P]; simpl; [reflexivity|]. now rewrite nlegs_prepend, IH. Qed.
End PathReverse.

Section CostReverse.
  Variables T V PS : Type.
  Variable add : T -> T -> T.
  Variable size : PS -> nat.
  Variable wf : PS -> V -> PS -> nat -> nat -> T.
  (* ordered commutative monoid (exact arithmetic) and symmetric distance *)
  Hypothesis add_assoc : forall a b c, add a (add b c) = add (add a b) c.
  Hypothesis add_comm : forall a b, add a b = add b a.
  Hypothesis wf_sym : forall P v Q i j, wf P v Q i j = wf Q v P j i.

  Notation fpath := (@fpath V PS).
  Notation cost := (cost add size wf).

  Lemma cost_step' h' v' Pm v P j k more :
    cost (Leg (Leg h' v' Pm) v P) (j :: k :: more)
    = if j <? size P
      then match cost (Leg h' v' Pm) (k :: more) with
           | Some c => Some (add c (wf Pm v P k j))
           | None => None
           end
      else None.
  Proof. reflexivity. Qed.

  Lemma cost_prepend (q : fpath) : forall P0 v ridx c i0,
    cost q ridx = Some c -> i0 < size P0 ->
    cost (prepend P0 v q) (ridx ++ [i0]) = Some (add (wf P0 v (startp q) i0 (last ridx 0)) c).
  Proof.
    induction q as [P|h IH v' Q]; intros P0 v ridx c i0 Hc Hi0; [discriminate|].
    destruct h as [Q0|h'' v'' Pm].
    - simpl in Hc. destruct ridx as [|j [|k more]]; try discriminate.
      destruct (j <? size Q) eqn:Ej; [|discriminate]. destruct more; [|discriminate].
      destruct (k <? size Q0) eqn:Ek; [|discriminate]. injection Hc as <-.
      apply Nat.ltb_lt in Hi0. simpl. now rewrite Ej, Ek, Hi0.
    - destruct ridx as [|j [|k more]]; try discriminate.
      rewrite cost_step' in Hc. destruct (j <? size Q) eqn:Ej; [|discriminate].
      destruct (cost (Leg h'' v'' Pm) (k :: more)) as [c'|] eqn:Ec; [|discriminate].
      injection Hc as <-.
      specialize (IH P0 v (k :: more) c' i0 Ec Hi0).
      change (prepend P0 v (Leg (Leg h'' v'' Pm) v' Q)) with (Leg (Leg (prepend P0 v h'') v'' Pm) v' Q).
      change ((j :: k :: more) ++ [i0]) with (j :: k :: (more ++ [i0])).
      rewrite cost_step', Ej.
      change (Leg (prepend P0 v h'') v'' Pm) with (prepend P0 v (Leg h'' v'' Pm)).
      change (k :: more ++ [i0]) with ((k :: more) ++ [i0]). rewrite IH.
      change (last (j :: k :: more) 0) with (last (k :: more) 0).
      cbn [startp]. now rewrite add_assoc.
  Qed.

  Lemma cost_reverse (p : fpath) : forall ridx c,
    cost p ridx = Some c -> cost (path_reverse p) (rev ridx) = Some c.
  Proof.
    induction p as [P|h IH v P]; intros ridx c Hc; [discriminate|].
    destruct h as [P0|h' v' Pm].
    - simpl in Hc. destruct ridx as [|j [|k more]]; try discriminate.
      destruct (j <? size P) eqn:Ej; [|discriminate]. destruct more; [|discriminate].
      destruct (k <? size P0) eqn:Ek; [|discriminate]. injection Hc as <-.
      simpl. rewrite Ek, Ej. now rewrite wf_sym.
    - destruct ridx as [|j [|k more]]; try discriminate.
      rewrite cost_step' in Hc. destruct (j <? size P) eqn:Ej; [|discriminate].
      destruct (cost (Leg h' v' Pm) (k :: more)) as [c'|] eqn:Ec; [|discriminate].
      injection Hc as <-. apply Nat.ltb_lt in Ej.
      specialize (IH (k :: more) c' Ec).
      change (path_reverse (Leg (Leg h' v' Pm) v P)) with (prepend P v (path_reverse (Leg h' v' Pm))).
      change (rev (j :: k :: more)) with (rev (k :: more) ++ [j]).
      rewrite (cost_prepend _ P v _ c' j IH Ej).
      rewrite startp_reverse, last_rev_cons. cbn [endp].
      now rewrite (wf_sym P v Pm j k), add_comm.
  Qed.
End CostReverse.

Section InteriorReverse.
  Variables V PS : Type.
  Variable size : PS -> nat.
  Notation fpath := (@fpath V PS).

  Lemma interior_ok_prepend P0 v (q : fpath) :
    interior_ok size (prepend P0 v q) <-> interior_ok size q /\ (1 <= nlegs q -> 1 <= size (startp q)).
  Proof.
    induction q as [P|h IH v' P].
    - simpl. split; [intros _; split; [exact I | intros H; inversion H] | intros _; exact I].
    - destruct h as [Q|h2 v2 Pm].
      + simpl. split.
        * intros [H _]. split; [exact I | intros _; exact H].
        * intros [_ H]. split; [apply H; auto | exact I].
      + change (prepend P0 v (Leg (Leg h2 v2 Pm) v' P)) with (Leg (Leg (prepend P0 v h2) v2 Pm) v' P).
        change (interior_ok size (Leg (Leg (prepend P0 v h2) v2 Pm) v' P))
          with (1 <= size Pm /\ interior_ok size (prepend P0 v (Leg h2 v2 Pm))).
        change (interior_ok size (Leg (Leg h2 v2 Pm) v' P))
          with (1 <= size Pm /\ interior_ok size (Leg h2 v2 Pm)).
        rewrite IH. cbn [nlegs startp]. split.
        * intros (H1 & H2 & H3). repeat split; auto; intros _; apply H3, le_n_S, Nat.le_0_l.
        * intros ((H1 & H2) & H3). repeat split; auto; intros _; apply H3, le_n_S, Nat.le_0_l.
  Qed.

  Lemma interior_ok_reverse (p : fpath) : interior_ok size (path_reverse p) <-> interior_ok size p.
  Proof.
    induction p as [P|h IH v P]; [reflexivity|].
    change (path_reverse (Leg h v P)) with (prepend P v (path_reverse h)).
    rewrite interior_ok_prepend, IH, nlegs_reverse, startp_reverse.
    destruct h as [Q|h2 v2 Pm].
    - simpl. split; [intros _; exact I | intros _; split; [exact I | intros H; inversion H]].
    - change (interior_ok size (Leg (Leg h2 v2 Pm) v P)) with (1 <= size Pm /\ interior_ok size (Leg h2 v2 Pm)).
      cbn [nlegs endp]. split.
      + intros [H1 H2]. split; [apply H2, le_n_S, Nat.le_0_l | exact H1].
      + intros [H1 H2]. split; [exact H2 | intros _; exact H1].
  Qed.
End InteriorReverse.

Section SolveReverse.
  Variables T D V PS : Type.
  Variable leb ltb : T -> T -> bool.
  Variable add : T -> T -> T.
  Variable size : PS -> nat.
  Variable dtab : PS -> PS -> list (list D).
  Variable divv : D -> V -> T.
  Variable wf : PS -> V -> PS -> nat -> nat -> T.
  Hypothesis Hord : total_preorder leb ltb.
  Hypothesis Hmono : monotone_add leb add.
  Hypothesis Hleg : leg_model size dtab divv wf.
  Hypothesis add_assoc : forall a b c, add a (add b c) = add (add a b) c.
  Hypothesis add_comm : forall a b, add a b = add b a.
  Hypothesis wf_sym : forall P v Q i j, wf P v Q i j = wf Q v P j i.

  Notation solve_pure := (solve_pure ltb add size dtab divv).
  Notation cost := (cost add size wf).

  Lemma reverse_le (p : @fpath V PS) r r' i j :
    interior_ok size p -> interior_ok size (path_reverse p) ->
    solve_pure p = Some r -> solve_pure (path_reverse p) = Some r' ->
    i < size (startp p) -> j < size (endp p) ->
    exists t t', get2 (r_times r) i j = Some t /\ get2 (r_times r') j i = Some t' /\ leb t' t = true.
  Proof.
    intros Hok Hok' E E' Hi Hj.
    destruct (solve_realised_b T D V PS leb ltb add size dtab divv wf Hord Hleg p r i j Hok E Hi Hj)
      as (t & Ht & Hc & Hhd & Hlast & _).
    apply (cost_reverse T V PS add size wf add_assoc add_comm wf_sym) in Hc. rewrite rev_involutive in Hc.
    destruct (solve_optimal_b T D V PS leb ltb add size dtab divv wf Hord Hmono Hleg _ r' _ t Hok' E' Hc)
      as (t' & Ht' & Hle).
    rewrite Hhd, Hlast in Ht'. eauto.
  Qed.

  Theorem solve_reverse_lemma (p : @fpath V PS) r r' i j :
    interior_ok size p ->
    solve_pure p = Some r -> solve_pure (path_reverse p) = Some r' ->
    i < size (startp p) -> j < size (endp p) ->
    exists t t', get2 (r_times r) i j = Some t /\ get2 (r_times r') j i = Some t'
                 /\ leb t t' = true /\ leb t' t = true.
  Proof.
    intros Hok E E' Hi Hj.
    assert (Hok' : interior_ok size (path_reverse p)) by now apply interior_ok_reverse.
    destruct (reverse_le p r r' i j Hok Hok' E E' Hi Hj) as (t & t' & Ht & Ht' & Hle).
    assert (Hok'' : interior_ok size (path_reverse (path_reverse p))) by now rewrite path_reverse_involutive.
    assert (E'' : solve_pure (path_reverse (path_reverse p)) = Some r) by now rewrite path_reverse_involutive.
    assert (Hj' : j < size (startp (path_reverse p))) by now rewrite startp_reverse.
    assert (Hi' : i < size (endp (path_reverse p))) by now rewrite endp_reverse.
    destruct (reverse_le (path_reverse p) r' r j i Hok' Hok'' E' E'' Hj' Hi') as (s' & s & Hs' & Hs & Hle').
    rewrite Ht' in Hs'. injection Hs' as <-. rewrite Ht in Hs. injection Hs as <-.
    exists t, t'. auto.
  Qed.

  (* with an antisymmetric order (R, Z, Q in normal form): equal, i.e. transposed times *)
  Theorem solve_reverse_eq (p : @fpath V PS) r r' i j :
    (forall a b, leb a b = true -> leb b a = true -> a = b) ->
    interior_ok size p ->
    solve_pure p = Some r -> solve_pure (path_reverse p) = Some r' ->
    i < size (startp p) -> j < size (endp p) ->
    exists t, get2 (r_times r) i j = Some t /\ get2 (r_times r') j i = Some t.
  Proof.
    intros Hanti Hok E E' Hi Hj.
    destruct (solve_reverse_lemma p r r' i j Hok E E' Hi Hj) as (t & t' & Ht & Ht' & H1 & H2).
    rewrite <- (Hanti t t' H1 H2) in Ht'. eauto.
  Qed.
End SolveReverse.

(* ---------- Part 6: Rays.reverse, and the bracket of the continuous problem ------ *)
Section RaysReverse.
  Variables T D V PS : Type.
  Variable leb ltb : T -> T -> bool.
  Variable add : T -> T -> T.
  Variable size : PS -> nat.
  Variable dtab : PS -> PS -> list (list D).
  Variable divv : D -> V -> T.
  Variable wf : PS -> V -> PS -> nat -> nat -> T.
  Hypothesis Hord : total_preorder leb ltb.
  Hypothesis Hleg : leg_model size dtab divv wf.

  Notation solve_pure := (solve_pure ltb add size dtab divv).
  Notation cost := (cost add size wf).

  Lemma solve_pure_tab_b h v P : interior_ok size (Leg h v P) ->
    solve_pure (Leg h v P)
    = Some (mkRays (tab (size (startp h)) (size P) (optT T V PS add size wf (cell1 T ltb) h v P))
                   (map (tab (size (startp h)) (size P)) (optI T V PS add size wf (cell1 T ltb) h v P))).
  Proof.
    destruct Hord as (H1 & H2 & H3 & H4).
    exact (solve_pure_tab T D V PS leb ltb add size dtab divv wf H1 H2 H3 H4 Hleg h v P).
  Qed.

  Lemma rays_reverse_tab n p (f : nat -> nat -> T) (L : list (nat -> nat -> nat)) :
    rays_reverse p (mkRays (tab n p f) (map (tab n p) L))
    = mkRays (tab p n (fun j i => f i j)) (map (tab p n) (rev (map (fun fl j i => fl i j) L))).
  Proof.
    unfold rays_reverse. cbn [r_times r_int]. rewrite transpose_tab. f_equal.
    rewrite map_rev, !map_map. f_equal. apply map_ext. intros fl. apply transpose_tab.
  Qed.

  Theorem rays_reverse_involutive_lemma (p : @fpath V PS) r :
    interior_ok size p -> solve_pure p = Some r ->
    rays_reverse (size (startp p)) (rays_reverse (size (endp p)) r) = r.
  Proof.
    destruct p as [P0|h v P]; [discriminate|]. intros Hok E. rewrite (solve_pure_tab_b h v P Hok) in E.
    injection E as <-. cbn [startp endp]. rewrite rays_reverse_tab, rays_reverse_tab. f_equal. f_equal.
    rewrite (map_rev (fun (fl : nat -> nat -> nat) j i => fl i j)), rev_involutive, map_map.
    rewrite <- (map_id (optI T V PS add size wf (cell1 T ltb) h v P)) at 2. apply map_ext. reflexivity.
  Qed.

  Lemma ray_of_reverse (p : @fpath V PS) r i j :
    interior_ok size p -> solve_pure p = Some r -> i < size (startp p) -> j < size (endp p) ->
    ray_of (rays_reverse (size (endp p)) r) j i = rev (ray_of r i j)
    /\ get2 (r_times (rays_reverse (size (endp p)) r)) j i = get2 (r_times r) i j.
  Proof.
    destruct p as [P0|h v P]; [discriminate|]. intros Hok E Hi Hj. rewrite (solve_pure_tab_b h v P Hok) in E.
    injection E as <-. cbn [startp endp] in *. rewrite rays_reverse_tab. cbn [r_times]. split.
    - unfold ray_of. cbn [r_int]. rewrite !map_map.
      rewrite (map_ext (fun x => nth i (nth j (tab (size P) (size (startp h)) x) []) 0) (fun x => x j i))
        by (intros fl; now apply nth_tab).
      rewrite (map_ext (fun x => nth j (nth i (tab (size (startp h)) (size P) x) []) 0) (fun x => x i j))
        by (intros fl; now apply nth_tab).
      rewrite map_rev, map_map. cbn [rev]. rewrite rev_unit. reflexivity.
    - now rewrite !get2_tab.
  Qed.

  Section WithMonoid.
    Hypothesis add_assoc : forall a b c, add a (add b c) = add (add a b) c.
    Hypothesis add_comm : forall a b, add a b = add b a.
    Hypothesis wf_sym : forall P v Q i j, wf P v Q i j = wf Q v P j i.

    (* Rays.reverse of the answer: transposed times, and its rays realise them on the reversed path *)
    Theorem rays_reverse_valid_lemma (p : @fpath V PS) r i j :
      interior_ok size p -> solve_pure p = Some r -> i < size (startp p) -> j < size (endp p) ->
      exists t, get2 (r_times r) i j = Some t
                /\ get2 (r_times (rays_reverse (size (endp p)) r)) j i = Some t
                /\ cost (path_reverse p) (rev (ray_of (rays_reverse (size (endp p)) r) j i)) = Some t.
    Proof.
      intros Hok E Hi Hj.
      destruct (solve_realised_b T D V PS leb ltb add size dtab divv wf Hord Hleg p r i j Hok E Hi Hj)
        as (t & Ht & Hc & _).
      destruct (ray_of_reverse p r i j Hok E Hi Hj) as [Hr Hg].
      exists t. rewrite Hg, Hr. repeat split; auto.
      now apply (cost_reverse T V PS add size wf add_assoc add_comm wf_sym).
    Qed.
  End WithMonoid.

  (* the discrete answer is bracketed by any lower bound of the continuous problem and by the
     time of the ray through ANY tuple of samples (in particular the samples nearest to the
     continuous crossing points) *)
  Theorem discrete_between_lemma (Hmono : monotone_add leb add) (p : @fpath V PS) r i j
          (X : Type) (ctime : X -> T) (sample : list nat -> X) (L : T) :
    interior_ok size p -> solve_pure p = Some r -> i < size (startp p) -> j < size (endp p) ->
    (forall ridx c, cost p ridx = Some c -> last ridx 0 = i -> hd 0 ridx = j -> ctime (sample ridx) = c) ->
    (forall x, leb L (ctime x) = true) ->
    exists t, get2 (r_times r) i j = Some t
              /\ leb L t = true
              /\ (forall ridx c, cost p ridx = Some c -> last ridx 0 = i -> hd 0 ridx = j ->
                                 leb t (ctime (sample ridx)) = true).
  Proof.
    intros Hok E Hi Hj Hs HL.
    destruct (solve_realised_b T D V PS leb ltb add size dtab divv wf Hord Hleg p r i j Hok E Hi Hj)
      as (t & Ht & Hc & Hhd & Hlast & _).
    exists t. split; [exact Ht|]. split.
    - rewrite <- (Hs _ t Hc); [apply HL| |]; [rewrite last_rev; exact Hhd | rewrite hd_rev; exact Hlast].
    - intros ridx c Hc' Hl Hh. rewrite (Hs ridx c Hc' Hl Hh).
      destruct (solve_optimal_b T D V PS leb ltb add size dtab divv wf Hord Hmono Hleg p r ridx c Hok E Hc')
        as (t' & Ht' & Hle).
      rewrite Hl, Hh, Ht in Ht'. injection Ht' as <-. exact Hle.
  Qed.
End RaysReverse.

(* the property pins `times` whatever the tie-breaking: two (time, tuple) answers that are both
   realised and optimal for the same (i, j) have order-equivalent times *)
Lemma fastest_unique_lemma {T V PS} (leb : T -> T -> bool) (add : T -> T -> T) (size : PS -> nat)
      (wf : PS -> V -> PS -> nat -> nat -> T) (p : @fpath V PS) i j ridx1 ridx2 t1 t2 :
  cost add size wf p ridx1 = Some t1 -> last ridx1 0 = i -> hd 0 ridx1 = j ->
  cost add size wf p ridx2 = Some t2 -> last ridx2 0 = i -> hd 0 ridx2 = j ->
  (forall ridx c, cost add size wf p ridx = Some c -> last ridx 0 = i -> hd 0 ridx = j -> leb t1 c = true) ->
  (forall ridx c, cost add size wf p ridx = Some c -> last ridx 0 = i -> hd 0 ridx = j -> leb t2 c = true) ->
  leb t1 t2 = true /\ leb t2 t1 = true.
Proof. intros C1 L1 H1 C2 L2 H2 O1 O2. split; [eapply O1 | eapply O2]; eauto. Qed.

(* ---------- any argmin choice (bundled, used by Props/C01.v) ---------------------- *)
Definition argmin_choice {T} (leb : T -> T -> bool) (sel : nat -> (nat -> T) -> T * nat) : Prop :=
  forall m h, 1 <= m ->
    snd (sel m h) < m
    /\ fst (sel m h) = h (snd (sel m h))
    /\ (forall k, k < m -> leb (fst (sel m h)) (h k) = true).

Lemma any_choice_optimal_lemma T V PS (leb : T -> T -> bool) (add : T -> T -> T) (size : PS -> nat)
      (wf : PS -> V -> PS -> nat -> nat -> T) (sel : nat -> (nat -> T) -> T * nat) :
  (forall a, leb a a = true) -> (forall a b c, leb a b = true -> leb b c = true -> leb a c = true) ->
  monotone_add leb add -> argmin_choice leb sel ->
  forall (h : @fpath V PS) v P ridx c, interior_ok size (Leg h v P) ->
    cost add size wf (Leg h v P) ridx = Some c ->
    exists t, get2 (r_times (solve_sel T V PS add size wf sel h v P)) (last ridx 0) (hd 0 ridx) = Some t
              /\ leb t c = true.
Proof. intros H1 H2 H3 H4 h v P ridx c Hok Hc. eapply sel_optimal; eauto. Qed.

Lemma any_choice_realised_lemma T V PS (leb : T -> T -> bool) (add : T -> T -> T) (size : PS -> nat)
      (wf : PS -> V -> PS -> nat -> nat -> T) (sel : nat -> (nat -> T) -> T * nat) :
  argmin_choice leb sel ->
  forall (h : @fpath V PS) v P i j, interior_ok size (Leg h v P) ->
    i < size (startp h) -> j < size P ->
    exists t, get2 (r_times (solve_sel T V PS add size wf sel h v P)) i j = Some t
              /\ cost add size wf (Leg h v P) (rev (ray_of (solve_sel T V PS add size wf sel h v P) i j)) = Some t
              /\ hd 0 (ray_of (solve_sel T V PS add size wf sel h v P) i j) = i
              /\ last (ray_of (solve_sel T V PS add size wf sel h v P) i j) 0 = j
              /\ length (ray_of (solve_sel T V PS add size wf sel h v P) i j) = S (S (nlegs h)).
Proof. intros H4 h v P i j Hok Hi Hj. eapply sel_realised; eauto. Qed.

(* the code's kernel (first strict minimiser) is an argmin choice, and the model is the solver with that choice *)
Lemma model_choice_lemma T (leb ltb : T -> T -> bool) :
  total_preorder leb ltb -> argmin_choice leb (cell1 T ltb).
Proof.
  intros (H1 & H2 & H3 & H4) m h Hm. exact (cell1_sel T leb ltb H1 H2 H3 H4 m h Hm).
Qed.

Lemma model_is_choice_lemma T D V PS (leb ltb : T -> T -> bool) (add : T -> T -> T) (size : PS -> nat)
      (dtab : PS -> PS -> list (list D)) (divv : D -> V -> T) (wf : PS -> V -> PS -> nat -> nat -> T) :
  total_preorder leb ltb -> leg_model size dtab divv wf ->
  forall (h : @fpath V PS) v P, interior_ok size (Leg h v P) ->
    solve_pure ltb add size dtab divv (Leg h v P) = Some (solve_sel T V PS add size wf (cell1 T ltb) h v P).
Proof.
  intros (H1 & H2 & H3 & H4) Hleg h v P Hok.
  exact (solve_pure_sel T D V PS leb ltb add size dtab divv wf H1 H2 H3 H4 Hleg h v P Hok).
Qed.

(* ---------- Part 7: the brute-force specification function is what it says ------------ *)
Section Brute.
  Variables T V PS : Type.
  Variable leb ltb : T -> T -> bool.
  Variable add : T -> T -> T.
  Variable size : PS -> nat.
  Variable wf : PS -> V -> PS -> nat -> nat -> T.
  Hypothesis Hord : total_preorder leb ltb.

  Notation fpath := (@fpath V PS).
  Notation cost := (cost add size wf).

  Lemma cost_hd_lt' (p : fpath) ridx c : cost p ridx = Some c -> hd 0 ridx < size (endp p).
  Proof.
    destruct p as [P0|h v P]; [discriminate|]. destruct ridx as [|j [|k more]]; try discriminate.
    simpl. destruct (j <? size P) eqn:E; [|discriminate]. intros _. now apply Nat.ltb_lt.
  Qed.

  (* every valid tuple is enumerated *)
  Lemma tuples_complete (p : fpath) : forall ridx c,
    cost p ridx = Some c -> In ridx (tuples size p (hd 0 ridx)).
  Proof.
    induction p as [P0|h IH v P]; intros ridx c Hc; [discriminate|].
    destruct ridx as [|j [|k more]]; try discriminate.
    cbn [hd tuples]. apply in_map. apply in_flat_map. exists k.
    destruct h as [P0|h' v' Pm].
    - simpl in Hc. destruct (j <? size P); [|discriminate]. destruct more; [|discriminate].
      destruct (k <? size P0) eqn:E; [|discriminate]. apply Nat.ltb_lt in E.
      split; [apply in_seq; simpl; lia | simpl; auto].
    - change (cost (Leg (Leg h' v' Pm) v P) (j :: k :: more))
        with (if j <? size P
              then match cost (Leg h' v' Pm) (k :: more) with
                   | Some c => Some (add c (wf Pm v P k j)) | None => None end
              else None) in Hc.
      destruct (j <? size P); [|discriminate].
      destruct (cost (Leg h' v' Pm) (k :: more)) as [c'|] eqn:Ec; [|discriminate].
      split.
      + apply in_seq. pose proof (cost_hd_lt' _ _ _ Ec) as H. simpl in *. lia.
      + exact (IH (k :: more) c' Ec).
  Qed.

  Lemma min_opt_le a b r : min_opt ltb a b = Some r ->
    (forall x, a = Some x -> leb r x = true) /\ (forall y, b = Some y -> leb r y = true)
    /\ (a = Some r \/ b = Some r).
  Proof.
    destruct Hord as (H1 & H2 & H3 & H4).
    destruct a as [x|], b as [y|]; simpl; try discriminate.
    - rewrite H4. destruct (leb x y) eqn:E; simpl; intros [= <-].
      + repeat split; auto; intros ? [= <-]; auto.
      + assert (leb y x = true) by (destruct (H3 y x); congruence).
        repeat split; auto; intros ? [= <-]; auto.
    - intros [= <-]. repeat split; auto; try discriminate. intros ? [= <-]; auto.
    - intros [= <-]. repeat split; auto; try discriminate. intros ? [= <-]; auto.
  Qed.

  Section Fold.
    Variable p : fpath.
    Variable i : nat.
    Let F (acc : option T) (ridx : list nat) : option T :=
      if last ridx 0 =? i then min_opt ltb acc (cost p ridx) else acc.

    Lemma fold_min (l : list (list nat)) : forall acc r,
      fold_left F l acc = Some r ->
      (forall x, acc = Some x -> leb r x = true)
      /\ (forall ridx c, In ridx l -> last ridx 0 = i -> cost p ridx = Some c -> leb r c = true)
      /\ (acc = Some r \/ exists ridx, In ridx l /\ last ridx 0 = i /\ cost p ridx = Some r).
    Proof.
      destruct Hord as (H1 & H2 & H3 & H4).
      induction l as [|t l IH]; intros acc r Hr; simpl in Hr.
      - subst acc. split; [intros x [= <-]; apply H1|]. split; [intros ? ? []|left; reflexivity].
      - destruct (IH _ _ Hr) as (A & B & C). unfold F in A, C at 1.
        destruct (last t 0 =? i) eqn:E.
        + apply Nat.eqb_eq in E.
          assert (Hstep : forall m, min_opt ltb acc (cost p t) = Some m ->
                   (forall x, acc = Some x -> leb m x = true) /\ (forall y, cost p t = Some y -> leb m y = true)
                   /\ (acc = Some m \/ cost p t = Some m)) by (intros m; apply min_opt_le).
          repeat split.
          * intros x Hx. destruct (min_opt ltb acc (cost p t)) as [m|] eqn:Em.
            -- destruct (Hstep m eq_refl) as (S1 & _). eapply H2; [apply A; reflexivity | apply S1; exact Hx].
            -- subst acc. destruct (cost p t); simpl in Em; [destruct (ltb _ _) in Em|]; discriminate.
          * intros ridx c [<-|Hin] Hl Hc.
            -- destruct (min_opt ltb acc (cost p t)) as [m|] eqn:Em.
               ++ destruct (Hstep m eq_refl) as (_ & S2 & _). eapply H2; [apply A; reflexivity | apply S2; exact Hc].
               ++ rewrite Hc in Em. destruct acc; simpl in Em; [destruct (ltb _ _) in Em|]; discriminate.
            -- eapply B; eauto.
          * destruct C as [C|(ridx & Hin & Hl & Hc)].
            -- destruct (Hstep r C) as (_ & _ & [S3|S3]); [left; exact S3 | right; exists t; simpl; auto].
            -- right. exists ridx. simpl. auto.
        + repeat split; auto.
          * intros ridx c [<-|Hin] Hl Hc; [apply Nat.eqb_neq in E; contradiction | eapply B; eauto].
          * destruct C as [C|(ridx & Hin & Hl & Hc)]; [left; exact C | right; exists ridx; simpl; auto].
    Qed.
  End Fold.

  (* brute p i j is the minimum of cost over all valid tuples from i to j: attained and <= all *)
  Theorem brute_spec_lemma (p : fpath) i j b :
    brute ltb add size wf p i j = Some b ->
    (exists ridx, cost p ridx = Some b /\ last ridx 0 = i /\ hd 0 ridx = j)
    /\ (forall ridx c, cost p ridx = Some c -> last ridx 0 = i -> hd 0 ridx = j -> leb b c = true).
  Proof.
    unfold brute. intros Hb. destruct (fold_min p i _ _ _ Hb) as (_ & B & C). split.
    - destruct C as [C|(ridx & Hin & Hl & Hc)]; [discriminate|].
      exists ridx. repeat split; auto.
      assert (exists c, cost p ridx = Some c) as [c Hc'] by eauto.
      clear - Hin. revert Hin. destruct p as [P0|h v P]; simpl.
      + intros [<-|[]]. reflexivity.
      + intros Hin. apply in_map_iff in Hin as (x & <- & _). reflexivity.
    - intros ridx c Hc Hl Hh. eapply B; eauto. rewrite <- Hh. eapply tuples_complete; eauto.
  Qed.
End Brute.

(* the solver's times are the brute-force minimum (order-equivalent; equal under antisymmetry) *)
Lemma solve_is_brute_lemma T D V PS (leb ltb : T -> T -> bool) (add : T -> T -> T) (size : PS -> nat)
      (dtab : PS -> PS -> list (list D)) (divv : D -> V -> T) (wf : PS -> V -> PS -> nat -> nat -> T) :
  total_preorder leb ltb -> monotone_add leb add -> leg_model size dtab divv wf ->
  forall (p : @fpath V PS) r i j t b,
    interior_ok size p -> solve_pure ltb add size dtab divv p = Some r ->
    get2 (r_times r) i j = Some t -> brute ltb add size wf p i j = Some b ->
    leb t b = true /\ leb b t = true.
Proof.
  intros Hord Hmono Hleg p r i j t b Hok E Ht Hb.
  destruct (brute_spec_lemma T V PS leb ltb add size wf Hord p i j b Hb) as ((ridx & Hc & Hl & Hh) & Hmin).
  split.
  - destruct (solve_optimal_b T D V PS leb ltb add size dtab divv wf Hord Hmono Hleg p r ridx b Hok E Hc)
      as (t' & Ht' & Hle).
    rewrite Hl, Hh, Ht in Ht'. injection Ht' as <-. exact Hle.
  - destruct (solve_shape_b T D V PS leb ltb add size dtab divv wf Hord Hleg p r Hok E) as (Hn & Hrow & _).
    assert (Hi : i < size (startp p)).
    { unfold get2 in Ht. destruct (nth_error (r_times r) i) eqn:En; [|discriminate].
      rewrite <- Hn. apply nth_error_Some. congruence. }
    assert (Hj : j < size (endp p)).
    { unfold get2 in Ht. destruct (nth_error (r_times r) i) as [row|] eqn:En; [|discriminate].
      rewrite <- (Hrow row (nth_error_In _ _ En)). apply nth_error_Some. congruence. }
    destruct (solve_realised_b T D V PS leb ltb add size dtab divv wf Hord Hleg p r i j Hok E Hi Hj)
      as (t' & Ht' & Hc' & Hhd & Hlast & _).
    rewrite Ht in Ht'. injection Ht' as <-.
    apply (Hmin _ _ Hc'); [rewrite last_rev; exact Hhd | rewrite hd_rev; exact Hlast].
Qed.
