(* Proofs/RegistrationTimeProofs.v — Time.samples, Time.window and
   detect_surface_from_extrema (C19), over the reals. *)
From Coq Require Import Reals ZArith List Bool Lra Lia.
From Flocq Require Import Core.Raux.
From Arim Require Import Base.Num Base.NumR Model.Registration Proofs.RegistrationProofs.
Import ListNotations.

(* ---- list facts ------------------------------------------------------------ *)
Lemma nth_firstn_lt {A} (l : list A) (n k : nat) (d : A) : (k < n)%nat -> nth k (firstn n l) d = nth k l d.
Proof.
  revert n k. induction l as [| a l IH]; intros n k H.
  - rewrite firstn_nil. reflexivity.
  - destruct n as [| n]; [lia|]. destruct k as [| k]; [reflexivity|]. cbn [firstn nth]. apply IH. lia.
Qed.

Lemma nth_skipn_add {A} (l : list A) (i k : nat) (d : A) : nth k (skipn i l) d = nth (i + k) l d.
Proof.
  revert l. induction i as [| i IH]; intro l; [reflexivity|].
  destruct l as [| a l]; [destruct k; reflexivity|]. cbn [skipn Nat.add nth]. apply IH.
Qed.

Lemma slice_length {A} (i j : nat) (l : list A) : length (slice i j l) = Nat.min (j - i) (length l - i).
Proof. unfold slice. rewrite firstn_length, skipn_length. reflexivity. Qed.

Lemma slice_nth {A} (i j k : nat) (l : list A) (d : A) : (k < j - i)%nat -> nth k (slice i j l) d = nth (i + k) l d.
Proof. intro H. unfold slice. rewrite (nth_firstn_lt _ _ _ _ H). apply nth_skipn_add. Qed.

Lemma all_some_spec {A B} (f : A -> option B) (l : list A) (r : list B) (da : A) (db : B) :
  all_some (map f l) = Some r ->
  length r = length l /\ forall k, (k < length l)%nat -> f (nth k l da) = Some (nth k r db).
Proof.
  revert r. induction l as [| a l IH]; intros r H; cbn [map all_some] in H.
  - injection H as <-. split; [reflexivity|]. intros k Hk. cbn in Hk. lia.
  - destruct (f a) as [b |] eqn:Ea; [|discriminate].
    destruct (all_some (map f l)) as [r' |] eqn:Er; [|discriminate]. injection H as <-.
    destruct (IH r' eq_refl) as [HL Hn]. split; [cbn; rewrite HL; reflexivity|].
    intros [| k] Hk; [exact Ea|]. cbn [nth]. apply Hn. cbn in Hk. lia.
Qed.

Local Open Scope R_scope.

(* ---- Time.samples ------------------------------------------------------------ *)
Definition sorted (l : list R) : Prop := forall i j, (i <= j < length l)%nat -> nth i l 0 <= nth j l 0.

Lemma time_samples_length start step num : length (time_samples NumR start step num) = Z.to_nat num.
Proof. unfold time_samples, zrange. rewrite !map_length, seq_length. reflexivity. Qed.

Lemma time_samples_nth start step num k : (k < Z.to_nat num)%nat ->
  nth k (time_samples NumR start step num) 0 = INR k * step + start.
Proof.
  intro Hk. unfold time_samples, zrange. rewrite map_map.
  rewrite (nth_indep _ 0 (time_sample NumR start step num (Z.of_nat 0))) by (rewrite map_length, seq_length; exact Hk).
  rewrite (map_nth (fun x => time_sample NumR start step num (Z.of_nat x))).
  rewrite seq_nth by exact Hk. cbn [Nat.add].
  unfold time_sample. cbn [nofZ nadd nmul NumR]. rewrite <- INR_IZR_INZ.
  destruct (1 <? num)%Z eqn:E; [reflexivity|].
  apply Z.ltb_ge in E. assert (k = 0)%nat as -> by lia. cbn [INR]. ring.
Qed.

Lemma time_samples_sorted start step num : 0 <= step -> sorted (time_samples NumR start step num).
Proof.
  intros Hs i j [Hij Hj]. rewrite time_samples_length in Hj.
  rewrite !time_samples_nth by lia. apply le_INR in Hij. nra.
Qed.

(* ---- searchsorted ------------------------------------------------------------ *)
Lemma sorted_tail a l : sorted (a :: l) -> sorted l /\ forall x, In x l -> a <= x.
Proof.
  intro H. split.
  - intros i j Hij. apply (H (S i) (S j)). cbn [length]. lia.
  - intros x Hx. destruct (In_nth _ _ 0 Hx) as [k [Hk <-]]. apply (H O (S k)). cbn [length]. lia.
Qed.

Lemma ss_left_spec l v : sorted l -> forall i, (i < length l)%nat ->
  ((i < ss_left NumR l v)%nat <-> nth i l 0 < v).
Proof.
  induction l as [| s l IH]; intros Hs i Hi; [cbn in Hi; lia|].
  destruct (sorted_tail _ _ Hs) as [Hs' Hge]. cbn [ss_left nltb NumR].
  destruct (Rlt_bool_spec s v) as [Hlt | Hlt].
  - destruct i as [| i]; cbn [nth]; [split; [intros _; exact Hlt | lia]|].
    cbn [length] in Hi. rewrite <- (IH Hs' i) by lia. lia.
  - split; [lia|]. intro Hn. exfalso.
    destruct i as [| i]; cbn [nth] in Hn; [lra|].
    assert (s <= nth i l 0) by (apply Hge, nth_In; cbn [length] in Hi; lia). lra.
Qed.

Lemma ss_right_spec l v : sorted l -> forall i, (i < length l)%nat ->
  ((i < ss_right NumR l v)%nat <-> nth i l 0 <= v).
Proof.
  induction l as [| s l IH]; intros Hs i Hi; [cbn in Hi; lia|].
  destruct (sorted_tail _ _ Hs) as [Hs' Hge]. cbn [ss_right nleb NumR].
  destruct (Rle_bool_spec s v) as [Hle | Hle].
  - destruct i as [| i]; cbn [nth]; [split; [intros _; exact Hle | lia]|].
    cbn [length] in Hi. rewrite <- (IH Hs' i) by lia. lia.
  - split; [lia|]. intro Hn. exfalso.
    destruct i as [| i]; cbn [nth] in Hn; [lra|].
    assert (s <= nth i l 0) by (apply Hge, nth_In; cbn [length] in Hi; lia). lra.
Qed.

Lemma ss_left_le_length l v : (ss_left NumR l v <= length l)%nat.
Proof. induction l as [| s l IH]; cbn [ss_left length]; [lia|]. destruct (nltb NumR s v); lia. Qed.

Lemma ss_right_le_length l v : (ss_right NumR l v <= length l)%nat.
Proof. induction l as [| s l IH]; cbn [ss_right length]; [lia|]. destruct (nleb NumR s v); lia. Qed.

(* ---- Time.window --------------------------------------------------------------- *)
(* membership of a time in the requested interval, with the endpoint flags *)
Definition in_window (tmin tmax : option R) (endl endr : bool) (s : R) : Prop :=
  match tmin with None => True | Some v => if endl then v <= s else v < s end /\
  match tmax with None => True | Some v => if endr then s <= v else s < v end.

Lemma window_spec_R samples tmin tmax endl endr : sorted samples ->
  forall i, (i < length samples)%nat ->
  ((fst (window NumR samples tmin tmax endl endr) <= i < snd (window NumR samples tmin tmax endl endr))%nat
   <-> in_window tmin tmax endl endr (nth i samples 0)).
Proof.
  intros Hs i Hi. unfold window, in_window. cbn [fst snd].
  pose proof (ss_left_spec samples) as SL. pose proof (ss_right_spec samples) as SR.
  assert (forall v, (ss_left NumR samples v <= i)%nat <-> v <= nth i samples 0) as SL'.
  { intro v. specialize (SL v Hs i Hi). split; intro H.
    - apply Rnot_lt_le. intro C. apply SL in C. lia.
    - apply Nat.nlt_ge. intro C. apply SL in C. lra. }
  assert (forall v, (ss_right NumR samples v <= i)%nat <-> v < nth i samples 0) as SR'.
  { intro v. specialize (SR v Hs i Hi). split; intro H.
    - apply Rnot_le_lt. intro C. apply SR in C. lia.
    - apply Nat.nlt_ge. intro C. apply SR in C. lra. }
  destruct tmin as [a |], tmax as [b |], endl, endr;
    rewrite ?SL', ?SR', ?(SL _ Hs i Hi), ?(SR _ Hs i Hi); intuition lia.
Qed.

Lemma window_bounds samples tmin tmax endl endr :
  (snd (window NumR samples tmin tmax endl endr) <= length samples)%nat.
Proof.
  unfold window. cbn [snd]. destruct tmax as [b |]; [|lia].
  destruct endr; [apply ss_right_le_length | apply ss_left_le_length].
Qed.

(* ---- np.argmax ------------------------------------------------------------------ *)
Lemma argmax_from_spec l : forall pre best bi,
  (bi < length pre)%nat -> best = nth bi pre 0 ->
  (forall j, (j < length pre)%nat -> nth j pre 0 <= best) ->
  (forall j, (j < bi)%nat -> nth j pre 0 < best) ->
  let r := argmax_from NumR best bi (length pre) l in
  let w := pre ++ l in
  (r < length w)%nat /\ (forall j, (j < length w)%nat -> nth j w 0 <= nth r w 0)
  /\ (forall j, (j < r)%nat -> nth j w 0 < nth r w 0).
Proof.
  induction l as [| v l IH]; intros pre best bi Hbi Hbest Hall Hfirst; cbn [argmax_from].
  - cbv zeta. rewrite app_nil_r. subst best. auto.
  - cbv zeta. cbn [nltb NumR].
    assert (pre ++ v :: l = (pre ++ [v]) ++ l) as Ew by (rewrite <- app_assoc; reflexivity).
    assert (length (pre ++ [v]) = S (length pre)) as EL by (rewrite app_length; cbn; lia).
    assert (forall j, (j < length pre)%nat -> nth j (pre ++ [v]) 0 = nth j pre 0) as Epre
        by (intros j Hj; apply app_nth1; exact Hj).
    assert (nth (length pre) (pre ++ [v]) 0 = v) as Ev
        by (rewrite app_nth2, Nat.sub_diag by lia; reflexivity).
    rewrite Ew, <- EL.
    destruct (Rlt_bool_spec best v) as [Hlt | Hge].
    + replace (length pre) with (length (pre ++ [v]) - 1)%nat at 1 by lia.
      assert (length (pre ++ [v]) - 1 = length pre)%nat as E1 by lia. rewrite E1. rewrite <- E1 at 1.
      rewrite E1. rewrite EL.
      specialize (IH (pre ++ [v]) v (length pre)). rewrite EL in IH. apply IH.
      * lia.
      * symmetry. exact Ev.
      * intros j Hj. destruct (Nat.eq_dec j (length pre)) as [-> | Hne]; [rewrite Ev; lra|].
        rewrite Epre by lia. specialize (Hall j ltac:(lia)). lra.
      * intros j Hj. rewrite Epre by lia. specialize (Hall j Hj). lra.
    + rewrite EL. specialize (IH (pre ++ [v]) best bi). rewrite EL in IH. apply IH.
      * lia.
      * rewrite Epre by lia. exact Hbest.
      * intros j Hj. destruct (Nat.eq_dec j (length pre)) as [-> | Hne]; [rewrite Ev; lra|].
        rewrite Epre by lia. apply Hall. lia.
      * intros j Hj. rewrite Epre by lia. apply Hfirst. exact Hj.
Qed.

Lemma argmax_first_spec l r : argmax_first NumR l = Some r ->
  (r < length l)%nat /\ (forall j, (j < length l)%nat -> nth j l 0 <= nth r l 0)
  /\ (forall j, (j < r)%nat -> nth j l 0 < nth r l 0).
Proof.
  destruct l as [| v l]; [discriminate|]. cbn [argmax_first]. intro H. injection H as <-.
  apply (argmax_from_spec l [v] v O).
  - cbn. lia.
  - reflexivity.
  - intros [| j] Hj; cbn in *; [lra | lia].
  - intros j Hj. lia.
Qed.

Lemma argmax_first_none l : argmax_first NumR l = None <-> l = [].
Proof. destruct l; cbn; split; intro; try reflexivity; discriminate. Qed.

(* ---- one timetrace of detect_surface_from_extrema ---------------------------------- *)
Lemma detect_trace_spec samples imin imax row t :
  length row = length samples -> (imax <= length samples)%nat ->
  detect_trace NumR samples imin imax row = Some t ->
  exists i, (imin <= i < imax)%nat /\ t = nth i samples 0
    /\ (forall j, (imin <= j < imax)%nat -> Rabs (nth j row 0) <= Rabs (nth i row 0))
    /\ (forall j, (imin <= j < i)%nat -> Rabs (nth j row 0) < Rabs (nth i row 0)).
Proof.
  intros HL Hmax H. unfold detect_trace in H. cbn [n0 NumR] in H.
  destruct (argmax_first NumR (map (nabs NumR) (slice imin imax row))) as [k |] eqn:EA; [|discriminate].
  injection H as <-. apply argmax_first_spec in EA. destruct EA as [Hk [Hmaxv Hfirst]].
  rewrite map_length, slice_length in Hk, Hmaxv.
  assert (k < imax - imin)%nat as Hk' by lia.
  assert (forall j, (j < imax - imin)%nat ->
            nth j (map (nabs NumR) (slice imin imax row)) 0 = Rabs (nth (imin + j) row 0)) as Enth.
  { intros j Hj. rewrite (nth_indep _ 0 (nabs NumR 0)) by (rewrite map_length, slice_length; lia).
    rewrite map_nth, nabs_R, slice_nth by exact Hj. reflexivity. }
  exists (imin + k)%nat. repeat split; try lia.
  - apply slice_nth. exact Hk'.
  - intros j Hj. replace j with (imin + (j - imin))%nat by lia.
    rewrite <- !Enth by lia. apply Hmaxv. lia.
  - intros j Hj. replace j with (imin + (j - imin))%nat by lia.
    rewrite <- !Enth by lia. apply Hfirst. lia.
Qed.

(* ---- detect_surface_from_extrema ------------------------------------------------------ *)
Lemma detect_surface_spec samples rows tmin tmax times :
  sorted samples -> (forall row, In row rows -> length row = length samples) ->
  detect_surface NumR samples rows tmin tmax = Some times ->
  length times = length rows /\
  forall r, (r < length rows)%nat ->
    exists i, (i < length samples)%nat /\ nth r times 0 = nth i samples 0
      /\ in_window tmin tmax true true (nth i samples 0)
      /\ (forall j, (j < length samples)%nat -> in_window tmin tmax true true (nth j samples 0) ->
                    Rabs (nth j (nth r rows []) 0) <= Rabs (nth i (nth r rows []) 0))
      /\ (forall j, (j < i)%nat -> in_window tmin tmax true true (nth j samples 0) ->
                    Rabs (nth j (nth r rows []) 0) < Rabs (nth i (nth r rows []) 0)).
Proof.
  intros Hs Hrows H. unfold detect_surface in H. cbv zeta in H.
  set (w := window NumR samples tmin tmax true true) in *.
  destruct (slice (fst w) (snd w) samples) as [| s0 sl]; [discriminate|].
  destruct (all_some_spec _ rows times [] 0 H) as [HL Hn]. split; [exact HL|].
  intros r Hr. specialize (Hn r Hr).
  pose proof (window_bounds samples tmin tmax true true) as Hb. fold w in Hb.
  destruct (detect_trace_spec samples (fst w) (snd w) (nth r rows []) (nth r times 0)
              (Hrows _ (nth_In _ _ Hr)) Hb Hn) as [i [Hi [Ht [Hmaxv Hfirst]]]].
  assert (i < length samples)%nat as Hil by lia.
  exists i. split; [exact Hil|]. split; [exact Ht|]. split; [|split].
  - apply (window_spec_R samples tmin tmax true true Hs i Hil). exact Hi.
  - intros j Hj Hw. apply Hmaxv. apply (window_spec_R samples tmin tmax true true Hs j Hj). exact Hw.
  - intros j Hj Hw. assert (j < length samples)%nat as Hjl by lia.
    apply (window_spec_R samples tmin tmax true true Hs j Hjl) in Hw. apply Hfirst. fold w in Hw. lia.
Qed.

Lemma all_some_detect_nonempty samples imin imax (l : list (list R)) s0 sl :
  slice imin imax samples = s0 :: sl ->
  (forall row, In row l -> length row = length samples) ->
  all_some (map (detect_trace NumR samples imin imax) l) <> None.
Proof.
  intro ES. induction l as [| row l IH]; intro Hl; cbn [map all_some]; [discriminate|].
  assert (length (slice imin imax row) = length (slice imin imax samples)) as EL
      by (rewrite !slice_length, (Hl row (or_introl eq_refl)); reflexivity).
  unfold detect_trace at 1.
  destruct (argmax_first NumR (map (nabs NumR) (slice imin imax row))) as [k |] eqn:EA.
  - destruct (all_some (map (detect_trace NumR samples imin imax) l)) eqn:E2; [discriminate|].
    exfalso. apply (IH (fun r Hr => Hl r (or_intror Hr))). reflexivity.
  - apply argmax_first_none in EA. apply map_eq_nil in EA. rewrite EA, ES in EL. discriminate.
Qed.

(* the error value is exactly the empty window *)
Lemma detect_surface_none samples rows tmin tmax :
  sorted samples -> (forall row, In row rows -> length row = length samples) ->
  (detect_surface NumR samples rows tmin tmax = None <->
   forall i, (i < length samples)%nat -> ~ in_window tmin tmax true true (nth i samples 0)).
Proof.
  intros Hs Hrows. unfold detect_surface. cbv zeta.
  set (w := window NumR samples tmin tmax true true).
  pose proof (window_bounds samples tmin tmax true true) as Hb. fold w in Hb.
  destruct (slice (fst w) (snd w) samples) as [| s0 sl] eqn:ES.
  - split; [|reflexivity]. intros _ i Hi Hw.
    apply (window_spec_R samples tmin tmax true true Hs i Hi) in Hw. fold w in Hw.
    assert (length (slice (fst w) (snd w) samples) = 0%nat) as E0 by (rewrite ES; reflexivity).
    rewrite slice_length in E0. lia.
  - split.
    + intro H. exfalso. revert H. apply (all_some_detect_nonempty samples (fst w) (snd w) rows s0 sl ES Hrows).
    + intro Hno. exfalso.
      assert (0 < length (slice (fst w) (snd w) samples))%nat as Hpos by (rewrite ES; cbn; lia).
      rewrite slice_length in Hpos.
      apply (Hno (fst w) ltac:(lia)).
      apply (window_spec_R samples tmin tmax true true Hs (fst w) ltac:(lia)). fold w. lia.
Qed.

(* conversely: an index carrying the first largest |sample| of the window IS the answer *)
Lemma detect_trace_complete samples imin imax row i :
  length row = length samples -> (imax <= length samples)%nat -> (imin <= i < imax)%nat ->
  (forall j, (imin <= j < imax)%nat -> Rabs (nth j row 0) <= Rabs (nth i row 0)) ->
  (forall j, (imin <= j < i)%nat -> Rabs (nth j row 0) < Rabs (nth i row 0)) ->
  detect_trace NumR samples imin imax row = Some (nth i samples 0).
Proof.
  intros HL Hmax Hi Hall Hfirst.
  destruct (detect_trace NumR samples imin imax row) as [t |] eqn:E.
  - destruct (detect_trace_spec samples imin imax row t HL Hmax E) as [i' [Hi' [-> [Hall' Hfirst']]]].
    f_equal. f_equal. destruct (lt_eq_lt_dec i i') as [[Hlt | Heq] | Hgt]; [| exact (eq_sym Heq) |].
    + specialize (Hfirst' i ltac:(lia)). specialize (Hall i' Hi'). lra.
    + specialize (Hfirst i' ltac:(lia)). specialize (Hall' i Hi). lra.
  - exfalso. unfold detect_trace in E.
    destruct (argmax_first NumR (map (nabs NumR) (slice imin imax row))) eqn:EA; [discriminate|].
    apply argmax_first_none in EA. apply map_eq_nil in EA.
    assert (length (slice imin imax row) = 0%nat) as E0 by (rewrite EA; reflexivity).
    rewrite slice_length in E0. lia.
Qed.

(* ---- find_probe_loc_from_frontwall ---------------------------------------------------- *)
Lemma find_probe_loc_recovers fit xs th z0 dead tx rx start step num rows (c : R) tmin tmax times :
  is_ls_minimiser fit ->
  - (PI / 2) <= th <= PI / 2 ->
  detect_surface NumR (time_samples NumR start step num) rows tmin tmax = Some times ->
  length tx = length rx -> length times = length tx ->
  (2 <= length (selected dead tx rx (map (fun t => (t * c / 2)%R) times)))%nat ->
  (forall t, In t (selected dead tx rx (map (fun t => (t * c / 2)%R) times)) ->
     (0 <= tr_tx t < Z.of_nat (length xs))%Z /\ tr_d t = sin th * trace_x xs t - z0 /\ 0 <= tr_d t) ->
  isclose NumR (lmin NumR (map (trace_x xs) (selected dead tx rx (map (fun t => (t * c / 2)%R) times))))
               (lmax NumR (map (trace_x xs) (selected dead tx rx (map (fun t => (t * c / 2)%R) times)))) = false ->
  find_probe_loc NumR fit start step num rows tx rx dead (on_axis xs) c tmin tmax
  = inr (mkMove z0 th
                (map (fun x => (cos th * x, 0, - (sin th * x - z0))) xs)
                ((0, 0, z0), (cos th, 0, - sin th), (0, 1, 0)), times).
Proof.
  intros Hfit Hth Hdet L1 L2 Hn Hsel Hspread. unfold find_probe_loc. rewrite Hdet.
  cbn [nmul ndiv nofZ NumR].
  rewrite (move_probe_recovers fit xs th z0 dead tx rx _ Hfit Hth L1 ltac:(rewrite map_length; exact L2) Hn Hsel Hspread).
  reflexivity.
Qed.
