(* Proofs/RayGeomRealProofs.v — lemmas about Model/RayGeom.v over the reals (C05), part 2:
   leg size = Euclidean distance, radius = size in orthonormal frames, the polar angle
   is the angle to the third row of the frame, spherical reconstruction, the signed and
   the conventional angles. *)
From Coq Require Import List ZArith Bool Arith Lia Reals Lra Nsatz.
From Flocq Require Import Core.Raux.
From Arim Require Import Base.Num Base.NumR Model.Vec3 Model.RayGeom Proofs.Vec3Proofs Proofs.RayGeomProofs.
Import ListNotations.
Local Open Scope R_scope.

(* Euclidean distance between two points, spelled out *)
Definition euclid (p q : vec3 R) : R :=
  sqrt ((vx p - vx q) * (vx p - vx q) + (vy p - vy q) * (vy p - vy q) + (vz p - vz q) * (vz p - vz q)).

Lemma norm2_acc_R (v : vec3 R) : norm2_acc NumR v = sqrt (vx v * vx v + vy v * vy v + vz v * vz v).
Proof. unfold norm2_acc. cbn [NumR nsqrt nadd nmul n0]. f_equal. ring. Qed.

Lemma norm2_acc_vnorm (v : vec3 R) : norm2_acc NumR v = vnorm NumR v.
Proof. rewrite norm2_acc_R. destruct v as [[x y] z]. v3_unfold. reflexivity. Qed.

Lemma norm2_acc_vsub (p q : vec3 R) : norm2_acc NumR (vsub NumR p q) = euclid p q.
Proof. rewrite norm2_acc_R. destruct p as [[a b] c], q as [[d e] f]. v3_unfold. reflexivity. Qed.

Lemma euclid_sym p q : euclid p q = euclid q p.
Proof. unfold euclid. f_equal. ring. Qed.

Lemma euclid_nonneg p q : 0 <= euclid p q.
Proof. apply sqrt_pos. Qed.

Lemma euclid_zero_iff p q : euclid p q = 0 <-> p = q.
Proof.
  unfold euclid. destruct p as [[a b] c], q as [[d e] f]. cbn [vx vy vz fst snd]. split.
  - intros H.
    pose proof (Rle_0_sqr (a - d)) as Qa. pose proof (Rle_0_sqr (b - e)) as Qb. pose proof (Rle_0_sqr (c - f)) as Qc.
    unfold Rsqr in Qa, Qb, Qc.
    apply sqrt_eq_0 in H; [|lra].
    assert (Ea : (a - d) * (a - d) = 0) by lra. assert (Eb : (b - e) * (b - e) = 0) by lra.
    assert (Ec : (c - f) * (c - f) = 0) by lra.
    apply Rmult_integral in Ea, Eb, Ec.
    assert (a = d) as -> by (destruct Ea; lra). assert (b = e) as -> by (destruct Eb; lra).
    assert (c = f) as -> by (destruct Ec; lra). reflexivity.
  - intros H. injection H as -> -> ->. replace ((d - d) * (d - d) + (e - e) * (e - e) + (f - f) * (f - f)) with 0 by ring.
    apply sqrt_0.
Qed.

(* an orthonormal change of frame keeps lengths *)
Lemma from_gcs_radius (v o : vec3 R) (B : mat3 R) : cols_orthonormal NumR B ->
  sph_r NumR (from_gcs NumR v B o) = euclid v o.
Proof.
  intros HB. unfold sph_r, from_gcs. rewrite norm2_acc_vnorm. unfold vnorm.
  rewrite (mvec_norm2 B _ HB). fold (vnorm NumR (vsub NumR v o)).
  rewrite <- norm2_acc_vnorm. apply norm2_acc_vsub.
Qed.

(* local z coordinate = projection on the third ROW of the frame *)
Lemma from_gcs_z (v o : vec3 R) (B : mat3 R) : vz (from_gcs NumR v B o) = vdot NumR (mrow2 B) (vsub NumR v o).
Proof. reflexivity. Qed.
Lemma from_gcs_x (v o : vec3 R) (B : mat3 R) : vx (from_gcs NumR v B o) = vdot NumR (mrow0 B) (vsub NumR v o).
Proof. reflexivity. Qed.
Lemma from_gcs_y (v o : vec3 R) (B : mat3 R) : vy (from_gcs NumR v B o) = vdot NumR (mrow1 B) (vsub NumR v o).
Proof. reflexivity. Qed.

(* ---- atan2 ---------------------------------------------------------------------------- *)
Lemma sqrt_1_sq_div x y : x <> 0 -> sqrt (1 + (y / x)²) = sqrt (x * x + y * y) / Rabs x.
Proof.
  intros Hx. assert (Hx2 : 0 < x * x) by (destruct (Rtotal_order x 0) as [H|[H|H]]; [nra | contradiction | nra]).
  replace (1 + (y / x)²) with ((x * x + y * y) / (x * x)) by (unfold Rsqr; field; exact Hx).
  rewrite sqrt_div by nra. f_equal. fold (Rsqr x). apply sqrt_Rsqr_abs.
Qed.

(* where atan2 lands, by the signs of its arguments *)
Lemma atan2_quadrants y x :
  (0 < x -> - PI / 2 < Ratan2 y x < PI / 2) /\
  (x < 0 -> 0 <= y -> PI / 2 < Ratan2 y x <= PI) /\
  (x < 0 -> y < 0 -> - PI < Ratan2 y x < - PI / 2) /\
  (x = 0 -> 0 < y -> Ratan2 y x = PI / 2) /\
  (x = 0 -> y < 0 -> Ratan2 y x = - PI / 2) /\
  (x = 0 -> y = 0 -> Ratan2 y x = 0).
Proof.
  pose proof PI_RGT_0 as Hpi. unfold Ratan2.
  repeat split; intros.
  - destruct (Rlt_bool_spec 0 x); [|lra]. pose proof (atan_bound (y / x)). lra.
  - destruct (Rlt_bool_spec 0 x); [|lra]. pose proof (atan_bound (y / x)). lra.
  - destruct (Rlt_bool_spec 0 x); [lra|]. destruct (Rlt_bool_spec x 0); [|lra].
    destruct (Rle_bool_spec 0 y); [|lra]. pose proof (atan_bound (y / x)). lra.
  - destruct (Rlt_bool_spec 0 x); [lra|]. destruct (Rlt_bool_spec x 0); [|lra].
    destruct (Rle_bool_spec 0 y); [|lra].
    assert (y / x <= 0) by (unfold Rdiv; assert (/ x < 0) by (apply Rinv_lt_0_compat; assumption); nra).
    assert (atan (y / x) <= 0).
    { destruct (Req_dec (y / x) 0) as [E|E]; [rewrite E, atan_0; lra|].
      left. rewrite <- atan_0. apply atan_increasing. lra. }
    lra.
  - destruct (Rlt_bool_spec 0 x); [lra|]. destruct (Rlt_bool_spec x 0); [|lra].
    destruct (Rle_bool_spec 0 y); [lra|].
    assert (0 < y / x) by (unfold Rdiv; assert (/ x < 0) by (apply Rinv_lt_0_compat; assumption); nra).
    assert (0 < atan (y / x)) by (rewrite <- atan_0; apply atan_increasing; assumption).
    lra.
  - destruct (Rlt_bool_spec 0 x); [lra|]. destruct (Rlt_bool_spec x 0); [|lra].
    destruct (Rle_bool_spec 0 y); [lra|]. pose proof (atan_bound (y / x)). lra.
  - destruct (Rlt_bool_spec 0 x); [lra|]. destruct (Rlt_bool_spec x 0); [lra|].
    destruct (Rlt_bool_spec 0 y); lra.
  - destruct (Rlt_bool_spec 0 x); [lra|]. destruct (Rlt_bool_spec x 0); [lra|].
    destruct (Rlt_bool_spec 0 y); [lra|]. destruct (Rlt_bool_spec y 0); lra.
  - destruct (Rlt_bool_spec 0 x); [lra|]. destruct (Rlt_bool_spec x 0); [lra|].
    destruct (Rlt_bool_spec 0 y); [lra|]. destruct (Rlt_bool_spec y 0); lra.
Qed.

Lemma atan2_bound y x : - PI <= Ratan2 y x <= PI.
Proof.
  pose proof PI_RGT_0 as Hpi.
  destruct (atan2_quadrants y x) as (H1 & H2 & H3 & H4 & H5 & H6).
  destruct (Rtotal_order x 0) as [Hx|[Hx|Hx]].
  - destruct (Rle_or_lt 0 y) as [Hy|Hy]; [specialize (H2 Hx Hy) | specialize (H3 Hx Hy)]; lra.
  - destruct (Rtotal_order y 0) as [Hy|[Hy|Hy]];
      [rewrite (H5 Hx Hy) | rewrite (H6 Hx Hy) | rewrite (H4 Hx Hy)]; lra.
  - specialize (H1 Hx). lra.
Qed.

(* -pi/2 < atan2(y, x) <= pi/2  iff the vector points to the x > 0 side (the y >= 0 half
   of the plane x = 0 included) *)
Lemma atan2_right_half y x :
  (- PI / 2 < Ratan2 y x <= PI / 2) <-> (0 < x \/ (x = 0 /\ 0 <= y)).
Proof.
  pose proof PI_RGT_0 as Hpi.
  destruct (atan2_quadrants y x) as (H1 & H2 & H3 & H4 & H5 & H6).
  split.
  - intros Hr. destruct (Rtotal_order x 0) as [Hx|[Hx|Hx]].
    + destruct (Rle_or_lt 0 y) as [Hy|Hy]; [specialize (H2 Hx Hy) | specialize (H3 Hx Hy)]; lra.
    + destruct (Rle_or_lt 0 y) as [Hy|Hy]; [right; auto|]. rewrite (H5 Hx Hy) in Hr. lra.
    + left. exact Hx.
  - intros [Hx|[Hx Hy]].
    + specialize (H1 Hx). lra.
    + destruct Hy as [Hy|Hy]; [rewrite (H4 Hx Hy) | rewrite (H6 Hx (eq_sym Hy))]; lra.
Qed.

(* cos and sin of atan2(y, x) are x/rho and y/rho *)
Lemma atan2_cos_sin y x : 0 < sqrt (x * x + y * y) ->
  cos (Ratan2 y x) = x / sqrt (x * x + y * y) /\ sin (Ratan2 y x) = y / sqrt (x * x + y * y).
Proof.
  intros Hrho. set (rho := sqrt (x * x + y * y)) in *. unfold Ratan2.
  destruct (Rlt_bool_spec 0 x) as [Hx|Hx].
  - rewrite cos_atan, sin_atan, sqrt_1_sq_div by lra. fold rho. rewrite Rabs_right by lra.
    split; field; split; lra.
  - destruct (Rlt_bool_spec x 0) as [Hx'|Hx'].
    + assert (Hc : cos (atan (y / x)) = - x / rho /\ sin (atan (y / x)) = - y / rho).
      { rewrite cos_atan, sin_atan, sqrt_1_sq_div by lra. fold rho. rewrite Rabs_left by lra.
        split; field; split; lra. }
      destruct Hc as [Hc Hs].
      destruct (Rle_bool_spec 0 y) as [Hy|Hy].
      * rewrite neg_cos, neg_sin.
        rewrite Hc, Hs. split; field; lra.
      * unfold Rminus. rewrite cos_plus, sin_plus, cos_neg, sin_neg, cos_PI, sin_PI, Hc, Hs. split; field; lra.
    + assert (x = 0) by lra. subst x.
      assert (Hrho2 : rho * rho = y * y) by (unfold rho; rewrite sqrt_sqrt by nra; ring).
      destruct (Rlt_bool_spec 0 y) as [Hy|Hy].
      * assert (rho = y) by nra. rewrite cos_PI2, sin_PI2. clearbody rho. subst rho. split; field; lra.
      * destruct (Rlt_bool_spec y 0) as [Hy'|Hy'].
        -- assert (rho = - y) by nra. rewrite cos_neg, sin_neg, cos_PI2, sin_PI2. clearbody rho. subst rho. split; field; lra.
        -- assert (y = 0) by lra. subst y. nra.
Qed.

(* ---- spherical coordinates of a local vector -------------------------------------------- *)
Lemma z_over_r_bound (x y z : R) : 0 < sqrt (x * x + y * y + z * z) ->
  -1 <= z / sqrt (x * x + y * y + z * z) <= 1.
Proof.
  intros Hr. set (r := sqrt (x * x + y * y + z * z)) in *.
  assert (Hr2 : r * r = x * x + y * y + z * z) by (unfold r; rewrite sqrt_sqrt by nra; ring).
  assert (- r <= z <= r) by (split; nra).
  split.
  - apply Rmult_le_reg_r with r; [exact Hr|]. replace (z / r * r) with z by (field; lra). lra.
  - apply Rmult_le_reg_r with r; [exact Hr|]. replace (z / r * r) with z by (field; lra). lra.
Qed.

Lemma sph_theta_range z r : 0 <= sph_theta NumR z r <= PI.
Proof. unfold sph_theta. cbn [NumR nacos ndiv]. apply acos_bound. Qed.

(* c = (r sin theta cos phi, r sin theta sin phi, r cos theta) *)
Lemma spherical_reconstruction (c : vec3 R) :
  let r := sph_r NumR c in
  let theta := sph_theta NumR (vz c) r in
  let phi := sph_phi NumR (vx c) (vy c) in
  r * sin theta * cos phi = vx c /\ r * sin theta * sin phi = vy c /\ r * cos theta = vz c.
Proof.
  unfold sph_r, sph_theta, sph_phi. rewrite norm2_acc_R. cbn [NumR nacos natan2 ndiv].
  destruct c as [[x y] z]. cbn [vx vy vz fst snd].
  set (r := sqrt (x * x + y * y + z * z)).
  assert (Hr0 : 0 <= r) by apply sqrt_pos.
  assert (Hr2 : r * r = x * x + y * y + z * z) by (unfold r; rewrite sqrt_sqrt by nra; ring).
  destruct (Req_dec r 0) as [E|E].
  - rewrite E. assert (x = 0 /\ y = 0 /\ z = 0) as (-> & -> & ->) by (repeat split; nra).
    repeat split; ring.
  - assert (Hr : 0 < r) by lra.
    assert (Hb : -1 <= z / r <= 1) by (apply z_over_r_bound; exact Hr).
    rewrite cos_acos by exact Hb. rewrite sin_acos by exact Hb.
    set (rho := sqrt (x * x + y * y)).
    assert (Hrs : r * sqrt (1 - (z / r)²) = rho).
    { rewrite <- (sqrt_square r) at 1 by exact Hr0. rewrite <- sqrt_mult_alt by nra. unfold rho. f_equal.
      unfold Rsqr. rewrite Hr2 at 1. replace (x * x + y * y) with (r * r - z * z) by lra. field. lra. }
    rewrite Hrs.
    assert (Hrho0 : 0 <= rho) by apply sqrt_pos.
    split; [|split]; [| |field; lra].
    + destruct (Req_dec rho 0) as [E0|E0].
      * rewrite E0. assert (Hrho2 : rho * rho = x * x + y * y) by (unfold rho; rewrite sqrt_sqrt by nra; ring).
        assert (x = 0) as -> by nra. ring.
      * destruct (atan2_cos_sin y x) as [Hc Hs]; [fold rho; lra|]. fold rho in Hc. rewrite Hc. field. exact E0.
    + destruct (Req_dec rho 0) as [E0|E0].
      * rewrite E0. assert (Hrho2 : rho * rho = x * x + y * y) by (unfold rho; rewrite sqrt_sqrt by nra; ring).
        assert (y = 0) as -> by nra. ring.
      * destruct (atan2_cos_sin y x) as [Hc Hs]; [fold rho; lra|]. fold rho in Hs. rewrite Hs. field. exact E0.
Qed.

(* ---- signed and conventional angles ------------------------------------------------------- *)
Lemma half_pi_R : half_pi NumR = PI / 2.
Proof. reflexivity. Qed.

Lemma signed_leg_angle_R polar azimuth :
  (- PI / 2 < azimuth <= PI / 2 -> signed_leg_angle NumR polar azimuth = polar) /\
  (~ (- PI / 2 < azimuth <= PI / 2) -> signed_leg_angle NumR polar azimuth = - polar).
Proof.
  unfold signed_leg_angle. rewrite half_pi_R. cbn [NumR nltb nleb nopp].
  destruct (Rlt_bool_spec (- (PI / 2)) azimuth) as [H1|H1];
    destruct (Rle_bool_spec azimuth (PI / 2)) as [H2|H2]; cbn [andb]; split; intros H; try reflexivity; lra.
Qed.

Lemma supplement_R polar : supplement NumR polar = PI - polar.
Proof. unfold supplement. cbn [NumR nadd nmul nopp n1 npi]. ring. Qed.

Lemma supplement_is_arccos_opp z r : supplement NumR (sph_theta NumR z r) = acos (- z / r).
Proof.
  rewrite supplement_R. unfold sph_theta. cbn [NumR nacos ndiv].
  replace (- z / r) with (- (z / r)) by (unfold Rdiv; ring). rewrite acos_opp. reflexivity.
Qed.

(* ---- the theorems of Props/C05.v, for one ray ------------------------------------------------ *)
Section OneRay.
  Variable ifs : list (iface (T:=R)).
  Variable ray : list nat.
  Hypothesis Hlen : length ray = length ifs.

  (* leg size = Euclidean distance between the consecutive ray points *)
  Lemma leg_size_is_distance_R idx a s e :
    resolve (length ifs) idx = Some (S a) ->
    ray_point ifs ray a = Some s -> ray_point ifs ray (S a) = Some e ->
    inc_leg_size NumR ifs ray idx = Val (euclid s e).
  Proof.
    intros Hidx Hs He. rewrite (inc_leg_size_value NumR ifs ray Hlen idx a s e Hidx Hs He).
    rewrite norm2_acc_vsub. reflexivity.
  Qed.

  (* a leg size that is a value IS the distance between two consecutive ray points *)
  Lemma leg_size_value_inv idx d : inc_leg_size NumR ifs ray idx = Val d ->
    exists a s e, resolve (length ifs) idx = Some (S a) /\ ray_point ifs ray a = Some s /\
                  ray_point ifs ray (S a) = Some e /\ d = euclid s e.
  Proof.
    intros H. unfold inc_leg_size, guarded, numinterfaces in H.
    destruct (resolve (length ifs) idx) as [[|a]|] eqn:Hidx; try discriminate. cbn [Nat.eqb] in H.
    rewrite (leg_points_resolved ifs ray Hlen _ a (resolve_pred _ _ _ Hidx)),
      (leg_points_resolved ifs ray Hlen _ _ Hidx) in H.
    destruct (ray_point ifs ray a) as [s|] eqn:Es; [|discriminate].
    destruct (ray_point ifs ray (S a)) as [e|] eqn:Ee; [|discriminate].
    cbn [of_opt rbind] in H.
    assert (E : norm2_acc NumR (vsub NumR s e) = d) by congruence.
    exists a, s, e. repeat split; try assumption. rewrite <- E. apply norm2_acc_vsub.
  Qed.

  (* radius (spherical) = size, when the frame at the interface point is orthonormal *)
  Lemma inc_radius_eq_size_R idx a s e B :
    resolve (length ifs) idx = Some (S a) ->
    ray_point ifs ray a = Some s -> ray_point ifs ray (S a) = Some e -> ray_frame ifs ray (S a) = Some B ->
    cols_orthonormal NumR B ->
    inc_leg_radius NumR ifs ray idx = inc_leg_size NumR ifs ray idx.
  Proof.
    intros Hidx Hs He HB Ho.
    rewrite (inc_leg_radius_value NumR ifs ray Hlen idx a s e B Hidx Hs He HB),
      (leg_size_is_distance_R idx a s e Hidx Hs He), from_gcs_radius by exact Ho.
    reflexivity.
  Qed.

  Lemma out_radius_eq_next_size_R idx a s e B :
    resolve (length ifs) idx = Some a -> (S a < length ifs)%nat ->
    ray_point ifs ray a = Some s -> ray_point ifs ray (S a) = Some e -> ray_frame ifs ray a = Some B ->
    cols_orthonormal NumR B ->
    out_leg_radius NumR ifs ray idx = inc_leg_size NumR ifs ray (idx + 1).
  Proof.
    intros Hidx Hn Hs He HB Ho.
    rewrite (out_leg_radius_value NumR ifs ray Hlen idx a s e B Hidx Hn Hs He HB),
      (leg_size_is_distance_R (idx + 1) a s e (resolve_succ _ _ _ Hidx Hn) Hs He), from_gcs_radius by exact Ho.
    f_equal. apply euclid_sym.
  Qed.

  (* polar angles are in [0, pi] *)
  Lemma inc_polar_range_R idx theta : inc_leg_polar NumR ifs ray idx = Val theta -> 0 <= theta <= PI.
  Proof.
    unfold inc_leg_polar, inc_leg_radius. destruct (inc_leg_cartesian NumR ifs ray idx); cbn; try discriminate.
    intros H. injection H as <-. apply sph_theta_range.
  Qed.

  Lemma out_polar_range_R idx theta : out_leg_polar NumR ifs ray idx = Val theta -> 0 <= theta <= PI.
  Proof.
    unfold out_leg_polar, out_leg_radius. destruct (out_leg_cartesian NumR ifs ray idx); cbn; try discriminate.
    intros H. injection H as <-. apply sph_theta_range.
  Qed.

  (* (radius, polar, azimuth) are the spherical coordinates of the cartesian leg *)
  Lemma inc_spherical_R idx c :
    inc_leg_cartesian NumR ifs ray idx = Val c ->
    exists r theta phi,
      inc_leg_radius NumR ifs ray idx = Val r /\ inc_leg_polar NumR ifs ray idx = Val theta /\
      inc_leg_azimuth NumR ifs ray idx = Val phi /\
      0 <= r /\ 0 <= theta <= PI /\ - PI <= phi <= PI /\
      vx c = r * sin theta * cos phi /\ vy c = r * sin theta * sin phi /\ vz c = r * cos theta.
  Proof.
    intros Hc. unfold inc_leg_polar, inc_leg_azimuth, inc_leg_radius. rewrite Hc. cbn [rmap rbind].
    eexists _, _, _. repeat split; try reflexivity.
    - unfold sph_r. rewrite norm2_acc_R. apply sqrt_pos.
    - apply sph_theta_range.
    - apply sph_theta_range.
    - apply atan2_bound.
    - apply atan2_bound.
    - symmetry. apply (spherical_reconstruction c).
    - symmetry. apply (spherical_reconstruction c).
    - symmetry. apply (spherical_reconstruction c).
  Qed.

  Lemma out_spherical_R idx c :
    out_leg_cartesian NumR ifs ray idx = Val c ->
    exists r theta phi,
      out_leg_radius NumR ifs ray idx = Val r /\ out_leg_polar NumR ifs ray idx = Val theta /\
      out_leg_azimuth NumR ifs ray idx = Val phi /\
      0 <= r /\ 0 <= theta <= PI /\ - PI <= phi <= PI /\
      vx c = r * sin theta * cos phi /\ vy c = r * sin theta * sin phi /\ vz c = r * cos theta.
  Proof.
    intros Hc. unfold out_leg_polar, out_leg_azimuth, out_leg_radius. rewrite Hc. cbn [rmap rbind].
    eexists _, _, _. repeat split; try reflexivity.
    - unfold sph_r. rewrite norm2_acc_R. apply sqrt_pos.
    - apply sph_theta_range.
    - apply sph_theta_range.
    - apply atan2_bound.
    - apply atan2_bound.
    - symmetry. apply (spherical_reconstruction c).
    - symmetry. apply (spherical_reconstruction c).
    - symmetry. apply (spherical_reconstruction c).
  Qed.

  (* the unsigned angle is the angle between the leg (from the interface point towards the
     other end) and the third row of the (orthonormal) frame: |leg| cos(theta) = leg . normal *)
  Lemma inc_polar_is_angle_to_normal_R idx a s e B :
    resolve (length ifs) idx = Some (S a) ->
    ray_point ifs ray a = Some s -> ray_point ifs ray (S a) = Some e -> ray_frame ifs ray (S a) = Some B ->
    cols_orthonormal NumR B ->
    exists theta, inc_leg_polar NumR ifs ray idx = Val theta /\ 0 <= theta <= PI /\
                  euclid s e * cos theta = vdot NumR (mrow2 B) (vsub NumR s e).
  Proof.
    intros Hidx Hs He HB Ho.
    rewrite (inc_leg_polar_value NumR ifs ray Hlen idx a s e B Hidx Hs He HB).
    eexists. split; [reflexivity|]. split; [apply sph_theta_range|].
    rewrite <- (from_gcs_radius s e B Ho), <- from_gcs_z.
    apply (spherical_reconstruction (from_gcs NumR s B e)).
  Qed.

  Lemma out_polar_is_angle_to_normal_R idx a s e B :
    resolve (length ifs) idx = Some a -> (S a < length ifs)%nat ->
    ray_point ifs ray a = Some s -> ray_point ifs ray (S a) = Some e -> ray_frame ifs ray a = Some B ->
    cols_orthonormal NumR B ->
    exists theta, out_leg_polar NumR ifs ray idx = Val theta /\ 0 <= theta <= PI /\
                  euclid e s * cos theta = vdot NumR (mrow2 B) (vsub NumR e s).
  Proof.
    intros Hidx Hn Hs He HB Ho.
    rewrite (out_leg_polar_value NumR ifs ray Hlen idx a s e B Hidx Hn Hs He HB).
    eexists. split; [reflexivity|]. split; [apply sph_theta_range|].
    rewrite <- (from_gcs_radius e s B Ho), <- from_gcs_z.
    apply (spherical_reconstruction (from_gcs NumR e B s)).
  Qed.

  (* the documented sign rule *)
  Lemma signed_inc_rule_R idx theta phi :
    inc_leg_polar NumR ifs ray idx = Val theta -> inc_leg_azimuth NumR ifs ray idx = Val phi ->
    (- PI / 2 < phi <= PI / 2 -> signed_inc_angle NumR ifs ray idx = Val theta) /\
    (~ (- PI / 2 < phi <= PI / 2) -> signed_inc_angle NumR ifs ray idx = Val (- theta)).
  Proof.
    intros Hp Ha. unfold signed_inc_angle. rewrite Hp, Ha. cbn [rbind].
    destruct (signed_leg_angle_R theta phi) as [H1 H2].
    split; intros H; [rewrite (H1 H) | rewrite (H2 H)]; reflexivity.
  Qed.

  Lemma signed_out_rule_R idx theta phi :
    out_leg_polar NumR ifs ray idx = Val theta -> out_leg_azimuth NumR ifs ray idx = Val phi ->
    (- PI / 2 < phi <= PI / 2 -> signed_out_angle NumR ifs ray idx = Val theta) /\
    (~ (- PI / 2 < phi <= PI / 2) -> signed_out_angle NumR ifs ray idx = Val (- theta)).
  Proof.
    intros Hp Ha. unfold signed_out_angle. rewrite Hp, Ha. cbn [rbind].
    destruct (signed_leg_angle_R theta phi) as [H1 H2].
    split; intros H; [rewrite (H1 H) | rewrite (H2 H)]; reflexivity.
  Qed.

  (* ... restated on the local coordinates: + iff the leg points to the local x > 0 side
     (for legs in the plane x = 0: iff y >= 0) *)
  Lemma signed_inc_by_local_x_R idx c theta :
    inc_leg_cartesian NumR ifs ray idx = Val c -> inc_leg_polar NumR ifs ray idx = Val theta ->
    ((0 < vx c \/ (vx c = 0 /\ 0 <= vy c)) -> signed_inc_angle NumR ifs ray idx = Val theta) /\
    (~ (0 < vx c \/ (vx c = 0 /\ 0 <= vy c)) -> signed_inc_angle NumR ifs ray idx = Val (- theta)).
  Proof.
    intros Hc Hp.
    assert (Ha : inc_leg_azimuth NumR ifs ray idx = Val (Ratan2 (vy c) (vx c)))
      by (unfold inc_leg_azimuth; rewrite Hc; reflexivity).
    destruct (signed_inc_rule_R idx theta _ Hp Ha) as [H1 H2].
    split; intros H; [apply H1 | apply H2]; rewrite atan2_right_half; exact H.
  Qed.

  Lemma signed_out_by_local_x_R idx c theta :
    out_leg_cartesian NumR ifs ray idx = Val c -> out_leg_polar NumR ifs ray idx = Val theta ->
    ((0 < vx c \/ (vx c = 0 /\ 0 <= vy c)) -> signed_out_angle NumR ifs ray idx = Val theta) /\
    (~ (0 < vx c \/ (vx c = 0 /\ 0 <= vy c)) -> signed_out_angle NumR ifs ray idx = Val (- theta)).
  Proof.
    intros Hc Hp.
    assert (Ha : out_leg_azimuth NumR ifs ray idx = Val (Ratan2 (vy c) (vx c)))
      by (unfold out_leg_azimuth; rewrite Hc; reflexivity).
    destruct (signed_out_rule_R idx theta _ Hp Ha) as [H1 H2].
    split; intros H; [apply H1 | apply H2]; rewrite atan2_right_half; exact H.
  Qed.

  (* conventional angle: theta or its supplement by the normal-side flag; ValueError
     when the flag is None (and a leg exists) *)
  Lemma conventional_inc_R idx a f :
    resolve (length ifs) idx = Some (S a) -> nth_error ifs (S a) = Some f ->
    match if_inc f with
    | Some true => conventional_inc_angle NumR ifs ray idx = inc_leg_polar NumR ifs ray idx
    | Some false => conventional_inc_angle NumR ifs ray idx = rmap (fun t => PI - t) (inc_leg_polar NumR ifs ray idx)
    | None => conventional_inc_angle NumR ifs ray idx = ValueErr
    end.
  Proof.
    intros Hidx Hf.
    assert (E : conventional_inc_angle NumR ifs ray idx = conventional NumR (if_inc f) (inc_leg_polar NumR ifs ray idx)).
    { unfold conventional_inc_angle, numinterfaces. rewrite Hidx. cbn [Nat.eqb]. rewrite Hf. reflexivity. }
    rewrite E. unfold conventional.
    destruct (if_inc f) as [[|]|]; try reflexivity.
    destruct (inc_leg_polar NumR ifs ray idx); cbn [rmap rbind]; try reflexivity. rewrite supplement_R. reflexivity.
  Qed.

  Lemma conventional_out_R idx a f :
    resolve (length ifs) idx = Some a -> (S a < length ifs)%nat -> nth_error ifs a = Some f ->
    match if_out f with
    | Some true => conventional_out_angle NumR ifs ray idx = out_leg_polar NumR ifs ray idx
    | Some false => conventional_out_angle NumR ifs ray idx = rmap (fun t => PI - t) (out_leg_polar NumR ifs ray idx)
    | None => conventional_out_angle NumR ifs ray idx = ValueErr
    end.
  Proof.
    intros Hidx Hn Hf.
    assert (E : conventional_out_angle NumR ifs ray idx = conventional NumR (if_out f) (out_leg_polar NumR ifs ray idx)).
    { unfold conventional_out_angle, numinterfaces. rewrite Hidx, (not_last ifs ray Hlen a Hn), Hf. reflexivity. }
    rewrite E. unfold conventional.
    destruct (if_out f) as [[|]|]; try reflexivity.
    destruct (out_leg_polar NumR ifs ray idx); cbn [rmap rbind]; try reflexivity. rewrite supplement_R. reflexivity.
  Qed.

  Lemma conventional_inc_range_R idx t : conventional_inc_angle NumR ifs ray idx = Val t -> 0 <= t <= PI.
  Proof.
    unfold conventional_inc_angle. destruct (resolve (numinterfaces ifs) idx) as [a|]; [|discriminate].
    destruct (Nat.eqb a 0); [discriminate|]. destruct (nth_error ifs a) as [f|]; [|discriminate].
    cbn [of_opt rbind]. unfold conventional. destruct (if_inc f) as [[|]|]; [| |discriminate].
    - apply inc_polar_range_R.
    - destruct (inc_leg_polar NumR ifs ray idx) as [p| | |] eqn:E; cbn [rmap rbind]; try discriminate.
      intros H. assert (Et : supplement NumR p = t) by congruence. rewrite <- Et, supplement_R. pose proof (inc_polar_range_R idx p E). lra.
  Qed.

  Lemma conventional_out_range_R idx t : conventional_out_angle NumR ifs ray idx = Val t -> 0 <= t <= PI.
  Proof.
    unfold conventional_out_angle. destruct (resolve (numinterfaces ifs) idx) as [a|]; [|discriminate].
    destruct (Nat.eqb a (last_interface ifs)); [discriminate|]. destruct (nth_error ifs a) as [f|]; [|discriminate].
    cbn [of_opt rbind]. unfold conventional. destruct (if_out f) as [[|]|]; [| |discriminate].
    - apply out_polar_range_R.
    - destruct (out_leg_polar NumR ifs ray idx) as [p| | |] eqn:E; cbn [rmap rbind]; try discriminate.
      intros H. assert (Et : supplement NumR p = t) by congruence. rewrite <- Et, supplement_R. pose proof (out_polar_range_R idx p E). lra.
  Qed.
End OneRay.

(* ---- orthonormal frames that are not in-plane rotations (non-vacuity of the hypotheses) ------ *)
(* rows: i_hat, j_hat, k_hat of a yaw (a) - pitch (b) rotation; sgn = -1 flips the first tangent
   (improper frame) *)
Definition yaw_pitch_frame (sgn a b : R) : mat3 R :=
  ((sgn * (cos a * cos b), sgn * (sin a * cos b), sgn * (- sin b)),
   (- sin a, cos a, 0),
   (cos a * sin b, sin a * sin b, cos b)).


Lemma yaw_pitch_frames_orthonormal a b :
  cols_orthonormal NumR (yaw_pitch_frame 1 a b) /\ cols_orthonormal NumR (yaw_pitch_frame (-1) a b) /\
  rows_orthonormal NumR (yaw_pitch_frame 1 a b) /\ rows_orthonormal NumR (yaw_pitch_frame (-1) a b).
Proof.
  pose proof (sin2_cos2 a) as Ha. pose proof (sin2_cos2 b) as Hb. unfold Rsqr in Ha, Hb.
  assert (Rg : forall sgn, sgn * sgn = 1 -> rows_orthonormal NumR (yaw_pitch_frame sgn a b)).
  { intros sgn Hsg. unfold yaw_pitch_frame. v3_unfold. v3_split; nsatz. }
  assert (R1 : rows_orthonormal NumR (yaw_pitch_frame 1 a b)) by (apply Rg; lra).
  assert (R2 : rows_orthonormal NumR (yaw_pitch_frame (-1) a b)) by (apply Rg; lra).
  repeat split; try assumption; apply rows_to_cols; assumption.
Qed.
