(* Proofs/ReciprocityProofs.v — why the immersion forward model is reciprocal (C03).

   Part A (any field): at one interface the forward displacement coefficient F and the
     reverse displacement coefficient G (the factors of transmission_reflection_for_path
     and reverse_transmission_reflection_for_path on the (sin, cos) layer of
     Model/Interface.v) satisfy
         F * cos_out * z_out = s * G * cos_in * z_in,
     z = density * velocity of the leg, s = -1 iff exactly one of the two legs is T.
     These are the Stokes relations of C04 rewritten for displacement units.
   Part B (any field): telescoping over the interfaces of a ray.
   Part C (reals): the virtual distances of the two directions differ by the product of the
     gammas; gamma_k = v_in cos^2 out / (v_out cos^2 in).
   Part D (reals): Q * c_last^2 * sigma = kappa * Q'  and the reciprocity of a view. *)
From Coq Require Import List ZArith Bool Reals Lra Field.
From Arim Require Import Base.Num Base.NumR Model.Interface Model.Beamspread Model.Weights
                         Proofs.InterfaceProofs Proofs.BeamspreadProofs.
Import ListNotations.

(* ===================================================================== *)
Section AbstractField.
  Context {K : Type} (N : Num K).
  Hypothesis Fth : field_theory (n0 N) (n1 N) (nadd N) (nmul N) (nsub N) (nopp N) (ndiv N)
                                (fun x => ndiv N (n1 N) x) (@eq K).
  Hypothesis two_def : nofZ N 2%Z = nadd N (n1 N) (n1 N).
  Add Field KF2 : Fth.
  Local Notation "a + b" := (nadd N a b).
  Local Notation "a - b" := (nsub N a b).
  Local Notation "a * b" := (nmul N a b).
  Local Notation "a / b" := (ndiv N a b).
  Local Notation "- a" := (nopp N a).
  Local Notation zero := (n0 N).
  Local Notation one := (n1 N).

  (* ---- Part A: the six interface cases of an immersion path -------------------- *)
  Section OneInterface.
    Variables sf cf sl cl st ct rho_f rho_s v_f v_l v_t : K.
    Hypothesis Hcf : cf <> zero. Hypothesis Hcl : cl <> zero. Hypothesis Hct : ct <> zero.
    Hypothesis Hrf : rho_f <> zero. Hypothesis Hrs : rho_s <> zero.
    Hypothesis Hvf : v_f <> zero. Hypothesis Hvl : v_l <> zero. Hypothesis Hvt : v_t <> zero.
    Hypothesis Hsn : sl * v_t = st * v_l.        (* Snell between the L and T angles *)
    Hypothesis Hn : fluid_solid_n_sc N sf cf sl cl st ct rho_f rho_s v_f v_l v_t <> zero.

    Let FS := fluid_solid_sc N sf cf sl cl st ct rho_f rho_s v_f v_l v_t.
    Let LF := solid_l_fluid_sc N sf cf sl cl st ct rho_f rho_s v_f v_l v_t.
    Let TF := solid_t_fluid_sc N sf cf sl cl st ct rho_f rho_s v_f v_l v_t.

    (* front wall, fluid -> L :  F = T_fl zf/zl ; G = T_lf zl/zf *)
    Lemma ratio_front_L :
      (snd3 FS * ((rho_f * v_f) / (rho_s * v_l))) * cl * (rho_s * v_l)
      = (thd3 LF * ((rho_s * v_l) / (rho_f * v_f))) * cf * (rho_f * v_f).
    Proof.
      unfold FS, LF. rewrite (stokes_fl_F N Fth two_def) by assumption. field. repeat split; assumption.
    Qed.

    (* front wall, fluid -> T :  sign -1 *)
    Lemma ratio_front_T :
      (thd3 FS * ((rho_f * v_f) / (rho_s * v_t))) * ct * (rho_s * v_t)
      = - one * (thd3 TF * ((rho_s * v_t) / (rho_f * v_f))) * cf * (rho_f * v_f).
    Proof.
      unfold FS, TF. rewrite (stokes_ft_F N Fth two_def) by assumption. field. repeat split; assumption.
    Qed.

    (* reflection L -> T :  F = R_lt v_l/v_t ; G = R_tl v_t/v_l ; sign -1 *)
    Lemma ratio_refl_LT :
      (snd3 LF * (v_l / v_t)) * ct * (rho_s * v_t)
      = - one * (fst3 TF * (v_t / v_l)) * cl * (rho_s * v_l).
    Proof.
      unfold LF, TF. rewrite (stokes_lt_F N Fth two_def) by assumption. field. repeat split; assumption.
    Qed.

    (* reflection T -> L :  F = R_tl v_t/v_l ; G = R_lt v_l/v_t ; sign -1 *)
    Lemma ratio_refl_TL :
      (fst3 TF * (v_t / v_l)) * cl * (rho_s * v_l)
      = - one * (snd3 LF * (v_l / v_t)) * ct * (rho_s * v_t).
    Proof.
      unfold LF, TF. rewrite (stokes_lt_F N Fth two_def) by assumption. field. repeat split; assumption.
    Qed.

    (* reflections without mode conversion: the same coefficient at the same angle *)
    Lemma ratio_refl_LL :
      (fst3 LF * (v_l / v_l)) * cl * (rho_s * v_l) = (fst3 LF * (v_l / v_l)) * cl * (rho_s * v_l).
    Proof. reflexivity. Qed.
    Lemma ratio_refl_TT :
      (snd3 TF * (v_t / v_t)) * ct * (rho_s * v_t) = (snd3 TF * (v_t / v_t)) * ct * (rho_s * v_t).
    Proof. reflexivity. Qed.
  End OneInterface.

  (* ---- Part B: telescoping --------------------------------------------------------- *)
  Record rfact := mkRfact { rF : K; rG : K; rcin : K; rcout : K; rzin : K; rzout : K; rsgn : bool }.
  Definition sgnK (b : bool) : K := if b then - one else one.
  Definition ratio_ok (x : rfact) : Prop :=
    rF x * rcout x * rzout x = sgnK (rsgn x) * rG x * rcin x * rzin x.

  Fixpoint prodK (f : rfact -> K) (l : list rfact) : K :=
    match l with [] => one | x :: l => f x * prodK f l end.

  Lemma telescoping l : Forall ratio_ok l ->
    prodK rF l * prodK (fun x => rcout x * rzout x) l
    = prodK (fun x => sgnK (rsgn x)) l * prodK rG l * prodK (fun x => rcin x * rzin x) l.
  Proof.
    induction l as [|x l IH]; intros H; simpl; [ring|].
    inversion H as [|? ? Hx Hl]; subst. specialize (IH Hl). unfold ratio_ok in Hx.
    transitivity ((rF x * rcout x * rzout x) * (prodK rF l * prodK (fun x0 => rcout x0 * rzout x0) l)); [ring|].
    rewrite Hx, IH. ring.
  Qed.

  (* the product of the signs only depends on the parity of the number of conversions *)
  Lemma sgn_mul a b : sgnK a * sgnK b = sgnK (xorb a b).
  Proof. destruct a, b; simpl; ring. Qed.

  Lemma prod_sgn l : prodK (fun x => sgnK (rsgn x)) l = sgnK (fold_right xorb false (map rsgn l)).
  Proof. induction l as [|x l IH]; simpl; [reflexivity|]. rewrite IH. apply sgn_mul. Qed.

  (* consecutive interfaces share a leg: z_out of one is z_in of the next *)
  Fixpoint chained (l : list rfact) : Prop :=
    match l with
    | x :: ((y :: _) as l') => rzout x = rzin y /\ chained l'
    | _ => True
    end.

  Lemma last_indep l : forall (z x y : rfact), last (z :: l) x = last (z :: l) y.
  Proof. induction l as [|w l IH]; intros z x y; [reflexivity|]. exact (IH w x y). Qed.

  Lemma last_cons_default (y : rfact) l x : last (y :: l) x = last l y.
  Proof. destruct l as [|z l]; [reflexivity|]. exact (last_indep l z x y). Qed.

  Lemma chain_z l : forall x, chained (x :: l) ->
    prodK rzout (x :: l) * rzin x = prodK rzin (x :: l) * rzout (last l x).
  Proof.
    induction l as [|y l IH]; intros x H.
    - simpl. ring.
    - destruct H as [E H']. specialize (IH y H'). rewrite last_cons_default.
      change (prodK rzout (x :: y :: l)) with (rzout x * prodK rzout (y :: l)).
      change (prodK rzin (x :: y :: l)) with (rzin x * prodK rzin (y :: l)).
      rewrite E.
      transitivity (rzin x * (prodK rzout (y :: l) * rzin y)); [ring|].
      rewrite IH. ring.
  Qed.
End AbstractField.

(* ===================================================================== *)
(* Part C (reals): virtual distances of the two directions                  *)
Local Open Scope R_scope.

(* gamma of the reverse function = 1 / gamma of the forward function at the same
   interface and the same angle (pure algebra: no Snell needed) *)
Lemma rev_gamma_inv vn vp th : 0 < vn -> 0 < vp -> cos th <> 0 ->
  1 - vn / vp * (vn / vp) * sin th * sin th <> 0 ->
  rev_gamma_of NumR vn vp th = / gamma_of NumR vp vn th.
Proof.
  intros Hn Hp Hc Hd. unfold rev_gamma_of, gamma_of. cbn [NumR nsin ncos nmul nsub ndiv n1].
  field. repeat split; try lra.
  intro E. apply Hd.
  replace (1 - vn / vp * (vn / vp) * sin th * sin th) with ((vp * vp - sin th * sin th * (vn * vn)) / (vp * vp)) by (field; lra).
  rewrite E. field. lra.
Qed.

Definition S_of (xs : list (R * R)) : R := fst (fold_left (run_step NumR) xs (0, 1)).
Definition P_of (xs : list (R * R)) : R := fold_right (fun gr p => fst gr * p) 1 xs.

Lemma fold_run_linear xs : forall v G, G <> 0 -> Forall (fun gr => fst gr <> 0) xs ->
  fst (fold_left (run_step NumR) xs (v, G)) = v + S_of xs / G
  /\ snd (fold_left (run_step NumR) xs (v, G)) = G * P_of xs.
Proof.
  induction xs as [|[g r] xs IH]; intros v G HG Hx.
  - unfold S_of, P_of. simpl. split; field; assumption.
  - inversion Hx as [|? ? Hg Hx']; subst. simpl in Hg.
    unfold S_of. cbn [fold_left run_step NumR nmul nadd ndiv].
    assert (HGg : G * g <> 0) by (apply Rmult_integral_contrapositive_currified; assumption).
    assert (H1g : 1 * g <> 0) by (rewrite Rmult_1_l; assumption).
    destruct (IH (v + r / (G * g)) (G * g) HGg Hx') as [E1 E2].
    destruct (IH (0 + r / (1 * g)) (1 * g) H1g Hx') as [F1 _].
    rewrite E1, E2, F1. unfold P_of. simpl. split; field; repeat split; assumption.
Qed.

Lemma vd_pairs r1 xs :
  virtual_distance NumR (r1 :: map snd xs) (map fst xs) = fst (fold_left (run_step NumR) xs (r1, 1)).
Proof.
  rewrite vd_running by (rewrite !map_length; apply le_n).
  cbn [NumR n1]. f_equal. f_equal. clear. induction xs as [|[g r] xs IH]; simpl; [reflexivity|]. rewrite IH. reflexivity.
Qed.

(* Horner form: the first gamma divides everything behind the first leg *)
Lemma vd_cons r g l1 xs : g <> 0 -> Forall (fun gr => fst gr <> 0) xs ->
  virtual_distance NumR (r :: l1 :: map snd xs) (g :: map fst xs)
  = r + virtual_distance NumR (l1 :: map snd xs) (map fst xs) / g.
Proof.
  intros Hg Hx.
  change (r :: l1 :: map snd xs) with (r :: map snd ((g, l1) :: xs)).
  change (g :: map fst xs) with (map fst ((g, l1) :: xs)).
  rewrite !vd_pairs. cbn [fold_left run_step NumR nmul nadd ndiv].
  assert (H1g : 1 * g <> 0) by (rewrite Rmult_1_l; assumption).
  destruct (fold_run_linear xs (r + l1 / (1 * g)) (1 * g) H1g Hx) as [E _].
  destruct (fold_run_linear xs l1 1 R1_neq_R0 Hx) as [F _].
  rewrite E, F. field. assumption.
Qed.

(* appending a leg behind the last interface *)
Lemma vd_snoc r1 xs g r : g <> 0 -> Forall (fun gr => fst gr <> 0) xs ->
  virtual_distance NumR (r1 :: map snd (xs ++ [(g, r)])) (map fst (xs ++ [(g, r)]))
  = virtual_distance NumR (r1 :: map snd xs) (map fst xs) + r / (P_of xs * g).
Proof.
  intros Hg Hx. rewrite !vd_pairs, fold_left_app.
  destruct (fold_left (run_step NumR) xs (r1, 1)) as [v G] eqn:E.
  destruct (fold_run_linear xs r1 1 R1_neq_R0 Hx) as [_ F2]. rewrite E in F2. simpl in F2.
  cbn [fold_left run_step NumR nmul nadd ndiv fst]. rewrite F2. f_equal. f_equal. ring.
Qed.

Lemma P_of_app xs ys : P_of (xs ++ ys) = P_of xs * P_of ys.
Proof. unfold P_of. induction xs as [|x xs IH]; simpl; [ring|]. rewrite IH. ring. Qed.

Lemma P_of_nonzero xs : Forall (fun gr => fst gr <> 0) xs -> P_of xs <> 0.
Proof.
  induction 1 as [|x xs Hx _ IH]; unfold P_of; simpl; [exact R1_neq_R0|].
  apply Rmult_integral_contrapositive_currified; assumption.
Qed.

(* ---- the reversed ray, on (gamma, leg) pairs --------------------------------------
   A ray is its first leg r1 and the list xs = [(gamma_1, r_2); ...; (gamma_{n-1}, r_n)].
   revp gives the same ray travelled backwards: first leg r_n, then
   [(1/gamma_{n-1}, r_{n-1}); ...; (1/gamma_1, r_1)]. *)
Fixpoint revp (r1 : R) (xs : list (R * R)) : R * list (R * R) :=
  match xs with
  | [] => (r1, [])
  | (g, r) :: xs' => let '(l, ys) := revp r xs' in (l, ys ++ [(/ g, r1)])
  end.

Definition hp (r1 : R) (xs : list (R * R)) : R := fst (fold_left (run_step NumR) xs (r1, 1)).

Lemma hp_cons r1 g r xs : g <> 0 -> Forall (fun gr => fst gr <> 0) xs ->
  hp r1 ((g, r) :: xs) = r1 + hp r xs / g.
Proof.
  intros Hg Hx. unfold hp. cbn [fold_left run_step NumR nmul nadd ndiv].
  assert (H1g : 1 * g <> 0) by (rewrite Rmult_1_l; assumption).
  destruct (fold_run_linear xs (r1 + r / (1 * g)) (1 * g) H1g Hx) as [E _].
  destruct (fold_run_linear xs r 1 R1_neq_R0 Hx) as [F _].
  rewrite E, F. field. assumption.
Qed.

Lemma hp_snoc r1 xs g r : Forall (fun gr => fst gr <> 0) xs ->
  hp r1 (xs ++ [(g, r)]) = hp r1 xs + r / (P_of xs * g).
Proof.
  intros Hx. unfold hp. rewrite fold_left_app.
  destruct (fold_left (run_step NumR) xs (r1, 1)) as [v G] eqn:E.
  destruct (fold_run_linear xs r1 1 R1_neq_R0 Hx) as [_ F2]. rewrite E in F2. simpl in F2.
  cbn [fold_left run_step NumR nmul nadd ndiv fst]. rewrite F2. f_equal. f_equal. ring.
Qed.

Lemma revp_facts xs : forall r1, Forall (fun gr => fst gr <> 0) xs ->
  Forall (fun gr => fst gr <> 0) (snd (revp r1 xs)) /\ P_of (snd (revp r1 xs)) * P_of xs = 1.
Proof.
  induction xs as [|[g r] xs IH]; intros r1 Hx.
  - simpl. split; [constructor | unfold P_of; simpl; ring].
  - inversion Hx as [|? ? Hg Hx']; subst. simpl in Hg. specialize (IH r Hx'). simpl.
    destruct (revp r xs) as [l ys]. simpl in IH. destruct IH as [IH1 IH2]. simpl. split.
    + apply Forall_app. split; [assumption|]. constructor; [|constructor]. simpl. apply Rinv_neq_0_compat. assumption.
    + rewrite P_of_app. unfold P_of at 2. simpl. unfold P_of at 2. simpl. fold (P_of xs).
      transitivity ((P_of ys * P_of xs) * (/ g * g)); [ring|]. rewrite IH2. field. assumption.
Qed.

(* the reverse virtual distance is the forward one times the product of the gammas *)
Lemma reverse_virtual_distance_pairs xs : forall r1, Forall (fun gr => fst gr <> 0) xs ->
  hp (fst (revp r1 xs)) (snd (revp r1 xs)) = P_of xs * hp r1 xs.
Proof.
  induction xs as [|[g r] xs IH]; intros r1 Hx.
  - unfold hp, P_of. simpl. ring.
  - inversion Hx as [|? ? Hg Hx']; subst. simpl in Hg.
    specialize (IH r Hx'). destruct (revp_facts xs r Hx') as [Hys HP].
    simpl. destruct (revp r xs) as [l ys]. simpl in *.
    rewrite hp_snoc by assumption. rewrite IH. rewrite hp_cons by assumption.
    unfold P_of at 3. simpl. fold (P_of xs).
    assert (Hpx : P_of xs <> 0) by (apply P_of_nonzero; assumption).
    assert (Hpy : P_of ys = / P_of xs).
    { apply Rmult_eq_reg_r with (P_of xs); [|assumption]. rewrite HP. field. assumption. }
    rewrite Hpy. field. split; assumption.
Qed.

(* list plumbing: revp produces exactly the reversed legs and the reversed inverted gammas *)
Lemma revp_lists xs : forall r1,
  fst (revp r1 xs) :: map snd (snd (revp r1 xs)) = rev (r1 :: map snd xs)
  /\ map fst (snd (revp r1 xs)) = map Rinv (rev (map fst xs)).
Proof.
  induction xs as [|[g r] xs IH]; intros r1; [simpl; split; reflexivity|].
  specialize (IH r). simpl. destruct (revp r xs) as [l ys]. simpl in *. destruct IH as [IH1 IH2]. split.
  - rewrite map_app. simpl. rewrite app_comm_cons, IH1. reflexivity.
  - rewrite map_app, IH2. simpl. rewrite map_app. reflexivity.
Qed.

Lemma hp_is_vd r1 xs : hp r1 xs = virtual_distance NumR (r1 :: map snd xs) (map fst xs).
Proof. symmetry. apply vd_pairs. Qed.

Lemma reverse_virtual_distance r1 xs : Forall (fun gr => fst gr <> 0) xs ->
  virtual_distance NumR (rev (r1 :: map snd xs)) (map Rinv (rev (map fst xs)))
  = P_of xs * virtual_distance NumR (r1 :: map snd xs) (map fst xs).
Proof.
  intros Hx. destruct (revp_lists xs r1) as [E1 E2]. rewrite <- E1, <- E2, <- !hp_is_vd.
  apply reverse_virtual_distance_pairs. assumption.
Qed.

(* ===================================================================== *)
(* Part D: Q * c_last^2 * sigma = kappa * Q'                                *)
(* X = prod_k cos(out_k)/cos(in_k) over the interior interfaces (> 0 for a ray that is not
   grazing); the three hypotheses are discharged by, respectively,
   reverse_virtual_distance (vd' = P vd), gamma_is_beta_R + chained velocities
   (P = (c0/c_last) X^2), and telescoping + chain_z (products of the Stokes relations). *)
Lemma qratio_combination D TRp TRr vd vd' Pg A lam c0 cl rho_f rho_s f X s :
  0 < vd -> 0 < c0 -> 0 < cl -> 0 < rho_f -> 0 < rho_s -> 0 < f -> 0 < X ->
  s * s = 1 ->
  vd' = Pg * vd ->
  Pg = (c0 / cl) * (X * X) ->
  TRp * X * (rho_s * cl) = s * TRr * (rho_f * c0) ->
  lam = cl / f ->
  let Q := D * TRp * (1 / sqrt vd) * A in
  let Q' := D * TRr * (1 / sqrt vd') * A * sqrt lam in
  Q * (cl * cl) * s = (rho_f * c0 * sqrt (c0 * f) / rho_s) * Q'.
Proof.
  intros Hvd Hc0 Hcl Hrf Hrs Hf HX Hs Evd EPg ETR Elam Q Q'.
  set (a := sqrt c0). set (b := sqrt cl). set (ff := sqrt f). set (v := sqrt vd).
  assert (Ha : 0 < a) by (apply sqrt_lt_R0; assumption).
  assert (Hb : 0 < b) by (apply sqrt_lt_R0; assumption).
  assert (Hff : 0 < ff) by (apply sqrt_lt_R0; assumption).
  assert (Hv : 0 < v) by (apply sqrt_lt_R0; assumption).
  assert (Ea : a * a = c0) by (apply sqrt_sqrt; lra).
  assert (Eb : b * b = cl) by (apply sqrt_sqrt; lra).
  assert (Ef : ff * ff = f) by (apply sqrt_sqrt; lra).
  assert (S1 : sqrt (c0 * f) = a * ff) by (apply sqrt_mult; lra).
  assert (S2 : sqrt lam = b / ff).
  { rewrite Elam. apply sqrt_div_alt. assumption. }
  assert (S3 : sqrt vd' = a / b * X * v).
  { rewrite Evd, EPg. rewrite sqrt_mult; [| | lra].
    - rewrite sqrt_mult; [| | nra].
      + rewrite sqrt_div_alt by assumption. rewrite sqrt_square by lra. reflexivity.
      + apply Rlt_le, Rdiv_lt_0_compat; assumption.
    - apply Rlt_le, Rmult_lt_0_compat; [apply Rdiv_lt_0_compat; assumption | nra]. }
  (* TRr from the telescoped Stokes relation: 1/s = s *)
  assert (ETR' : TRr = s * TRp * X * (rho_s * cl) / (rho_f * c0)).
  { apply Rmult_eq_reg_r with (rho_f * c0); [| apply Rgt_not_eq, Rmult_lt_0_compat; assumption].
    transitivity (s * (s * TRr * (rho_f * c0))); [replace (s * (s * TRr * (rho_f * c0))) with ((s * s) * TRr * (rho_f * c0)) by ring; rewrite Hs; ring|].
    rewrite <- ETR. field. split; lra. }
  unfold Q, Q'. rewrite S1, S2, S3, ETR'. fold v. rewrite <- Ea, <- Eb.
  field. repeat split; lra.
Qed.

(* product of the gammas of a ray: gamma_k = v_in cos^2(out) / (v_out cos^2(in)) at every
   interface (gamma_is_beta_R), consecutive interfaces sharing a leg *)
Record gfact := mkGfact { gvin : R; gvout : R; gcin : R; gcout : R }.
Definition gamma_beta (x : gfact) : R := gvin x * (gcout x * gcout x) / (gvout x * (gcin x * gcin x)).
Definition gpos (x : gfact) : Prop := 0 < gvin x /\ 0 < gvout x /\ 0 < gcin x /\ 0 < gcout x.
Fixpoint gchained (l : list gfact) : Prop :=
  match l with
  | x :: ((y :: _) as l') => gvout x = gvin y /\ gchained l'
  | _ => True
  end.
Definition gprod (f : gfact -> R) (l : list gfact) : R := fold_right (fun x p => f x * p) 1 l.

Lemma gprod_pos f l : Forall (fun x => 0 < f x) l -> 0 < gprod f l.
Proof. induction 1; unfold gprod; simpl; [lra|]. apply Rmult_lt_0_compat; assumption. Qed.

Lemma gammas_product l : forall x, Forall gpos (x :: l) -> gchained (x :: l) ->
  gprod gamma_beta (x :: l) * gvout (last l x) * (gprod gcin (x :: l) * gprod gcin (x :: l))
  = gvin x * (gprod gcout (x :: l) * gprod gcout (x :: l)).
Proof.
  induction l as [|y l IH]; intros x Hp Hc.
  - inversion Hp as [|? ? (H1 & H2 & H3 & H4) _]; subst. unfold gprod, gamma_beta. simpl. field. split; lra.
  - inversion Hp as [|? ? (H1 & H2 & H3 & H4) Hp']; subst. destruct Hc as [E Hc'].
    specialize (IH y Hp' Hc').
    assert (L : last (y :: l) x = last l y).
    { clear. destruct l as [|z l]; [reflexivity|]. change (last (y :: z :: l) x) with (last (z :: l) x).
      revert z. induction l as [|w l IHl]; intros z; [reflexivity|]. exact (IHl w). }
    rewrite L.
    change (gprod gamma_beta (x :: y :: l)) with (gamma_beta x * gprod gamma_beta (y :: l)).
    change (gprod gcin (x :: y :: l)) with (gcin x * gprod gcin (y :: l)).
    change (gprod gcout (x :: y :: l)) with (gcout x * gprod gcout (y :: l)).
    transitivity (gamma_beta x * (gcin x * gcin x)
                  * (gprod gamma_beta (y :: l) * gvout (last l y) * (gprod gcin (y :: l) * gprod gcin (y :: l)))); [ring|].
    rewrite IH. unfold gamma_beta. rewrite E. field. split; [lra|].
    inversion Hp' as [|? ? (K1 & _) _]; subst. lra.
Qed.

(* ---- reciprocity of a view from the Q/Q' ratio ---------------------------------------
   P_ij(X-Y)      = S_xy(a, b) * Q_i[X]      * Q'_j[rev Y]
   P_ji(rY-rX)    = S_yx(b, a) * Q_j[rev Y]  * Q'_i[X]
   x = last mode of X, y = first mode of Y = last mode of rev Y.  Complex quantities are
   handled by the same identity in the field of complex numbers (lemma below is stated on
   an abstract field through `Add Field`; here over R and over the complex pairs). *)
Lemma view_reciprocity_R kappa cx cy sx sy QiX Q'iX QjY Q'jY Sxy Syx :
  cx <> 0 -> cy <> 0 -> sx * sx = 1 -> sy * sy = 1 ->
  QiX * (cx * cx) * sx = kappa * Q'iX ->
  QjY * (cy * cy) * sy = kappa * Q'jY ->
  sx * Sxy / (cx * cx) = sy * Syx / (cy * cy) ->
  Sxy * QiX * Q'jY = Syx * QjY * Q'iX.
Proof.
  intros Hcx Hcy Hsx Hsy HX HY HS.
  assert (EX : QiX = kappa * Q'iX * sx / (cx * cx)).
  { apply Rmult_eq_reg_r with (cx * cx); [|apply Rmult_integral_contrapositive_currified; assumption].
    transitivity (QiX * (cx * cx) * (sx * sx)); [rewrite Hsx; ring|].
    replace (QiX * (cx * cx) * (sx * sx)) with (QiX * (cx * cx) * sx * sx) by ring. rewrite HX. field. assumption. }
  assert (EY : QjY = kappa * Q'jY * sy / (cy * cy)).
  { apply Rmult_eq_reg_r with (cy * cy); [|apply Rmult_integral_contrapositive_currified; assumption].
    transitivity (QjY * (cy * cy) * (sy * sy)); [rewrite Hsy; ring|].
    replace (QjY * (cy * cy) * (sy * sy)) with (QjY * (cy * cy) * sy * sy) by ring. rewrite HY. field. assumption. }
  rewrite EX, EY.
  transitivity (kappa * Q'iX * Q'jY * (sx * Sxy / (cx * cx))); [field; assumption|].
  rewrite HS. field. assumption.
Qed.

(* ===================================================================== *)
(* Part E: the chain instantiated end to end on the direct paths L and T (one interface),
   from the (sin, cos) layer of the interface model to the ray weights.                 *)
Section DirectPaths.
  Variables sf cf sl cl st ct rho_f rho_s v_f v_l v_t : R.
  Hypothesis Hcf : 0 < cf. Hypothesis Hcl : 0 < cl. Hypothesis Hct : 0 < ct.
  Hypothesis Hrf : 0 < rho_f. Hypothesis Hrs : 0 < rho_s.
  Hypothesis Hvf : 0 < v_f. Hypothesis Hvl : 0 < v_l. Hypothesis Hvt : 0 < v_t.
  Hypothesis Hsn : sl * v_t = st * v_l.
  Hypothesis Hn : fluid_solid_n_sc NumR sf cf sl cl st ct rho_f rho_s v_f v_l v_t <> 0.
  Variables r1 r2 D A f : R.
  Hypothesis Hr1 : 0 < r1. Hypothesis Hr2 : 0 < r2. Hypothesis Hf : 0 < f.

  Let FS := fluid_solid_sc NumR sf cf sl cl st ct rho_f rho_s v_f v_l v_t.
  Let LF := solid_l_fluid_sc NumR sf cf sl cl st ct rho_f rho_s v_f v_l v_t.
  Let TF := solid_t_fluid_sc NumR sf cf sl cl st ct rho_f rho_s v_f v_l v_t.
  Let kappa := rho_f * v_f * sqrt (v_f * f) / rho_s.

  (* path "L": legs r1 (couplant), r2 (block, L); gamma = v_f cl^2 / (v_l cf^2) *)
  Lemma qratio_direct_L :
    let g := v_f * (cl * cl) / (v_l * (cf * cf)) in
    let Q  := D * (snd3 FS * ((rho_f * v_f) / (rho_s * v_l))) * (1 / sqrt (r1 + r2 / g)) * A in
    let Q' := D * (thd3 LF * ((rho_s * v_l) / (rho_f * v_f))) * (1 / sqrt (r2 + r1 / (/ g))) * A * sqrt (v_l / f) in
    Q * (v_l * v_l) * 1 = kappa * Q'.
  Proof.
    intros g Q Q'. unfold kappa.
    assert (Hg : 0 < g) by (unfold g; apply Rdiv_lt_0_compat; repeat apply Rmult_lt_0_compat; assumption).
    assert (Eg : g = v_f / v_l * (cl / cf * (cl / cf))) by (unfold g; field; lra).
    unfold Q, Q'. clearbody g.
    apply (qratio_combination D _ _ (r1 + r2 / g) (r2 + r1 / (/ g)) g A (v_l / f) v_f v_l rho_f rho_s f (cl / cf) 1);
      try assumption; try lra.
    - assert (0 < r2 / g) by (apply Rdiv_lt_0_compat; assumption). lra.
    - apply Rdiv_lt_0_compat; assumption.
    - field. lra.
    - pose proof (ratio_front_L NumR NumR_field NumR_two sf cf sl cl st ct rho_f rho_s v_f v_l v_t
                    (Rgt_not_eq _ _ Hcf) (Rgt_not_eq _ _ Hrf) (Rgt_not_eq _ _ Hrs) (Rgt_not_eq _ _ Hvf)
                    (Rgt_not_eq _ _ Hvl) Hn) as E.
      cbn [NumR nmul ndiv] in E. fold FS LF in E.
      apply Rmult_eq_reg_r with cf; [|lra].
      transitivity (snd3 FS * (rho_f * v_f / (rho_s * v_l)) * cl * (rho_s * v_l)); [field; lra|].
      rewrite E. ring.
  Qed.

  (* path "T": legs r1 (couplant), r2 (block, T); sign -1 *)
  Lemma qratio_direct_T :
    let g := v_f * (ct * ct) / (v_t * (cf * cf)) in
    let Q  := D * (thd3 FS * ((rho_f * v_f) / (rho_s * v_t))) * (1 / sqrt (r1 + r2 / g)) * A in
    let Q' := D * (thd3 TF * ((rho_s * v_t) / (rho_f * v_f))) * (1 / sqrt (r2 + r1 / (/ g))) * A * sqrt (v_t / f) in
    Q * (v_t * v_t) * (-1) = kappa * Q'.
  Proof.
    intros g Q Q'. unfold kappa.
    assert (Hg : 0 < g) by (unfold g; apply Rdiv_lt_0_compat; repeat apply Rmult_lt_0_compat; assumption).
    assert (Eg : g = v_f / v_t * (ct / cf * (ct / cf))) by (unfold g; field; lra).
    unfold Q, Q'. clearbody g.
    apply (qratio_combination D _ _ (r1 + r2 / g) (r2 + r1 / (/ g)) g A (v_t / f) v_f v_t rho_f rho_s f (ct / cf) (-1));
      try assumption; try lra.
    - assert (0 < r2 / g) by (apply Rdiv_lt_0_compat; assumption). lra.
    - apply Rdiv_lt_0_compat; assumption.
    - field. lra.
    - pose proof (ratio_front_T NumR NumR_field NumR_two sf cf sl cl st ct rho_f rho_s v_f v_l v_t
                    (Rgt_not_eq _ _ Hcf) (Rgt_not_eq _ _ Hrf) (Rgt_not_eq _ _ Hrs) (Rgt_not_eq _ _ Hvf)
                    (Rgt_not_eq _ _ Hvl) (Rgt_not_eq _ _ Hvt) Hsn Hn) as E.
      cbn [NumR nmul ndiv nopp n1] in E. fold FS TF in E.
      apply Rmult_eq_reg_r with cf; [|lra].
      transitivity (thd3 FS * (rho_f * v_f / (rho_s * v_t)) * ct * (rho_s * v_t)); [field; lra|].
      rewrite E. ring.
  Qed.
End DirectPaths.

(* ===================================================================== *)
(* Part F: the general theorem — any number of interior interfaces.          *)
(* One record per interior interface of the ray (all real, sub-critical regime).  F, G are
   the forward / reverse displacement coefficients; the other fields are the cosines of the
   incidence and outgoing angles, and velocity and density of the incoming and outgoing legs. *)
Record ifr := mkIfr { fF : R; fG : R; fcin : R; fcout : R; fvin : R; fvout : R; frin : R; frout : R; fsgn : bool }.

Definition ifr_pos (x : ifr) : Prop :=
  0 < fcin x /\ 0 < fcout x /\ 0 < fvin x /\ 0 < fvout x /\ 0 < frin x /\ 0 < frout x.
Definition ifr_gamma (x : ifr) : R := fvin x * (fcout x * fcout x) / (fvout x * (fcin x * fcin x)).
Definition ifr_sign (x : ifr) : R := if fsgn x then -1 else 1.
(* the Stokes relation in displacement units at this interface (discharged by ratio_front_L,
   ratio_front_T, ratio_refl_LT, ratio_refl_TL, ratio_refl_LL, ratio_refl_TT) *)
Definition ifr_ratio_ok (x : ifr) : Prop :=
  fF x * fcout x * (frout x * fvout x) = ifr_sign x * fG x * fcin x * (frin x * fvin x).
Fixpoint ifr_chained (l : list ifr) : Prop :=
  match l with
  | x :: ((y :: _) as l') => fvout x = fvin y /\ frout x = frin y /\ ifr_chained l'
  | _ => True
  end.
Definition rprod (f : ifr -> R) (l : list ifr) : R := fold_right (fun x p => f x * p) 1 l.

Lemma rprod_pos f l : Forall (fun x => 0 < f x) l -> 0 < rprod f l.
Proof. induction 1; unfold rprod; simpl; [lra|]. apply Rmult_lt_0_compat; assumption. Qed.

Lemma rprod_mul f g l : rprod (fun x => f x * g x) l = rprod f l * rprod g l.
Proof. unfold rprod. induction l as [|x l IH]; simpl; [ring|]. rewrite IH. ring. Qed.

Lemma ifr_last_indep l : forall (z x y : ifr), last (z :: l) x = last (z :: l) y.
Proof. induction l as [|w l IH]; intros z x y; [reflexivity|]. exact (IH w x y). Qed.

Lemma ifr_last_cons (y : ifr) l x : last (y :: l) x = last l y.
Proof. destruct l as [|z l]; [reflexivity|]. exact (ifr_last_indep l z x y). Qed.

(* telescoped Stokes relations *)
Lemma ifr_telescope l : Forall ifr_ratio_ok l ->
  rprod fF l * rprod fcout l * rprod (fun x => frout x * fvout x) l
  = rprod ifr_sign l * rprod fG l * rprod fcin l * rprod (fun x => frin x * fvin x) l.
Proof.
  induction 1 as [|x l Hx _ IH]; unfold rprod in *; simpl; [ring|].
  unfold ifr_ratio_ok in Hx.
  transitivity ((fF x * fcout x * (frout x * fvout x))
                * (fold_right (fun x0 p => fF x0 * p) 1 l * fold_right (fun x0 p => fcout x0 * p) 1 l
                   * fold_right (fun x0 p => frout x0 * fvout x0 * p) 1 l)); [ring|].
  rewrite Hx, IH. ring.
Qed.

(* impedances chain: prod z_out * z_in(first) = prod z_in * z_out(last) *)
Lemma ifr_chain_z l : forall x, ifr_chained (x :: l) ->
  rprod (fun y => frout y * fvout y) (x :: l) * (frin x * fvin x)
  = rprod (fun y => frin y * fvin y) (x :: l) * (frout (last l x) * fvout (last l x)).
Proof.
  induction l as [|y l IH]; intros x H.
  - unfold rprod. simpl. ring.
  - destruct H as (Ev & Er & H'). specialize (IH y H'). rewrite ifr_last_cons.
    unfold rprod in *. simpl in *. rewrite Ev, Er.
    transitivity (frin x * fvin x * (frout y * fvout y * fold_right (fun y0 p => frout y0 * fvout y0 * p) 1 l * (frin y * fvin y))); [ring|].
    rewrite IH. ring.
Qed.

(* gammas telescope: prod gamma * v_out(last) * (prod cos_in)^2 = v_in(first) * (prod cos_out)^2 *)
Lemma ifr_gammas l : forall x, Forall ifr_pos (x :: l) -> ifr_chained (x :: l) ->
  rprod ifr_gamma (x :: l) * fvout (last l x) * (rprod fcin (x :: l) * rprod fcin (x :: l))
  = fvin x * (rprod fcout (x :: l) * rprod fcout (x :: l)).
Proof.
  induction l as [|y l IH]; intros x Hp Hc.
  - inversion Hp as [|? ? (H1 & H2 & H3 & H4 & _) _]; subst. unfold rprod, ifr_gamma. simpl. field. split; lra.
  - inversion Hp as [|? ? (H1 & H2 & H3 & H4 & _) Hp']; subst. destruct Hc as (Ev & _ & Hc').
    specialize (IH y Hp' Hc'). rewrite ifr_last_cons.
    inversion Hp' as [|? ? (K1 & K2 & K3 & _) _]; subst.
    unfold rprod in *. simpl in *.
    transitivity (ifr_gamma x * (fcin x * fcin x)
                  * (ifr_gamma y * fold_right (fun x0 p => ifr_gamma x0 * p) 1 l * fvout (last l y)
                     * (fcin y * fold_right (fun x0 p => fcin x0 * p) 1 l * (fcin y * fold_right (fun x0 p => fcin x0 * p) 1 l)))); [ring|].
    rewrite IH. unfold ifr_gamma. rewrite Ev. field. split; lra.
Qed.

Lemma P_of_combine (gs rs : list R) : length gs = length rs ->
  P_of (combine gs rs) = fold_right Rmult 1 gs.
Proof.
  revert rs. induction gs as [|g gs IH]; intros [|r rs] H; simpl in *; try discriminate; [reflexivity|].
  unfold P_of in *. simpl. rewrite IH by congruence. reflexivity.
Qed.

Lemma rprod_map (f : ifr -> R) l : fold_right Rmult 1 (map f l) = rprod f l.
Proof. unfold rprod. induction l as [|x l IH]; simpl; [reflexivity|]. rewrite IH. reflexivity. Qed.

Lemma map_fst_combine (gs rs : list R) : length gs = length rs -> map fst (combine gs rs) = gs.
Proof. revert rs. induction gs as [|g gs IH]; intros [|r rs] H; simpl in *; try discriminate; [reflexivity|]. rewrite IH by congruence. reflexivity. Qed.

Lemma map_snd_combine (gs rs : list R) : length gs = length rs -> map snd (combine gs rs) = rs.
Proof. revert rs. induction gs as [|g gs IH]; intros [|r rs] H; simpl in *; try discriminate; [reflexivity|]. rewrite IH by congruence. reflexivity. Qed.

(* THE THEOREM.  x :: l = the interior interfaces in path order; r1 :: rs = the leg lengths
   (one more than interfaces); D, A = directivity and attenuation (any values: they are the
   same factor on both sides); f = frequency. *)
Theorem qratio_general x l r1 rs D A f :
  Forall ifr_pos (x :: l) -> ifr_chained (x :: l) -> Forall ifr_ratio_ok (x :: l) ->
  length rs = length (x :: l) -> 0 < r1 -> all_pos rs -> 0 < f ->
  let gs := map ifr_gamma (x :: l) in
  let vlast := fvout (last l x) in let rholast := frout (last l x) in
  let vd := virtual_distance NumR (r1 :: rs) gs in
  let vd' := virtual_distance NumR (rev (r1 :: rs)) (map Rinv (rev gs)) in
  let Q := D * rprod fF (x :: l) * (1 / sqrt vd) * A in
  let Q' := D * rprod fG (x :: l) * (1 / sqrt vd') * A * sqrt (vlast / f) in
  Q * (vlast * vlast) * rprod ifr_sign (x :: l)
  = (frin x * fvin x * sqrt (fvin x * f) / rholast) * Q'.
Proof.
  intros Hpos Hch Hrat Hlen Hr1 Hrs Hf gs vlast rholast vd vd' Q Q'.
  set (L := x :: l) in *.
  assert (Hgpos : all_pos gs).
  { unfold gs. clear -Hpos. induction Hpos as [|y m (H1 & H2 & H3 & H4 & _) _ IH]; simpl; constructor; [|exact IH].
    unfold ifr_gamma. apply Rdiv_lt_0_compat; repeat apply Rmult_lt_0_compat; assumption. }
  assert (Hlen' : length gs = length rs) by (unfold gs; rewrite map_length; symmetry; exact Hlen).
  (* forward and reverse virtual distances *)
  destruct (tube_eq_code r1 rs gs Hr1 Hrs Hgpos ltac:(rewrite Hlen'; apply le_n)) as [_ Hvd].
  assert (Hxs : Forall (fun gr : R * R => fst gr <> 0) (combine gs rs)).
  { clear -Hgpos Hlen'. revert rs Hlen'. induction Hgpos as [|g gs' Hg _ IH]; intros [|r rs] H; simpl in *; try discriminate; constructor.
    - simpl. lra.
    - apply IH. congruence. }
  pose proof (reverse_virtual_distance r1 (combine gs rs) Hxs) as Erev.
  rewrite map_fst_combine, map_snd_combine in Erev by assumption.
  rewrite P_of_combine in Erev by assumption.
  replace (fold_right Rmult 1 gs) with (rprod ifr_gamma L) in Erev by (unfold gs; symmetry; apply rprod_map).
  fold vd vd' in Erev.
  (* products *)
  assert (Hci : 0 < rprod fcin L) by (apply rprod_pos; eapply Forall_impl; [|exact Hpos]; intros y (H1 & _); exact H1).
  assert (Hco : 0 < rprod fcout L) by (apply rprod_pos; eapply Forall_impl; [|exact Hpos]; intros y (_ & H2 & _); exact H2).
  pose proof (ifr_gammas l x Hpos Hch) as EG. fold L in EG. fold vlast in EG.
  pose proof (ifr_telescope L Hrat) as ET.
  pose proof (ifr_chain_z l x Hch) as EZ. fold L in EZ. fold vlast rholast in EZ.
  assert (Hlastpos : 0 < vlast /\ 0 < rholast).
  { assert (Hin : In (last l x) L).
    { unfold L. clear. revert x. induction l as [|y l IH]; intros x; [left; reflexivity|].
      right. rewrite ifr_last_cons. apply IH. }
    rewrite Forall_forall in Hpos. destruct (Hpos _ Hin) as (_ & _ & _ & H4 & _ & H6). split; assumption. }
  destruct Hlastpos as [Hvl Hrl].
  assert (Hfirst : 0 < fvin x /\ 0 < frin x).
  { inversion Hpos as [|? ? (_ & _ & H3 & _ & H5 & _) _]; subst. split; assumption. }
  destruct Hfirst as [Hv0 Hr0].
  assert (Hzo : 0 < rprod (fun y => frout y * fvout y) L).
  { apply rprod_pos. eapply Forall_impl; [|exact Hpos]. intros y (_ & _ & _ & H4 & _ & H6). apply Rmult_lt_0_compat; assumption. }
  assert (Hzi : 0 < rprod (fun y => frin y * fvin y) L).
  { apply rprod_pos. eapply Forall_impl; [|exact Hpos]. intros y (_ & _ & H3 & _ & H5 & _). apply Rmult_lt_0_compat; assumption. }
  assert (Hs2 : rprod ifr_sign L * rprod ifr_sign L = 1).
  { clear. unfold rprod. induction L as [|y m IH]; simpl; [ring|].
    transitivity ((ifr_sign y * ifr_sign y) * (fold_right (fun x p => ifr_sign x * p) 1 m * fold_right (fun x p => ifr_sign x * p) 1 m)); [ring|].
    rewrite IH. unfold ifr_sign. destruct (fsgn y); ring. }
  assert (HX : 0 < rprod fcout L / rprod fcin L) by (apply Rdiv_lt_0_compat; assumption).
  assert (HPg : rprod ifr_gamma L = fvin x / vlast * (rprod fcout L / rprod fcin L * (rprod fcout L / rprod fcin L))).
  { apply Rmult_eq_reg_r with (vlast * (rprod fcin L * rprod fcin L));
      [|apply Rgt_not_eq; apply Rmult_lt_0_compat; [assumption | apply Rmult_lt_0_compat; assumption]].
    transitivity (rprod ifr_gamma L * vlast * (rprod fcin L * rprod fcin L)); [ring|].
    rewrite EG. field. split; lra. }
  assert (HTR : rprod fF L * (rprod fcout L / rprod fcin L) * (rholast * vlast)
                = rprod ifr_sign L * rprod fG L * (frin x * fvin x)).
  { apply Rmult_eq_reg_r with (rprod fcin L * rprod (fun y => frin y * fvin y) L);
      [|apply Rgt_not_eq; apply Rmult_lt_0_compat; assumption].
    transitivity (rprod fF L * rprod fcout L * (rprod (fun y => frin y * fvin y) L * (rholast * vlast))); [field; lra|].
    rewrite <- EZ.
    transitivity ((rprod fF L * rprod fcout L * rprod (fun y => frout y * fvout y) L) * (frin x * fvin x)); [ring|].
    rewrite ET. ring. }
  assert (Hvd' : vd' = rprod ifr_gamma L * vd) by exact Erev.
  exact (qratio_combination D (rprod fF L) (rprod fG L) vd vd' (rprod ifr_gamma L) A (vlast / f)
           (fvin x) vlast (frin x) rholast f (rprod fcout L / rprod fcin L) (rprod ifr_sign L)
           Hvd Hv0 Hvl Hr0 Hrl Hf HX Hs2 Hvd' HPg HTR eq_refl).
Qed.
