(* Proofs/SignalProofs.v — lemmas about Model/Signal.v (C11). *)
From Coq Require Import ZArith List Bool Lia ZifyBool Reals Lra.
From Flocq Require Import Core.Raux Core.Generic_fmt Core.Round_NE.
From Arim Require Import Base.Num Base.NumR Model.Signal.
Import ListNotations.

(* ---------- integer facts (every Num instance) --------------------------- *)
Local Open Scope Z_scope.

Lemma pulse_len_odd {T} (N : Num T) cycles f dt : Z.odd (pulse_len N cycles f dt) = true.
Proof.
  unfold pulse_len. destruct (Z.even _) eqn:E.
  - rewrite Z.add_1_r, Z.odd_succ. exact E.
  - rewrite <- Z.negb_even, E. reflexivity.
Qed.

Lemma odd_half M : Z.odd M = true -> M = 2 * (M / 2) + 1.
Proof.
  intros H. pose proof (Z.div_mod M 2 ltac:(lia)) as E.
  rewrite Zmod_odd, H in E. exact E.
Qed.

Lemma hilbert_weight_scipy {T} (N : Num T) n k : 0 < n -> 0 <= k < n ->
  hilbert_weight n (n / 2 + 1) k = scipy_hilbert_weight n k.
Proof.
  intros Hn Hk. unfold hilbert_weight, scipy_hilbert_weight.
  destruct ((0 <=? k) && (k <? n / 2 + 1)) eqn:E; [reflexivity|].
  assert (Hk2 : n / 2 + 1 <= k).
  { apply andb_false_iff in E. destruct E as [E|E]; [apply Z.leb_gt in E; lia | apply Z.ltb_ge in E; lia]. }
  assert (Hn2 : 0 <= n / 2) by (apply Z.div_pos; lia).
  destruct (Z.even n) eqn:En.
  - replace (k =? 0) with false by lia. replace (k =? n / 2) with false by lia.
    replace ((1 <=? k) && (k <? n / 2)) with false by lia. reflexivity.
  - assert (Hodd : Z.odd n = true) by (rewrite <- Z.negb_even, En; reflexivity).
    pose proof (odd_half n Hodd) as Hh.
    replace (k =? 0) with false by lia.
    replace ((1 <=? k) && (k <? (n + 1) / 2)) with false; [reflexivity|].
    symmetry. apply andb_false_iff. right. apply Z.ltb_ge.
    assert ((n + 1) / 2 = n / 2 + 1) by (rewrite Hh at 1; replace (2 * (n / 2) + 1 + 1) with ((n / 2 + 1) * 2) by ring; apply Z.div_mul; lia).
    lia.
Qed.

(* ---------- real-number facts ------------------------------------------- *)
Local Open Scope R_scope.

Lemma cos_neg_eq x : cos (- x) = cos x. Proof. apply cos_neg. Qed.

Lemma hanning_sym M k : (2 <= M)%Z -> hanning NumR M (M - 1 - k) = hanning NumR M k.
Proof.
  intros HM. unfold hanning. replace (M =? 1)%Z with false by lia.
  cbn [NumR nadd nmul ndiv ncos npi nofZ n1].
  replace (1 - M + 2 * (M - 1 - k))%Z with (- (1 - M + 2 * k))%Z by ring.
  rewrite opp_IZR.
  replace (PI * - IZR (1 - M + 2 * k) / IZR (M - 1)) with (- (PI * IZR (1 - M + 2 * k) / IZR (M - 1)))
    by (unfold Rdiv; ring).
  rewrite cos_neg. reflexivity.
Qed.

Lemma hanning_centre M : (3 <= M)%Z -> Z.odd M = true -> hanning NumR M (M / 2) = 1.
Proof.
  intros HM Hodd. unfold hanning. replace (M =? 1)%Z with false by lia.
  cbn [NumR nadd nmul ndiv ncos npi nofZ n1].
  pose proof (odd_half M Hodd) as Hh.
  replace (1 - M + 2 * (M / 2))%Z with 0%Z by lia.
  replace (PI * 0 / IZR (M - 1)) with 0 by (unfold Rdiv; ring).
  rewrite cos_0. lra.
Qed.

Lemma hanning_one : forall k, hanning NumR 1 k = 1.
Proof. intros k. reflexivity. Qed.

Lemma hanning_first M : (2 <= M)%Z -> hanning NumR M 0 = 0.
Proof.
  intros HM. unfold hanning. replace (M =? 1)%Z with false by lia.
  cbn [NumR nadd nmul ndiv ncos npi nofZ n1].
  replace (1 - M + 2 * 0)%Z with (- (M - 1))%Z by ring. rewrite opp_IZR.
  assert (HMr : IZR (M - 1) <> 0) by (apply not_0_IZR; lia).
  replace (PI * - IZR (M - 1) / IZR (M - 1)) with (- PI) by (field; assumption).
  rewrite cos_neg, cos_PI. lra.
Qed.

Lemma hanning_last M : (2 <= M)%Z -> hanning NumR M (M - 1) = 0.
Proof.
  intros HM. replace (M - 1)%Z with (M - 1 - 0)%Z by ring. rewrite hanning_sym by assumption.
  apply hanning_first; assumption.
Qed.

Lemma hanning_range M k : 0 <= hanning NumR M k <= 1.
Proof.
  unfold hanning. destruct (M =? 1)%Z.
  - cbn [NumR n1]. lra.
  - cbn [NumR nadd nmul ndiv ncos npi nofZ n1].
    pose proof (COS_bound (PI * IZR (1 - M + 2 * k) / IZR (M - 1))) as [H1 H2]. lra.
Qed.

Lemma carrier_sym f dt h k : carrier NumR f dt h (2 * h - k) = carrier NumR f dt h k.
Proof.
  unfold carrier. cbn [NumR nmul ncos npi nofZ].
  replace (2 * h - k - h)%Z with (- (k - h))%Z by ring. rewrite opp_IZR.
  replace (2 * PI * dt * f * - IZR (k - h)) with (- (2 * PI * dt * f * IZR (k - h))) by ring.
  apply cos_neg.
Qed.

Lemma carrier_centre f dt h : carrier NumR f dt h h = 1.
Proof.
  unfold carrier. cbn [NumR nmul ncos npi nofZ]. rewrite Z.sub_diag.
  replace (2 * PI * dt * f * 0) with 0 by ring. apply cos_0.
Qed.

Lemma carrier_range f dt h k : -1 <= carrier NumR f dt h k <= 1.
Proof. unfold carrier. cbn [NumR nmul ncos npi nofZ]. apply COS_bound. Qed.

Section Toneburst.
  Variables cycles f dt : R.
  Let M := pulse_len NumR cycles f dt.

  Lemma M_odd : Z.odd M = true. Proof. apply pulse_len_odd. Qed.

  Lemma toneburst_zero_outside_R ns k : (k < 0 \/ M <= k \/ ns <= k)%Z ->
    toneburst_at NumR cycles f dt ns k = 0.
  Proof.
    intros H. unfold toneburst_at. fold M.
    replace ((0 <=? k)%Z && (k <? M)%Z && (k <? ns)%Z) with false; [reflexivity|].
    symmetry. destruct H as [H|[H|H]].
    - replace (0 <=? k)%Z with false by lia. reflexivity.
    - replace (k <? M)%Z with false by lia. rewrite andb_false_r. reflexivity.
    - replace (k <? ns)%Z with false by lia. rewrite andb_false_r. reflexivity.
  Qed.

  Lemma toneburst_inside ns k : (0 <= k < M)%Z -> (M <= ns)%Z ->
    toneburst_at NumR cycles f dt ns k = carrier NumR f dt (M / 2) k * hanning NumR M k.
  Proof.
    intros Hk Hns. unfold toneburst_at. fold M.
    replace ((0 <=? k)%Z && (k <? M)%Z && (k <? ns)%Z) with true; [reflexivity|].
    symmetry. rewrite !andb_true_iff. repeat split; lia.
  Qed.

  Lemma toneburst_symmetric_R ns k : (0 <= k < M)%Z -> (M <= ns)%Z ->
    toneburst_at NumR cycles f dt ns (M - 1 - k) = toneburst_at NumR cycles f dt ns k.
  Proof.
    intros Hk Hns. rewrite !toneburst_inside by lia.
    pose proof (odd_half M M_odd) as Hh.
    destruct (Z.eq_dec M 1) as [E1|E1].
    - assert (k = 0)%Z by lia. subst k. rewrite E1. reflexivity.
    - rewrite hanning_sym by lia.
      replace (M - 1 - k)%Z with (2 * (M / 2) - k)%Z by lia.
      rewrite carrier_sym. reflexivity.
  Qed.

  Lemma toneburst_peak_R ns : (1 <= M)%Z -> (M <= ns)%Z ->
    toneburst_at NumR cycles f dt ns (M / 2) = 1.
  Proof.
    intros HM Hns. pose proof (odd_half M M_odd) as Hh.
    rewrite toneburst_inside by lia. rewrite carrier_centre.
    destruct (Z.eq_dec M 1) as [E1|E1].
    - rewrite E1. cbn [hanning NumR n1]. change (1 =? 1)%Z with true. cbn. lra.
    - assert (3 <= M)%Z by lia. rewrite hanning_centre by (try apply M_odd; lia). lra.
  Qed.

  Lemma toneburst_bounded_R ns k : -1 <= toneburst_at NumR cycles f dt ns k <= 1.
  Proof.
    unfold toneburst_at. destruct (_ && _ && _).
    - cbn [NumR nmul]. pose proof (carrier_range f dt (pulse_len NumR cycles f dt / 2) k) as [C1 C2].
      pose proof (hanning_range (pulse_len NumR cycles f dt) k) as [H1 H2].
      split; nra.
    - cbn [NumR n0]. lra.
  Qed.

  (* the Hann window vanishes at both ends of the pulse *)
  Lemma toneburst_ends_R ns : (2 <= M)%Z -> (M <= ns)%Z ->
    toneburst_at NumR cycles f dt ns 0 = 0 /\ toneburst_at NumR cycles f dt ns (M - 1) = 0.
  Proof.
    intros HM Hns. rewrite !toneburst_inside by lia.
    rewrite hanning_first, hanning_last by assumption. split; ring.
  Qed.

  (* wrap=True puts the maximum at sample 0 *)
  Lemma toneburst_wrapped_peak_R ns : (1 <= M)%Z -> (M <= ns)%Z ->
    toneburst_wrapped_at NumR cycles f dt ns 0 = 1.
  Proof.
    intros HM Hns. unfold toneburst_wrapped_at. fold M.
    replace ((0 <=? 0)%Z && (0 <? ns)%Z) with true by (symmetry; rewrite andb_true_iff; split; lia).
    pose proof (odd_half M M_odd) as Hh.
    rewrite Z.add_0_l, Z.mod_small by lia. apply toneburst_peak_R; assumption.
  Qed.

  (* make_toneburst2: toneburst[t0_idx] = 1 and time.samples[t0_idx] = 0 *)
  Lemma toneburst2_t0_R nb : (1 <= M)%Z -> (0 <= nb)%Z ->
    toneburst2_at NumR cycles f dt nb (toneburst2_t0_idx NumR cycles f dt nb) = 1
    /\ time_sample NumR (toneburst2_time_start NumR cycles f dt nb) dt (toneburst2_t0_idx NumR cycles f dt nb) = 0.
  Proof.
    intros HM Hnb. split.
    - unfold toneburst2_at, toneburst2_t0_idx. fold M.
      replace (nb * M + M / 2 - nb * M)%Z with (M / 2)%Z by ring.
      apply toneburst_peak_R; lia.
    - unfold time_sample, toneburst2_time_start. cbn [NumR nadd nmul nofZ].
      rewrite opp_IZR. ring.
  Qed.
End Toneburst.

(* ---------- delay split -------------------------------------------------- *)
Lemma delay_split_R d dt : 0 < dt ->
  IZR (delay_idx NumR d dt) * dt + delay_rem NumR d dt = d
  /\ Rabs (delay_rem NumR d dt) <= dt / 2.
Proof.
  intros Hdt. unfold delay_rem, delay_idx. cbn [NumR nsub nmul ndiv nofZ nround].
  split; [ring|].
  pose proof (Znearest_half (fun x => negb (Z.even x)) (d / dt)) as Hh.
  replace (d - IZR (ZnearestE (d / dt)) * dt) with ((d / dt - IZR (ZnearestE (d / dt))) * dt) by (field; lra).
  rewrite Rabs_mult, (Rabs_pos_eq dt) by lra.
  replace (dt / 2) with (/ 2 * dt) by field.
  apply Rmult_le_compat_r; [lra | exact Hh].
Qed.

Lemma delay_on_sample_R k dt : 0 < dt ->
  delay_idx NumR (IZR k * dt) dt = k /\ delay_rem NumR (IZR k * dt) dt = 0.
Proof.
  intros Hdt. unfold delay_rem, delay_idx. cbn [NumR nsub nmul ndiv nofZ nround].
  assert (E : IZR k * dt / dt = IZR k) by (field; lra).
  rewrite E. assert (En : ZnearestE (IZR k) = k).
  { apply Znearest_imp. replace (IZR k - IZR k) with 0 by ring. rewrite Rabs_R0. lra. }
  rewrite En. split; [reflexivity | ring].
Qed.

(* a zero fractional delay leaves the spectrum unchanged: exp(-2j*pi*f*0) = 1 *)
Lemma phase_zero_R fr : cos (-2 * PI * fr * 0) = 1 /\ sin (-2 * PI * fr * 0) = 0.
Proof. replace (-2 * PI * fr * 0) with 0 by ring. split; [apply cos_0 | apply sin_0]. Qed.

(* ---------- placement ----------------------------------------------------- *)
Lemma place_spec_R (resp out : Z -> R) n q t0 len : place_ok q t0 n len = true ->
  exists out', place NumR resp n q t0 len out = Some out' /\
    (forall j, (q - t0 <= j < q - t0 + n)%Z -> out' j = out j + resp (j - (q - t0))%Z) /\
    (forall j, (j < q - t0 \/ q - t0 + n <= j)%Z -> out' j = out j).
Proof.
  intros Hok. unfold place. rewrite Hok. eexists. split; [reflexivity|]. split; intros j Hj; cbn zeta.
  - replace ((q - t0 <=? j)%Z && (j <? q - t0 + n)%Z) with true; [reflexivity|].
    symmetry. rewrite andb_true_iff. split; lia.
  - replace ((q - t0 <=? j)%Z && (j <? q - t0 + n)%Z) with false; [reflexivity|].
    symmetry. rewrite andb_false_iff. destruct Hj; [left|right]; lia.
Qed.

(* an echo whose delay falls on output sample k (relative to the time origin) with
   the whole response inside the window lands with response sample i at output
   sample k - t0 + i: in particular the response's time-zero sample t0 lands on k *)
Lemma place_on_sample_R (resp out : Z -> R) n k t0 len dt : 0 < dt ->
  place_ok k t0 n len = true ->
  exists out', place NumR resp n (delay_idx NumR (IZR k * dt) dt) t0 len out = Some out' /\
    delay_rem NumR (IZR k * dt) dt = 0 /\
    (forall i, (0 <= i < n)%Z -> out' (k - t0 + i)%Z = out (k - t0 + i)%Z + resp i) /\
    (forall j, (j < k - t0 \/ k - t0 + n <= j)%Z -> out' j = out j).
Proof.
  intros Hdt Hok. destruct (delay_on_sample_R k dt Hdt) as [Eq Er]. rewrite Eq.
  destruct (place_spec_R resp out n k t0 len Hok) as (out' & E & Hin & Hout).
  exists out'. repeat split; auto.
  intros i Hi. rewrite Hin by lia. f_equal. f_equal. ring.
Qed.
