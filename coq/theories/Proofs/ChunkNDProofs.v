(* Proofs/ChunkNDProofs.v — lemmas about Model/ChunkND.v (C13). Axiom-free.
   chunk_array on n-dimensional shapes with a possibly negative axis: the
   selectors restrict only the requested axis, along it they are the 1-D
   `chunks` of Model/Chunk.v, hence they partition the index space. *)
From Coq Require Import Arith List Bool Lia Permutation ZArith.
From Arim Require Import Model.Chunk Proofs.ChunkProofs Model.ChunkND.
Import ListNotations.

(* ---------- axis normalisation ----------------------------------------- *)
Lemma normalise_axis_nonneg ndim axis : (0 <= axis < Z.of_nat ndim)%Z ->
  normalise_axis ndim axis = Some (Z.to_nat axis).
Proof.
  intros H. unfold normalise_axis.
  destruct (Z.ltb_spec axis (- Z.of_nat ndim)); [lia|].
  destruct (Z.ltb_spec axis 0); [lia|].
  destruct (Z.ltb_spec axis (Z.of_nat ndim)); [reflexivity|lia].
Qed.

Lemma normalise_axis_neg ndim axis : (- Z.of_nat ndim <= axis < 0)%Z ->
  normalise_axis ndim axis = Some (Z.to_nat (axis + Z.of_nat ndim)).
Proof.
  intros H. unfold normalise_axis.
  destruct (Z.ltb_spec axis (- Z.of_nat ndim)); [lia|].
  destruct (Z.ltb_spec axis 0); [reflexivity|lia].
Qed.

Lemma normalise_axis_out ndim axis : (axis < - Z.of_nat ndim \/ Z.of_nat ndim <= axis)%Z ->
  normalise_axis ndim axis = None.
Proof.
  intros H. unfold normalise_axis.
  destruct (Z.ltb_spec axis (- Z.of_nat ndim)); [reflexivity|].
  destruct (Z.ltb_spec axis 0); [lia|].
  destruct (Z.ltb_spec axis (Z.of_nat ndim)); [lia|reflexivity].
Qed.

Lemma normalise_axis_Some ndim axis ax : normalise_axis ndim axis = Some ax ->
  ax < ndim /\ (- Z.of_nat ndim <= axis < Z.of_nat ndim)%Z /\
  (Z.of_nat ax = axis \/ Z.of_nat ax = axis + Z.of_nat ndim)%Z.
Proof.
  unfold normalise_axis.
  destruct (Z.ltb_spec axis (- Z.of_nat ndim)); [discriminate|].
  destruct (Z.ltb_spec axis 0).
  - intros E. inversion E; subst. lia.
  - destruct (Z.ltb_spec axis (Z.of_nat ndim)); [|discriminate].
    intros E. inversion E; subst. lia.
Qed.

Lemma normalise_axis_None ndim axis : normalise_axis ndim axis = None ->
  (axis < - Z.of_nat ndim \/ Z.of_nat ndim <= axis)%Z.
Proof.
  unfold normalise_axis.
  destruct (Z.ltb_spec axis (- Z.of_nat ndim)); [lia|].
  destruct (Z.ltb_spec axis 0); [discriminate|].
  destruct (Z.ltb_spec axis (Z.of_nat ndim)); [discriminate|lia].
Qed.

(* axis k and axis k - ndim name the same axis *)
Lemma normalise_axis_spelling ndim axis : (0 <= axis < Z.of_nat ndim)%Z ->
  normalise_axis ndim (axis - Z.of_nat ndim) = normalise_axis ndim axis.
Proof.
  intros H. rewrite normalise_axis_neg by lia. rewrite normalise_axis_nonneg by lia.
  f_equal. f_equal. lia.
Qed.

(* ---------- the uniform description of one selector -------------------- *)
(* full range on every axis but `ax`, range r on axis `ax` *)
Definition on_axis (shape : list nat) (ax : nat) (r : nat * nat) : list (nat * nat) :=
  full_ranges (firstn ax shape) ++ r :: full_ranges (skipn (S ax) shape).

Lemma on_axis_0 L shape r : on_axis (L :: shape) 0 r = r :: full_ranges shape.
Proof. reflexivity. Qed.

Lemma on_axis_S L shape ax r : on_axis (L :: shape) (S ax) r = (0, L) :: on_axis shape ax r.
Proof. reflexivity. Qed.

Lemma full_ranges_length shape : length (full_ranges shape) = length shape.
Proof. apply map_length. Qed.

Lemma full_ranges_nth shape k d : k < length shape ->
  nth k (full_ranges shape) d = (0, nth k shape 0).
Proof.
  revert k. induction shape as [|L shape IH]; intros [|k] H; simpl in *; try lia.
  - reflexivity.
  - apply IH. lia.
Qed.

Lemma on_axis_length shape ax r : ax < length shape -> length (on_axis shape ax r) = length shape.
Proof.
  revert ax. induction shape as [|L shape IH]; intros [|ax] H; simpl in H; try lia.
  - rewrite on_axis_0. simpl. rewrite full_ranges_length. reflexivity.
  - rewrite on_axis_S. simpl. rewrite IH by lia. reflexivity.
Qed.

Lemma on_axis_nth_same shape ax r d : ax < length shape -> nth ax (on_axis shape ax r) d = r.
Proof.
  revert ax. induction shape as [|L shape IH]; intros [|ax] H; simpl in H; try lia.
  - reflexivity.
  - rewrite on_axis_S. simpl. apply IH. lia.
Qed.

Lemma on_axis_nth_other shape ax r k d : ax < length shape -> k < length shape -> k <> ax ->
  nth k (on_axis shape ax r) d = (0, nth k shape 0).
Proof.
  revert ax k. induction shape as [|L shape IH]; intros [|ax] [|k] Ha Hk Hne; simpl in Ha, Hk; try lia.
  - rewrite on_axis_0. simpl. apply full_ranges_nth. lia.
  - reflexivity.
  - rewrite on_axis_S. simpl. apply IH; lia.
Qed.

Lemma on_axis_full shape ax : ax < length shape ->
  on_axis shape ax (0, nth ax shape 0) = full_ranges shape.
Proof.
  revert ax. induction shape as [|L shape IH]; intros [|ax] H; simpl in H; try lia.
  - reflexivity.
  - rewrite on_axis_S. simpl. rewrite IH by lia. reflexivity.
Qed.

(* ---------- numpy expansion of the three selector forms ---------------- *)
Lemma expand_first ndim s : 0 < ndim ->
  expand ndim [Sl s; Dots] = Some (s :: repeat colon (ndim - 1)).
Proof.
  destruct ndim as [|n]; [lia|]. intros _. simpl. rewrite !Nat.sub_0_r, app_nil_r. reflexivity.
Qed.

Lemma expand_last ndim s : 0 < ndim ->
  expand ndim [Dots; Sl s] = Some (repeat colon (ndim - 1) ++ [s]).
Proof.
  intros H. cbn [expand existsb is_dots orb length slices_of flat_map app].
  destruct (Nat.leb_spec 1 ndim); [reflexivity|lia].
Qed.

Lemma expand_interior s ax : forall ndim, ax < ndim ->
  expand ndim (repeat (Sl colon) ax ++ [Sl s; Dots]) =
  Some (repeat colon ax ++ s :: repeat colon (ndim - S ax)).
Proof.
  induction ax as [|ax IH]; intros [|n] H; try lia.
  - simpl. rewrite !Nat.sub_0_r, app_nil_r. reflexivity.
  - cbn [repeat app expand]. rewrite IH by lia. reflexivity.
Qed.

Lemma clip_all_colons l : clip_all l (repeat colon (length l)) = full_ranges l.
Proof. induction l as [|L l IH]; simpl; [reflexivity|]. rewrite IH. reflexivity. Qed.

Lemma clip_all_at shape : forall ax s, ax < length shape ->
  clip_all shape (repeat colon ax ++ s :: repeat colon (length shape - S ax)) =
  on_axis shape ax (clip (nth ax shape 0) s).
Proof.
  induction shape as [|L shape IH]; intros [|ax] s H; simpl in H; try lia.
  - rewrite on_axis_0. cbn [repeat app clip_all nth length].
    replace (S (length shape) - 1) with (length shape) by lia.
    rewrite clip_all_colons. reflexivity.
  - rewrite on_axis_S. cbn [repeat app clip_all nth length].
    replace (S (length shape) - S (S ax)) with (length shape - S ax) by lia.
    rewrite IH by lia. reflexivity.
Qed.

Lemma clip_chunk len b i : clip len (Some (i * b), Some ((i + 1) * b)) = chunk len b i.
Proof. reflexivity. Qed.

Lemma sequence_map_Some {A B} (f : A -> option B) (g : A -> B) l :
  (forall x, f x = Some (g x)) -> sequence (map f l) = Some (map g l).
Proof.
  intros H. induction l as [|a l IH]; simpl; [reflexivity|]. rewrite H, IH. reflexivity.
Qed.

(* every selector the code yields, resolved on `shape`, is on_axis of a 1-D chunk *)
Lemma resolve_first shape len b i : 0 < length shape -> len = nth 0 shape 0 ->
  resolve shape [Sl (Some (i * b), Some ((i + 1) * b)); Dots] = Some (on_axis shape 0 (chunk len b i)).
Proof.
  intros H E. unfold resolve. rewrite expand_first by assumption. cbn [option_map].
  change (?s :: repeat colon (length shape - 1)) with (repeat colon 0 ++ s :: repeat colon (length shape - 1)).
  rewrite clip_all_at by assumption. rewrite <- E, clip_chunk. reflexivity.
Qed.

Lemma resolve_last shape len b i : 0 < length shape -> len = nth (length shape - 1) shape 0 ->
  resolve shape [Dots; Sl (Some (i * b), Some ((i + 1) * b))] =
  Some (on_axis shape (length shape - 1) (chunk len b i)).
Proof.
  intros H E. unfold resolve. rewrite expand_last by assumption. cbn [option_map].
  assert (Z0 : length shape - S (length shape - 1) = 0) by lia.
  pose proof (clip_all_at shape (length shape - 1) (Some (i * b), Some ((i + 1) * b))) as C.
  rewrite Z0 in C. cbn [repeat] in C. rewrite C by lia.
  rewrite <- E, clip_chunk. reflexivity.
Qed.

Lemma resolve_interior shape ax len b i : ax < length shape -> len = nth ax shape 0 ->
  resolve shape (repeat (Sl colon) ax ++ [Sl (Some (i * b), Some ((i + 1) * b)); Dots]) =
  Some (on_axis shape ax (chunk len b i)).
Proof.
  intros H E. unfold resolve. rewrite expand_interior by assumption. cbn [option_map].
  rewrite clip_all_at by assumption. rewrite <- E, clip_chunk. reflexivity.
Qed.

(* ---------- characterisation of chunk_selectors ------------------------ *)
Theorem chunk_selectors_spec shape b axis ax : 1 <= b ->
  normalise_axis (length shape) axis = Some ax ->
  chunk_selectors shape b axis = Some (map (on_axis shape ax) (chunks (nth ax shape 0) b)).
Proof.
  intros Hb Hn. pose proof (normalise_axis_Some _ _ _ Hn) as (Hax & _ & _).
  unfold chunk_selectors. rewrite Hn.
  destruct (Nat.eqb_spec b 0) as [Eb|_]; [lia|].
  unfold raw_selectors, chunks. rewrite !map_map.
  destruct (Nat.eqb_spec ax 0) as [E0|N0].
  - subst ax. rewrite map_map. apply sequence_map_Some. intros i.
    apply resolve_first; [assumption|reflexivity].
  - destruct (Nat.eqb_spec ax (length shape - 1)) as [E1|N1].
    + rewrite map_map. apply sequence_map_Some. intros i. rewrite E1 at 2.
      rewrite E1. apply resolve_last; [lia|reflexivity].
    + rewrite map_map. apply sequence_map_Some. intros i.
      apply resolve_interior; [assumption|reflexivity].
Qed.

(* (e) the code raises exactly for a zero block size or an axis outside [-ndim, ndim) *)
Theorem chunk_selectors_None_iff shape b axis :
  chunk_selectors shape b axis = None <->
  b = 0 \/ (axis < - Z.of_nat (length shape) \/ Z.of_nat (length shape) <= axis)%Z.
Proof.
  split.
  - intros H. destruct (Nat.eq_dec b 0) as [|Hb]; [left; assumption|right].
    destruct (normalise_axis (length shape) axis) as [ax|] eqn:Hn.
    + rewrite (chunk_selectors_spec shape b axis ax) in H by (assumption || lia). discriminate.
    + apply normalise_axis_None. assumption.
  - intros [Hb|Hout]; unfold chunk_selectors.
    + subst b. destruct (normalise_axis (length shape) axis); reflexivity.
    + rewrite normalise_axis_out by assumption. reflexivity.
Qed.

Theorem chunk_selectors_axis_rejected shape b axis :
  (axis < - Z.of_nat (length shape) \/ Z.of_nat (length shape) <= axis)%Z ->
  chunk_selectors shape b axis = None.
Proof. intros H. apply chunk_selectors_None_iff. right. assumption. Qed.

Lemma chunk_selectors_Some_inv shape b axis sels : chunk_selectors shape b axis = Some sels ->
  exists ax, 1 <= b /\ normalise_axis (length shape) axis = Some ax /\ ax < length shape /\
             sels = map (on_axis shape ax) (chunks (nth ax shape 0) b).
Proof.
  intros H. destruct (Nat.eq_dec b 0) as [Eb|Hb].
  - rewrite (proj2 (chunk_selectors_None_iff shape b axis)) in H by (left; assumption). discriminate.
  - destruct (normalise_axis (length shape) axis) as [ax|] eqn:Hn.
    + exists ax. pose proof (normalise_axis_Some _ _ _ Hn) as (Hax & _ & _).
      rewrite (chunk_selectors_spec shape b axis ax) in H by (assumption || lia).
      inversion H; subst. repeat split; try assumption; lia.
    + unfold chunk_selectors in H. rewrite Hn in H. discriminate.
Qed.

(* (a) the negative and the non-negative spelling of an axis give the same selectors *)
Theorem chunk_selectors_axis_spelling shape b axis : (0 <= axis < Z.of_nat (length shape))%Z ->
  chunk_selectors shape b (axis - Z.of_nat (length shape)) = chunk_selectors shape b axis.
Proof.
  intros H. unfold chunk_selectors. rewrite normalise_axis_spelling by assumption. reflexivity.
Qed.

(* (b) every selector has one range per axis and is the full range on every
   axis other than the requested one *)
Theorem chunk_selectors_other_axes shape b axis ax sels sel k :
  normalise_axis (length shape) axis = Some ax ->
  chunk_selectors shape b axis = Some sels -> In sel sels ->
  length sel = length shape /\
  (k < length shape -> k <> ax -> nth k sel (0, 0) = (0, nth k shape 0)).
Proof.
  intros Hn Hs Hin. apply chunk_selectors_Some_inv in Hs as (ax' & Hb & Hn' & Hax & E).
  rewrite Hn in Hn'. inversion Hn'; subst ax'. subst sels.
  apply in_map_iff in Hin as (r & Er & _). subst sel. split.
  - apply on_axis_length. assumption.
  - intros Hk Hne. apply on_axis_nth_other; assumption.
Qed.

(* (c) along the requested axis the ranges are exactly the 1-D chunks of its length *)
Theorem chunk_selectors_requested_axis shape b axis ax : 1 <= b ->
  normalise_axis (length shape) axis = Some ax ->
  exists sels, chunk_selectors shape b axis = Some sels /\
               map (fun sel => nth ax sel (0, 0)) sels = chunks (nth ax shape 0) b.
Proof.
  intros Hb Hn. pose proof (normalise_axis_Some _ _ _ Hn) as (Hax & _ & _).
  eexists. split; [apply chunk_selectors_spec; eassumption|].
  rewrite map_map. rewrite <- (map_id (chunks (nth ax shape 0) b)) at 2.
  apply map_ext. intros r. apply on_axis_nth_same. assumption.
Qed.

(* ---------- index sets -------------------------------------------------- *)
Lemma flat_map_nil {A B} (l : list A) : flat_map (fun _ => @nil B) l = [].
Proof. induction l as [|a l IH]; simpl; auto. Qed.

Lemma flat_map_map' {A B C} (g : A -> B) (f : B -> list C) l :
  flat_map f (map g l) = flat_map (fun x => f (g x)) l.
Proof. induction l as [|a l IH]; simpl; [reflexivity|]. rewrite IH. reflexivity. Qed.

Lemma flat_map_flat_map {A B C} (g : A -> list B) (f : B -> list C) l :
  flat_map f (flat_map g l) = flat_map (fun x => flat_map f (g x)) l.
Proof. induction l as [|a l IH]; simpl; [reflexivity|]. rewrite flat_map_app, IH. reflexivity. Qed.

Lemma map_flat_map {A B C} (g : A -> list B) (f : B -> C) l :
  map f (flat_map g l) = flat_map (fun x => map f (g x)) l.
Proof. induction l as [|a l IH]; simpl; [reflexivity|]. rewrite map_app, IH. reflexivity. Qed.

Lemma flat_map_perm_pointwise {A B} (f g : A -> list B) l :
  (forall x, Permutation (f x) (g x)) -> Permutation (flat_map f l) (flat_map g l).
Proof.
  intros H. induction l as [|a l IH]; simpl; [constructor|]. apply Permutation_app; auto.
Qed.

Lemma flat_map_app_perm {A B} (f g : A -> list B) l :
  Permutation (flat_map (fun x => f x ++ g x) l) (flat_map f l ++ flat_map g l).
Proof.
  induction l as [|a l IH]; simpl; [constructor|].
  rewrite IH. rewrite <- !app_assoc. apply Permutation_app_head.
  rewrite !app_assoc. apply Permutation_app_tail. apply Permutation_app_comm.
Qed.

Lemma flat_map_swap {A B C} (F : A -> B -> list C) la lb :
  Permutation (flat_map (fun x => flat_map (fun y => F x y) lb) la)
              (flat_map (fun y => flat_map (fun x => F x y) la) lb).
Proof.
  induction la as [|a la IH]; simpl.
  - rewrite flat_map_nil. constructor.
  - rewrite flat_map_app_perm. apply Permutation_app_head. exact IH.
Qed.

(* cutting one axis into consecutive ranges cuts the box into boxes *)
Lemma box_cells_split pre post rs r0 : flat_map range_of rs = range_of r0 ->
  Permutation (flat_map (fun r => box_cells (pre ++ r :: post)) rs) (box_cells (pre ++ r0 :: post)).
Proof.
  intros H. induction pre as [|a pre IH].
  - cbn [app box_cells]. rewrite <- H, flat_map_flat_map. apply Permutation_refl.
  - cbn [app box_cells].
    rewrite (flat_map_swap (fun r i => map (cons i) (box_cells (pre ++ r :: post))) rs (range_of a)).
    apply flat_map_perm_pointwise. intros i.
    rewrite <- map_flat_map. apply Permutation_map. exact IH.
Qed.

Lemma NoDup_box_cells rs : NoDup (box_cells rs).
Proof.
  induction rs as [|r rs IH]; cbn [box_cells].
  - constructor; [intros []|constructor].
  - assert (G : forall l, NoDup l -> NoDup (flat_map (fun i => map (cons i) (box_cells rs)) l)).
    { induction l as [|a l IHl]; intros Hl; simpl; [constructor|].
      inversion Hl as [|? ? Hna Hnd]; subst. apply NoDup_app_intro.
      - apply FinFun.Injective_map_NoDup; [|assumption]. intros x y E. congruence.
      - apply IHl. assumption.
      - intros x Hx Hx2. apply in_map_iff in Hx as (q & E & _). subst x.
        apply in_flat_map in Hx2 as (i & Hi & Hx2). apply in_map_iff in Hx2 as (q' & E & _).
        inversion E; subst. contradiction. }
    apply G. apply seq_NoDup.
Qed.

Lemma box_cells_In rs : forall idx,
  In idx (box_cells rs) <-> Forall2 (fun i r => fst r <= i < snd r) idx rs.
Proof.
  induction rs as [|r rs IH]; intros idx; cbn [box_cells].
  - split.
    + intros [E|[]]. subst. constructor.
    + intros H. inversion H. left. reflexivity.
  - rewrite in_flat_map. split.
    + intros (i & Hi & Hm). apply in_map_iff in Hm as (q & E & Hq). subst idx.
      constructor; [|apply IH; assumption]. unfold range_of in Hi. apply in_seq in Hi. lia.
    + intros H. inversion H as [|i r' q rs' Hi Hq]; subst. exists i. split.
      * unfold range_of. apply in_seq. lia.
      * apply in_map. apply IH. assumption.
Qed.

(* the index space of a shape: one index below the length on every axis *)
Lemma index_space_In shape : forall idx, In idx (index_space shape) <-> Forall2 lt idx shape.
Proof.
  intros idx. unfold index_space. rewrite box_cells_In. revert idx.
  induction shape as [|L shape IH]; intros idx; simpl.
  - split; intros H; inversion H; constructor.
  - split; intros H; inversion H as [|i r q rs Hi Hq]; subst; constructor;
      simpl in *; try lia; apply IH; assumption.
Qed.

Lemma NoDup_flat_map_disjoint {A B} (f : A -> list B) l d : NoDup (flat_map f l) ->
  forall i j, i < j < length l -> forall x, In x (f (nth i l d)) -> ~ In x (f (nth j l d)).
Proof.
  induction l as [|a l IH]; intros Hnd i j Hij x Hi Hj; simpl in *; [lia|].
  apply NoDup_app_inv in Hnd as (H1 & H2 & H3). destruct i as [|i], j as [|j]; try lia.
  - apply (H3 x Hi). apply in_flat_map. exists (nth j l d). split; [apply nth_In; lia|assumption].
  - apply (IH H2 i j) with (x := x); try assumption. lia.
Qed.

(* (d) the index sets selected by the yielded selectors partition the index space *)
Theorem chunk_selectors_partition shape b axis sels :
  chunk_selectors shape b axis = Some sels ->
  Permutation (flat_map box_cells sels) (index_space shape) /\ NoDup (flat_map box_cells sels).
Proof.
  intros Hs. apply chunk_selectors_Some_inv in Hs as (ax & Hb & Hn & Hax & E). subst sels.
  assert (P : Permutation (flat_map box_cells (map (on_axis shape ax) (chunks (nth ax shape 0) b)))
                          (index_space shape)).
  { rewrite flat_map_map'. unfold index_space. rewrite <- (on_axis_full shape ax Hax).
    unfold on_axis. apply box_cells_split.
    rewrite chunks_concat by assumption. unfold range_of. simpl. rewrite Nat.sub_0_r. reflexivity. }
  split; [exact P|].
  eapply Permutation_NoDup; [apply Permutation_sym; exact P|]. apply NoDup_box_cells.
Qed.

Theorem chunk_selectors_pairwise_disjoint shape b axis sels i j idx :
  chunk_selectors shape b axis = Some sels -> i < j < length sels ->
  In idx (box_cells (nth i sels [])) -> ~ In idx (box_cells (nth j sels [])).
Proof.
  intros Hs Hij. apply (NoDup_flat_map_disjoint box_cells sels []); [|assumption].
  apply (chunk_selectors_partition shape b axis sels Hs).
Qed.

Theorem chunk_selectors_cover shape b axis sels idx :
  chunk_selectors shape b axis = Some sels ->
  (Forall2 lt idx shape <-> exists sel, In sel sels /\ In idx (box_cells sel)).
Proof.
  intros Hs. destruct (chunk_selectors_partition shape b axis sels Hs) as [P _].
  rewrite <- index_space_In, <- in_flat_map. split; intros H.
  - eapply Permutation_in; [apply Permutation_sym; exact P|exact H].
  - eapply Permutation_in; [exact P|exact H].
Qed.

(* for axis 0 the selectors even enumerate the index space in C order *)
Lemma chunk_selectors_axis0_ordered L shape b sels :
  chunk_selectors (L :: shape) b 0 = Some sels ->
  flat_map box_cells sels = index_space (L :: shape).
Proof.
  intros Hs. apply chunk_selectors_Some_inv in Hs as (ax & Hb & Hn & Hax & E).
  rewrite normalise_axis_nonneg in Hn by (simpl length; lia). inversion Hn; subst ax. subst sels.
  simpl Z.to_nat. rewrite flat_map_map'. unfold index_space.
  cbn [nth full_ranges map box_cells].
  change (fun x => box_cells (on_axis (L :: shape) 0 x))
    with (fun x => flat_map (fun i => map (cons i) (box_cells (full_ranges shape))) (range_of x)).
  rewrite <- flat_map_flat_map. rewrite chunks_concat by assumption.
  unfold range_of. simpl. rewrite Nat.sub_0_r. reflexivity.
Qed.
