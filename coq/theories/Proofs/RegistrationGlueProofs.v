(* Proofs/RegistrationGlueProofs.v — the discrete glue of front-wall registration (C19):
   dead-element flags and indices, the pulse-echo mask built by the code in three passes,
   boolean-mask indexing, error precedence, usable pulse-echo timetraces of FMC / HMC
   frames.  Every statement holds for EVERY numeric instance (no real numbers here:
   axiom-free). *)
From Coq Require Import ZArith List Bool Lia.
From Arim Require Import Base.Num Model.Vec3 Model.Probe Model.Registration Model.RegistrationGlue.
Import ListNotations.

(* ---- list facts ---------------------------------------------------------------------- *)
Lemma rg_filter_map {A B} (f : A -> B) (g : B -> bool) (l : list A) :
  filter g (map f l) = map f (filter (fun a => g (f a)) l).
Proof.
  induction l as [| a l IH]; [reflexivity|]. cbn [filter map]. destruct (g (f a)); cbn [map]; rewrite IH; reflexivity.
Qed.

Lemma rg_filter_flat_map {A B} (f : B -> bool) (g : A -> list B) (l : list A) :
  filter f (flat_map g l) = flat_map (fun a => filter f (g a)) l.
Proof.
  induction l as [| a l IH]; [reflexivity|]. cbn [flat_map]. rewrite filter_app, IH. reflexivity.
Qed.

Lemma rg_flat_map_ext_in {A B} (f g : A -> list B) (l : list A) :
  (forall a, In a l -> f a = g a) -> flat_map f l = flat_map g l.
Proof.
  induction l as [| a l IH]; intro H; [reflexivity|]. cbn [flat_map].
  rewrite (H a (or_introl eq_refl)), IH; [reflexivity|]. intros b Hb. apply H. right. exact Hb.
Qed.

Lemma rg_flat_map_single_length {A B} (f : A -> bool) (g : A -> B) (l : list A) :
  length (flat_map (fun a => if f a then [g a] else []) l) = length (filter f l).
Proof.
  induction l as [| a l IH]; [reflexivity|]. cbn [flat_map filter]. rewrite app_length, IH.
  destruct (f a); reflexivity.
Qed.

Lemma rg_filter_eq_seq (t a len : nat) :
  filter (Nat.eqb t) (seq a len) = if (a <=? t)%nat && (t <? a + len)%nat then [t] else [].
Proof.
  revert a. induction len as [| len IH]; intro a; cbn [seq filter].
  - destruct (Nat.leb_spec a t), (Nat.ltb_spec t (a + 0)); try lia; reflexivity.
  - rewrite IH. destruct (Nat.eqb_spec t a) as [-> | Hne].
    + replace (S a <=? a)%nat with false by (symmetry; apply Nat.leb_gt; lia).
      replace (a <=? a)%nat with true by (symmetry; apply Nat.leb_le; lia).
      replace (a <? a + S len)%nat with true by (symmetry; apply Nat.ltb_lt; lia). reflexivity.
    + replace (t <? S a + len)%nat with (t <? a + S len)%nat by (f_equal; lia).
      destruct (Nat.leb_spec (S a) t), (Nat.leb_spec a t); try lia; reflexivity.
Qed.

Lemma rg_map_nth_seq {A} (l : list A) (d : A) : map (fun k => nth k l d) (seq 0 (length l)) = l.
Proof.
  induction l as [| a l IH]; [reflexivity|]. cbn [length seq map nth]. f_equal.
  rewrite <- seq_shift, map_map. exact IH.
Qed.

(* ---- Probe.__init__(dead_elements=...) ------------------------------------------------- *)
Lemma init_dead_length n a m : init_dead n a = Some m -> length m = n.
Proof.
  destruct a as [| z | l]; cbn [init_dead].
  - intro H. injection H as <-. apply repeat_length.
  - intro H. injection H as <-. apply repeat_length.
  - destruct (Nat.eqb_spec (length l) n) as [E | E]; [|discriminate]. intro H. injection H as <-.
    rewrite map_length. exact E.
Qed.

(* the flags depend only on "zero or not": every truthy spelling (True, 1, 255, 2.5 ...)
   of the same set gives the same probe *)
Lemma init_dead_spelling n l l' : map truthy l = map truthy l' ->
  init_dead n (DeadEach l) = init_dead n (DeadEach l').
Proof.
  intro H. cbn [init_dead]. rewrite <- (map_length truthy l), <- (map_length truthy l'), H. reflexivity.
Qed.

Lemma init_dead_scalar_each n z : init_dead n (DeadScalar z) = init_dead n (DeadEach (repeat z n)).
Proof.
  cbn [init_dead]. rewrite repeat_length, Nat.eqb_refl. f_equal.
  induction n as [| n IH]; [reflexivity|]. cbn [repeat map]. rewrite IH. reflexivity.
Qed.

(* ---- arange(n)[mask] -------------------------------------------------------------------- *)
Lemma mask_positions_in (mask : list bool) : forall i e,
  In e (mask_positions i mask) <->
  (i <= e < i + Z.of_nat (length mask))%Z /\ nth (Z.to_nat (e - i)) mask false = true.
Proof.
  induction mask as [| b m IH]; intros i e; cbn [mask_positions length].
  - split; [intros [] | intros [H _]; lia].
  - assert (forall x, (i + 1 <= x)%Z -> Z.to_nat (x - i) = S (Z.to_nat (x - (i + 1)))) as Hs by (intros; lia).
    destruct b.
    + cbn [In]. rewrite IH. split.
      * intros [<- | [Hr Hn]].
        -- split; [lia|]. rewrite Z.sub_diag. reflexivity.
        -- split; [lia|]. rewrite Hs by lia. exact Hn.
      * intros [Hr Hn]. destruct (Z.eq_dec i e) as [-> | Hne]; [left; reflexivity | right].
        split; [lia|]. rewrite Hs in Hn by lia. exact Hn.
    + rewrite IH. split.
      * intros [Hr Hn]. split; [lia|]. rewrite Hs by lia. exact Hn.
      * intros [Hr Hn]. destruct (Z.eq_dec i e) as [-> | Hne].
        -- rewrite Z.sub_diag in Hn. discriminate.
        -- split; [lia|]. rewrite Hs in Hn by lia. exact Hn.
Qed.

(* the broadcast np.any(v == dead_indices) is the flag of the element (false outside the
   probe, in particular for negative "indices": no wrap-around in a comparison) *)
Lemma any_eq_dead dead e : any_eq (mask_positions 0 dead) e = is_dead dead e.
Proof.
  unfold any_eq, is_dead. apply eq_true_iff_eq. rewrite existsb_exists, andb_true_iff. split.
  - intros [x [Hin Heq]]. apply Z.eqb_eq in Heq. subst x. apply mask_positions_in in Hin.
    destruct Hin as [Hr Hn]. rewrite Z.sub_0_r in Hn. split; [apply Z.leb_le; lia | exact Hn].
  - intros [H0 Hn]. apply Z.leb_le in H0. exists e. split; [| apply Z.eqb_refl].
    apply mask_positions_in. rewrite Z.sub_0_r. split; [| exact Hn]. split; [lia|].
    destruct (Z_lt_le_dec e (Z.of_nat (length dead))) as [Hlt | Hge]; [lia|].
    rewrite nth_overflow in Hn by lia. discriminate.
Qed.

(* membership in the dead set, in terms of the flags as the user spelled them *)
Lemma dead_set_of_spelling (l : list Z) (e : Z) :
  In e (mask_positions 0 (map truthy l)) <->
  (0 <= e < Z.of_nat (length l))%Z /\ nth (Z.to_nat e) l 0%Z <> 0%Z.
Proof.
  rewrite mask_positions_in, map_length, Z.sub_0_r. change false with (truthy 0). rewrite map_nth.
  unfold truthy. split; intros [Hr Hn]; (split; [lia|]).
  - intro E. rewrite E in Hn. discriminate.
  - destruct (Z.eqb_spec (nth (Z.to_nat e) l 0%Z) 0); [contradiction | reflexivity].
Qed.

(* arange(n)[dead_elements] is accepted iff the vector has one flag per element OR IS EMPTY
   (model repair: numpy accepts an empty boolean index on a vector of any length; dead_indices
   used to answer None for it on a non-empty probe); the empty vector selects nothing, exactly
   like the all-False vector *)
Lemma dead_indices_spec (n : nat) (mask : list bool) (r : list Z) :
  dead_indices n mask = Some r <-> (length mask = n \/ mask = []) /\ r = mask_positions 0 mask.
Proof.
  unfold dead_indices. destruct (Nat.eqb_spec (length mask) n) as [E | E]; cbn [orb].
  - split; [intro H; injection H as <-; split; [left; exact E | reflexivity] | intros [_ ->]; reflexivity].
  - destruct (Nat.eqb_spec (length mask) 0) as [E0 | E0].
    + apply length_zero_iff_nil in E0.
      split; [intro H; injection H as <-; split; [right; exact E0 | reflexivity] | intros [_ ->]; reflexivity].
    + split; [discriminate|]. intros [[H | H] _]; [contradiction|]. subst mask. contradiction E0. reflexivity.
Qed.

Lemma dead_indices_ok (n : nat) (mask : list bool) :
  length mask = n \/ mask = [] -> dead_indices n mask = Some (mask_positions 0 mask).
Proof. intro H. apply dead_indices_spec. split; [exact H | reflexivity]. Qed.

Lemma dead_indices_raises (n : nat) (mask : list bool) :
  length mask <> n -> mask <> [] -> dead_indices n mask = None.
Proof.
  intros H1 H2. destruct (dead_indices n mask) as [r |] eqn:E; [|reflexivity].
  apply dead_indices_spec in E as [[E | E] _]; contradiction.
Qed.

Lemma mask_positions_all_false n : forall i, mask_positions i (repeat false n) = [].
Proof. induction n as [| n IH]; intro i; [reflexivity|]. cbn [repeat mask_positions]. apply IH. Qed.

Lemma dead_indices_empty_is_all_false n : dead_indices n [] = dead_indices n (repeat false n).
Proof.
  rewrite (dead_indices_ok n []) by (right; reflexivity).
  rewrite (dead_indices_ok n (repeat false n)) by (left; apply repeat_length).
  rewrite mask_positions_all_false. reflexivity.
Qed.

(* ---- the pulse-echo mask --------------------------------------------------------------- *)
(* the three passes of the code compute exactly the predicate of Model/Registration.v *)
Lemma pe_mask_spec dead : forall tx rx,
  pe_mask (mask_positions 0 dead) tx rx = map (fun p => pulse_echo dead (fst p) (snd p)) (combine tx rx).
Proof.
  induction tx as [| t tx IH]; intro rx; [destruct rx; reflexivity|]. destruct rx as [| r rx]; [reflexivity|].
  specialize (IH rx). unfold pe_mask, mask_clear in *. cbv zeta in *. cbn [combine map fst snd].
  rewrite IH. f_equal. rewrite !any_eq_dead. unfold pulse_echo.
  destruct (t =? r)%Z, (is_dead dead t), (is_dead dead r); reflexivity.
Qed.

Lemma count_true_map {A} (f : A -> bool) (l : list A) : count_true (map f l) = length (filter f l).
Proof.
  unfold count_true. induction l as [| a l IH]; [reflexivity|]. cbn [map filter].
  destruct (f a); cbn [length]; rewrite IH; reflexivity.
Qed.

Lemma bmask_map {A B} (f : A -> bool) : forall (l : list A) (l' : list B),
  bmask (map f l) l' = map snd (filter (fun p => f (fst p)) (combine l l')).
Proof.
  unfold bmask. induction l as [| a l IH]; intro l'; [reflexivity|]. destruct l' as [| b l']; [reflexivity|].
  cbn [map combine filter fst snd]. destruct (f a); cbn [map snd]; rewrite IH; reflexivity.
Qed.

Section Generic.
  Context {T : Type} (N : Num T).

  (* distance_to_surface[pulse_echo] = the distances of the selected timetraces *)
  Lemma bmask_distances dead tx rx (ds : list T) :
    bmask (map (fun p => pulse_echo dead (fst p) (snd p)) (combine tx rx)) ds
    = map tr_d (selected dead tx rx ds).
  Proof. rewrite bmask_map. reflexivity. Qed.

  (* frame.tx[pulse_echo] = the transmitters of the selected timetraces *)
  Lemma bmask_transmitters dead : forall tx rx (ds : list T),
    length tx = length rx -> length ds = length tx ->
    bmask (map (fun p => pulse_echo dead (fst p) (snd p)) (combine tx rx)) tx
    = map tr_tx (selected dead tx rx ds).
  Proof.
    unfold bmask, selected, tr_tx, tr_rx. induction tx as [| t tx IH]; intros rx ds H1 H2.
    - destruct ds; [reflexivity | discriminate].
    - destruct rx as [| r rx]; [discriminate|]. destruct ds as [| d ds]; [discriminate|].
      cbn [combine map filter fst snd]. cbn [length] in H1, H2.
      destruct (pulse_echo dead t r); cbn [map fst snd]; [f_equal|]; apply IH; lia.
  Qed.

  Lemma selected_count dead : forall tx rx (ds : list T),
    length tx = length rx -> length ds = length tx ->
    length (selected dead tx rx ds)
    = length (filter (fun p => pulse_echo dead (fst p) (snd p)) (combine tx rx)).
  Proof.
    unfold selected, tr_tx, tr_rx. induction tx as [| t tx IH]; intros rx ds H1 H2.
    - destruct ds; [reflexivity | discriminate].
    - destruct rx as [| r rx]; [discriminate|]. destruct ds as [| d ds]; [discriminate|].
      cbn [combine filter fst snd]. cbn [length] in H1, H2.
      destruct (pulse_echo dead t r); cbn [length]; [f_equal|]; apply IH; lia.
  Qed.

  (* steps I-IV written with masks (fit_pose) + the motion = move_probe of Model/Registration.v *)
  Definition pose_result (pcs : CS (T:=T)) (locs : list (V3 (T:=T))) (x : reg_error + (T * T))
    : reg_error + move_result (T:=T) :=
    match x with
    | inl e => inl e
    | inr (z_o, theta) =>
        inr (mkMove z_o theta
                    (map (fun q => v3add N (rot_y N theta q) (n0 N, n0 N, z_o)) locs)
                    (Registration.cs_translate N (n0 N, n0 N, z_o) (cs_rot_y N theta pcs)))
    end.

  (* (model repair: the hypothesis on the flags used to read `length dead = length locs`;
     the empty vector, which numpy accepts too, is now covered — here and below) *)
  Lemma move_probe_fit_pose fit pcs tx rx dead locs ds :
    length dead = length locs \/ dead = [] -> length tx = length rx ->
    move_probe N fit pcs tx rx dead locs ds
    = pose_result pcs locs (fit_pose N fit pcs tx rx dead locs ds).
  Proof.
    intros Hd Hl. unfold move_probe, fit_pose. rewrite (dead_indices_ok _ _ Hd).
    rewrite pe_mask_spec, count_true_map, map_length, combine_length, <- Hl, Nat.min_id.
    cbv zeta.
    destruct (negb (cs_isclose N pcs (Registration.gcs N))); [reflexivity|].
    destruct (_ <? 2)%nat; [reflexivity|].
    destruct (Nat.eqb_spec (length ds) (length tx)) as [EL | EL]; cbn [negb]; [|reflexivity].
    rewrite bmask_distances, (bmask_transmitters dead tx rx ds Hl EL).
    destruct (existsb _ _); [reflexivity|].
    destruct (negb (forallb _ _)); [reflexivity|].
    destruct (lookup_all N _ _) as [sx |]; [|reflexivity].
    destruct (isclose N _ _); [reflexivity|].
    destruct (nleb N _ _ && nleb N _ _); reflexivity.
  Qed.

  (* ---- error precedence ------------------------------------------------------------------ *)
  Ltac split_all :=
    repeat match goal with
           | |- context [match ?x with _ => _ end] => destruct x
           end.

  (* the gate is the first test: ValueError("... PCS and the GCS are the same") is raised
     exactly when the PCS is not within 1e-8 of the GCS, whatever else is wrong *)
  Lemma fit_pose_gate fit pcs tx rx dead locs ds :
    fit_pose N fit pcs tx rx dead locs ds = inl E_PcsNotGcs
    <-> cs_isclose N pcs (Registration.gcs N) = false.
  Proof.
    unfold fit_pose. destruct (cs_isclose N pcs (Registration.gcs N)); cbn [negb].
    - split; [|discriminate]. cbv zeta. split_all; discriminate.
    - split; reflexivity.
  Qed.

  (* ValueError("... at least 2 pulse echo timetraces"): exactly when the gate passes and fewer
     than two timetraces have tx = rx on a live element — before the distances are even looked
     at (their number, sign and values are irrelevant) *)
  Lemma fit_pose_too_few fit pcs tx rx dead locs ds :
    length dead = length locs \/ dead = [] ->
    (fit_pose N fit pcs tx rx dead locs ds = inl E_TooFewPulseEcho
     <-> cs_isclose N pcs (Registration.gcs N) = true /\
         (length (filter (fun p => pulse_echo dead (fst p) (snd p)) (combine tx rx)) < 2)%nat).
  Proof.
    intro Hd. unfold fit_pose. rewrite (dead_indices_ok _ _ Hd), pe_mask_spec, count_true_map.
    destruct (cs_isclose N pcs (Registration.gcs N)); cbn [negb].
    - destruct (Nat.ltb_spec (length (filter (fun p => pulse_echo dead (fst p) (snd p)) (combine tx rx))) 2) as [Hlt | Hge].
      + split; [intros _; split; [reflexivity | exact Hlt] | reflexivity].
      + split; [| intros [_ H]; lia]. cbv zeta. split_all; discriminate.
    - split; [discriminate | intros [H _]; discriminate].
  Qed.

  (* a success needs >= 2 usable pulse-echo timetraces, one distance per timetrace, no
     negative distance on a usable timetrace *)
  Lemma fit_pose_ok_needs fit pcs tx rx dead locs ds z th :
    length dead = length locs \/ dead = [] -> length tx = length rx ->
    fit_pose N fit pcs tx rx dead locs ds = inr (z, th) ->
    cs_isclose N pcs (Registration.gcs N) = true /\
    (2 <= length (selected dead tx rx ds))%nat /\ length ds = length tx /\
    forall t, In t (selected dead tx rx ds) -> nltb N (tr_d t) (n0 N) = false.
  Proof.
    intros Hd Hl. unfold fit_pose.
    rewrite (dead_indices_ok _ _ Hd), pe_mask_spec, count_true_map, map_length, combine_length, <- Hl, Nat.min_id.
    destruct (cs_isclose N pcs (Registration.gcs N)); cbn [negb]; [|discriminate].
    destruct (Nat.ltb_spec (length (filter (fun p => pulse_echo dead (fst p) (snd p)) (combine tx rx))) 2) as [Hlt | Hge];
      [discriminate|].
    destruct (Nat.eqb_spec (length ds) (length tx)) as [EL | EL]; cbn [negb]; [|discriminate].
    cbv zeta. rewrite bmask_distances.
    destruct (existsb _ _) eqn:EN; [discriminate|]. intros _.
    split; [reflexivity|]. split; [|split; [exact EL|]].
    - rewrite (selected_count dead tx rx ds Hl EL). exact Hge.
    - intros t Ht. destruct (nltb N (tr_d t) (n0 N)) eqn:E; [|reflexivity].
      assert (existsb (fun d => nltb N d (n0 N)) (map tr_d (selected dead tx rx ds)) = true) as C.
      { apply existsb_exists. exists (tr_d t). split; [apply in_map; exact Ht | exact E]. }
      congruence.
  Qed.
  (* an EMPTY vector of flags (possible only by assignment after construction: the
     constructor asserts the shape) behaves exactly like "no dead element", whatever the probe *)
  Lemma fit_pose_empty_dead fit pcs tx rx locs ds :
    fit_pose N fit pcs tx rx [] locs ds = fit_pose N fit pcs tx rx (repeat false (length locs)) locs ds.
  Proof. unfold fit_pose. rewrite dead_indices_empty_is_all_false. reflexivity. Qed.

  (* flags of any other length: IndexError, right after the gate *)
  Lemma fit_pose_dead_mismatch fit pcs tx rx dead locs ds :
    length dead <> length locs -> dead <> [] ->
    fit_pose N fit pcs tx rx dead locs ds =
    if cs_isclose N pcs (Registration.gcs N) then inl E_Index else inl E_PcsNotGcs.
  Proof.
    intros H1 H2. unfold fit_pose. rewrite (dead_indices_raises _ _ H1 H2).
    destruct (cs_isclose N pcs (Registration.gcs N)); reflexivity.
  Qed.
End Generic.

(* ---- usable pulse-echo timetraces of FMC and HMC frames ------------------------------------- *)
Lemma is_dead_nat dead t : is_dead dead (Z.of_nat t) = nth t dead false.
Proof.
  unfold is_dead. rewrite Nat2Z.id. replace (0 <=? Z.of_nat t)%Z with true by (symmetry; apply Z.leb_le; lia).
  reflexivity.
Qed.

Lemma pe_row dead (t a len : nat) :
  filter (fun p => pulse_echo dead (fst p) (snd p)) (map (fun r => (Z.of_nat t, Z.of_nat r)) (seq a len))
  = if (a <=? t)%nat && (t <? a + len)%nat && negb (nth t dead false) then [(Z.of_nat t, Z.of_nat t)] else [].
Proof.
  rewrite rg_filter_map. cbn [fst snd].
  rewrite (filter_ext _ (fun r => Nat.eqb t r && negb (nth t dead false))).
  - destruct (nth t dead false); cbn [negb].
    + rewrite andb_false_r. rewrite (filter_ext _ (fun _ => false)) by (intro; apply andb_false_r).
      clear. generalize (seq a len). induction l; [reflexivity | exact IHl].
    + rewrite andb_true_r. rewrite (filter_ext _ (Nat.eqb t)) by (intro; apply andb_true_r).
      rewrite rg_filter_eq_seq. destruct ((a <=? t)%nat && (t <? a + len)%nat); reflexivity.
  - intro r. unfold pulse_echo. rewrite !is_dead_nat.
    destruct (Nat.eqb_spec t r) as [-> | Hne].
    + rewrite Z.eqb_refl. destruct (nth r dead false); reflexivity.
    + replace (Z.of_nat t =? Z.of_nat r)%Z with false by (symmetry; apply Z.eqb_neq; lia). reflexivity.
Qed.

Lemma live_count dead :
  length (filter (fun t => negb (nth t dead false)) (seq 0 (length dead))) = length (filter negb dead).
Proof.
  transitivity (length (filter negb (map (fun k => nth k dead false) (seq 0 (length dead))))).
  - rewrite rg_filter_map, map_length. reflexivity.
  - rewrite rg_map_nth_seq. reflexivity.
Qed.

(* FMC: one usable pulse-echo timetrace per live element *)
Lemma fmc_usable dead :
  length (filter (fun p => pulse_echo dead (fst p) (snd p)) (fmc_pairs (length dead)))
  = length (filter negb dead).
Proof.
  unfold fmc_pairs. rewrite rg_filter_flat_map.
  rewrite (rg_flat_map_ext_in _ (fun t => if negb (nth t dead false) then [(Z.of_nat t, Z.of_nat t)] else [])).
  - rewrite rg_flat_map_single_length. apply live_count.
  - intros t Ht. apply in_seq in Ht. rewrite pe_row.
    replace (0 <=? t)%nat with true by (symmetry; apply Nat.leb_le; lia).
    replace (t <? 0 + length dead)%nat with true by (symmetry; apply Nat.ltb_lt; lia). reflexivity.
Qed.

(* HMC (tx <= rx): the same *)
Lemma hmc_usable dead :
  length (filter (fun p => pulse_echo dead (fst p) (snd p)) (hmc_pairs (length dead)))
  = length (filter negb dead).
Proof.
  unfold hmc_pairs. rewrite rg_filter_flat_map.
  rewrite (rg_flat_map_ext_in _ (fun t => if negb (nth t dead false) then [(Z.of_nat t, Z.of_nat t)] else [])).
  - rewrite rg_flat_map_single_length. apply live_count.
  - intros t Ht. apply in_seq in Ht. rewrite pe_row.
    replace (t <=? t)%nat with true by (symmetry; apply Nat.leb_le; lia).
    replace (t <? t + (length dead - t))%nat with true by (symmetry; apply Nat.ltb_lt; lia). reflexivity.
Qed.

Section GenericFmc.
  Context {T : Type} (N : Num T).

  (* on an FMC or HMC frame of a probe whose PCS is the GCS, "at least 2 pulse echo timetraces"
     is raised exactly when fewer than two elements are alive *)
  Lemma fit_pose_fmc_too_few fit pcs dead locs ds :
    length dead = length locs -> cs_isclose N pcs (Registration.gcs N) = true ->
    (fit_pose N fit pcs (map fst (fmc_pairs (length dead))) (map snd (fmc_pairs (length dead))) dead locs ds
     = inl E_TooFewPulseEcho <-> (length (filter negb dead) < 2)%nat).
  Proof.
    intros Hd Hg. rewrite (fit_pose_too_few N fit pcs _ _ dead locs ds (or_introl Hd)).
    assert (combine (map fst (fmc_pairs (length dead))) (map snd (fmc_pairs (length dead))) = fmc_pairs (length dead)) as ->.
    { generalize (fmc_pairs (length dead)). induction l as [| [a b] l IH]; [reflexivity|]. cbn. rewrite IH. reflexivity. }
    rewrite fmc_usable. split; [intros [_ H]; exact H | intro H; split; [exact Hg | exact H]].
  Qed.

  Lemma fit_pose_hmc_too_few fit pcs dead locs ds :
    length dead = length locs -> cs_isclose N pcs (Registration.gcs N) = true ->
    (fit_pose N fit pcs (map fst (hmc_pairs (length dead))) (map snd (hmc_pairs (length dead))) dead locs ds
     = inl E_TooFewPulseEcho <-> (length (filter negb dead) < 2)%nat).
  Proof.
    intros Hd Hg. rewrite (fit_pose_too_few N fit pcs _ _ dead locs ds (or_introl Hd)).
    assert (combine (map fst (hmc_pairs (length dead))) (map snd (hmc_pairs (length dead))) = hmc_pairs (length dead)) as ->.
    { generalize (hmc_pairs (length dead)). induction l as [| [a b] l IH]; [reflexivity|]. cbn. rewrite IH. reflexivity. }
    rewrite hmc_usable. split; [intros [_ H]; exact H | intro H; split; [exact Hg | exact H]].
  Qed.
End GenericFmc.
