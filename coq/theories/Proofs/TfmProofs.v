(* Proofs/TfmProofs.v — lemmas about Model/Tfm.v (C12), part 1:
   contact TFM is the DAS of C02 with tau = dist / v; HMC image = FMC image up to the
   ratio of the timetrace counts; expanding the HMC frame gives the FMC frame.
   Numeric statements are about NumR; sample values live in any `Data R D` with DataLaws.
   Built on Proofs/DasProofs.v (C02), Proofs/FrameProofs.v + FrameOpsProofs.v (C15). *)
From Coq Require Import List Reals Lra Lia ZArith Bool Arith Permutation Sorted.
From Arim Require Import Base.Num Base.NumR Model.MinPlus Model.Fermat Model.Das Model.Frame Model.Tfm.
From Arim Require Import Proofs.DasProofs Proofs.FrameProofs Proofs.FrameOpsProofs.
Import ListNotations.

(* ---- lists ------------------------------------------------------------------ *)
Lemma combine_same {A} (l : list A) : combine l l = map (fun x => (x, x)) l.
Proof. induction l as [|a l IH]; cbn [combine map]; [reflexivity|now rewrite IH]. Qed.

Lemma combine_map_map {A B C} (f : A -> B) (h : A -> C) (l : list A) :
  combine (map f l) (map h l) = map (fun x => (f x, h x)) l.
Proof. induction l as [|a l IH]; cbn [combine map]; [reflexivity|now rewrite IH]. Qed.

Lemma combine_swap {A B} (a : list A) (b : list B) :
  combine b a = map (fun p => (snd p, fst p)) (combine a b).
Proof.
  revert b. induction a as [|x a IH]; intros [|y b]; cbn [combine map fst snd]; try reflexivity.
  now rewrite IH.
Qed.

Lemma repeat_as_map {A B} (x : B) (l : list A) : repeat x (length l) = map (fun _ => x) l.
Proof. induction l as [|a l IH]; cbn [length repeat map]; [reflexivity|now rewrite IH]. Qed.

Lemma Forall2_eq_map {A B} (f : A -> B) (P : A -> B -> Prop) l l' :
  Forall2 P l l' -> (forall a b, In a l -> P a b -> b = f a) -> l' = map f l.
Proof.
  induction 1 as [|a b l l' Hab _ IH]; intros Hf; cbn [map]; [reflexivity|].
  rewrite (Hf a b (or_introl eq_refl) Hab). f_equal. apply IH. intros a' b' Hin. apply Hf. now right.
Qed.

Lemma frame_pairs_frame_of {D} (g : nat -> nat -> list D) pairs : frame_pairs (frame_of g pairs) = pairs.
Proof.
  unfold frame_pairs, frame_of. rewrite map_map. cbn [s_tx s_rx].
  rewrite <- (map_id pairs) at 2. apply map_ext. now intros [a b].
Qed.

Lemma frame_of_length {D} (g : nat -> nat -> list D) pairs : length (frame_of g pairs) = length pairs.
Proof. unfold frame_of. apply map_length. Qed.

(* ---- element pairs: ordered pairs = half matrix + mirrored strict upper triangle *)
Definition offdiag (p : nat * nat) : bool := negb (fst p =? snd p).
Definition hmc_w (p : nat * nat) : nat := if fst p =? snd p then 1 else 2.

(* a half-matrix acquisition on n elements: every unordered pair exactly once, in any order
   and either orientation (hmc n, its mirror, any permutation of them, any mixture) *)
Definition half_matrix (n : nat) (pairs : list (nat * nat)) : Prop :=
  NoDup pairs /\
  (forall a b, In (a, b) pairs -> a < n /\ b < n) /\
  (forall a b, a < n -> b < n -> In (a, b) pairs \/ In (b, a) pairs) /\
  (forall a b, In (a, b) pairs -> In (b, a) pairs -> a = b).

Lemma hmc_half_matrix n : half_matrix n (hmc n).
Proof.
  split; [apply hmc_NoDup|]. split; [|split].
  - intros a b H. apply hmc_In in H. lia.
  - intros a b Ha Hb. rewrite !hmc_In. lia.
  - intros a b H1 H2. apply hmc_In in H1. apply hmc_In in H2. lia.
Qed.

Lemma hmc_swap_half_matrix n : half_matrix n (map swap (hmc n)).
Proof.
  split; [apply hmc_swap_NoDup|]. split; [|split].
  - intros a b H. apply in_map_swap in H. apply hmc_In in H. unfold swap in H. cbn [fst snd] in H. lia.
  - intros a b Ha Hb. rewrite !in_map_swap. unfold swap. cbn [fst snd]. rewrite !hmc_In. lia.
  - intros a b H1 H2. apply in_map_swap in H1. apply in_map_swap in H2. unfold swap in *. cbn [fst snd] in *.
    apply hmc_In in H1. apply hmc_In in H2. lia.
Qed.

Lemma half_matrix_perm n l l' : Permutation l l' -> half_matrix n l -> half_matrix n l'.
Proof.
  intros HP (H1 & H2 & H3 & H4). split; [exact (Permutation_NoDup HP H1)|]. split; [|split].
  - intros a b H. apply H2. exact (Permutation_in _ (Permutation_sym HP) H).
  - intros a b Ha Hb. destruct (H3 a b Ha Hb) as [H|H]; [left|right]; exact (Permutation_in _ HP H).
  - intros a b Ha Hb. apply H4; [exact (Permutation_in _ (Permutation_sym HP) Ha)|exact (Permutation_in _ (Permutation_sym HP) Hb)].
Qed.

Lemma weights_half_map n pairs : half_matrix n pairs -> default_timetrace_weights pairs = map hmc_w pairs.
Proof.
  intros (_ & _ & H3 & H4).
  apply (Forall2_eq_map hmc_w _ _ _ (weights_Forall2 pairs)).
  intros [a b] w Hin [H1 H2]. unfold hmc_w. cbn [fst snd].
  destruct (Nat.eqb_spec a b) as [E|E].
  - apply H1. unfold swap. cbn [fst snd]. now subst b.
  - apply H2. unfold swap. cbn [fst snd]. intros Hba. apply E. now apply H4.
Qed.

Lemma weights_hmc_map n : default_timetrace_weights (hmc n) = map hmc_w (hmc n).
Proof. exact (weights_half_map n _ (hmc_half_matrix n)). Qed.

Lemma weights_fmc_map n : default_timetrace_weights (fmc n) = map (fun _ => 1) (fmc n).
Proof. rewrite weights_fmc, <- fmc_length. apply repeat_as_map. Qed.

Lemma fmc_perm_half n pairs : half_matrix n pairs ->
  Permutation (fmc n) (pairs ++ map swap (filter offdiag pairs)).
Proof.
  intros (H1 & H2 & H3 & H4). apply NoDup_Permutation.
  - apply fmc_NoDup.
  - apply fr_NoDup_app.
    + exact H1.
    + apply FinFun.Injective_map_NoDup; [intros x y; apply swap_inj|]. now apply NoDup_filter.
    + intros [a b] Hab Hm. apply in_map_iff in Hm as ([c d] & E & Hm).
      apply filter_In in Hm as [Hm Hod]. unfold swap in E. cbn [fst snd] in E.
      injection E as <- <-. unfold offdiag in Hod. cbn [fst snd] in Hod.
      destruct (Nat.eqb_spec c d) as [|Hne]; [discriminate|]. apply Hne. now apply H4.
  - intros [a b]. rewrite fmc_In, in_app_iff, in_map_iff. split.
    + intros [Ha Hb]. destruct (H3 a b Ha Hb) as [H|H]; [now left|].
      destruct (Nat.eq_dec a b) as [->|Hne]; [now left|right].
      exists (b, a). split; [reflexivity|]. apply filter_In. split; [exact H|].
      unfold offdiag. cbn [fst snd]. destruct (Nat.eqb_spec b a); [congruence|reflexivity].
    + intros [H|([c d] & E & H)]; [now apply H2|]. apply filter_In in H as [H _]. apply H2 in H.
      unfold swap in E. cbn [fst snd] in E. injection E as <- <-. lia.
Qed.

Lemma fmc_perm_hmc n : Permutation (fmc n) (hmc n ++ map swap (filter offdiag (hmc n))).
Proof. exact (fmc_perm_half n _ (hmc_half_matrix n)). Qed.

(* pair_lt-sortedness of the ordered pairs in tx-major order *)
Lemma sorted_app {A} (R : A -> A -> Prop) l1 l2 :
  StronglySorted R l1 -> StronglySorted R l2 -> (forall x y, In x l1 -> In y l2 -> R x y) ->
  StronglySorted R (l1 ++ l2).
Proof.
  induction l1 as [|a l1 IH]; intros H1 H2 H; cbn [app]; [exact H2|].
  apply StronglySorted_inv in H1 as [H1 Ha]. constructor.
  - apply IH; auto. intros x y Hx. apply H. now right.
  - apply Forall_app. split; [exact Ha|]. apply Forall_forall. intros y Hy. apply H; [now left|exact Hy].
Qed.

Lemma sorted_row i l : StronglySorted lt l -> StronglySorted pair_lt (map (pair i) l).
Proof.
  induction 1 as [|b l _ IH Hb]; cbn [map]; constructor; [exact IH|].
  apply Forall_forall. intros q Hq. apply in_map_iff in Hq as (c & <- & Hc).
  rewrite Forall_forall in Hb. specialize (Hb c Hc). unfold pair_lt, pair_ltb. cbn [fst snd].
  rewrite Nat.eqb_refl. apply Nat.ltb_lt in Hb. rewrite Hb. apply orb_true_r.
Qed.

Lemma sorted_list_prod l1 l2 :
  StronglySorted lt l1 -> StronglySorted lt l2 -> StronglySorted pair_lt (list_prod l1 l2).
Proof.
  induction 1 as [|a l1 _ IH Ha]; intros H2; cbn [list_prod]; [constructor|].
  apply sorted_app; [now apply sorted_row|now apply IH|].
  intros [x y] [u v] Hx Hy. apply in_map_iff in Hx as (c & E & _). injection E as <- <-.
  apply in_prod_iff in Hy as [Hu _]. rewrite Forall_forall in Ha. specialize (Ha u Hu).
  unfold pair_lt, pair_ltb. cbn [fst snd]. apply Nat.ltb_lt in Ha. now rewrite Ha.
Qed.

Lemma sorted_seq a n : StronglySorted lt (seq a n).
Proof.
  revert a. induction n as [|n IH]; intros a; cbn [seq]; constructor; [apply IH|].
  apply Forall_forall. intros x Hx. apply in_seq in Hx. lia.
Qed.

Lemma fmc_sorted n : StronglySorted pair_lt (fmc n).
Proof. rewrite fmc_list_prod. apply sorted_list_prod; apply sorted_seq. Qed.

(* ==========================================================================
   Part 1: contact TFM = delay-and-sum with tau = dist / v on both sides *)
Section Contact.
  Context {D : Type} (V : Data R D) (L : DataLaws V).

  (* the row of the per-point tables of grid point g: tau[e] = |g - e| / v, for tx and for rx *)
  Definition contact_row (velocity : R) (probe : list (R * R * R)) (g : R * R * R) : prow R D :=
    let tau := map (fun e => (dist NumR g e / velocity)%R) probe in mkRow tau tau [] [].

  Lemma contact_lookup_rows grid probe v :
    contact_lookup_times NumR grid probe v
    = map (fun g => map (fun e => (dist NumR g e / v)%R) probe) grid.
  Proof.
    unfold contact_lookup_times, leg_times, distance_pairwise, pts. cbn [snd NumR ndiv].
    rewrite map_map. apply map_ext. intros g. now rewrite map_map.
  Qed.

  Lemma focal_rows_same (l : list (list R)) :
    focal_rows (D:=D) l l None = Some (map (fun tau => mkRow tau tau [] []) l).
  Proof. unfold focal_rows. rewrite Nat.eqb_refl, combine_same, map_map. reflexivity. Qed.

  Lemma contact_is_das_gen sc ns dt t0 fill wa grid probe v ss :
    contact_tfm NumR V sc ns dt t0 fill wa grid probe v None ss
    = das_noamp NumR V sc ns dt t0 fill (resolve_weights NumR wa ss) (map (contact_row v probe) grid) ss.
  Proof.
    unfold contact_tfm, delay_and_sum. rewrite focal_rows_same, contact_lookup_rows, map_map. reflexivity.
  Qed.

  Lemma default_weights_length (ss : list (scan D)) : length (default_weights NumR ss) = length ss.
  Proof. unfold default_weights, frame_pairs. now rewrite map_length, weights_length, map_length. Qed.

  Lemma default_weights_ok (ss : list (scan D)) : weights_ok (Some (default_weights NumR ss)) ss = true.
  Proof. cbn [weights_ok]. rewrite default_weights_length. apply Nat.eqb_refl. Qed.

  (* contact_tfm with its default arguments is the specification of C02 *)
  Lemma contact_is_das_default sc ns dt t0 fill grid probe v ss :
    contact_tfm NumR V sc ns dt t0 fill WDefault grid probe v None ss
    = Some (das_spec NumR V sc false ns dt t0 fill (Some (default_weights NumR ss))
                     (map (contact_row v probe) grid) ss).
  Proof.
    rewrite contact_is_das_gen. cbn [resolve_weights].
    rewrite (das_noamp_spec_gen V L), default_weights_ok. reflexivity.
  Qed.

  Lemma contact_is_das_noweights sc ns dt t0 fill grid probe v ss :
    contact_tfm NumR V sc ns dt t0 fill WNone grid probe v None ss
    = Some (das_spec NumR V sc false ns dt t0 fill None (map (contact_row v probe) grid) ss).
  Proof. rewrite contact_is_das_gen. cbn [resolve_weights]. now rewrite (das_noamp_spec_gen V L). Qed.

  (* with TxRxAmplitudes: the amplitude kernels on the same tables *)
  Lemma contact_is_das_amp sc ns dt t0 fill wa grid probe v atx arx ss :
    contact_tfm NumR V sc ns dt t0 fill wa grid probe v (Some (atx, arx)) ss
    = let ltab : list (list R) := map (fun g => map (fun e => (dist NumR g e / v)%R) probe) grid in
      if same_shape2 atx ltab && same_shape2 arx ltab
      then das_amp NumR V sc ns dt t0 fill (resolve_weights NumR wa ss)
                   (map (fun q => mkRow (fst q) (fst q) (fst (snd q)) (snd (snd q)))
                        (combine ltab (combine atx arx))) ss
      else None.
  Proof.
    unfold contact_tfm, delay_and_sum, focal_rows. rewrite contact_lookup_rows, Nat.eqb_refl.
    cbv zeta. destruct (same_shape2 atx _ && same_shape2 arx _); [|reflexivity].
    rewrite combine_same. f_equal.
    match goal with |- context [combine (map _ ?l) _] => generalize l end. intros ltab. generalize (combine atx arx). clear.
    induction ltab as [|x ltab IH]; intros [|y q]; cbn [map combine fst snd]; try reflexivity.
    now rewrite IH.
  Qed.
End Contact.

(* ==========================================================================
   Part 2: HMC image = FMC image up to the ratio of timetrace counts *)
Local Open Scope R_scope.

Section HmcFmc.
  Context {D : Type} (V : Data R D) (L : DataLaws V).
  Local Notation "a +' b" := (dadd V a b) (at level 50, left associativity).
  Local Notation "c *' a" := (dscale V c a) (at level 40).

  Lemma dsum_cons x l : dsum V (x :: l) = x +' dsum V l.
  Proof. reflexivity. Qed.

  Lemma dsum_filter {A} (F : A -> D) (f : A -> bool) l :
    dsum V (map F (filter f l)) = dsum V (map (fun p => if f p then F p else dzero V) l).
  Proof.
    induction l as [|a l IH]; cbn [filter map]; [reflexivity|].
    rewrite dsum_cons, <- IH. destruct (f a); cbn [map].
    - now rewrite dsum_cons.
    - symmetry. apply (dl_add_0_l V L).
  Qed.

  (* sum over the ordered pairs = diagonal + 2 x the rest of a half matrix *)
  Lemma sum_ordered_pairs_half (F : nat * nat -> D) n pairs : half_matrix n pairs ->
    (forall p, F (swap p) = F p) ->
    dsum V (map F (fmc n)) = dsum V (map (fun p => INR (hmc_w p) *' F p) pairs).
  Proof.
    intros Hh Hsym. rewrite (dsum_perm V L _ _ (Permutation_map F (fmc_perm_half n pairs Hh))).
    rewrite map_app, (dsum_app V L), map_map.
    rewrite (map_ext (fun p => F (swap p)) F Hsym), dsum_filter, <- (dsum_add V L).
    f_equal. apply map_ext. intros [a b]. unfold offdiag, hmc_w. cbn [fst snd].
    destruct (a =? b)%nat; cbn [negb INR].
    - now rewrite (dl_add_0_r V L), (dl_scale_1 V L).
    - now rewrite (dl_scale_plus V L), (dl_scale_1 V L).
  Qed.

  Lemma sum_ordered_pairs (F : nat * nat -> D) n : (forall p, F (swap p) = F p) ->
    dsum V (map F (fmc n)) = dsum V (map (fun p => INR (hmc_w p) *' F p) (hmc n)).
  Proof. exact (sum_ordered_pairs_half F n _ (hmc_half_matrix n)). Qed.

  (* ---- the summand of one element pair ------------------------------------- *)
  Definition pair_scan (g : nat -> nat -> list D) (p : nat * nat) : scan D :=
    mkScan (fst p) (snd p) (g (fst p) (snd p)).

  Lemma frame_of_pair_scan g pairs : frame_of g pairs = map (pair_scan g) pairs.
  Proof. reflexivity. Qed.

  Lemma das_point_pairs sc b ns dt t0 fill (wf : nat * nat -> R) g pairs r :
    das_spec_point NumR V sc b ns dt t0 fill (Some (map wf pairs)) (frame_of g pairs) r
    = (1 / IZR (Z.of_nat (length pairs)))
      *' dsum V (map (fun p => spec_term NumR V sc b ns dt t0 fill r (pair_scan g p, wf p)) pairs).
  Proof.
    unfold das_spec_point. cbn [eff_weights NumR n1 ndiv nofZ].
    rewrite frame_of_length, frame_of_pair_scan, combine_map_map, map_map. reflexivity.
  Qed.

  (* fill value zero: the weight factors out of the summand *)
  Lemma spec_term_weight_fill0 sc b ns dt t0 r s w :
    spec_term NumR V sc b ns dt t0 (dzero V) r (s, w)
    = w *' spec_term NumR V sc b ns dt t0 (dzero V) r (s, 1).
  Proof.
    unfold spec_term. cbn [fst snd]. destruct (in_window _ _ _ _).
    - now rewrite (dl_scale_1 V L).
    - symmetry. apply (dl_scale_0 V L).
  Qed.

  (* one lookup table for transmission and reception (and, with amplitudes, one
     amplitude table and a commutative product) *)
  Definition sym_row (b : bool) (r : prow R D) : Prop :=
    r_lt_tx r = r_lt_rx r /\ (b = true -> r_a_tx r = r_a_rx r /\ forall x y, dmul V x y = dmul V y x).

  Lemma spec_term_swap sc b ns dt t0 fill r g p w :
    (forall i j, g i j = g j i) -> sym_row b r ->
    spec_term NumR V sc b ns dt t0 fill r (pair_scan g (swap p), w)
    = spec_term NumR V sc b ns dt t0 fill r (pair_scan g p, w).
  Proof.
    intros Hg [Hlt Ha]. destruct p as [i j]. unfold spec_term, position, lookup_time, amp, pair_scan, swap.
    cbn [fst snd s_tx s_rx s_x NumR nadd]. rewrite <- Hlt, (Hg j i), (Rplus_comm (getT NumR _ j)).
    destruct (in_window _ _ _ _); [|reflexivity]. destruct b; [|reflexivity].
    destruct (Ha eq_refl) as [Hamp Hc]. rewrite <- Hamp, (Hc (getD V _ j)). reflexivity.
  Qed.

  Lemma scale_unscale {A} (l : list A) (S : D) : (l = [] -> S = dzero V) ->
    IZR (Z.of_nat (length l)) *' ((1 / IZR (Z.of_nat (length l))) *' S) = S.
  Proof.
    intros H0. destruct l as [|a l].
    - rewrite (H0 eq_refl). now rewrite !(dl_scale_0 V L).
    - rewrite (dl_scale_scale V L).
      replace (IZR (Z.of_nat (length (a :: l))) * (1 / IZR (Z.of_nat (length (a :: l))))) with 1.
      + apply (dl_scale_1 V L).
      + field. apply not_0_IZR. cbn [length]. lia.
  Qed.

  Lemma default_weights_frame_of (g : nat -> nat -> list D) pairs :
    default_weights NumR (frame_of g pairs)
    = map (fun k => IZR (Z.of_nat k)) (default_timetrace_weights pairs).
  Proof. unfold default_weights. now rewrite frame_pairs_frame_of. Qed.

  (* N_half * I_half(pixel) = N_fmc * I_fmc(pixel), default weights, fill value 0, for any
     half-matrix acquisition *)
  Lemma half_fmc_point sc b ns dt t0 g n pairs r :
    half_matrix n pairs -> (forall i j, g i j = g j i) -> sym_row b r ->
    IZR (Z.of_nat (length pairs))
      *' das_spec_point NumR V sc b ns dt t0 (dzero V)
           (Some (default_weights NumR (frame_of g pairs))) (frame_of g pairs) r
    = IZR (Z.of_nat (length (fmc n)))
      *' das_spec_point NumR V sc b ns dt t0 (dzero V)
           (Some (default_weights NumR (frame_of g (fmc n)))) (frame_of g (fmc n)) r.
  Proof.
    intros Hh Hg Hr. rewrite !default_weights_frame_of, (weights_half_map n pairs Hh), weights_fmc_map, !map_map.
    rewrite !das_point_pairs.
    rewrite !scale_unscale by (intros ->; reflexivity).
    set (F := fun p => spec_term NumR V sc b ns dt t0 (dzero V) r (pair_scan g p, 1)).
    transitivity (dsum V (map (fun p => INR (hmc_w p) *' F p) pairs)).
    - f_equal. apply map_ext. intros p. rewrite spec_term_weight_fill0. unfold F.
      f_equal. unfold hmc_w. destruct (fst p =? snd p)%nat; cbn; lra.
    - rewrite <- (sum_ordered_pairs_half F n pairs Hh) by (intros p; apply spec_term_swap; assumption).
      reflexivity.
  Qed.

  Lemma hmc_fmc_point sc b ns dt t0 g n r :
    (forall i j, g i j = g j i) -> sym_row b r ->
    IZR (Z.of_nat (length (hmc n)))
      *' das_spec_point NumR V sc b ns dt t0 (dzero V)
           (Some (default_weights NumR (frame_of g (hmc n)))) (frame_of g (hmc n)) r
    = IZR (Z.of_nat (length (fmc n)))
      *' das_spec_point NumR V sc b ns dt t0 (dzero V)
           (Some (default_weights NumR (frame_of g (fmc n)))) (frame_of g (fmc n)) r.
  Proof. exact (half_fmc_point sc b ns dt t0 g n _ r (hmc_half_matrix n)). Qed.

  Definition rows_sym (b : bool) (rows : list (prow R D)) : Prop := forall r, In r rows -> sym_row b r.

  Lemma half_fmc_spec sc b ns dt t0 g n pairs rows :
    half_matrix n pairs -> (forall i j, g i j = g j i) -> rows_sym b rows ->
    map (dscale V (IZR (Z.of_nat (length pairs))))
        (das_spec NumR V sc b ns dt t0 (dzero V) (Some (default_weights NumR (frame_of g pairs)))
                  rows (frame_of g pairs))
    = map (dscale V (IZR (Z.of_nat (length (fmc n)))))
        (das_spec NumR V sc b ns dt t0 (dzero V) (Some (default_weights NumR (frame_of g (fmc n))))
                  rows (frame_of g (fmc n))).
  Proof.
    intros Hh Hg Hrows. unfold das_spec. rewrite !map_map. apply map_ext_in. intros r Hr.
    apply half_fmc_point; auto.
  Qed.

  Lemma hmc_fmc_spec sc b ns dt t0 g n rows :
    (forall i j, g i j = g j i) -> rows_sym b rows ->
    map (dscale V (IZR (Z.of_nat (length (hmc n)))))
        (das_spec NumR V sc b ns dt t0 (dzero V) (Some (default_weights NumR (frame_of g (hmc n))))
                  rows (frame_of g (hmc n)))
    = map (dscale V (IZR (Z.of_nat (length (fmc n)))))
        (das_spec NumR V sc b ns dt t0 (dzero V) (Some (default_weights NumR (frame_of g (fmc n))))
                  rows (frame_of g (fmc n))).
  Proof. exact (half_fmc_spec sc b ns dt t0 g n _ rows (hmc_half_matrix n)). Qed.

  Lemma contact_rows_sym v probe grid : rows_sym false (map (contact_row (D:=D) v probe) grid).
  Proof.
    intros r Hr. apply in_map_iff in Hr as (g & <- & _). split; [reflexivity|discriminate].
  Qed.

  (* through the pipeline: contact_tfm on a half-matrix frame and on the FMC frame *)
  Lemma half_eq_fmc_contact sc ns dt t0 grid probe v g n pairs :
    half_matrix n pairs -> (forall i j, g i j = g j i) ->
    exists Ih If,
      contact_tfm NumR V sc ns dt t0 (dzero V) WDefault grid probe v None (frame_of g pairs) = Some Ih /\
      contact_tfm NumR V sc ns dt t0 (dzero V) WDefault grid probe v None (frame_of g (fmc n)) = Some If /\
      map (dscale V (IZR (Z.of_nat (length pairs)))) Ih = map (dscale V (IZR (Z.of_nat (n * n)))) If.
  Proof.
    intros Hh Hg. eexists. eexists. rewrite !(contact_is_das_default V L). split; [reflexivity|].
    split; [reflexivity|]. rewrite <- (fmc_length n). apply half_fmc_spec; [exact Hh|exact Hg|apply contact_rows_sym].
  Qed.

  Lemma hmc_eq_fmc_contact sc ns dt t0 grid probe v g n :
    (forall i j, g i j = g j i) ->
    exists Ih If,
      contact_tfm NumR V sc ns dt t0 (dzero V) WDefault grid probe v None (frame_of g (hmc n)) = Some Ih /\
      contact_tfm NumR V sc ns dt t0 (dzero V) WDefault grid probe v None (frame_of g (fmc n)) = Some If /\
      map (dscale V (IZR (Z.of_nat (length (hmc n))))) Ih = map (dscale V (IZR (Z.of_nat (n * n)))) If.
  Proof. exact (half_eq_fmc_contact sc ns dt t0 grid probe v g n _ (hmc_half_matrix n)). Qed.
End HmcFmc.

(* ==========================================================================
   Part 3: Frame.expand_frame_assuming_reciprocity of the HMC frame IS the FMC frame
   (same timetraces in the same storage order), whatever is then done with it *)
Local Close Scope R_scope.
Section Expand.
  Context {D : Type}.

  (* the data the expansion attributes to the ordered pair (a, b): the recorded (a, b)
     if a <= b, else the recorded (b, a) *)
  Definition symg (g : nat -> nat -> list D) (a b : nat) : list D := if a <=? b then g a b else g b a.

  Definition pair_entry (g : nat -> nat -> list D) (p : nat * nat) : entry (list D) := (p, g (fst p) (snd p)).

  Lemma entries_frame_of g pairs : map entry_of_scan (frame_of g pairs) = map (pair_entry g) pairs.
  Proof. unfold frame_of. rewrite map_map. apply map_ext. now intros [a b]. Qed.

  Lemma keys_entries g pairs : keys (map (pair_entry g) pairs) = pairs.
  Proof. unfold keys. rewrite map_map. cbn [pair_entry key fst]. apply map_id. Qed.

  Lemma scan_entry_id (ss : list (scan D)) : map scan_of_entry (map entry_of_scan ss) = ss.
  Proof. rewrite map_map. rewrite <- (map_id ss) at 2. apply map_ext. now intros [t r x]. Qed.

  Lemma hmc_incomplete g n : 2 <= n -> is_complete (map (pair_entry g) (hmc n)) = false.
  Proof.
    intros Hn. destruct (is_complete _) eqn:E; [|reflexivity]. exfalso.
    pose proof (proj1 (is_complete_spec _ _) E (0, 1)) as E1. clear E. rename E1 into E.
    rewrite keys_entries in E.
    unfold swap in E. cbn [fst snd] in E. rewrite !hmc_In in E. lia.
  Qed.

  Lemma expand_hmc_entries g n :
    expand (map (pair_entry g) (hmc n)) = Some (map (pair_entry (symg g)) (fmc n)).
  Proof.
    destruct (expand_full_spec _ (map (pair_entry g) (hmc n))) as (e & He & _ & Hin & Hc & Hs & Hp).
    { rewrite keys_entries. apply hmc_NoDup. }
    rewrite He. f_equal. rewrite keys_entries in *.
    destruct (le_lt_dec n 1) as [Hn|Hn].
    - (* n = 0, 1: the frame is already complete and HMC = FMC *)
      assert (E : is_complete (map (pair_entry g) (hmc n)) = true).
      { unfold is_complete. rewrite keys_entries. destruct n as [|[|n]]; [reflexivity|reflexivity|lia]. }
      rewrite (Hc E). destruct n as [|[|n]]; [reflexivity|reflexivity|lia].
    - specialize (Hs (hmc_incomplete g n Hn)).
      assert (Hk : keys e = fmc n).
      { apply sorted_unique; [exact Hs|apply fmc_sorted|].
        intros [a b]. rewrite Hin, fmc_In. unfold swap. cbn [fst snd]. rewrite !hmc_In. lia. }
      transitivity (map (fun en : entry (list D) => pair_entry (symg g) (key en)) e).
      + rewrite <- (map_id e) at 1. apply map_ext_in. intros [[a b] x] Hen.
        unfold pair_entry, key, symg. cbn [fst snd]. f_equal.
        destruct (Hp (a, b) x Hen) as [H|[Hn1 H]]; apply in_map_iff in H as ([c d] & E & H);
          unfold pair_entry, swap in E; cbn [fst snd] in E; injection E as <- <- <-; apply hmc_In in H.
        * destruct (Nat.leb_spec c d); [reflexivity|lia].
        * rewrite hmc_In in Hn1. destruct (Nat.leb_spec d c); [lia|reflexivity].
      + rewrite <- (map_map key (pair_entry (symg g))). fold (keys e). now rewrite Hk.
  Qed.

  Lemma expand_hmc_frame g n : expand_frame (frame_of g (hmc n)) = Some (frame_of (symg g) (fmc n)).
  Proof.
    unfold expand_frame. rewrite entries_frame_of, expand_hmc_entries, <- entries_frame_of.
    cbn [option_map]. now rewrite scan_entry_id.
  Qed.

  Lemma frame_of_ext (g g' : nat -> nat -> list D) pairs :
    (forall a b, g a b = g' a b) -> frame_of g pairs = frame_of g' pairs.
  Proof. intros H. unfold frame_of. apply map_ext. intros p. now rewrite H. Qed.

  Lemma symg_sym (g : nat -> nat -> list D) : (forall i j, g i j = g j i) -> forall a b, symg g a b = g a b.
  Proof. intros Hg a b. unfold symg. destruct (a <=? b); [reflexivity|apply Hg]. Qed.

  (* reciprocal data: the expanded HMC frame is the FMC frame *)
  Lemma expand_hmc_is_fmc (g : nat -> nat -> list D) n : (forall i j, g i j = g j i) ->
    expand_frame (frame_of g (hmc n)) = Some (frame_of g (fmc n)).
  Proof. intros Hg. rewrite expand_hmc_frame. f_equal. apply frame_of_ext. now apply symg_sym. Qed.

  (* ---- any half-matrix acquisition (any order, either orientation) of reciprocal data
     expands to the FMC frame ------------------------------------------------------- *)
  Lemma half_matrix_small n pairs : half_matrix n pairs -> n <= 1 -> pairs = fmc n.
  Proof.
    intros (H1 & H2 & H3 & _) Hn. destruct n as [|[|n]]; [| |lia].
    - destruct pairs as [|[a b] l]; [reflexivity|]. destruct (H2 a b (or_introl eq_refl)). lia.
    - assert (Hall : forall p, In p pairs -> p = (0, 0)).
      { intros [a b] Hp. destruct (H2 a b Hp). f_equal; lia. }
      destruct pairs as [|p [|q l]].
      + destruct (H3 0 0); try lia; contradiction.
      + now rewrite (Hall p (or_introl eq_refl)).
      + exfalso. inversion H1 as [|? ? Hni _]. subst. apply Hni.
        rewrite (Hall p (or_introl eq_refl)), <- (Hall q (or_intror (or_introl eq_refl))). now left.
  Qed.

  Lemma half_incomplete g n pairs : half_matrix n pairs -> 2 <= n ->
    is_complete (map (pair_entry g) pairs) = false.
  Proof.
    intros (_ & _ & H3 & H4) Hn. destruct (is_complete _) eqn:E; [|reflexivity]. exfalso.
    pose proof (proj1 (is_complete_spec _ _) E) as Hc. rewrite keys_entries in Hc.
    assert (H01 : In (0, 1) pairs /\ In (1, 0) pairs).
    { destruct (H3 0 1) as [H|H]; try lia; split; try exact H; apply (Hc (_, _)) in H; exact H. }
    destruct H01 as [Ha Hb]. pose proof (H4 0 1 Ha Hb). lia.
  Qed.

  Lemma expand_half_entries (g : nat -> nat -> list D) n pairs :
    half_matrix n pairs -> (forall i j, g i j = g j i) ->
    expand (map (pair_entry g) pairs) = Some (map (pair_entry g) (fmc n)).
  Proof.
    intros Hh Hg. destruct (le_lt_dec n 1) as [Hn|Hn].
    - rewrite (half_matrix_small n pairs Hh Hn).
      destruct (expand_full_spec _ (map (pair_entry g) (fmc n))) as (e & He & _ & _ & Hc & _).
      { rewrite keys_entries. apply fmc_NoDup. }
      rewrite He. f_equal. apply Hc. unfold is_complete. rewrite keys_entries.
      destruct n as [|[|n]]; [reflexivity|reflexivity|lia].
    - destruct Hh as (H1 & H2 & H3 & H4).
      destruct (expand_full_spec _ (map (pair_entry g) pairs)) as (e & He & _ & Hin & _ & Hs & Hp).
      { now rewrite keys_entries. }
      rewrite He. f_equal. rewrite keys_entries in *.
      specialize (Hs (half_incomplete g n pairs (conj H1 (conj H2 (conj H3 H4))) Hn)).
      assert (Hk : keys e = fmc n).
      { apply sorted_unique; [exact Hs|apply fmc_sorted|].
        intros [a b]. rewrite Hin, fmc_In. unfold swap. cbn [fst snd]. split.
        - intros [H|H]; apply H2 in H; lia.
        - intros [Ha Hb]. now apply H3. }
      transitivity (map (fun en : entry (list D) => pair_entry g (key en)) e).
      + rewrite <- (map_id e) at 1. apply map_ext_in. intros [[a b] x] Hen.
        unfold pair_entry, key. cbn [fst snd]. f_equal.
        destruct (Hp (a, b) x Hen) as [H|[_ H]]; apply in_map_iff in H as ([c d] & E & _);
          unfold pair_entry, swap in E; cbn [fst snd] in E; injection E as <- <- <-; [reflexivity|apply Hg].
      + rewrite <- (map_map key (pair_entry g)). fold (keys e). now rewrite Hk.
  Qed.

  Lemma expand_half_frame (g : nat -> nat -> list D) n pairs :
    half_matrix n pairs -> (forall i j, g i j = g j i) ->
    expand_frame (frame_of g pairs) = Some (frame_of g (fmc n)).
  Proof.
    intros Hh Hg. unfold expand_frame.
    rewrite entries_frame_of, (expand_half_entries g n pairs Hh Hg), <- entries_frame_of.
    cbn [option_map]. now rewrite scan_entry_id.
  Qed.
End Expand.
