(* Proofs/RayGeomGlueProofs.v — lemmas about Model/RayGeomGlue.v (C05, object-level glue):
   flat index tables in C / Fortran order, the constructors and their assertions, np.take's
   index semantics, the 17 methods as functions of the two gathers, refinement of
   Model/RayGeom.v, independence of the rays stored together (blocks), flags, error order.
   Everything here holds for ANY numeric instance and uses no axiom. *)
From Coq Require Import List ZArith Bool Arith Lia.
From Arim Require Import Base.Num Model.Vec3 Model.RayGeom Model.RayGeomGlue Proofs.RayGeomProofs.
Import ListNotations.

(* ---- flat buffers: entry (k, i, j) of an array built in either memory order ----------------- *)

Lemma unravel_ravel o D n m k i j : k < D -> i < n -> j < m ->
  unravel o D n m (ravel o D n m k i j) = (k, i, j).
Proof.
  intros Hk Hi Hj. destruct o; cbn [unravel ravel].
  - assert (E1 : ((k * n + i) * m + j) mod m = j).
    { symmetry. apply (Nat.mod_unique _ _ (k * n + i)); lia. }
    assert (E2 : ((k * n + i) * m + j) / m = k * n + i).
    { symmetry. apply (Nat.div_unique _ _ _ j); lia. }
    assert (E3 : (k * n + i) mod n = i).
    { symmetry. apply (Nat.mod_unique _ _ k); lia. }
    assert (E4 : ((k * n + i) * m + j) / (n * m) = k).
    { symmetry. apply (Nat.div_unique _ _ _ (i * m + j)).
      - assert ((i + 1) * m <= n * m) by (apply Nat.mul_le_mono_r; lia). lia.
      - ring. }
    rewrite E1, E2, E3, E4. reflexivity.
  - assert (E1 : (k + D * (i + n * j)) mod D = k).
    { symmetry. apply (Nat.mod_unique _ _ (i + n * j)); lia. }
    assert (E2 : (k + D * (i + n * j)) / D = i + n * j).
    { symmetry. apply (Nat.div_unique _ _ _ k); lia. }
    assert (E3 : (i + n * j) mod n = i).
    { symmetry. apply (Nat.mod_unique _ _ j); lia. }
    assert (E4 : (k + D * (i + n * j)) / (D * n) = j).
    { symmetry. apply (Nat.div_unique _ _ _ (k + D * i)).
      - assert (D * (i + 1) <= D * n) by (apply Nat.mul_le_mono_l; lia). lia.
      - ring. }
    rewrite E1, E2, E3, E4. reflexivity.
Qed.

Lemma ravel_lt o D n m k i j : k < D -> i < n -> j < m -> ravel o D n m k i j < D * n * m.
Proof.
  intros Hk Hi Hj. destruct o; cbn [ravel].
  - assert (H1 : k * n + i + 1 <= D * n).
    { assert ((k + 1) * n <= D * n) by (apply Nat.mul_le_mono_r; lia). lia. }
    assert (H2 : (k * n + i + 1) * m <= D * n * m) by (apply Nat.mul_le_mono_r; exact H1). lia.
  - assert (H1 : i + n * j + 1 <= n * m).
    { assert (n * (j + 1) <= n * m) by (apply Nat.mul_le_mono_l; lia). lia. }
    assert (H2 : D * (i + n * j + 1) <= D * (n * m)) by (apply Nat.mul_le_mono_l; exact H1). lia.
Qed.

Lemma tbl_get_of_fun o dt D n m f k i j : k < D -> i < n -> j < m ->
  tbl_get (tbl_of_fun o dt D n m f) k i j = Some (f k i j).
Proof.
  intros Hk Hi Hj. unfold tbl_get, tbl_of_fun. cbn [t_d t_n t_m t_buf t_order].
  apply Nat.ltb_lt in Hk as Hk'. apply Nat.ltb_lt in Hi as Hi'. apply Nat.ltb_lt in Hj as Hj'.
  rewrite Hk', Hi', Hj'. cbn [andb].
  rewrite nth_error_map.
  pose proof (ravel_lt o D n m k i j Hk Hi Hj) as Hl.
  rewrite (nth_error_nth' _ 0) by (rewrite seq_length; exact Hl).
  rewrite seq_nth by exact Hl. cbn [option_map Nat.add].
  rewrite unravel_ravel by assumption. reflexivity.
Qed.

Lemma tbl_get_in_range t k i j z : tbl_get t k i j = Some z -> k < t_d t /\ i < t_n t /\ j < t_m t.
Proof.
  unfold tbl_get. destruct (Nat.ltb_spec k (t_d t)); [|discriminate].
  destruct (Nat.ltb_spec i (t_n t)); [|discriminate].
  destruct (Nat.ltb_spec j (t_m t)); [|discriminate]. auto.
Qed.

Lemma tbl_column_of_fun o dt D n m f i j : i < n -> j < m ->
  tbl_column (tbl_of_fun o dt D n m f) i j = Some (map (fun k => f k i j) (seq 0 D)).
Proof.
  intros Hi Hj. unfold tbl_column. change (t_d (tbl_of_fun o dt D n m f)) with D.
  rewrite <- all_some_map_Some. f_equal. rewrite map_map.
  apply map_ext_in. intros k Hk. apply in_seq in Hk. apply tbl_get_of_fun; lia.
Qed.

(* the value for ray (i, j) does not depend on the memory order (nor on the dtype tag) *)
Lemma tbl_column_order_irrelevant o o' dt dt' D n m f i j : i < n -> j < m ->
  tbl_column (tbl_of_fun o dt D n m f) i j = tbl_column (tbl_of_fun o' dt' D n m f) i j.
Proof. intros Hi Hj. rewrite !tbl_column_of_fun by assumption. reflexivity. Qed.

(* ... and only on the entries [:, i, j] *)
Lemma tbl_column_depends_on_column_only o dt D n m f g i j : i < n -> j < m ->
  (forall k, k < D -> f k i j = g k i j) ->
  tbl_column (tbl_of_fun o dt D n m f) i j = tbl_column (tbl_of_fun o dt D n m g) i j.
Proof.
  intros Hi Hj H. rewrite !tbl_column_of_fun by assumption. f_equal.
  apply map_ext_in. intros k Hk. apply in_seq in Hk. apply H. lia.
Qed.

(* ---- Rays.make_indices ---------------------------------------------------------------------- *)
Definition interior_column (data : list (list (list Z))) (i j : nat) : list Z :=
  map (fun lay => match get2 lay i j with Some z => z | None => 0%Z end) data.

Lemma interior_column_seq data i j :
  interior_column data i j = map (fun k => get3 data k i j) (seq 0 (length data)).
Proof.
  induction data as [|lay data IH]; [reflexivity|].
  cbn [interior_column map length seq]. f_equal.
  fold (interior_column data i j). rewrite IH, <- seq_shift, map_map. reflexivity.
Qed.

Lemma make_indices_column interior ord d n m i j :
  length (a_data interior) = d -> i < n -> j < m ->
  tbl_column (make_indices_tbl interior ord d n m) i j =
  Some (cast (a_dtype interior) (Z.of_nat i) :: interior_column (a_data interior) i j
        ++ [cast (a_dtype interior) (Z.of_nat j)]).
Proof.
  intros Hd Hi Hj. unfold make_indices_tbl. rewrite tbl_column_of_fun by assumption. f_equal.
  set (F := fun k : nat => if k =? 0 then cast (a_dtype interior) (Z.of_nat i)
                           else if k =? d + 2 - 1 then cast (a_dtype interior) (Z.of_nat j)
                           else get3 (a_data interior) (k - 1) i j).
  change (map F (seq 0 (d + 2)) = F 0 :: interior_column (a_data interior) i j ++ [cast (a_dtype interior) (Z.of_nat j)]).
  replace (d + 2) with (1 + (d + 1)) at 1 by lia. rewrite seq_app.
  change (seq 0 1) with [0]. cbn [map app]. f_equal.
  rewrite seq_app, map_app. cbn [seq map Nat.add]. f_equal.
  - rewrite interior_column_seq, Hd, <- seq_shift, map_map.
    apply map_ext_in. intros k Hk. apply in_seq in Hk. unfold F.
    destruct (Nat.eqb_spec (S k) 0) as [E0|E0]; [lia|].
    destruct (Nat.eqb_spec (S k) (d + 2 - 1)) as [E|E]; [lia|].
    replace (S k - 1) with k by lia. reflexivity.
  - unfold F. change (1 + d) with (S d).
    destruct (Nat.eqb_spec (S d) 0) as [E|E]; [lia|].
    destruct (Nat.eqb_spec (S d) (d + 2 - 1)) as [E'|E']; [reflexivity|lia].
Qed.

(* memory order, layout flags of the input: irrelevant *)
Lemma make_indices_layout_irrelevant interior interior' ord ord' d n m i j :
  a_data interior = a_data interior' -> a_dtype interior = a_dtype interior' ->
  length (a_data interior) = d -> i < n -> j < m ->
  tbl_column (make_indices_tbl interior ord d n m) i j = tbl_column (make_indices_tbl interior' ord' d n m) i j.
Proof.
  intros E1 E2 Hd Hi Hj. rewrite !make_indices_column by (try assumption; rewrite <- E1; assumption).
  rewrite E1, E2. reflexivity.
Qed.

(* ---- integer casts ----------------------------------------------------------------------------- *)
Lemma wrap_int_small bits z : (0 < bits)%Z -> (- 2 ^ (bits - 1) <= z < 2 ^ (bits - 1))%Z -> wrap_int bits z = z.
Proof.
  intros Hb Hz. unfold wrap_int.
  assert (E : (2 ^ bits = 2 * 2 ^ (bits - 1))%Z).
  { replace bits with (Z.succ (bits - 1)) at 1 by lia. apply Z.pow_succ_r. lia. }
  rewrite Z.mod_small by lia. lia.
Qed.

Lemma cast_small_index bits k n : (0 < bits)%Z -> (Z.of_nat n <= 2 ^ (bits - 1))%Z -> k < n ->
  cast (DInt bits) (Z.of_nat k) = Z.of_nat k.
Proof.
  intros Hb Hn Hk. cbn [cast]. apply wrap_int_small; [exact Hb|].
  assert (0 <= 2 ^ (bits - 1))%Z by (apply Z.pow_nonneg; lia). lia.
Qed.

Lemma wrap_int_range bits z : (0 < bits)%Z -> (- 2 ^ (bits - 1) <= wrap_int bits z < 2 ^ (bits - 1))%Z.
Proof.
  intros Hb. unfold wrap_int.
  assert (E : (2 ^ bits = 2 * 2 ^ (bits - 1))%Z).
  { replace bits with (Z.succ (bits - 1)) at 1 by lia. apply Z.pow_succ_r. lia. }
  assert (0 < 2 ^ (bits - 1))%Z by (apply Z.pow_pos_nonneg; lia).
  pose proof (Z.mod_pos_bound (z + 2 ^ (bits - 1)) (2 ^ bits) ltac:(lia)). lia.
Qed.

(* ---- the 17 methods depend only on the two gathers, the flags and the number of interfaces -- *)
Section MethodsExt.
  Context {T : Type} (N : Num T).
  Variable nif : nat.
  Variables lp lp' : Z -> res (vec3 T).
  Variables lo lo' : Z -> res (mat3 T).
  Variables finc finc' fout fout' : nat -> pyval.
  Hypothesis Hlp : forall idx, lp idx = lp' idx.
  Hypothesis Hlo : forall idx, lo idx = lo' idx.
  Hypothesis Hfi : forall a, a < nif -> finc a = finc' a.
  Hypothesis Hfo : forall a, a < nif -> fout a = fout' a.

  Lemma m_all_ext idx : m_all N nif lp lo finc fout idx = m_all N nif lp' lo' finc' fout' idx.
  Proof.
    assert (Hic : m_inc_leg_cartesian N nif lp lo idx = m_inc_leg_cartesian N nif lp' lo' idx).
    { unfold m_inc_leg_cartesian, m_leg_local. rewrite !Hlp, !Hlo. reflexivity. }
    assert (Hoc : m_out_leg_cartesian N nif lp lo idx = m_out_leg_cartesian N nif lp' lo' idx).
    { unfold m_out_leg_cartesian, m_leg_local. rewrite !Hlp, !Hlo. reflexivity. }
    assert (His : m_inc_leg_size N nif lp idx = m_inc_leg_size N nif lp' idx).
    { unfold m_inc_leg_size. rewrite !Hlp. reflexivity. }
    assert (Hip : m_inc_leg_polar N nif lp lo idx = m_inc_leg_polar N nif lp' lo' idx).
    { unfold m_inc_leg_polar, m_inc_leg_radius. rewrite Hic. reflexivity. }
    assert (Hop : m_out_leg_polar N nif lp lo idx = m_out_leg_polar N nif lp' lo' idx).
    { unfold m_out_leg_polar, m_out_leg_radius. rewrite Hoc. reflexivity. }
    assert (Hci : m_conventional_inc_angle N nif lp lo finc idx = m_conventional_inc_angle N nif lp' lo' finc' idx).
    { unfold m_conventional_inc_angle. rewrite Hip.
      destruct (resolve nif idx) as [a|] eqn:E; [|reflexivity].
      rewrite (Hfi a (resolve_lt _ _ _ E)). reflexivity. }
    assert (Hco : m_conventional_out_angle N nif lp lo fout idx = m_conventional_out_angle N nif lp' lo' fout' idx).
    { unfold m_conventional_out_angle. rewrite Hop.
      destruct (resolve nif idx) as [a|] eqn:E; [|reflexivity].
      rewrite (Hfo a (resolve_lt _ _ _ E)). reflexivity. }
    unfold m_all, m_inc_angle, m_out_angle, m_signed_inc_angle, m_signed_out_angle, m_inc_leg_azimuth,
      m_out_leg_azimuth, m_inc_leg_radius, m_out_leg_radius.
    rewrite Hlp, Hlo, His, Hic, Hoc, Hip, Hop, Hci, Hco. reflexivity.
  Qed.
End MethodsExt.

(* ---- Model/RayGeom.v is the same 17 methods over its own gathers ------------------------------ *)
Section CoreIsGeneric.
  Context {T : Type} (N : Num T).
  Variable ifs : list (iface (T:=T)).
  Variable ray : list nat.

  Definition core_flag (get : iface (T:=T) -> option bool) (a : nat) : pyval :=
    match nth_error ifs a with Some f => py_of_flag (get f) | None => PyNone end.

  Lemma conventional_py_of_flag fl (polar : res T) :
    conventional_py N (py_of_flag fl) polar = conventional N fl polar.
  Proof. destruct fl as [[|]|]; reflexivity. Qed.

  Lemma core_all_generic idx :
    core_all N ifs ray idx =
    m_all N (length ifs) (leg_points ifs ray) (orientations_of_legs_points ifs ray)
          (core_flag if_inc) (core_flag if_out) idx.
  Proof.
    unfold core_all, m_all.
    assert (Hci : conventional_inc_angle N ifs ray idx =
                  m_conventional_inc_angle N (length ifs) (leg_points ifs ray) (orientations_of_legs_points ifs ray)
                    (core_flag if_inc) idx).
    { unfold conventional_inc_angle, m_conventional_inc_angle, numinterfaces.
      destruct (resolve (length ifs) idx) as [a|] eqn:E; [|reflexivity].
      destruct (Nat.eqb a 0); [reflexivity|]. unfold core_flag.
      destruct (nth_error ifs a) as [f|] eqn:Ef.
      - cbn [of_opt rbind]. rewrite conventional_py_of_flag. reflexivity.
      - apply nth_error_None in Ef. apply resolve_lt in E. lia. }
    assert (Hco : conventional_out_angle N ifs ray idx =
                  m_conventional_out_angle N (length ifs) (leg_points ifs ray) (orientations_of_legs_points ifs ray)
                    (core_flag if_out) idx).
    { unfold conventional_out_angle, m_conventional_out_angle, last_interface, numinterfaces.
      destruct (resolve (length ifs) idx) as [a|] eqn:E; [|reflexivity].
      destruct (Nat.eqb a (length ifs - 1)); [reflexivity|]. unfold core_flag.
      destruct (nth_error ifs a) as [f|] eqn:Ef.
      - cbn [of_opt rbind]. rewrite conventional_py_of_flag. reflexivity.
      - apply nth_error_None in Ef. apply resolve_lt in E. lia. }
    rewrite Hci, Hco. reflexivity.
  Qed.
End CoreIsGeneric.

(* ---- np.take on signed point indices = Model/RayGeom.v on the normalised ray ------------------ *)
Section Bridge.
  Context {T : Type} (N : Num T).

  Definition interface_wf (f : interface (T:=T)) : Prop := length (i_orient f) = npoints (i_points f).

  Lemma normalise_length (ifs : list (interface (T:=T))) col : length (normalise ifs col) = length col.
  Proof. revert ifs. induction col as [|z col IH]; intros [|f ifs]; cbn [normalise length]; try rewrite IH; reflexivity. Qed.

  Lemma nth_error_normalise (ifs : list (interface (T:=T))) col b :
    nth_error (normalise ifs col) b =
    match nth_error col b with
    | None => None
    | Some z => Some (match nth_error ifs b with Some f => norm1 f z | None => 0 end)
    end.
  Proof.
    revert ifs b. induction col as [|z col IH]; intros ifs b.
    - destruct b; reflexivity.
    - destruct ifs as [|f ifs]; destruct b as [|b]; cbn [normalise nth_error]; try reflexivity.
      + rewrite IH. destruct (nth_error col b); [|reflexivity]. destruct b; reflexivity.
      + apply IH.
  Qed.

  Variable ifs : list (interface (T:=T)).
  Variable col : list Z.
  Hypothesis Hlen : length col = length ifs.
  Hypothesis Hwf : Forall interface_wf ifs.

  Lemma gatherZ_refines {X} (field : interface (T:=T) -> list X) (field0 : iface (T:=T) -> list X) idx :
    (forall f, field0 (to_iface f) = field f) ->
    (forall f, In f ifs -> length (field f) = npoints (i_points f)) ->
    gatherZ ifs col field idx = gather (map to_iface ifs) (normalise ifs col) field0 idx.
  Proof.
    intros Hf Hl. unfold gatherZ, gather, numinterfaces. rewrite map_length, normalise_length, Hlen.
    destruct (resolve (length ifs) idx) as [a|] eqn:E; [|reflexivity].
    pose proof (resolve_lt _ _ _ E) as Ha.
    rewrite nth_error_map.
    destruct (nth_error ifs a) as [f|] eqn:Ef; [|apply nth_error_None in Ef; lia].
    cbn [option_map of_opt rbind]. rewrite nth_error_normalise, Ef.
    destruct (nth_error col a) as [z|] eqn:Ez; [|apply nth_error_None in Ez; lia].
    cbn [of_opt rbind]. rewrite Hf. rewrite (Hl f (nth_error_In _ _ Ef)). unfold norm1.
    destruct (resolve (npoints (i_points f)) z) as [p|] eqn:Ep; cbn [of_opt rbind]; [reflexivity|].
    assert (En : nth_error (field f) (npoints (i_points f)) = None).
    { apply nth_error_None. rewrite (Hl f (nth_error_In _ _ Ef)). lia. }
    rewrite En. reflexivity.
  Qed.

  Lemma o_leg_points_refines idx :
    o_leg_points ifs col idx = leg_points (map to_iface ifs) (normalise ifs col) idx.
  Proof.
    unfold o_leg_points, leg_points. apply gatherZ_refines.
    - intros f. reflexivity.
    - intros f _. reflexivity.
  Qed.

  Lemma o_orientations_refines idx :
    o_orientations ifs col idx = orientations_of_legs_points (map to_iface ifs) (normalise ifs col) idx.
  Proof.
    unfold o_orientations, orientations_of_legs_points. apply gatherZ_refines.
    - intros f. reflexivity.
    - intros f Hin. rewrite Forall_forall in Hwf. exact (Hwf f Hin).
  Qed.

  Lemma conventional_py_flag_of_py v (polar : res T) :
    conventional_py N (py_of_flag (flag_of_py v)) polar = conventional_py N v polar.
  Proof.
    unfold flag_of_py, conventional_py. destruct v as [|b|z]; cbn [is_none truthy py_of_flag]; reflexivity.
  Qed.

  (* all 17 methods of the object = the methods of Model/RayGeom.v on the normalised ray *)
  Lemma o_all_refines idx :
    o_all N ifs col idx = core_all N (map to_iface ifs) (normalise ifs col) idx.
  Proof.
    rewrite core_all_generic, map_length. unfold o_all.
    (* flags: compare through conventional_py, which only sees is_none / truthy *)
    assert (Hic : m_inc_leg_polar N (length ifs) (o_leg_points ifs col) (o_orientations ifs col) idx =
                  m_inc_leg_polar N (length ifs) (leg_points (map to_iface ifs) (normalise ifs col))
                    (orientations_of_legs_points (map to_iface ifs) (normalise ifs col)) idx).
    { pose proof (m_all_ext N (length ifs) _ _ _ _ (fun _ => PyNone) (fun _ => PyNone) (fun _ => PyNone) (fun _ => PyNone)
                    o_leg_points_refines o_orientations_refines (fun _ _ => eq_refl) (fun _ _ => eq_refl) idx) as H.
      unfold m_all in H. congruence. }
    assert (Hoc : m_out_leg_polar N (length ifs) (o_leg_points ifs col) (o_orientations ifs col) idx =
                  m_out_leg_polar N (length ifs) (leg_points (map to_iface ifs) (normalise ifs col))
                    (orientations_of_legs_points (map to_iface ifs) (normalise ifs col)) idx).
    { pose proof (m_all_ext N (length ifs) _ _ _ _ (fun _ => PyNone) (fun _ => PyNone) (fun _ => PyNone) (fun _ => PyNone)
                    o_leg_points_refines o_orientations_refines (fun _ _ => eq_refl) (fun _ _ => eq_refl) idx) as H.
      unfold m_all in H. congruence. }
    pose proof (m_all_ext N (length ifs) _ _ _ _ (o_flag ifs i_inc) (o_flag ifs i_inc) (o_flag ifs i_out) (o_flag ifs i_out)
                    o_leg_points_refines o_orientations_refines (fun _ _ => eq_refl) (fun _ _ => eq_refl) idx) as H.
    rewrite H. unfold m_all. f_equal; [f_equal; f_equal; f_equal; f_equal; f_equal; f_equal; f_equal|].
    - unfold m_conventional_inc_angle.
      destruct (resolve (length ifs) idx) as [a|]; [|reflexivity]. destruct (Nat.eqb a 0); [reflexivity|].
      unfold o_flag, core_flag. rewrite nth_error_map. destruct (nth_error ifs a) as [f|]; [|reflexivity].
      cbn [option_map to_iface if_inc]. symmetry. apply conventional_py_flag_of_py.
    - unfold m_conventional_out_angle.
      destruct (resolve (length ifs) idx) as [a|]; [|reflexivity]. destruct (Nat.eqb a (length ifs - 1)); [reflexivity|].
      unfold o_flag, core_flag. rewrite nth_error_map. destruct (nth_error ifs a) as [f|]; [|reflexivity].
      cbn [option_map to_iface if_out]. symmetry. apply conventional_py_flag_of_py.
  Qed.
End Bridge.

(* ---- constructors ------------------------------------------------------------------------------ *)
Lemma list_eqb_nat l1 l2 : list_eqb Nat.eqb l1 l2 = true <-> l1 = l2.
Proof.
  revert l2. induction l1 as [|x l1 IH]; intros [|y l2]; cbn [list_eqb]; try (split; [discriminate|discriminate]); [tauto|].
  rewrite andb_true_iff, Nat.eqb_eq, IH. split.
  - intros [-> ->]. reflexivity.
  - intros E. injection E as -> ->. auto.
Qed.

Section Constructors.
  Context {T : Type}.

  (* what Rays.__init__ asserts, for interior_indices of shape (d, n, m) *)
  Definition rays_args_ok (times : times_arr) (interior : ndarray3) (fpoints : list (points (T:=T))) (d n m : nat) : Prop :=
    a_shape interior = [d; n; m] /\ tm_shape times = [n; m] /\
    (exists p0 rest, fpoints = p0 :: rest /\ n = npoints p0 /\ m = npoints (last fpoints p0)) /\
    length fpoints = d + 2 /\ kind_i (a_dtype interior) = true /\ kind_f (tm_dtype times) = true.

  Lemma rays_init_built times interior (fpoints : list (points (T:=T))) ord r :
    rays_init times interior fpoints ord = Built r <->
    exists d n m, rays_args_ok times interior fpoints d n m /\
                  r = mkRays times (make_indices_tbl interior ord d n m) fpoints.
  Proof.
    unfold rays_init, rays_args_ok. split.
    - destruct (Nat.eqb_spec (length (tm_shape times)) 2) as [E1|E1]; [|discriminate]. cbn [negb].
      destruct (Nat.eqb_spec (length (a_shape interior)) 3) as [E2|E2]; [|discriminate]. cbn [negb].
      destruct (a_shape interior) as [|d [|n [|m [|]]]]; try discriminate.
      destruct fpoints as [|p0 rest]; [discriminate|].
      destruct (list_eqb Nat.eqb (tm_shape times) [n; m]) eqn:E3; [|discriminate].
      destruct (Nat.eqb_spec n (npoints p0)) as [E4|E4]; [|discriminate].
      destruct (Nat.eqb_spec m (npoints (last (p0 :: rest) p0))) as [E5|E5]; [|discriminate].
      cbn [andb negb].
      destruct (Nat.eqb_spec (length (p0 :: rest)) (d + 2)) as [E6|E6]; [|discriminate]. cbn [negb].
      destruct (kind_i (a_dtype interior)) eqn:E7; [|discriminate]. cbn [negb].
      destruct (kind_f (tm_dtype times)) eqn:E8; [|discriminate]. cbn [negb].
      intros H. injection H as <-. exists d, n, m. apply list_eqb_nat in E3.
      repeat split; try assumption; try reflexivity. exists p0, rest. auto.
    - intros (d & n & m & (Hs & Ht & (p0 & rest & Hf & Hn & Hm) & Hl & Hi & Hk) & ->).
      rewrite Hs, Ht. cbn [length Nat.eqb negb]. subst fpoints.
      assert (E3 : list_eqb Nat.eqb [n; m] [n; m] = true) by (apply list_eqb_nat; reflexivity).
      rewrite E3. rewrite <- Hn, <- Hm, !Nat.eqb_refl. cbn [andb negb].
      apply Nat.eqb_eq in Hl. rewrite Hl, Hi, Hk. reflexivity.
  Qed.

  (* the only exception of Rays.__init__ on a non-empty Fermat path is AssertionError *)
  Lemma rays_init_error_kind times interior (fpoints : list (points (T:=T))) ord :
    fpoints <> [] ->
    rays_init times interior fpoints ord = BAssert \/ exists r, rays_init times interior fpoints ord = Built r.
  Proof.
    intros Hne. unfold rays_init.
    destruct (negb (length (tm_shape times) =? 2)); [left; reflexivity|].
    destruct (negb (length (a_shape interior) =? 3)) eqn:E; [left; reflexivity|].
    destruct (a_shape interior) as [|d [|n [|m [|]]]]; try discriminate E.
    destruct fpoints as [|p0 rest]; [contradiction|].
    repeat match goal with |- context [if ?c then _ else _] => destruct c end; eauto.
  Qed.

  (* RayGeometry.__init__ *)
  Lemma raygeom_init_built (ifs : list (interface (T:=T))) r g :
    raygeom_init ifs r = Built g <->
    map p_id (r_fpoints r) = map (fun f => p_id (i_points f)) ifs /\ g = mkRayGeom ifs r.
  Proof.
    unfold raygeom_init.
    destruct (list_eqb Nat.eqb (map p_id (r_fpoints r)) (map (fun f => p_id (i_points f)) ifs)) eqn:E.
    - apply list_eqb_nat in E. split; [intros H; injection H as <-; auto | intros [_ ->]; reflexivity].
    - split; [discriminate|]. intros [H _]. apply list_eqb_nat in H. congruence.
  Qed.

  Lemma raygeom_init_assert (ifs : list (interface (T:=T))) r :
    map p_id (r_fpoints r) <> map (fun f => p_id (i_points f)) ifs <-> raygeom_init ifs r = BAssert.
  Proof.
    unfold raygeom_init.
    destruct (list_eqb Nat.eqb (map p_id (r_fpoints r)) (map (fun f => p_id (i_points f)) ifs)) eqn:E.
    - apply list_eqb_nat in E. split; [contradiction|discriminate].
    - split; [reflexivity|]. intros _ H. apply list_eqb_nat in H. congruence.
  Qed.

  (* RayGeometry.from_path *)
  Lemma raygeom_from_path_spec (p : path (T:=T)) :
    match pa_rays p with
    | None => raygeom_from_path p = BValue
    | Some r => raygeom_from_path p = raygeom_init (pa_interfaces p) r /\ raygeom_from_path p <> BValue
    end.
  Proof.
    unfold raygeom_from_path. destruct (pa_rays p) as [r|]; [|reflexivity]. split; [reflexivity|].
    unfold raygeom_init. destruct (list_eqb _ _ _); discriminate.
  Qed.

  (* Interface.__init__ *)
  Lemma interface_init_built (pts : points (T:=T)) o inc out f :
    interface_init pts o inc out = Built f ->
    interface_wf f /\ i_points f = pts /\ i_inc f = inc /\ i_out f = out /\
    none_or_bool inc = true /\ none_or_bool out = true /\
    i_orient f = match o with OneFrame B => repeat B (npoints pts) | PerPoint l => l end.
  Proof.
    unfold interface_init, interface_wf.
    destruct (none_or_bool inc); [|discriminate]. destruct (none_or_bool out); [|discriminate]. cbn [negb].
    destruct (Nat.eqb_spec (length match o with OneFrame B => repeat B (npoints pts) | PerPoint l => l end) (npoints pts)) as [E|E];
      [|discriminate].
    intros H. injection H as <-. cbn [i_orient i_points i_inc i_out]. auto 10.
  Qed.

  (* one frame for all points = that frame stored once per point; always accepted *)
  Lemma interface_init_broadcast (pts : points (T:=T)) B inc out :
    interface_init pts (OneFrame B) inc out = interface_init pts (PerPoint (repeat B (npoints pts))) inc out /\
    (none_or_bool inc = true -> none_or_bool out = true ->
     interface_init pts (OneFrame B) inc out = Built (mkInterface pts (repeat B (npoints pts)) inc out)).
  Proof.
    split; [reflexivity|]. intros Hi Ho. unfold interface_init. rewrite Hi, Ho. cbn [negb].
    rewrite repeat_length, Nat.eqb_refl. reflexivity.
  Qed.

  Lemma interface_init_errors (pts : points (T:=T)) o inc out :
    (none_or_bool inc = false \/ none_or_bool out = false -> interface_init pts o inc out = BAssert) /\
    (none_or_bool inc = true -> none_or_bool out = true ->
     forall l, o = PerPoint l -> length l <> npoints pts -> interface_init pts o inc out = BValue).
  Proof.
    unfold interface_init. split.
    - intros [H|H]; rewrite H; [reflexivity|]. destruct (none_or_bool inc); reflexivity.
    - intros Hi Ho l -> Hl. rewrite Hi, Ho. cbn [negb]. apply Nat.eqb_neq in Hl. rewrite Hl. reflexivity.
  Qed.
End Constructors.

(* ---- a RayGeometry built by the constructors: every ray has one index per interface ----------- *)
Section BuiltGeometry.
  Context {T : Type}.
  Variables (times : times_arr) (interior : ndarray3) (fpoints : list (points (T:=T))) (ord : option order).
  Variables (r : rays (T:=T)) (ifs : list (interface (T:=T))) (g : raygeom (T:=T)).
  Hypothesis Hr : rays_init times interior fpoints ord = Built r.
  Hypothesis Hg : raygeom_init ifs r = Built g.
  (* the content of the numpy array has the length of its first axis *)
  Hypothesis Hdata : length (a_data interior) = hd 0 (a_shape interior).

  Lemma built_shape :
    exists p0 rest, fpoints = p0 :: rest /\ t_n (r_indices r) = npoints p0 /\
                    t_m (r_indices r) = npoints (last fpoints p0) /\
                    t_d (r_indices r) = length ifs /\ length ifs = length fpoints /\
                    map p_id fpoints = map (fun f => p_id (i_points f)) ifs.
  Proof.
    apply rays_init_built in Hr. destruct Hr as (d & n & m & (Hs & Ht & (p0 & rest & Hf & Hn & Hm) & Hl & Hki & Hkf) & ->).
    apply raygeom_init_built in Hg. destruct Hg as [Hids _]. cbn [r_fpoints] in Hids.
    assert (Hlen : length ifs = length fpoints).
    { apply (f_equal (@length nat)) in Hids. rewrite !map_length in Hids. lia. }
    exists p0, rest. unfold make_indices_tbl. cbn [r_indices tbl_of_fun t_n t_m t_d]. repeat split; try assumption. lia.
  Qed.

  Lemma built_column i j : i < t_n (r_indices r) -> j < t_m (r_indices r) ->
    exists col, rg_column g i j = Some col /\ length col = length ifs /\
      col = cast (a_dtype interior) (Z.of_nat i) :: interior_column (a_data interior) i j
            ++ [cast (a_dtype interior) (Z.of_nat j)].
  Proof.
    intros Hi Hj.
    apply rays_init_built in Hr. destruct Hr as (d & n & m & (Hs & Ht & (p0 & rest & Hf & Hn & Hm) & Hl & Hki & Hkf) & ->).
    apply raygeom_init_built in Hg. destruct Hg as [Hids ->].
    cbn [r_indices r_fpoints g_rays g_interfaces rg_column] in *.
    unfold make_indices_tbl in Hi, Hj. cbn [tbl_of_fun t_n t_m] in Hi, Hj.
    rewrite Hs in Hdata. cbn [hd] in Hdata.
    assert (Hlen : length ifs = length fpoints).
    { apply (f_equal (@length nat)) in Hids. rewrite !map_length in Hids. lia. }
    eexists. split; [apply make_indices_column; assumption|]. split; [|reflexivity].
    cbn [length]. rewrite app_length. unfold interior_column. rewrite map_length. cbn [length]. lia.
  Qed.
End BuiltGeometry.

Lemma Forall2_len {A B} (R : A -> B -> Prop) l l' : Forall2 R l l' -> length l = length l'.
Proof. induction 1; cbn [length]; congruence. Qed.

Lemma Forall2_weaken {A B} (R R' : A -> B -> Prop) l l' : (forall a b, R a b -> R' a b) -> Forall2 R l l' -> Forall2 R' l l'.
Proof. intros HR. induction 1; constructor; auto. Qed.

(* ---- normal-side flags: only `is None` and the truth value matter ------------------------------- *)
Section Flags.
  Context {T : Type} (N : Num T).

  Definition same_flag (v w : pyval) : Prop := is_none v = is_none w /\ truthy v = truthy w.
  Definition same_but_flags (f f' : interface (T:=T)) : Prop :=
    i_points f = i_points f' /\ i_orient f = i_orient f' /\ same_flag (i_inc f) (i_inc f') /\ same_flag (i_out f) (i_out f').

  Lemma conventional_py_cases v (polar : res T) :
    (is_none v = true -> conventional_py N v polar = ValueErr) /\
    (is_none v = false -> truthy v = true -> conventional_py N v polar = polar) /\
    (is_none v = false -> truthy v = false -> conventional_py N v polar = rmap (supplement N) polar).
  Proof. unfold conventional_py. repeat split; intros; repeat match goal with H : _ = _ |- _ => rewrite H; clear H end; reflexivity. Qed.

  Lemma conventional_py_same v w (polar : res T) : same_flag v w -> conventional_py N v polar = conventional_py N w polar.
  Proof. intros [H1 H2]. unfold conventional_py. rewrite H1, H2. reflexivity. Qed.

  Lemma gatherZ_same_fields {X} (ifs ifs' : list (interface (T:=T))) col (field : interface (T:=T) -> list X) idx :
    Forall2 (fun f f' => field f = field f') ifs ifs' ->
    gatherZ ifs col field idx = gatherZ ifs' col field idx.
  Proof.
    intros H. unfold gatherZ. rewrite (Forall2_len _ _ _ H).
    destruct (resolve (length ifs') idx) as [a|]; [|reflexivity].
    assert (Hn : match nth_error ifs a, nth_error ifs' a with
                 | Some f, Some f' => field f = field f' | None, None => True | _, _ => False end).
    { clear -H. revert a. induction H as [|f f' l l' Hf _ IH]; intros [|a]; cbn [nth_error]; auto; apply IH. }
    destruct (nth_error ifs a) as [f|], (nth_error ifs' a) as [f'|]; try contradiction; [|reflexivity].
    cbn [of_opt rbind]. rewrite Hn. reflexivity.
  Qed.

  (* interfaces that differ only in the spelling of their flags (True / 1, False / 0, ...) *)
  Lemma o_all_same_flags (ifs ifs' : list (interface (T:=T))) col idx :
    Forall2 same_but_flags ifs ifs' -> o_all N ifs col idx = o_all N ifs' col idx.
  Proof.
    intros H. unfold o_all. rewrite (Forall2_len _ _ _ H).
    assert (Hn : forall a, match nth_error ifs a, nth_error ifs' a with
                 | Some f, Some f' => same_but_flags f f' | None, None => True | _, _ => False end).
    { clear -H. induction H as [|f f' l l' Hf _ IH]; intros [|a]; cbn [nth_error]; auto; apply IH. }
    assert (Hlp : forall i, o_leg_points ifs col i = o_leg_points ifs' col i).
    { intros i. apply gatherZ_same_fields. apply (Forall2_weaken same_but_flags); [|exact H]. intros f f' (E & _). rewrite E. reflexivity. }
    assert (Hlo : forall i, o_orientations ifs col i = o_orientations ifs' col i).
    { intros i. apply gatherZ_same_fields. apply (Forall2_weaken same_but_flags); [|exact H]. intros f f' (_ & E & _). exact E. }
    rewrite (m_all_ext N (length ifs') _ _ _ _ (o_flag ifs i_inc) (o_flag ifs i_inc) (o_flag ifs i_out) (o_flag ifs i_out)
               Hlp Hlo (fun _ _ => eq_refl) (fun _ _ => eq_refl) idx).
    unfold m_all. f_equal; [f_equal; f_equal; f_equal; f_equal; f_equal; f_equal; f_equal|].
    - unfold m_conventional_inc_angle.
      destruct (resolve (length ifs') idx) as [a|]; [|reflexivity]. destruct (Nat.eqb a 0); [reflexivity|].
      unfold o_flag. specialize (Hn a).
      destruct (nth_error ifs a) as [f|], (nth_error ifs' a) as [f'|]; try contradiction; [|reflexivity].
      apply conventional_py_same. apply Hn.
    - unfold m_conventional_out_angle.
      destruct (resolve (length ifs') idx) as [a|]; [|reflexivity]. destruct (Nat.eqb a (length ifs' - 1)); [reflexivity|].
      unfold o_flag. specialize (Hn a).
      destruct (nth_error ifs a) as [f|], (nth_error ifs' a) as [f'|]; try contradiction; [|reflexivity].
      apply conventional_py_same. apply Hn.
  Qed.

  (* the three cases of the conventional angles on the object *)
  Lemma o_conventional_cases (ifs : list (interface (T:=T))) col idx a f :
    resolve (length ifs) idx = Some a -> nth_error ifs a = Some f ->
    (a <> 0 ->
       (is_none (i_inc f) = true -> o_conventional_inc_angle N ifs col idx = ValueErr) /\
       (is_none (i_inc f) = false -> truthy (i_inc f) = true ->
          o_conventional_inc_angle N ifs col idx = o_inc_leg_polar N ifs col idx) /\
       (is_none (i_inc f) = false -> truthy (i_inc f) = false ->
          o_conventional_inc_angle N ifs col idx = rmap (supplement N) (o_inc_leg_polar N ifs col idx))) /\
    (a <> length ifs - 1 ->
       (is_none (i_out f) = true -> o_conventional_out_angle N ifs col idx = ValueErr) /\
       (is_none (i_out f) = false -> truthy (i_out f) = true ->
          o_conventional_out_angle N ifs col idx = o_out_leg_polar N ifs col idx) /\
       (is_none (i_out f) = false -> truthy (i_out f) = false ->
          o_conventional_out_angle N ifs col idx = rmap (supplement N) (o_out_leg_polar N ifs col idx))).
  Proof.
    intros Hr Hf. split; intros Ha.
    - unfold o_conventional_inc_angle, m_conventional_inc_angle, o_flag. rewrite Hr, Hf.
      apply Nat.eqb_neq in Ha. rewrite Ha. apply conventional_py_cases.
    - unfold o_conventional_out_angle, m_conventional_out_angle, o_flag. rewrite Hr, Hf.
      apply Nat.eqb_neq in Ha. rewrite Ha. apply conventional_py_cases.
  Qed.
End Flags.

(* ---- error kinds and their order ------------------------------------------------------------------ *)
Section Errors.
  Context {T : Type} (N : Num T).
  Variable ifs : list (interface (T:=T)).
  Variable col : list Z.

  (* an interface index outside -n .. n-1: IndexError in all 17 methods, whatever the table holds *)
  Lemma o_interface_out_of_range idx : resolve (length ifs) idx = None ->
    o_all N ifs col idx =
    (IndexErr, IndexErr, IndexErr, IndexErr, IndexErr, IndexErr, IndexErr, IndexErr, IndexErr, IndexErr,
     IndexErr, IndexErr, IndexErr, IndexErr, IndexErr, IndexErr, IndexErr).
  Proof.
    intros H. unfold o_all, m_all, m_inc_angle, m_out_angle, m_signed_inc_angle, m_signed_out_angle, m_inc_leg_azimuth,
      m_out_leg_azimuth, m_inc_leg_polar, m_out_leg_polar, m_inc_leg_radius, m_out_leg_radius,
      m_conventional_inc_angle, m_conventional_out_angle, m_inc_leg_cartesian, m_out_leg_cartesian, m_inc_leg_size,
      m_guarded, o_leg_points, o_orientations, gatherZ.
    rewrite H. reflexivity.
  Qed.

  (* first interface: None from the 8 incoming methods, before the flag and the point indices are
     looked at; last interface: None from the 7 outgoing methods *)
  Lemma o_first_last_none idx :
    (resolve (length ifs) idx = Some 0 ->
       o_inc_leg_size N ifs col idx = NoLeg /\ o_inc_leg_cartesian N ifs col idx = NoLeg /\
       o_inc_leg_radius N ifs col idx = NoLeg /\ o_inc_leg_polar N ifs col idx = NoLeg /\
       o_inc_leg_azimuth N ifs col idx = NoLeg /\ o_inc_angle N ifs col idx = NoLeg /\
       o_signed_inc_angle N ifs col idx = NoLeg /\ o_conventional_inc_angle N ifs col idx = NoLeg) /\
    (resolve (length ifs) idx = Some (length ifs - 1) ->
       o_out_leg_cartesian N ifs col idx = NoLeg /\
       o_out_leg_radius N ifs col idx = NoLeg /\ o_out_leg_polar N ifs col idx = NoLeg /\
       o_out_leg_azimuth N ifs col idx = NoLeg /\ o_out_angle N ifs col idx = NoLeg /\
       o_signed_out_angle N ifs col idx = NoLeg /\ o_conventional_out_angle N ifs col idx = NoLeg).
  Proof.
    split; intros H.
    - unfold o_inc_leg_size, o_inc_leg_cartesian, o_inc_leg_radius, o_inc_leg_polar, o_inc_leg_azimuth, o_inc_angle,
        o_signed_inc_angle, o_conventional_inc_angle, m_inc_angle, m_signed_inc_angle, m_inc_leg_azimuth, m_inc_leg_polar,
        m_inc_leg_radius, m_conventional_inc_angle, m_inc_leg_cartesian, m_inc_leg_size, m_guarded.
      rewrite H. cbn [Nat.eqb rmap rbind]. repeat split; reflexivity.
    - unfold o_out_leg_cartesian, o_out_leg_radius, o_out_leg_polar, o_out_leg_azimuth, o_out_angle,
        o_signed_out_angle, o_conventional_out_angle, m_out_angle, m_signed_out_angle, m_out_leg_azimuth, m_out_leg_polar,
        m_out_leg_radius, m_conventional_out_angle, m_out_leg_cartesian, m_guarded.
      rewrite H, Nat.eqb_refl. cbn [rmap rbind]. repeat split; reflexivity.
  Qed.

  (* an undeclared side of the normals: ValueError BEFORE any point index is read (so even when
     the polar angle itself would raise IndexError), but AFTER the None of the path's ends *)
  Lemma o_value_error_first idx a f :
    resolve (length ifs) idx = Some a -> nth_error ifs a = Some f ->
    (a <> 0 -> is_none (i_inc f) = true -> o_conventional_inc_angle N ifs col idx = ValueErr) /\
    (a <> length ifs - 1 -> is_none (i_out f) = true -> o_conventional_out_angle N ifs col idx = ValueErr).
  Proof.
    intros Hr Hf. pose proof (o_conventional_cases N ifs col idx a f Hr Hf) as [Hi Ho].
    split; intros Ha Hn; [apply (Hi Ha) | apply (Ho Ha)]; exact Hn.
  Qed.

  (* np.take: a point index outside -numpoints .. numpoints-1 raises IndexError; inside, the point
     k or k - numpoints *)
  Lemma o_leg_points_spec idx a f z :
    resolve (length ifs) idx = Some a -> length col = length ifs ->
    nth_error ifs a = Some f -> nth_error col a = Some z ->
    o_leg_points ifs col idx =
    match resolve (npoints (i_points f)) z with
    | Some p => of_opt (nth_error (p_coords (i_points f)) p)
    | None => IndexErr
    end /\
    o_orientations ifs col idx =
    match resolve (length (i_orient f)) z with
    | Some p => of_opt (nth_error (i_orient f) p)
    | None => IndexErr
    end.
  Proof.
    intros Hr Hl Hf Hz. unfold o_leg_points, o_orientations, gatherZ. rewrite Hl, Hr, Hf. cbn [of_opt rbind].
    rewrite Hz. cbn [of_opt rbind]. unfold npoints.
    split; [destruct (resolve (length (p_coords (i_points f))) z) | destruct (resolve (length (i_orient f)) z)]; reflexivity.
  Qed.

End Errors.

(* ---- two spellings of the same points: same answers from all 17 methods ------------------------- *)
Section Respelling.
  Context {T : Type} (N : Num T).
  Variable ifs : list (interface (T:=T)).
  Variables col col' : list Z.
  Hypothesis Hlen : length col = length ifs.
  Hypothesis Hlen' : length col' = length ifs.
  Hypothesis Hwf : Forall interface_wf ifs.

  Lemma o_all_same_points idx : normalise ifs col = normalise ifs col' -> o_all N ifs col idx = o_all N ifs col' idx.
  Proof. intros E. rewrite (o_all_refines N ifs col Hlen Hwf), (o_all_refines N ifs col' Hlen' Hwf), E. reflexivity. Qed.
End Respelling.

Lemma norm1_negative_spelling {T} (f : interface (T:=T)) p : p < npoints (i_points f) ->
  norm1 f (Z.of_nat p - Z.of_nat (npoints (i_points f))) = p /\ norm1 f (Z.of_nat p) = p.
Proof. intros H. unfold norm1. rewrite resolve_negative, resolve_of_nat by exact H. auto. Qed.

(* replacing EVERY valid entry by its other spelling (k <-> k - numpoints) changes nothing *)
Definition respell1 (n : nat) (z : Z) : Z :=
  match resolve n z with
  | Some _ => if (0 <=? z)%Z then z - Z.of_nat n else z + Z.of_nat n
  | None => z
  end%Z.
Fixpoint respell {T} (ifs : list (interface (T:=T))) (col : list Z) : list Z :=
  match col, ifs with
  | z :: col', f :: ifs' => respell1 (npoints (i_points f)) z :: respell ifs' col'
  | _, _ => col
  end.

Lemma resolve_respell1 n z : resolve n (respell1 n z) = resolve n z.
Proof.
  unfold respell1. destruct (resolve n z) as [p|] eqn:E; [|exact E].
  apply resolve_spec in E. destruct E as [Hp [E|E]]; subst z.
  - destruct (Z.leb_spec 0 (Z.of_nat p)); [|lia]. apply resolve_negative; exact Hp.
  - destruct (Z.leb_spec 0 (Z.of_nat p - Z.of_nat n)); [lia|].
    replace (Z.of_nat p - Z.of_nat n + Z.of_nat n)%Z with (Z.of_nat p) by lia. apply resolve_of_nat; exact Hp.
Qed.

Lemma respell1_differs n z p : resolve n z = Some p -> 0 < n -> respell1 n z <> z.
Proof. intros E Hn. unfold respell1. rewrite E. destruct (0 <=? z)%Z; lia. Qed.

Lemma normalise_respell {T} (ifs : list (interface (T:=T))) col : length col = length ifs ->
  normalise ifs (respell ifs col) = normalise ifs col.
Proof.
  revert ifs. induction col as [|z col IH]; intros [|f ifs] Hl; try discriminate Hl; [reflexivity|].
  cbn [respell normalise]. f_equal; [|apply IH; injection Hl as ->; reflexivity].
  unfold norm1. rewrite resolve_respell1. reflexivity.
Qed.

Lemma respell_length {T} (ifs : list (interface (T:=T))) col : length (respell ifs col) = length col.
Proof. revert ifs. induction col as [|z col IH]; intros [|f ifs]; cbn [respell length]; try rewrite IH; reflexivity. Qed.

(* ---- every ray is independent of the rays stored with it ------------------------------------------ *)
Lemma nth_error_pick {X} (l : list X) idxs a : Forall (fun k => k < length l) idxs ->
  nth_error (pick l idxs) a = match nth_error idxs a with Some k => nth_error l k | None => None end.
Proof.
  intros H. revert a. induction H as [|k idxs Hk _ IH]; intros a; [destruct a; reflexivity|].
  unfold pick. cbn [flat_map]. fold (pick l idxs).
  destruct (nth_error l k) as [x|] eqn:E; [|apply nth_error_None in E; lia].
  destruct a as [|a]; cbn [app nth_error]; [symmetry; exact E | apply IH].
Qed.

Lemma pick_length {X} (l : list X) idxs : Forall (fun k => k < length l) idxs -> length (pick l idxs) = length idxs.
Proof.
  induction 1 as [|k idxs Hk _ IH]; [reflexivity|].
  unfold pick. cbn [flat_map]. fold (pick l idxs).
  destruct (nth_error l k) as [x|] eqn:E; [|apply nth_error_None in E; lia].
  cbn [app length]. rewrite IH. reflexivity.
Qed.

Lemma nth_error_cons_snoc {X} (x y : X) l k :
  nth_error (x :: l ++ [y]) k =
  match k with
  | 0 => Some x
  | S k' => if k' <? length l then nth_error l k' else if k' =? length l then Some y else None
  end.
Proof.
  destruct k as [|k']; [reflexivity|]. cbn [nth_error].
  destruct (Nat.ltb_spec k' (length l)) as [H|H]; [apply nth_error_app1; exact H|].
  rewrite nth_error_app2 by exact H.
  destruct (Nat.eqb_spec k' (length l)) as [E|E].
  - subst k'. rewrite Nat.sub_diag. reflexivity.
  - destruct (k' - length l) as [|q] eqn:Eq; [lia|]. destruct q; reflexivity.
Qed.

Section Blocks.
  Context {T : Type} (N : Num T).
  Variables (f0 fl : interface (T:=T)) (mids : list (interface (T:=T))).
  Variables (rows cols : list nat) (id0 idl : nat).
  Variable mid : list Z.
  Hypothesis Hmid : length mid = length mids.
  Hypothesis Hrows : Forall (fun k => k < npoints (i_points f0)) rows.
  Hypothesis Hcols : Forall (fun k => k < npoints (i_points fl)) cols.
  Hypothesis Hwf0 : interface_wf f0.
  Hypothesis Hwfl : interface_wf fl.
  Variables (a b ra cb : nat).
  Hypothesis Ha : nth_error rows a = Some ra.
  Hypothesis Hb : nth_error cols b = Some cb.
  Local Notation ifs := (f0 :: mids ++ [fl]).
  Local Notation ifs' := (interface_pick id0 rows f0 :: mids ++ [interface_pick idl cols fl]).
  Local Notation col := (Z.of_nat ra :: mid ++ [Z.of_nat cb]).
  Local Notation col' := (Z.of_nat a :: mid ++ [Z.of_nat b]).

  Lemma picked_point {X} (l : list X) idxs c rc : Forall (fun k => k < length l) idxs -> nth_error idxs c = Some rc ->
    rbind (of_opt (resolve (length (pick l idxs)) (Z.of_nat c))) (fun p => of_opt (nth_error (pick l idxs) p)) =
    rbind (of_opt (resolve (length l) (Z.of_nat rc))) (fun p => of_opt (nth_error l p)).
  Proof.
    intros Hin Hc. rewrite pick_length by exact Hin.
    assert (Hc' : c < length idxs) by (apply nth_error_Some; congruence).
    assert (Hrc : rc < length l).
    { rewrite Forall_forall in Hin. apply Hin. eapply nth_error_In; exact Hc. }
    rewrite !resolve_of_nat by assumption. cbn [of_opt rbind].
    rewrite nth_error_pick by exact Hin. rewrite Hc. reflexivity.
  Qed.

  Lemma block_gather {X} (field : interface (T:=T) -> list X) idx :
    (forall id idxs f, field (interface_pick id idxs f) = pick (field f) idxs) ->
    length (field f0) = npoints (i_points f0) -> length (field fl) = npoints (i_points fl) ->
    gatherZ ifs' col' field idx = gatherZ ifs col field idx.
  Proof.
    intros Hpick H0 Hl. unfold gatherZ.
    assert (L1 : length ifs' = S (length mids + 1)) by (cbn [length]; rewrite app_length; reflexivity).
    assert (L2 : length ifs = S (length mids + 1)) by (cbn [length]; rewrite app_length; reflexivity).
    assert (L3 : length col' = S (length mids + 1)) by (cbn [length]; rewrite app_length, Hmid; reflexivity).
    assert (L4 : length col = S (length mids + 1)) by (cbn [length]; rewrite app_length, Hmid; reflexivity).
    rewrite L1, L2, L3, L4.
    destruct (resolve (S (length mids + 1)) idx) as [k|] eqn:E; [|reflexivity].
    pose proof (resolve_lt _ _ _ E) as Hk. cbn [of_opt rbind].
    rewrite !nth_error_cons_snoc, Hmid.
    destruct k as [|k'].
    - cbn [of_opt rbind]. rewrite Hpick.
      apply picked_point; [rewrite H0; exact Hrows | exact Ha].
    - destruct (Nat.ltb_spec k' (length mids)) as [H|H]; [reflexivity|].
      destruct (Nat.eqb_spec k' (length mids)) as [E'|E']; [|lia].
      cbn [of_opt rbind]. rewrite Hpick.
      apply picked_point; [rewrite Hl; exact Hcols | exact Hb].
  Qed.

  (* the ray (a, b) of the block answers as the ray (rows[a], cols[b]) of the whole, in all 17 methods *)
  Lemma block_o_all idx : o_all N ifs' col' idx = o_all N ifs col idx.
  Proof.
    unfold o_all.
    assert (L : length ifs' = length ifs) by (cbn [length]; rewrite !app_length; reflexivity).
    rewrite L. apply m_all_ext.
    - intros i. unfold o_leg_points. apply block_gather; [reflexivity|reflexivity|reflexivity].
    - intros i. unfold o_orientations. apply block_gather; [reflexivity|exact Hwf0|exact Hwfl].
    - intros k Hk. unfold o_flag. rewrite !nth_error_cons_snoc.
      destruct k as [|k']; [reflexivity|]. destruct (k' <? length mids); [reflexivity|]. destruct (k' =? length mids); reflexivity.
    - intros k Hk. unfold o_flag. rewrite !nth_error_cons_snoc.
      destruct k as [|k']; [reflexivity|]. destruct (k' <? length mids); [reflexivity|]. destruct (k' =? length mids); reflexivity.
  Qed.
End Blocks.

(* the interior table of the block: x[:, rows][:, :, cols] *)
Definition data_pick (rows cols : list nat) (data : list (list (list Z))) : list (list (list Z)) :=
  map (fun lay => map (fun row => pick row cols) (pick lay rows)) data.

Lemma interior_column_pick n m rows cols data a b ra cb :
  (forall lay, In lay data -> length lay = n /\ forall row, In row lay -> length row = m) ->
  Forall (fun k => k < n) rows -> Forall (fun k => k < m) cols ->
  nth_error rows a = Some ra -> nth_error cols b = Some cb ->
  interior_column (data_pick rows cols data) a b = interior_column data ra cb.
Proof.
  intros Hs Hr Hc Ha Hb. unfold interior_column, data_pick. rewrite map_map.
  apply map_ext_in. intros lay Hl. destruct (Hs lay Hl) as [Hn Hm].
  unfold get2. rewrite nth_error_map, nth_error_pick by (rewrite Hn; exact Hr). rewrite Ha.
  destruct (nth_error lay ra) as [row|] eqn:Er; [|reflexivity]. cbn [option_map].
  rewrite nth_error_pick by (rewrite (Hm row (nth_error_In _ _ Er)); exact Hc). rewrite Hb. reflexivity.
Qed.

(* ---- the dtype of the index table -------------------------------------------------------------------- *)
(* any signed integer dtype wide enough for n - 1 and m - 1 gives the same column *)
Lemma make_indices_dtype_irrelevant interior interior' ord ord' d n m bits bits' i j :
  a_data interior = a_data interior' -> a_dtype interior = DInt bits -> a_dtype interior' = DInt bits' ->
  (0 < bits)%Z -> (0 < bits')%Z ->
  (Z.of_nat (Nat.max n m) <= 2 ^ (bits - 1))%Z -> (Z.of_nat (Nat.max n m) <= 2 ^ (bits' - 1))%Z ->
  length (a_data interior) = d -> i < n -> j < m ->
  tbl_column (make_indices_tbl interior ord d n m) i j = tbl_column (make_indices_tbl interior' ord' d n m) i j /\
  tbl_column (make_indices_tbl interior ord d n m) i j =
    Some (Z.of_nat i :: interior_column (a_data interior) i j ++ [Z.of_nat j]).
Proof.
  intros E1 E2 E3 Hb Hb' Hr Hr' Hd Hi Hj.
  rewrite !make_indices_column by (try assumption; rewrite <- E1; assumption).
  rewrite <- E1, E2, E3.
  rewrite (cast_small_index bits i n), (cast_small_index bits j m), (cast_small_index bits' i n), (cast_small_index bits' j m)
    by (try assumption; lia).
  split; reflexivity.
Qed.

(* ---- Rays.reverse on the objects ------------------------------------------------------------------------ *)
Lemma last_rev_cons {A} (x : A) l d : last (rev (x :: l)) d = x.
Proof. cbn [rev]. apply last_last. Qed.

Lemma hd_rev_last {A} (l : list A) d : hd d (rev l) = last l d.
Proof.
  induction l as [|x l IH]; [reflexivity|]. cbn [rev].
  destruct l as [|y l]; [reflexivity|].
  change (last (x :: y :: l) d) with (last (y :: l) d). rewrite <- IH.
  destruct (rev (y :: l)) as [|z r] eqn:E; [|reflexivity].
  apply (f_equal (@length A)) in E. rewrite rev_length in E. discriminate.
Qed.

Lemma last_default_indep {A} (l : list A) d d' : l <> [] -> last l d = last l d'.
Proof.
  induction l as [|x l IH]; [contradiction|]. intros _. destruct l as [|y l]; [reflexivity|].
  change (last (y :: l) d = last (y :: l) d'). apply IH. discriminate.
Qed.

Lemma tbl_interior_column t i j : i < t_n t -> j < t_m t ->
  interior_column (tbl_interior t) i j = map (fun k => tbl_entry t k i j) (seq 1 (t_d t - 2)).
Proof.
  intros Hi Hj. unfold interior_column, tbl_interior. rewrite map_map. apply map_ext. intros k.
  change (map (fun i0 => map (fun j0 => tbl_entry t k i0 j0) (seq 0 (t_m t))) (seq 0 (t_n t)))
    with (tab (t_n t) (t_m t) (fun i0 j0 => tbl_entry t k i0 j0)).
  rewrite get2_tab by assumption. reflexivity.
Qed.

Lemma tbl_interior_shape t lay : In lay (tbl_interior t) ->
  length lay = t_n t /\ forall row, In row lay -> length row = t_m t.
Proof.
  unfold tbl_interior. intros H. apply in_map_iff in H. destruct H as (k & <- & _). split.
  - rewrite map_length, seq_length. reflexivity.
  - intros row Hr. apply in_map_iff in Hr. destruct Hr as (i & <- & _). rewrite map_length, seq_length. reflexivity.
Qed.

Lemma make_indices_interior interior ord d n m i j : length (a_data interior) = d -> i < n -> j < m ->
  interior_column (tbl_interior (make_indices_tbl interior ord d n m)) i j = interior_column (a_data interior) i j.
Proof.
  intros Hd Hi Hj. rewrite tbl_interior_column by assumption.
  unfold make_indices_tbl at 2. cbn [tbl_of_fun t_d]. replace (d + 2 - 2) with d by lia.
  rewrite interior_column_seq, Hd, <- seq_shift, map_map. apply map_ext_in. intros k Hk. apply in_seq in Hk.
  unfold tbl_entry, make_indices_tbl. rewrite tbl_get_of_fun by lia.
  destruct (Nat.eqb_spec (S k) 0) as [E0|E0]; [lia|].
  destruct (Nat.eqb_spec (S k) (d + 2 - 1)) as [E|E]; [lia|].
  replace (S k - 1) with k by lia. reflexivity.
Qed.

Lemma swap_reverse_column m (data : list (list (list Z))) n i j :
  (forall lay, In lay data -> length lay = n /\ forall row, In row lay -> length row = m) -> i < n -> j < m ->
  interior_column (swap_reverse m data) j i = rev (interior_column data i j).
Proof.
  intros Hs Hi Hj. unfold interior_column, swap_reverse. rewrite map_rev, map_map. f_equal.
  apply map_ext_in. intros lay Hl. destruct (Hs lay Hl) as [Hn Hr].
  rewrite get2_transpose; [reflexivity | exact Hr | lia | exact Hj].
Qed.

Section ReverseObjects.
  Context {T : Type}.
  Variables (times : times_arr) (interior : ndarray3) (fpoints : list (points (T:=T))) (ord : option order).
  Variable r : rays (T:=T).
  Hypothesis Hr : rays_init times interior fpoints ord = Built r.
  Hypothesis Hdata : length (a_data interior) = hd 0 (a_shape interior).

  (* Rays.reverse never fails on a Rays object, and the ray (j, i) of the result is the ray (i, j)
     read backwards, whatever the requested memory order *)
  Lemma rays_reverse_spec o :
    exists r', rays_reverse r o = Built r' /\
      r_fpoints r' = rev fpoints /\
      t_n (r_indices r') = t_m (r_indices r) /\ t_m (r_indices r') = t_n (r_indices r) /\
      t_d (r_indices r') = t_d (r_indices r) /\
      forall i j, i < t_n (r_indices r) -> j < t_m (r_indices r) ->
        tbl_column (r_indices r') j i = option_map (@rev Z) (tbl_column (r_indices r) i j).
  Proof.
    apply rays_init_built in Hr. destruct Hr as (d & n & m & (Hs & Ht & (p0 & rest & Hf & Hn & Hm) & Hl & Hki & Hkf) & ->).
    rewrite Hs in Hdata. cbn [hd] in Hdata.
    unfold rays_reverse. cbn [r_indices r_times r_fpoints].
    set (t := make_indices_tbl interior ord d n m).
    assert (Etd : t_d t = d + 2) by reflexivity. assert (Etn : t_n t = n) by reflexivity.
    assert (Etm : t_m t = m) by reflexivity. assert (Etdt : t_dtype t = a_dtype interior) by reflexivity.
    rewrite Etd, Etn, Etm, Etdt, Ht. replace (d + 2 - 2) with d by lia. cbn [rev app tm_shape tm_dtype].
    set (fl := asarray_flags o [d; m; n]).
    set (interior' := mkArr [d; m; n] (a_dtype interior) (fst fl) (snd fl) (swap_reverse m (tbl_interior t))).
    set (times' := mkTimes [m; n] (tm_dtype times)).
    assert (Hne : fpoints <> []) by (rewrite Hf; discriminate).
    assert (Hok : rays_args_ok times' interior' (rev fpoints) d m n).
    { unfold rays_args_ok. cbn [a_shape tm_shape a_dtype tm_dtype times' interior'].
      repeat split; try assumption; try reflexivity.
      - destruct (rev fpoints) as [|q0 rest'] eqn:Er.
        { apply (f_equal (@length _)) in Er. rewrite rev_length, Hl in Er. cbn in Er. lia. }
        exists q0, rest'. split; [reflexivity|]. rewrite <- Er. split.
        + rewrite Hm. f_equal. change q0 with (hd p0 (q0 :: rest')). rewrite <- Er. symmetry. apply hd_rev_last.
        + rewrite Hn. f_equal. rewrite Hf. symmetry. apply last_rev_cons.
      - rewrite rev_length. exact Hl. }
    eexists. split.
    { apply rays_init_built. exists d, m, n. split; [exact Hok|reflexivity]. }
    cbn [r_fpoints r_indices]. split; [reflexivity|]. split; [reflexivity|]. split; [reflexivity|]. split; [reflexivity|].
    intros i j Hi Hj.
    assert (Hd' : length (a_data interior') = d).
    { cbn [a_data interior']. unfold swap_reverse. rewrite rev_length, map_length. unfold tbl_interior.
      rewrite map_length, seq_length, Etd. lia. }
    rewrite (make_indices_column interior' None d m n j i Hd' Hj Hi).
    unfold t. rewrite (make_indices_column interior ord d n m i j Hdata Hi Hj).
    cbn [option_map a_dtype a_data interior']. f_equal.
    rewrite (swap_reverse_column m (tbl_interior t) n i j (tbl_interior_shape t) Hi Hj).
    unfold t. rewrite make_indices_interior by assumption.
    cbn [rev]. rewrite rev_app_distr. cbn [rev app]. reflexivity.
  Qed.
End ReverseObjects.

(* ---- incoming at k = outgoing at n-1-k of the reversed objects, for signed index tables --------- *)
Section ReverseQueries.
  Context {T : Type} (N : Num T).

  Lemma normalise_app (ifs1 ifs2 : list (interface (T:=T))) col1 col2 : length col1 = length ifs1 ->
    normalise (ifs1 ++ ifs2) (col1 ++ col2) = normalise ifs1 col1 ++ normalise ifs2 col2.
  Proof.
    revert ifs1. induction col1 as [|z col1 IH]; intros [|f ifs1] H; try discriminate H; [reflexivity|].
    cbn [app normalise]. f_equal. apply IH. injection H as ->. reflexivity.
  Qed.

  Lemma normalise_reverse (ifs : list (interface (T:=T))) col : length col = length ifs ->
    normalise (interfaces_reverse ifs) (rev col) = rev (normalise ifs col).
  Proof.
    unfold interfaces_reverse. revert ifs. induction col as [|z col IH]; intros [|f ifs] H; try discriminate H; [reflexivity|].
    cbn [map rev normalise]. injection H as H.
    rewrite normalise_app by (rewrite !rev_length, map_length; exact H).
    rewrite IH by exact H. reflexivity.
  Qed.

  Lemma to_iface_reverse (ifs : list (interface (T:=T))) :
    map to_iface (interfaces_reverse ifs) = path_reverse (map to_iface ifs).
  Proof. unfold interfaces_reverse, path_reverse. rewrite map_rev, !map_map. reflexivity. Qed.

  Lemma interfaces_reverse_wf (ifs : list (interface (T:=T))) : Forall interface_wf ifs -> Forall interface_wf (interfaces_reverse ifs).
  Proof.
    intros H. unfold interfaces_reverse. apply Forall_rev. apply Forall_map.
    eapply Forall_impl; [|exact H]. intros f Hf. exact Hf.
  Qed.

  Lemma interfaces_reverse_length (ifs : list (interface (T:=T))) : length (interfaces_reverse ifs) = length ifs.
  Proof. unfold interfaces_reverse. rewrite rev_length, map_length. reflexivity. Qed.

  Variable ifs : list (interface (T:=T)).
  Variable col : list Z.
  Hypothesis Hlen : length col = length ifs.
  Hypothesis Hwf : Forall interface_wf ifs.

  Lemma o_inc_is_out_of_reverse idx idx' k :
    resolve (length ifs) idx = Some k -> resolve (length ifs) idx' = Some (length ifs - 1 - k) ->
    o_inc_leg_cartesian N ifs col idx = o_out_leg_cartesian N (interfaces_reverse ifs) (rev col) idx' /\
    o_inc_leg_radius N ifs col idx = o_out_leg_radius N (interfaces_reverse ifs) (rev col) idx' /\
    o_inc_leg_polar N ifs col idx = o_out_leg_polar N (interfaces_reverse ifs) (rev col) idx' /\
    o_inc_leg_azimuth N ifs col idx = o_out_leg_azimuth N (interfaces_reverse ifs) (rev col) idx' /\
    o_inc_angle N ifs col idx = o_out_angle N (interfaces_reverse ifs) (rev col) idx' /\
    o_signed_inc_angle N ifs col idx = o_signed_out_angle N (interfaces_reverse ifs) (rev col) idx' /\
    o_conventional_inc_angle N ifs col idx = o_conventional_out_angle N (interfaces_reverse ifs) (rev col) idx'.
  Proof.
    intros H1 H2.
    pose proof (o_all_refines N ifs col Hlen Hwf idx) as R1.
    assert (Hlen' : length (rev col) = length (interfaces_reverse ifs)) by (rewrite rev_length, interfaces_reverse_length; exact Hlen).
    pose proof (o_all_refines N (interfaces_reverse ifs) (rev col) Hlen' (interfaces_reverse_wf ifs Hwf) idx') as R2.
    rewrite normalise_reverse, to_iface_reverse in R2 by exact Hlen.
    assert (Hl0 : length (normalise ifs col) = length (map to_iface ifs)) by (rewrite normalise_length, map_length; exact Hlen).
    assert (H1' : resolve (length (map to_iface ifs)) idx = Some k) by (rewrite map_length; exact H1).
    assert (H2' : resolve (length (map to_iface ifs)) idx' = Some (length (map to_iface ifs) - 1 - k)) by (rewrite map_length; exact H2).
    pose proof (inc_is_out_of_reverse_all N (map to_iface ifs) (normalise ifs col) Hl0 idx idx' k H1' H2')
      as (C1 & C2 & C3 & C4 & C5 & C6 & C7).
    unfold o_all, m_all, core_all in R1, R2.
    injection R1 as e1 e2 e3 e4 e5 e6 e7 e8 e9 e10 e11 e12 e13 e14 e15 e16 e17.
    injection R2 as g1 g2 g3 g4 g5 g6 g7 g8 g9 g10 g11 g12 g13 g14 g15 g16 g17.
    unfold o_inc_leg_cartesian, o_inc_leg_radius, o_inc_leg_polar, o_inc_leg_azimuth, o_inc_angle, o_signed_inc_angle,
      o_conventional_inc_angle, o_out_leg_cartesian, o_out_leg_radius, o_out_leg_polar, o_out_leg_azimuth, o_out_angle,
      o_signed_out_angle, o_conventional_out_angle.
    repeat split; congruence.
  Qed.
End ReverseQueries.

(* ---- end to end: objects built by the constructors ---------------------------------------------------- *)
Section EndToEnd.
  Context {T : Type} (N : Num T).
  Variables (times : times_arr) (interior : ndarray3) (fpoints : list (points (T:=T))) (ord : option order).
  Variables (r : rays (T:=T)) (ifs : list (interface (T:=T))) (g : raygeom (T:=T)).
  Hypothesis Hr : rays_init times interior fpoints ord = Built r.
  Hypothesis Hg : raygeom_init ifs r = Built g.
  Hypothesis Hdata : length (a_data interior) = hd 0 (a_shape interior).
  Hypothesis Hwf : Forall interface_wf ifs.

  (* every ray of a constructed RayGeometry is a ray of Model/RayGeom.v with one natural point
     index per interface: the hypothesis `length ray = length ifs` of the theorems of Props/C05.v
     holds by construction *)
  Lemma built_geometry_refines_core i j : i < t_n (r_indices r) -> j < t_m (r_indices r) ->
    exists col, rg_column g i j = Some col /\
      length (normalise ifs col) = length (map to_iface ifs) /\
      forall idx, o_all N ifs col idx = core_all N (map to_iface ifs) (normalise ifs col) idx.
  Proof.
    intros Hi Hj.
    destruct (built_column times interior fpoints ord r ifs g Hr Hg Hdata i j Hi Hj) as (col & Hc & Hl & _).
    exists col. split; [exact Hc|]. split; [rewrite normalise_length, map_length; exact Hl|].
    intros idx. apply o_all_refines; assumption.
  Qed.
End EndToEnd.

(* a block of rays cut out of the table and out of the first / last interface *)
Section BlockEndToEnd.
  Context {T : Type} (N : Num T).
  Variables (f0 fl : interface (T:=T)) (mids : list (interface (T:=T))).
  Variables (rows cols : list nat) (id0 idl : nat).
  Variables (interior : ndarray3) (ord ord' : option order) (c c' f f' : bool) (bits : Z).
  Local Notation n := (npoints (i_points f0)).
  Local Notation m := (npoints (i_points fl)).
  Local Notation d := (length mids).
  Hypothesis Hshape : forall lay, In lay (a_data interior) -> length lay = n /\ forall row, In row lay -> length row = m.
  Hypothesis Hd : length (a_data interior) = d.
  Hypothesis Hdt : a_dtype interior = DInt bits.
  Hypothesis Hbits : (0 < bits)%Z.
  Hypothesis Hroom : (Z.of_nat (Nat.max n m) <= 2 ^ (bits - 1))%Z.
  Hypothesis Hroom' : (Z.of_nat (Nat.max (length rows) (length cols)) <= 2 ^ (bits - 1))%Z.
  Hypothesis Hrows : Forall (fun k => k < n) rows.
  Hypothesis Hcols : Forall (fun k => k < m) cols.
  Hypothesis Hwf0 : interface_wf f0.
  Hypothesis Hwfl : interface_wf fl.
  Variables (a b ra cb : nat).
  Hypothesis Ha : nth_error rows a = Some ra.
  Hypothesis Hb : nth_error cols b = Some cb.

  Lemma block_end_to_end :
    let block := mkArr [d; length rows; length cols] (DInt bits) c' f' (data_pick rows cols (a_data interior)) in
    exists col col',
      tbl_column (make_indices_tbl interior ord d n m) ra cb = Some col /\
      tbl_column (make_indices_tbl block ord' d (length rows) (length cols)) a b = Some col' /\
      forall idx,
        o_all N (interface_pick id0 rows f0 :: mids ++ [interface_pick idl cols fl]) col' idx =
        o_all N (f0 :: mids ++ [fl]) col idx.
  Proof.
    intros block.
    assert (Hra : ra < n) by (rewrite Forall_forall in Hrows; apply Hrows; eapply nth_error_In; exact Ha).
    assert (Hcb : cb < m) by (rewrite Forall_forall in Hcols; apply Hcols; eapply nth_error_In; exact Hb).
    assert (Ha' : a < length rows) by (apply nth_error_Some; congruence).
    assert (Hb' : b < length cols) by (apply nth_error_Some; congruence).
    assert (Hd' : length (a_data block) = d) by (cbn [a_data block]; unfold data_pick; rewrite map_length; exact Hd).
    exists (Z.of_nat ra :: interior_column (a_data interior) ra cb ++ [Z.of_nat cb]),
           (Z.of_nat a :: interior_column (a_data interior) ra cb ++ [Z.of_nat b]).
    split; [|split].
    - rewrite make_indices_column by assumption. rewrite Hdt.
      rewrite (cast_small_index bits ra n), (cast_small_index bits cb m) by (try assumption; lia). reflexivity.
    - rewrite make_indices_column by assumption. cbn [a_dtype a_data block].
      rewrite (interior_column_pick n m rows cols (a_data interior) a b ra cb Hshape Hrows Hcols Ha Hb).
      rewrite (cast_small_index bits a (length rows)), (cast_small_index bits b (length cols)) by (try assumption; lia).
      reflexivity.
    - intros idx. apply block_o_all; try assumption.
      unfold interior_column. rewrite map_length. exact Hd.
  Qed.
End BlockEndToEnd.

(* every valid point index replaced by its other spelling: the same 17 answers *)
Lemma o_all_respell {T} (N : Num T) (ifs : list (interface (T:=T))) col :
  length col = length ifs -> Forall interface_wf ifs ->
  forall idx, o_all N ifs (respell ifs col) idx = o_all N ifs col idx.
Proof.
  intros Hl Hwf idx. apply o_all_same_points; try assumption.
  - rewrite respell_length. exact Hl.
  - apply normalise_respell. exact Hl.
Qed.
