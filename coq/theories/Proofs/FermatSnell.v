(* Proofs/FermatSnell.v — the continuous side of C01 for ONE flat interface (stretch goal
   fermat_stationary_snell: Fermat's principle implies Snell's law), the real-number instance
   of the abstract cost structure, symmetry of the Euclidean leg time.
   Uses the standard library's real numbers (their classical axioms) and Coquelicot. *)
From Coq Require Import Reals Lra Bool.
From Coquelicot Require Import Coquelicot.
Local Open Scope R_scope.

Lemma sq_sum_pos a z : z <> 0 -> 0 < a * a + z * z.
Proof.
  intros Hz. pose proof (Rle_0_sqr a) as Ha. pose proof (Rsqr_pos_lt z Hz) as Hp.
  unfold Rsqr in *. lra.
Qed.

Definition ttime (xa za xb zb c1 c2 x : R) : R :=
  sqrt ((x - xa) * (x - xa) + za * za) / c1 + sqrt ((xb - x) * (xb - x) + zb * zb) / c2.

Lemma ttime_derive xa za xb zb c1 c2 x : za <> 0 -> zb <> 0 -> c1 <> 0 -> c2 <> 0 ->
  is_derive (ttime xa za xb zb c1 c2) x
    ((x - xa) / sqrt ((x - xa) * (x - xa) + za * za) / c1
     - (xb - x) / sqrt ((xb - x) * (xb - x) + zb * zb) / c2).
Proof.
  intros Hza Hzb Hc1 Hc2. unfold ttime.
  pose proof (sq_sum_pos (x - xa) za Hza) as H1.
  pose proof (sq_sum_pos (xb - x) zb Hzb) as H2.
  auto_derive.
  - repeat split; auto.
  - assert (sqrt ((x - xa) * (x - xa) + za * za) <> 0) by (apply Rgt_not_eq, sqrt_lt_R0; exact H1).
    assert (sqrt ((xb - x) * (xb - x) + zb * zb) <> 0) by (apply Rgt_not_eq, sqrt_lt_R0; exact H2).
    unfold Rminus in *. field. repeat split; auto.
Qed.

(* Fermat => Snell for one flat interface: if x is a local minimiser of the travel time from
   A = (xa, za) to B = (xb, zb) through the point (x, 0) of the interface z = 0, then
   sin(theta1) / c1 = sin(theta2) / c2, where sin(theta1) = (x - xa) / |A X| and
   sin(theta2) = (xb - x) / |X B| are the sines of the angles to the normal. *)
Lemma fermat_stationary_snell_lemma xa za xb zb c1 c2 x a b :
  za <> 0 -> zb <> 0 -> c1 <> 0 -> c2 <> 0 -> a < x < b ->
  (forall y, a < y < b -> ttime xa za xb zb c1 c2 x <= ttime xa za xb zb c1 c2 y) ->
  (x - xa) / sqrt ((x - xa) * (x - xa) + za * za) / c1
  = (xb - x) / sqrt ((xb - x) * (xb - x) + zb * zb) / c2.
Proof.
  intros Hza Hzb Hc1 Hc2 Hx Hmin.
  pose proof (ttime_derive xa za xb zb c1 c2 x Hza Hzb Hc1 Hc2) as Hd.
  apply is_derive_Reals in Hd.
  pose (pr := exist _ _ Hd : derivable_pt (ttime xa za xb zb c1 c2) x).
  pose proof (deriv_minimum (ttime xa za xb zb c1 c2) a b x pr (proj1 Hx) (proj2 Hx) (fun y Hy1 Hy2 => Hmin y (conj Hy1 Hy2))) as H0.
  simpl in H0. lra.
Qed.

(* ---- the reals are an instance of the cost structure of Props/C01.v ---------------- *)
From Arim Require Import Proofs.MinPlusProofs.

Definition Rleb (a b : R) : bool := if Rle_dec a b then true else false.
Definition Rltb (a b : R) : bool := negb (Rleb b a).

Lemma Rleb_le a b : Rleb a b = true <-> a <= b.
Proof. unfold Rleb. destruct (Rle_dec a b); split; auto; discriminate. Qed.

Lemma cost_structure_R_lemma :
  total_preorder Rleb Rltb /\ monotone_add Rleb Rplus
  /\ (forall a b c, a + (b + c) = (a + b) + c) /\ (forall a b, a + b = b + a)
  /\ (forall a b, Rleb a b = true -> Rleb b a = true -> a = b).
Proof.
  unfold total_preorder, monotone_add. repeat split; intros.
  - apply Rleb_le. lra.
  - apply Rleb_le in H, H0. apply Rleb_le. lra.
  - destruct (Rle_dec a b); [left | right]; apply Rleb_le; lra.
  - apply Rleb_le in H. apply Rleb_le. lra.
  - lra.
  - lra.
  - apply Rleb_le in H, H0. lra.
Qed.

(* the Euclidean leg time is symmetric: |PQ| / v = |QP| / v *)
Lemma leg_time_symmetric_lemma (x1 y1 z1 x2 y2 z2 v : R) :
  sqrt ((x1 - x2) * (x1 - x2) + (y1 - y2) * (y1 - y2) + (z1 - z2) * (z1 - z2)) / v
  = sqrt ((x2 - x1) * (x2 - x1) + (y2 - y1) * (y2 - y1) + (z2 - z1) * (z2 - z1)) / v.
Proof. f_equal. f_equal. ring. Qed.
