(* Proofs/Dft2Proofs.v — two-dimensional inversion, hence rotate_matrix (FFT route) is the
   circular shift of both indices of the MATRIX itself (C10). *)
From Coq Require Import Reals List ZArith Lra Lia.
From Coquelicot Require Import Complex.
From Arim Require Import Model.Dft Proofs.DftProofs.
Import ListNotations.
Local Open Scope R_scope.

Definition dft2 (x : nat -> nat -> C) (n : nat) (k1 k2 : nat) : C :=
  csum (fun m1 => csum (fun m2 =>
    Cmult (x m1 m2) (Cmult (cis (- 2 * PI * INR m1 * INR k1 / INR n)) (cis (- 2 * PI * INR m2 * INR k2 / INR n)))) n) n.

(* idft2 as two nested one-dimensional inverse transforms *)
Lemma idft2_nested (X : nat -> nat -> C) n (j1 j2 : Z) :
  idft2 X n j1 j2 = idft (fun k1 => idft (fun k2 => X k1 k2) n j2) n j1.
Proof.
  unfold idft2, idft.
  rewrite RtoC_mult, <- Cmult_assoc. f_equal.
  symmetry.
  rewrite (csum_ext _ (fun k1 => Cmult (RtoC (/ INR n))
             (csum (fun k2 => Cmult (X k1 k2)
                (Cmult (cis (2 * PI * IZR j1 * INR k1 / INR n)) (cis (2 * PI * IZR j2 * INR k2 / INR n)))) n))).
  - apply csum_scal.
  - intros k1 _. rewrite <- Cmult_assoc. f_equal.
    rewrite Cmult_comm, <- csum_scal. apply csum_ext. intros k2 _. ring.
Qed.

(* dft2 as two nested one-dimensional transforms *)
Lemma dft2_nested (x : nat -> nat -> C) n k1 k2 :
  dft2 x n k1 k2 = dft (fun m1 => dft (fun m2 => x m1 m2) n k2) n k1.
Proof.
  unfold dft2, dft. apply csum_ext. intros m1 _.
  rewrite (Cmult_comm (csum _ _)), <- csum_scal. apply csum_ext. intros m2 _. ring.
Qed.

Lemma idft_ext (X Y : nat -> C) n j : (forall k, (k < n)%nat -> X k = Y k) -> idft X n j = idft Y n j.
Proof. intros H. unfold idft. f_equal. apply csum_ext. intros k Hk. rewrite H by assumption. reflexivity. Qed.

Lemma idft_linear_dft (x : nat -> nat -> C) n (j2 : nat) k1 : (j2 < n)%nat ->
  idft (fun k2 => dft2 x n k1 k2) n (Z.of_nat j2) = dft (fun m1 => x m1 j2) n k1.
Proof.
  intros Hj.
  (* dft2 x k1 k2 = dft over m2 of (dft over m1 of x . m2) : swap the nesting *)
  assert (E : forall k2, dft2 x n k1 k2 = dft (fun m2 => dft (fun m1 => x m1 m2) n k1) n k2).
  { intros k2. unfold dft2, dft. rewrite csum_swap. apply csum_ext. intros m2 _.
    rewrite (Cmult_comm (csum _ _)), <- csum_scal. apply csum_ext. intros m1 _. ring. }
  rewrite (idft_ext _ (fun k2 => dft (fun m2 => dft (fun m1 => x m1 m2) n k1) n k2)) by (intros; apply E).
  apply (idft_dft (fun m2 => dft (fun m1 => x m1 m2) n k1) n j2 Hj).
Qed.

Lemma idft2_dft2 (x : nat -> nat -> C) n (j1 j2 : nat) : (j1 < n)%nat -> (j2 < n)%nat ->
  idft2 (dft2 x n) n (Z.of_nat j1) (Z.of_nat j2) = x j1 j2.
Proof.
  intros H1 H2. rewrite idft2_nested.
  rewrite (idft_ext _ (fun k1 => dft (fun m1 => x m1 j2) n k1)) by (intros; apply idft_linear_dft; assumption).
  apply (idft_dft (fun m1 => x m1 j2) n j1 H1).
Qed.

Lemma idft2_periodic_Z X n (q1 q2 t1 t2 : Z) : (0 < n)%nat ->
  idft2 X n (Z.of_nat n * q1 + t1) (Z.of_nat n * q2 + t2) = idft2 X n t1 t2.
Proof.
  intros Hn.
  assert (P1 : forall q t s, idft2 X n (Z.of_nat n * q + t) s = idft2 X n t s).
  { intros q t s. destruct q as [|p|p].
    - f_equal. lia.
    - induction p as [|p IH] using Pos.peano_ind.
      + replace (Z.of_nat n * 1 + t)%Z with (t + Z.of_nat n)%Z by ring. exact (proj1 (idft2_periodic X n t s Hn)).
      + replace (Z.of_nat n * Z.pos (Pos.succ p) + t)%Z with ((Z.of_nat n * Z.pos p + t) + Z.of_nat n)%Z by lia.
        rewrite (proj1 (idft2_periodic X n _ s Hn)). exact IH.
    - induction p as [|p IH] using Pos.peano_ind.
      + rewrite <- (proj1 (idft2_periodic X n (Z.of_nat n * -1 + t) s Hn)). f_equal. ring.
      + rewrite <- (proj1 (idft2_periodic X n (Z.of_nat n * Z.neg (Pos.succ p) + t) s Hn)).
        replace (Z.of_nat n * Z.neg (Pos.succ p) + t + Z.of_nat n)%Z with (Z.of_nat n * Z.neg p + t)%Z by lia.
        exact IH. }
  assert (P2 : forall q t s, idft2 X n s (Z.of_nat n * q + t) = idft2 X n s t).
  { intros q t s. destruct q as [|p|p].
    - f_equal. lia.
    - induction p as [|p IH] using Pos.peano_ind.
      + replace (Z.of_nat n * 1 + t)%Z with (t + Z.of_nat n)%Z by ring. exact (proj2 (idft2_periodic X n s t Hn)).
      + replace (Z.of_nat n * Z.pos (Pos.succ p) + t)%Z with ((Z.of_nat n * Z.pos p + t) + Z.of_nat n)%Z by lia.
        rewrite (proj2 (idft2_periodic X n s _ Hn)). exact IH.
    - induction p as [|p IH] using Pos.peano_ind.
      + rewrite <- (proj2 (idft2_periodic X n s (Z.of_nat n * -1 + t) Hn)). f_equal. ring.
      + rewrite <- (proj2 (idft2_periodic X n s (Z.of_nat n * Z.neg (Pos.succ p) + t) Hn)).
        replace (Z.of_nat n * Z.neg (Pos.succ p) + t + Z.of_nat n)%Z with (Z.of_nat n * Z.neg p + t)%Z by lia.
        exact IH. }
  rewrite P1, P2. reflexivity.
Qed.

(* rotate_matrix through the spectrum IS the circular shift of both indices of the matrix *)
Lemma rotate_is_index_shift (x : nat -> nat -> C) n (m : Z) (j1 j2 : nat) : (j1 < n)%nat -> (j2 < n)%nat ->
  idft2 (rotate_spectrum (dft2 x n) n (IZR m * (2 * PI / INR n))) n (Z.of_nat j1) (Z.of_nat j2)
  = x (Z.to_nat ((Z.of_nat j1 - m) mod Z.of_nat n)) (Z.to_nat ((Z.of_nat j2 - m) mod Z.of_nat n)).
Proof.
  intros H1 H2. assert (Hn : (0 < n)%nat) by lia.
  rewrite rotate_whole_steps by assumption.
  pose proof (Z.div_mod (Z.of_nat j1 - m) (Z.of_nat n) ltac:(lia)) as D1.
  pose proof (Z.div_mod (Z.of_nat j2 - m) (Z.of_nat n) ltac:(lia)) as D2.
  pose proof (Z.mod_pos_bound (Z.of_nat j1 - m) (Z.of_nat n) ltac:(lia)) as R1.
  pose proof (Z.mod_pos_bound (Z.of_nat j2 - m) (Z.of_nat n) ltac:(lia)) as R2.
  rewrite D1 at 1. rewrite D2 at 1. rewrite idft2_periodic_Z by assumption.
  rewrite <- (Z2Nat.id ((Z.of_nat j1 - m) mod Z.of_nat n)) at 1 by lia.
  rewrite <- (Z2Nat.id ((Z.of_nat j2 - m) mod Z.of_nat n)) at 1 by lia.
  apply idft2_dft2; lia.
Qed.
