(* Proofs/TfmViewProofs.v — lemmas about Model/Tfm.v (C12), part 2:
   tfm_for_view is the DAS of C02 on the transposed ray times; a view and its reciprocal
   view give the same image on reciprocal data; focusing of unit spikes; contact TFM is
   tfm_for_view with the straight rays traced by the solver of C01. *)
From Coq Require Import List Reals Lra Lia ZArith Bool Arith Permutation.
From Flocq Require Import Core.Raux Core.Round_NE Core.Generic_fmt.
From Arim Require Import Base.Num Base.NumR Model.MinPlus Model.Fermat Model.Das Model.Frame Model.Tfm.
From Arim Require Import Proofs.DasProofs Proofs.FermatProofs Proofs.FrameProofs Proofs.TfmProofs.
Import ListNotations.

(* ---- lists ------------------------------------------------------------------ *)
Lemma combine_map2 {A B C E} (f : A -> C) (h : B -> E) (l : list A) (m : list B) :
  combine (map f l) (map h m) = map (fun p => (f (fst p), h (snd p))) (combine l m).
Proof.
  revert m. induction l as [|a l IH]; intros [|b m]; cbn [combine map fst snd]; try reflexivity.
  now rewrite IH.
Qed.

Lemma same_shape2_refl_len {A B} (a : list (list A)) (b : list (list B)) :
  same_shape2 a b = true -> length a = length b.
Proof. unfold same_shape2. intros H. apply andb_prop in H as [H _]. now apply Nat.eqb_eq. Qed.

(* the transposed table of a well-shaped (m, p) table has p rows *)
Lemma transpose_length {A} p (t : list (list A)) :
  Forall (fun row => length row = p) t -> length (transpose p t) = p.
Proof.
  induction 1 as [|row t Hrow _ IH]; cbn [transpose].
  - apply repeat_length.
  - rewrite map_length, combine_length, IH, Hrow. apply Nat.min_id.
Qed.

Lemma tab_ext {A} n m (f g : nat -> nat -> A) : (forall i j, f i j = g i j) -> tab n m f = tab n m g.
Proof. intros H. unfold tab. apply map_ext. intros i. apply map_ext. intros j. apply H. Qed.

(* ==========================================================================
   Part 4: tfm_for_view = DAS on the transposed ray times; reciprocal views *)
Section View.
  Context {D : Type} (V : Data R D) (L : DataLaws V).

  (* the rows of the per-point tables of a view: lookup_times_tx = tx_rays.times.T, ... *)
  Definition view_rows (p : nat) (tx_rays rx_rays : rays R) : list (prow R D) :=
    map (fun q => mkRow (fst q) (snd q) [] [])
        (combine (transpose p (r_times tx_rays)) (transpose p (r_times rx_rays))).

  Definition rays_shape_ok (p : nat) (r : rays R) : Prop := Forall (fun row => length row = p) (r_times r).

  Lemma tfm_for_view_is_das sc ns dt t0 fill p rtx rrx ss :
    rays_shape_ok p rtx -> rays_shape_ok p rrx ->
    tfm_for_view NumR V sc ns dt t0 fill p rtx rrx None ss
    = Some (das_spec NumR V sc false ns dt t0 fill None (view_rows p rtx rrx) ss).
  Proof.
    intros Htx Hrx. unfold tfm_for_view, delay_and_sum, focal_rows.
    rewrite (transpose_length p _ Htx), (transpose_length p _ Hrx), Nat.eqb_refl.
    rewrite (das_noamp_spec_gen V L). reflexivity.
  Qed.

  (* ---- the mirrored timetraces of a frame closed under (i, j) -> (j, i) with
     reciprocal data are a permutation of the frame ------------------------------- *)
  Definition mirror_closed (ss : list (scan D)) : Prop := forall s, In s ss -> In (mirror s) ss.

  Lemma mirror_invol (s : scan D) : mirror (mirror s) = s.
  Proof. now destruct s. Qed.

  Lemma mirror_perm ss : NoDup ss -> mirror_closed ss -> Permutation (map mirror ss) ss.
  Proof.
    intros Hnd Hc. apply NoDup_Permutation_bis.
    - apply FinFun.Injective_map_NoDup; [|exact Hnd].
      intros x y E. rewrite <- (mirror_invol x), <- (mirror_invol y). now rewrite E.
    - rewrite map_length. apply le_n.
    - intros x Hx. apply in_map_iff in Hx as (s & <- & Hs). now apply Hc.
  Qed.

  Definition mul_comm : Prop := forall x y, dmul V x y = dmul V y x.

  Lemma spec_term_swap_row sc b ns dt t0 fill r s w : (b = true -> mul_comm) ->
    spec_term NumR V sc b ns dt t0 fill (swap_row r) (s, w)
    = spec_term NumR V sc b ns dt t0 fill r (mirror s, w).
  Proof.
    intros Hc. unfold spec_term, position, lookup_time, amp, swap_row, mirror.
    cbn [fst snd s_tx s_rx s_x r_lt_tx r_lt_rx r_a_tx r_a_rx NumR nadd].
    rewrite (Rplus_comm (getT NumR (r_lt_rx r) (s_tx s))).
    destruct (in_window _ _ _ _); [|reflexivity]. destruct b; [|reflexivity].
    now rewrite (Hc eq_refl (getD V (r_a_rx r) (s_tx s))).
  Qed.

  Lemma reciprocal_point sc b ns dt t0 fill ss r :
    NoDup ss -> mirror_closed ss -> (b = true -> mul_comm) ->
    das_spec_point NumR V sc b ns dt t0 fill None ss (swap_row r)
    = das_spec_point NumR V sc b ns dt t0 fill None ss r.
  Proof.
    intros Hnd Hcl Hc. unfold das_spec_point. f_equal. cbn [eff_weights].
    rewrite (DasProofs.combine_repeat ss), !map_map.
    rewrite (map_ext _ (fun s => spec_term NumR V sc b ns dt t0 fill r (mirror s, n1 NumR))).
    - rewrite <- (map_map mirror (fun s => spec_term NumR V sc b ns dt t0 fill r (s, n1 NumR))).
      apply (dsum_perm V L). apply Permutation_map. now apply mirror_perm.
    - intros s. now apply spec_term_swap_row.
  Qed.

  Lemma reciprocal_spec sc b ns dt t0 fill ss rows :
    NoDup ss -> mirror_closed ss -> (b = true -> mul_comm) ->
    das_spec NumR V sc b ns dt t0 fill None (map (swap_row (D:=D)) rows) ss
    = das_spec NumR V sc b ns dt t0 fill None rows ss.
  Proof.
    intros Hnd Hcl Hc. unfold das_spec. rewrite map_map. apply map_ext. intros r.
    now apply reciprocal_point.
  Qed.

  (* exchanging the two tables of the focal law exchanges tx and rx in every row *)
  Lemma focal_rows_swap (ltx lrx : list (list R)) amps :
    focal_rows (D:=D) lrx ltx (swap_amps amps) = option_map (map (swap_row (D:=D))) (focal_rows ltx lrx amps).
  Proof.
    unfold focal_rows. rewrite (Nat.eqb_sym (length lrx)).
    destruct (length ltx =? length lrx); [|reflexivity].
    destruct amps as [[atx arx]|]; cbn [swap_amps option_map].
    - rewrite (andb_comm (same_shape2 arx lrx)).
      destruct (same_shape2 atx ltx && same_shape2 arx lrx); [|reflexivity]. cbn [option_map]. f_equal.
      rewrite (combine_swap ltx lrx), (combine_swap atx arx), combine_map2, !map_map.
      apply map_ext. now intros [[a b] [c d]].
    - f_equal. rewrite (combine_swap ltx lrx), !map_map. apply map_ext. now intros [a b].
  Qed.

  Lemma delay_and_sum_swap sc ns dt t0 fill ltx lrx amps ss :
    NoDup ss -> mirror_closed ss -> mul_comm ->
    delay_and_sum NumR V sc ns dt t0 fill None lrx ltx (swap_amps amps) ss
    = delay_and_sum NumR V sc ns dt t0 fill None ltx lrx amps ss.
  Proof.
    intros Hnd Hcl Hc. unfold delay_and_sum. rewrite focal_rows_swap.
    destruct (focal_rows ltx lrx amps) as [rows|]; cbn [option_map]; [|reflexivity].
    destruct amps as [[atx arx]|]; cbn [swap_amps].
    - rewrite !(das_amp_spec_gen V L). cbn [weights_ok].
      destruct sc; try reflexivity; f_equal; apply reciprocal_spec; auto.
    - rewrite !(das_noamp_spec_gen V L). cbn [weights_ok]. f_equal. apply reciprocal_spec; auto.
  Qed.

  (* a view (tx_path, rx_path) and its reciprocal (rx_path, tx_path), amplitudes exchanged *)
  Lemma reciprocal_views sc ns dt t0 fill p rtx rrx amps ss :
    NoDup ss -> mirror_closed ss -> mul_comm ->
    tfm_for_view NumR V sc ns dt t0 fill p rrx rtx (swap_amps amps) ss
    = tfm_for_view NumR V sc ns dt t0 fill p rtx rrx amps ss.
  Proof. intros Hnd Hcl Hc. unfold tfm_for_view. now apply delay_and_sum_swap. Qed.

  (* the FMC frame of reciprocal data is such a frame *)
  Lemma fmc_frame_closed (g : nat -> nat -> list D) n :
    (forall i j, g i j = g j i) -> NoDup (frame_of g (fmc n)) /\ mirror_closed (frame_of g (fmc n)).
  Proof.
    intros Hg. split.
    - unfold frame_of. apply FinFun.Injective_map_NoDup; [|apply FrameProofs.fmc_NoDup].
      intros [a b] [c d] E. cbn [fst snd] in E. now injection E as -> ->.
    - intros s Hs. unfold frame_of in *. apply in_map_iff in Hs as ([a b] & <- & Hab).
      apply in_map_iff. exists (b, a). cbn [fst snd mirror s_tx s_rx s_x]. split.
      + now rewrite (Hg b a).
      + apply FrameProofs.fmc_In. apply FrameProofs.fmc_In in Hab. lia.
  Qed.

  (* ---- contact TFM = tfm_for_view along the straight rays of the direct path ------ *)
  Lemma leg_entry_sym (P Q : pset (T:=R)) v i j : leg_entry NumR P v Q i j = leg_entry NumR Q v P j i.
  Proof.
    unfold leg_entry, dist. destruct (nth i (pts P) _) as [[x1 y1] z1]. destruct (nth j (pts Q) _) as [[x2 y2] z2].
    cbn [NumR nsub nadd nmul nsqrt ndiv]. f_equal. f_equal. ring.
  Qed.

  Lemma contact_is_straight_rays sc ns dt t0 fill grid probe v r ss :
    c_solve_pure NumR (Leg (Start (1%Z, probe)) v (0%Z, grid)) = Some r ->
    tfm_for_view NumR V sc ns dt t0 fill (length grid) r r None ss
    = contact_tfm NumR V sc ns dt t0 fill WNone grid probe v None ss.
  Proof.
    unfold c_solve_pure. cbn [solve_pure]. intros E. injection E as <-.
    unfold tfm_for_view, contact_tfm, contact_lookup_times, two_interfaces. cbn [r_times resolve_weights].
    change Rdiv with (ndiv NumR).
    rewrite !c_leg_tab. unfold psize, pts. cbn [snd]. rewrite transpose_tab.
    rewrite (tab_ext _ _ _ (leg_entry NumR (0%Z, grid) v (1%Z, probe))); [reflexivity|].
    intros i j. apply leg_entry_sym.
  Qed.
End View.

Lemma DataReal_mul_comm : mul_comm (DataReal NumR).
Proof. intros x y. cbn [DataReal dmul NumR nmul]. ring. Qed.

Lemma DataCplx_mul_comm : mul_comm (DataCplx NumR).
Proof.
  intros [a b] [c d]. cbn [DataCplx dmul NumR nmul nadd nsub fst snd]. f_equal; ring.
Qed.

(* ==========================================================================
   Part 5: unit spikes at the arrival samples of a scatterer on a grid node *)
Local Open Scope R_scope.

Section Spike.
  Let V := DataReal NumR.

  Lemma sample_spike ns k i : (0 <= i < ns)%Z ->
    sample V (spike V ns k) i = if (i =? k)%Z then 1 else 0.
  Proof.
    intros Hi. unfold sample, spike, zrange. rewrite map_map.
    set (h := fun j : nat => if (0 + Z.of_nat j =? k)%Z then done V else dzero V).
    assert (Hlt : (Z.to_nat i < Z.to_nat ns)%nat) by lia.
    rewrite (nth_indep _ (dzero V) (h 0%nat)) by (rewrite map_length, seq_length; exact Hlt).
    rewrite map_nth, seq_nth by exact Hlt. unfold h. cbn [plus].
    replace (0 + Z.of_nat (Z.to_nat i))%Z with i by lia. reflexivity.
  Qed.

  Definition spikes_of (ns : Z) (dt t0 : R) (r0 : prow R R) (ss : list (scan R)) : Prop :=
    forall s, In s ss ->
      (0 <= arrival_index NumR dt t0 r0 s < ns)%Z /\ s_x s = spike V ns (arrival_index NumR dt t0 r0 s).

  Lemma spike_term ns dt t0 r s k :
    s_x s = spike V ns k ->
    spec_term NumR V Nearest false ns dt t0 0 r (s, 1)
    = if (0 <=? ZnearestE (position NumR dt t0 r s))%Z && (ZnearestE (position NumR dt t0 r s) <? ns)%Z
      then (if (ZnearestE (position NumR dt t0 r s) =? k)%Z then 1 else 0) else 0.
  Proof.
    intros Hx. unfold spec_term. cbn [fst snd in_window interp NumR nround].
    destruct ((0 <=? _)%Z && (_ <? ns)%Z) eqn:E; [|reflexivity].
    apply andb_prop in E as [E1 E2]. apply Z.leb_le in E1. apply Z.ltb_lt in E2.
    rewrite Hx, sample_spike by lia. cbn [V DataReal dscale NumR nmul]. ring.
  Qed.

  Lemma spike_term_01 ns dt t0 r s k : s_x s = spike V ns k ->
    0 <= spec_term NumR V Nearest false ns dt t0 0 r (s, 1) <= 1.
  Proof.
    intros Hx. rewrite (spike_term ns dt t0 r s k Hx).
    destruct (_ && _); [|lra]. destruct (_ =? k)%Z; lra.
  Qed.

  Lemma spike_term_node ns dt t0 r0 s :
    (0 <= arrival_index NumR dt t0 r0 s < ns)%Z -> s_x s = spike V ns (arrival_index NumR dt t0 r0 s) ->
    spec_term NumR V Nearest false ns dt t0 0 r0 (s, 1) = 1.
  Proof.
    intros Hk Hx. rewrite (spike_term ns dt t0 r0 s _ Hx). unfold arrival_index in *. cbn [NumR nround] in *.
    destruct (Z.leb_spec 0 (ZnearestE (position NumR dt t0 r0 s))); [|lia].
    destruct (Z.ltb_spec (ZnearestE (position NumR dt t0 r0 s)) ns); [|lia]. cbn [andb].
    now rewrite Z.eqb_refl.
  Qed.

  Lemma dsum_cons_R x (l : list R) : dsum V (x :: l) = x + dsum V l.
  Proof. reflexivity. Qed.

  Lemma dsum_bounds (l : list R) : (forall x, In x l -> 0 <= x <= 1) -> 0 <= dsum V l <= INR (length l).
  Proof.
    induction l as [|x l IH]; intros H.
    - cbn. lra.
    - assert (Hx := H x (or_introl eq_refl)).
      assert (Hl := IH (fun y Hy => H y (or_intror Hy))).
      change (dsum V (x :: l)) with (x + dsum V l). cbn [length]. rewrite S_INR. lra.
  Qed.

  Lemma dsum_ones (l : list R) : (forall x, In x l -> x = 1) -> dsum V l = INR (length l).
  Proof.
    induction l as [|x l IH]; intros H.
    - reflexivity.
    - change (dsum V (x :: l)) with (x + dsum V l). cbn [length]. rewrite S_INR, IH, (H x (or_introl eq_refl)).
      + ring.
      + intros y Hy. apply H. now right.
  Qed.

  Lemma spike_point_eq ns dt t0 ss r :
    das_spec_point NumR V Nearest false ns dt t0 0 None ss r
    = 1 / INR (length ss) * dsum V (map (fun s => spec_term NumR V Nearest false ns dt t0 0 r (s, 1)) ss).
  Proof.
    unfold das_spec_point. cbn [eff_weights]. rewrite (DasProofs.combine_repeat ss), map_map.
    cbn [V DataReal dscale NumR nmul ndiv n1 nofZ fst]. now rewrite <- INR_IZR_INZ.
  Qed.

  Lemma spike_point_bounds ns dt t0 r0 ss r : ss <> [] -> spikes_of ns dt t0 r0 ss ->
    0 <= das_spec_point NumR V Nearest false ns dt t0 0 None ss r <= 1.
  Proof.
    intros Hne Hsp. rewrite spike_point_eq.
    set (l := map _ ss). assert (Hb : 0 <= dsum V l <= INR (length l)).
    { apply dsum_bounds. intros x Hx. apply in_map_iff in Hx as (s & <- & Hs).
      destruct (Hsp s Hs) as [_ Hx]. now apply (spike_term_01 ns dt t0 r s _ Hx). }
    assert (Hlen : length l = length ss) by apply map_length. rewrite Hlen in Hb.
    assert (Hn : 0 < INR (length ss)).
    { apply lt_0_INR. destruct ss; [congruence|cbn [length]; lia]. }
    assert (Hi : 0 < 1 / INR (length ss)) by (apply Rdiv_lt_0_compat; lra).
    split.
    - apply Rmult_le_pos; lra.
    - apply Rle_trans with (1 / INR (length ss) * INR (length ss)).
      + apply Rmult_le_compat_l; lra.
      + right. field. lra.
  Qed.

  Lemma spike_point_node ns dt t0 r0 ss : ss <> [] -> spikes_of ns dt t0 r0 ss ->
    das_spec_point NumR V Nearest false ns dt t0 0 None ss r0 = 1.
  Proof.
    intros Hne Hsp. rewrite spike_point_eq, dsum_ones.
    - rewrite map_length. field. apply not_0_INR. destruct ss; [congruence|cbn [length]; lia].
    - intros x Hx. apply in_map_iff in Hx as (s & <- & Hs). destruct (Hsp s Hs) as [Hk Hx].
      now apply spike_term_node.
  Qed.

  (* nearest-sample TFM (no weights, no amplitudes, fill value 0) of unit spikes *)
  Lemma spike_focus_spec ns dt t0 rows ss r0 : ss <> [] -> spikes_of ns dt t0 r0 ss ->
    let img := das_spec NumR V Nearest false ns dt t0 0 None rows ss in
    Forall (fun v => 0 <= v <= 1) img /\
    (forall p, nth_error rows p = Some r0 -> nth_error img p = Some 1).
  Proof.
    intros Hne Hsp. split.
    - unfold das_spec. apply Forall_forall. intros v Hv. apply in_map_iff in Hv as (r & <- & _).
      now apply (spike_point_bounds ns dt t0 r0).
    - intros p Hp. unfold das_spec. rewrite (map_nth_error _ _ _ Hp). f_equal.
      now apply spike_point_node.
  Qed.

  Lemma spike_focus_das ns dt t0 rows ss r0 : ss <> [] -> spikes_of ns dt t0 r0 ss ->
    exists img,
      das_noamp NumR V Nearest ns dt t0 0 None rows ss = Some img /\
      Forall (fun v => 0 <= v <= 1) img /\
      (forall p, nth_error rows p = Some r0 -> nth_error img p = Some 1).
  Proof.
    intros Hne Hsp. eexists. split.
    - rewrite (das_noamp_spec_gen V (DataReal_laws)). cbn [weights_ok]. reflexivity.
    - now apply spike_focus_spec.
  Qed.

  Lemma spike_focus_view_lemma ns dt t0 p rtx rrx ss r0 :
    rays_shape_ok p rtx -> rays_shape_ok p rrx ->
    ss <> [] -> spikes_of ns dt t0 r0 ss ->
    exists img,
      tfm_for_view NumR V Nearest ns dt t0 0 p rtx rrx None ss = Some img /\
      Forall (fun v => 0 <= v <= 1) img /\
      (forall k, nth_error (view_rows p rtx rrx) k = Some r0 -> nth_error img k = Some 1).
  Proof.
    intros Htx Hrx Hne Hsp. eexists. split.
    - apply (tfm_for_view_is_das V DataReal_laws); assumption.
    - now apply spike_focus_spec.
  Qed.

  Lemma spike_focus_contact_lemma ns dt t0 grid probe v ss r0 :
    ss <> [] -> spikes_of ns dt t0 r0 ss ->
    exists img,
      contact_tfm NumR V Nearest ns dt t0 0 WNone grid probe v None ss = Some img /\
      Forall (fun v => 0 <= v <= 1) img /\
      (forall k, nth_error (map (contact_row v probe) grid) k = Some r0 -> nth_error img k = Some 1).
  Proof.
    intros Hne Hsp. eexists. split.
    - apply (contact_is_das_noweights V DataReal_laws).
    - now apply spike_focus_spec.
  Qed.

  (* ---- HMC = FMC needs the fill value 0 ------------------------------------------ *)
  Lemma linear_term_out ns dt t0 fill r s w : IZR (ns - 1) <= position NumR dt t0 r s ->
    spec_term NumR V Linear false ns dt t0 fill r (s, w) = fill.
  Proof.
    intros H. unfold spec_term. cbn [fst snd in_window NumR nleb nltb n0 nofZ].
    now rewrite (Rlt_bool_false _ _ H), andb_false_r.
  Qed.

  Lemma linear_term_zero_data ns dt t0 fill r t u w :
    0 <= position NumR dt t0 r (mkScan t u [0; 0]) < IZR (ns - 1) ->
    spec_term NumR V Linear false ns dt t0 fill r (mkScan t u [0; 0], w) = 0.
  Proof.
    intros [H1 H2]. unfold spec_term. cbn [fst snd in_window NumR nleb nltb n0 nofZ].
    rewrite (Rle_bool_true _ _ H1), (Rlt_bool_true _ _ H2). cbn [andb interp s_x].
    assert (E : forall i, sample V [0; 0] i = 0).
    { intros i. unfold sample. destruct (Z.to_nat i) as [|[|[|k]]]; reflexivity. }
    rewrite !E. cbn [V DataReal dscale dadd NumR nmul nadd nsub n1]. ring.
  Qed.

  Lemma hmc_fmc_fill_counterexample :
    exists ns dt t0 fill rows (g : nat -> nat -> list R) n,
      (forall i j, g i j = g j i) /\ rows_sym V false rows /\
      map (dscale V (IZR (Z.of_nat (length (hmc n)))))
          (das_spec NumR V Linear false ns dt t0 fill (Some (default_weights NumR (frame_of g (hmc n))))
                    rows (frame_of g (hmc n)))
      <> map (dscale V (IZR (Z.of_nat (length (fmc n)))))
          (das_spec NumR V Linear false ns dt t0 fill (Some (default_weights NumR (frame_of g (fmc n))))
                    rows (frame_of g (fmc n))).
  Proof.
    exists 2%Z, 1, 0, 1, [mkRow [0; 5] [0; 5] [] []], (fun _ _ => [0; 0]), 2%nat.
    split; [reflexivity|]. split.
    { intros r [<-|[]]. split; [reflexivity|discriminate]. }
    unfold das_spec. cbn [map]. intros H. injection H as H. revert H.
    assert (Hin : forall w, spec_term NumR V Linear false 2 1 0 1 (mkRow [0; 5] [0; 5] [] [])
                              (mkScan 0 0 [0; 0], w) = 0).
    { intros w. apply linear_term_zero_data. unfold position, lookup_time, getT.
      cbn [r_lt_tx r_lt_rx s_tx s_rx nth NumR nadd nsub ndiv n0]. cbn. lra. }
    assert (Hout : forall t u w, (1 <= t + u)%nat -> (t <= 1)%nat -> (u <= 1)%nat ->
                     spec_term NumR V Linear false 2 1 0 1 (mkRow [0; 5] [0; 5] [] [])
                               (mkScan t u [0; 0], w) = 1).
    { intros t u w Htu Ht Hu. apply linear_term_out. unfold position, lookup_time, getT.
      cbn [r_lt_tx r_lt_rx s_tx s_rx NumR nadd nsub ndiv n0].
      destruct t as [|[|t]], u as [|[|u]]; try lia; cbn; lra. }
    rewrite !Hin, !Hout by lia. lra.
  Qed.
End Spike.
