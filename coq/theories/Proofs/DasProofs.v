(* Proofs/DasProofs.v — lemmas about Model/Das.v (C02).
   Everything numeric is about the NumR instance; sample values live in any
   `Data R D` satisfying the module laws `DataLaws` (proved below for the real
   and for the complex-as-pairs instances). *)
From Coq Require Import List Reals Lra Lia ZArith Bool Permutation.
From Flocq Require Import Core.Raux Core.Round_NE Core.Generic_fmt.
From Arim Require Import Base.Num Base.NumR Model.Das.
Import ListNotations.

Ltac numr := cbn [NumR nadd nsub nmul ndiv n0 n1 nofZ nround nfloor ntrunc nltb nleb neqb npi nsin nopp].

(* ---- integer windows ----------------------------------------------------- *)
Lemma out_idx_window ns i : out_idx ns i = negb ((0 <=? i)%Z && (i <? ns)%Z).
Proof.
  unfold out_idx.
  destruct (Z.ltb_spec i 0), (Z.leb_spec 0 i), (Z.ltb_spec i ns), (Z.geb_spec i ns); try reflexivity; lia.
Qed.

Lemma zgeb_ltb a b : (a >=? b)%Z = negb (a <? b)%Z.
Proof. destruct (Z.geb_spec a b), (Z.ltb_spec a b); try reflexivity; lia. Qed.

(* ---- structure of the accumulation, for every Data instance with an
   associative-commutative addition ---------------------------------------- *)
Local Open Scope R_scope.

Record DataLaws {D : Type} (V : Data R D) : Prop := mkLaws {
  dl_add_comm : forall a b, dadd V a b = dadd V b a;
  dl_add_assoc : forall a b c, dadd V (dadd V a b) c = dadd V a (dadd V b c);
  dl_add_0_l : forall a, dadd V (dzero V) a = a;
  dl_sub : forall a b, dsub V a b = dadd V a (dscale V (-1) b);
  dl_scale_add : forall c a b, dscale V c (dadd V a b) = dadd V (dscale V c a) (dscale V c b);
  dl_scale_plus : forall c1 c2 a, dscale V (c1 + c2) a = dadd V (dscale V c1 a) (dscale V c2 a);
  dl_scale_scale : forall c1 c2 a, dscale V c1 (dscale V c2 a) = dscale V (c1 * c2) a;
  dl_scale_1 : forall a, dscale V 1 a = a;
  dl_scale_zero : forall a, dscale V 0 a = dzero V;
  dl_scale_0 : forall c, dscale V c (dzero V) = dzero V;
  dl_mul_scale : forall c a b, dmul V a (dscale V c b) = dscale V c (dmul V a b);
  dl_mul_add : forall a b c, dmul V a (dadd V b c) = dadd V (dmul V a b) (dmul V a c);
  dl_mul_1 : forall a, dmul V (done V) a = a;
  dl_div : forall a c, ddiv V a c = dscale V (/ c) a
}.

Lemma DataReal_laws : DataLaws (DataReal NumR).
Proof.
  constructor; intros; cbn [DataReal NumR dzero done dadd dsub dmul dscale ddiv nadd nsub nmul ndiv n0 n1];
    try (unfold Rdiv); ring.
Qed.

Lemma DataCplx_laws : DataLaws (DataCplx NumR).
Proof.
  constructor; intros;
    repeat match goal with x : (R * R)%type |- _ => destruct x end;
    cbn [DataCplx NumR dzero done dadd dsub dmul dscale ddiv nadd nsub nmul ndiv n0 n1 fst snd];
    f_equal; try (unfold Rdiv); ring.
Qed.

Section Laws.
  Context {D : Type} (V : Data R D) (L : DataLaws V).
  Local Notation "a +' b" := (dadd V a b) (at level 50, left associativity).
  Local Notation "c *' a" := (dscale V c a) (at level 40).

  Lemma dl_add_0_r a : a +' dzero V = a.
  Proof. rewrite (dl_add_comm V L). apply (dl_add_0_l V L). Qed.

  (* for scan: res_tmp += g(scan)  is the sum of the list of summands *)
  Lemma fold_add_dsum {A} (g : A -> D) (l : list A) : forall acc,
    fold_left (fun res x => res +' g x) l acc = acc +' dsum V (map g l).
  Proof.
    induction l as [|x l IH]; intros acc; cbn [fold_left map dsum fold_right].
    - symmetry. apply dl_add_0_r.
    - rewrite IH. fold (dsum V (map g l)). apply (dl_add_assoc V L).
  Qed.

  Lemma fold_add_dsum0 {A} (g : A -> D) (l : list A) :
    fold_left (fun res x => res +' g x) l (dzero V) = dsum V (map g l).
  Proof. rewrite fold_add_dsum. apply (dl_add_0_l V L). Qed.

  Lemma dsum_app l1 l2 : dsum V (l1 ++ l2) = dsum V l1 +' dsum V l2.
  Proof.
    induction l1 as [|x l1 IH]; cbn [app dsum fold_right].
    - symmetry. apply (dl_add_0_l V L).
    - fold (dsum V (l1 ++ l2)). fold (dsum V l1). rewrite IH. symmetry. apply (dl_add_assoc V L).
  Qed.

  Lemma dsum_perm l1 l2 : Permutation l1 l2 -> dsum V l1 = dsum V l2.
  Proof.
    induction 1 as [|x l1 l2 _ IH|x y l|l1 l2 l3 _ IH1 _ IH2]; cbn [dsum fold_right].
    - reflexivity.
    - fold (dsum V l1). fold (dsum V l2). now rewrite IH.
    - fold (dsum V l). rewrite <- !(dl_add_assoc V L). f_equal. apply (dl_add_comm V L).
    - now rewrite IH1.
  Qed.

  Lemma dsum_scale c l : c *' dsum V l = dsum V (map (fun v => c *' v) l).
  Proof.
    induction l as [|x l IH]; cbn [map dsum fold_right].
    - apply (dl_scale_0 V L).
    - fold (dsum V l). fold (dsum V (map (fun v => c *' v) l)). rewrite (dl_scale_add V L). now rewrite IH.
  Qed.

  Lemma dsum_add {A} (f g : A -> D) l :
    dsum V (map (fun x => f x +' g x) l) = dsum V (map f l) +' dsum V (map g l).
  Proof.
    induction l as [|x l IH]; cbn [map dsum fold_right].
    - symmetry. apply (dl_add_0_l V L).
    - fold (dsum V (map (fun x => f x +' g x) l)). fold (dsum V (map f l)). fold (dsum V (map g l)).
      rewrite IH. rewrite !(dl_add_assoc V L). f_equal.
      rewrite <- !(dl_add_assoc V L). f_equal. apply (dl_add_comm V L).
  Qed.

  (* the two ways the linear kernels write the interpolation *)
  Lemma linear_two_forms f a b :
    a +' f *' (dsub V b a) = (1 - f) *' a +' f *' b.
  Proof.
    rewrite (dl_sub V L), (dl_scale_add V L), (dl_scale_scale V L).
    replace (1 - f) with (1 + f * -1) by ring.
    rewrite (dl_scale_plus V L), (dl_scale_1 V L).
    rewrite (dl_add_assoc V L). f_equal. apply (dl_add_comm V L).
  Qed.

  (* weighted timetrace: reading a sample commutes with the weight *)
  Lemma sample_scaled w x i : sample V (map (fun v => w *' v) x) i = w *' sample V x i.
  Proof.
    unfold sample.
    transitivity (nth (Z.to_nat i) (map (fun v => w *' v) x) (w *' dzero V)).
    - f_equal. symmetry. apply (dl_scale_0 V L).
    - apply map_nth.
  Qed.

  Definition wscan (sw : scan D * R) : scan D :=
    mkScan (s_tx (fst sw)) (s_rx (fst sw)) (map (fun v => snd sw *' v) (s_x (fst sw))).

  Definition weights_ok (w : option (list R)) (ss : list (scan D)) : bool :=
    match w with None => true | Some ws => Nat.eqb (length ws) (length ss) end.

  Lemma eff_weights_length w (ss : list (scan D)) :
    weights_ok w ss = true -> length (eff_weights NumR w (length ss)) = length ss.
  Proof.
    destruct w as [ws|]; cbn [weights_ok eff_weights]; intros H.
    - now apply Nat.eqb_eq.
    - apply repeat_length.
  Qed.

  Lemma map_wscan_ones (ss : list (scan D)) :
    map wscan (combine ss (repeat 1 (length ss))) = ss.
  Proof.
    induction ss as [|s ss IH]; cbn [length repeat combine map]; [reflexivity|].
    rewrite IH. f_equal. destruct s as [t r x]. unfold wscan. cbn [fst snd s_tx s_rx s_x]. f_equal.
    rewrite <- (map_id x) at 2. apply map_ext. intros v. apply (dl_scale_1 V L).
  Qed.

  Lemma weigh_timetraces_eff w ss :
    weigh_timetraces V w ss =
    if weights_ok w ss then Some (map wscan (combine ss (eff_weights NumR w (length ss)))) else None.
  Proof.
    destruct w as [ws|]; cbn [weigh_timetraces weights_ok eff_weights].
    - destruct (Nat.eqb (length ws) (length ss)); reflexivity.
    - cbn [NumR n1]. now rewrite map_wscan_ones.
  Qed.

  Lemma lookup_time_wscan r sw : lookup_time NumR r (wscan sw) = lookup_time NumR r (fst sw).
  Proof. reflexivity. Qed.
  Lemma amp_wscan r sw : amp V r (wscan sw) = amp V r (fst sw).
  Proof. reflexivity. Qed.

  (* ---- windows over the reals ------------------------------------------- *)
  Lemma linear_window ns l :
    ((Zfloor l <? 0)%Z || (Zfloor l + 1 >=? ns)%Z) = negb (Rle_bool 0 l && Rlt_bool l (IZR (ns - 1))).
  Proof.
    pose proof (Zfloor_lb l) as Hlb. pose proof (Zfloor_ub l) as Hub.
    destruct (Rle_bool_spec 0 l) as [H0|H0]; cbn [andb negb].
    - assert (Hf : (0 <= Zfloor l)%Z) by (apply Zfloor_lub; exact H0).
      destruct (Rlt_bool_spec l (IZR (ns - 1))) as [H1|H1]; cbn [negb].
      + assert (Hlt : (Zfloor l < ns - 1)%Z) by (apply lt_IZR; lra).
        destruct (Z.ltb_spec (Zfloor l) 0), (Z.geb_spec (Zfloor l + 1) ns); try reflexivity; lia.
      + assert (Hge : (ns - 1 <= Zfloor l)%Z) by (apply Zfloor_lub; exact H1).
        destruct (Z.ltb_spec (Zfloor l) 0), (Z.geb_spec (Zfloor l + 1) ns); try reflexivity; lia.
    - assert (Hf : (Zfloor l < 0)%Z) by (apply lt_IZR; lra).
      destruct (Z.ltb_spec (Zfloor l) 0); [reflexivity|lia].
  Qed.

  Lemma lanczos_out_window ns l :
    out_pos NumR ns l = negb (Rle_bool 0 l && Rlt_bool l (IZR ns)).
  Proof.
    unfold out_pos. numr. rewrite negb_andb, negb_Rlt_bool, negb_Rle_bool. reflexivity.
  Qed.

  Lemma times_invdt x dt : x * (1 / dt) = x / dt.
  Proof. unfold Rdiv. ring. Qed.

  (* ---- summand of each kernel on a weighted timetrace = summand of the spec *)
  Lemma term_noamp_nearest_spec ns dt t0 fill r sw :
    term_noamp_nearest NumR V ns (1 / dt) t0 fill r (wscan sw) = spec_term NumR V Nearest false ns dt t0 fill r sw.
  Proof.
    unfold term_noamp_nearest, spec_term, position. rewrite lookup_time_wscan. numr.
    rewrite times_invdt, out_idx_window. cbn [in_window NumR nround].
    destruct ((0 <=? _)%Z && (_ <? ns)%Z); cbn [negb]; [|reflexivity].
    cbn [interp wscan s_x NumR nround]. apply sample_scaled.
  Qed.

  Lemma term_amp_nearest_spec ns dt t0 fill r sw :
    term_amp_nearest NumR V ns dt t0 fill r (wscan sw) = spec_term NumR V Nearest true ns dt t0 fill r sw.
  Proof.
    unfold term_amp_nearest, spec_term, position. rewrite lookup_time_wscan, amp_wscan. numr.
    rewrite out_idx_window. cbn [in_window NumR nround].
    destruct ((0 <=? _)%Z && (_ <? ns)%Z); cbn [negb]; [|reflexivity].
    cbn [interp wscan s_x NumR nround]. rewrite sample_scaled. apply (dl_mul_scale V L).
  Qed.

  Lemma linear_weighted w f a b :
    (1 - f) *' (w *' a) +' f *' (w *' b) = w *' ((1 - f) *' a +' f *' b).
  Proof.
    rewrite (dl_scale_add V L), !(dl_scale_scale V L).
    now rewrite (Rmult_comm w (1 - f)), (Rmult_comm w f).
  Qed.

  Lemma term_noamp_linear_spec ns dt t0 fill r sw :
    term_noamp_linear NumR V ns (1 / dt) t0 fill r (wscan sw) = spec_term NumR V Linear false ns dt t0 fill r sw.
  Proof.
    unfold term_noamp_linear, spec_term, position. rewrite lookup_time_wscan. numr.
    rewrite times_invdt, linear_window. cbn [in_window NumR nleb nltb n0 nofZ].
    destruct (Rle_bool 0 _ && Rlt_bool _ _); cbn [negb]; [|reflexivity].
    cbn [interp wscan s_x]. numr. rewrite !sample_scaled. apply linear_weighted.
  Qed.

  Lemma term_amp_linear_spec ns dt t0 fill r sw :
    term_amp_linear NumR V ns dt t0 fill r (wscan sw) = spec_term NumR V Linear true ns dt t0 fill r sw.
  Proof.
    unfold term_amp_linear, spec_term, position. rewrite lookup_time_wscan, amp_wscan. numr.
    rewrite linear_window. cbn [in_window NumR nleb nltb n0 nofZ].
    destruct (Rle_bool 0 _ && Rlt_bool _ _); cbn [negb]; [|reflexivity].
    cbn [interp wscan s_x]. numr. rewrite linear_two_forms, !sample_scaled, linear_weighted.
    apply (dl_mul_scale V L).
  Qed.

  Lemma lanczos_interpolation_spec ns a t x :
    lanczos_interpolation NumR V ns t x a = interp NumR V (Lanczos a) ns x t.
  Proof.
    unfold lanczos_interpolation. cbn [interp]. numr.
    replace (Zfloor t + a + 1 - (Zfloor t - a + 1))%Z with (2 * a)%Z by lia.
    rewrite fold_add_dsum0. f_equal. apply map_ext. intros i.
    rewrite (dl_scale_scale V L). unfold lanczos_window. numr. now rewrite Rmult_comm.
  Qed.

  Lemma interp_lanczos_weighted ns a w x t :
    interp NumR V (Lanczos a) ns (map (fun v => w *' v) x) t = w *' interp NumR V (Lanczos a) ns x t.
  Proof.
    cbn [interp]. rewrite dsum_scale, map_map. f_equal. apply map_ext. intros i.
    rewrite sample_scaled, !(dl_scale_scale V L). now rewrite Rmult_comm.
  Qed.

  Lemma term_noamp_lanczos_spec a ns dt t0 fill r sw :
    term_noamp_lanczos NumR V a ns (1 / dt) t0 fill r (wscan sw) = spec_term NumR V (Lanczos a) false ns dt t0 fill r sw.
  Proof.
    unfold term_noamp_lanczos, spec_term, position. rewrite lookup_time_wscan. numr.
    rewrite times_invdt, lanczos_out_window. cbn [in_window NumR nleb nltb n0 nofZ].
    destruct (Rle_bool 0 _ && Rlt_bool _ _); cbn [negb]; [|reflexivity].
    rewrite lanczos_interpolation_spec. cbn [wscan s_x]. apply interp_lanczos_weighted.
  Qed.

  (* ---- one image point, then the image ----------------------------------- *)
  Lemma accumulate_spec (term : scan D -> D) (sterm : scan D * R -> D) w ss :
    weights_ok w ss = true ->
    (forall sw, term (wscan sw) = sterm sw) ->
    accumulate NumR V term (map wscan (combine ss (eff_weights NumR w (length ss))))
    = dscale V (1 / IZR (Z.of_nat (length ss))) (dsum V (map sterm (combine ss (eff_weights NumR w (length ss))))).
  Proof.
    intros Hw Ht. unfold accumulate. numr.
    rewrite map_length, combine_length, (eff_weights_length w ss Hw), Nat.min_id.
    rewrite fold_add_dsum0, map_map, (dl_div V L).
    replace (1 / IZR (Z.of_nat (length ss))) with (/ IZR (Z.of_nat (length ss))) by (unfold Rdiv; ring).
    f_equal. f_equal. apply map_ext. exact Ht.
  Qed.

  Lemma das_noamp_spec_gen sc ns dt t0 fill w rows ss :
    das_noamp NumR V sc ns dt t0 fill w rows ss =
    if weights_ok w ss then Some (das_spec NumR V sc false ns dt t0 fill w rows ss) else None.
  Proof.
    unfold das_noamp. rewrite weigh_timetraces_eff.
    destruct (weights_ok w ss) eqn:Hw; [|reflexivity].
    unfold das_spec, das_spec_point. numr.
    destruct sc as [| |a]; f_equal; apply map_ext; intros r.
    - apply (accumulate_spec _ (spec_term NumR V Nearest false ns dt t0 fill r) w ss Hw).
      intros sw. apply term_noamp_nearest_spec.
    - apply (accumulate_spec _ (spec_term NumR V Linear false ns dt t0 fill r) w ss Hw).
      intros sw. apply term_noamp_linear_spec.
    - apply (accumulate_spec _ (spec_term NumR V (Lanczos a) false ns dt t0 fill r) w ss Hw).
      intros sw. apply term_noamp_lanczos_spec.
  Qed.

  Lemma das_amp_spec_gen sc ns dt t0 fill w rows ss :
    das_amp NumR V sc ns dt t0 fill w rows ss =
    if weights_ok w ss then
      match sc with
      | Lanczos _ => None
      | _ => Some (das_spec NumR V sc true ns dt t0 fill w rows ss)
      end
    else None.
  Proof.
    unfold das_amp. rewrite weigh_timetraces_eff.
    destruct (weights_ok w ss) eqn:Hw; [|reflexivity].
    unfold das_spec, das_spec_point. numr.
    destruct sc as [| |a]; [| |reflexivity]; f_equal; apply map_ext; intros r.
    - apply (accumulate_spec _ (spec_term NumR V Nearest true ns dt t0 fill r) w ss Hw).
      intros sw. apply term_amp_nearest_spec.
    - apply (accumulate_spec _ (spec_term NumR V Linear true ns dt t0 fill r) w ss Hw).
      intros sw. apply term_amp_linear_spec.
  Qed.

  (* ---- unit amplitudes ---------------------------------------------------- *)
  Definition unit_amps (rows : list (prow R D)) (ss : list (scan D)) : Prop :=
    forall r s, In r rows -> In s ss ->
      getD V (r_a_tx r) (s_tx s) = done V /\ getD V (r_a_rx r) (s_rx s) = done V.

  Lemma das_spec_unit_amp sc ns dt t0 fill w rows ss :
    unit_amps rows ss ->
    das_spec NumR V sc true ns dt t0 fill w rows ss = das_spec NumR V sc false ns dt t0 fill w rows ss.
  Proof.
    intros HU. unfold das_spec. apply map_ext_in. intros r Hr. unfold das_spec_point.
    f_equal. f_equal. apply map_ext_in. intros [s wk] Hin.
    apply in_combine_l in Hin. destruct (HU r s Hr Hin) as [H1 H2].
    unfold spec_term. cbn [fst snd]. destruct (in_window _ _ _ _); [|reflexivity].
    f_equal. unfold amp. rewrite H1, H2, !(dl_mul_1 V L). reflexivity.
  Qed.

  Lemma das_unit_amp_gen sc ns dt t0 fill w rows ss :
    unit_amps rows ss -> (forall a, sc <> Lanczos a) ->
    das_amp NumR V sc ns dt t0 fill w rows ss = das_noamp NumR V sc ns dt t0 fill w rows ss.
  Proof.
    intros HU Hsc. rewrite das_amp_spec_gen, das_noamp_spec_gen.
    destruct (weights_ok w ss); [|reflexivity].
    destruct sc as [| |a]; [| |exfalso; now apply (Hsc a)]; f_equal; now apply das_spec_unit_amp.
  Qed.

  (* ---- permutation of the timetraces -------------------------------------- *)
  Lemma das_spec_perm sc b ns dt t0 fill w w' rows ss ss' :
    weights_ok w ss = true -> weights_ok w' ss' = true ->
    Permutation (combine ss (eff_weights NumR w (length ss))) (combine ss' (eff_weights NumR w' (length ss'))) ->
    das_spec NumR V sc b ns dt t0 fill w rows ss = das_spec NumR V sc b ns dt t0 fill w' rows ss'.
  Proof.
    intros Hw Hw' HP. unfold das_spec. apply map_ext. intros r. unfold das_spec_point.
    assert (Hlen : length ss = length ss').
    { apply Permutation_length in HP. rewrite !combine_length in HP.
      rewrite (eff_weights_length w ss Hw), (eff_weights_length w' ss' Hw'), !Nat.min_id in HP. exact HP. }
    rewrite Hlen. f_equal. apply dsum_perm. apply Permutation_map. rewrite <- Hlen at 1. exact HP.
  Qed.

  Lemma combine_repeat {A B} (l : list A) (b : B) :
    combine l (repeat b (length l)) = map (fun a => (a, b)) l.
  Proof. induction l as [|a l IH]; cbn [length repeat combine map]; [reflexivity|now rewrite IH]. Qed.

  Lemma das_noamp_perm sc ns dt t0 fill w w' rows ss ss' :
    weights_ok w ss = true -> weights_ok w' ss' = true ->
    Permutation (combine ss (eff_weights NumR w (length ss))) (combine ss' (eff_weights NumR w' (length ss'))) ->
    das_noamp NumR V sc ns dt t0 fill w rows ss = das_noamp NumR V sc ns dt t0 fill w' rows ss'.
  Proof.
    intros Hw Hw' HP. rewrite !das_noamp_spec_gen, Hw, Hw'. f_equal. now apply das_spec_perm.
  Qed.

  Lemma das_amp_perm sc ns dt t0 fill w w' rows ss ss' :
    weights_ok w ss = true -> weights_ok w' ss' = true ->
    Permutation (combine ss (eff_weights NumR w (length ss))) (combine ss' (eff_weights NumR w' (length ss'))) ->
    das_amp NumR V sc ns dt t0 fill w rows ss = das_amp NumR V sc ns dt t0 fill w' rows ss'.
  Proof.
    intros Hw Hw' HP. rewrite !das_amp_spec_gen, Hw, Hw'.
    destruct sc; [| |reflexivity]; f_equal; now apply das_spec_perm.
  Qed.

  Lemma perm_noweights (ss ss' : list (scan D)) :
    Permutation ss ss' ->
    Permutation (combine ss (eff_weights NumR None (length ss))) (combine ss' (eff_weights NumR None (length ss'))).
  Proof. intros HP. cbn [eff_weights]. rewrite !combine_repeat. now apply Permutation_map. Qed.

  (* ---- nodes of the linear interpolation ---------------------------------- *)
  Lemma interp_linear_node ns x i : interp NumR V Linear ns x (IZR i) = sample V x i.
  Proof.
    cbn [interp]. numr. rewrite Zfloor_IZR.
    replace (IZR i - IZR i) with 0 by ring. replace (1 - 0) with 1 by ring.
    rewrite (dl_scale_1 V L), (dl_scale_zero V L). apply dl_add_0_r.
  Qed.

  (* between two nodes: the chord *)
  Lemma interp_linear_between ns x i f : 0 <= f < 1 ->
    interp NumR V Linear ns x (IZR i + f) = (1 - f) *' sample V x i +' f *' sample V x (i + 1)%Z.
  Proof.
    intros Hf. cbn [interp]. numr.
    assert (E : Zfloor (IZR i + f) = i) by (apply Zfloor_imp; rewrite plus_IZR; lra).
    rewrite E. replace (IZR i + f - IZR i) with f by ring. reflexivity.
  Qed.

  (* ---- nodes of the Lanczos interpolation: at an integer position every
     other tap sits on a zero of sinc ----------------------------------------- *)
  Lemma zrange_cons lo n : zrange lo (S n) = lo :: zrange (lo + 1)%Z n.
  Proof.
    unfold zrange. cbn [seq map]. f_equal; [lia|].
    rewrite <- seq_shift, map_map. apply map_ext. intros j. lia.
  Qed.

  Lemma dsum_single (g : Z -> D) i : (forall j, j <> i -> g j = dzero V) ->
    forall n lo, dsum V (map g (zrange lo n))
                 = if ((lo <=? i)%Z && (i <? lo + Z.of_nat n)%Z)%bool then g i else dzero V.
  Proof.
    intros Hz. induction n as [|n IH]; intros lo.
    - cbn [zrange seq map dsum fold_right]. unfold zrange. cbn [seq map dsum fold_right].
      destruct (Z.leb_spec lo i), (Z.ltb_spec i (lo + Z.of_nat 0)); cbn [andb]; try reflexivity; lia.
    - rewrite zrange_cons. cbn [map dsum fold_right]. fold (dsum V (map g (zrange (lo + 1) n))). rewrite IH.
      destruct (Z.eq_dec lo i) as [E|E].
      + subst lo.
        destruct (Z.leb_spec i i), (Z.ltb_spec i (i + Z.of_nat (S n))), (Z.leb_spec (i + 1) i); cbn [andb]; try lia.
        apply dl_add_0_r.
      + rewrite (Hz lo E), (dl_add_0_l V L).
        destruct (Z.leb_spec lo i), (Z.ltb_spec i (lo + Z.of_nat (S n))), (Z.leb_spec (lo + 1) i),
                 (Z.ltb_spec i (lo + 1 + Z.of_nat n)); cbn [andb]; try reflexivity; lia.
  Qed.

  Lemma sinc_0 : sinc NumR 0 = 1.
  Proof. unfold sinc. numr. now rewrite Req_bool_true. Qed.

  Lemma sinc_int k : k <> 0%Z -> sinc NumR (IZR k) = 0.
  Proof.
    intros Hk. unfold sinc. numr. rewrite Req_bool_false by (intros E; apply Hk; now apply eq_IZR).
    rewrite (sin_eq_0_1 (PI * IZR k)) by (exists k; ring). unfold Rdiv. ring.
  Qed.

  Lemma interp_lanczos_node a ns x i : (1 <= a)%Z ->
    interp NumR V (Lanczos a) ns x (IZR i) = sample V x (i mod ns)%Z.
  Proof.
    intros Ha. cbn [interp]. numr. rewrite Zfloor_IZR.
    rewrite (dsum_single (fun j => lanczos_window NumR a (IZR i - IZR j) *' sample V x (j mod ns)%Z) i).
    - destruct (Z.leb_spec (i - a + 1) i), (Z.ltb_spec i (i - a + 1 + Z.of_nat (Z.to_nat (2 * a)))); cbn [andb]; try lia.
      unfold lanczos_window. numr. replace (IZR i - IZR i) with 0 by ring.
      replace (0 / IZR a) with 0 by (unfold Rdiv; ring). rewrite sinc_0. replace (1 * 1) with 1 by ring.
      apply (dl_scale_1 V L).
    - intros j Hj. unfold lanczos_window. numr. rewrite <- minus_IZR, sinc_int by lia.
      rewrite Rmult_0_l. apply (dl_scale_zero V L).
  Qed.

  (* ---- linearity in the data (fill = 0) ----------------------------------- *)
  Definition lincomb (c : R) (x y : list D) : list D := map (fun p => c *' fst p +' snd p) (combine x y).

  Lemma sample_lincomb c x y i : length x = length y ->
    sample V (lincomb c x y) i = c *' sample V x i +' sample V y i.
  Proof.
    intros Hlen. unfold sample, lincomb. set (n := Z.to_nat i). clearbody n.
    revert y n Hlen. induction x as [|a x IH]; intros [|b y] n Hlen; try discriminate.
    - destruct n; cbn [combine map nth]; now rewrite (dl_scale_0 V L), (dl_add_0_l V L).
    - destruct n as [|n]; cbn [combine map nth fst snd]; [reflexivity|].
      apply IH. now injection Hlen.
  Qed.

  Lemma interp_lincomb sc ns c x y l : length x = length y ->
    interp NumR V sc ns (lincomb c x y) l = c *' interp NumR V sc ns x l +' interp NumR V sc ns y l.
  Proof.
    intros Hlen. destruct sc as [| |a]; cbn [interp].
    - now apply sample_lincomb.
    - rewrite !sample_lincomb by exact Hlen. rewrite !(dl_scale_add V L), !(dl_scale_scale V L).
      rewrite (Rmult_comm c (nsub NumR (n1 NumR) _)), (Rmult_comm c (nsub NumR l _)).
      rewrite !(dl_add_assoc V L). f_equal. rewrite <- !(dl_add_assoc V L). f_equal. apply (dl_add_comm V L).
    - rewrite dsum_scale, map_map, <- dsum_add. f_equal. apply map_ext. intros i.
      rewrite sample_lincomb by exact Hlen. rewrite (dl_scale_add V L), !(dl_scale_scale V L).
      now rewrite (Rmult_comm c).
  Qed.

  (* ---- the image is linear in the data when fill = 0 ----------------------- *)
  Definition scan_lincomb (c : R) (sx sy : scan D) : scan D :=
    mkScan (s_tx sx) (s_rx sx) (lincomb c (s_x sx) (s_x sy)).
  Definition frame_lincomb (c : R) (ssx ssy : list (scan D)) : list (scan D) :=
    map (fun p => scan_lincomb c (fst p) (snd p)) (combine ssx ssy).
  (* same acquisition: same tx/rx and as many samples, timetrace by timetrace *)
  Definition same_shape (sx sy : scan D) : Prop :=
    s_tx sx = s_tx sy /\ s_rx sx = s_rx sy /\ length (s_x sx) = length (s_x sy).

  Lemma spec_term_lincomb sc b ns dt t0 r c sx sy w : same_shape sx sy ->
    spec_term NumR V sc b ns dt t0 (dzero V) r (scan_lincomb c sx sy, w)
    = c *' spec_term NumR V sc b ns dt t0 (dzero V) r (sx, w) +' spec_term NumR V sc b ns dt t0 (dzero V) r (sy, w).
  Proof.
    intros (Ht & Hr & Hl). unfold spec_term, position, lookup_time, amp.
    cbn [fst snd scan_lincomb s_tx s_rx s_x]. rewrite <- Ht, <- Hr.
    destruct (in_window _ _ _ _).
    - rewrite (interp_lincomb sc ns c _ _ _ Hl). destruct b.
      + rewrite (dl_mul_add V L), (dl_mul_scale V L), (dl_scale_add V L), !(dl_scale_scale V L).
        now rewrite (Rmult_comm w c).
      + rewrite (dl_scale_add V L), !(dl_scale_scale V L). now rewrite (Rmult_comm w c).
    - now rewrite (dl_scale_0 V L), (dl_add_0_l V L).
  Qed.

  Lemma dsum_frame_lincomb (T : scan D * R -> D) c ssx ssy :
    (forall sx sy w, same_shape sx sy -> T (scan_lincomb c sx sy, w) = c *' T (sx, w) +' T (sy, w)) ->
    Forall2 same_shape ssx ssy -> forall ws,
    dsum V (map T (combine (frame_lincomb c ssx ssy) ws))
    = c *' dsum V (map T (combine ssx ws)) +' dsum V (map T (combine ssy ws)).
  Proof.
    intros HT HF. induction HF as [|sx sy ssx ssy Hs _ IH]; intros ws.
    - cbn [frame_lincomb combine map dsum fold_right]. now rewrite (dl_scale_0 V L), (dl_add_0_l V L).
    - destruct ws as [|w ws].
      + cbn [frame_lincomb combine map dsum fold_right]. now rewrite (dl_scale_0 V L), (dl_add_0_l V L).
      + unfold frame_lincomb. cbn [combine map fst snd dsum fold_right].
        fold (frame_lincomb c ssx ssy).
        fold (dsum V (map T (combine (frame_lincomb c ssx ssy) ws))).
        fold (dsum V (map T (combine ssx ws))). fold (dsum V (map T (combine ssy ws))).
        rewrite IH, (HT _ _ _ Hs), (dl_scale_add V L).
        rewrite !(dl_add_assoc V L). f_equal. rewrite <- !(dl_add_assoc V L). f_equal. apply (dl_add_comm V L).
  Qed.

  Lemma das_spec_point_lincomb sc b ns dt t0 w c ssx ssy r :
    Forall2 same_shape ssx ssy ->
    das_spec_point NumR V sc b ns dt t0 (dzero V) w (frame_lincomb c ssx ssy) r
    = c *' das_spec_point NumR V sc b ns dt t0 (dzero V) w ssx r
      +' das_spec_point NumR V sc b ns dt t0 (dzero V) w ssy r.
  Proof.
    intros HF. unfold das_spec_point.
    assert (Hlen : length ssx = length ssy).
    { clear -HF. induction HF as [|? ? ? ? _ _ IH]; cbn [length]; [reflexivity|now rewrite IH]. }
    assert (Hl : length (frame_lincomb c ssx ssy) = length ssx).
    { unfold frame_lincomb. rewrite map_length, combine_length, <- Hlen. apply Nat.min_id. }
    rewrite Hl, <- Hlen.
    rewrite (dsum_frame_lincomb _ c ssx ssy (fun sx sy wk Hs => spec_term_lincomb sc b ns dt t0 r c sx sy wk Hs) HF).
    rewrite (dl_scale_add V L), !(dl_scale_scale V L). now rewrite (Rmult_comm _ c).
  Qed.

  Lemma das_spec_lincomb sc b ns dt t0 w c rows ssx ssy :
    Forall2 same_shape ssx ssy ->
    das_spec NumR V sc b ns dt t0 (dzero V) w rows (frame_lincomb c ssx ssy)
    = map (fun r => c *' das_spec_point NumR V sc b ns dt t0 (dzero V) w ssx r
                    +' das_spec_point NumR V sc b ns dt t0 (dzero V) w ssy r) rows.
  Proof. intros HF. unfold das_spec. apply map_ext. intros r. now apply das_spec_point_lincomb. Qed.
End Laws.

(* ---- dispatch ------------------------------------------------------------- *)
Definition all_requests : list (amp_kind * interp_arg * aggr_arg * dtype_class) :=
  list_prod (list_prod (list_prod all_amp all_interp) all_aggr) all_dtype.

(* a canonical request is served by exactly the kernel the documentation names,
   and rejected (with an error, never with another kernel) otherwise *)
Definition dispatch_ok (q : amp_kind * interp_arg * aggr_arg * dtype_class) : bool :=
  let '(am, i, a, d) := q in
  if canonical i a
  then okernel_eqb (outcome_is_call (dispatch am i a d)) (spec_kernel am (iname i) (aname a) d)
  else
    (* non-canonical spellings: whatever is called is still the kernel named by the request *)
    match outcome_is_call (dispatch am i a d) with
    | Some k => okernel_eqb (Some k) (spec_kernel am (iname i) (aname a) d)
    | None => true
    end.

Lemma dispatch_table_ok : forallb dispatch_ok all_requests = true.
Proof. vm_compute. reflexivity. Qed.

Lemma in_all_amp am : In am all_amp.
Proof. destruct am; cbn; tauto. Qed.
Lemma in_all_dtype d : In d all_dtype.
Proof. destruct d; cbn; tauto. Qed.

Definition interp_in_domain (i : interp_arg) : Prop := In i all_interp.
Definition aggr_in_domain (a : aggr_arg) : Prop := In a all_aggr.

Lemma dispatch_total_lemma am i a d : interp_in_domain i -> aggr_in_domain a ->
  dispatch_ok (am, i, a, d) = true.
Proof.
  intros Hi Ha. pose proof dispatch_table_ok as H. rewrite forallb_forall in H. apply H.
  unfold all_requests. repeat apply in_prod; auto using in_all_amp, in_all_dtype.
Qed.

(* number of accepted canonical requests: the ten lines of the documentation
   (2 amp + 3 noamp mean for each of the 3 dtype classes counted once, 3 robust) *)
Definition accepted_canonical : list (amp_kind * interp_arg * aggr_arg * dtype_class) :=
  filter (fun q => let '(am, i, a, d) := q in
                   canonical i a && match dispatch am i a d with Call _ => true | Raise _ => false end)
         all_requests.
Lemma accepted_count : length accepted_canonical = 18%nat.
Proof. vm_compute. reflexivity. Qed.
