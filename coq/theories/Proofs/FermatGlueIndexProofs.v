(* Proofs/FermatGlueIndexProofs.v — lemmas about Model/FermatGlue.v, parts D (Rays.make_indices
   with its dtype and memory order, Rays.__init__, reverse, to_fortran_order, get_coordinates)
   and E (the solver in the index dtype).  Axiom-free. *)
From Coq Require Import Arith List Bool ZArith Lia.
From Arim Require Import Base.ListX Model.MinPlus Model.Fermat Model.FermatGlue
                         Proofs.MinPlusProofs Proofs.FermatProofs Proofs.FermatGlueProofs.
Import ListNotations.

(* ---------- the cast to a signed dtype of b bits ---------- *)
Lemma pow2_split b : (1 <= b)%Z -> (0 < 2 ^ (b - 1) /\ 2 ^ b = 2 * 2 ^ (b - 1))%Z.
Proof.
  intros Hb. split; [apply Z.pow_pos_nonneg; lia|].
  replace b with (Z.succ (b - 1)) at 1 by lia. rewrite Z.pow_succ_r by lia. reflexivity.
Qed.

Lemma wrap_exact_iff b z : (1 <= b)%Z -> (wrap b z = z <-> (- 2 ^ (b - 1) <= z < 2 ^ (b - 1))%Z).
Proof.
  intros Hb. destruct (pow2_split b Hb) as [Hh H2]. unfold wrap. rewrite H2. split.
  - intros H. pose proof (Z.mod_pos_bound (z + 2 ^ (b - 1)) (2 * 2 ^ (b - 1))%Z ltac:(lia)). lia.
  - intros H. rewrite Z.mod_small by lia. lia.
Qed.

Lemma store_exact_iff b k : (1 <= b)%Z -> (store b k = Z.of_nat k <-> (Z.of_nat k < 2 ^ (b - 1))%Z).
Proof.
  intros Hb. unfold store. rewrite (wrap_exact_iff b _ Hb).
  destruct (pow2_split b Hb) as [Hh _]. lia.
Qed.

Lemma store_exact b k : (1 <= b)%Z -> (Z.of_nat k < 2 ^ (b - 1))%Z -> store b k = Z.of_nat k.
Proof. intros Hb H. now apply store_exact_iff. Qed.

(* an index in the upper half of the unsigned range is stored as a NEGATIVE number *)
Lemma store_wraps b k : (1 <= b)%Z -> (2 ^ (b - 1) <= Z.of_nat k < 2 ^ b)%Z ->
  (store b k = Z.of_nat k - 2 ^ b /\ store b k < 0)%Z.
Proof.
  intros Hb H. destruct (pow2_split b Hb) as [Hh H2]. unfold store, wrap.
  assert (E : ((Z.of_nat k + 2 ^ (b - 1)) mod 2 ^ b = Z.of_nat k + 2 ^ (b - 1) - 2 ^ b)%Z).
  { symmetry. apply (Z.mod_unique _ _ 1); lia. }
  rewrite E. lia.
Qed.

(* ---------- make_indices: values ---------- *)
Lemma make_indices_length b n m X : length (make_indices_z b n m X) = length X + 2.
Proof. unfold make_indices_z. rewrite !app_length. simpl. lia. Qed.

Lemma nth_tab_d {A} n m (f : nat -> nat -> A) i j d :
  i < n -> j < m -> nth j (nth i (tab n m f) []) d = f i j.
Proof. apply nth_tab. Qed.

(* indices[:, i, j] = (i, interior[:, i, j], j) in the dtype *)
Theorem zray_of_make_indices b n m X i j : i < n -> j < m ->
  zray_of (make_indices_z b n m X) i j
  = store b i :: map (fun lay => nth j (nth i lay []) (-1)%Z) X ++ [store b j].
Proof.
  intros Hi Hj. unfold zray_of, make_indices_z. rewrite !map_app. cbn [map app].
  rewrite !nth_tab_d by assumption. reflexivity.
Qed.

(* layer 0 is i, the last layer is j, layers 1..d are the interior layers *)
Theorem make_indices_layout b n m X :
  nth 0 (make_indices_z b n m X) [] = tab n m (fun i _ => store b i)
  /\ last (make_indices_z b n m X) [] = tab n m (fun _ j => store b j)
  /\ (forall k, k < length X -> nth (S k) (make_indices_z b n m X) [] = nth k X [])
  /\ length (make_indices_z b n m X) = length X + 2.
Proof.
  unfold make_indices_z. repeat split.
  - exact (last_last (tab n m (fun i _ => store b i) :: X) (tab n m (fun _ j => store b j)) []).
  - intros k Hk. cbn [app nth]. now rewrite app_nth1.
  - rewrite !app_length. simpl. lia.
Qed.

(* the first and last rows are the identity EXACTLY when the two end sets fit the dtype *)
Theorem make_indices_exact_iff b n m X : (1 <= b)%Z ->
  ((forall i j, i < n -> j < m ->
      hd 0%Z (zray_of (make_indices_z b n m X) i j) = Z.of_nat i
      /\ last (zray_of (make_indices_z b n m X) i j) 0%Z = Z.of_nat j)
   <-> ((m = 0 \/ (Z.of_nat n <= 2 ^ (b - 1))%Z) /\ (n = 0 \/ (Z.of_nat m <= 2 ^ (b - 1))%Z))).
Proof.
  intros Hb. split.
  - intros H. split.
    + destruct m as [|m']; [now left|]. right. destruct n as [|n']; [destruct (pow2_split b Hb); lia|].
      destruct (H n' 0) as [H1 _]; try lia. rewrite zray_of_make_indices in H1 by lia. cbn [hd] in H1.
      apply store_exact_iff in H1; lia.
    + destruct n as [|n']; [now left|]. right. destruct m as [|m']; [destruct (pow2_split b Hb); lia|].
      destruct (H 0 m') as [_ H2]; try lia. rewrite zray_of_make_indices in H2 by lia.
      rewrite app_comm_cons, last_last in H2. apply store_exact_iff in H2; lia.
  - intros [[Hm|Hn] [Hn'|Hm']] i j Hi Hj; try lia.
    rewrite zray_of_make_indices by assumption. cbn [hd]. rewrite app_comm_cons, last_last.
    split; apply store_exact; lia.
Qed.

(* the property interior_indices gives back what __init__ was given *)
Theorem interior_of_make_indices b n m X : interior_of (make_indices_z b n m X) = X.
Proof. unfold interior_of, make_indices_z. cbn [app tl]. apply removelast_last. Qed.

(* Rays.reverse on the WHOLE index table: y[d+1-k, j, i] = x[k, i, j] for every layer,
   the first and last included *)
Theorem make_indices_reverse b n m X :
  make_indices_z b m n (rev (map (transpose m) X))
  = rev (map (transpose m) (make_indices_z b n m X)).
Proof.
  unfold make_indices_z. rewrite !map_app, !rev_app_distr. cbn [map rev app].
  rewrite !transpose_tab. reflexivity.
Qed.

(* ---------- make_indices: memory order ---------- *)
Theorem make_indices_order_explicit o lay sh : make_indices_order (Some o) lay sh = o.
Proof. reflexivity. Qed.

Theorem make_indices_order_default lay sh :
  make_indices_order None lay sh = if order_eqb lay OC || degenerate sh then OC else OF.
Proof.
  unfold make_indices_order, c_contiguous, f_contiguous.
  destruct lay; cbn [order_eqb orb]; [reflexivity|]. destruct (degenerate sh); reflexivity.
Qed.

(* an array without interior layers (two interfaces) is always degenerate *)
Lemma degenerate_no_layers n m : degenerate [0; n; m] = true.
Proof. reflexivity. Qed.

(* ---------- the Rays object ---------- *)
Section ObjectProofs.
  Variables T V PS : Type.
  Variable v_finite : V -> bool.
  Variable size : PS -> nat.
  Notation fpath := (fpath V PS).
  Notation rays_obj := (rays_obj T V PS).

  Lemma ends_len_unparse (p : fpath) : ends_len size (unparse p) = Some (size (startp p), size (endp p)).
  Proof.
    unfold ends_len. rewrite fp_points_unparse, <- map_rev.
    assert (H1 : hd_error (map (@IP V PS) (path_points p)) = Some (IP (startp p))).
    { rewrite legs_points. reflexivity. }
    assert (H2 : hd_error (map (@IP V PS) (rev (path_points p))) = Some (IP (endp p))).
    { destruct p as [P|h v P]; [reflexivity|]. cbn [path_points endp]. now rewrite rev_app_distr. }
    rewrite H1, H2. reflexivity.
  Qed.

  Lemma nat2_eqb_refl a : nat2_eqb a a = true.
  Proof. unfold nat2_eqb. now rewrite !Nat.eqb_refl. Qed.

  (* what Rays.__init__ builds when its assertions hold *)
  Definition wf_obj (r : rays_obj) : Prop :=
    exists X, ro_indices r = make_indices_z (ro_bits r) (fst (ro_shape r)) (snd (ro_shape r)) X
              /\ ends_len size (ro_path r) = Some (ro_shape r)
              /\ fp_num_points_sets (ro_path r) = length X + 2.

  Lemma rays_init_wf tshape times tlay n m X ilay b fp oarg r :
    rays_init size tshape times tlay (length X, (n, m)) X ilay b fp oarg = inr r ->
    wf_obj r /\ ro_shape r = (n, m) /\ ro_times r = times /\ ro_tlay r = tlay /\ ro_bits r = b /\ ro_path r = fp
    /\ ro_order r = make_indices_order oarg ilay [length X; n; m].
  Proof.
    unfold rays_init. cbn [fst snd].
    destruct (nat2_eqb tshape (n, m)) eqn:Ea; cbn [negb]; [|discriminate].
    destruct (ends_len size fp) as [e|] eqn:Ee; [|discriminate].
    destruct (nat2_eqb (n, m) e) eqn:Eb; cbn [negb]; [|discriminate].
    destruct (fp_num_points_sets fp =? length X + 2) eqn:E2; cbn [negb]; [|discriminate].
    intros [= <-].
    unfold nat2_eqb in Ea, Eb. cbn [fst snd] in Ea, Eb.
    apply andb_prop in Ea as [Ea1 Ea2]. apply andb_prop in Eb as [Eb1 Eb2].
    apply Nat.eqb_eq in Ea1, Ea2, Eb1, Eb2, E2.
    assert (tshape = (n, m)) by (destruct tshape; cbn in *; congruence). subst tshape.
    assert (e = (n, m)) by (destruct e; cbn in *; congruence). subst e.
    cbn. repeat split; auto. exists X. cbn. auto.
  Qed.

  (* to_fortran_order: same values, both arrays in Fortran order — whatever the shape *)
  Theorem rays_obj_to_fortran_spec (r : rays_obj) : wf_obj r ->
    rays_obj_to_fortran size r
    = inr (mkRaysObj (ro_shape r) (ro_times r) OF (ro_indices r) OF (ro_bits r) (ro_path r)).
  Proof.
    intros (X & HX & He & Hn). unfold rays_obj_to_fortran, rays_init, ro_d, ro_interior.
    rewrite HX, interior_of_make_indices, make_indices_length. cbn [fst snd].
    destruct (ro_shape r) as [n m] eqn:Es. cbn [fst snd].
    rewrite nat2_eqb_refl. cbn [negb]. rewrite He, nat2_eqb_refl. cbn [negb].
    replace (length X + 2 - 2) with (length X) by lia.
    rewrite Hn, Nat.eqb_refl. reflexivity.
  Qed.

  (* Rays.reverse(order): transposed times in the requested order, the WHOLE index table
     flipped and transposed, the reversed path; the order of the new index table is the
     requested one only if the interior block is not degenerate *)
  Theorem rays_obj_reverse_spec (ord : order) (r : rays_obj) (p : fpath) :
    wf_obj r -> ro_path r = unparse p -> 1 <= nlegs p -> vel_finite v_finite p = true ->
    let n := size (startp p) in let m := size (endp p) in
    rays_obj_reverse v_finite size ord r
    = inr (mkRaysObj (m, n) (transpose m (ro_times r)) ord
                     (rev (map (transpose m) (ro_indices r)))
                     (if order_eqb ord OC || degenerate [ro_d r; m; n] then OC else OF)
                     (ro_bits r) (unparse (path_reverse p))).
  Proof.
    intros (X & HX & He & Hn) Hp Hlegs Hf n m.
    rewrite Hp, ends_len_unparse in He. injection He as He. fold n m in He.
    unfold rays_obj_reverse. rewrite Hp, (fp_reverse_unparse V PS v_finite p Hlegs Hf).
    unfold rays_init, ro_d, ro_interior. rewrite HX, interior_of_make_indices, make_indices_length.
    rewrite <- He. cbn [fst snd].
    rewrite nat2_eqb_refl. cbn [negb].
    rewrite ends_len_unparse, startp_reverse, endp_reverse. fold n m.
    rewrite nat2_eqb_refl. cbn [negb].
    replace (length X + 2 - 2) with (length X) by lia.
    rewrite fp_num_points_sets_unparse, nlegs_reverse.
    rewrite Hp, fp_num_points_sets_unparse in Hn. rewrite Hn, Nat.eqb_refl. cbn [negb].
    rewrite make_indices_reverse, make_indices_order_default. reflexivity.
  Qed.

  (* two interfaces: Rays.reverse() (default order 'f') returns Fortran-ordered times but a
     C-ordered index table *)
  Corollary rays_obj_reverse_two_interfaces (r : rays_obj) P0 v P :
    wf_obj r -> ro_path r = unparse (Leg (Start P0) v P : fpath) -> v_finite v = true ->
    exists r', rays_obj_reverse v_finite size OF r = inr r' /\ ro_tlay r' = OF /\ ro_order r' = OC.
  Proof.
    intros Hwf Hp Hv.
    assert (Hf : vel_finite v_finite (Leg (Start P0) v P : fpath) = true) by (cbn; now rewrite Hv).
    pose proof (rays_obj_reverse_spec OF r (Leg (Start P0) v P) Hwf Hp ltac:(cbn; lia) Hf) as H.
    cbn zeta in H. eexists. split; [exact H|]. cbn [ro_tlay ro_order]. split; [reflexivity|].
    destruct Hwf as (X & HX & _ & Hn). rewrite Hp, fp_num_points_sets_unparse in Hn. cbn in Hn.
    assert (Hd : ro_d r = 0). { unfold ro_d. rewrite HX, make_indices_length. lia. }
    rewrite Hd. reflexivity.
  Qed.
End ObjectProofs.

(* ---------- get_coordinates ---------- *)
Lemma py_index_nat {A} (l : list A) k : py_index l (Z.of_nat k) = nth_error l k.
Proof.
  unfold py_index. destruct (Z.of_nat k <? 0)%Z eqn:E; [apply Z.ltb_lt in E; lia|].
  now rewrite Nat2Z.id.
Qed.

(* fancy indexing with in-range non-negative indices is a table of nth *)
Theorem get_coordinates_tab {A} (coords : list A) (d : A) n m (f : nat -> nat -> nat) :
  (forall i j, i < n -> j < m -> f i j < length coords) ->
  get_coordinates coords (tab n m (fun i j => Z.of_nat (f i j)))
  = Some (tab n m (fun i j => nth (f i j) coords d)).
Proof.
  intros H. unfold get_coordinates. rewrite tab_map.
  rewrite (tab_ext _ _ _ (fun i j => Some (nth (f i j) coords d))).
  - apply all_some2_tab.
  - intros i j Hi Hj. rewrite py_index_nat. apply nth_error_nth'. now apply H.
Qed.

(* a negative stored index silently selects a point counted from the END of the set *)
Lemma py_index_negative {A} (l : list A) z : (- Z.of_nat (length l) <= z < 0)%Z ->
  py_index l z = nth_error l (Z.to_nat (z + Z.of_nat (length l))).
Proof.
  intros H. unfold py_index. destruct (z <? 0)%Z eqn:E; [|apply Z.ltb_ge in E; lia].
  destruct (z + Z.of_nat (length l) <? 0)%Z eqn:E2; [apply Z.ltb_lt in E2; lia|reflexivity].
Qed.

Lemma Forall2_map_l {A B C} (R : A -> C -> Prop) (R' : B -> C -> Prop) (f : A -> B) l l' :
  (forall x y, R x y -> R' (f x) y) -> Forall2 R l l' -> Forall2 R' (map f l) l'.
Proof. intros H HF. induction HF; cbn [map]; constructor; auto. Qed.

(* ---------- solver answers: shapes, ranges, the index table ---------- *)
Section SolverIndexProofs.
  Variables T D V PS : Type.
  Variable leb ltb : T -> T -> bool.
  Variable add : T -> T -> T.
  Variable size : PS -> nat.
  Variable dtab : PS -> PS -> list (list D).
  Variable divv : D -> V -> T.
  Variable wf : PS -> V -> PS -> nat -> nat -> T.
  Hypothesis Hord : total_preorder leb ltb.
  Hypothesis Hleg : leg_model size dtab divv wf.

  Notation fpath := (fpath V PS).
  Notation solve_pure := (solve_pure ltb add size dtab divv).
  Notation solve_dt := (solve_dt ltb add size dtab divv).
  Notation optT := (optT T V PS add size wf (cell1 T ltb)).
  Notation optI := (optI T V PS add size wf (cell1 T ltb)).
  Notation kidx := (kidx T V PS add size wf (cell1 T ltb)).

  Lemma kidx_bound h' v' Pm v P i j : 1 <= size Pm -> kidx (Leg h' v' Pm) v P i j < size Pm.
  Proof.
    destruct Hord as (H1 & H2 & H3 & H4). apply (kidx_lt_m T V PS leb ltb add size wf H1 H2 H3 H4).
  Qed.

  (* the interior point sets of (Leg h v P), in path order *)
  Definition interior_sets (h : fpath) : list PS := tl (path_points h).

  (* every reported interior index is in the range of ITS point set, for all (i, j) *)
  Lemma optI_range (h : fpath) : forall v P, interior_ok size (Leg h v P) ->
    Forall2 (fun (fl : nat -> nat -> nat) Pk => forall i j, fl i j < size Pk) (optI h v P) (interior_sets h).
  Proof.
    induction h as [P0|h' IH v' Pm]; intros v P Hok; [constructor|].
    destruct Hok as [Hm Hok]. rewrite (optI_Leg T V PS add size wf (cell1 T ltb)).
    assert (E : interior_sets (Leg h' v' Pm) = interior_sets h' ++ [Pm]).
    { unfold interior_sets. cbn [path_points]. rewrite (legs_points V PS h'). reflexivity. }
    rewrite E.
    apply Forall2_app.
    - apply (Forall2_map_l (fun (fl : nat -> nat -> nat) Pk => forall i j, fl i j < size Pk)); [|exact (IH v' Pm Hok)].
      intros fl Pk H i j. apply H.
    - constructor; [|constructor]. intros i j. now apply kidx_bound.
  Qed.

  Theorem solve_int_shapes (p : fpath) r : interior_ok size p -> solve_pure p = Some r ->
    forall lay, In lay (r_int r) ->
      length lay = size (startp p) /\ (forall row, In row lay -> length row = size (endp p)).
  Proof.
    destruct p as [P0|h v P]; [discriminate|]. intros Hok E.
    rewrite (solve_pure_tab_b T D V PS leb ltb add size dtab divv wf Hord Hleg h v P Hok) in E.
    injection E as <-. cbn [r_int startp endp]. intros lay Hin. apply in_map_iff in Hin as (fl & <- & _).
    split; [apply tab_length | intros row; apply tab_row_length].
  Qed.

  (* index range of the answer: layer k of interior_indices only holds valid indices of the
     (k+1)-th point set of the path *)
  Theorem solve_indices_in_range (p : fpath) r : interior_ok size p -> solve_pure p = Some r ->
    Forall2 (fun lay Pk => forall i j, i < size (startp p) -> j < size (endp p) ->
                                       nth j (nth i lay []) 0 < size Pk)
            (r_int r) (removelast (tl (path_points p))).
  Proof.
    destruct p as [P0|h v P]; [discriminate|]. intros Hok E.
    rewrite (solve_pure_tab_b T D V PS leb ltb add size dtab divv wf Hord Hleg h v P Hok) in E.
    injection E as <-. cbn [r_int startp endp path_points].
    assert (Ei : removelast (tl (path_points h ++ [P])) = interior_sets h).
    { unfold interior_sets. rewrite legs_points. cbn [app tl]. apply removelast_last. }
    rewrite Ei.
    apply (Forall2_map_l (fun (fl : nat -> nat -> nat) Pk => forall i j, fl i j < size Pk)); [|exact (optI_range h v P Hok)].
    intros fl Pk H i j Hi Hj. rewrite nth_tab by assumption. apply H.
  Qed.

  (* indices[:, i, j] of the object built from a solver answer is the ray of Model/Fermat in the dtype *)
  Theorem zray_of_solve b (p : fpath) r i j : interior_ok size p -> solve_pure p = Some r ->
    i < size (startp p) -> j < size (endp p) ->
    zray_of (make_indices_z b (size (startp p)) (size (endp p)) (interior_z b r)) i j
    = map (store b) (ray_of r i j).
  Proof.
    intros Hok E Hi Hj. rewrite zray_of_make_indices by assumption. unfold ray_of, interior_z.
    cbn [map]. rewrite map_app, !map_map. cbn [map]. f_equal. f_equal.
    apply map_ext_in. intros lay Hin.
    destruct (solve_int_shapes p r Hok E lay Hin) as [HL HR].
    assert (Hrow : length (nth i lay []) = size (endp p)) by (apply HR, nth_In; lia).
    rewrite (nth_indep _ [] (map (store b) [])) by (rewrite map_length; lia).
    rewrite map_nth.
    rewrite (nth_indep _ (-1)%Z (store b 0)) by (rewrite map_length; lia).
    apply map_nth.
  Qed.

  (* ---------- Part E: the solver in a dtype of b bits ---------- *)
  Lemma expand_layer_z_tab b n m p (fl kx : nat -> nat -> nat) : (1 <= b)%Z ->
    (forall i j, i < n -> j < p -> kx i j < m /\ (Z.of_nat (kx i j) < 2 ^ (b - 1))%Z) ->
    expand_layer_z (tab n m (fun i k => Z.of_nat (fl i k))) (tab n p (fun i j => store b (kx i j)))
    = tab n p (fun i j => Z.of_nat (fl i (kx i j))).
  Proof.
    intros Hb H. unfold expand_layer_z, tab. rewrite combine_map_same, map_map.
    apply map_ext_in. intros i Hi. apply in_seq in Hi. cbn [fst snd].
    rewrite map_map. apply map_ext_in. intros j Hj. apply in_seq in Hj.
    destruct (H i j) as [Hk Hs]; try lia. rewrite (store_exact b _ Hb Hs).
    unfold nb_index. destruct (Z.of_nat (kx i j) <? 0)%Z eqn:E; [apply Z.ltb_lt in E; lia|].
    rewrite Nat2Z.id. exact (nth_map_seq (fun k => Z.of_nat (fl i k)) m (kx i j) 0%Z Hk).
  Qed.

  Notation bound b := (Z.to_nat (2 ^ (b - 1))).

  Theorem solve_dt_tab b (h : fpath) : (1 <= b)%Z -> forall v P,
    interior_ok size (Leg h v P) -> interior_le size (bound b) (Leg h v P) ->
    solve_dt b (Leg h v P)
    = Some (tab (size (startp h)) (size P) (optT h v P),
            map (tab (size (startp h)) (size P)) (map (fun fl i j => Z.of_nat (fl i j)) (optI h v P))).
  Proof.
    intros Hb. induction h as [P0|h' IH v' Pm]; intros v P Hok Hle.
    - cbn. now rewrite Hleg.
    - change (solve_dt b (Leg (Leg h' v' Pm) v P)) with
        (match solve_dt b (Leg h' v' Pm) with
         | None => None
         | Some rh =>
             match find_minimum_times ltb add (size Pm) (fst rh)
                     (transpose (size P) (leg_times divv (dtab Pm P) v)) with
             | None => None
             | Some ti => Some (fst ti, expand_rays_z (snd rh) (map (map (store b)) (snd ti)))
             end
         end).
      destruct Hok as [Hm Hok]. destruct Hle as [HB Hle]. rewrite (IH v' Pm Hok Hle). cbn [fst snd].
      rewrite Hleg, transpose_tab. unfold find_minimum_times.
      destruct (size Pm =? 0) eqn:E; [apply Nat.eqb_eq in E; lia|].
      rewrite minplus_tab.
      rewrite (tab_ext _ _ _ (fun i j => Some (cell1 T ltb (size Pm)
                 (fun k => add (optT h' v' Pm i k) (wf Pm v P k j))))).
      2:{ intros i j _ _. now apply cellf_cell1. }
      rewrite all_some2_tab. cbn [fst snd]. rewrite !tab_map. f_equal. f_equal.
      unfold expand_rays_z. cbn [startp]. rewrite (optI_Leg T V PS add size wf (cell1 T ltb)).
      rewrite !map_app, !map_map. cbn [map]. f_equal.
      + apply map_ext. intros fl. apply (expand_layer_z_tab b _ (size Pm)); [exact Hb|].
        intros i j _ _. pose proof (kidx_bound h' v' Pm v P i j Hm) as Hk. split; [exact Hk|].
        destruct (pow2_split b Hb) as [Hh _].
        apply Z.lt_le_trans with (Z.of_nat (size Pm)); [apply Nat2Z.inj_lt; exact Hk | lia].
      + f_equal. apply tab_ext. intros i j _ _. apply store_exact; [exact Hb|].
        pose proof (kidx_bound h' v' Pm v P i j Hm) as Hk. destruct (pow2_split b Hb) as [Hh _].
        apply Z.lt_le_trans with (Z.of_nat (size Pm)); [apply Nat2Z.inj_lt; exact Hk | lia].
  Qed.

  (* no interior set larger than 2^(b-1): the solver run with indices of b bits returns exactly
     the times and (as integers) the indices of the unbounded model *)
  Theorem solve_dt_exact b (p : fpath) : (1 <= b)%Z ->
    interior_ok size p -> interior_le size (bound b) p ->
    solve_dt b p = option_map (fun r => (r_times r, map (map (map Z.of_nat)) (r_int r))) (solve_pure p).
  Proof.
    intros Hb. destruct p as [P0|h v P]; [reflexivity|]. intros Hok Hle.
    rewrite (solve_dt_tab b h Hb v P Hok Hle).
    rewrite (solve_pure_tab_b T D V PS leb ltb add size dtab divv wf Hord Hleg h v P Hok).
    cbn [option_map r_times r_int]. f_equal. f_equal. rewrite !map_map. apply map_ext.
    intros fl. now rewrite tab_map.
  Qed.
End SolverIndexProofs.

(* the bound of solve_dt_exact is sharp: one interior set of 2^(b-1) + 1 points whose last point
   is the optimum already gives a wrong (negative) stored index.  Instance: b = 8, T = Z,
   point sets are their sizes, the leg into the big set costs |k - 128|. *)
Definition ovf_dtab (P Q : nat) : list (list Z) :=
  tab P Q (fun _ k => if Q =? 129 then Z.abs (Z.of_nat k - 128) else 0%Z).
Definition ovf_path : fpath unit nat := Leg (Leg (Start 1) tt 129) tt 1.

Lemma solve_dt_overflow_example :
  interior_le (fun n : nat => n) 129 ovf_path
  /\ option_map (fun r => r_int r) (solve_pure Z.ltb Z.add (fun n => n) ovf_dtab (fun d _ => d) ovf_path)
     = Some [[[128]]]
  /\ option_map snd (solve_dt Z.ltb Z.add (fun n => n) ovf_dtab (fun d _ => d) 8 ovf_path)
     = Some [[[(-128)%Z]]].
Proof. split; [cbn; lia|]. split; vm_compute; reflexivity. Qed.

(* ---------- gone_through_extreme_points ---------- *)
Lemma or_tab_tab n m (f g : nat -> nat -> bool) :
  or_tab (tab n m f) (tab n m g) = tab n m (fun i j => f i j || g i j).
Proof.
  unfold or_tab, tab. rewrite combine_map_same, map_map. apply map_ext. intros i. cbn [fst snd].
  rewrite combine_map_same, map_map. reflexivity.
Qed.

Lemma extreme_layer_tab sz n m (f : nat -> nat -> Z) :
  extreme_layer sz (tab n m f) = tab n m (fun i j => Z.eqb (f i j) 0 || Z.eqb (f i j) (Z.of_nat sz - 1)).
Proof. unfold extreme_layer. apply tab_map. Qed.

Lemma combine_map_r {A B C} (f : B -> C) (l : list A) (l' : list B) :
  combine l (map f l') = map (fun ab => (fst ab, f (snd ab))) (combine l l').
Proof.
  revert l'; induction l as [|a l IH]; intros [|b l']; simpl; auto. now rewrite IH.
Qed.

(* the ray (i, j) is flagged iff at some interior interface it goes through the first or the
   last point (in index order) of that interface; sizes = len of the middle point sets *)
Theorem gone_through_extreme_points_tab n m (sizes : list nat) (fs : list (nat -> nat -> Z)) :
  gone_through_extreme_points n m sizes (map (tab n m) fs)
  = tab n m (fun i j => existsb (fun sf => Z.eqb (snd sf i j) 0 || Z.eqb (snd sf i j) (Z.of_nat (fst sf) - 1))
                                (combine sizes fs)).
Proof.
  unfold gone_through_extreme_points. rewrite combine_map_r.
  assert (H : forall (l : list (nat * (nat -> nat -> Z))) (acc : nat -> nat -> bool),
             fold_left (fun out sl => or_tab out (extreme_layer (fst sl) (snd sl)))
                       (map (fun ab => (fst ab, tab n m (snd ab))) l) (tab n m acc)
             = tab n m (fun i j => acc i j
                 || existsb (fun sf => Z.eqb (snd sf i j) 0 || Z.eqb (snd sf i j) (Z.of_nat (fst sf) - 1)) l)).
  { induction l as [|[sz f] l IH]; intros acc; cbn [map fold_left fst snd existsb].
    - apply tab_ext. intros i j _ _. now rewrite orb_false_r.
    - rewrite extreme_layer_tab, or_tab_tab, IH. apply tab_ext. intros i j _ _. destruct (acc i j); reflexivity. }
  apply H.
Qed.

(* ---------- len_largest_interface decides the hypothesis of solve_dt_exact ---------- *)
Section Largest.
  Variables V PS : Type.
  Variable size : PS -> nat.
  Notation fpath := (fpath V PS).

  Lemma tl_points_leg (h : fpath) Pm : tl (path_points h ++ [Pm]) = tl (path_points h) ++ [Pm].
  Proof. rewrite (legs_points V PS h). reflexivity. Qed.

  Lemma interior_le_forall bound (h : fpath) : forall v P,
    interior_le size bound (Leg h v P) <-> Forall (fun Q => size Q <= bound) (tl (path_points h)).
  Proof.
    induction h as [P0|h' IH v' Pm]; intros v P.
    - cbn. split; auto.
    - change (interior_le size bound (Leg (Leg h' v' Pm) v P))
        with (size Pm <= bound /\ interior_le size bound (Leg h' v' Pm)).
      rewrite (IH v' Pm). cbn [path_points]. rewrite tl_points_leg, Forall_app. split.
      + intros [H1 H2]. split; [exact H2|]. constructor; [exact H1|constructor].
      + intros [H1 H2]. inversion H2; subst. auto.
  Qed.

  Lemma max_le_forall bound (l : list PS) :
    fold_right Nat.max 0 (map size l) <= bound <-> Forall (fun Q => size Q <= bound) l.
  Proof.
    induction l as [|Q l IH]; cbn [map fold_right].
    - split; [constructor | lia].
    - split.
      + intros H. constructor; [lia|]. apply IH. lia.
      + intros H. inversion H; subst. apply IH in H3. lia.
  Qed.

  Theorem interior_le_largest bound (p : fpath) : 1 <= nlegs p ->
    (interior_le size bound p
     <-> exists L, fp_len_largest_interface size (unparse p) = Some L /\ L <= bound).
  Proof.
    destruct p as [P0|h v P]; [cbn; lia|]. intros _.
    rewrite (fp_len_largest_unparse V PS size), interior_le_forall.
    assert (E : removelast (tl (path_points (Leg h v P))) = tl (path_points h)).
    { cbn [path_points]. rewrite tl_points_leg. apply removelast_last. }
    rewrite E, <- max_le_forall. split.
    - intros H. eauto.
    - intros (L & [= <-] & H). exact H.
  Qed.
End Largest.
