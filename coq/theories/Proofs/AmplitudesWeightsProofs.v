(* Proofs/AmplitudesWeightsProofs.v — lemmas for C08, part 2: the ray weights (factorisation,
   switches) and the laws of the factors (sinc directivity, exponential attenuation,
   attenuation factories). *)
From Coq Require Import List ZArith Bool Arith Lia Reals Lra.
From Flocq Require Import Core.Raux.
From Arim Require Import Base.Num Base.NumR Model.Interface Model.Weights Model.Beamspread
                         Model.Amplitudes Proofs.BeamspreadProofs.
Import ListNotations.

(* ---------- structure of tx_ray_weights / rx_ray_weights (any numeric instance) ---------- *)
Section Structure.
  Context {T : Type} (N : Num T).
  Local Notation K := (T * T)%type.

  (* what each returned factor is, switch by switch *)
  Definition dir_factor (ud : bool) (width : option T) (f : T) (couplant : material K) (r : ray (T := T)) (d : T) : Prop :=
    if ud then exists wd, width = Some wd /\
                 directivity_checked N (r_theta_out0 r) wd (wavelength_in_couplant N couplant f) = Some d
    else d = n1 N.
  Definition att_factor (ua : bool) (f : T) (r : ray (T := T)) (a : T) : Prop :=
    if ua then exists al, att_coeffs N f (r_atts r) = Some al /\ a = attenuation N al (r_legs r)
    else a = n1 N.
  Definition tr_factor (ut : bool) (tr : option (option K)) (t : K) : Prop :=
    if ut then tr = Some (Some t) else t = cre N (n1 N).
  Definition bs_factor (ub : bool) (bs : T) (b : T) : Prop := if ub then b = bs else b = n1 N.

  Lemma flatten_some {A} (x : option (option A)) t : flatten x = Some t -> x = Some (Some t).
  Proof. destruct x as [[y|]|]; cbn; intros H; inversion H; reflexivity. Qed.

  Lemma common_factors_inv ud ua width f couplant r d a :
    negb (ud && match width with None => true | Some _ => false end) = true ->
    fst (common_factors N ud ua width f couplant r) = Some d ->
    snd (common_factors N ud ua width f couplant r) = Some a ->
    dir_factor ud width f couplant r d /\ att_factor ua f r a.
  Proof.
    unfold common_factors, dir_factor, att_factor, factor. cbn [fst snd]. intros _ Hd Ha. split.
    - destruct ud; [|inversion Hd; reflexivity].
      destruct width as [wd|]; cbn in Hd; [|discriminate]. exists wd. split; [reflexivity | exact Hd].
    - destruct ua; [|inversion Ha; reflexivity].
      destruct (att_coeffs N f (r_atts r)) as [al|]; cbn in Ha; [|discriminate].
      exists al. split; [reflexivity|]. inversion Ha. reflexivity.
  Qed.

  Lemma tx_ray_weights_inv ud ut ub ua width f couplant r w d t b a :
    tx_ray_weights N ud ut ub ua width f couplant r = Some (w, (d, t, b, a)) ->
    w = tx_weight N ud ut ub ua d t b a /\
    dir_factor ud width f couplant r d /\
    tr_factor ut (transrefl_for_path (NumC N) Displacement (r_ifaces r)) t /\
    bs_factor ub (beamspread N (r_vels r) (r_legs r) (r_thetas r)) b /\
    att_factor ua f r a.
  Proof.
    unfold tx_ray_weights. intros H.
    destruct (ud && match width with None => true | Some _ => false end) eqn:Ew; [discriminate|].
    destruct (common_factors N ud ua width f couplant r) as [od oa] eqn:Ec.
    unfold assemble in H.
    destruct od as [d0|]; [|discriminate].
    destruct (factor ut (flatten (transrefl_for_path (NumC N) Displacement (r_ifaces r))) (cre N (n1 N))) as [t0|] eqn:Et; [|discriminate].
    destruct (factor ub (Some (beamspread N (r_vels r) (r_legs r) (r_thetas r))) (n1 N)) as [b0|] eqn:Eb; [|discriminate].
    destruct oa as [a0|]; [|discriminate].
    inversion H; subst w d0 t0 b0 a0. split; [reflexivity|].
    destruct (common_factors_inv ud ua width f couplant r d a) as [Hd Ha].
    { rewrite Ew. reflexivity. } { rewrite Ec. reflexivity. } { rewrite Ec. reflexivity. }
    split; [exact Hd|]. split; [|split; [|exact Ha]].
    - unfold tr_factor, factor in *. destruct ut; [apply flatten_some; exact Et | inversion Et; reflexivity].
    - unfold bs_factor, factor in *. destruct ub; inversion Eb; reflexivity.
  Qed.

  Lemma rx_ray_weights_inv ud ut ub ua width f couplant block r w d t b a :
    rx_ray_weights N ud ut ub ua width f couplant block r = Some (w, (d, t, b, a)) ->
    w = rx_weight N ud ut ub ua d t b a (wavelength_in_block N block (r_lastmode r) f) /\
    dir_factor ud width f couplant r d /\
    tr_factor ut (reverse_transrefl_for_path (NumC N) Displacement (r_ifaces r)) t /\
    bs_factor ub (reverse_beamspread N (r_vels r) (r_legs r) (r_thetas r)) b /\
    att_factor ua f r a.
  Proof.
    unfold rx_ray_weights. intros H.
    destruct (ud && match width with None => true | Some _ => false end) eqn:Ew; [discriminate|].
    destruct (common_factors N ud ua width f couplant r) as [od oa] eqn:Ec.
    unfold assemble in H.
    destruct od as [d0|]; [|discriminate].
    destruct (factor ut (flatten (reverse_transrefl_for_path (NumC N) Displacement (r_ifaces r))) (cre N (n1 N))) as [t0|] eqn:Et; [|discriminate].
    destruct (factor ub (Some (reverse_beamspread N (r_vels r) (r_legs r) (r_thetas r))) (n1 N)) as [b0|] eqn:Eb; [|discriminate].
    destruct oa as [a0|]; [|discriminate].
    inversion H; subst w d0 t0 b0 a0. split; [reflexivity|].
    destruct (common_factors_inv ud ua width f couplant r d a) as [Hd Ha].
    { rewrite Ew. reflexivity. } { rewrite Ec. reflexivity. } { rewrite Ec. reflexivity. }
    split; [exact Hd|]. split; [|split; [|exact Ha]].
    - unfold tr_factor, factor in *. destruct ut; [apply flatten_some; exact Et | inversion Et; reflexivity].
    - unfold bs_factor, factor in *. destruct ub; inversion Eb; reflexivity.
  Qed.

  (* the product as the code writes it: directivity * transrefl * beamspread * attenuation *)
  Definition product4 (d : T) (t : K) (b a : T) : K :=
    nmul (NumC N) (nmul (NumC N) (nmul (NumC N) (cre N d) t) (cre N b)) (cre N a).

  Lemma tx_weight_switched ud ut ub ua d t b a :
    tx_weight N ud ut ub ua d t b a
    = product4 (switch ud d (n1 N)) (switch ut t (cre N (n1 N))) (switch ub b (n1 N)) (switch ua a (n1 N)).
  Proof. unfold tx_weight, product4. destruct ud, ut, ub, ua; reflexivity. Qed.

  Lemma weights_factorise_tx_gen ud ut ub ua width f couplant r w d t b a :
    tx_ray_weights N ud ut ub ua width f couplant r = Some (w, (d, t, b, a)) -> w = product4 d t b a.
  Proof.
    intros H. destruct (tx_ray_weights_inv _ _ _ _ _ _ _ _ _ _ _ _ _ H) as (Ew & Hd & Ht & Hb & Ha).
    rewrite Ew, tx_weight_switched.
    unfold dir_factor in Hd. unfold tr_factor in Ht. unfold bs_factor in Hb. unfold att_factor in Ha.
    destruct ud, ut, ub, ua; cbn [switch]; subst; reflexivity.
  Qed.

  Lemma weights_factorise_rx_gen ud ut ub ua width f couplant block r w d t b a :
    rx_ray_weights N ud ut ub ua width f couplant block r = Some (w, (d, t, b, a)) ->
    w = nmul (NumC N) (product4 d t b a) (cre N (nsqrt N (wavelength_in_block N block (r_lastmode r) f))).
  Proof.
    intros H. destruct (rx_ray_weights_inv _ _ _ _ _ _ _ _ _ _ _ _ _ _ H) as (Ew & Hd & Ht & Hb & Ha).
    rewrite Ew. unfold rx_weight. rewrite tx_weight_switched.
    unfold dir_factor in Hd. unfold tr_factor in Ht. unfold bs_factor in Hb. unfold att_factor in Ha.
    destruct ud, ut, ub, ua; cbn [switch]; subst; reflexivity.
  Qed.

  (* a disabled factor is exactly one in the returned dictionary *)
  Lemma off_is_one_tx ud ut ub ua width f couplant r w d t b a :
    tx_ray_weights N ud ut ub ua width f couplant r = Some (w, (d, t, b, a)) ->
    (ud = false -> d = n1 N) /\ (ut = false -> t = cre N (n1 N)) /\ (ub = false -> b = n1 N) /\ (ua = false -> a = n1 N).
  Proof.
    intros H. destruct (tx_ray_weights_inv _ _ _ _ _ _ _ _ _ _ _ _ _ H) as (_ & Hd & Ht & Hb & Ha).
    repeat split; intros E; subst; assumption.
  Qed.

  Lemma off_is_one_rx ud ut ub ua width f couplant block r w d t b a :
    rx_ray_weights N ud ut ub ua width f couplant block r = Some (w, (d, t, b, a)) ->
    (ud = false -> d = n1 N) /\ (ut = false -> t = cre N (n1 N)) /\ (ub = false -> b = n1 N) /\ (ua = false -> a = n1 N).
  Proof.
    intros H. destruct (rx_ray_weights_inv _ _ _ _ _ _ _ _ _ _ _ _ _ _ H) as (_ & Hd & Ht & Hb & Ha).
    repeat split; intros E; subst; assumption.
  Qed.

  (* switching factors off: from the all-enabled result (w1, (d, t, b, a)) every one of the 16
     switch sets returns the same enabled factors, ones for the disabled factors, and their product *)
  Lemma switch_sets_tx width f couplant r w1 d t b a :
    tx_ray_weights N true true true true width f couplant r = Some (w1, (d, t, b, a)) ->
    forall ud ut ub ua,
    tx_ray_weights N ud ut ub ua width f couplant r
    = Some (product4 (switch ud d (n1 N)) (switch ut t (cre N (n1 N))) (switch ub b (n1 N)) (switch ua a (n1 N)),
            (switch ud d (n1 N), switch ut t (cre N (n1 N)), switch ub b (n1 N), switch ua a (n1 N))).
  Proof.
    intros H ud ut ub ua.
    destruct (tx_ray_weights_inv _ _ _ _ _ _ _ _ _ _ _ _ _ H) as (_ & (wd & Ewd & Hd) & Ht & Hb & (al & Eal & Ha)).
    cbn in Ht, Hb. subst width.
    unfold tx_ray_weights, common_factors, factor. rewrite andb_false_r. cbn [bind].
    rewrite Hd, Ht, Eal, <- Hb. cbn [omap flatten]. rewrite <- Ha.
    destruct ud, ut, ub, ua; cbn [assemble switch]; rewrite tx_weight_switched; reflexivity.
  Qed.

  Lemma switch_sets_rx width f couplant block r w1 d t b a :
    rx_ray_weights N true true true true width f couplant block r = Some (w1, (d, t, b, a)) ->
    forall ud ut ub ua,
    rx_ray_weights N ud ut ub ua width f couplant block r
    = Some (nmul (NumC N)
              (product4 (switch ud d (n1 N)) (switch ut t (cre N (n1 N))) (switch ub b (n1 N)) (switch ua a (n1 N)))
              (cre N (nsqrt N (wavelength_in_block N block (r_lastmode r) f))),
            (switch ud d (n1 N), switch ut t (cre N (n1 N)), switch ub b (n1 N), switch ua a (n1 N))).
  Proof.
    intros H ud ut ub ua.
    destruct (rx_ray_weights_inv _ _ _ _ _ _ _ _ _ _ _ _ _ _ H) as (_ & (wd & Ewd & Hd) & Ht & Hb & (al & Eal & Ha)).
    cbn in Ht, Hb. subst width.
    unfold rx_ray_weights, common_factors, factor. rewrite andb_false_r. cbn [bind].
    rewrite Hd, Ht, Eal, <- Hb. cbn [omap flatten]. rewrite <- Ha.
    destruct ud, ut, ub, ua; cbn [assemble switch]; unfold rx_weight; rewrite tx_weight_switched; reflexivity.
  Qed.
End Structure.

(* ---------- over the reals ------------------------------------------------------------- *)
Local Open Scope R_scope.

(* the complex product of the four factors is the transmission-reflection coefficient scaled by
   the three real factors *)
Lemma product4_R d (t : R * R) b a :
  product4 NumR d t b a = ((d * b * a) * fst t, (d * b * a) * snd t).
Proof.
  destruct t as [tr ti]. unfold product4, NumC, cmul, cre. cbn [nmul NumR fst snd nsub nadd n0]. f_equal; ring.
Qed.

Lemma product4_sqrt_R d (t : R * R) b a lam :
  nmul (NumC NumR) (product4 NumR d t b a) (cre NumR (nsqrt NumR lam))
  = ((d * b * a * sqrt lam) * fst t, (d * b * a * sqrt lam) * snd t).
Proof.
  rewrite product4_R. destruct t as [tr ti]. unfold NumC, cmul, cre. cbn [nmul NumR fst snd nsub nadd n0 nsqrt].
  f_equal; ring.
Qed.

(* ---- directivity ---- *)
Definition sinc_pi (x : R) : R := if Req_EM_T x 0 then 1 else sin (PI * x) / (PI * x).

Lemma np_sinc_R x : np_sinc NumR x = sinc_pi x.
Proof.
  unfold np_sinc, sinc_pi. cbn [NumR neqb n0 n1 nsin npi nmul ndiv].
  destruct (Req_bool_spec x 0) as [E|E]; destruct (Req_EM_T x 0) as [E'|E']; try reflexivity; contradiction.
Qed.

Lemma directivity_R theta width lam :
  directivity NumR theta width lam = sinc_pi (width / lam * sin theta).
Proof. unfold directivity. rewrite np_sinc_R. reflexivity. Qed.

Lemma directivity_zero_angle width lam : directivity NumR 0 width lam = 1.
Proof.
  rewrite directivity_R, sin_0, Rmult_0_r. unfold sinc_pi. destruct (Req_EM_T 0 0) as [_|E]; [reflexivity | contradiction E; reflexivity].
Qed.

Lemma sinc_pi_even x : sinc_pi (- x) = sinc_pi x.
Proof.
  unfold sinc_pi. destruct (Req_EM_T (- x) 0) as [E|E]; destruct (Req_EM_T x 0) as [E'|E']; try reflexivity; try lra.
  replace (PI * - x) with (- (PI * x)) by ring. rewrite sin_neg.
  field. split; [exact E' | apply PI_neq0].
Qed.

Lemma directivity_even theta width lam : directivity NumR (- theta) width lam = directivity NumR theta width lam.
Proof.
  rewrite !directivity_R, sin_neg. replace (width / lam * - sin theta) with (- (width / lam * sin theta)) by ring.
  apply sinc_pi_even.
Qed.

(* first null of the beam pattern: width sin(theta) = lambda *)
Lemma directivity_first_null theta width lam : lam <> 0 -> width * sin theta = lam ->
  directivity NumR theta width lam = 0.
Proof.
  intros Hl H. rewrite directivity_R. replace (width / lam * sin theta) with ((width * sin theta) / lam) by (field; exact Hl).
  rewrite H. replace (lam / lam) with 1 by (field; exact Hl).
  unfold sinc_pi. destruct (Req_EM_T 1 0) as [E|_]; [lra|]. rewrite Rmult_1_r, sin_PI. unfold Rdiv. ring.
Qed.

Lemma sin_abs_le x : Rabs (sin x) <= Rabs x.
Proof.
  destruct (Rle_dec 0 x) as [Hx|Hx].
  - rewrite (Rabs_right x) by lra.
    destruct (Rle_dec x 1) as [H1|H1].
    + destruct (Req_dec x 0) as [E|E]; [subst; rewrite sin_0, Rabs_R0; lra|].
      assert (0 < x) by lra. pose proof (sin_lt_x x H). assert (0 < sin x).
      { apply sin_gt_0; [lra|]. pose proof PI_RGT_0. pose proof (PI2_3_2). unfold Rdiv in *. lra. }
      rewrite Rabs_right; lra.
    + pose proof (SIN_bound x). apply Rle_trans with 1; [apply Rabs_le; lra | lra].
  - rewrite (Rabs_left x) by lra.
    destruct (Rle_dec (- x) 1) as [H1|H1].
    + assert (0 < - x) by lra. pose proof (sin_lt_x (- x) H). rewrite sin_neg in H0.
      assert (0 < sin (- x)).
      { apply sin_gt_0; [lra|]. pose proof PI_RGT_0. pose proof (PI2_3_2). unfold Rdiv in *. lra. }
      rewrite sin_neg in H2. rewrite Rabs_left; lra.
    + pose proof (SIN_bound x). apply Rle_trans with 1; [apply Rabs_le; lra | lra].
Qed.

Lemma sinc_pi_bound x : Rabs (sinc_pi x) <= 1.
Proof.
  unfold sinc_pi. destruct (Req_EM_T x 0) as [E|E]; [rewrite Rabs_R1; lra|].
  assert (Hp : PI * x <> 0) by (pose proof PI_RGT_0; apply Rmult_integral_contrapositive; split; lra).
  unfold Rdiv. rewrite Rabs_mult, Rabs_inv.
  pose proof (sin_abs_le (PI * x)). pose proof (Rabs_pos_lt _ Hp).
  apply Rmult_le_reg_r with (Rabs (PI * x)); [assumption|].
  rewrite Rmult_assoc, Rinv_l by lra. lra.
Qed.

Lemma directivity_bound theta width lam : Rabs (directivity NumR theta width lam) <= 1.
Proof. rewrite directivity_R. apply sinc_pi_bound. Qed.

(* ---- attenuation ---- *)
Definition att_sum (atts : list (option R)) (legs : list R) : R :=
  fold_right (fun ar s => att_term ar + s) 0 (combine atts legs).

Lemma attenuation_R atts legs : attenuation NumR atts legs = exp (- att_sum atts legs).
Proof.
  unfold attenuation, att_sum. cbn [NumR nexp nsub nmul n0]. rewrite att_fold, Rminus_0_l. reflexivity.
Qed.

Lemma att_sum_none atts d legs : att_sum (None :: atts) (d :: legs) = att_sum atts legs.
Proof. unfold att_sum. cbn [combine fold_right]. unfold att_term at 1. cbn [fst snd]. ring. Qed.

Lemma att_sum_some al atts d legs : att_sum (Some al :: atts) (d :: legs) = al * d + att_sum atts legs.
Proof. unfold att_sum. cbn [combine fold_right]. unfold att_term at 1. cbn [fst snd]. ring. Qed.

Lemma attenuation_no_law legs : attenuation NumR (map (fun _ => None) legs) legs = 1.
Proof.
  rewrite attenuation_R. replace (att_sum (map (fun _ => None) legs) legs) with 0; [rewrite Ropp_0; apply exp_0|].
  induction legs as [|d legs IH]; [reflexivity|]. cbn [map]. rewrite att_sum_none. exact IH.
Qed.

Lemma att_sum_nonneg atts legs :
  Forall (fun a => match a with None => True | Some al => 0 <= al end) atts -> Forall (fun d => 0 <= d) legs ->
  0 <= att_sum atts legs.
Proof.
  intros Ha. revert legs. induction Ha as [|a atts Ha0 Ha IH]; intros legs Hl.
  - unfold att_sum. cbn. lra.
  - destruct legs as [|d legs]; [unfold att_sum; cbn; lra|].
    inversion Hl as [|? ? Hd Hl']; subst. specialize (IH legs Hl').
    destruct a as [al|]; [rewrite att_sum_some | rewrite att_sum_none]; [|exact IH].
    pose proof (Rmult_le_pos al d Ha0 Hd). lra.
Qed.

Lemma attenuation_range atts legs :
  Forall (fun a => match a with None => True | Some al => 0 <= al end) atts -> Forall (fun d => 0 <= d) legs ->
  0 < attenuation NumR atts legs <= 1.
Proof.
  intros Ha Hl. rewrite attenuation_R. split; [apply exp_pos|].
  pose proof (att_sum_nonneg atts legs Ha Hl).
  destruct (Req_dec (att_sum atts legs) 0) as [E|E]; [rewrite E, Ropp_0, exp_0; lra|].
  left. rewrite <- exp_0. apply exp_increasing. lra.
Qed.

(* ---- the laws of material_attenuation_factory ---- *)
Fixpoint power_sum (cs : list R) (x : R) (k : nat) : R :=
  match cs with [] => 0 | c :: cs' => c * x ^ k + power_sum cs' x (S k) end.

Definition horner (cs : list R) (x : R) : R := fold_right (fun c acc => c + acc * x) 0 cs.

Lemma power_sum_horner cs x k : power_sum cs x k = x ^ k * horner cs x.
Proof.
  revert k. induction cs as [|c cs IH]; intros k; cbn [power_sum horner fold_right]; [ring|].
  rewrite IH. fold (horner cs x). cbn [pow]. ring.
Qed.

Lemma polyval_R cs x : cs <> [] -> polyval NumR cs x = Some (power_sum cs x 0).
Proof.
  intros Hne. unfold polyval. rewrite power_sum_horner. cbn [pow]. rewrite Rmult_1_l.
  destruct (rev cs) as [|cn rest] eqn:E.
  - apply (f_equal (@rev R)) in E. rewrite rev_involutive in E. cbn in E. contradiction.
  - f_equal. assert (Ecs : cs = rev rest ++ [cn]).
    { apply (f_equal (@rev R)) in E. rewrite rev_involutive in E. cbn in E. exact E. }
    rewrite Ecs. unfold horner. rewrite fold_right_app. cbn [fold_right].
    rewrite fold_left_rev_right. cbn [NumR nadd nmul]. f_equal. ring.
Qed.

Lemma att_eval_constant v f : att_eval NumR (AttConstant v) f = Some v.
Proof. reflexivity. Qed.

Lemma att_eval_polynomial cs f : cs <> [] ->
  att_eval NumR (AttPolynomial cs) f = Some (power_sum cs (f / 1000000) 0).
Proof. intros H. unfold att_eval. cbn [NumR ndiv nofZ]. rewrite (polyval_R cs _ H). reflexivity. Qed.

Lemma att_eval_polynomial_empty f : att_eval NumR (AttPolynomial []) f = None.
Proof. reflexivity. Qed.

(* ---- the two statements of Props/C08.v on the ray weights over the reals ---- *)
Lemma weights_factorise_tx_R ud ut ub ua width f couplant r w d t b a :
  tx_ray_weights NumR ud ut ub ua width f couplant r = Some (w, (d, t, b, a)) ->
  w = product4 NumR d t b a /\ w = ((d * b * a) * fst t, (d * b * a) * snd t).
Proof.
  intros H. pose proof (weights_factorise_tx_gen NumR ud ut ub ua width f couplant r w d t b a H) as E.
  split; [exact E | rewrite E; apply product4_R].
Qed.

Lemma weights_factorise_rx_R ud ut ub ua width f couplant block r w d t b a :
  rx_ray_weights NumR ud ut ub ua width f couplant block r = Some (w, (d, t, b, a)) ->
  let lam := fst (velocity block (r_lastmode r)) / f in
  w = nmul (NumC NumR) (product4 NumR d t b a) (cre NumR (sqrt lam)) /\
  w = ((d * b * a * sqrt lam) * fst t, (d * b * a * sqrt lam) * snd t).
Proof.
  intros H lam. pose proof (weights_factorise_rx_gen NumR ud ut ub ua width f couplant block r w d t b a H) as E.
  split; [exact E | rewrite E; apply product4_sqrt_R].
Qed.
