(* Proofs/DasGlueProofs.v — lemmas about Model/DasGlue.v (C02) that hold for EVERY numeric
   instance (no algebraic law is used: they are also true of floats); axiom-free.
   The statements over the reals are in Proofs/DasGlueRealProofs.v. *)
From Coq Require Import Ascii String.
From Coq Require Import List ZArith Bool Lia Permutation.
From Arim Require Import Base.Num Model.Das Model.Robust Model.DasGlue.
Import ListNotations.

(* ==========================================================================
   1. dtypes *)
Lemma mk_dtype_eta d : mk_dtype (is_cplx d) (is_dbl d) = d.
Proof. destruct d; reflexivity. Qed.
Lemma is_cplx_mk c b : is_cplx (mk_dtype c b) = c.
Proof. destruct c, b; reflexivity. Qed.
Lemma is_dbl_mk c b : is_dbl (mk_dtype c b) = b.
Proof. destruct c, b; reflexivity. Qed.

Lemma promote_comm a b : promote a b = promote b a.
Proof. destruct a, b; reflexivity. Qed.
Lemma promote_assoc a b c : promote (promote a b) c = promote a (promote b c).
Proof. destruct a, b, c; reflexivity. Qed.
Lemma promote_idem a : promote a a = a.
Proof. destruct a; reflexivity. Qed.
Lemma is_cplx_promote a b : is_cplx (promote a b) = is_cplx a || is_cplx b.
Proof. apply is_cplx_mk. Qed.
Lemma is_dbl_promote a b : is_dbl (promote a b) = is_dbl a || is_dbl b.
Proof. apply is_dbl_mk. Qed.

Lemma dtype_eqb_eq a b : dtype_eqb a b = true <-> a = b.
Proof. destruct a, b; cbn; split; intros H; try reflexivity; discriminate. Qed.

Lemma fold_promote l : forall d,
  fold_left promote l d = mk_dtype (is_cplx d || existsb is_cplx l) (is_dbl d || existsb is_dbl l).
Proof.
  induction l as [|x l IH]; intros d; cbn [fold_left existsb].
  - now rewrite !orb_false_r, mk_dtype_eta.
  - rewrite IH, is_cplx_promote, is_dbl_promote, !orb_assoc. reflexivity.
Qed.

(* np.result_type of a non-empty list: complex as soon as one argument is, double as soon as one is *)
Lemma result_type_spec l : l <> [] ->
  result_type l = Some (mk_dtype (existsb is_cplx l) (existsb is_dbl l)).
Proof. destruct l as [|d r]; [congruence|]. intros _. cbn [result_type existsb]. now rewrite fold_promote. Qed.

Lemma existsb_perm {A} (f : A -> bool) l l' : Permutation l l' -> existsb f l = existsb f l'.
Proof.
  induction 1 as [|x l l' _ IH|x y l|l1 l2 l3 _ IH1 _ IH2]; cbn [existsb].
  - reflexivity.
  - now rewrite IH.
  - destruct (f x), (f y); reflexivity.
  - now rewrite IH1.
Qed.

(* the order of the arguments of np.result_type is irrelevant *)
Lemma result_type_perm l l' : Permutation l l' -> result_type l = result_type l'.
Proof.
  intros HP. destruct l as [|d r].
  - apply Permutation_nil in HP. now subst.
  - assert (Hn : l' <> []) by (intros E; subst; symmetry in HP; apply Permutation_nil in HP; discriminate).
    rewrite !result_type_spec by (assumption || discriminate).
    now rewrite (existsb_perm is_cplx _ _ HP), (existsb_perm is_dbl _ _ HP).
Qed.

Definition odt (f : dtype -> bool) (o : option dtype) : bool := match o with Some d => f d | None => false end.

(* _infer_datatypes in closed form: dtype_data does not look at the lookup times *)
Lemma infer_datatypes_spec wt ltx lrx amp res :
  infer_datatypes wt ltx lrx amp res =
  Some (promote ltx lrx, amp,
        mk_dtype (is_cplx wt || odt is_cplx amp || odt is_cplx res) (is_dbl wt || odt is_dbl amp || odt is_dbl res)).
Proof.
  unfold infer_datatypes. destruct amp as [a|], res as [r|]; cbn [result_type app fold_left odt];
    rewrite ?is_cplx_promote, ?is_dbl_promote, ?orb_false_r;
    repeat f_equal; destruct wt; try destruct a; try destruct r; reflexivity.
Qed.

(* ==========================================================================
   2. spelling of the options *)
Definition upper_ascii (c : ascii) : ascii :=
  let n := nat_of_ascii c in
  if (97 <=? n)%nat && (n <=? 122)%nat then ascii_of_nat (n - 32) else c.
Fixpoint upper (s : string) : string :=
  match s with EmptyString => EmptyString | String c r => String (upper_ascii c) (upper r) end.

Lemma lower_ascii_idem c : lower_ascii (lower_ascii c) = lower_ascii c.
Proof. destruct c as [[] [] [] [] [] [] [] []]; reflexivity. Qed.
Lemma lower_upper_ascii c : lower_ascii (upper_ascii c) = lower_ascii c.
Proof. destruct c as [[] [] [] [] [] [] [] []]; reflexivity. Qed.

Lemma lower_idem s : lower (lower s) = lower s.
Proof. induction s as [|c s IH]; cbn [lower]; [reflexivity|]. now rewrite lower_ascii_idem, IH. Qed.
Lemma lower_upper s : lower (upper s) = lower s.
Proof. induction s as [|c s IH]; cbn [lower upper]; [reflexivity|]. now rewrite lower_upper_ascii, IH. Qed.

(* only the lowered name is looked at *)
Lemma to_interp_arg_map_name {X} (f : string -> string) (o : pyopt X) :
  (forall s, lower (f s) = lower s) -> to_interp_arg (map_name f o) = to_interp_arg o.
Proof. intros Hf. destruct o; cbn [map_name to_interp_arg]; now rewrite ?Hf. Qed.
Lemma to_aggr_arg_map_name {X} (f : string -> string) (o : pyopt X) :
  (forall s, lower (f s) = lower s) -> to_aggr_arg (map_name f o) = to_aggr_arg o.
Proof. intros Hf. destruct o; cbn [map_name to_aggr_arg]; now rewrite ?Hf. Qed.
Lemma first_arg_map_name {X} (f : string -> string) (d : X) (o : pyopt X) :
  first_arg d (map_name f o) = first_arg d o.
Proof. destruct o; reflexivity. Qed.

Lemma interp_code_range s : (0 <= interp_code s <= 3)%Z.
Proof. unfold interp_code. repeat destruct (_ =? _)%string; lia. Qed.
Lemma interp_code_0 s : interp_code s = 0%Z <-> s = "nearest"%string.
Proof.
  unfold interp_code. destruct (String.eqb_spec s "nearest"); [tauto|].
  repeat destruct (_ =? _)%string; split; intros H; try discriminate; contradiction.
Qed.
Lemma interp_code_1 s : interp_code s = 1%Z <-> s = "linear"%string.
Proof.
  unfold interp_code. destruct (String.eqb_spec s "nearest") as [E|_]; [subst; split; discriminate|].
  destruct (String.eqb_spec s "linear"); [tauto|].
  repeat destruct (_ =? _)%string; split; intros H; try discriminate; contradiction.
Qed.
Lemma interp_code_2 s : interp_code s = 2%Z <-> s = "lanczos"%string.
Proof.
  unfold interp_code. destruct (String.eqb_spec s "nearest") as [E|_]; [subst; split; discriminate|].
  destruct (String.eqb_spec s "linear") as [E|_]; [subst; split; discriminate|].
  destruct (String.eqb_spec s "lanczos"); [tauto|]. split; intros H; try discriminate; contradiction.
Qed.
Lemma aggr_code_0 s : aggr_code s = 0%Z <-> s = "mean"%string.
Proof.
  unfold aggr_code. destruct (String.eqb_spec s "mean"); [tauto|].
  repeat destruct (_ =? _)%string; split; intros H; try discriminate; contradiction.
Qed.
Lemma aggr_code_1 s : aggr_code s = 1%Z <-> s = "median"%string.
Proof.
  unfold aggr_code. destruct (String.eqb_spec s "mean") as [E|_]; [subst; split; discriminate|].
  destruct (String.eqb_spec s "median"); [tauto|].
  repeat destruct (_ =? _)%string; split; intros H; try discriminate; contradiction.
Qed.
Lemma aggr_code_2 s : aggr_code s = 2%Z <-> s = "huber"%string.
Proof.
  unfold aggr_code. destruct (String.eqb_spec s "mean") as [E|_]; [subst; split; discriminate|].
  destruct (String.eqb_spec s "median") as [E|_]; [subst; split; discriminate|].
  destruct (String.eqb_spec s "huber"); [tauto|]. split; intros H; try discriminate; contradiction.
Qed.

(* ==========================================================================
   3. the constructors and _check_shapes *)
Lemma shape_eqb_refl s : shape_eqb s s = true.
Proof.
  unfold shape_eqb. rewrite Nat.eqb_refl. cbn [andb].
  induction s as [|x s IH]; cbn [combine forallb fst snd]; [reflexivity|]. now rewrite Nat.eqb_refl.
Qed.

Lemma shape_eqb_eq a b : shape_eqb a b = true <-> a = b.
Proof.
  split; [|intros ->; apply shape_eqb_refl].
  unfold shape_eqb. revert b. induction a as [|x a IH]; intros [|y b]; cbn [length combine forallb fst snd]; intros H;
    try reflexivity; try discriminate.
  apply andb_true_iff in H. destruct H as [Hl H]. apply andb_true_iff in H. destruct H as [Hxy H].
  apply Nat.eqb_eq in Hxy. subst y. f_equal. apply IH. apply andb_true_iff. split; [|exact H].
  apply Nat.eqb_eq. apply Nat.eqb_eq in Hl. cbn [length] in Hl. lia.
Qed.

Lemma to_arr2d_inv force a x : to_arr2d force a = Some x ->
  r_shape a = [a_rows x; a_cols x] /\ a_dtype x = r_dtype a /\ a_contig x = force || r_contig a.
Proof.
  unfold to_arr2d. destruct (r_shape a) as [|m [|p [|q s]]]; try discriminate.
  intros E. injection E as <-. cbn. auto.
Qed.

(* TxRxAmplitudes: the dtype assertion comes first; what a constructed object guarantees *)
Lemma txrx_dtype_first tx rx force : r_dtype tx <> r_dtype rx -> txrx_init tx rx force = inl TDtype.
Proof.
  intros H. unfold txrx_init. destruct (dtype_eqb (r_dtype tx) (r_dtype rx)) eqn:E; [|reflexivity].
  apply dtype_eqb_eq in E. contradiction.
Qed.

Lemma txrx_init_inv tx rx force a b : txrx_init tx rx force = inr (a, b) ->
  a_dtype a = a_dtype b /\ r_shape tx = [a_rows a; a_cols a] /\ r_shape rx = [a_rows b; a_cols b]
  /\ (force = true -> a_contig a = true /\ a_contig b = true).
Proof.
  unfold txrx_init. destruct (dtype_eqb (r_dtype tx) (r_dtype rx)) eqn:E; cbn [negb]; [|discriminate].
  apply dtype_eqb_eq in E.
  destruct (to_arr2d force tx) as [x|] eqn:Ex; [|discriminate].
  destruct (to_arr2d force rx) as [y|] eqn:Ey; [|discriminate].
  intros H. injection H as <- <-.
  apply to_arr2d_inv in Ex. apply to_arr2d_inv in Ey.
  destruct Ex as (S1 & D1 & C1), Ey as (S2 & D2 & C2).
  split; [congruence|]. split; [assumption|]. split; [assumption|].
  intros ->. rewrite C1, C2. split; reflexivity.
Qed.

Definition amp_matches (amp : amp_arg) (fd : focal_desc) : Prop :=
  match f_amp fd with
  | FNone => amp = ANone
  | FTxRx atx arx => amp = ATxRx atx arx
                     /\ a_rows atx = a_rows (f_ltx fd) /\ a_cols atx = a_cols (f_ltx fd)
                     /\ a_rows arx = a_rows (f_lrx fd) /\ a_cols arx = a_cols (f_lrx fd)
  | FOther => exists s, amp = AArr s
  end.

(* what a FocalLaw out of its constructor guarantees *)
Ltac conj_split := repeat match goal with |- _ /\ _ => split end.
Ltac fl_fin :=
  conj_split;
  try solve [ assumption | reflexivity | eauto
            | split; intros; (reflexivity || discriminate)
            | intros ? ? E; injection E as <- <-; reflexivity
            | intros ? ? E; discriminate E ].

Lemma focal_law_init_inv ltx lrx amp w force fd :
  focal_law_init ltx lrx amp w force = inr fd ->
  a_rows (f_ltx fd) = a_rows (f_lrx fd)
  /\ r_shape ltx = [a_rows (f_ltx fd); a_cols (f_ltx fd)]
  /\ r_shape lrx = [a_rows (f_lrx fd); a_cols (f_lrx fd)]
  /\ a_dtype (f_ltx fd) = r_dtype ltx /\ a_dtype (f_lrx fd) = r_dtype lrx
  /\ (force = true -> a_contig (f_ltx fd) = true /\ a_contig (f_lrx fd) = true)
  /\ amp_matches amp fd
  /\ (f_w fd = None <-> w = None)
  /\ (forall m d, f_w fd = Some (m, d) -> f_numtimetraces fd = Some m).
Proof.
  unfold focal_law_init.
  destruct (to_arr2d force ltx) as [tx|] eqn:Etx; [|discriminate].
  destruct (to_arr2d force lrx) as [rx|] eqn:Erx; [|discriminate].
  apply to_arr2d_inv in Etx. apply to_arr2d_inv in Erx.
  destruct Etx as (S1 & D1 & C1), Erx as (S2 & D2 & C2).
  destruct (a_rows tx =? a_rows rx)%nat eqn:Er; cbn [negb]; [|discriminate].
  apply Nat.eqb_eq in Er.
  assert (Hc : force = true -> a_contig tx = true /\ a_contig rx = true).
  { intros ->. rewrite C1, C2. split; reflexivity. }
  destruct w as [[s d]|].
  - destruct (weights_shape_after_c_order force s) as [|m [|m' s']] eqn:Ew; try discriminate.
    destruct amp as [|atx arx|sh]; cbn [option_map fst].
    + intros H. injection H as <-. unfold amp_matches. cbn. fl_fin.
    + destruct ((a_rows atx =? a_rows tx)%nat && (a_cols atx =? a_cols tx)%nat) eqn:E1; cbn [negb]; [|discriminate].
      destruct ((a_rows arx =? a_rows rx)%nat && (a_cols arx =? a_cols rx)%nat) eqn:E2; cbn [negb]; [|discriminate].
      apply andb_true_iff in E1, E2. destruct E1 as [E1 E1'], E2 as [E2 E2'].
      apply Nat.eqb_eq in E1, E1', E2, E2'.
      intros H. injection H as <-. unfold amp_matches. cbn. fl_fin.
    + destruct sh as [|r0 [|c0 [|q sh]]]; try discriminate.
      destruct (c0 =? a_cols tx)%nat; cbn [negb]; [|discriminate].
      destruct (c0 =? m)%nat eqn:Ecm; [|discriminate]. apply Nat.eqb_eq in Ecm.
      intros H. injection H as <-. unfold amp_matches. cbn. fl_fin.
  - destruct amp as [|atx arx|sh]; cbn [option_map].
    + intros H. injection H as <-. unfold amp_matches. cbn. fl_fin.
    + destruct ((a_rows atx =? a_rows tx)%nat && (a_cols atx =? a_cols tx)%nat) eqn:E1; cbn [negb]; [|discriminate].
      destruct ((a_rows arx =? a_rows rx)%nat && (a_cols arx =? a_cols rx)%nat) eqn:E2; cbn [negb]; [|discriminate].
      apply andb_true_iff in E1, E2. destruct E1 as [E1 E1'], E2 as [E2 E2'].
      apply Nat.eqb_eq in E1, E1', E2, E2'.
      intros H. injection H as <-. unfold amp_matches. cbn. fl_fin.
    + destruct sh as [|r0 [|c0 [|q sh]]]; try discriminate.
      destruct (c0 =? a_cols tx)%nat; cbn [negb]; [|discriminate].
      intros H. injection H as <-. unfold amp_matches. cbn. fl_fin.
Qed.

(* numtimetraces raises (None) exactly when there are neither weights nor per-timetrace amplitudes *)
Lemma numtimetraces_unknown_iff ltx lrx amp w force fd :
  focal_law_init ltx lrx amp w force = inr fd ->
  (numtimetraces fd = None <-> w = None /\ forall s, amp <> AArr s).
Proof.
  unfold focal_law_init, numtimetraces.
  destruct (to_arr2d force ltx) as [tx|]; [|discriminate].
  destruct (to_arr2d force lrx) as [rx|]; [|discriminate].
  destruct (negb (a_rows tx =? a_rows rx)%nat); [discriminate|].
  destruct w as [[s d]|].
  - destruct (weights_shape_after_c_order force s) as [|m [|m' s']]; try discriminate.
    destruct amp as [|atx arx|sh]; cbn [option_map fst].
    + intros H. injection H as <-. cbn. split; [discriminate|]. intros [H _]. discriminate.
    + destruct (negb _); [discriminate|]. destruct (negb _); [discriminate|].
      intros H. injection H as <-. cbn. split; [discriminate|]. intros [H _]. discriminate.
    + destruct sh as [|r0 [|c0 [|q sh]]]; try discriminate.
      destruct (negb _); [discriminate|]. destruct (c0 =? m)%nat; [|discriminate].
      intros H. injection H as <-. cbn. split; [discriminate|]. intros [H _]. discriminate.
  - destruct amp as [|atx arx|sh]; cbn [option_map].
    + intros H. injection H as <-. cbn. split; [|reflexivity]. intros _. split; [reflexivity|discriminate].
    + destruct (negb _); [discriminate|]. destruct (negb _); [discriminate|].
      intros H. injection H as <-. cbn. split; [|reflexivity]. intros _. split; [reflexivity|discriminate].
    + destruct sh as [|r0 [|c0 [|q sh]]]; try discriminate.
      destruct (negb _); [discriminate|].
      intros H. injection H as <-. cbn. split; [discriminate|]. intros [_ H]. exfalso. now apply (H [r0; c0]).
Qed.

(* _check_shapes on objects out of the constructors (force_c_order = True, the default) and a frame out
   of Frame.__init__: the only assertion that can still fail is the contiguity of frame.timetraces *)
Lemma check_shapes_after_ctors ltx lrx amp w fd n ns d contig :
  focal_law_init ltx lrx amp w true = inr fd ->
  (forall atx arx, amp = ATxRx atx arx -> a_contig atx = true /\ a_contig arx = true) ->
  check_shapes (frame_built n ns d contig) fd = if contig then None else Some STtContig.
Proof.
  intros H Hamp. apply focal_law_init_inv in H.
  destruct H as (Hrows & _ & _ & _ & _ & Hc & Hm & _). destruct (Hc eq_refl) as [C1 C2].
  unfold check_shapes, amp_matches, frame_built in *. cbn [fr_numtimetraces fr_tx_shape fr_rx_shape fr_tt_contig fr_tx_contig fr_rx_contig].
  rewrite !shape_eqb_refl, C1, C2.
  destruct (f_amp fd) as [|atx arx|].
  - destruct contig; reflexivity.
  - destruct Hm as (-> & R1 & K1 & R2 & K2). destruct (Hamp atx arx eq_refl) as [A1 A2].
    rewrite R1, K1, R2, K2, A1, A2, <- Hrows, !Nat.eqb_refl. destruct contig; reflexivity.
  - destruct contig; reflexivity.
Qed.

(* ==========================================================================
   4. the plan of a call *)
Definition amp_dtype (f : focal_desc) : option dtype :=
  match f_amp f with FTxRx atx _ => Some (a_dtype atx) | _ => None end.
Definition amp_kind_of (f : focal_desc) : amp_kind :=
  match f_amp f with FTxRx _ _ => AmpTxRx | FNone => AmpNone | FOther => AmpOther end.

Section PlanProofs.
  Context {X Y : Type}.
  Implicit Types c : call_desc X Y.

  Definition res_dtype c : option dtype := option_map snd (c_result c).
  (* dtype_data of _infer_datatypes, for the weighted timetraces of dtype wt *)
  Definition dtype_data c (wt : dtype) : dtype :=
    mk_dtype (is_cplx wt || odt is_cplx (amp_dtype (c_focal c)) || odt is_cplx (res_dtype c))
             (is_dbl wt || odt is_dbl (amp_dtype (c_focal c)) || odt is_dbl (res_dtype c)).
  (* the accumulated value of a mean kernel is complex *)
  Definition value_cplx c (wt : dtype) : bool :=
    is_cplx wt || odt is_cplx (amp_dtype (c_focal c)) || c_fill_cplx c.

  (* ---- which error comes first ------------------------------------------- *)
  Lemma plan_other_amplitudes c : f_amp (c_focal c) = FOther -> plan c = PRaise ENotImpl.
  Proof. intros H. unfold plan. now rewrite H. Qed.

  Lemma plan_assert_first c s : f_amp (c_focal c) <> FOther ->
    check_shapes (c_frame c) (c_focal c) = Some s -> plan c = PRaise (EAssert s).
  Proof.
    intros Ha Hs. unfold plan, plan_noamp, plan_amp. rewrite Hs.
    destruct (f_amp (c_focal c)); try reflexivity. now contradiction Ha.
  Qed.

  Lemma plan_weigh_error c e : f_amp (c_focal c) <> FOther ->
    check_shapes (c_frame c) (c_focal c) = None ->
    weigh_desc (c_frame c) (c_focal c) = inl e -> plan c = PRaise e.
  Proof.
    intros Ha Hs Hw. unfold plan, plan_noamp, plan_amp. rewrite Hs, Hw.
    destruct (f_amp (c_focal c)); try reflexivity. now contradiction Ha.
  Qed.

  Definition prefix_ok c (wt : dtype) (wrows : nat) : Prop :=
    check_shapes (c_frame c) (c_focal c) = None /\ weigh_desc (c_frame c) (c_focal c) = inr (wt, wrows).

  (* no-amplitude path: the assertion on result.shape precedes the parsing of the options *)
  Lemma plan_noamp_result_shape_first c wt wrows :
    f_amp (c_focal c) = FNone -> prefix_ok c wt wrows -> result_shape_ok c = false ->
    plan c = PRaise (EAssert SResultShape).
  Proof.
    intros Ha [Hs Hw] Hr. unfold plan, plan_noamp. rewrite Ha, Hs, Hw, infer_datatypes_spec, Hr. reflexivity.
  Qed.

  (* amplitude path: `aggregation` is looked at before result.shape, `interpolation` after *)
  Lemma plan_amp_aggregation_first c wt wrows atx arx :
    f_amp (c_focal c) = FTxRx atx arx -> prefix_ok c wt wrows ->
    plan c = match c_aggr c with
             | PStr s => if (aggr_code (lower s) =? 0)%Z then plan c else PRaise ENotImpl
             | _ => PRaise EAttribute
             end.
  Proof.
    intros Ha [Hs Hw]. unfold plan at 1. unfold plan_amp. rewrite Ha, Hs, Hw, infer_datatypes_spec.
    destruct (c_aggr c) as [s|s args|] eqn:Hag; try reflexivity.
    destruct (aggr_code (lower s) =? 0)%Z eqn:E; cbn [negb]; [|reflexivity].
    unfold plan, plan_amp. now rewrite Ha, Hs, Hw, infer_datatypes_spec, Hag, E.
  Qed.

  Lemma plan_amp_result_shape_before_interpolation c wt wrows atx arx s :
    f_amp (c_focal c) = FTxRx atx arx -> prefix_ok c wt wrows ->
    c_aggr c = PStr s -> lower s = "mean"%string -> result_shape_ok c = false ->
    plan c = PRaise (EAssert SResultShape).
  Proof.
    intros Ha [Hs Hw] Hag Hm Hr. unfold plan, plan_amp. rewrite Ha, Hs, Hw, infer_datatypes_spec, Hag, Hm, Hr. reflexivity.
  Qed.

  (* ---- once the shapes are fine: the decision table of Model/Das.v, then the kernel call ---- *)
  Lemma plan_refines_dispatch c wt wrows i a :
    prefix_ok c wt wrows -> result_shape_ok c = true ->
    to_interp_arg (c_interp c) = Some i -> to_aggr_arg (c_aggr c) = Some a ->
    plan c = match dispatch (amp_kind_of (c_focal c)) i a (class_of (dtype_data c wt)) with
             | Raise e => PRaise (err_of_class e)
             | Call k => run_kernel k wt (amp_dtype (c_focal c)) (c_fill_cplx c) wrows (fr_numtimetraces (c_frame c))
                                    (out_dtype c (dtype_data c wt)) (result_given c)
             end.
  Proof.
    intros [Hs Hw] Hr Hi Hag. unfold plan, amp_kind_of, dtype_data, amp_dtype, res_dtype.
    destruct (f_amp (c_focal c)) as [|atx arx|] eqn:Ha; cbn [dispatch].
    - unfold plan_noamp. rewrite Hs, Hw, infer_datatypes_spec, Hr, Hi, Hag. cbn [negb odt orb].
      rewrite !orb_false_r. reflexivity.
    - unfold plan_amp. rewrite Hs, Hw, infer_datatypes_spec, Hr. cbn [negb odt].
      destruct (c_aggr c) as [s|s args|]; cbn [to_aggr_arg] in Hag; [| |discriminate]; injection Hag as <-; cbn [dispatch_amp]; try reflexivity.
      destruct (aggr_code (lower s) =? 0)%Z; cbn [negb]; [|reflexivity].
      destruct (c_interp c) as [n|n args|]; cbn [to_interp_arg] in Hi; [| |discriminate]; injection Hi as <-; cbn [dispatch_amp]; try reflexivity.
      destruct (interp_code (lower n) =? 0)%Z; [reflexivity|].
      destruct (interp_code (lower n) =? 1)%Z; reflexivity.
    - reflexivity.
  Qed.

  (* ---- what a successful plan guarantees ---------------------------------- *)
  Lemma run_kernel_inv k wt amp fill wrows txlen out given k' out' given' :
    run_kernel k wt amp fill wrows txlen out given = PRun k' out' given' ->
    k' = k /\ out' = out /\ given' = given /\ wrows = txlen
    /\ (if is_robust k then is_cplx out = true /\ (is_cplx wt = true \/ fill = false) /\ wt = C128
        else is_cplx out = true \/ (is_cplx wt || odt is_cplx amp || fill) = false).
  Proof.
    unfold run_kernel. destruct (is_robust k) eqn:Hk.
    - destruct (is_cplx out) eqn:Ho; cbn [andb negb]; [|discriminate].
      destruct (is_cplx wt || negb fill) eqn:Hf; cbn [negb]; [|discriminate].
      destruct (wrows =? txlen)%nat eqn:Hr; cbn [negb]; [|discriminate].
      destruct (dtype_eqb wt C128) eqn:Hw; cbn [negb andb]; [|discriminate].
      intros H. injection H as <- <- <-. apply Nat.eqb_eq in Hr. apply dtype_eqb_eq in Hw.
      repeat split; auto. apply orb_true_iff in Hf. destruct Hf as [Hf|Hf]; [now left|right].
      now destruct fill.
    - destruct (is_cplx out || negb _) eqn:Ht; cbn [negb]; [|discriminate].
      destruct (wrows =? txlen)%nat eqn:Hr; cbn [negb andb]; [|discriminate].
      intros H. injection H as <- <- <-. apply Nat.eqb_eq in Hr. repeat split; auto.
      apply orb_true_iff in Ht. destruct Ht as [Ht|Ht]; [now left|right].
      apply negb_true_iff in Ht. exact Ht.
  Qed.

  Lemma plan_run_inv c k out given : plan c = PRun k out given ->
    check_shapes (c_frame c) (c_focal c) = None
    /\ exists wt i a,
         weigh_desc (c_frame c) (c_focal c) = inr (wt, fr_numtimetraces (c_frame c))
         /\ result_shape_ok c = true /\ given = result_given c
         /\ out = out_dtype c (dtype_data c wt)
         /\ to_interp_arg (c_interp c) = Some i /\ to_aggr_arg (c_aggr c) = Some a
         /\ dispatch (amp_kind_of (c_focal c)) i a (class_of (dtype_data c wt)) = Call k
         /\ (if is_robust k then is_cplx out = true /\ (is_cplx wt = true \/ c_fill_cplx c = false) /\ wt = C128
             else is_cplx out = true \/ value_cplx c wt = false).
  Proof.
    intros H.
    destruct (f_amp (c_focal c)) as [|atx arx|] eqn:Ha; [| |now rewrite (plan_other_amplitudes c Ha) in H].
    - destruct (check_shapes (c_frame c) (c_focal c)) as [s|] eqn:Hs.
      { rewrite (plan_assert_first c s) in H; [discriminate|now rewrite Ha|exact Hs]. }
      destruct (weigh_desc (c_frame c) (c_focal c)) as [e|[wt wrows]] eqn:Hw.
      { rewrite (plan_weigh_error c e) in H; [discriminate|now rewrite Ha|exact Hs|exact Hw]. }
      destruct (result_shape_ok c) eqn:Hr.
      2:{ rewrite (plan_noamp_result_shape_first c wt wrows Ha (conj Hs Hw) Hr) in H. discriminate. }
      destruct (to_interp_arg (c_interp c)) as [i|] eqn:Hi.
      2:{ unfold plan, plan_noamp in H. rewrite Ha, Hs, Hw, infer_datatypes_spec, Hr, Hi in H. discriminate. }
      destruct (to_aggr_arg (c_aggr c)) as [a|] eqn:Hag.
      2:{ unfold plan, plan_noamp in H. rewrite Ha, Hs, Hw, infer_datatypes_spec, Hr, Hi, Hag in H. discriminate. }
      rewrite (plan_refines_dispatch c wt wrows i a (conj Hs Hw) Hr Hi Hag) in H.
      destruct (dispatch _ i a _) as [k0|e] eqn:Hd; [|discriminate].
      apply run_kernel_inv in H. destruct H as (-> & -> & -> & -> & Hk).
      split; [reflexivity|]. exists wt, i, a. repeat split; auto.
    - destruct (check_shapes (c_frame c) (c_focal c)) as [s|] eqn:Hs.
      { rewrite (plan_assert_first c s) in H; [discriminate|now rewrite Ha|exact Hs]. }
      destruct (weigh_desc (c_frame c) (c_focal c)) as [e|[wt wrows]] eqn:Hw.
      { rewrite (plan_weigh_error c e) in H; [discriminate|now rewrite Ha|exact Hs|exact Hw]. }
      destruct (to_aggr_arg (c_aggr c)) as [a|] eqn:Hag.
      2:{ rewrite (plan_amp_aggregation_first c wt wrows atx arx Ha (conj Hs Hw)) in H.
          destruct (c_aggr c); try discriminate. }
      destruct (to_interp_arg (c_interp c)) as [i|] eqn:Hi.
      2:{ unfold plan, plan_amp in H. rewrite Ha, Hs, Hw, infer_datatypes_spec in H.
          destruct (c_aggr c) as [s| |]; try discriminate.
          destruct (negb _); [discriminate|]. destruct (negb _); [discriminate|].
          destruct (c_interp c); try discriminate. }
      destruct (result_shape_ok c) eqn:Hr.
      2:{ unfold plan, plan_amp in H. rewrite Ha, Hs, Hw, infer_datatypes_spec, Hr in H.
          destruct (c_aggr c) as [s| |]; try discriminate.
          destruct (negb _); [discriminate|]. discriminate. }
      rewrite (plan_refines_dispatch c wt wrows i a (conj Hs Hw) Hr Hi Hag) in H.
      destruct (dispatch _ i a _) as [k0|e] eqn:Hd; [|discriminate].
      apply run_kernel_inv in H. destruct H as (-> & -> & -> & -> & Hk).
      split; [reflexivity|]. exists wt, i, a. repeat split; auto.
  Qed.
End PlanProofs.

(* ---- consequences, in the vocabulary of the caller -------------------------------- *)
(* dtype of focal_law.weigh_timetraces(frame.timetraces) *)
Definition weighted_dtype (fr : frame_desc) (fl : focal_desc) : dtype :=
  match f_w fl with None => fr_tt_dtype fr | Some (_, wd) => promote (fr_tt_dtype fr) wd end.

Lemma weigh_desc_inv fr fl wt r : weigh_desc fr fl = inr (wt, r) ->
  wt = weighted_dtype fr fl
  /\ exists n ns, fr_tt_shape fr = [n; ns] /\ weighted_rows n (option_map fst (f_w fl)) = BRows r.
Proof.
  unfold weigh_desc, weighted_dtype. destruct (fr_tt_shape fr) as [|n [|ns [|q s]]]; try discriminate.
  destruct (f_w fl) as [[m wd]|]; cbn [option_map fst].
  - destruct (weighted_rows n (Some m)) as [r'|] eqn:E; [|discriminate].
    intros H. injection H as <- <-. split; [reflexivity|]. now exists n, ns.
  - intros H. injection H as <- <-. split; [reflexivity|]. now exists n, ns.
Qed.

Lemma weigh_desc_err fr fl e : weigh_desc fr fl = inl e -> e = EBroadcast \/ e = EAssert STtNdim.
Proof.
  unfold weigh_desc. destruct (fr_tt_shape fr) as [|n [|ns [|q s]]]; try (intros H; injection H as <-; now right).
  destruct (f_w fl) as [[m wd]|]; [|discriminate].
  destruct (weighted_rows n (Some m)); [discriminate|]. intros H. injection H as <-. now left.
Qed.

(* (n, ns) * (m, 1) *)
Lemma weighted_rows_spec n m :
  weighted_rows n (Some m) =
  if ((m =? n) || (m =? 1))%nat then BRows n else if (n =? 1)%nat then BRows m else BValueError.
Proof. unfold weighted_rows. destruct (m =? n)%nat, (m =? 1)%nat; reflexivity. Qed.

Section PlanCorollaries.
  Context {X Y : Type}.
  Implicit Types c : call_desc X Y.

  (* fresh result: its dtype is the promotion of the timetraces, the weights and the amplitudes;
     nothing else enters (not the lookup times, not fillvalue) *)
  Lemma plan_fresh_result_dtype c k out given :
    plan c = PRun k out given -> c_result c = None ->
    given = false
    /\ result_type ([fr_tt_dtype (c_frame c)]
                    ++ (match f_w (c_focal c) with Some (_, wd) => [wd] | None => [] end)
                    ++ (match amp_dtype (c_focal c) with Some a => [a] | None => [] end)) = Some out.
  Proof.
    intros H Hr. apply plan_run_inv in H. destruct H as (_ & wt & i & a & Hw & _ & -> & -> & _).
    apply weigh_desc_inv in Hw. destruct Hw as [-> _].
    unfold result_given, out_dtype, dtype_data, res_dtype, weighted_dtype. rewrite Hr. cbn [option_map odt].
    split; [reflexivity|]. rewrite !orb_false_r.
    destruct (f_w (c_focal c)) as [[m wd]|], (amp_dtype (c_focal c)) as [ad|];
      cbn [app result_type fold_left odt]; rewrite ?orb_false_r;
      destruct (fr_tt_dtype (c_frame c)); try destruct wd; try destruct ad; reflexivity.
  Qed.

  (* result= given: the returned array is that object (its dtype, no promotion), and it had the shape (numpoints,) *)
  Lemma plan_given_result c k out given s d :
    plan c = PRun k out given -> c_result c = Some (s, d) ->
    given = true /\ out = d /\ s = [a_rows (f_ltx (c_focal c))].
  Proof.
    intros H Hr. apply plan_run_inv in H. destruct H as (_ & wt & i & a & _ & Hs & -> & -> & _).
    unfold result_given, out_dtype, result_shape_ok in *. rewrite Hr in *.
    repeat split. now apply shape_eqb_eq.
  Qed.

  (* a real returned array: every input of a mean kernel is real, fillvalue included *)
  Lemma plan_real_output c k out given :
    plan c = PRun k out given -> is_cplx out = false ->
    is_robust k = false
    /\ is_cplx (weighted_dtype (c_frame c) (c_focal c)) = false
    /\ odt is_cplx (amp_dtype (c_focal c)) = false /\ c_fill_cplx c = false.
  Proof.
    intros H Ho. apply plan_run_inv in H. destruct H as (_ & wt & i & a & Hw & _ & _ & _ & _ & _ & _ & Hk).
    apply weigh_desc_inv in Hw. destruct Hw as [-> _].
    destruct (is_robust k).
    - destruct Hk as (Hk & _). congruence.
    - destruct Hk as [Hk|Hk]; [congruence|]. unfold value_cplx in Hk.
      apply orb_false_iff in Hk. destruct Hk as [Hk ->]. apply orb_false_iff in Hk. destruct Hk as [-> ->]. auto.
  Qed.

  (* the robust kernels run only on complex128 weighted timetraces, without amplitudes *)
  Lemma plan_robust_requires_c128 c k out given :
    plan c = PRun k out given -> is_robust k = true ->
    weighted_dtype (c_frame c) (c_focal c) = C128 /\ f_amp (c_focal c) = FNone /\ is_cplx out = true.
  Proof.
    intros H Hr. apply plan_run_inv in H. destruct H as (_ & wt & i & a & Hw & _ & _ & _ & _ & _ & Hd & Hk).
    apply weigh_desc_inv in Hw. destruct Hw as [-> _]. rewrite Hr in Hk. destruct Hk as (Ho & _ & Hc).
    repeat split; auto.
    unfold amp_kind_of in Hd. destruct (f_amp (c_focal c)); [reflexivity| |discriminate].
    cbn [dispatch] in Hd. unfold dispatch_amp in Hd.
    destruct a; try discriminate. destruct (negb _); try discriminate.
    destruct i; try discriminate. repeat (destruct (_ =? _)%Z; try discriminate);
      injection Hd as <-; discriminate.
  Qed.
End PlanCorollaries.

(* ---- the decision table: which requests reach a robust kernel, which kernel serves which name ---- *)
Ltac dispatch_crush H :=
  repeat match type of H with
         | context [if ?b then _ else _] => destruct b eqn:?
         | context [match ?x with _ => _ end] => destruct x eqn:?
         end; try discriminate H.

Lemma dispatch_noamp_robust_inv i a d k :
  dispatch_noamp i a d = Call k -> is_robust k = true -> d = DComplex128.
Proof.
  intros H Hk. unfold dispatch_noamp in H.
  destruct d; [exfalso|exfalso|reflexivity];
    dispatch_crush H; injection H as <-; discriminate Hk.
Qed.

Lemma dispatch_robust_inv am i a d k :
  dispatch am i a d = Call k -> is_robust k = true -> am = AmpNone /\ d = DComplex128.
Proof.
  intros H Hk. destruct am; cbn [dispatch] in H.
  - exfalso. unfold dispatch_amp in H. dispatch_crush H; injection H as <-; discriminate Hk.
  - split; [reflexivity|]. now apply (dispatch_noamp_robust_inv i a d k).
  - discriminate.
Qed.

(* the kernel that runs is the one of the requested interpolation name and aggregation name *)
Definition kernel_interp (k : kernel) : Z :=
  match k with
  | KAmpNearest | KNoampNearest | KMedianNearest => 0
  | KAmpLinear | KNoampLinear => 1
  | KNoampLanczos | KMedianLanczos | KHuberLanczos => 2
  end%Z.
Definition kernel_aggr (k : kernel) : Z :=
  match k with
  | KMedianNearest | KMedianLanczos => 1
  | KHuberLanczos => 2
  | _ => 0
  end%Z.

Lemma dispatch_call_inv am i a d k : dispatch am i a d = Call k ->
  iname i = kernel_interp k /\ aname a = kernel_aggr k
  /\ (is_amp_kernel k = true <-> am = AmpTxRx)
  /\ (kernel_interp k = 2%Z -> inargs i = 1%Z)
  /\ (k = KHuberLanczos -> anargs a = 1%Z).
Proof.
  intros H. destruct am; cbn [dispatch] in H; [| |discriminate].
  - unfold dispatch_amp in H. destruct a as [an|an ak]; [|discriminate].
    destruct (negb (an =? 0)%Z) eqn:Ea; [discriminate|]. apply negb_false_iff, Z.eqb_eq in Ea.
    destruct i as [n|n nk]; [|discriminate].
    destruct (n =? 0)%Z eqn:E0; [|destruct (n =? 1)%Z eqn:E1; [|discriminate]];
      injection H as <-; cbn; apply Z.eqb_eq in E0 || apply Z.eqb_eq in E1; subst;
      repeat split; auto; try discriminate.
  - unfold dispatch_noamp in H.
    dispatch_crush H;
      repeat match goal with
             | E : (if ?b then _ else _) = _ |- _ => destruct b eqn:?; try discriminate E
             | E : match ?x with _ => _ end = _ |- _ => destruct x eqn:?; try discriminate E
             end;
      repeat match goal with
             | E : Call _ = Call _ |- _ => injection E as ?
             end; subst;
      repeat match goal with
             | E : (_ =? _)%Z = true |- _ => apply Z.eqb_eq in E
             end;
      cbn [kernel_interp kernel_aggr is_amp_kernel kernel_extra] in *;
      repeat split; try assumption; try discriminate; try lia; intros; try discriminate; try lia.
Qed.

Lemma err_of_class_before_kernel e : err_of_class e <> EKernelRuntime /\ err_of_class e <> ETyping.
Proof. destruct e; split; discriminate. Qed.

Section PlanGuard.
  Context {X Y : Type}.
  Implicit Types c : call_desc X Y.

  (* either an exception before the kernel call, or the decision table is reached *)
  Lemma plan_cases c :
    (exists e, plan c = PRaise e /\ e <> EKernelRuntime /\ e <> ETyping)
    \/ (exists wt wrows i a, prefix_ok c wt wrows /\ result_shape_ok c = true
                             /\ to_interp_arg (c_interp c) = Some i /\ to_aggr_arg (c_aggr c) = Some a).
  Proof.
    destruct (f_amp (c_focal c)) as [|atx arx|] eqn:Ha.
    - destruct (check_shapes (c_frame c) (c_focal c)) as [s|] eqn:Hs.
      { left. exists (EAssert s). rewrite (plan_assert_first c s); [repeat split; discriminate|now rewrite Ha|exact Hs]. }
      destruct (weigh_desc (c_frame c) (c_focal c)) as [e|[wt wrows]] eqn:Hw.
      { left. exists e. rewrite (plan_weigh_error c e); [|now rewrite Ha|exact Hs|exact Hw].
        destruct (weigh_desc_err _ _ _ Hw) as [-> | ->]; repeat split; discriminate. }
      destruct (result_shape_ok c) eqn:Hr.
      2:{ left. exists (EAssert SResultShape).
          rewrite (plan_noamp_result_shape_first c wt wrows Ha (conj Hs Hw) Hr). repeat split; discriminate. }
      destruct (to_interp_arg (c_interp c)) as [i|] eqn:Hi.
      2:{ left. exists EIndex. unfold plan, plan_noamp. rewrite Ha, Hs, Hw, infer_datatypes_spec, Hr, Hi.
          repeat split; discriminate. }
      destruct (to_aggr_arg (c_aggr c)) as [a|] eqn:Hag.
      2:{ left. exists EIndex. unfold plan, plan_noamp. rewrite Ha, Hs, Hw, infer_datatypes_spec, Hr, Hi, Hag.
          repeat split; discriminate. }
      right. exists wt, wrows, i, a. repeat split; auto.
    - destruct (check_shapes (c_frame c) (c_focal c)) as [s|] eqn:Hs.
      { left. exists (EAssert s). rewrite (plan_assert_first c s); [repeat split; discriminate|now rewrite Ha|exact Hs]. }
      destruct (weigh_desc (c_frame c) (c_focal c)) as [e|[wt wrows]] eqn:Hw.
      { left. exists e. rewrite (plan_weigh_error c e); [|now rewrite Ha|exact Hs|exact Hw].
        destruct (weigh_desc_err _ _ _ Hw) as [-> | ->]; repeat split; discriminate. }
      destruct (c_aggr c) as [s|s args|] eqn:Hag.
      2:{ left. exists EAttribute. rewrite (plan_amp_aggregation_first c wt wrows atx arx Ha (conj Hs Hw)), Hag.
          repeat split; discriminate. }
      2:{ left. exists EAttribute. rewrite (plan_amp_aggregation_first c wt wrows atx arx Ha (conj Hs Hw)), Hag.
          repeat split; discriminate. }
      destruct (aggr_code (lower s) =? 0)%Z eqn:Ec.
      2:{ left. exists ENotImpl. rewrite (plan_amp_aggregation_first c wt wrows atx arx Ha (conj Hs Hw)), Hag, Ec.
          repeat split; discriminate. }
      destruct (result_shape_ok c) eqn:Hr.
      2:{ left. exists (EAssert SResultShape). unfold plan, plan_amp.
          rewrite Ha, Hs, Hw, infer_datatypes_spec, Hag, Ec, Hr. repeat split; discriminate. }
      destruct (c_interp c) as [n|n args|] eqn:Hi.
      2:{ left. exists EAttribute. unfold plan, plan_amp.
          rewrite Ha, Hs, Hw, infer_datatypes_spec, Hag, Ec, Hr, Hi. repeat split; discriminate. }
      2:{ left. exists EAttribute. unfold plan, plan_amp.
          rewrite Ha, Hs, Hw, infer_datatypes_spec, Hag, Ec, Hr, Hi. repeat split; discriminate. }
      right. exists wt, wrows, (IStr (interp_code (lower n))), (AStr (aggr_code (lower s))).
      repeat split; auto.
    - left. exists ENotImpl. rewrite (plan_other_amplitudes c Ha). repeat split; discriminate.
  Qed.

  (* the guard `dtype_data != np.complex_` of the robust aggregations looks at the promotion of the
     weighted timetraces AND of `result`.  When it lets a call through although the timetraces are
     not complex128, the kernel fails at run time (EKernelRuntime).  This needs a caller's `result`. *)
  Lemma plan_kernel_runtime_inv c : plan c = PRaise EKernelRuntime ->
    exists wt k, weigh_desc (c_frame c) (c_focal c) = inr (wt, fr_numtimetraces (c_frame c))
                 /\ is_robust k = true /\ wt <> C128 /\ dtype_data c wt = C128
                 /\ f_amp (c_focal c) = FNone.
  Proof.
    intros H. destruct (plan_cases c) as [(e & He & Hne & _)|(wt & wrows & i & a & Hp & Hr & Hi & Hag)].
    - rewrite He in H. injection H as ->. contradiction.
    - rewrite (plan_refines_dispatch c wt wrows i a Hp Hr Hi Hag) in H.
      destruct (dispatch _ i a _) as [k|e] eqn:Hd.
      2:{ injection H as H. now destruct (err_of_class_before_kernel e). }
      unfold run_kernel in H.
      destruct (negb _); [discriminate|].
      destruct (negb (wrows =? _)%nat) eqn:Hrows; [discriminate|].
      destruct (is_robust k) eqn:Hk; cbn [andb] in H; [|discriminate].
      destruct (dtype_eqb wt C128) eqn:Hw; cbn [negb] in H; [discriminate|].
      apply negb_false_iff, Nat.eqb_eq in Hrows. subst wrows.
      destruct (dispatch_robust_inv _ _ _ _ _ Hd Hk) as [Ham Hcl].
      exists wt, k. destruct Hp as [_ Hp]. repeat split; auto.
      + intros E. apply dtype_eqb_eq in E. congruence.
      + destruct (dtype_data c wt); try discriminate. reflexivity.
      + unfold amp_kind_of in Ham. destruct (f_amp (c_focal c)); try discriminate. reflexivity.
  Qed.

  Lemma plan_guard_exact_when_fresh c : c_result c = None -> plan c <> PRaise EKernelRuntime.
  Proof.
    intros Hr H. apply plan_kernel_runtime_inv in H. destruct H as (wt & k & _ & _ & Hne & Hd & Ha).
    apply Hne. unfold dtype_data, amp_dtype, res_dtype in Hd. rewrite Hr, Ha in Hd. cbn [option_map odt] in Hd.
    rewrite !orb_false_r, mk_dtype_eta in Hd. exact Hd.
  Qed.
End PlanGuard.

(* a witness of the leak: complex64 timetraces, median, a caller's complex128 result *)
Definition guard_leak_call : call_desc unit unit :=
  mkCall (frame_built 2 8 C64 true)
         (mkFocalD (mkArr2d 3 2 F64 true) (mkArr2d 3 2 F64 true) FNone None None)
         false (PStr "nearest") (PStr "median") (Some ([3%nat], C128)).
Lemma guard_leak_witness :
  exists c : call_desc unit unit,
    weighted_dtype (c_frame c) (c_focal c) <> C128 /\ c_aggr c = PStr "median"%string
    /\ plan c = PRaise EKernelRuntime.
Proof. exists guard_leak_call. split; [discriminate|]. split; reflexivity. Qed.

(* ---- what the plan does not look at -------------------------------------------------- *)
Definition set_dtype (d : dtype) (a : arr2d) : arr2d := mkArr2d (a_rows a) (a_cols a) d (a_contig a).
Definition set_lt_dtypes {X Y} (d1 d2 : dtype) (c : call_desc X Y) : call_desc X Y :=
  let f := c_focal c in
  mkCall (c_frame c)
         (mkFocalD (set_dtype d1 (f_ltx f)) (set_dtype d2 (f_lrx f)) (f_amp f) (f_w f) (f_numtimetraces f))
         (c_fill_cplx c) (c_interp c) (c_aggr c) (c_result c).
Definition map_names {X Y} (f : string -> string) (c : call_desc X Y) : call_desc X Y :=
  mkCall (c_frame c) (c_focal c) (c_fill_cplx c) (map_name f (c_interp c)) (map_name f (c_aggr c)) (c_result c).

Lemma plan_lookup_dtype_irrelevant {X Y} (c : call_desc X Y) d1 d2 : plan (set_lt_dtypes d1 d2 c) = plan c.
Proof.
  unfold plan, plan_noamp, plan_amp, set_lt_dtypes, check_shapes, weigh_desc, result_shape_ok, out_dtype,
    result_given, tx_len.
  cbn [c_frame c_focal c_fill_cplx c_interp c_aggr c_result f_ltx f_lrx f_amp f_w f_numtimetraces set_dtype
       a_rows a_cols a_dtype a_contig].
  destruct (f_amp (c_focal c)); try reflexivity;
    destruct (first_fail _); try reflexivity;
    destruct (fr_tt_shape (c_frame c)) as [|n [|ns [|q s]]]; try reflexivity;
    destruct (f_w (c_focal c)) as [[m wd]|]; try destruct (weighted_rows n (Some m)); try reflexivity;
    rewrite !infer_datatypes_spec; reflexivity.
Qed.

Lemma plan_case_insensitive {X Y} (c : call_desc X Y) (f : string -> string) :
  (forall s, lower (f s) = lower s) -> plan (map_names f c) = plan c.
Proof.
  intros Hf. unfold plan, plan_noamp, plan_amp, map_names, result_shape_ok, out_dtype, result_given.
  cbn [c_frame c_focal c_fill_cplx c_interp c_aggr c_result].
  rewrite !(to_interp_arg_map_name f _ Hf), !(to_aggr_arg_map_name f _ Hf).
  destruct (f_amp (c_focal c)); try reflexivity.
  destruct (check_shapes _ _); try reflexivity. destruct (weigh_desc _ _) as [e|[wt wr]]; try reflexivity.
  destruct (infer_datatypes _ _ _ _ _) as [[[? ?] ?]|]; try reflexivity.
  destruct (c_aggr c) as [s|s args|]; cbn [map_name]; try reflexivity. rewrite Hf.
  destruct (c_interp c) as [n|n args|]; cbn [map_name]; try reflexivity. now rewrite Hf.
Qed.

(* ==========================================================================
   5. the writes into `result` *)
Lemma upd_length {A} (l : list A) i v : length (upd l i v) = length l.
Proof. revert i. induction l as [|x l IH]; intros [|i]; cbn [upd length]; auto. Qed.

Lemma nth_upd {A} (l : list A) i j v d : (i < length l)%nat ->
  nth j (upd l i v) d = if (j =? i)%nat then v else nth j l d.
Proof.
  revert i j. induction l as [|x l IH]; intros i j Hi; cbn [length] in Hi; [lia|].
  destruct i as [|i], j as [|j]; cbn [upd nth Nat.eqb]; try reflexivity.
  apply IH. lia.
Qed.

Lemma nth_upd_out {A} (l : list A) i j v d : (length l <= i)%nat -> nth j (upd l i v) d = nth j l d.
Proof.
  revert i j. induction l as [|x l IH]; intros i j Hi; [reflexivity|].
  cbn [length] in Hi. destruct i as [|i]; [lia|]. destruct j as [|j]; cbn [upd nth]; [reflexivity|].
  apply IH. lia.
Qed.

Lemma write_pixels_length {A} order (pix : nat -> A) prev : length (write_pixels order pix prev) = length prev.
Proof.
  unfold write_pixels. revert prev. induction order as [|p order IH]; intros prev; cbn [fold_left]; [reflexivity|].
  now rewrite IH, upd_length.
Qed.

(* element j after the writes: the pixel value if j was written (whenever, however often), else the old content *)
Lemma nth_write_pixels {A} order (pix : nat -> A) prev j d : (j < length prev)%nat ->
  nth j (write_pixels order pix prev) d = if existsb (Nat.eqb j) order then pix j else nth j prev d.
Proof.
  unfold write_pixels. revert prev. induction order as [|p order IH]; intros prev Hj; cbn [fold_left existsb]; [reflexivity|].
  rewrite IH by now rewrite upd_length.
  destruct (existsb (Nat.eqb j) order); [now rewrite orb_true_r|]. rewrite orb_false_r.
  destruct (Nat.lt_ge_cases p (length prev)) as [Hp|Hp].
  - rewrite nth_upd by exact Hp. destruct (Nat.eqb_spec j p) as [->|_]; reflexivity.
  - rewrite nth_upd_out by exact Hp. destruct (Nat.eqb_spec j p) as [->|_]; [lia|reflexivity].
Qed.

(* prange: whatever the order in which the points are processed (any list containing every point, with or
   without repetition), an array of numpoints elements ends up holding exactly the pixel values;
   its previous content is irrelevant *)
Lemma write_pixels_any_order {A} order (pix : nat -> A) prev n :
  length prev = n -> (forall j, (j < n)%nat -> In j order) ->
  write_pixels order pix prev = map pix (seq 0 n).
Proof.
  intros Hn Hall. assert (d : A) by (destruct n; [exact (pix 0%nat)|exact (pix 0%nat)]).
  apply (nth_ext _ _ d d).
  - now rewrite write_pixels_length, map_length, seq_length.
  - intros j Hj. rewrite write_pixels_length, Hn in Hj.
    rewrite nth_write_pixels by lia.
    assert (E : existsb (Nat.eqb j) order = true).
    { apply existsb_exists. exists j. split; [now apply Hall|apply Nat.eqb_refl]. }
    rewrite E. rewrite (nth_indep _ d (pix 0%nat)) by now rewrite map_length, seq_length.
    rewrite map_nth, seq_nth by exact Hj. reflexivity.
Qed.

Lemma map_nth_seq {A} (l : list A) d : map (fun p => nth p l d) (seq 0 (length l)) = l.
Proof.
  induction l as [|x l IH]; cbn [length seq map nth]; [reflexivity|].
  f_equal. rewrite <- seq_shift, map_map. exact IH.
Qed.

(* the kernel FILLS result: a caller's array of the right length holds the image afterwards *)
Lemma store_full {A} (d : A) prev img : length prev = length img -> store d prev img = img.
Proof.
  intros Hl. unfold store. rewrite (write_pixels_any_order _ _ prev (length img) Hl).
  - apply map_nth_seq.
  - intros j Hj. apply in_seq. lia.
Qed.

Lemma store_any_order {A} (d : A) order prev img :
  length prev = length img -> (forall j, (j < length img)%nat -> In j order) ->
  write_pixels order (fun p => nth p img d) prev = img.
Proof. intros Hl Hall. rewrite (write_pixels_any_order _ _ prev (length img) Hl Hall). apply map_nth_seq. Qed.

(* ==========================================================================
   6. the call with its data *)
Definition interp_name {X} (o : pyopt X) : string :=
  match o with PStr s => s | PTup s _ => s | PEmpty => EmptyString end.
(* the interpolation scheme a request names *)
Definition scheme_of (o : pyopt Z) : scheme :=
  let n := interp_code (lower (interp_name o)) in
  if (n =? 0)%Z then Nearest else if (n =? 1)%Z then Linear else Lanczos (first_arg 0%Z o).

Section CallProofs.
  Context {T D : Type} (N : Num T) (V : Data T D) (view2 : D -> T * T).
  Let VC := DataCplx N.
  Let pt := (T * T)%type.

  (* ---- the weights actually applied always fit the frame ------------------------------ *)
  Lemma effective_weights_ok {D'} (V' : Data T D') (w : option (list T)) (ss : list (scan D')) :
    exists wss, weigh_timetraces V' (effective_weights N w (length ss)) ss = Some wss /\ length wss = length ss.
  Proof.
    unfold effective_weights, weigh_timetraces. destruct w as [ws|].
    - destruct (length ws =? length ss)%nat eqn:E.
      + rewrite E. eexists. split; [reflexivity|].
        apply Nat.eqb_eq in E. now rewrite map_length, combine_length, E, Nat.min_id.
      + rewrite repeat_length, Nat.eqb_refl. eexists. split; [reflexivity|].
        now rewrite map_length, combine_length, repeat_length, Nat.min_id.
    - exists ss. split; reflexivity.
  Qed.

  Definition apply_weights {D'} (V' : Data T D') (w : option (list T)) (ss : list (scan D')) : list (scan D') :=
    match weigh_timetraces V' (effective_weights N w (length ss)) ss with Some wss => wss | None => ss end.

  Lemma apply_weights_eq {D'} (V' : Data T D') w (ss : list (scan D')) :
    weigh_timetraces V' (effective_weights N w (length ss)) ss = Some (apply_weights V' w ss).
  Proof. unfold apply_weights. destruct (effective_weights_ok V' w ss) as (wss & -> & _). reflexivity. Qed.

  (* ---- one pixel of each kernel: the body of `for point in prange(numpoints)` ---------- *)
  Definition mean_pixel (kn : kernel) (a : Z) (ns : Z) (dt t0 : T) (fill : D) (wss : list (scan D)) (r : prow T D) : D :=
    let invdt := ndiv N (n1 N) dt in
    match kn with
    | KAmpNearest => accumulate N V (term_amp_nearest N V ns dt t0 fill r) wss
    | KAmpLinear => accumulate N V (term_amp_linear N V ns dt t0 fill r) wss
    | KNoampNearest => accumulate N V (term_noamp_nearest N V ns invdt t0 fill r) wss
    | KNoampLinear => accumulate N V (term_noamp_linear N V ns invdt t0 fill r) wss
    | KNoampLanczos => accumulate N V (term_noamp_lanczos N V a ns invdt t0 fill r) wss
    | _ => dzero V
    end.
  Definition robust_pixel (kn : kernel) (a : Z) (tau xtol c rho : T) (ns : Z) (dt t0 : T) (fill : pt)
             (wss : list (scan pt)) (r : prow T pt) : rres pt :=
    let invdt := ndiv N (n1 N) dt in
    match kn with
    | KMedianNearest => res_point (geomed N (median_nearest_samples N VC ns invdt t0 fill r wss) xtol 200 c rho)
    | KMedianLanczos => res_point (geomed N (median_lanczos_samples N VC a ns invdt t0 fill r wss) xtol 200 c rho)
    | KHuberLanczos => res_point (huber_m_estimate N (huber_lanczos_samples N VC a ns invdt t0 fill r wss) tau xtol 600)
    | _ => RMaxIter
    end.

  Lemma das_noamp_map sc ns dt t0 fill w rows ss :
    das_noamp N V sc ns dt t0 fill (effective_weights N w (length ss)) rows ss
    = Some (map (mean_pixel (match sc with Nearest => KNoampNearest | Linear => KNoampLinear | Lanczos _ => KNoampLanczos end)
                            (match sc with Lanczos a => a | _ => 0%Z end) ns dt t0 fill (apply_weights V w ss)) rows).
  Proof. unfold das_noamp. rewrite apply_weights_eq. destruct sc; reflexivity. Qed.

  Lemma das_amp_map sc ns dt t0 fill w rows ss : (forall a, sc <> Lanczos a) ->
    das_amp N V sc ns dt t0 fill (effective_weights N w (length ss)) rows ss
    = Some (map (mean_pixel (match sc with Nearest => KAmpNearest | _ => KAmpLinear end) 0%Z
                            ns dt t0 fill (apply_weights V w ss)) rows).
  Proof. intros H. unfold das_amp. rewrite apply_weights_eq. destruct sc; try reflexivity. now contradiction (H a). Qed.

  Lemma das_robust_map ag sc xtol c rho ns dt t0 fill w rows (ss : list (scan pt)) kn :
    (match ag, sc with
     | Median, Nearest => kn = KMedianNearest
     | Median, Lanczos _ => kn = KMedianLanczos
     | Huber _, Lanczos _ => kn = KHuberLanczos
     | _, _ => False
     end) ->
    das_robust N ag sc xtol c rho ns dt t0 fill (effective_weights N w (length ss)) rows ss
    = Some (map (robust_pixel kn (match sc with Lanczos a => a | _ => 0%Z end)
                              (match ag with Huber tau => tau | Median => n0 N end) xtol c rho ns dt t0 fill
                              (apply_weights VC w ss)) rows).
  Proof.
    intros H. unfold das_robust, Robust.V. fold VC. rewrite apply_weights_eq.
    destruct ag, sc; try contradiction; subst kn; reflexivity.
  Qed.

  (* ---- the descriptor built from the data ---------------------------------------------- *)
  Lemma plan_describe_rows_irrelevant k ns i a w (rows rows' : list (prow T D)) (ss : list (scan D)) :
    plan (describe k ns i a w rows ss None) = plan (describe k ns i a w rows' ss None).
  Proof.
    unfold plan, plan_noamp, plan_amp, describe, check_shapes, weigh_desc, result_shape_ok, out_dtype,
      result_given, frame_built, tx_len.
    cbn [c_frame c_focal c_fill_cplx c_interp c_aggr c_result f_ltx f_lrx f_amp f_w f_numtimetraces
         a_rows a_cols a_dtype a_contig fr_numtimetraces fr_tt_shape fr_tt_dtype fr_tt_contig fr_tx_shape
         fr_tx_contig fr_rx_shape fr_rx_contig option_map].
    destruct (k_amp k); cbn [f_amp]; rewrite ?Nat.eqb_refl; reflexivity.
  Qed.

  Lemma describe_prev_length k ns i a w (rows : list (prow T D)) (ss : list (scan D)) prev kn out given :
    plan (describe k ns i a w rows ss (Some prev)) = PRun kn out given -> length prev = length rows.
  Proof.
    intros H. apply plan_run_inv in H. destruct H as (_ & wt & i0 & a0 & _ & Hs & _).
    unfold result_shape_ok, describe in Hs. cbn [c_result option_map c_focal f_ltx a_rows] in Hs.
    apply shape_eqb_eq in Hs. now injection Hs.
  Qed.

  Lemma describe_amp_kind k ns i a w (rows : list (prow T D)) (ss : list (scan D)) result :
    amp_kind_of (c_focal (describe k ns i a w rows ss result)) = k_amp k.
  Proof. unfold describe, amp_kind_of. cbn [c_focal f_amp]. destruct (k_amp k); reflexivity. Qed.

  (* ---- normal form of a call: plan, then one pixel per row of the focal law ------------ *)
  Definition kernel_out (kn : kernel) (out : dtype) (given : bool) (a : Z) (tau xtol c rho : T) (ns : Z) (dt t0 : T)
             (fill : D) (w : option (list T)) (rows : list (prow T D)) (ss : list (scan D)) : das_out T D :=
    if is_robust kn
    then ORobust out given
           (map (robust_pixel kn a tau xtol c rho ns dt t0 (view2 fill)
                              (apply_weights VC w (map (view_scan view2) ss))) (map view_row rows))
    else OMean out given (map (mean_pixel kn a ns dt t0 fill (apply_weights V w ss)) rows).

  Lemma das_call_nf k xtol c rho ns dt t0 fill interp aggr w rows ss result :
    das_call N V view2 k xtol c rho ns dt t0 fill interp aggr w rows ss result =
    match plan (describe k ns interp aggr w rows ss result) with
    | PRaise e => ORaise e
    | PUndefined u => OUndefined u
    | PRun kn out given =>
        if negb (indices_ok (is_amp_kernel kn) rows ss) then OUndefined UIndex
        else kernel_out kn out given (first_arg 0%Z interp) (first_arg (n0 N) aggr) xtol c rho ns dt t0 fill w rows ss
    end.
  Proof.
    unfold das_call. destruct (plan _) as [e|u|kn out given] eqn:Hp; try reflexivity.
    destruct (negb (indices_ok _ rows ss)); [reflexivity|].
    set (prev := match result with Some p => p | None => repeat (dzero V) (length rows) end).
    assert (Hprev : length prev = length rows).
    { subst prev. destruct result as [p|]; [now apply describe_prev_length in Hp|apply repeat_length]. }
    unfold kernel_out.
    destruct kn; cbn [is_robust];
      try (rewrite (das_noamp_map _ ns dt t0 fill w rows ss) || rewrite (das_amp_map _ ns dt t0 fill w rows ss) by discriminate);
      try (rewrite store_full by now rewrite map_length); try reflexivity.
    - rewrite <- (map_length (view_scan view2) ss).
      rewrite (das_robust_map Median Nearest xtol c rho ns dt t0 (view2 fill) w _ _ KMedianNearest eq_refl).
      rewrite store_full by now rewrite !map_length. reflexivity.
    - rewrite <- (map_length (view_scan view2) ss).
      rewrite (das_robust_map Median (Lanczos _) xtol c rho ns dt t0 (view2 fill) w _ _ KMedianLanczos eq_refl).
      rewrite store_full by now rewrite !map_length. reflexivity.
    - rewrite <- (map_length (view_scan view2) ss).
      rewrite (das_robust_map (Huber _) (Lanczos _) xtol c rho ns dt t0 (view2 fill) w _ _ KHuberLanczos eq_refl).
      rewrite store_full by now rewrite !map_length. reflexivity.
  Qed.

  (* ---- `result=` is filled, never accumulated into ---------------------------------------- *)
  Lemma describe_result_length k ns i a w (rows : list (prow T D)) (ss : list (scan D)) prev prev' :
    length prev = length prev' ->
    describe k ns i a w rows ss (Some prev) = describe k ns i a w rows ss (Some prev').
  Proof. intros H. unfold describe. cbn [option_map]. now rewrite H. Qed.

  Lemma das_call_result_content_irrelevant k xtol c rho ns dt t0 fill interp aggr w rows ss prev prev' :
    length prev = length prev' ->
    das_call N V view2 k xtol c rho ns dt t0 fill interp aggr w rows ss (Some prev)
    = das_call N V view2 k xtol c rho ns dt t0 fill interp aggr w rows ss (Some prev').
  Proof. intros H. rewrite !das_call_nf, (describe_result_length k ns interp aggr w rows ss prev prev' H). reflexivity. Qed.

  Lemma kernel_out_mean_inv kn out given a tau xtol c rho ns dt t0 fill w rows ss out' g img :
    kernel_out kn out given a tau xtol c rho ns dt t0 fill w rows ss = OMean out' g img ->
    is_robust kn = false /\ out' = out /\ g = given
    /\ img = map (mean_pixel kn a ns dt t0 fill (apply_weights V w ss)) rows.
  Proof.
    unfold kernel_out. destruct (is_robust kn); [discriminate|]. intros H. injection H as <- <- <-. auto.
  Qed.

  Lemma das_call_mean_inv k xtol c rho ns dt t0 fill interp aggr w rows ss result out g img :
    das_call N V view2 k xtol c rho ns dt t0 fill interp aggr w rows ss result = OMean out g img ->
    exists kn, plan (describe k ns interp aggr w rows ss result) = PRun kn out g
               /\ is_robust kn = false /\ indices_ok (is_amp_kernel kn) rows ss = true
               /\ img = map (mean_pixel kn (first_arg 0%Z interp) ns dt t0 fill (apply_weights V w ss)) rows.
  Proof.
    rewrite das_call_nf. destruct (plan _) as [e|u|kn out0 g0]; try discriminate.
    destruct (indices_ok _ rows ss) eqn:Hi; cbn [negb]; [|discriminate].
    intros H. apply kernel_out_mean_inv in H. destruct H as (Hr & -> & -> & ->). exists kn. auto.
  Qed.

  (* a call that returns with result= given returns that object, filled with the image: the array is as long
     as the focal law, and any other previous content gives the very same outcome *)
  Lemma das_call_given_filled k xtol c rho ns dt t0 fill interp aggr w rows ss prev out g img :
    das_call N V view2 k xtol c rho ns dt t0 fill interp aggr w rows ss (Some prev) = OMean out g img ->
    g = true /\ out = k_res_dtype k /\ length img = length prev /\ length prev = length rows.
  Proof.
    intros H. apply das_call_mean_inv in H. destruct H as (kn & Hp & _ & _ & ->).
    pose proof (describe_prev_length _ _ _ _ _ _ _ _ _ _ _ Hp) as Hl.
    destruct (plan_given_result _ _ _ _ _ _ Hp eq_refl) as (-> & -> & _).
    rewrite map_length. auto.
  Qed.

  (* the kernel is a function of the option names and of the kind of amplitudes only *)
  Lemma kernel_determined k1 k2 :
    kernel_interp k1 = kernel_interp k2 -> kernel_aggr k1 = kernel_aggr k2 ->
    is_amp_kernel k1 = is_amp_kernel k2 -> k1 = k2.
  Proof. destruct k1, k2; cbn; intros; try reflexivity; discriminate. Qed.

  Lemma dispatch_functional am i a d d' k k' :
    dispatch am i a d = Call k -> dispatch am i a d' = Call k' -> k = k'.
  Proof.
    intros H H'. apply dispatch_call_inv in H, H'.
    destruct H as (Hi & Ha & Hm & _), H' as (Hi' & Ha' & Hm' & _).
    apply kernel_determined; try congruence.
    destruct (is_amp_kernel k) eqn:E, (is_amp_kernel k') eqn:E'; try reflexivity.
    - destruct Hm as [Hm _]. destruct Hm' as [_ Hm']. discriminate (Hm' (Hm eq_refl)).
    - destruct Hm as [_ Hm]. destruct Hm' as [Hm' _]. discriminate (Hm (Hm' eq_refl)).
  Qed.

  (* given or fresh result: the same image *)
  Lemma das_call_given_equals_fresh k xtol c rho ns dt t0 fill interp aggr w rows ss prev out g img out' g' img' :
    das_call N V view2 k xtol c rho ns dt t0 fill interp aggr w rows ss (Some prev) = OMean out g img ->
    das_call N V view2 k xtol c rho ns dt t0 fill interp aggr w rows ss None = OMean out' g' img' ->
    img = img' /\ g = true /\ g' = false.
  Proof.
    intros H H'. apply das_call_mean_inv in H, H'.
    destruct H as (kn & Hp & _ & _ & ->), H' as (kn' & Hp' & _ & _ & ->).
    pose proof (plan_run_inv _ _ _ _ Hp) as (_ & wt & i & a & _ & _ & Hg & _ & Hi & Ha & Hd & _).
    pose proof (plan_run_inv _ _ _ _ Hp') as (_ & wt' & i' & a' & _ & _ & Hg' & _ & Hi' & Ha' & Hd' & _).
    unfold describe in Hi, Ha, Hi', Ha', Hg, Hg'. cbn [c_interp c_aggr result_given c_result option_map] in *.
    rewrite Hi in Hi'. injection Hi' as <-. rewrite Ha in Ha'. injection Ha' as <-.
    rewrite !describe_amp_kind in *.
    rewrite (dispatch_functional _ _ _ _ _ _ _ Hd Hd'). auto.
  Qed.

  (* ---- block-wise imaging --------------------------------------------------------------- *)
  Lemma indices_ok_app b (rows1 rows2 : list (prow T D)) (ss : list (scan D)) :
    indices_ok b (rows1 ++ rows2) ss = indices_ok b rows1 ss && indices_ok b rows2 ss.
  Proof. unfold indices_ok. apply forallb_app. Qed.

  Lemma das_call_blockwise k xtol c rho ns dt t0 fill interp aggr w rows1 rows2 ss :
    das_call N V view2 k xtol c rho ns dt t0 fill interp aggr w (rows1 ++ rows2) ss None
    = out_app (das_call N V view2 k xtol c rho ns dt t0 fill interp aggr w rows1 ss None)
              (das_call N V view2 k xtol c rho ns dt t0 fill interp aggr w rows2 ss None).
  Proof.
    rewrite !das_call_nf.
    rewrite (plan_describe_rows_irrelevant k ns interp aggr w (rows1 ++ rows2) rows1 ss).
    rewrite (plan_describe_rows_irrelevant k ns interp aggr w rows2 rows1 ss).
    destruct (plan _) as [e|u|kn out given]; try reflexivity.
    rewrite indices_ok_app.
    unfold kernel_out.
    destruct (indices_ok _ rows1 ss), (indices_ok _ rows2 ss); cbn [andb negb];
      destruct (is_robust kn); cbn [out_app]; rewrite ?map_app; reflexivity.
  Qed.

  (* a pixel depends on its own rows of the focal law only: two calls on the same frame with the same options,
     any two focal laws: equal rows give equal pixels, wherever they sit *)
  Lemma das_call_pixel_independent k xtol c rho ns dt t0 fill interp aggr w rows rows' ss out g img out' g' img' p q :
    das_call N V view2 k xtol c rho ns dt t0 fill interp aggr w rows ss None = OMean out g img ->
    das_call N V view2 k xtol c rho ns dt t0 fill interp aggr w rows' ss None = OMean out' g' img' ->
    nth_error rows p = nth_error rows' q ->
    nth_error img p = nth_error img' q.
  Proof.
    intros H H' Hrow. apply das_call_mean_inv in H, H'.
    destruct H as (kn & Hp & _ & _ & ->), H' as (kn' & Hp' & _ & _ & ->).
    rewrite (plan_describe_rows_irrelevant k ns interp aggr w rows' rows ss), Hp in Hp'.
    injection Hp' as <- <- <-. rewrite !nth_error_map, Hrow. reflexivity.
  Qed.

  (* ---- a returned mean image is the output of the kernel of Model/Das.v that the request names ---- *)
  Lemma to_interp_arg_name {X} (o : pyopt X) i : to_interp_arg o = Some i -> iname i = interp_code (lower (interp_name o)).
  Proof. destruct o; cbn [to_interp_arg interp_name]; intros H; try discriminate; injection H as <-; reflexivity. Qed.

  Definition mean_image (k : ctl) (sc : scheme) ns dt t0 fill (w : option (list T)) rows ss : option (list D) :=
    match k_amp k with
    | AmpTxRx => das_amp N V sc ns dt t0 fill (effective_weights N w (length ss)) rows ss
    | _ => das_noamp N V sc ns dt t0 fill (effective_weights N w (length ss)) rows ss
    end.

  Lemma das_call_mean_is_kernel k xtol c rho ns dt t0 fill interp aggr w rows ss result out g img :
    das_call N V view2 k xtol c rho ns dt t0 fill interp aggr w rows ss result = OMean out g img ->
    mean_image k (scheme_of interp) ns dt t0 fill w rows ss = Some img
    /\ (k_amp k = AmpTxRx -> forall a, scheme_of interp <> Lanczos a)
    /\ k_amp k <> AmpOther.
  Proof.
    intros H. apply das_call_mean_inv in H. destruct H as (kn & Hp & Hr & _ & ->).
    pose proof (plan_run_inv _ _ _ _ Hp) as (_ & wt & i & a & _ & _ & _ & _ & Hi & _ & Hd & _).
    rewrite describe_amp_kind in Hd. unfold describe in Hi. cbn [c_interp] in Hi.
    apply to_interp_arg_name in Hi.
    pose proof (dispatch_call_inv _ _ _ _ _ Hd) as (Hn & _ & Hm & _).
    rewrite Hi in Hn. unfold mean_image, scheme_of. rewrite Hn.
    assert (Hk : k_amp k <> AmpOther) by (intros E; rewrite E in Hd; discriminate).
    destruct kn; try discriminate Hr; cbn [kernel_interp Z.eqb Pos.eqb];
      cbn [is_amp_kernel] in Hm.
    - destruct Hm as [Hm _]. rewrite (Hm eq_refl). rewrite das_amp_map by discriminate.
      repeat split; auto; discriminate.
    - destruct Hm as [Hm _]. rewrite (Hm eq_refl). rewrite das_amp_map by discriminate.
      repeat split; auto; discriminate.
    - destruct (k_amp k) eqn:E; [destruct Hm as [_ Hm]; discriminate (Hm eq_refl)| |contradiction].
      rewrite das_noamp_map. repeat split; auto; discriminate.
    - destruct (k_amp k) eqn:E; [destruct Hm as [_ Hm]; discriminate (Hm eq_refl)| |contradiction].
      rewrite das_noamp_map. repeat split; auto; discriminate.
    - destruct (k_amp k) eqn:E; [destruct Hm as [_ Hm]; discriminate (Hm eq_refl)| |contradiction].
      rewrite das_noamp_map. repeat split; auto; discriminate.
  Qed.

  Lemma das_call_robust_inv k xtol c rho ns dt t0 fill interp aggr w rows ss result out g img :
    das_call N V view2 k xtol c rho ns dt t0 fill interp aggr w rows ss result = ORobust out g img ->
    exists kn, plan (describe k ns interp aggr w rows ss result) = PRun kn out g
               /\ is_robust kn = true
               /\ img = map (robust_pixel kn (first_arg 0%Z interp) (first_arg (n0 N) aggr) xtol c rho ns dt t0 (view2 fill)
                                          (apply_weights VC w (map (view_scan view2) ss))) (map view_row rows).
  Proof.
    rewrite das_call_nf. destruct (plan _) as [e|u|kn out0 g0]; try discriminate.
    destruct (indices_ok _ rows ss) eqn:Hi; cbn [negb]; [|discriminate].
    unfold kernel_out. destruct (is_robust kn) eqn:Hr; [|discriminate].
    intros H. injection H as <- <- <-. exists kn. auto.
  Qed.

  (* ---- what the outcome does not depend on ---------------------------------------------- *)
  Lemma das_call_case_insensitive k xtol c rho ns dt t0 fill interp aggr w rows ss result (f : string -> string) :
    (forall s, lower (f s) = lower s) ->
    das_call N V view2 k xtol c rho ns dt t0 fill (map_name f interp) (map_name f aggr) w rows ss result
    = das_call N V view2 k xtol c rho ns dt t0 fill interp aggr w rows ss result.
  Proof.
    intros Hf. rewrite !das_call_nf, !first_arg_map_name.
    change (describe k ns (map_name f interp) (map_name f aggr) w rows ss result)
      with (map_names f (describe k ns interp aggr w rows ss result)).
    now rewrite (plan_case_insensitive _ f Hf).
  Qed.

  Definition set_lt (k : ctl) (d1 d2 : dtype) : ctl :=
    mkCtl (k_tt_dtype k) (k_tt_contig k) d1 d2 (k_lt_contig k) (k_w_dtype k) (k_amp k) (k_amp_dtype k)
          (k_fill_cplx k) (k_res_dtype k).

  Lemma das_call_lookup_dtype_irrelevant k d1 d2 xtol c rho ns dt t0 fill interp aggr w rows ss result :
    das_call N V view2 (set_lt k d1 d2) xtol c rho ns dt t0 fill interp aggr w rows ss result
    = das_call N V view2 k xtol c rho ns dt t0 fill interp aggr w rows ss result.
  Proof.
    rewrite !das_call_nf.
    change (describe (set_lt k d1 d2) ns interp aggr w rows ss result)
      with (set_lt_dtypes d1 d2 (describe k ns interp aggr w rows ss result)).
    now rewrite plan_lookup_dtype_irrelevant.
  Qed.
End CallProofs.

(* ==========================================================================
   7. objects: what a call reads, allocates, writes *)
Definition wf_heap {D} (h : heap D) : Prop := forall b, (h_next h <= b)%nat -> h_at h b = None.
Lemma some_inj {A} (x y : A) : Some x = Some y -> x = y.
Proof. congruence. Qed.

Section HeapProofs.
  Context {T D : Type} (N : Num T) (V : Data T D).

  Lemma h_alloc_spec (h : heap D) o a h' : wf_heap h -> h_alloc h o = (a, h') ->
    a = h_next h /\ wf_heap h' /\ h_next h' = S (h_next h) /\ h_at h' a = Some o
    /\ forall b, b <> a -> h_at h' b = h_at h b.
  Proof.
    intros Hwf H. unfold h_alloc in H. injection H as <- <-. cbn [h_next h_at].
    repeat split.
    - intros b Hb. cbn [h_next h_at] in *. destruct (Nat.eqb_spec b (h_next h)); [lia|]. apply Hwf. lia.
    - now rewrite Nat.eqb_refl.
    - intros b Hb. destruct (Nat.eqb_spec b (h_next h)); [contradiction|reflexivity].
  Qed.

  Lemma h_set_spec (h : heap D) a o : wf_heap h -> (a < h_next h)%nat ->
    wf_heap (h_set h a o) /\ h_next (h_set h a o) = h_next h /\ h_at (h_set h a o) a = Some o
    /\ forall b, b <> a -> h_at (h_set h a o) b = h_at h b.
  Proof.
    intros Hwf Ha. unfold h_set. cbn [h_next h_at]. repeat split.
    - intros b Hb. cbn [h_next h_at] in *. destruct (Nat.eqb_spec b a); [lia|]. now apply Hwf.
    - now rewrite Nat.eqb_refl.
    - intros b Hb. destruct (Nat.eqb_spec b a); [contradiction|reflexivity].
  Qed.

  Lemma allocated_lt (h : heap D) a o : wf_heap h -> h_at h a = Some o -> (a < h_next h)%nat.
  Proof.
    intros Hwf Ha. destruct (Nat.lt_ge_cases a (h_next h)) as [|Hge]; [assumption|].
    rewrite (Hwf a Hge) in Ha. discriminate.
  Qed.

  (* FocalLaw.weigh_timetraces: without weights the very same object comes back (nothing is allocated);
     with weights a NEW array, and the frame's array is left as it was *)
  Lemma weigh_obj_no_weights (h : heap D) tt a h' :
    weigh_obj V h None tt = Some (a, h') -> a = tt /\ h' = h.
  Proof.
    unfold weigh_obj. destruct (h_at h tt) as [[rows|v]|]; try discriminate.
    intros H. injection H as <- <-. auto.
  Qed.

  Definition scale_rows (rows : list (list D)) (ws : list T) : list (list D) :=
    map (fun rw => map (dscale V (snd rw)) (fst rw)) (combine rows ws).

  Lemma weigh_obj_weights (h : heap D) ws tt a h' : wf_heap h ->
    weigh_obj V h (Some ws) tt = Some (a, h') ->
    exists rows, h_at h tt = Some (Arr2 rows) /\ length ws = length rows
                 /\ a = h_next h /\ a <> tt /\ wf_heap h' /\ h_next h' = S (h_next h)
                 /\ h_at h' a = Some (Arr2 (scale_rows rows ws))
                 /\ forall b, b <> a -> h_at h' b = h_at h b.
  Proof.
    intros Hwf. unfold weigh_obj. destruct (h_at h tt) as [[rows|v]|] eqn:Ht; try discriminate.
    destruct (length ws =? length rows)%nat eqn:El; [|discriminate].
    intros H. apply some_inj in H. apply (h_alloc_spec h _ a h' Hwf) in H.
    destruct H as (-> & Hwf' & Hn & Ha & Hb). exists rows. apply Nat.eqb_eq in El.
    repeat split; auto. pose proof (allocated_lt h tt _ Hwf Ht). lia.
  Qed.

  (* the frame's arrays as the list of timetraces *)
  Lemma weigh_scans tx rx rows ws :
    length tx = length rows -> length rx = length rows -> length ws = length rows ->
    weigh_timetraces V (Some ws) (scans_of tx rx rows) = Some (scans_of tx rx (scale_rows rows ws)).
  Proof.
    intros H1 H2 H3. unfold weigh_timetraces.
    assert (Hl : length (scans_of tx rx rows) = length rows).
    { unfold scans_of. rewrite map_length, !combine_length. lia. }
    rewrite Hl, H3, Nat.eqb_refl. f_equal. unfold scans_of, scale_rows. clear Hl.
    revert tx rx ws H1 H2 H3. induction rows as [|x rows IH]; intros [|t tx] [|r rx] [|w ws] H1 H2 H3;
      try discriminate; [reflexivity|].
    cbn [combine map fst snd s_tx s_rx s_x]. f_equal. apply IH; cbn [length] in *; lia.
  Qed.

  (* one call: every object that existed before and is not the caller's `result` is left untouched — in
     particular frame.timetraces, whether weigh_timetraces aliased it or not; the returned array holds
     the image of the frame's content *)
  Lemma call_obj_spec sc ns dt t0 fill w frows tx rx tt res (h : heap D) r h' rows :
    wf_heap h -> h_at h tt = Some (Arr2 rows) ->
    length tx = length rows -> length rx = length rows ->
    call_obj N V sc ns dt t0 fill w frows tx rx tt res h = Some (r, h') ->
    wf_heap h' /\ r <> tt /\ (h_next h <= h_next h')%nat
    /\ (forall b, b <> r -> (b < h_next h)%nat -> h_at h' b = h_at h b)
    /\ (match res with Some r0 => r = r0 | None => (h_next h <= r)%nat end)
    /\ exists img, das_noamp N V sc ns dt t0 fill w frows (scans_of tx rx rows) = Some img
                   /\ h_at h' r = Some (Arr1 img).
  Proof.
    intros Hwf Htt Htx Hrx. unfold call_obj.
    destruct (weigh_obj V h w tt) as [[wt h1]|] eqn:Hw; [|discriminate].
    assert (Hh1 : wf_heap h1 /\ (h_next h <= h_next h1)%nat /\ h_at h1 tt = Some (Arr2 rows)
                  /\ (forall b, (b < h_next h)%nat -> h_at h1 b = h_at h b)
                  /\ exists wrows, h_at h1 wt = Some (Arr2 wrows)
                       /\ das_noamp N V sc ns dt t0 fill None frows (scans_of tx rx wrows)
                          = das_noamp N V sc ns dt t0 fill w frows (scans_of tx rx rows)).
    { destruct w as [ws|].
      - apply (weigh_obj_weights h ws tt wt h1 Hwf) in Hw.
        destruct Hw as (rows' & Hr' & Hl & -> & Hne & Hwf1 & Hn1 & Ha & Hb).
        rewrite Htt in Hr'. injection Hr' as <-.
        repeat split; auto; try lia.
        + rewrite Hb by auto. exact Htt.
        + intros b Hlt. apply Hb. lia.
        + exists (scale_rows rows ws). split; [exact Ha|].
          unfold das_noamp. rewrite (weigh_scans tx rx rows ws Htx Hrx Hl). reflexivity.
      - apply weigh_obj_no_weights in Hw. destruct Hw as [-> ->].
        repeat split; auto. exists rows. split; [exact Htt|reflexivity]. }
    destruct Hh1 as (Hwf1 & Hn1 & Htt1 & Hsame & wrows & Hwt & Himg).
    rewrite Hwt.
    destruct (das_noamp N V sc ns dt t0 fill None frows (scans_of tx rx wrows)) as [img|] eqn:Hd; [|discriminate].
    assert (Hlen : length img = length frows).
    { unfold das_noamp in Hd. cbn [weigh_timetraces] in Hd.
      destruct sc; injection Hd as <-; unfold k_noamp_nearest, k_noamp_linear, k_noamp_lanczos; apply map_length. }
    destruct res as [r0|].
    - destruct (h_at h1 r0) as [[x|prev]|] eqn:Hr0; try discriminate.
      destruct (length prev =? length frows)%nat eqn:El; [|discriminate]. apply Nat.eqb_eq in El.
      intros H. injection H as <- <-.
      pose proof (allocated_lt h1 r0 _ Hwf1 Hr0) as Hlt.
      destruct (h_set_spec h1 r0 (Arr1 (store (dzero V) prev img)) Hwf1 Hlt) as (Hwf2 & Hn2 & Hat & Hoth).
      conj_split; auto.
      + intros E. subst r0. rewrite Htt1 in Hr0. discriminate.
      + intros b Hb Hlt'. rewrite Hoth by exact Hb. now apply Hsame.
      + exists img. split; [now rewrite <- Himg|]. rewrite Hat, store_full by lia. reflexivity.
    - intros H. apply some_inj in H.
      apply (h_alloc_spec h1 _ r h' Hwf1) in H. destruct H as (-> & Hwf2 & Hn2 & Hat & Hoth).
      pose proof (allocated_lt h tt _ Hwf Htt) as Hlt.
      conj_split; auto; try lia.
      + intros b Hb Hlt'. rewrite Hoth by exact Hb. now apply Hsame.
      + exists img. split; [now rewrite <- Himg|]. rewrite Hat, store_full by now rewrite repeat_length. reflexivity.
  Qed.

  (* a history of calls on the same frame: whatever the earlier calls were (with or without weights, fresh or
     given result), a later call images the frame's original content *)
  Lemma call_obj_history sc1 ns1 dt1 t01 fill1 w1 frows1 res1 sc ns dt t0 fill w frows res
        tx rx tt (h : heap D) r1 h1 r h' rows :
    wf_heap h -> h_at h tt = Some (Arr2 rows) ->
    length tx = length rows -> length rx = length rows ->
    call_obj N V sc1 ns1 dt1 t01 fill1 w1 frows1 tx rx tt res1 h = Some (r1, h1) ->
    call_obj N V sc ns dt t0 fill w frows tx rx tt res h1 = Some (r, h') ->
    h_at h' tt = Some (Arr2 rows)
    /\ exists img, das_noamp N V sc ns dt t0 fill w frows (scans_of tx rx rows) = Some img
                   /\ h_at h' r = Some (Arr1 img).
  Proof.
    intros Hwf Htt Htx Hrx H1 H2.
    pose proof (allocated_lt h tt _ Hwf Htt) as Hlt.
    destruct (call_obj_spec _ _ _ _ _ _ _ _ _ _ _ _ _ _ _ Hwf Htt Htx Hrx H1) as (Hwf1 & Hne1 & Hn1 & Hsame1 & _ & _).
    assert (Htt1 : h_at h1 tt = Some (Arr2 rows)) by (rewrite Hsame1; auto).
    destruct (call_obj_spec _ _ _ _ _ _ _ _ _ _ _ _ _ _ _ Hwf1 Htt1 Htx Hrx H2) as (Hwf2 & Hne2 & Hn2 & Hsame2 & _ & Himg).
    split; [|exact Himg]. rewrite Hsame2; auto. lia.
  Qed.
End HeapProofs.
