(* Proofs/ConfLoadBrainProofs.v — the time axis (Time.from_vect + Time.__init__, the
   instrument_delay shift of frame_from_conf) and the BRAIN loader (_load_probe,
   _load_frame + Frame.__init__ checks) of Model/ConfLoad.v (C20).  Axiom-free. *)
From Coq Require Import List String Bool ZArith Arith Lia Permutation QArith Lqa.
From Arim Require Import Model.Config Model.ConfLoad Proofs.ConfigProofs Proofs.ConfigTimeProofs.
Import ListNotations.
Local Close Scope Q_scope.
Local Open Scope list_scope.

(* ------------------------------------------------------------------ *)
(* booleans on Q                                                       *)
(* ------------------------------------------------------------------ *)
Lemma Qle_bool_false : forall a b, Qle_bool a b = false -> (b < a)%Q.
Proof.
  intros a b H. apply Qnot_le_lt. intros Hle. apply Qle_bool_iff in Hle. congruence.
Qed.

Lemma qabs_cases : forall x, ((0 <= x)%Q /\ qabs x = x) \/ ((x < 0)%Q /\ qabs x = (- x)%Q).
Proof.
  intros x. unfold qabs. destruct (Qle_bool 0 x) eqn:E.
  - left. split; [now apply Qle_bool_iff | reflexivity].
  - right. split; [now apply Qle_bool_false | reflexivity].
Qed.

Lemma qmax_cases : forall a b, ((a <= b)%Q /\ qmax a b = b) \/ ((b < a)%Q /\ qmax a b = a).
Proof.
  intros a b. unfold qmax. destruct (Qle_bool a b) eqn:E.
  - left. split; [now apply Qle_bool_iff | reflexivity].
  - right. split; [now apply Qle_bool_false | reflexivity].
Qed.

Ltac qcases :=
  unfold el_dim;
  repeat match goal with
         | |- context [qabs ?x] =>
             let H := fresh "H" in let E := fresh "E" in
             destruct (qabs_cases x) as [[H E]|[H E]]; rewrite E; clear E
         end;
  repeat match goal with
         | |- context [qmax ?x ?y] =>
             let H := fresh "H" in let E := fresh "E" in
             destruct (qmax_cases x y) as [[H E]|[H E]]; rewrite E; clear E
         end.

(* ------------------------------------------------------------------ *)
(* time axis                                                           *)
(* ------------------------------------------------------------------ *)
Lemma time_init_Some : forall start step n tm,
  time_init start step n = Some tm <-> (0 <= step)%Q /\ tm = (start, step, n).
Proof.
  intros start step n tm. unfold time_init. destruct (Qle_bool 0 step) eqn:E.
  - apply Qle_bool_iff in E. split; [intros [= <-]; now split | intros [_ ->]; reflexivity].
  - apply Qle_bool_false in E. split; [discriminate | intros [H _]; lra].
Qed.

(* a linearly spaced stored vector with a step >= 0 is loaded as Time(t0, step, n) ... *)
Lemma time_of_vect_linspace : forall t0 step n, 2 <= n -> (0 <= step)%Q ->
  exists t0' avg, time_of_vect (linspaceQ t0 step 0 n) = Some (t0', avg, n) /\
                  (t0' == t0)%Q /\ (avg == step)%Q.
Proof.
  intros t0 step n Hn Hs. destruct (time_from_vect_linspace t0 step n Hn) as [t0' [avg [H [H1 H2]]]].
  exists t0', avg. unfold time_of_vect. rewrite H. split; [|now split].
  apply time_init_Some. split; [|reflexivity]. now rewrite H2.
Qed.

(* ... and a DECREASING one is rejected (Time.__init__: 'step' must be positive) *)
Lemma time_of_vect_decreasing : forall t0 step n, 2 <= n -> (step < 0)%Q ->
  time_of_vect (linspaceQ t0 step 0 n) = None.
Proof.
  intros t0 step n Hn Hs. destruct (time_from_vect_linspace t0 step n Hn) as [t0' [avg [H [H1 H2]]]].
  unfold time_of_vect. rewrite H. unfold time_init.
  destruct (Qle_bool 0 avg) eqn:E; [|reflexivity]. apply Qle_bool_iff in E. rewrite H2 in E. lra.
Qed.

(* whatever is accepted: start = the first stored sample exactly, num = the number of
   stored samples, step >= 0 *)
Lemma time_of_vect_sound : forall t t0 dt n, time_of_vect t = Some (t0, dt, n) ->
  n = List.length t /\ (0 <= dt)%Q /\ 2 <= n /\ exists rest, t = t0 :: rest.
Proof.
  intros t t0 dt n H. unfold time_of_vect in H.
  destruct (time_from_vect t) as [[[a b] c]|] eqn:E; [|discriminate].
  apply time_init_Some in H. destruct H as [Hb [= <- <- <-]].
  unfold time_from_vect in E. destruct t as [|x [|y t]]; try discriminate.
  destruct (forallb _ _); [|discriminate]. injection E as <- <- <-.
  repeat split; [exact Hb | cbn; lia | now exists (y :: t)].
Qed.

Lemma Forall2_map_ext : forall (A : Type) (f g : A -> Q) l,
  (forall x, (f x == g x)%Q) -> Forall2 Qeq (map f l) (map g l).
Proof. intros A f g l H. induction l as [|x l IH]; cbn; constructor; auto. Qed.

(* frame_from_conf with frame.instrument_delay: every sample time is shifted by the delay,
   step and number of samples are kept; never rejected for a loaded time axis *)
Lemma shift_time_spec : forall t0 step n delay, (0 <= step)%Q ->
  shift_time (t0, step, n) delay = Some ((t0 - delay)%Q, step, n) /\
  Forall2 Qeq (time_samples ((t0 - delay)%Q, step, n))
              (map (fun t => (t - delay)%Q) (time_samples (t0, step, n))) /\
  List.length (time_samples ((t0 - delay)%Q, step, n)) = n.
Proof.
  intros t0 step n delay Hs. repeat split.
  - unfold shift_time. apply time_init_Some. now split.
  - unfold time_samples, linspaceQ. rewrite map_map. apply Forall2_map_ext. intros k. ring.
  - unfold time_samples, linspaceQ. now rewrite map_length, seq_length.
Qed.

Lemma shift_time_loaded : forall t tm delay, time_of_vect t = Some tm ->
  exists tm', shift_time tm delay = Some tm' /\ snd tm' = snd tm /\ snd (fst tm') = snd (fst tm).
Proof.
  intros t [[t0 dt] n] delay H. apply time_of_vect_sound in H. destruct H as [_ [Hd _]].
  destruct (shift_time_spec t0 dt n delay Hd) as [H _]. eexists. split; [exact H|]. split; reflexivity.
Qed.

(* ------------------------------------------------------------------ *)
(* _load_probe                                                         *)
(* ------------------------------------------------------------------ *)
Lemma el_dim_nonneg : forall c a b, (0 <= el_dim c a b)%Q.
Proof. intros c a b. qcases; lra. Qed.

Lemma el_dim_swap : forall c a b, (el_dim c a b == el_dim c b a)%Q.
Proof. intros c a b. qcases; lra. Qed.

(* an element of width w centred on c: the loaded dimension is w *)
Lemma el_dim_centred : forall c w, (0 <= w)%Q ->
  (el_dim c (c - w * (1 # 2)) (c + w * (1 # 2)) == w)%Q.
Proof. intros c w Hw. qcases; lra. Qed.

(* in general: twice the larger of the two half-widths *)
Lemma el_dim_bounds : forall c a b,
  (2 * (a - c) <= el_dim c a b /\ 2 * (c - a) <= el_dim c a b /\
   2 * (b - c) <= el_dim c a b /\ 2 * (c - b) <= el_dim c a b)%Q /\
  ((el_dim c a b == 2 * (a - c)) \/ (el_dim c a b == 2 * (c - a)) \/
   (el_dim c a b == 2 * (b - c)) \/ (el_dim c a b == 2 * (c - b)))%Q.
Proof.
  intros c a b. qcases; (split; [repeat split; lra|]).
  all: first [left; lra | right; left; lra | right; right; left; lra | right; right; right; lra].
Qed.

Lemma zip3_length : forall (A : Type) (a b c : list A),
  List.length b = List.length a -> List.length c = List.length a ->
  List.length (zip3 a b c) = List.length a.
Proof.
  intros A. induction a as [|x a IH]; intros [|y b] [|z c] Hb Hc; cbn in *; try lia.
  f_equal. apply IH; lia.
Qed.

Lemma zip3_nth : forall (A : Type) (a b c : list A) i da db dc,
  List.length b = List.length a -> List.length c = List.length a -> i < List.length a ->
  nth i (zip3 a b c) (da, db, dc) = (nth i a da, nth i b db, nth i c dc).
Proof.
  intros A. induction a as [|x a IH]; intros [|y b] [|z c] i da db dc Hb Hc Hi; cbn in *; try lia.
  destruct i as [|i]; [reflexivity|]. apply IH; lia.
Qed.

Lemma nth_map_lt : forall (A B : Type) (f : A -> B) l i d d',
  i < List.length l -> nth i (map f l) d' = f (nth i l d).
Proof.
  intros A B f. induction l as [|x l IH]; intros i d d' Hi; cbn in *; [lia|].
  destruct i as [|i]; [reflexivity|]. apply IH. lia.
Qed.

Lemma same_len_spec : forall (A : Type) n (ls : list (list A)),
  same_len n ls = true <-> Forall (fun l => List.length l = n) ls.
Proof.
  intros A n ls. unfold same_len. rewrite forallb_forall, Forall_forall.
  split; intros H l Hl; specialize (H l Hl); now apply Nat.eqb_eq.
Qed.

(* element positions unchanged (element i is (el_xc[i], el_yc[i], el_zc[i])), dimensions
   from the stored corners of the SAME element and the same axis, frequency unchanged *)
Lemma load_probe_spec : forall xc yc zc x1 y1 z1 x2 y2 z2 freq p,
  load_probe xc yc zc x1 y1 z1 x2 y2 z2 freq = Some p ->
  let n := List.length xc in
  2 <= n /\ bp_frequency p = freq /\
  bp_locations p = zip3 xc yc zc /\
  List.length (bp_locations p) = n /\ List.length (bp_dimensions p) = n /\
  forall i, i < n ->
    nth i (bp_locations p) (0, 0, 0)%Q = (nth i xc 0%Q, nth i yc 0%Q, nth i zc 0%Q) /\
    nth i (bp_dimensions p) (0, 0, 0)%Q =
      (el_dim (nth i xc 0%Q) (nth i x1 0%Q) (nth i x2 0%Q),
       el_dim (nth i yc 0%Q) (nth i y1 0%Q) (nth i y2 0%Q),
       el_dim (nth i zc 0%Q) (nth i z1 0%Q) (nth i z2 0%Q)).
Proof.
  intros xc yc zc x1 y1 z1 x2 y2 z2 freq p H. cbn zeta. unfold load_probe in H.
  destruct (Nat.leb 2 (List.length xc)) eqn:En; [|discriminate]. apply Nat.leb_le in En.
  destruct (same_len _ _) eqn:Es; [|discriminate]. cbn [andb] in H. injection H as <-.
  apply same_len_spec in Es.
  repeat match goal with H : Forall _ (_ :: _) |- _ => inversion H; clear H; subst end.
  cbn [bp_frequency bp_locations bp_dimensions].
  assert (Hd : forall c a b : list Q, List.length a = List.length c -> List.length b = List.length c ->
             List.length (map (fun t : Q * Q * Q => let '(c0, a0, b0) := t in el_dim c0 a0 b0) (zip3 c a b))
             = List.length c).
  { intros c a b Ha Hb. rewrite map_length. now apply zip3_length. }
  assert (Hn : forall (c a b : list Q) i, List.length a = List.length c -> List.length b = List.length c ->
             i < List.length c ->
             nth i (map (fun t : Q * Q * Q => let '(c0, a0, b0) := t in el_dim c0 a0 b0) (zip3 c a b)) 0%Q
             = el_dim (nth i c 0%Q) (nth i a 0%Q) (nth i b 0%Q)).
  { intros c a b i Ha Hb Hi.
    rewrite (nth_map_lt _ _ _ _ i (0, 0, 0)%Q) by (rewrite zip3_length; assumption).
    now rewrite zip3_nth. }
  repeat split; try assumption.
  - now apply zip3_length.
  - rewrite zip3_length; rewrite ?Hd; try reflexivity; try congruence.
  - now apply zip3_nth.
  - rewrite zip3_nth; rewrite ?Hd; try congruence.
    rewrite !Hn; try congruence; reflexivity.
Qed.

Lemma load_probe_accepts : forall xc yc zc x1 y1 z1 x2 y2 z2 freq,
  2 <= List.length xc ->
  Forall (fun l => List.length l = List.length xc) [yc; zc; x1; y1; z1; x2; y2; z2] ->
  exists p, load_probe xc yc zc x1 y1 z1 x2 y2 z2 freq = Some p.
Proof.
  intros xc yc zc x1 y1 z1 x2 y2 z2 freq Hn Hl. unfold load_probe.
  apply Nat.leb_le in Hn. rewrite Hn. apply same_len_spec in Hl. rewrite Hl. cbn [andb]. eauto.
Qed.

(* ------------------------------------------------------------------ *)
(* _load_frame + Frame.__init__                                        *)
(* ------------------------------------------------------------------ *)
Lemma nodup_pairs_spec : forall l, nodup_pairs l = true <-> NoDup l.
Proof.
  induction l as [|[a b] l IH]; cbn; [split; [constructor | reflexivity]|].
  rewrite andb_true_iff, negb_true_iff, IH. split.
  - intros [H1 H2]. constructor; [|exact H2]. intros Hin.
    assert (existsb (fun p : Z * Z => (a =? fst p)%Z && (b =? snd p)%Z) l = true); [|congruence].
    apply existsb_exists. exists (a, b). split; [exact Hin|]. cbn. now rewrite !Z.eqb_refl.
  - intros H. inversion H as [|? ? Hn Hnd]; subst. split; [|exact Hnd].
    destruct (existsb _ l) eqn:E; [|reflexivity]. exfalso. apply Hn.
    apply existsb_exists in E. destruct E as [[a' b'] [Hin E]]. cbn in E.
    apply andb_true_iff in E. destruct E as [E1 E2]. apply Z.eqb_eq in E1, E2. now subst.
Qed.

Section BrainFrame.
  Variable V : Type.
  Variable dflt : V.

  (* whatever is accepted is a well-formed frame holding the stored data *)
  Lemma load_frame_sound : forall A time tx rx fr,
    load_frame V A time tx rx = Some fr ->
    bf_timetraces fr = load_timetraces V A /\
    bf_tx fr = load_indices tx /\ bf_rx fr = load_indices rx /\
    time_of_vect time = Some (bf_time fr) /\
    a_cols (bf_timetraces fr) = List.length time /\
    List.length (bf_tx fr) = a_rows (bf_timetraces fr) /\
    List.length (bf_rx fr) = a_rows (bf_timetraces fr) /\
    NoDup (combine (bf_tx fr) (bf_rx fr)).
  Proof.
    intros A time tx rx fr H. unfold load_frame in H.
    destruct (time_of_vect time) as [[[t0 dt] n]|] eqn:Et; [|discriminate].
    destruct (_ && _) eqn:Ec in H; [|discriminate]. injection H as <-.
    repeat (apply andb_true_iff in Ec; destruct Ec as [Ec ?]).
    cbn [bf_timetraces bf_tx bf_rx bf_time].
    apply time_of_vect_sound in Et. destruct Et as [-> _].
    repeat split; try reflexivity.
    - now apply Nat.eqb_eq.
    - now apply Nat.eqb_eq.
    - now apply Nat.eqb_eq.
    - now apply nodup_pairs_spec.
  Qed.

  Lemma combine_map : forall (A B : Type) (f : A -> B) (a b : list A),
    combine (map f a) (map f b) = map (fun p => (f (fst p), f (snd p))) (combine a b).
  Proof. intros A B f. induction a as [|x a IH]; intros [|y b]; cbn; try reflexivity. now rewrite IH. Qed.

  (* end to end, for an array T that load_timetraces turns into N rows of S samples *)
  Lemma load_frame_complete : forall A N S t0 step tx rx,
    a_rows (load_timetraces V A) = N -> a_cols (load_timetraces V A) = S ->
    2 <= N -> 2 <= S -> (0 <= step)%Q ->
    List.length tx = N -> List.length rx = N ->
    Forall (fun s => (1 <= s <= 4294967296)%Z) tx -> Forall (fun s => (1 <= s <= 4294967296)%Z) rx ->
    NoDup (combine tx rx) ->
    exists t0' dt,
      load_frame V A (linspaceQ t0 step 0 S) tx rx =
        Some (mkBrainFrame (load_timetraces V A) (t0', dt, S)
                           (map (fun s => (s - 1)%Z) tx) (map (fun s => (s - 1)%Z) rx)) /\
      (t0' == t0)%Q /\ (dt == step)%Q.
  Proof.
    intros A N S t0 step tx rx Hr Hc HN HS Hs Ltx Lrx Rtx Rrx Hnd.
    destruct (time_of_vect_linspace t0 step S HS Hs) as [t0' [dt [Ht [H1 H2]]]].
    exists t0', dt. split; [|now split]. unfold load_frame. rewrite Ht, Hr, Hc.
    rewrite (load_indices_spec tx Rtx), (load_indices_spec rx Rrx), !map_length, Ltx, Lrx.
    apply Nat.leb_le in HN, HS. rewrite HN, HS, !Nat.eqb_refl. cbn [andb].
    replace (nodup_pairs _) with true; [reflexivity|]. symmetry. apply nodup_pairs_spec.
    rewrite combine_map. apply FinFun.Injective_map_NoDup; [|exact Hnd].
    intros [a b] [a' b'] E. cbn in E. injection E as E1 E2. f_equal; lia.
  Qed.

  (* ... through scipy.io.loadmat (shape (S, N), Fortran order) *)
  Lemma load_frame_scipy : forall N S mem t0 step tx rx,
    2 <= N -> 2 <= S -> (0 <= step)%Q -> List.length tx = N -> List.length rx = N ->
    Forall (fun s => (1 <= s <= 4294967296)%Z) tx -> Forall (fun s => (1 <= s <= 4294967296)%Z) rx ->
    NoDup (combine tx rx) ->
    exists fr t0' dt,
      load_frame V (view_scipy V N S mem) (linspaceQ t0 step 0 S) tx rx = Some fr /\
      a_rows (bf_timetraces fr) = N /\ a_cols (bf_timetraces fr) = S /\
      (forall i j, aget V dflt (bf_timetraces fr) i j = nth (i * S + j) mem dflt) /\
      bf_tx fr = map (fun s => (s - 1)%Z) tx /\ bf_rx fr = map (fun s => (s - 1)%Z) rx /\
      bf_time fr = (t0', dt, S) /\ (t0' == t0)%Q /\ (dt == step)%Q.
  Proof.
    intros N S mem t0 step tx rx HN HS Hs Ltx Lrx Rtx Rrx Hnd.
    destruct (load_scipy V dflt N S mem) as [Hr [Hc Hg]].
    destruct (load_frame_complete (view_scipy V N S mem) N S t0 step tx rx Hr Hc HN HS Hs Ltx Lrx Rtx Rrx Hnd)
      as [t0' [dt [H [H1 H2]]]].
    eexists _, t0', dt. split; [exact H|]. cbn [bf_timetraces bf_tx bf_rx bf_time].
    repeat split; assumption.
  Qed.

  (* ... and through h5py (shape (N, S), C order) *)
  Lemma load_frame_hdf5 : forall N S mem t0 step tx rx,
    2 <= N -> 2 <= S -> (0 <= step)%Q -> List.length tx = N -> List.length rx = N ->
    Forall (fun s => (1 <= s <= 4294967296)%Z) tx -> Forall (fun s => (1 <= s <= 4294967296)%Z) rx ->
    NoDup (combine tx rx) ->
    exists fr t0' dt,
      load_frame V (view_hdf5 V N S mem) (linspaceQ t0 step 0 S) tx rx = Some fr /\
      a_rows (bf_timetraces fr) = N /\ a_cols (bf_timetraces fr) = S /\
      (forall i j, aget V dflt (bf_timetraces fr) i j = nth (i * S + j) mem dflt) /\
      bf_tx fr = map (fun s => (s - 1)%Z) tx /\ bf_rx fr = map (fun s => (s - 1)%Z) rx /\
      bf_time fr = (t0', dt, S) /\ (t0' == t0)%Q /\ (dt == step)%Q.
  Proof.
    intros N S mem t0 step tx rx HN HS Hs Ltx Lrx Rtx Rrx Hnd.
    destruct (load_hdf5 V dflt N S mem HN HS) as [Hr [Hc Hg]].
    destruct (load_frame_complete (view_hdf5 V N S mem) N S t0 step tx rx Hr Hc HN HS Hs Ltx Lrx Rtx Rrx Hnd)
      as [t0' [dt [H [H1 H2]]]].
    eexists _, t0', dt. split; [exact H|]. cbn [bf_timetraces bf_tx bf_rx bf_time].
    repeat split; assumption.
  Qed.

  (* a capture that lists a (tx, rx) pair twice is rejected *)
  Lemma load_frame_duplicate : forall A time tx rx,
    ~ NoDup (combine (load_indices tx) (load_indices rx)) -> load_frame V A time tx rx = None.
  Proof.
    intros A time tx rx H. destruct (load_frame V A time tx rx) as [fr|] eqn:E; [|reflexivity].
    apply load_frame_sound in E. destruct E as [_ [E1 [E2 [_ [_ [_ [_ E]]]]]]].
    rewrite E1, E2 in E. contradiction.
  Qed.
End BrainFrame.
