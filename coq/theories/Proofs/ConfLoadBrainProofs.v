(* Proofs/ConfLoadBrainProofs.v — the time axis (Time.from_vect + Time.__init__, the
   instrument_delay shift of frame_from_conf) and the BRAIN loader (_load_probe,
   _load_frame + Frame.__init__ checks) of Model/ConfLoad.v (C20).  Axiom-free. *)
From Coq Require Import List String Bool ZArith Arith Lia Permutation QArith Lqa.
From Arim Require Import Model.Config Model.ConfLoad Proofs.ConfigProofs Proofs.ConfigTimeProofs.
Import ListNotations.
Local Close Scope Q_scope.
Local Open Scope list_scope.

(* ------------------------------------------------------------------ *)
(* booleans on Q                                                       *)
(* ------------------------------------------------------------------ *)
Lemma Qle_bool_false : forall a b, Qle_bool a b = false -> (b < a)%Q.
Proof.
  intros a b H. apply Qnot_le_lt. intros Hle. apply Qle_bool_iff in Hle. congruence.
Qed.

Lemma qabs_cases : forall x, ((0 <= x)%Q /\ qabs x = x) \/ ((x < 0)%Q /\ qabs x = (- x)%Q).
Proof.
  intros x. unfold qabs. destruct (Qle_bool 0 x) eqn:E.
  - left. split; [now apply Qle_bool_iff | reflexivity].
  - right. split; [now apply Qle_bool_false | reflexivity].
Qed.

Lemma qmax_cases : forall a b, ((a <= b)%Q /\ qmax a b = b) \/ ((b < a)%Q /\ qmax a b = a).
Proof.
  intros a b. unfold qmax. destruct (Qle_bool a b) eqn:E.
  - left. split; [now apply Qle_bool_iff | reflexivity].
  - right. split; [now apply Qle_bool_false | reflexivity].
Qed.

Ltac qcases :=
  unfold el_dim;
  repeat match goal with
         | |- context [qabs ?x] =>
             let H := fresh "H" in let E := fresh "E" in
             destruct (qabs_cases x) as [[H E]|[H E]]; rewrite E; clear E
         end;
  repeat match goal with
         | |- context [qmax ?x ?y] =>
             let H := fresh "H" in let E := fresh "E" in
             destruct (qmax_cases x y) as [[H E]|[H E]]; rewrite E; clear E
         end.

(* ------------------------------------------------------------------ *)
(* time axis                                                           *)
(* ------------------------------------------------------------------ *)
Lemma time_init_Some : forall start step n tm,
  time_init start step n = Some tm <-> (0 <= step)%Q /\ tm = (start, step, n).
Proof.
  intros start step n tm. unfold time_init. destruct (Qle_bool 0 step) eqn:E.
  - apply Qle_bool_iff in E. split; [intros [= <-]; now split | intros [_ ->]; reflexivity].
  - apply Qle_bool_false in E. split; [discriminate | intros [H _]; lra].
Qed.

(* [repair] time_of_vect now answers a `time_outcome`: TimeAxis tm (what used to be Some tm),
   StepNaN t0 for the one-sample vector [t0] (the library builds Time(t0, nan, 1); the model
   used to answer None), TimeRejected (what used to be None, minus the one-sample case). *)
Lemma time_of_vect_from_vect : forall t t0 avg n, time_from_vect t = Some (t0, avg, n) ->
  time_of_vect t = match time_init t0 avg n with Some tm => TimeAxis tm | None => TimeRejected end.
Proof.
  intros t t0 avg n H. destruct t as [|x [|y t]]; try discriminate H.
  unfold time_of_vect. rewrite H. reflexivity.
Qed.

(* a linearly spaced stored vector with a step >= 0 is loaded as Time(t0, step, n) ... *)
Lemma time_of_vect_linspace : forall t0 step n, 2 <= n -> (0 <= step)%Q ->
  exists t0' avg, time_of_vect (linspaceQ t0 step 0 n) = TimeAxis (t0', avg, n) /\
                  (t0' == t0)%Q /\ (avg == step)%Q.
Proof.
  intros t0 step n Hn Hs. destruct (time_from_vect_linspace t0 step n Hn) as [t0' [avg [H [H1 H2]]]].
  exists t0', avg. rewrite (time_of_vect_from_vect _ _ _ _ H). split; [|now split].
  assert (E : time_init t0' avg n = Some (t0', avg, n)).
  { apply time_init_Some. split; [|reflexivity]. now rewrite H2. }
  now rewrite E.
Qed.

(* ... and a DECREASING one is rejected (Time.__init__: 'step' must be positive) *)
Lemma time_of_vect_decreasing : forall t0 step n, 2 <= n -> (step < 0)%Q ->
  time_of_vect (linspaceQ t0 step 0 n) = TimeRejected.
Proof.
  intros t0 step n Hn Hs. destruct (time_from_vect_linspace t0 step n Hn) as [t0' [avg [H [H1 H2]]]].
  rewrite (time_of_vect_from_vect _ _ _ _ H). unfold time_init.
  destruct (Qle_bool 0 avg) eqn:E; [|reflexivity]. apply Qle_bool_iff in E. rewrite H2 in E. lra.
Qed.

(* whatever is accepted with a step that is a number: start = the first stored sample
   exactly, num = the number of stored samples, step >= 0, at least two samples *)
Lemma time_of_vect_sound : forall t t0 dt n, time_of_vect t = TimeAxis (t0, dt, n) ->
  n = List.length t /\ (0 <= dt)%Q /\ 2 <= n /\ exists rest, t = t0 :: rest.
Proof.
  intros t t0 dt n H. destruct t as [|x [|y t]]; try discriminate H.
  unfold time_of_vect in H.
  destruct (time_from_vect (x :: y :: t)) as [[[a b] c]|] eqn:E; [|discriminate].
  destruct (time_init a b c) as [tm|] eqn:Ei; [|discriminate]. injection H as ->.
  apply time_init_Some in Ei. destruct Ei as [Hb [= <- <- <-]].
  unfold time_from_vect in E.
  destruct (forallb _ _); [|discriminate]. injection E as <- <- <-.
  repeat split; [exact Hb | cbn; lia | now exists (y :: t)].
Qed.

(* ONE stored sample: Time(t0, nan, 1) - and this is the only way to get a step that is
   not a number; NO stored sample: rejected (IndexError) *)
Lemma time_of_vect_one : forall t0, time_of_vect [t0] = StepNaN t0.
Proof. reflexivity. Qed.

Lemma time_of_vect_nan_iff : forall t s, time_of_vect t = StepNaN s <-> t = [s].
Proof.
  intros t s. split; [|intros ->; reflexivity].
  intros H. destruct t as [|x [|y t]]; [discriminate H | now injection H as -> |].
  unfold time_of_vect in H. destruct (time_from_vect (x :: y :: t)) as [[[a b] c]|]; [|discriminate].
  destruct (time_init a b c); discriminate.
Qed.

Lemma time_of_vect_nil : time_of_vect [] = TimeRejected.
Proof. reflexivity. Qed.

(* the outcome by the number of stored samples *)
Lemma time_of_vect_by_length : forall t,
  match time_of_vect t with
  | TimeAxis (_, _, n) => 2 <= List.length t /\ n = List.length t
  | StepNaN _ => List.length t = 1
  | TimeRejected => List.length t <> 1
  end.
Proof.
  intros t. destruct (time_of_vect t) as [[[a b] n]|s|] eqn:E.
  - apply time_of_vect_sound in E. destruct E as [-> [_ [H _]]]. now split.
  - apply time_of_vect_nan_iff in E. now subst.
  - intros Hl. destruct t as [|x [|y t]]; try discriminate Hl. discriminate E.
Qed.

Lemma Forall2_map_ext : forall (A : Type) (f g : A -> Q) l,
  (forall x, (f x == g x)%Q) -> Forall2 Qeq (map f l) (map g l).
Proof. intros A f g l H. induction l as [|x l IH]; cbn; constructor; auto. Qed.

(* frame_from_conf with frame.instrument_delay: every sample time is shifted by the delay,
   step and number of samples are kept; never rejected for a loaded time axis *)
Lemma shift_time_spec : forall t0 step n delay, (0 <= step)%Q ->
  shift_time (t0, step, n) delay = Some ((t0 - delay)%Q, step, n) /\
  Forall2 Qeq (time_samples ((t0 - delay)%Q, step, n))
              (map (fun t => (t - delay)%Q) (time_samples (t0, step, n))) /\
  List.length (time_samples ((t0 - delay)%Q, step, n)) = n.
Proof.
  intros t0 step n delay Hs. repeat split.
  - unfold shift_time. apply time_init_Some. now split.
  - unfold time_samples, linspaceQ. rewrite map_map. apply Forall2_map_ext. intros k. ring.
  - unfold time_samples, linspaceQ. now rewrite map_length, seq_length.
Qed.

Lemma shift_time_loaded : forall t tm delay, time_of_vect t = TimeAxis tm ->
  exists tm', shift_time tm delay = Some tm' /\ snd tm' = snd tm /\ snd (fst tm') = snd (fst tm).
Proof.
  intros t [[t0 dt] n] delay H. apply time_of_vect_sound in H. destruct H as [_ [Hd _]].
  destruct (shift_time_spec t0 dt n delay Hd) as [H _]. eexists. split; [exact H|]. split; reflexivity.
Qed.

(* ------------------------------------------------------------------ *)
(* _load_probe                                                         *)
(* ------------------------------------------------------------------ *)
Lemma el_dim_nonneg : forall c a b, (0 <= el_dim c a b)%Q.
Proof. intros c a b. qcases; lra. Qed.

Lemma el_dim_swap : forall c a b, (el_dim c a b == el_dim c b a)%Q.
Proof. intros c a b. qcases; lra. Qed.

(* an element of width w centred on c: the loaded dimension is w *)
Lemma el_dim_centred : forall c w, (0 <= w)%Q ->
  (el_dim c (c - w * (1 # 2)) (c + w * (1 # 2)) == w)%Q.
Proof. intros c w Hw. qcases; lra. Qed.

(* in general: twice the larger of the two half-widths *)
Lemma el_dim_bounds : forall c a b,
  (2 * (a - c) <= el_dim c a b /\ 2 * (c - a) <= el_dim c a b /\
   2 * (b - c) <= el_dim c a b /\ 2 * (c - b) <= el_dim c a b)%Q /\
  ((el_dim c a b == 2 * (a - c)) \/ (el_dim c a b == 2 * (c - a)) \/
   (el_dim c a b == 2 * (b - c)) \/ (el_dim c a b == 2 * (c - b)))%Q.
Proof.
  intros c a b. qcases; (split; [repeat split; lra|]).
  all: first [left; lra | right; left; lra | right; right; left; lra | right; right; right; lra].
Qed.

Lemma zip3_length : forall (A : Type) (a b c : list A),
  List.length b = List.length a -> List.length c = List.length a ->
  List.length (zip3 a b c) = List.length a.
Proof.
  intros A. induction a as [|x a IH]; intros [|y b] [|z c] Hb Hc; cbn in *; try lia.
  f_equal. apply IH; lia.
Qed.

Lemma zip3_nth : forall (A : Type) (a b c : list A) i da db dc,
  List.length b = List.length a -> List.length c = List.length a -> i < List.length a ->
  nth i (zip3 a b c) (da, db, dc) = (nth i a da, nth i b db, nth i c dc).
Proof.
  intros A. induction a as [|x a IH]; intros [|y b] [|z c] i da db dc Hb Hc Hi; cbn in *; try lia.
  destruct i as [|i]; [reflexivity|]. apply IH; lia.
Qed.

Lemma nth_map_lt : forall (A B : Type) (f : A -> B) l i d d',
  i < List.length l -> nth i (map f l) d' = f (nth i l d).
Proof.
  intros A B f. induction l as [|x l IH]; intros i d d' Hi; cbn in *; [lia|].
  destruct i as [|i]; [reflexivity|]. apply IH. lia.
Qed.

Lemma same_len_spec : forall (A : Type) n (ls : list (list A)),
  same_len n ls = true <-> Forall (fun l => List.length l = n) ls.
Proof.
  intros A n ls. unfold same_len. rewrite forallb_forall, Forall_forall.
  split; intros H l Hl; specialize (H l Hl); now apply Nat.eqb_eq.
Qed.

(* [repair] numpy broadcasting of the corner vectors: a corner vector of ONE value is
   accepted and used for every element *)
Lemma nth_repeat_lt : forall (x d : Q) n i, i < n -> nth i (repeat x n) d = x.
Proof.
  intros x d. induction n as [|n IH]; intros i Hi; [lia|].
  destruct i as [|i]; cbn; [reflexivity | apply IH; lia].
Qed.

Lemma bget_full : forall l i, List.length l <> 1 -> bget l i = nth i l 0%Q.
Proof. intros [|x [|y l]] i H; cbn in *; try reflexivity. congruence. Qed.

Lemma bget_one : forall x i, bget [x] i = x.
Proof. reflexivity. Qed.

Lemma bcast_Some_iff : forall n l,
  (exists l', bcast n l = Some l') <-> List.length l = n \/ List.length l = 1.
Proof.
  intros n l. unfold bcast. destruct (Nat.eqb_spec (List.length l) n) as [E|E].
  - split; [now left | eauto].
  - destruct l as [|x [|y l]]; cbn in *.
    + split; [intros [l' H]; discriminate | intros [H|H]; [congruence | discriminate]].
    + split; [now right | eauto].
    + split; [intros [l' H]; discriminate | intros [H|H]; [congruence | discriminate]].
Qed.

Lemma bcast_spec : forall n l l', n <> 1 -> bcast n l = Some l' ->
  List.length l' = n /\ forall i, i < n -> nth i l' 0%Q = bget l i.
Proof.
  intros n l l' Hn H. unfold bcast in H. destruct (Nat.eqb_spec (List.length l) n) as [E|E].
  - injection H as <-. split; [exact E|]. intros i _. symmetry. apply bget_full. congruence.
  - destruct l as [|x [|y l]]; try discriminate H. injection H as <-.
    split; [apply repeat_length|]. intros i Hi. now rewrite nth_repeat_lt.
Qed.

Lemma el_dims_Some_iff : forall c p1 p2,
  (exists d, el_dims c p1 p2 = Some d) <->
  (List.length p1 = List.length c \/ List.length p1 = 1) /\
  (List.length p2 = List.length c \/ List.length p2 = 1).
Proof.
  intros c p1 p2. rewrite <- !bcast_Some_iff. unfold el_dims.
  destruct (bcast (List.length c) p1) as [a|], (bcast (List.length c) p2) as [b|]; split.
  all: try (intros [d H]; discriminate H).
  all: try (intros [[a' Ha] [b' Hb]]; discriminate).
  - intros _. eauto.
  - intros _. eauto.
Qed.

Lemma el_dims_spec : forall c p1 p2 d, List.length c <> 1 -> el_dims c p1 p2 = Some d ->
  List.length d = List.length c /\
  forall i, i < List.length c -> nth i d 0%Q = el_dim (nth i c 0%Q) (bget p1 i) (bget p2 i).
Proof.
  intros c p1 p2 d Hn H. unfold el_dims in H.
  destruct (bcast (List.length c) p1) as [a|] eqn:Ea; [|discriminate].
  destruct (bcast (List.length c) p2) as [b|] eqn:Eb; [|discriminate]. injection H as <-.
  destruct (bcast_spec _ _ _ Hn Ea) as [La Na]. destruct (bcast_spec _ _ _ Hn Eb) as [Lb Nb].
  split.
  - rewrite map_length. now apply zip3_length.
  - intros i Hi. rewrite (nth_map_lt _ _ _ _ i (0, 0, 0)%Q) by (rewrite zip3_length; assumption).
    rewrite zip3_nth by assumption. now rewrite Na, Nb.
Qed.

(* element positions unchanged (element i is (el_xc[i], el_yc[i], el_zc[i])), dimensions
   from the stored corners of the SAME element and the same axis (bget: entry i of the
   stored corner vector, or its single entry when it has one), frequency unchanged.
   [repair: the conclusion `2 <= n` became `n <> 1` (the library accepts empty vectors: a
   probe without elements) and `nth i x1 0` became `bget x1 i`; see load_probe_spec_full for
   the old statement] *)
Lemma load_probe_spec : forall xc yc zc x1 y1 z1 x2 y2 z2 freq p,
  load_probe xc yc zc x1 y1 z1 x2 y2 z2 freq = Some p ->
  let n := List.length xc in
  n <> 1 /\ bp_frequency p = freq /\
  bp_locations p = zip3 xc yc zc /\
  List.length (bp_locations p) = n /\ List.length (bp_dimensions p) = n /\
  forall i, i < n ->
    nth i (bp_locations p) (0, 0, 0)%Q = (nth i xc 0%Q, nth i yc 0%Q, nth i zc 0%Q) /\
    nth i (bp_dimensions p) (0, 0, 0)%Q =
      (el_dim (nth i xc 0%Q) (bget x1 i) (bget x2 i),
       el_dim (nth i yc 0%Q) (bget y1 i) (bget y2 i),
       el_dim (nth i zc 0%Q) (bget z1 i) (bget z2 i)).
Proof.
  intros xc yc zc x1 y1 z1 x2 y2 z2 freq p H. cbn zeta. unfold load_probe in H.
  destruct (Nat.eqb_spec (List.length xc) 1) as [En|En]; [discriminate|]. cbn [negb andb] in H.
  destruct (same_len _ _) eqn:Es; [|discriminate].
  apply same_len_spec in Es.
  repeat match goal with H : Forall _ (_ :: _) |- _ => inversion H; clear H; subst end.
  destruct (el_dims xc x1 x2) as [dx|] eqn:Ex; [|discriminate].
  destruct (el_dims yc y1 y2) as [dy|] eqn:Ey; [|discriminate].
  destruct (el_dims zc z1 z2) as [dz|] eqn:Ez; [|discriminate]. injection H as <-.
  cbn [bp_frequency bp_locations bp_dimensions].
  destruct (el_dims_spec _ _ _ _ En Ex) as [Lx Nx].
  assert (Eny : List.length yc <> 1) by congruence.
  assert (Enz : List.length zc <> 1) by congruence.
  destruct (el_dims_spec _ _ _ _ Eny Ey) as [Ly Ny].
  destruct (el_dims_spec _ _ _ _ Enz Ez) as [Lz Nz].
  repeat split; try assumption.
  - now apply zip3_length.
  - rewrite zip3_length; congruence.
  - now apply zip3_nth.
  - rewrite zip3_nth by congruence.
    rewrite Nx by assumption. rewrite Ny by congruence. rewrite Nz by congruence. reflexivity.
Qed.

(* the statement as it was before the repair: when the nine vectors all have n values (no
   broadcasting), entry i of the dimensions comes from entry i of each corner vector *)
Lemma load_probe_spec_full : forall xc yc zc x1 y1 z1 x2 y2 z2 freq p,
  load_probe xc yc zc x1 y1 z1 x2 y2 z2 freq = Some p ->
  Forall (fun l => List.length l = List.length xc) [x1; y1; z1; x2; y2; z2] ->
  forall i, i < List.length xc ->
    nth i (bp_dimensions p) (0, 0, 0)%Q =
      (el_dim (nth i xc 0%Q) (nth i x1 0%Q) (nth i x2 0%Q),
       el_dim (nth i yc 0%Q) (nth i y1 0%Q) (nth i y2 0%Q),
       el_dim (nth i zc 0%Q) (nth i z1 0%Q) (nth i z2 0%Q)).
Proof.
  intros xc yc zc x1 y1 z1 x2 y2 z2 freq p H Hl i Hi.
  destruct (load_probe_spec _ _ _ _ _ _ _ _ _ _ _ H) as [Hn [_ [_ [_ [_ Hd]]]]].
  destruct (Hd i Hi) as [_ ->].
  repeat match goal with H : Forall _ (_ :: _) |- _ => inversion H; clear H; subst end.
  rewrite !bget_full by congruence. reflexivity.
Qed.

(* exactly when the nine vectors are accepted *)
Lemma load_probe_accepts_iff : forall xc yc zc x1 y1 z1 x2 y2 z2 freq,
  (exists p, load_probe xc yc zc x1 y1 z1 x2 y2 z2 freq = Some p) <->
  List.length xc <> 1 /\
  Forall (fun l => List.length l = List.length xc) [yc; zc] /\
  Forall (fun l => List.length l = List.length xc \/ List.length l = 1) [x1; y1; z1; x2; y2; z2].
Proof.
  intros xc yc zc x1 y1 z1 x2 y2 z2 freq. unfold load_probe.
  destruct (Nat.eqb_spec (List.length xc) 1) as [En|En]; cbn [negb andb].
  { split; [intros [p H]; discriminate | intros [H _]; contradiction]. }
  destruct (same_len (List.length xc) [yc; zc]) eqn:Es.
  2: { split; [intros [p H]; discriminate|]. intros [_ [H _]]. apply same_len_spec in H. congruence. }
  apply same_len_spec in Es. pose proof Es as Es'.
  inversion Es' as [|? ? Ly Es'']; subst. inversion Es'' as [|? ? Lz _]; subst.
  pose proof (el_dims_Some_iff xc x1 x2) as Ix. pose proof (el_dims_Some_iff yc y1 y2) as Iy.
  pose proof (el_dims_Some_iff zc z1 z2) as Iz. rewrite Ly in Iy. rewrite Lz in Iz.
  split.
  - intros [p H].
    destruct (el_dims xc x1 x2) as [dx|]; [|discriminate].
    destruct (el_dims yc y1 y2) as [dy|]; [|discriminate].
    destruct (el_dims zc z1 z2) as [dz|]; [|discriminate].
    destruct (proj1 Ix (ex_intro _ dx eq_refl)) as [X1 X2].
    destruct (proj1 Iy (ex_intro _ dy eq_refl)) as [Y1 Y2].
    destruct (proj1 Iz (ex_intro _ dz eq_refl)) as [Z1 Z2].
    split; [exact En|]. split; [exact Es|]. repeat (apply Forall_cons; [assumption|]). apply Forall_nil.
  - intros [_ [_ Hc]].
    repeat match goal with H : Forall _ (_ :: _) |- _ => inversion H; clear H; subst end.
    destruct (proj2 Ix) as [dx ->]; [now split|].
    destruct (proj2 Iy) as [dy ->]; [now split|].
    destruct (proj2 Iz) as [dz ->]; [now split|]. eauto.
Qed.

(* [repair: `2 <= n` relaxed to `n <> 1`, each corner vector may have ONE value] *)
Lemma load_probe_accepts : forall xc yc zc x1 y1 z1 x2 y2 z2 freq,
  List.length xc <> 1 ->
  Forall (fun l => List.length l = List.length xc) [yc; zc] ->
  Forall (fun l => List.length l = List.length xc \/ List.length l = 1) [x1; y1; z1; x2; y2; z2] ->
  exists p, load_probe xc yc zc x1 y1 z1 x2 y2 z2 freq = Some p.
Proof. intros. apply load_probe_accepts_iff. now repeat split. Qed.

(* a one-element array (all nine vectors of length 1) is rejected, and so is a centre
   vector of one value among longer ones *)
Lemma load_probe_one_centre_rejected : forall xc yc zc x1 y1 z1 x2 y2 z2 freq,
  List.length xc = 1 \/ List.length yc <> List.length xc \/ List.length zc <> List.length xc ->
  load_probe xc yc zc x1 y1 z1 x2 y2 z2 freq = None.
Proof.
  intros xc yc zc x1 y1 z1 x2 y2 z2 freq H.
  destruct (load_probe xc yc zc x1 y1 z1 x2 y2 z2 freq) as [p|] eqn:E; [|reflexivity]. exfalso.
  destruct (proj1 (load_probe_accepts_iff xc yc zc x1 y1 z1 x2 y2 z2 freq) (ex_intro _ p E)) as [H1 [H2 _]].
  inversion H2 as [|? ? Ly H3]; subst. inversion H3 as [|? ? Lz _]; subst.
  destruct H as [H|[H|H]]; contradiction.
Qed.

(* ------------------------------------------------------------------ *)
(* _load_frame + Frame.__init__                                        *)
(* ------------------------------------------------------------------ *)
Lemma nodup_pairs_spec : forall l, nodup_pairs l = true <-> NoDup l.
Proof.
  induction l as [|[a b] l IH]; cbn; [split; [constructor | reflexivity]|].
  rewrite andb_true_iff, negb_true_iff, IH. split.
  - intros [H1 H2]. constructor; [|exact H2]. intros Hin.
    assert (existsb (fun p : Z * Z => (a =? fst p)%Z && (b =? snd p)%Z) l = true); [|congruence].
    apply existsb_exists. exists (a, b). split; [exact Hin|]. cbn. now rewrite !Z.eqb_refl.
  - intros H. inversion H as [|? ? Hn Hnd]; subst. split; [|exact Hnd].
    destruct (existsb _ l) eqn:E; [|reflexivity]. exfalso. apply Hn.
    apply existsb_exists in E. destruct E as [[a' b'] [Hin E]]. cbn in E.
    apply andb_true_iff in E. destruct E as [E1 E2]. apply Z.eqb_eq in E1, E2. now subst.
Qed.

Section BrainFrame.
  Variable V : Type.
  Variable dflt : V.

  (* whatever is accepted is a well-formed frame holding the stored data *)
  Lemma load_frame_sound : forall A time tx rx fr,
    load_frame V A time tx rx = Some fr ->
    bf_timetraces fr = load_timetraces V A /\
    bf_tx fr = load_indices tx /\ bf_rx fr = load_indices rx /\
    time_of_vect time = TimeAxis (bf_time fr) /\
    a_cols (bf_timetraces fr) = List.length time /\
    List.length (bf_tx fr) = a_rows (bf_timetraces fr) /\
    List.length (bf_rx fr) = a_rows (bf_timetraces fr) /\
    NoDup (combine (bf_tx fr) (bf_rx fr)).
  Proof.
    intros A time tx rx fr H. unfold load_frame in H.
    destruct (time_of_vect time) as [[[t0 dt] n]|s|] eqn:Et; [|discriminate|discriminate].
    destruct (_ && _) eqn:Ec in H; [|discriminate]. injection H as <-.
    repeat (apply andb_true_iff in Ec; destruct Ec as [Ec ?]).
    cbn [bf_timetraces bf_tx bf_rx bf_time].
    apply time_of_vect_sound in Et. destruct Et as [-> _].
    repeat split; try reflexivity.
    - now apply Nat.eqb_eq.
    - now apply Nat.eqb_eq.
    - now apply Nat.eqb_eq.
    - now apply nodup_pairs_spec.
  Qed.

  Lemma combine_map : forall (A B : Type) (f : A -> B) (a b : list A),
    combine (map f a) (map f b) = map (fun p => (f (fst p), f (snd p))) (combine a b).
  Proof. intros A B f. induction a as [|x a IH]; intros [|y b]; cbn; try reflexivity. now rewrite IH. Qed.

  (* end to end, for an array T that load_timetraces turns into N rows of S samples *)
  Lemma load_frame_complete : forall A N S t0 step tx rx,
    a_rows (load_timetraces V A) = N -> a_cols (load_timetraces V A) = S ->
    2 <= N -> 2 <= S -> (0 <= step)%Q ->
    List.length tx = N -> List.length rx = N ->
    Forall (fun s => (1 <= s <= 4294967296)%Z) tx -> Forall (fun s => (1 <= s <= 4294967296)%Z) rx ->
    NoDup (combine tx rx) ->
    exists t0' dt,
      load_frame V A (linspaceQ t0 step 0 S) tx rx =
        Some (mkBrainFrame (load_timetraces V A) (t0', dt, S)
                           (map (fun s => (s - 1)%Z) tx) (map (fun s => (s - 1)%Z) rx)) /\
      (t0' == t0)%Q /\ (dt == step)%Q.
  Proof.
    intros A N S t0 step tx rx Hr Hc HN HS Hs Ltx Lrx Rtx Rrx Hnd.
    destruct (time_of_vect_linspace t0 step S HS Hs) as [t0' [dt [Ht [H1 H2]]]].
    exists t0', dt. split; [|now split]. unfold load_frame. rewrite Ht, Hr, Hc.
    rewrite (load_indices_spec tx Rtx), (load_indices_spec rx Rrx), !map_length, Ltx, Lrx.
    apply Nat.leb_le in HN, HS. rewrite HN, HS, !Nat.eqb_refl. cbn [andb].
    replace (nodup_pairs _) with true; [reflexivity|]. symmetry. apply nodup_pairs_spec.
    rewrite combine_map. apply FinFun.Injective_map_NoDup; [|exact Hnd].
    intros [a b] [a' b'] E. cbn in E. injection E as E1 E2. f_equal; lia.
  Qed.

  (* ... through scipy.io.loadmat (shape (S, N), Fortran order) *)
  Lemma load_frame_scipy : forall N S mem t0 step tx rx,
    2 <= N -> 2 <= S -> (0 <= step)%Q -> List.length tx = N -> List.length rx = N ->
    Forall (fun s => (1 <= s <= 4294967296)%Z) tx -> Forall (fun s => (1 <= s <= 4294967296)%Z) rx ->
    NoDup (combine tx rx) ->
    exists fr t0' dt,
      load_frame V (view_scipy V N S mem) (linspaceQ t0 step 0 S) tx rx = Some fr /\
      a_rows (bf_timetraces fr) = N /\ a_cols (bf_timetraces fr) = S /\
      (forall i j, aget V dflt (bf_timetraces fr) i j = nth (i * S + j) mem dflt) /\
      bf_tx fr = map (fun s => (s - 1)%Z) tx /\ bf_rx fr = map (fun s => (s - 1)%Z) rx /\
      bf_time fr = (t0', dt, S) /\ (t0' == t0)%Q /\ (dt == step)%Q.
  Proof.
    intros N S mem t0 step tx rx HN HS Hs Ltx Lrx Rtx Rrx Hnd.
    destruct (load_scipy V dflt N S mem) as [Hr [Hc Hg]].
    destruct (load_frame_complete (view_scipy V N S mem) N S t0 step tx rx Hr Hc HN HS Hs Ltx Lrx Rtx Rrx Hnd)
      as [t0' [dt [H [H1 H2]]]].
    eexists _, t0', dt. split; [exact H|]. cbn [bf_timetraces bf_tx bf_rx bf_time].
    repeat split; assumption.
  Qed.

  (* ... and through h5py (shape (N, S), C order) *)
  Lemma load_frame_hdf5 : forall N S mem t0 step tx rx,
    2 <= N -> 2 <= S -> (0 <= step)%Q -> List.length tx = N -> List.length rx = N ->
    Forall (fun s => (1 <= s <= 4294967296)%Z) tx -> Forall (fun s => (1 <= s <= 4294967296)%Z) rx ->
    NoDup (combine tx rx) ->
    exists fr t0' dt,
      load_frame V (view_hdf5 V N S mem) (linspaceQ t0 step 0 S) tx rx = Some fr /\
      a_rows (bf_timetraces fr) = N /\ a_cols (bf_timetraces fr) = S /\
      (forall i j, aget V dflt (bf_timetraces fr) i j = nth (i * S + j) mem dflt) /\
      bf_tx fr = map (fun s => (s - 1)%Z) tx /\ bf_rx fr = map (fun s => (s - 1)%Z) rx /\
      bf_time fr = (t0', dt, S) /\ (t0' == t0)%Q /\ (dt == step)%Q.
  Proof.
    intros N S mem t0 step tx rx HN HS Hs Ltx Lrx Rtx Rrx Hnd.
    destruct (load_hdf5 V dflt N S mem HN HS) as [Hr [Hc Hg]].
    destruct (load_frame_complete (view_hdf5 V N S mem) N S t0 step tx rx Hr Hc HN HS Hs Ltx Lrx Rtx Rrx Hnd)
      as [t0' [dt [H [H1 H2]]]].
    eexists _, t0', dt. split; [exact H|]. cbn [bf_timetraces bf_tx bf_rx bf_time].
    repeat split; assumption.
  Qed.

  (* a capture that lists a (tx, rx) pair twice is rejected *)
  Lemma load_frame_duplicate : forall A time tx rx,
    ~ NoDup (combine (load_indices tx) (load_indices rx)) -> load_frame V A time tx rx = None.
  Proof.
    intros A time tx rx H. destruct (load_frame V A time tx rx) as [fr|] eqn:E; [|reflexivity].
    apply load_frame_sound in E. destruct E as [_ [E1 [E2 [_ [_ [_ [_ E]]]]]]].
    rewrite E1, E2 in E. contradiction.
  Qed.
End BrainFrame.
