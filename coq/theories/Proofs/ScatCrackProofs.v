(* Proofs/ScatCrackProofs.v — the crack-centre scatterer of Model/Scat.v at the real-number
   instance: symmetry of the assembled Galerkin matrices, symmetry of the bilinear form
   u^T A^-1 v defined through an exact solver, closed forms of the four kernel outputs in
   terms of that bilinear form, and from them exchange symmetry, reciprocity and periodicity.
   Oracles: the quadrature values a_0..a_{N-1} (arbitrary complex numbers) and the two
   solvers (hypothesis exact_solve). *)
From Coq Require Import ZArith List Bool String Reals Lia Lra.
From Arim Require Import Base.Num Base.NumR Model.Scat Proofs.ScatProofs.
Import ListNotations.

(* ------------------------------------------------------------------------------------ *)
(* the assembled matrix is the symmetric Toeplitz matrix of the table                    *)
(* ------------------------------------------------------------------------------------ *)
Section Galerkin.
  Context {T : Type}.
  Lemma galerkin_toeplitz : forall nn (a : Z -> @cx T) i j, (0 <= i < nn)%Z -> (0 <= j < nn)%Z ->
    galerkin_matrix nn a i j = a (Z.abs (i - j)).
  Proof.
    intros nn a i j Hi Hj. unfold galerkin_matrix, I12, m_ind.
    destruct (Z.ltb_spec (nn - 1 + i - j) (nn - 1)); f_equal; lia.
  Qed.

  Lemma galerkin_symmetric : forall nn (a : Z -> @cx T) i j, (0 <= i < nn)%Z -> (0 <= j < nn)%Z ->
    galerkin_matrix nn a i j = galerkin_matrix nn a j i.
  Proof.
    intros nn a i j Hi Hj. rewrite !galerkin_toeplitz by assumption. f_equal. lia.
  Qed.
End Galerkin.

Local Open Scope R_scope.

(* ------------------------------------------------------------------------------------ *)
(* u^T A^-1 v is symmetric when A is and the solver is exact (any size)                  *)
(* ------------------------------------------------------------------------------------ *)
Lemma cdot_ext_r : forall n (u v v' : Z -> Cx),
  (forall k, (k < n)%nat -> v (Z.of_nat k) = v' (Z.of_nat k)) -> cdot NumR n u v = cdot NumR n u v'.
Proof. intros n u v v' H. unfold cdot. apply csum_ext. intros k Hk. rewrite H by exact Hk. reflexivity. Qed.

Lemma cdot_scale_r : forall n (u v : Z -> Cx) c,
  cdot NumR n u (fun m => c *r v m) = c *r cdot NumR n u v.
Proof.
  intros n u v c. unfold cdot. rewrite <- csum_rscale. apply csum_ext. intros k _. apply rscale_cmul_r.
Qed.

Lemma bilinear_symmetric : forall n (A : Z -> Z -> Cx) solve,
  symmetric_matrix n A -> exact_solve NumR n A solve ->
  forall u v : Z -> Cx, cdot NumR n (solve u) v = cdot NumR n (solve v) u.
Proof.
  intros n A solve Hsym Hsolve u v.
  set (x := solve u). set (y := solve v).
  assert (Hx : forall i, (0 <= i < Z.of_nat n)%Z -> matvec NumR n A x i = u i) by (intros; apply Hsolve; assumption).
  assert (Hy : forall i, (0 <= i < Z.of_nat n)%Z -> matvec NumR n A y i = v i) by (intros; apply Hsolve; assumption).
  unfold cdot.
  transitivity (csum_upto NumR (fun i => csum_upto NumR (fun j => x i *c (A i j *c y j)) n) n).
  { apply csum_ext. intros k Hk. rewrite <- Hy by lia. unfold matvec. symmetry. apply csum_cmul_l. }
  rewrite csum_switch.
  apply csum_ext. intros k Hk. rewrite <- Hx by lia. unfold matvec.
  rewrite <- csum_cmul_l. apply csum_ext. intros l Hl.
  rewrite (Hsym (Z.of_nat l) (Z.of_nat k)) by lia. cx_ring.
Qed.

(* ------------------------------------------------------------------------------------ *)
(* real-number facts used by the prefactors                                               *)
(* ------------------------------------------------------------------------------------ *)
Lemma pow52_R : forall x, 0 < x -> exp (5 / 2 * ln x) = x * x * sqrt x.
Proof.
  intros x Hx.
  assert (Hs : 0 < sqrt x) by (apply sqrt_lt_R0; exact Hx).
  assert (Hl : ln x = ln (sqrt x) + ln (sqrt x)).
  { rewrite <- ln_mult by exact Hs. rewrite sqrt_sqrt by lra. reflexivity. }
  replace (5 / 2 * ln x) with (ln x + ln x + ln (sqrt x)) by lra.
  rewrite !exp_plus, !exp_ln by assumption. reflexivity.
Qed.

(* k^(5/2) / sqrt(lambda) with k = 2 pi f / v, lambda = v / f *)
Lemma pref_over_sqrt : forall f v, 0 < f -> 0 < v ->
  exp (5 / 2 * ln (2 * PI * f / v)) / sqrt (v / f)
  = (2 * PI * f / v) * (2 * PI * f / v) * (sqrt (2 * PI) * (f / v)).
Proof.
  intros f v Hf Hv. assert (Hpi := PI_RGT_0).
  assert (Hk : 0 < 2 * PI * f / v).
  { apply Rdiv_lt_0_compat; [|exact Hv]. apply Rmult_lt_0_compat; lra. }
  assert (Hlam : 0 < v / f) by (apply Rdiv_lt_0_compat; assumption).
  assert (Hfv : 0 < f / v) by (apply Rdiv_lt_0_compat; assumption).
  rewrite pow52_R by exact Hk.
  assert (E : sqrt (2 * PI * f / v) = sqrt (2 * PI) * (f / v) * sqrt (v / f)).
  { replace (2 * PI * f / v) with ((2 * PI) * ((f / v) * (f / v)) * (v / f)) by (field; split; lra).
    rewrite sqrt_mult_alt by (apply Rmult_le_pos; [lra | apply Rmult_le_pos; lra]).
    rewrite sqrt_mult_alt by lra. rewrite sqrt_square by lra. reflexivity. }
  rewrite E. field. split; [lra | apply Rgt_not_eq; apply sqrt_lt_R0; exact Hlam].
Qed.

(* ------------------------------------------------------------------------------------ *)
(* the kernel                                                                            *)
(* ------------------------------------------------------------------------------------ *)
Section CrackProofs.
  Variable p : crack_params (T := R).
  Variables ax az : Z -> Cx.     (* quadrature values of A_x, A_z *)
  Let n := cp_nn p.
  Let vL := cp_vL p.
  Let vT := cp_vT p.
  Hypothesis Hx : exact_solve NumR n (galerkin_matrix (Z.of_nat n) ax) (cp_solve_x p).
  Hypothesis Hz : exact_solve NumR n (galerkin_matrix (Z.of_nat n) az) (cp_solve_z p).

  Lemma gal_sym : forall a : Z -> Cx, symmetric_matrix n (galerkin_matrix (Z.of_nat n) a).
  Proof. intros a i j Hi Hj. apply galerkin_symmetric; assumption. Qed.

  (* the four bilinear quantities *)
  Definition Bx (u v : Z -> Cx) : Cx := cdot NumR n (cp_solve_x p u) v.
  Definition Bz (u v : Z -> Cx) : Cx := cdot NumR n (cp_solve_z p u) v.

  Lemma Bx_sym : forall u v, Bx u v = Bx v u.
  Proof. intros. apply (bilinear_symmetric n _ _ (gal_sym ax) Hx). Qed.
  Lemma Bz_sym : forall u v, Bz u v = Bz v u.
  Proof. intros. apply (bilinear_symmetric n _ _ (gal_sym az) Hz). Qed.

  (* the projection vector of the scattered wave is the right-hand side of the incident wave *)
  Lemma c_out_b_inc : forall k phi m, c_out NumR p k phi m = b_inc NumR p k phi m.
  Proof.
    intros k phi m. unfold c_out, b_inc, sv0. rewrite cmulr_rscale.
    cbn [nmul nopp nsin ncos NumR]. f_equal; [f_equal; ring | unfold cis; cbn [nsin ncos NumR]; f_equal; f_equal; ring].
  Qed.

  Lemma dot_c_out : forall (u : Z -> Cx) k phi rr,
    rr *r cdot NumR n u (c_out NumR p k phi) = cdot NumR n u (fun m => rr *r b_inc NumR p k phi m).
  Proof.
    intros u k phi rr. rewrite cdot_scale_r. f_equal. apply cdot_ext_r. intros j _. apply c_out_b_inc.
  Qed.

  (* form_L / form_T are linear in (v0, v1) with real coefficients *)
  Lemma form_L_lin : forall (a X Zz : Cx) s c,
    form_L NumR p (a *c X) (a *c Zz) s c
    = a *c (((2 * lame_mu NumR p / rhodw2 NumR p) * s * c) *r X
            +c ((lame_lambda NumR p / rhodw2 NumR p) + (2 * lame_mu NumR p / rhodw2 NumR p) * c * c) *r Zz).
  Proof.
    intros a X Zz s c. unfold form_L, dot2, rdot2.
    set (la := ndiv NumR (lame_lambda NumR p) (rhodw2 NumR p)).
    set (mu2 := ndiv NumR (nmul NumR (nofZ NumR 2) (lame_mu NumR p)) (rhodw2 NumR p)).
    change (lame_lambda NumR p / rhodw2 NumR p) with la.
    change (2 * lame_mu NumR p / rhodw2 NumR p) with mu2.
    clearbody la mu2. cx_unfold. cbn [nofZ NumR]. apply injective_projections; cbn [fst snd]; ring.
  Qed.

  Lemma form_T_lin : forall (a X Zz : Cx) s c,
    form_T NumR (a *c X) (a *c Zz) s c = a *c ((c * c - s * s) *r X +c (- (2 * s * c)) *r Zz).
  Proof.
    intros a X Zz s c. unfold form_T, dot2, rdot2. cx_unfold. cbn [nofZ NumR].
    apply injective_projections; cbn [fst snd]; ring.
  Qed.

  (* coefficients: scattered side = -(mu / (rho omega^2)) * incident side (needs sin^2 + cos^2 = 1) *)
  Definition kappa : R := - (lame_mu NumR p / rhodw2 NumR p).

  Lemma coef_L_x : forall phi,
    (2 * lame_mu NumR p / rhodw2 NumR p) * sin phi * cos phi = kappa * rx_L NumR phi.
  Proof.
    intros phi. unfold kappa, rx_L, sv0, sv1. cbn [nmul nopp nofZ nsin ncos NumR]. unfold Rdiv. ring.
  Qed.

  Lemma coef_L_z : forall phi, vL <> 0 -> vT <> 0 ->
    (lame_lambda NumR p / rhodw2 NumR p) + (2 * lame_mu NumR p / rhodw2 NumR p) * cos phi * cos phi
    = kappa * rz_L NumR p phi.
  Proof.
    intros phi HL HT. unfold kappa, rz_L, sv0, xi, lame_lambda, lame_mu.
    fold vL vT. cbn [nmul nopp nsub ndiv nofZ nsin ncos NumR].
    unfold Rdiv. set (iR := / rhodw2 NumR p). clearbody iR.
    assert (Hc : cos phi * cos phi = 1 - sin phi * sin phi).
    { pose proof (sin2_cos2 phi) as E. unfold Rsqr in E. lra. }
    replace (2 * (cp_density p * (vT * vT)) * iR * cos phi * cos phi)
      with (2 * (cp_density p * (vT * vT)) * iR * (cos phi * cos phi)) by ring.
    rewrite Hc. field. split; assumption.
  Qed.

  Lemma coef_T_x : forall phi, cos phi * cos phi - sin phi * sin phi = (-1) * rx_T NumR phi.
  Proof. intros. unfold rx_T, sv0, sv1. cbn [nmul nopp nadd nofZ nsin ncos NumR]. ring. Qed.
  Lemma coef_T_z : forall phi, - (2 * sin phi * cos phi) = (-1) * rz_T NumR phi.
  Proof. intros. unfold rz_T, sv0, sv1. cbn [nmul nopp nadd nofZ nsin ncos NumR]. ring. Qed.

  (* closed forms of the four outputs *)
  Definition KL : Cx -> Cx -> Cx := fun a D =>
    cdivr NumR (crack_pref NumR (xi1 NumR p) *c (a *c (kappa *r D))) (sqrt (lambda_L NumR p)).
  Definition KT : Cx -> Cx -> Cx := fun a D =>
    cdivr NumR (cdivr NumR (cmulr NumR (crack_pref NumR (xi2 NumR p)) (lame_mu NumR p)) (rhodw2 NumR p)
                *c (a *c ((-1) *r D))) (sqrt (lambda_T NumR p)).

  Lemma crack_LL_form : forall a b, vL <> 0 -> vT <> 0 ->
    crack_LL NumR p a b
    = KL (a_L NumR p) (Bx (bx_L NumR p a) (bx_L NumR p b) +c Bz (bz_L NumR p a) (bz_L NumR p b)).
  Proof.
    intros a b HL HT. unfold crack_LL, amp_L, KL. cbn zeta. cbn [nsin ncos nsqrt NumR].
    rewrite form_L_lin. rewrite coef_L_x, (coef_L_z b HL HT).
    rewrite <- !rscale_rscale. rewrite !dot_c_out. rewrite <- rscale_add. reflexivity.
  Qed.

  Lemma crack_TL_form : forall a b, vL <> 0 -> vT <> 0 ->
    crack_TL NumR p a b
    = copp NumR (KL (a_T NumR p) (Bx (bx_T NumR p a) (bx_L NumR p b) +c Bz (bz_T NumR p a) (bz_L NumR p b))).
  Proof.
    intros a b HL HT. unfold crack_TL, amp_L, KL. cbn zeta. cbn [nsin ncos nsqrt NumR].
    rewrite form_L_lin. rewrite coef_L_x, (coef_L_z b HL HT).
    rewrite <- !rscale_rscale. rewrite !dot_c_out. rewrite <- rscale_add. reflexivity.
  Qed.

  Lemma crack_LT_form : forall a b,
    crack_LT NumR p a b
    = KT (a_L NumR p) (Bx (bx_L NumR p a) (bx_T NumR p b) +c Bz (bz_L NumR p a) (bz_T NumR p b)).
  Proof.
    intros a b. unfold crack_LT, amp_T, KT. cbn zeta. cbn [nsin ncos nsqrt NumR].
    rewrite form_T_lin. rewrite coef_T_x, coef_T_z.
    rewrite <- !rscale_rscale. rewrite !dot_c_out. rewrite <- rscale_add. reflexivity.
  Qed.

  Lemma crack_TT_form : forall a b,
    crack_TT NumR p a b
    = copp NumR (KT (a_T NumR p) (Bx (bx_T NumR p a) (bx_T NumR p b) +c Bz (bz_T NumR p a) (bz_T NumR p b))).
  Proof.
    intros a b. unfold crack_TT, amp_T, KT. cbn zeta. cbn [nsin ncos nsqrt NumR].
    rewrite form_T_lin. rewrite coef_T_x, coef_T_z.
    rewrite <- !rscale_rscale. rewrite !dot_c_out. rewrite <- rscale_add. reflexivity.
  Qed.

  (* exchange symmetry *)
  Lemma crack_LL_sym : forall a b, vL <> 0 -> vT <> 0 -> crack_LL NumR p a b = crack_LL NumR p b a.
  Proof.
    intros a b HL HT. rewrite !crack_LL_form by assumption.
    rewrite (Bx_sym (bx_L NumR p a)), (Bz_sym (bz_L NumR p a)). reflexivity.
  Qed.

  Lemma crack_TT_sym : forall a b, crack_TT NumR p a b = crack_TT NumR p b a.
  Proof.
    intros a b. rewrite !crack_TT_form.
    rewrite (Bx_sym (bx_T NumR p a)), (Bz_sym (bz_T NumR p a)). reflexivity.
  Qed.

  (* reciprocity of the mode-converted outputs *)
  Lemma crack_reciprocal : forall a b, 0 < vL -> 0 < vT -> 0 < cp_frequency p ->
    (vT * vT) *r crack_LT NumR p a b = copp NumR ((vL * vL) *r crack_TL NumR p b a).
  Proof.
    intros a b HL HT Hf.
    rewrite crack_LT_form, crack_TL_form by lra.
    rewrite (Bx_sym (bx_T NumR p b)), (Bz_sym (bz_T NumR p b)).
    set (D := Bx (bx_L NumR p a) (bx_T NumR p b) +c Bz (bz_L NumR p a) (bz_T NumR p b)).
    unfold KT, KL, crack_pref, a_L, a_T, a_inc.
    set (E := rscale NumR (ndiv NumR (nofZ NumR 1) (nofZ NumR 4) * nsqrt NumR (ndiv NumR (nofZ NumR 2) (npi NumR)))
                (cis NumR (nopp NumR (ndiv NumR (npi NumR) (nofZ NumR 4))))).
    unfold kappa.
    pose proof (pref_over_sqrt (cp_frequency p) vL Hf HL) as PL.
    pose proof (pref_over_sqrt (cp_frequency p) vT Hf HT) as PT.
    assert (Hpi := PI_RGT_0).
    assert (HsL : sqrt (vL / cp_frequency p) <> 0).
    { apply Rgt_not_eq, sqrt_lt_R0, Rdiv_lt_0_compat; assumption. }
    assert (HsT : sqrt (vT / cp_frequency p) <> 0).
    { apply Rgt_not_eq, sqrt_lt_R0, Rdiv_lt_0_compat; assumption. }
    (* powers over square roots in closed form *)
    assert (QL : pow52 NumR (xi1 NumR p) * / sqrt (lambda_L NumR p)
                 = (2 * PI * cp_frequency p / vL) * (2 * PI * cp_frequency p / vL) * (sqrt (2 * PI) * (cp_frequency p / vL))).
    { unfold pow52, xi1, lambda_L. fold vL. cbn [nmul ndiv nexp nln nofZ npi NumR]. exact PL. }
    assert (QT : pow52 NumR (xi2 NumR p) * / sqrt (lambda_T NumR p)
                 = (2 * PI * cp_frequency p / vT) * (2 * PI * cp_frequency p / vT) * (sqrt (2 * PI) * (cp_frequency p / vT))).
    { unfold pow52, xi2, lambda_T. fold vT. cbn [nmul ndiv nexp nln nofZ npi NumR]. exact PT. }
    assert (X1 : xi1 NumR p = 2 * PI * cp_frequency p / vL) by reflexivity.
    assert (X2 : xi2 NumR p = 2 * PI * cp_frequency p / vT) by reflexivity.
    set (pL := pow52 NumR (xi1 NumR p)) in *. set (pT := pow52 NumR (xi2 NumR p)) in *.
    set (sL := sqrt (lambda_L NumR p)) in *. set (sT := sqrt (lambda_T NumR p)) in *.
    set (mu := lame_mu NumR p). set (iR := rhodw2 NumR p).
    set (k1 := xi1 NumR p) in *. set (k2 := xi2 NumR p) in *.
    clearbody pL pT sL sT mu iR k1 k2 E D.
    cbn [nmul npi NumR].
    (* every real scalar becomes an rscale and is moved to the front *)
    rewrite !cmulr_rscale, !cdivr_rscale, !copp_rscale.
    rewrite ?rscale_cmul_l, ?rscale_cmul_r, ?rscale_rscale.
    rewrite ?rscale_cmul_l, ?rscale_cmul_r, ?rscale_rscale.
    rewrite ?rscale_cmul_l, ?rscale_cmul_r, ?rscale_rscale.
    f_equal.
    set (c4 := ndiv NumR (nofZ NumR 1) (nofZ NumR 4) * nsqrt NumR (ndiv NumR (nofZ NumR 2) PI)). clearbody c4.
    transitivity ((vT * vT) * (pT * / sT) * k1 * (c4 * mu * / iR * (PI * / (k2 * k2)))); [unfold Rdiv; ring|].
    transitivity ((vL * vL) * (pL * / sL) * k2 * (c4 * mu * / iR * (PI * / (k2 * k2)))); [|unfold Rdiv; ring].
    set (w := c4 * mu * / iR * (PI * / (k2 * k2))). clearbody w.
    rewrite QL, QT, X1, X2. field. split; apply Rgt_not_eq; assumption.
  Qed.

  (* periodicity: the kernel sees the angles only through their sines and cosines *)
  Lemma crack_trig_only : forall a a' b b',
    sin a = sin a' -> cos a = cos a' -> sin b = sin b' -> cos b = cos b' ->
    crack_LL NumR p a b = crack_LL NumR p a' b' /\ crack_LT NumR p a b = crack_LT NumR p a' b' /\
    crack_TL NumR p a b = crack_TL NumR p a' b' /\ crack_TT NumR p a b = crack_TT NumR p a' b'.
  Proof.
    intros a a' b b' Hsa Hca Hsb Hcb.
    unfold crack_LL, crack_LT, crack_TL, crack_TT, bx_L, bz_L, bx_T, bz_T, rx_L, rz_L, rx_T, rz_T,
      b_inc, c_out, sv0, sv1.
    cbn [nsin ncos NumR]. rewrite Hsa, Hca, Hsb, Hcb. repeat split; reflexivity.
  Qed.

  Lemma crack_periodic_all : forall a b (k l : Z),
    crack_LL NumR p (a + 2 * PI * IZR k) (b + 2 * PI * IZR l) = crack_LL NumR p a b /\
    crack_LT NumR p (a + 2 * PI * IZR k) (b + 2 * PI * IZR l) = crack_LT NumR p a b /\
    crack_TL NumR p (a + 2 * PI * IZR k) (b + 2 * PI * IZR l) = crack_TL NumR p a b /\
    crack_TT NumR p (a + 2 * PI * IZR k) (b + 2 * PI * IZR l) = crack_TT NumR p a b.
  Proof.
    intros a b k l. apply crack_trig_only; first [apply sin_period_Z | apply cos_period_Z].
  Qed.
End CrackProofs.

(* the optimised driver agrees with the general one under its documented assumption
   (the incident angle is constant along each column) *)
Lemma driver_optimised_eq_general : forall (kern : R -> R -> Cx) (inc out : Z -> Z -> R) (j i : Z),
  inc j i = inc 0%Z i -> driver_optimised kern inc out j i = driver_general kern inc out j i.
Proof. intros kern inc out j i H. unfold driver_optimised, driver_general. rewrite H. reflexivity. Qed.
