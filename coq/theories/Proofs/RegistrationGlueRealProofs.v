(* Proofs/RegistrationGlueRealProofs.v — front-wall registration (C19), the glue over the
   reals: numpy's argmax and np.abs (real / complex samples), flat rows, closed-form window
   indices on the uniform time grid, Time.closest_index, the Probe OBJECT through
   reset_position + move, order / garbage independence of the whole function. *)
From Coq Require Import Reals ZArith List Bool Lra Lia Permutation.
From Flocq Require Import Core.Raux.
From Arim Require Import Base.Num Base.NumR Model.Vec3 Proofs.Vec3Proofs Model.Probe Proofs.ProbeProofs
  Model.Registration Proofs.RegistrationProofs Proofs.RegistrationTimeProofs
  Model.RegistrationGlue Proofs.RegistrationGlueProofs.
Import ListNotations.

(* ---- list facts (before R_scope) --------------------------------------------------------- *)
Lemma slice_map {A B} (f : A -> B) (i j : nat) (l : list A) : slice i j (map f l) = map f (slice i j l).
Proof. unfold slice. rewrite skipn_map, firstn_map. reflexivity. Qed.

Lemma combine_map_r {A B C} (h : B -> C) : forall (l : list A) (l' : list B),
  combine l (map h l') = map (fun p => (fst p, h (snd p))) (combine l l').
Proof.
  induction l as [| a l IH]; intro l'; [reflexivity|]. destruct l' as [| b l']; [reflexivity|].
  cbn [map combine fst snd]. rewrite IH. reflexivity.
Qed.

Lemma all_some_total {A B} (f : A -> option B) (d : B) : forall (l : list A) (r : list B),
  all_some (map f l) = Some r -> r = map (fun a => match f a with Some b => b | None => d end) l.
Proof.
  induction l as [| a l IH]; intros r H; cbn [map all_some] in H.
  - injection H as <-. reflexivity.
  - destruct (f a) as [b |] eqn:Ea; [|discriminate].
    destruct (all_some (map f l)) as [r' |] eqn:Er; [|discriminate]. injection H as <-.
    cbn [map]. rewrite Ea, (IH r' eq_refl). reflexivity.
Qed.

Lemma nth_map_lt {A B} (f : A -> B) (l : list A) (j : nat) (d : B) (d' : A) :
  (j < length l)%nat -> nth j (map f l) d = f (nth j l d').
Proof.
  intro H. rewrite (nth_indep _ d (f d')) by (rewrite map_length; exact H). apply map_nth.
Qed.

Lemma threshold_unique (n k k' : nat) (P : nat -> Prop) :
  (k <= n)%nat -> (k' <= n)%nat ->
  (forall i, (i < n)%nat -> ((i < k)%nat <-> P i)) -> (forall i, (i < n)%nat -> ((i < k')%nat <-> P i)) -> k = k'.
Proof.
  intros Hk Hk' H H'. destruct (lt_eq_lt_dec k k') as [[Hlt | Heq] | Hgt]; [| exact Heq |]; exfalso.
  - assert (k < n)%nat as Hn by lia. assert (k < k)%nat; [| lia]. apply (H k Hn), (H' k Hn). exact Hlt.
  - assert (k' < n)%nat as Hn by lia. assert (k' < k')%nat; [| lia]. apply (H' k' Hn), (H k' Hn). exact Hgt.
Qed.

Local Open Scope R_scope.

(* ---- numpy argmax: without NaN it is the first maximum ---------------------------------- *)
Lemma isnan_R (v : R) : isnan NumR v = false.
Proof. unfold isnan. cbn [neqb NumR]. rewrite Req_bool_true; reflexivity. Qed.

Lemma argmax_np_from_R l : forall best bi i,
  argmax_np_from NumR best bi i l = argmax_from NumR best bi i l.
Proof.
  induction l as [| v l IH]; intros best bi i; cbn [argmax_np_from argmax_from]; [reflexivity|].
  rewrite isnan_R. cbn [nleb nltb NumR].
  destruct (Rle_bool_spec v best), (Rlt_bool_spec best v); try lra; cbn [negb]; apply IH.
Qed.

Lemma argmax_np_R l : argmax_np NumR l = argmax_first NumR l.
Proof.
  destruct l as [| v l]; [reflexivity|]. cbn [argmax_np argmax_first]. rewrite isnan_R, argmax_np_from_R. reflexivity.
Qed.

(* ---- np.abs on real or complex samples ---------------------------------------------------- *)
Lemma cabs_nonneg (s : R * R) : 0 <= cabs NumR s.
Proof. unfold cabs. cbn [nsqrt NumR]. apply sqrt_pos. Qed.

Lemma detect_trace_np_mag {A} (mag : A -> R) samples i j (row : list A) :
  (forall a, 0 <= mag a) ->
  detect_trace_np NumR mag samples i j row = detect_trace NumR samples i j (map mag row).
Proof.
  intro H. unfold detect_trace_np, detect_trace. rewrite argmax_np_R, slice_map, map_map.
  rewrite (map_ext (fun a => nabs NumR (mag a)) mag); [reflexivity|].
  intro a. rewrite RegistrationProofs.nabs_R. apply Rabs_right, Rle_ge, H.
Qed.

(* detection on samples of any type = the real-valued detection on their magnitudes *)
Lemma detect_surface_np_mag {A} (mag : A -> R) samples (rows : list (list A)) tmin tmax :
  (forall a, 0 <= mag a) ->
  detect_surface_np NumR mag samples rows tmin tmax
  = detect_surface NumR samples (map (map mag) rows) tmin tmax.
Proof.
  intro H. unfold detect_surface_np, detect_surface. cbv zeta.
  destruct (slice _ _ samples); [reflexivity|]. rewrite map_map. f_equal. apply map_ext.
  intro row. apply detect_trace_np_mag. exact H.
Qed.

(* real samples: np.abs = |.|; the NaN-aware argmax is the model of Model/Registration.v *)
Lemma detect_surface_np_real samples rows tmin tmax :
  detect_surface_np NumR (nabs NumR) samples rows tmin tmax = detect_surface NumR samples rows tmin tmax.
Proof.
  unfold detect_surface_np, detect_surface. cbv zeta. destruct (slice _ _ samples); [reflexivity|].
  f_equal. apply map_ext. intro row. unfold detect_trace_np, detect_trace. rewrite argmax_np_R. reflexivity.
Qed.

Lemma detect_surface_np_complex samples (rows : list (list (R * R))) tmin tmax :
  detect_surface_np NumR (cabs NumR) samples rows tmin tmax
  = detect_surface NumR samples (map (map (cabs NumR)) rows) tmin tmax.
Proof. apply detect_surface_np_mag. exact cabs_nonneg. Qed.

(* ---- flat rows: every |sample| of the window equal (all-zero rows, clipped rows) ---------- *)
Lemma detect_trace_flat samples imin imax row :
  length row = length samples -> (imax <= length samples)%nat -> (imin < imax)%nat ->
  (forall j, (imin <= j < imax)%nat -> Rabs (nth j row 0) = Rabs (nth imin row 0)) ->
  detect_trace NumR samples imin imax row = Some (nth imin samples 0).
Proof.
  intros HL Hmax Hlt Hflat. apply detect_trace_complete; try assumption; try lia.
  intros j Hj. rewrite (Hflat j Hj). lra.
Qed.

Lemma detect_trace_zero samples imin imax row :
  length row = length samples -> (imax <= length samples)%nat -> (imin < imax)%nat ->
  (forall j, (imin <= j < imax)%nat -> nth j row 0 = 0) ->
  detect_trace NumR samples imin imax row = Some (nth imin samples 0).
Proof.
  intros HL Hmax Hlt Hz. apply detect_trace_flat; try assumption.
  intros j Hj. rewrite (Hz j Hj), (Hz imin ltac:(lia)). reflexivity.
Qed.

(* ---- the uniform time grid: closed-form searchsorted indices ------------------------------- *)
Definition lo_index (start step : R) (num : Z) (v : R) : Z :=
  Z.max 0 (Z.min num (Zceil ((v - start) / step))).
Definition hi_index (start step : R) (num : Z) (v : R) : Z :=
  Z.max 0 (Z.min num (Zfloor ((v - start) / step) + 1)).

Lemma grid_lt start step v (i : nat) : 0 < step ->
  (INR i * step + start < v <-> (Z.of_nat i < Zceil ((v - start) / step))%Z).
Proof.
  intro Hs. set (x := (v - start) / step).
  assert (x * step = v - start) as Ex by (unfold x; field; lra).
  rewrite INR_IZR_INZ. split; intro H.
  - apply lt_IZR. apply Rlt_le_trans with x; [| apply Zceil_ub].
    apply Rmult_lt_reg_r with step; [exact Hs | lra].
  - destruct (Rlt_le_dec (IZR (Z.of_nat i)) x) as [Hlt | Hge].
    + apply (Rmult_lt_compat_r step) in Hlt; [lra | exact Hs].
    + apply Zceil_glb in Hge. lia.
Qed.

Lemma grid_le start step v (i : nat) : 0 < step ->
  (INR i * step + start <= v <-> (Z.of_nat i < Zfloor ((v - start) / step) + 1)%Z).
Proof.
  intro Hs. set (x := (v - start) / step).
  assert (x * step = v - start) as Ex by (unfold x; field; lra).
  rewrite INR_IZR_INZ. split; intro H.
  - assert (IZR (Z.of_nat i) <= x) as Hle.
    { apply Rmult_le_reg_r with step; [exact Hs | lra]. }
    apply Zfloor_lub in Hle. lia.
  - assert (IZR (Z.of_nat i) <= x) as Hle.
    { apply Rle_trans with (IZR (Zfloor x)); [apply IZR_le; lia | apply Zfloor_lb]. }
    apply (Rmult_le_compat_r step) in Hle; lra.
Qed.

Lemma ss_left_uniform start step num v : 0 < step ->
  ss_left NumR (time_samples NumR start step num) v = Z.to_nat (lo_index start step num v).
Proof.
  intro Hs. set (l := time_samples NumR start step num).
  assert (length l = Z.to_nat num) as EL by apply time_samples_length.
  apply (threshold_unique (length l) _ _ (fun i => nth i l 0 < v)).
  - apply ss_left_le_length.
  - rewrite EL. unfold lo_index. lia.
  - intros i Hi. apply ss_left_spec; [apply time_samples_sorted; lra | exact Hi].
  - intros i Hi. rewrite EL in Hi. unfold l. rewrite time_samples_nth by exact Hi.
    rewrite (grid_lt start step v i Hs). unfold lo_index. lia.
Qed.

Lemma ss_right_uniform start step num v : 0 < step ->
  ss_right NumR (time_samples NumR start step num) v = Z.to_nat (hi_index start step num v).
Proof.
  intro Hs. set (l := time_samples NumR start step num).
  assert (length l = Z.to_nat num) as EL by apply time_samples_length.
  apply (threshold_unique (length l) _ _ (fun i => nth i l 0 <= v)).
  - apply ss_right_le_length.
  - rewrite EL. unfold hi_index. lia.
  - intros i Hi. apply ss_right_spec; [apply time_samples_sorted; lra | exact Hi].
  - intros i Hi. rewrite EL in Hi. unfold l. rewrite time_samples_nth by exact Hi.
    rewrite (grid_le start step v i Hs). unfold hi_index. lia.
Qed.

(* Time.window on Time(start, step, num), all four endpoint conventions and None bounds *)
Lemma window_uniform start step num tmin tmax endl endr : 0 < step ->
  window NumR (time_samples NumR start step num) tmin tmax endl endr
  = (match tmin with
     | None => O
     | Some v => Z.to_nat (if endl then lo_index start step num v else hi_index start step num v)
     end,
     match tmax with
     | None => Z.to_nat num
     | Some v => Z.to_nat (if endr then hi_index start step num v else lo_index start step num v)
     end).
Proof.
  intro Hs. unfold window. rewrite time_samples_length.
  destruct tmin as [a |], tmax as [b |], endl, endr;
    rewrite ?(ss_left_uniform _ _ _ _ Hs), ?(ss_right_uniform _ _ _ _ Hs); reflexivity.
Qed.

(* the returned times are grid points start + k * step with lo <= k < hi *)
Lemma detect_surface_uniform start step num rows tmin tmax times : 0 < step ->
  (forall row, In row rows -> length row = Z.to_nat num) ->
  detect_surface NumR (time_samples NumR start step num) rows tmin tmax = Some times ->
  forall r, (r < length rows)%nat ->
    exists k : nat,
      (match tmin with None => 0 | Some v => lo_index start step num v end <= Z.of_nat k
       < match tmax with None => Z.max 0 num | Some v => hi_index start step num v end)%Z /\
      nth r times 0 = INR k * step + start.
Proof.
  intros Hs Hrows Hdet r Hr. set (samples := time_samples NumR start step num) in *.
  assert (length samples = Z.to_nat num) as EL by apply time_samples_length.
  assert (sorted samples) as Hsorted by (apply time_samples_sorted; lra).
  assert (forall row, In row rows -> length row = length samples) as Hrows' by (intros; rewrite EL; auto).
  destruct (detect_surface_spec samples rows tmin tmax times Hsorted Hrows' Hdet) as [_ Hspec].
  destruct (Hspec r Hr) as [i [Hi [Ht [Hw _]]]].
  apply (window_spec_R samples tmin tmax true true Hsorted i Hi) in Hw.
  unfold samples in Hw. rewrite (window_uniform _ _ _ _ _ _ _ Hs) in Hw. cbn [fst snd] in Hw.
  exists i. split.
  - rewrite EL in Hi. unfold lo_index, hi_index in *. destruct tmin, tmax; lia.
  - rewrite Ht. unfold samples. apply time_samples_nth. rewrite <- EL. exact Hi.
Qed.

(* ---- Time.closest_index ------------------------------------------------------------------------ *)
Lemma closest_index_spec samples t r : closest_index NumR samples t = Some r ->
  (r < length samples)%nat /\
  (forall j, (j < length samples)%nat -> Rabs (nth r samples 0 - t) <= Rabs (nth j samples 0 - t)) /\
  (forall j, (j < r)%nat -> Rabs (nth r samples 0 - t) < Rabs (nth j samples 0 - t)).
Proof.
  unfold closest_index. intro H. apply argmax_first_spec in H. rewrite map_length in H.
  destruct H as [Hr [Hmax Hfirst]].
  assert (forall j, (j < length samples)%nat ->
            nth j (map (fun s => nopp NumR (nabs NumR (nsub NumR s t))) samples) 0 = - Rabs (nth j samples 0 - t)) as E.
  { intros j Hj. rewrite (nth_map_lt _ samples j 0 0 Hj), RegistrationProofs.nabs_R. reflexivity. }
  split; [exact Hr|]. split.
  - intros j Hj. specialize (Hmax j Hj). rewrite (E j Hj), (E r Hr) in Hmax. lra.
  - intros j Hj. specialize (Hfirst j Hj). rewrite (E j ltac:(lia)), (E r Hr) in Hfirst. lra.
Qed.

Lemma closest_index_none samples t : closest_index NumR samples t = None <-> samples = [].
Proof.
  unfold closest_index. rewrite argmax_first_none. split; [apply map_eq_nil | intros ->; reflexivity].
Qed.

(* ---- the Probe object --------------------------------------------------------------------------- *)
Definition csys_of (c : CS (T:=R)) : csys (T:=R) := mkCS (fst (fst c)) (snd (fst c)) (snd c).

(* the probe as reset_position leaves it: elements on their PCS coordinates, normals on their
   PCS components, PCS = GCS *)
Definition reset_probe (p : probeR) : probeR :=
  mkProbe (locations_pcs NumR p)
          (option_map (map (mvec NumR (cs_axes NumR (p_pcs p)))) (p_oris p))
          (Probe.gcs NumR).

Lemma cs_of_gcs : cs_of (Probe.gcs NumR) = Registration.gcs NumR.
Proof. reflexivity. Qed.

Lemma rotation_y_cols th : cols_orthonormal NumR (rotation_matrix_y NumR th).
Proof. destruct (rotation_matrix_y_proper th) as [[_ Hc] _]. exact Hc. Qed.

Lemma frame_ok_rotated (M : mat) (c : csys) (o : vec) : cols_orthonormal NumR M -> frame_ok c ->
  frame_ok (mkCS o (mvec NumR M (cs_i c)) (mvec NumR M (cs_j c))).
Proof.
  intros HM (Hi & Hj & Hij). unfold frame_ok. cbn [cs_i cs_j]. repeat split; try (apply mvec_unit; assumption).
  rewrite mvec_dot by exact HM. exact Hij.
Qed.

(* step V on the object = the motion of Model/Registration.v on the raw coordinates; the normals
   turn with the probe; no CoordinateSystem setter raises *)
Lemma move_object_R (p : probeR) (th z : R) : frame_ok (p_pcs p) ->
  exists q, p_rotate NumR (rotation_matrix_y NumR th) None p = Some q /\
    p_translate NumR (0, 0, z) q
    = Some (mkProbe (map (fun x => v3add NumR (rot_y NumR th x) (0, 0, z)) (p_locs p))
                    (option_map (map (mvec NumR (rotation_matrix_y NumR th))) (p_oris p))
                    (csys_of (Registration.cs_translate NumR (0, 0, z) (cs_rot_y NumR th (cs_of (p_pcs p)))))).
Proof.
  intro Hf. pose proof (rotation_y_cols th) as HM.
  unfold p_rotate. rewrite (cs_rotate_R _ _ None HM Hf). eexists. split; [reflexivity|].
  unfold p_translate. cbn [p_pcs p_locs p_oris].
  rewrite cs_translate_R by (apply frame_ok_rotated; assumption). cbn [cs_o cs_i cs_j].
  f_equal. destruct p as [locs oris [o i j]]. cbn [p_locs p_oris p_pcs cs_o cs_i cs_j cs_of]. f_equal.
  - rewrite map_map. apply map_ext. intros [[x y] w].
    unfold v3add, rot_y, rotate_pt, rotation_matrix_y, rot_y_cs, Registration.vx, Registration.vy, Registration.vz.
    v3_unfold. cbn [fst snd nsin ncos NumR]. v3_split; ring.
  - unfold csys_of, cs_of, Registration.cs_translate, cs_rot_y, v3add, v3sub, rot_y, rotate_pt, rotation_matrix_y, rot_y_cs,
      Registration.vx, Registration.vy, Registration.vz.
    destruct o as [[ox oy] oz], i as [[ix iy] iz], j as [[jx jy] jz].
    clear. v3_unfold. cbn [cs_of cs_o cs_i cs_j fst snd nsin ncos NumR]. f_equal; v3_split; ring.
Qed.

(* (model repair: the hypothesis on the flags used to read `length dead = length (p_locs p)`;
   the empty vector, which numpy accepts as boolean index of any vector, is now covered) *)
Lemma move_probe_obj_R fit (p : probeR) dead tx rx ds :
  frame_ok (p_pcs p) -> length dead = length (p_locs p) \/ dead = [] -> length tx = length rx ->
  move_probe_obj NumR fit p dead tx rx ds =
  match move_probe NumR fit (cs_of (p_pcs p)) tx rx dead (p_locs p) ds with
  | inl e => MvRaised e
  | inr r => MvOk (mkProbe (mr_locs r)
                           (option_map (map (mvec NumR (rotation_matrix_y NumR (mr_theta r)))) (p_oris p))
                           (csys_of (mr_pcs r)))
                  (mr_z_o r) (mr_theta r)
  end.
Proof.
  intros Hf Hd Hl. rewrite (move_probe_fit_pose NumR fit _ tx rx dead _ ds Hd Hl). unfold move_probe_obj.
  destruct (fit_pose NumR fit (cs_of (p_pcs p)) tx rx dead (p_locs p) ds) as [e | [z th]]; cbn [pose_result]; [reflexivity|].
  destruct (move_object_R p th z Hf) as (q & E1 & E2). cbn [n0 NumR]. rewrite E1, E2. reflexivity.
Qed.

(* find_probe_loc_from_frontwall on the objects = find_probe_loc of Model/Registration.v applied to
   the PCS coordinates, for a probe in ANY pose *)
Lemma frontwall_obj_R {A} (mag : A -> R) fit (p : probeR) dead start step num (rows : list (list A)) tx rx c tmin tmax :
  (forall a, 0 <= mag a) -> frame_ok (p_pcs p) -> length dead = length (p_locs p) \/ dead = [] -> length tx = length rx ->
  frontwall_obj NumR mag fit p dead start step num rows tx rx c tmin tmax =
  match find_probe_loc NumR fit start step num (map (map mag) rows) tx rx dead (locations_pcs NumR p) c tmin tmax with
  | inl e => FwRaised (reset_probe p) e
  | inr (r, times) =>
      FwOk (mkProbe (mr_locs r)
                    (option_map (map (mvec NumR (rotation_matrix_y NumR (mr_theta r)))) (p_oris (reset_probe p)))
                    (csys_of (mr_pcs r)))
           (mr_z_o r) (mr_theta r) times
  end.
Proof.
  intros Hmag Hf Hd Hl. unfold frontwall_obj, find_probe_loc. rewrite (p_reset_R p Hf). fold (reset_probe p).
  rewrite (detect_surface_np_mag mag _ rows tmin tmax Hmag).
  destruct (detect_surface NumR _ _ tmin tmax) as [times |]; [|reflexivity].
  rewrite move_probe_obj_R.
  - cbn [reset_probe p_pcs p_locs]. rewrite cs_of_gcs.
    destruct (move_probe NumR fit _ tx rx dead _ _); reflexivity.
  - exact gcs_frame_ok.
  - cbn [reset_probe p_locs]. unfold locations_pcs. rewrite map_length. exact Hd.
  - exact Hl.
Qed.

(* over the reals no CoordinateSystem setter ever raises, for a probe with an orthonormal PCS *)
Lemma frontwall_obj_no_cs_error {A} (mag : A -> R) fit (p : probeR) dead start step num (rows : list (list A)) tx rx c tmin tmax :
  frame_ok (p_pcs p) ->
  forall q, frontwall_obj NumR mag fit p dead start step num rows tx rx c tmin tmax <> FwCsRaised q.
Proof.
  intros Hf q. unfold frontwall_obj. rewrite (p_reset_R p Hf).
  destruct (detect_surface_np NumR mag _ rows tmin tmax) as [times |]; [|discriminate].
  unfold move_probe_obj. destruct (fit_pose NumR fit _ tx rx dead _ _) as [e | [z th]]; [discriminate|].
  destruct (move_object_R (mkProbe (locations_pcs NumR p) (option_map (map (mvec NumR (cs_axes NumR (p_pcs p)))) (p_oris p)) (Probe.gcs NumR))
                          th z gcs_frame_ok) as (q1 & E1 & E2).
  cbn [n0 NumR]. rewrite E1, E2. discriminate.
Qed.

(* an exception after reset_position leaves the probe RESET (not where it was) *)
Lemma frontwall_obj_raised_state {A} (mag : A -> R) fit (p : probeR) dead start step num (rows : list (list A)) tx rx c tmin tmax p1 e :
  frame_ok (p_pcs p) ->
  frontwall_obj NumR mag fit p dead start step num rows tx rx c tmin tmax = FwRaised p1 e ->
  p1 = reset_probe p.
Proof.
  intros Hf. unfold frontwall_obj. rewrite (p_reset_R p Hf). fold (reset_probe p).
  destruct (detect_surface_np NumR mag _ rows tmin tmax) as [times |].
  - destruct (move_probe_obj NumR fit _ dead tx rx _); intro H; try discriminate. injection H as <- _. reflexivity.
  - intro H. injection H as <- _. reflexivity.
Qed.

(* the outcome depends on the probe only through its PCS view: its pose in the GCS at the time of
   the call is irrelevant (reset_position comes first) *)
Lemma frontwall_obj_pcs_view {A} (mag : A -> R) fit (p p' : probeR) dead start step num (rows : list (list A)) tx rx c tmin tmax :
  frame_ok (p_pcs p) -> frame_ok (p_pcs p') ->
  locations_pcs NumR p' = locations_pcs NumR p -> orientations_pcs NumR p' = orientations_pcs NumR p ->
  frontwall_obj NumR mag fit p' dead start step num rows tx rx c tmin tmax
  = frontwall_obj NumR mag fit p dead start step num rows tx rx c tmin tmax.
Proof.
  intros Hf Hf' HL HO. unfold frontwall_obj. rewrite (p_reset_R p Hf), (p_reset_R p' Hf'), HL.
  rewrite (orientations_pcs_R p Hf), (orientations_pcs_R p' Hf') in HO. injection HO as ->. reflexivity.
Qed.

Lemma frontwall_obj_moved {A} (mag : A -> R) fit (n : nat) (M : mat) (t : vec) (p p' : probeR) dead start step num (rows : list (list A)) tx rx c tmin tmax :
  proper_rotation NumR M -> moved M t p p' -> good n p ->
  frontwall_obj NumR mag fit p' dead start step num rows tx rx c tmin tmax
  = frontwall_obj NumR mag fit p dead start step num rows tx rx c tmin tmax.
Proof.
  intros HM Hm Hg. pose proof (moved_good n M t p p' HM Hm Hg) as Hg'.
  apply frontwall_obj_pcs_view; [apply Hg | apply Hg' | |].
  - exact (moved_locations_pcs M t p p' HM Hm).
  - exact (moved_orientations_pcs n M t p p' HM Hm Hg).
Qed.

(* a successful registration only moved the probe rigidly: same PCS view afterwards *)
Lemma frontwall_obj_ok_view {A} (mag : A -> R) fit (n : nat) (p q : probeR) dead start step num (rows : list (list A)) tx rx c tmin tmax z th times :
  good n p ->
  frontwall_obj NumR mag fit p dead start step num rows tx rx c tmin tmax = FwOk q z th times ->
  good n q /\ locations_pcs NumR q = locations_pcs NumR p /\ orientations_pcs NumR q = orientations_pcs NumR p.
Proof.
  intros Hg. pose proof Hg as (Hf & _). unfold frontwall_obj.
  destruct (p_reset_moved p Hf) as (p1 & E1 & Hm1). rewrite E1.
  pose proof (frame_axes_proper _ Hf) as HM1.
  pose proof (moved_good n _ _ p p1 HM1 Hm1 Hg) as Hg1.
  destruct (detect_surface_np NumR mag _ rows tmin tmax) as [ts |]; [|discriminate].
  unfold move_probe_obj. destruct (fit_pose NumR fit _ tx rx dead _ _) as [e | [z' th']]; [discriminate|].
  pose proof (rotation_matrix_y_proper th') as HM2.
  destruct (p_rotate_moved (rotation_matrix_y NumR th') None p1 (rotation_y_cols th') ltac:(apply Hg1)) as (p2 & E2 & Hm2).
  rewrite E2. pose proof (moved_good n _ _ p1 p2 HM2 Hm2 Hg1) as Hg2.
  destruct (p_translate_moved (n0 NumR, n0 NumR, z') p2 ltac:(apply Hg2)) as (p3 & E3 & Hm3).
  rewrite E3. pose proof (moved_good n _ _ p2 p3 mid3_proper Hm3 Hg2) as Hg3.
  intro H. injection H as <- _ _ _. split; [exact Hg3|]. split.
  - rewrite (moved_locations_pcs _ _ p2 p3 mid3_proper Hm3), (moved_locations_pcs _ _ p1 p2 HM2 Hm2).
    exact (moved_locations_pcs _ _ p p1 HM1 Hm1).
  - rewrite (moved_orientations_pcs n _ _ p2 p3 mid3_proper Hm3 Hg2), (moved_orientations_pcs n _ _ p1 p2 HM2 Hm2 Hg1).
    exact (moved_orientations_pcs n _ _ p p1 HM1 Hm1 Hg).
Qed.

(* registration is idempotent: run again on the registered probe with the same data, it returns the
   same tuple and leaves the probe where it is *)
Lemma frontwall_obj_idempotent {A} (mag : A -> R) fit (n : nat) (p q : probeR) dead start step num (rows : list (list A)) tx rx c tmin tmax z th times :
  good n p ->
  frontwall_obj NumR mag fit p dead start step num rows tx rx c tmin tmax = FwOk q z th times ->
  frontwall_obj NumR mag fit q dead start step num rows tx rx c tmin tmax = FwOk q z th times.
Proof.
  intros Hg H. destruct (frontwall_obj_ok_view mag fit n p q dead start step num rows tx rx c tmin tmax z th times Hg H)
    as (Hgq & HL & HO).
  rewrite <- H. apply frontwall_obj_pcs_view; [apply Hg | apply Hgq | exact HL | exact HO].
Qed.

(* ---- registration recovers the pose, on the objects, from any initial pose ------------------------ *)
Lemma frontwall_obj_recovers {A} (mag : A -> R) fit (p : probeR) xs th z0 dead tx rx start step num (rows : list (list A)) (c : R) tmin tmax times :
  is_ls_minimiser fit -> (forall a, 0 <= mag a) ->
  frame_ok (p_pcs p) -> locations_pcs NumR p = on_axis xs -> length dead = length xs \/ dead = [] ->
  - (PI / 2) <= th <= PI / 2 ->
  detect_surface NumR (time_samples NumR start step num) (map (map mag) rows) tmin tmax = Some times ->
  length tx = length rx -> length times = length tx ->
  (2 <= length (selected dead tx rx (map (fun t => (t * c / 2)%R) times)))%nat ->
  (forall t, In t (selected dead tx rx (map (fun t => (t * c / 2)%R) times)) ->
     (0 <= tr_tx t < Z.of_nat (length xs))%Z /\ tr_d t = sin th * trace_x xs t - z0 /\ 0 <= tr_d t) ->
  isclose NumR (lmin NumR (map (trace_x xs) (selected dead tx rx (map (fun t => (t * c / 2)%R) times))))
               (lmax NumR (map (trace_x xs) (selected dead tx rx (map (fun t => (t * c / 2)%R) times)))) = false ->
  frontwall_obj NumR mag fit p dead start step num rows tx rx c tmin tmax
  = FwOk (mkProbe (map (fun x => (cos th * x, 0, - (sin th * x - z0))) xs)
                  (option_map (map (mvec NumR (rotation_matrix_y NumR th))) (p_oris (reset_probe p)))
                  (mkCS (0, 0, z0) (cos th, 0, - sin th) (0, 1, 0)))
         z0 th times.
Proof.
  intros Hfit Hmag Hf Hloc Hd Hth Hdet L1 L2 Hn Hsel Hspread.
  assert (length dead = length (p_locs p) \/ dead = []) as Hd'.
  { destruct Hd as [Hd | Hd]; [left | right; exact Hd].
    rewrite Hd, <- (on_axis_length xs), <- Hloc. unfold locations_pcs. rewrite map_length. reflexivity. }
  rewrite (frontwall_obj_R mag fit p dead start step num rows tx rx c tmin tmax Hmag Hf Hd' L1), Hloc.
  rewrite (find_probe_loc_recovers fit xs th z0 dead tx rx start step num _ c tmin tmax times
             Hfit Hth Hdet L1 L2 Hn Hsel Hspread).
  reflexivity.
Qed.

(* ---- the samples of unused timetraces are computed but never matter ------------------------------ *)
(* same error, or same pose with detected times that agree on every usable pulse-echo timetrace *)
Definition same_registration (tx rx : list Z) (dead : list bool)
           (x y : reg_error + (move_result (T:=R) * list R)) : Prop :=
  match x, y with
  | inl e1, inl e2 => e1 = e2
  | inr (r1, t1), inr (r2, t2) =>
      r1 = r2 /\ length t1 = length t2 /\
      forall i, pulse_echo dead (nth i tx 0%Z) (nth i rx 0%Z) = true -> nth i t1 0 = nth i t2 0
  | _, _ => False
  end.

Lemma detect_surface_rows_some samples rows tmin tmax s0 sl :
  slice (fst (window NumR samples tmin tmax true true)) (snd (window NumR samples tmin tmax true true)) samples = s0 :: sl ->
  (forall row, In row rows -> length row = length samples) ->
  exists times, detect_surface NumR samples rows tmin tmax = Some times.
Proof.
  intros ES Hrows. unfold detect_surface. cbv zeta. rewrite ES.
  destruct (all_some (map _ rows)) as [times |] eqn:E; [exists times; reflexivity|].
  exfalso. revert E. apply (all_some_detect_nonempty samples _ _ rows s0 sl ES Hrows).
Qed.

Lemma find_probe_loc_unused_rows fit start step num rows1 rows2 tx rx dead locs (c : R) tmin tmax :
  length rows1 = length rows2 ->
  (forall row, In row rows1 \/ In row rows2 -> length row = Z.to_nat num) ->
  (forall i, pulse_echo dead (nth i tx 0%Z) (nth i rx 0%Z) = true -> nth i rows1 [] = nth i rows2 []) ->
  same_registration tx rx dead
    (find_probe_loc NumR fit start step num rows1 tx rx dead locs c tmin tmax)
    (find_probe_loc NumR fit start step num rows2 tx rx dead locs c tmin tmax).
Proof.
  intros HL Hrows Hag. unfold find_probe_loc.
  set (samples := time_samples NumR start step num).
  assert (length samples = Z.to_nat num) as EL by apply time_samples_length.
  destruct (slice (fst (window NumR samples tmin tmax true true)) (snd (window NumR samples tmin tmax true true)) samples)
    as [| s0 sl] eqn:ES.
  - unfold detect_surface. cbv zeta. rewrite ES. cbn [same_registration]. reflexivity.
  - assert (forall row, In row rows1 -> length row = length samples) as H1 by (intros; rewrite EL; auto).
    assert (forall row, In row rows2 -> length row = length samples) as H2 by (intros; rewrite EL; auto).
    destruct (detect_surface_rows_some samples rows1 tmin tmax s0 sl ES H1) as [t1 E1].
    destruct (detect_surface_rows_some samples rows2 tmin tmax s0 sl ES H2) as [t2 E2].
    rewrite E1, E2. unfold detect_surface in E1, E2. cbv zeta in E1, E2. rewrite ES in E1, E2.
    destruct (all_some_spec _ rows1 t1 [] 0 E1) as [L1 N1].
    destruct (all_some_spec _ rows2 t2 [] 0 E2) as [L2 N2].
    assert (forall i, pulse_echo dead (nth i tx 0%Z) (nth i rx 0%Z) = true -> nth i t1 0 = nth i t2 0) as Ht.
    { intros i Hi. destruct (Nat.lt_ge_cases i (length rows1)) as [Hlt | Hge].
      - specialize (N1 i Hlt). specialize (N2 i ltac:(lia)). rewrite (Hag i Hi) in N1. congruence.
      - rewrite !nth_overflow by lia. reflexivity. }
    set (f := fun t : R => nmul NumR t c / nofZ NumR 2).
    assert (f 0 = 0) as F0 by (unfold f; cbn [nmul nofZ NumR]; field).
    assert (move_probe NumR fit (Registration.gcs NumR) tx rx dead locs (map f t1)
            = move_probe NumR fit (Registration.gcs NumR) tx rx dead locs (map f t2)) as EM.
    { apply move_probe_indep; [rewrite !map_length; lia|].
      intros i Hi.
      replace (nth i (map f t1) 0) with (nth i (map f t1) (f 0)) by (rewrite F0; reflexivity).
      replace (nth i (map f t2) 0) with (nth i (map f t2) (f 0)) by (rewrite F0; reflexivity).
      rewrite !map_nth, (Ht i Hi). reflexivity. }
    cbn [ndiv NumR] in *. fold f. rewrite EM.
    destruct (move_probe NumR fit (Registration.gcs NumR) tx rx dead locs (map f t2)) as [e | r]; cbn [same_registration];
      [reflexivity|]. split; [reflexivity|]. split; [lia | exact Ht].
Qed.

(* ---- any order of the timetraces (tx, rx and the sample rows permuted together) -------------------- *)
Definition same_registration_perm (tx rx tx' rx' : list Z)
           (x y : reg_error + (move_result (T:=R) * list R)) : Prop :=
  match x, y with
  | inl e1, inl e2 => e1 = e2
  | inr (r1, t1), inr (r2, t2) =>
      r1 = r2 /\ Permutation (combine (combine tx rx) t1) (combine (combine tx' rx') t2)
  | _, _ => False
  end.

Lemma find_probe_loc_perm fit start step num rows rows' tx rx tx' rx' dead locs (c : R) tmin tmax :
  is_ls_minimiser fit ->
  length tx = length rx -> length rows = length tx -> length tx' = length rx' -> length rows' = length tx' ->
  (forall row, In row rows \/ In row rows' -> length row = Z.to_nat num) ->
  Permutation (combine (combine tx rx) rows) (combine (combine tx' rx') rows') ->
  same_registration_perm tx rx tx' rx'
    (find_probe_loc NumR fit start step num rows tx rx dead locs c tmin tmax)
    (find_probe_loc NumR fit start step num rows' tx' rx' dead locs c tmin tmax).
Proof.
  intros Hfit L1 L2 L1' L2' Hrows HP. unfold find_probe_loc.
  set (samples := time_samples NumR start step num).
  assert (length samples = Z.to_nat num) as EL by apply time_samples_length.
  destruct (slice (fst (window NumR samples tmin tmax true true)) (snd (window NumR samples tmin tmax true true)) samples)
    as [| s0 sl] eqn:ES.
  - unfold detect_surface. cbv zeta. rewrite ES. cbn [same_registration_perm]. reflexivity.
  - assert (forall row, In row rows -> length row = length samples) as H1 by (intros; rewrite EL; auto).
    assert (forall row, In row rows' -> length row = length samples) as H2 by (intros; rewrite EL; auto).
    destruct (detect_surface_rows_some samples rows tmin tmax s0 sl ES H1) as [t1 E1].
    destruct (detect_surface_rows_some samples rows' tmin tmax s0 sl ES H2) as [t2 E2].
    rewrite E1, E2. unfold detect_surface in E1, E2. cbv zeta in E1, E2. rewrite ES in E1, E2.
    apply (all_some_total _ 0) in E1. apply (all_some_total _ 0) in E2.
    set (g := fun row : list R =>
                match detect_trace NumR samples (fst (window NumR samples tmin tmax true true))
                                   (snd (window NumR samples tmin tmax true true)) row with
                | Some b => b | None => 0 end) in *.
    set (f := fun t : R => nmul NumR t c / nofZ NumR 2).
    assert (Permutation (combine (combine tx rx) t1) (combine (combine tx' rx') t2)) as HPt.
    { rewrite E1, E2, !combine_map_r. apply Permutation_map. exact HP. }
    assert (move_probe NumR fit (Registration.gcs NumR) tx rx dead locs (map f t1)
            = move_probe NumR fit (Registration.gcs NumR) tx' rx' dead locs (map f t2)) as EM.
    { apply move_probe_perm; try assumption.
      - rewrite map_length, E1, map_length. exact L2.
      - rewrite map_length, E2, map_length. exact L2'.
      - rewrite !combine_map_r. apply Permutation_map. exact HPt. }
    cbn [ndiv NumR] in *. fold f. rewrite EM.
    destruct (move_probe NumR fit (Registration.gcs NumR) tx' rx' dead locs (map f t2)) as [e | r];
      cbn [same_registration_perm]; [reflexivity|]. split; [reflexivity | exact HPt].
Qed.

(* ---- the gate "PCS must coincide with the GCS" ---------------------------------------------------- *)
Lemma isclose_abs_R a b : isclose_abs NumR a b = true <-> Rabs (a - b) <= tolA.
Proof.
  unfold isclose_abs, atol8, tolA. rewrite RegistrationProofs.nabs_R. cbn [nleb nsub ndiv n1 nofZ NumR].
  destruct (Rle_bool_spec (Rabs (a - b)) (1 / 100000000)) as [H | H]; split; intro H'; try lra; try discriminate; reflexivity.
Qed.

(* accepted exactly when each of the nine numbers is within 1e-8 (absolute, no relative part) *)
Lemma gate_iff (o i j : vec) :
  cs_isclose NumR (o, i, j) (Registration.gcs NumR) = true <->
  (Rabs (Vec3.vx o) <= tolA /\ Rabs (Vec3.vy o) <= tolA /\ Rabs (Vec3.vz o) <= tolA) /\
  (Rabs (Vec3.vx i - 1) <= tolA /\ Rabs (Vec3.vy i) <= tolA /\ Rabs (Vec3.vz i) <= tolA) /\
  (Rabs (Vec3.vx j) <= tolA /\ Rabs (Vec3.vy j - 1) <= tolA /\ Rabs (Vec3.vz j) <= tolA).
Proof.
  destruct o as [[ox oy] oz], i as [[ix iy] iz], j as [[jx jy] jz].
  unfold cs_isclose, v3_close_abs, Registration.gcs, Registration.vx, Registration.vy, Registration.vz, Vec3.vx, Vec3.vy, Vec3.vz.
  cbn [fst snd n0 n1 NumR]. rewrite !andb_true_iff, !isclose_abs_R, !Rminus_0_r. tauto.
Qed.

(* move_probe_over_flat_surface (unlike find_probe_loc_from_frontwall) cannot be applied twice: the
   probe it has placed at a standoff of more than 1e-8 is rejected by the gate, whatever the data *)
Lemma placed_probe_rejected fit th z0 tx rx dead locs ds :
  tolA < Rabs z0 ->
  fit_pose NumR fit ((0, 0, z0), (cos th, 0, - sin th), (0, 1, 0)) tx rx dead locs ds = inl E_PcsNotGcs.
Proof.
  intro Hz. apply fit_pose_gate. destruct (cs_isclose NumR _ _) eqn:E; [|reflexivity].
  apply gate_iff in E. unfold Vec3.vz in E. cbn [fst snd] in E. lra.
Qed.
