(* Proofs/ViewsNProofs.v — lemmas about Model/ViewsN.v (C18). Axiom-free. *)
From Coq Require Import Arith List Bool ZArith Lia Permutation Sorting.Sorted.
From Coq Require Strings.Ascii.
From Arim Require Import Base.ListX Model.Views Proofs.ViewsProofs Model.ViewsN.
Import ListNotations.

(* ================================================================== *)
(* 1. Python strings                                                   *)
(* ================================================================== *)
Lemma list_eqb_eq {A} (eqb : A -> A -> bool) :
  (forall a b, eqb a b = true <-> a = b) ->
  forall l1 l2, list_eqb eqb l1 l2 = true <-> l1 = l2.
Proof.
  intros He. induction l1 as [|x l1 IH]; intros [|y l2]; simpl; try (split; congruence).
  rewrite andb_true_iff, He, IH. split; [intros [-> ->]; auto | intros H; inversion H; auto].
Qed.

Lemma pystr_eqb_eq a b : pystr_eqb a b = true <-> a = b.
Proof. apply list_eqb_eq. apply Ascii.eqb_eq. Qed.

Lemma pystr_eqb_neq a b : a <> b -> pystr_eqb a b = false.
Proof. intros H. destruct (pystr_eqb a b) eqn:E; auto. apply pystr_eqb_eq in E. contradiction. Qed.

Lemma mode_char_not_dash m : Ascii.eqb (mode_char m) char_dash = false.
Proof. destruct m; vm_compute; reflexivity. Qed.

Lemma mode_char_inj a b : mode_char a = mode_char b -> a = b.
Proof. destruct a, b; auto; vm_compute; discriminate. Qed.

Lemma word_str_inj a b : word_str a = word_str b -> a = b.
Proof.
  revert b. induction a as [|x a IH]; intros [|y b]; simpl; try congruence.
  intros H. inversion H as [[H1 H2]]. apply mode_char_inj in H1. apply IH in H2. congruence.
Qed.

Lemma word_str_length w : length (word_str w) = length w.
Proof. apply map_length. Qed.

Lemma word_str_rev w : word_str (rev w) = rev (word_str w).
Proof. apply map_rev. Qed.

(* parse_enum_constant / mode_dict read back the letters written by Mode.key *)
Lemma parse_word_str w : parse_word (word_str w) = inl w.
Proof.
  unfold parse_word. induction w as [|m w IH]; simpl; auto.
  rewrite IH. destruct m; vm_compute; reflexivity.
Qed.

Lemma parse_mode_some c m : parse_mode c = inl m -> c = mode_char m.
Proof.
  unfold parse_mode. destruct (Ascii.eqb c char_L) eqn:E1.
  - apply Ascii.eqb_eq in E1. intros H; inversion H; subst. reflexivity.
  - destruct (Ascii.eqb c char_T) eqn:E2; [|discriminate].
    apply Ascii.eqb_eq in E2. intros H; inversion H; subst. reflexivity.
Qed.

Lemma parse_word_some s w : parse_word s = inl w -> s = word_str w.
Proof.
  unfold parse_word. revert w. induction s as [|c s IH]; intros w; simpl.
  - intros H; inversion H; reflexivity.
  - destruct (parse_mode c) as [m|] eqn:Em; [|discriminate].
    destruct (mapM parse_mode s) as [ms|] eqn:Es; [|discriminate].
    intros H; inversion H; subst. simpl. rewrite (parse_mode_some _ _ Em), (IH ms eq_refl). reflexivity.
Qed.

(* ---- split("-") ---------------------------------------------------- *)
Definition no_dash (s : pystr) : Prop := forall c, In c s -> Ascii.eqb c char_dash = false.

Lemma no_dash_nil : no_dash [].
Proof. intros c []. Qed.

Lemma no_dash_cons c s : no_dash (c :: s) <-> Ascii.eqb c char_dash = false /\ no_dash s.
Proof.
  unfold no_dash. split.
  - intros H. split; [apply H; simpl; auto | intros x Hx; apply H; simpl; auto].
  - intros [H1 H2] x [<-|Hx]; auto.
Qed.

Lemma no_dash_rev s : no_dash s -> no_dash (rev s).
Proof. intros H c Hc. apply H. apply in_rev. exact Hc. Qed.

Lemma no_dash_word w : no_dash (word_str w).
Proof.
  intros c Hc. apply in_map_iff in Hc as (m & <- & _). apply mode_char_not_dash.
Qed.

Lemma split_nonempty s : split_dash s <> [].
Proof.
  destruct s as [|c s]; simpl; [discriminate|].
  destruct (Ascii.eqb c char_dash); [discriminate|]. destruct (split_dash s); discriminate.
Qed.

Lemma split_no_dash s : no_dash s -> split_dash s = [s].
Proof.
  induction s as [|c s IH]; intros H; simpl; auto.
  apply no_dash_cons in H as [H1 H2]. rewrite H1, (IH H2). reflexivity.
Qed.

Lemma split_join a b : no_dash a -> split_dash (join_dash a b) = a :: split_dash b.
Proof.
  unfold join_dash. induction a as [|c a IH]; intros H; cbn [app split_dash].
  - assert (E : Ascii.eqb char_dash char_dash = true) by (apply Ascii.eqb_eq; reflexivity).
    rewrite E. reflexivity.
  - apply no_dash_cons in H as [H1 H2]. rewrite H1, (IH H2). reflexivity.
Qed.

Lemma split_one s b : split_dash s = [b] -> s = b /\ no_dash b.
Proof.
  revert b. induction s as [|c s IH]; intros b; simpl.
  - intros H; inversion H; subst. split; auto using no_dash_nil.
  - destruct (Ascii.eqb c char_dash) eqn:Ec.
    + intros H; inversion H as [[H1 H2]]. exfalso. exact (split_nonempty s H2).
    + destruct (split_dash s) as [|p ps] eqn:Es; [exfalso; exact (split_nonempty s Es)|].
      intros H; inversion H; subst. destruct (IH p eq_refl) as [-> Hp].
      split; auto. apply no_dash_cons; auto.
Qed.

Lemma split_two s a b : split_dash s = [a; b] -> s = join_dash a b /\ no_dash a /\ no_dash b.
Proof.
  revert a. induction s as [|c s IH]; intros a; simpl; [discriminate|].
  destruct (Ascii.eqb c char_dash) eqn:Ec.
  - intros H; inversion H as [[H1 H2]]. apply Ascii.eqb_eq in Ec. subst c.
    destruct (split_one s b H2) as [-> Hb]. repeat split; auto using no_dash_nil.
  - destruct (split_dash s) as [|p ps] eqn:Es; [discriminate|].
    intros H; inversion H; subst. destruct (IH p eq_refl) as (-> & Hp & Hb).
    repeat split; auto. apply no_dash_cons; auto.
Qed.

Lemma split_length s : length (split_dash s) = S (count_dash s).
Proof.
  unfold count_dash. induction s as [|c s IH]; simpl; auto.
  destruct (Ascii.eqb c char_dash); simpl; [congruence|].
  destruct (split_dash s) as [|p ps] eqn:Es; [exfalso; exact (split_nonempty s Es)|].
  simpl in *. exact IH.
Qed.

(* ---- reciprocal_viewname on strings -------------------------------- *)
Lemma reciprocal_str_join a b : no_dash a -> no_dash b ->
  reciprocal_viewname_str (join_dash a b) = inl (join_dash (rev b) (rev a)).
Proof.
  intros Ha Hb. unfold reciprocal_viewname_str. rewrite (split_join a b Ha), (split_no_dash b Hb).
  reflexivity.
Qed.

Lemma reciprocal_str_view v : reciprocal_viewname_str (view_str v) = inl (view_str (recip v)).
Proof.
  destruct v as [tx rx]. unfold view_str, recip; cbn [fst snd].
  rewrite reciprocal_str_join by apply no_dash_word. rewrite !word_str_rev. reflexivity.
Qed.

Lemma reciprocal_str_defined s :
  (exists t, reciprocal_viewname_str s = inl t) <-> count_dash s = 1.
Proof.
  unfold reciprocal_viewname_str. pose proof (split_length s) as HL.
  destruct (split_dash s) as [|a [|b [|c l]]] eqn:E; simpl in HL.
  - discriminate.
  - split; [intros [t Ht]; discriminate | intros H; lia].
  - split; [intros _; lia | eauto].
  - split; [intros [t Ht]; discriminate | intros H; lia].
Qed.

Lemma reciprocal_str_error s : count_dash s <> 1 -> reciprocal_viewname_str s = inr ErrValue.
Proof.
  intros H. destruct (reciprocal_viewname_str s) as [t|e] eqn:E.
  - exfalso. apply H. apply reciprocal_str_defined. eauto.
  - unfold reciprocal_viewname_str in E.
    destruct (split_dash s) as [|a [|b [|c l]]]; inversion E; reflexivity.
Qed.

Lemma reciprocal_str_invol s t :
  reciprocal_viewname_str s = inl t -> reciprocal_viewname_str t = inl s.
Proof.
  unfold reciprocal_viewname_str at 1.
  destruct (split_dash s) as [|a [|b [|c l]]] eqn:E; try discriminate.
  intros H; inversion H; subst; clear H.
  destruct (split_two s a b E) as (-> & Ha & Hb).
  rewrite reciprocal_str_join by (apply no_dash_rev; auto).
  rewrite !rev_involutive. reflexivity.
Qed.

(* what the function computes, on ANY string: the two pieces around the single dash,
   each reversed, swapped *)
Lemma reciprocal_str_spec s t : reciprocal_viewname_str s = inl t ->
  exists a b, s = join_dash a b /\ no_dash a /\ no_dash b /\ t = join_dash (rev b) (rev a).
Proof.
  unfold reciprocal_viewname_str.
  destruct (split_dash s) as [|a [|b [|c l]]] eqn:E; try discriminate.
  intros H; inversion H; subst; clear H.
  destruct (split_two s a b E) as (-> & Ha & Hb). exists a, b. auto.
Qed.

(* ---- the dictionary key f"{tx}-{rx}" is injective on names --------- *)
Lemma join_dash_inj a b c d : no_dash a -> no_dash c ->
  join_dash a b = join_dash c d -> a = c /\ b = d.
Proof.
  intros Ha Hc E. assert (E2 := f_equal split_dash E).
  rewrite (split_join a b Ha), (split_join c d Hc) in E2. inversion E2 as [[H1 H2]]. subst c.
  split; auto. unfold join_dash in E. apply app_inv_head in E. inversion E; auto.
Qed.

Lemma view_str_inj u v : view_str u = view_str v -> u = v.
Proof.
  destruct u as [a b], v as [c d]. unfold view_str; cbn [fst snd]. intros E.
  apply join_dash_inj in E as [E1 E2]; try apply no_dash_word.
  apply word_str_inj in E1. apply word_str_inj in E2. congruence.
Qed.

(* the name read back: split("-") then the letters *)
Lemma view_str_split v : split_dash (view_str v) = [word_str (fst v); word_str (snd v)].
Proof.
  unfold view_str. rewrite split_join by apply no_dash_word.
  rewrite split_no_dash by apply no_dash_word. reflexivity.
Qed.

(* ---- Python's order on the real key tuples ------------------------- *)
Lemma nat_of_ascii_inj a b : Ascii.nat_of_ascii a = Ascii.nat_of_ascii b -> a = b.
Proof.
  intros H. rewrite <- (Ascii.ascii_nat_embedding a), <- (Ascii.ascii_nat_embedding b), H. reflexivity.
Qed.

Lemma good_char : good_cmp char_cmp.
Proof.
  unfold char_cmp. split.
  - intros a b. rewrite Nat.compare_eq_iff. split; [apply nat_of_ascii_inj | intros ->; auto].
  - intros a b. apply Nat.compare_antisym.
  - intros a b c. rewrite !Nat.compare_lt_iff. lia.
Qed.

Lemma good_str : good_cmp str_cmp.
Proof. apply good_list, good_char. Qed.

Lemma good_skey : good_cmp skey_cmp.
Proof. unfold skey_cmp. repeat apply good_pair; auto using good_nat, good_str. Qed.

Lemma skey_inj a b : default_viewname_order_str a = default_viewname_order_str b -> a = b.
Proof. destruct a, b. unfold default_viewname_order_str. intros H; inversion H; reflexivity. Qed.

Definition sview_cmp (a b : pystr * pystr) : comparison :=
  skey_cmp (default_viewname_order_str a) (default_viewname_order_str b).

Lemma good_sview : good_cmp sview_cmp.
Proof.
  destruct good_skey as [e s t]. unfold sview_cmp. split.
  - intros a b. rewrite e. split; [apply skey_inj | intros ->; auto].
  - intros; apply s.
  - intros a b c. apply t.
Qed.

Lemma char_cmp_mode a b : char_cmp (mode_char a) (mode_char b) = mode_cmp a b.
Proof. destruct a, b; vm_compute; reflexivity. Qed.

Lemma str_cmp_word a b : str_cmp (word_str a) (word_str b) = word_cmp a b.
Proof.
  unfold str_cmp, word_cmp. revert b. induction a as [|x a IH]; intros [|y b]; simpl; auto.
  rewrite char_cmp_mode, IH. reflexivity.
Qed.

Lemma sview_cmp_view a b :
  sview_cmp (word_str (fst a), word_str (snd a)) (word_str (fst b), word_str (snd b)) = view_cmp a b.
Proof.
  destruct a as [t1 r1], b as [t2 r2]. unfold sview_cmp, view_cmp, skey_cmp, key_cmp,
    default_viewname_order_str, key, pair_cmp; cbn [fst snd].
  rewrite !word_str_length, !str_cmp_word. reflexivity.
Qed.

(* scat_key as a str *)
Lemma scat_key_str_some v a b : scat_key v = Some (a, b) -> scat_key_str v = Some (word_str [a; b]).
Proof. unfold scat_key_str. intros ->. reflexivity. Qed.

(* ================================================================== *)
(* 2. the views dictionary                                             *)
(* ================================================================== *)
Lemma od_set_fresh {V} k (v : V) d : ~ In k (map fst d) -> od_set k v d = d ++ [(k, v)].
Proof.
  induction d as [|[k' v'] d IH]; simpl; auto.
  intros H. rewrite pystr_eqb_neq by (intros ->; apply H; auto).
  rewrite IH; auto.
Qed.

Lemma od_set_present {V} k (v : V) d : In k (map fst d) ->
  map fst (od_set k v d) = map fst d.
Proof.
  induction d as [|[k' v'] d IH]; simpl; [tauto|].
  destruct (pystr_eqb k k') eqn:E.
  - apply pystr_eqb_eq in E. subst. reflexivity.
  - intros [H|H]; [subst; rewrite (proj2 (pystr_eqb_eq k k) eq_refl) in E; discriminate|].
    simpl. rewrite IH; auto.
Qed.

Lemma views_loop_spec paths : forall vns acc,
  NoDup (map fst acc ++ map view_str vns) ->
  views_loop paths vns acc =
    match build_views paths vns with
    | inl vs => inl (acc ++ keyed vs)
    | inr e => inr e
    end.
Proof.
  induction vns as [|[tx rx] t IH]; intros acc HN; simpl.
  - rewrite app_nil_r. reflexivity.
  - destruct (plookup tx paths) as [ptx|]; [|reflexivity].
    destruct (plookup (rev rx) paths) as [prx|]; [|reflexivity].
    simpl in HN. apply NoDup_remove in HN as [HN Hnotin].
    rewrite od_set_fresh by (intros Hin; apply Hnotin; apply in_or_app; auto).
    rewrite IH.
    + destruct (build_views paths t) as [vs|e]; [|reflexivity].
      unfold keyed. simpl. rewrite <- app_assoc. reflexivity.
    + rewrite map_app. simpl. rewrite <- app_assoc. simpl.
      eapply Permutation_NoDup; [apply Permutation_middle | constructor; auto].
Qed.

Lemma viewnames_uo_NoDup names uo : NoDup names -> NoDup (make_viewnames names uo).
Proof.
  intros HN. destruct uo; [|apply viewnames_NoDup; auto].
  rewrite viewnames_unique_eq. eapply subseq_NoDup; [apply filter_subseq | apply viewnames_NoDup; auto].
Qed.

Lemma views_dict_spec paths uo : NoDup (map fst paths) ->
  make_views_from_paths_dict paths uo =
    match make_views_from_paths paths uo with
    | inl vs => inl (keyed vs)
    | inr e => inr e
    end.
Proof.
  intros HN. unfold make_views_from_paths_dict, make_views_from_paths.
  rewrite views_loop_spec.
  - destruct (build_views paths _); reflexivity.
  - simpl. apply FinFun.Injective_map_NoDup; [intros a b; apply view_str_inj|].
    apply viewnames_uo_NoDup; auto.
Qed.

Lemma keyed_length vs : length (keyed vs) = length vs.
Proof. apply map_length. Qed.

Lemma keyed_keys_NoDup vs : NoDup (map fst vs) -> NoDup (map fst (keyed vs)).
Proof.
  intros H. unfold keyed. rewrite map_map. cbn [fst].
  rewrite <- (map_map fst view_str). apply FinFun.Injective_map_NoDup; auto.
  intros a b; apply view_str_inj.
Qed.

(* ================================================================== *)
(* 3. examination objects                                              *)
(* ================================================================== *)
Lemma make_interfaces_imm_c_some bw : make_interfaces_imm_c true bw = make_interfaces_imm bw.
Proof. destruct bw; reflexivity. Qed.

Lemma make_interfaces_imm_c_none bw : make_interfaces_imm_c false bw = inr ErrValue.
Proof. destruct bw; reflexivity. Qed.

Lemma make_views_imm_block couplant bw r uo :
  make_views_imm_obj (block_in_immersion couplant true bw) r uo =
  if couplant then liftX (make_views (Immersion bw) r uo) else inr (XBase ErrValue).
Proof.
  unfold make_views_imm_obj, block_in_immersion; cbn [eo_couplant_material eo_block_material eo_frontwall eo_backwall negb].
  destruct couplant.
  - rewrite make_interfaces_imm_c_some. unfold make_views, make_paths.
    destruct (make_interfaces_imm bw); reflexivity.
  - rewrite make_interfaces_imm_c_none. reflexivity.
Qed.

Lemma make_views_imm_no_frontwall couplant bw r uo :
  make_views_imm_obj (block_in_immersion couplant false bw) r uo = inr XType.
Proof. reflexivity. Qed.

Lemma make_views_imm_wrong_object o r uo :
  eo_couplant_material o = NoAttr \/ eo_block_material o = NoAttr \/
  eo_frontwall o = NoAttr \/ eo_backwall o = NoAttr ->
  make_views_imm_obj o r uo = inr (XBase ErrValue).
Proof.
  unfold make_views_imm_obj.
  destruct (eo_couplant_material o), (eo_block_material o), (eo_frontwall o), (eo_backwall o);
    intros [H|[H|[H|H]]]; try discriminate; reflexivity.
Qed.

Lemma make_views_contact_setup o r uo :
  (eo_block_material o <> NoAttr \/ eo_material o <> NoAttr) ->
  make_views_contact_obj o r uo =
  liftX (make_views (Contact (attr_or_none (eo_frontwall o)) (attr_or_none (eo_backwall o))
                             (attr_or_none (eo_under_material o))) r uo).
Proof.
  unfold make_views_contact_obj, make_views, make_paths.
  destruct (eo_block_material o) as [|m1]; [destruct (eo_material o) as [|m2]|].
  - intros [H|H]; congruence.
  - intros _.
    destruct (make_interfaces_contact (attr_or_none (eo_frontwall o)) (attr_or_none (eo_backwall o))
                (attr_or_none (eo_under_material o))); reflexivity.
  - intros _.
    destruct (make_interfaces_contact (attr_or_none (eo_frontwall o)) (attr_or_none (eo_backwall o))
                (attr_or_none (eo_under_material o))); reflexivity.
Qed.

Lemma make_views_contact_no_material o r uo :
  eo_block_material o = NoAttr -> eo_material o = NoAttr ->
  make_views_contact_obj o r uo = inr XAttribute.
Proof. unfold make_views_contact_obj. intros -> ->. reflexivity. Qed.

(* the under-material is read only to build the back-wall interface *)
Lemma contact_under_irrelevant_without_backwall fw um r :
  make_paths (Contact fw false um) r = make_paths (Contact fw false false) r.
Proof. destruct um; reflexivity. Qed.

(* ================================================================== *)
(* 4. names for any number of reflections                              *)
(* ================================================================== *)
Lemma words_S n : words (S n) = map (cons L) (words n) ++ map (cons T) (words n).
Proof. simpl. rewrite app_nil_r. reflexivity. Qed.

Lemma words_length n : length (words n) = 2 ^ n.
Proof.
  induction n as [|n IH]; [reflexivity|].
  rewrite words_S, app_length, !map_length. unfold word in *. rewrite IH. simpl. lia.
Qed.

Lemma words_In n w : In w (words n) <-> length w = n.
Proof.
  revert w. induction n as [|n IH]; intros w.
  - simpl. split.
    + intros [<-|[]]; reflexivity.
    + destruct w; [auto | discriminate].
  - rewrite words_S, in_app_iff, !in_map_iff. split.
    + intros [(x & <- & Hx)|(x & <- & Hx)]; simpl; f_equal; apply IH; auto.
    + destruct w as [|m w]; [discriminate|]. simpl. intros H. injection H as H.
      apply IH in H. destruct m; [left | right]; exists w; auto.
Qed.

Lemma words_NoDup n : NoDup (words n).
Proof.
  induction n as [|n IH].
  - simpl. constructor; [intros []|constructor].
  - rewrite words_S. apply nodup_app_intro.
    + apply FinFun.Injective_map_NoDup; auto. intros a b H; inversion H; auto.
    + apply FinFun.Injective_map_NoDup; auto. intros a b H; inversion H; auto.
    + intros x H1 H2. apply in_map_iff in H1 as (a & <- & _).
      apply in_map_iff in H2 as (b & Hb & _). discriminate.
Qed.

Lemma spec_names_0 : spec_names 0 = [[L]; [T]].
Proof. reflexivity. Qed.

Lemma spec_names_S r : spec_names (S r) = spec_names r ++ words (r + 2).
Proof.
  unfold spec_names. replace (S r + 1) with (S (r + 1)) by lia.
  rewrite seq_S, flat_map_app. cbn [flat_map]. rewrite app_nil_r.
  replace (1 + (r + 1)) with (r + 2) by lia. reflexivity.
Qed.

Lemma spec_names_In r w : In w (spec_names r) <-> 1 <= length w <= r + 1.
Proof.
  unfold spec_names. rewrite in_flat_map. split.
  - intros (n & Hn & Hw). apply in_seq in Hn. apply words_In in Hw. lia.
  - intros H. exists (length w). split; [apply in_seq; lia | apply words_In; reflexivity].
Qed.

Lemma spec_names_NoDup r : NoDup (spec_names r).
Proof.
  induction r as [|r IH].
  - rewrite spec_names_0. constructor; [intros [H|[]]; discriminate|].
    constructor; [intros []|constructor].
  - rewrite spec_names_S. apply nodup_app_intro; auto using words_NoDup.
    intros x H1 H2. apply spec_names_In in H1. apply words_In in H2. lia.
Qed.

Lemma spec_names_closed r w : In w (spec_names r) -> In (rev w) (spec_names r).
Proof. rewrite !spec_names_In, rev_length. auto. Qed.

Lemma pow2_ge n : 2 <= 2 ^ (n + 1).
Proof. rewrite Nat.add_1_r. cbn [Nat.pow]. pose proof (Nat.pow_nonzero 2 n). lia. Qed.

Lemma spec_names_length r : length (spec_names r) = num_paths r.
Proof.
  unfold num_paths. induction r as [|r IH]; [reflexivity|].
  rewrite spec_names_S, app_length, IH, words_length.
  replace (S r + 2) with (S (r + 2)) by lia. cbn [Nat.pow].
  pose proof (pow2_ge (r + 1)) as P. replace (r + 1 + 1) with (r + 2) in P by lia. lia.
Qed.

Lemma num_paths_alt r : num_paths r = 2 * (2 ^ (r + 1) - 1).
Proof.
  unfold num_paths. replace (r + 2) with (S (r + 1)) by lia. cbn [Nat.pow].
  pose proof (pow2_ge r). lia.
Qed.

(* ---- shortlex order of the names ----------------------------------- *)
Lemma SS_app {A} (R : A -> A -> Prop) l1 l2 :
  StronglySorted R l1 -> StronglySorted R l2 -> (forall x y, In x l1 -> In y l2 -> R x y) ->
  StronglySorted R (l1 ++ l2).
Proof.
  induction l1 as [|a l1 IH]; intros H1 H2 H; simpl; auto.
  inversion H1 as [|? ? Hs Hf]; subst. constructor.
  - apply IH; auto. intros x y Hx Hy. apply H; simpl; auto.
  - apply Forall_app. split; auto. apply Forall_forall. intros y Hy. apply H; simpl; auto.
Qed.

Lemma SS_map {A B} (R : A -> A -> Prop) (S : B -> B -> Prop) (f : A -> B) l :
  (forall x y, R x y -> S (f x) (f y)) -> StronglySorted R l -> StronglySorted S (map f l).
Proof.
  intros Hf. induction 1 as [|a l Hs IH Hfa]; simpl; constructor; auto.
  apply Forall_forall. intros y Hy. apply in_map_iff in Hy as (x & <- & Hx).
  apply Hf. rewrite Forall_forall in Hfa. auto.
Qed.

Lemma SS_app_inv {A} (R : A -> A -> Prop) l1 v l2 :
  StronglySorted R (l1 ++ v :: l2) ->
  (forall x, In x l1 -> R x v) /\ (forall x, In x l2 -> R v x).
Proof.
  induction l1 as [|a l1 IH]; simpl; intros H.
  - inversion H as [|? ? Hs Hf]; subst. rewrite Forall_forall in Hf. split; [intros ? []|auto].
  - inversion H as [|? ? Hs Hf]; subst. destruct (IH Hs) as [I1 I2]. split; auto.
    intros x [<-|Hx]; auto. rewrite Forall_forall in Hf. apply Hf. apply in_or_app. simpl; auto.
Qed.

Lemma words_sorted n : StronglySorted word_lt (words n).
Proof.
  induction n as [|n IH].
  - simpl. constructor; constructor.
  - rewrite words_S. apply SS_app.
    + apply (SS_map word_lt); auto. intros; apply wlt_tail; auto.
    + apply (SS_map word_lt); auto. intros; apply wlt_tail; auto.
    + intros x y Hx Hy. apply in_map_iff in Hx as (a & <- & _). apply in_map_iff in Hy as (b & <- & _).
      apply wlt_head.
Qed.

Lemma spec_names_shortlex r : StronglySorted shortlex (spec_names r).
Proof.
  induction r as [|r IH].
  - rewrite spec_names_0. apply SSorted_cons.
    + apply SSorted_cons; [apply SSorted_nil | apply Forall_nil].
    + apply Forall_cons; [|apply Forall_nil]. right. split; [reflexivity | apply wlt_head].
  - rewrite spec_names_S. apply SS_app; auto.
    + assert (Hw := words_sorted (r + 2)).
      assert (Hl : Forall (fun w => length w = r + 2) (words (r + 2))).
      { apply Forall_forall. intros w. apply words_In. }
      induction Hw as [|a l Hs IHs Hfa]; constructor.
      * inversion Hl; auto.
      * inversion Hl as [|? ? Ha Hl']; subst. rewrite Forall_forall in *.
        intros y Hy. right. split; [rewrite Ha; symmetry; auto | auto].
    + intros x y Hx Hy. apply spec_names_In in Hx. apply words_In in Hy. left. lia.
Qed.

(* ================================================================== *)
(* 5. make_paths for any number of reflections                         *)
(* ================================================================== *)
Lemma parity_odd k : Nat.odd k = true -> Nat.even (k - 1) = true /\ Nat.even k = false.
Proof.
  destruct k as [|k]; [discriminate|]. rewrite Nat.odd_succ, Nat.even_succ, <- Nat.negb_even.
  replace (S k - 1) with k by lia. intros ->. auto.
Qed.

Lemma parity_even k : 1 <= k -> Nat.odd k = false -> Nat.even (k - 1) = false /\ Nat.even k = true /\ 2 <= k.
Proof.
  destruct k as [|k]; [lia|]. intros _. rewrite Nat.odd_succ, Nat.even_succ, <- Nat.negb_even.
  replace (S k - 1) with k by lia. intros E. rewrite E. repeat split; auto.
  destruct k; [simpl in E; discriminate | lia].
Qed.

Lemma spec_wall_parity s k : 1 <= k -> spec_wall s k = spec_wall s (if Nat.odd k then 1 else 2).
Proof.
  intros Hk. unfold spec_wall, inc_flag, out_flag, leg_down. destruct (Nat.odd k) eqn:E.
  - destruct (parity_odd k E) as [E1 E2]. rewrite E1, E2. destruct s; reflexivity.
  - destruct (parity_even k Hk E) as (E1 & E2 & _). rewrite E1, E2. destruct s; reflexivity.
Qed.

Lemma wall_seq_spec s bw fr n :
  (1 <= n -> bw = spec_wall s 1) -> (2 <= n -> fr = spec_wall s 2) ->
  wall_seq bw fr n = map (spec_wall s) (seq 1 n).
Proof.
  intros Hb Hf. unfold wall_seq. apply map_ext_in. intros k Hk. apply in_seq in Hk.
  rewrite (spec_wall_parity s k) by lia. destruct (Nat.odd k) eqn:E.
  - apply Hb. lia.
  - destruct (parity_even k (proj1 Hk) E) as (_ & _ & H2). apply Hf. lia.
Qed.

Lemma new_path_ok ifs mats modes name :
  2 <= length ifs -> length mats = length ifs - 1 -> length modes = length ifs - 1 ->
  new_path ifs mats modes name = inl (mkPath ifs mats modes name None).
Proof.
  intros H1 H2 H3. unfold new_path.
  rewrite (proj2 (Nat.leb_le _ _) H1), (proj2 (Nat.eqb_eq _ _) H2), (proj2 (Nat.eqb_eq _ _) H3).
  reflexivity.
Qed.

Lemma mapM_named {A} (f : word -> res A) (g : word -> A) names :
  (forall w, In w names -> f w = inl (g w)) ->
  mapM (fun key => named key (f key)) names = inl (map (fun w => (w, g w)) names).
Proof.
  induction names as [|k names IH]; intros H; simpl; auto.
  rewrite (H k) by (simpl; auto). cbn [named bind]. rewrite IH; auto.
  intros w Hw. apply H. simpl; auto.
Qed.

Lemma imm_path_ok b bw_i fr_i w : 1 <= length w ->
  (2 <= length w -> bw_i = spec_wall (Immersion b) 1) ->
  (3 <= length w -> fr_i = spec_wall (Immersion b) 2) ->
  new_path ([spec_probe; spec_front_trans] ++ wall_seq bw_i fr_i (length w - 1) ++ [spec_grid])
           (Couplant :: repeat Block (length w)) (L :: w) w = inl (spec_path (Immersion b) w).
Proof.
  intros Hw Hb Hf.
  rewrite (wall_seq_spec (Immersion b)) by (intros; first [apply Hb; lia | apply Hf; lia]).
  rewrite new_path_ok; [reflexivity| | |];
    cbn [length app]; rewrite ?app_length, ?map_length, ?seq_length, ?repeat_length; cbn [length]; lia.
Qed.

Lemma contact_path_ok fw b um bw_i fr_i w : 1 <= length w ->
  (2 <= length w -> bw_i = spec_wall (Contact fw b um) 1) ->
  (3 <= length w -> fr_i = spec_wall (Contact fw b um) 2) ->
  new_path ([spec_probe] ++ wall_seq bw_i fr_i (length w - 1) ++ [spec_grid])
           (repeat Block (length w)) w w = inl (spec_path (Contact fw b um) w).
Proof.
  intros Hw Hb Hf.
  rewrite (wall_seq_spec (Contact fw b um)) by (intros; first [apply Hb; lia | apply Hf; lia]).
  rewrite new_path_ok; [reflexivity| | |];
    cbn [length app]; rewrite ?app_length, ?map_length, ?seq_length, ?repeat_length; cbn [length]; lia.
Qed.

Lemma make_paths_gen_wired s r : make_paths_gen s r = spec_paths_gen s r.
Proof.
  unfold spec_paths_gen. destruct (r <? 0)%Z eqn:Eneg.
  - destruct s as [bw|fw bw um]; try destruct fw; destruct bw; try destruct um;
      cbn [make_paths_gen make_interfaces_imm make_interfaces_contact make_backwall_refl_contact new_iface bind];
      unfold make_paths_imm_gen, make_paths_contact_gen; rewrite Eneg; reflexivity.
  - destruct (r >=? 1)%Z eqn:E1; destruct (r >=? 2)%Z eqn:E2;
    destruct s as [bw|fw bw um]; try destruct fw; destruct bw; try destruct um;
      cbn [make_paths_gen make_interfaces_imm make_interfaces_contact make_backwall_refl_contact new_iface bind app];
      unfold make_paths_imm_gen, make_paths_contact_gen; rewrite Eneg, ?E1, ?E2;
      cbn [get ilookup ikey_eqb bind negb andb orb]; try reflexivity;
      apply mapM_named; intros w Hw; apply spec_names_In in Hw;
      (apply imm_path_ok || apply contact_path_ok); try (intros; reflexivity); try lia.
Qed.

(* the code's make_paths is the general rule cut at two reflections *)
Lemma spec_paths_gen_in_range s r : (r <= 2)%Z -> spec_paths_gen s r = spec_paths s r.
Proof.
  intros H. unfold spec_paths, spec_paths_gen.
  assert (E : (r >? 2)%Z = false) by lia. rewrite E. reflexivity.
Qed.

Lemma make_paths_gen_agrees s r : (r <= 2)%Z -> make_paths_gen s r = make_paths s r.
Proof.
  intros H. rewrite make_paths_gen_wired, paths_wired_all. apply spec_paths_gen_in_range; auto.
Qed.

Lemma make_paths_limit s r : (2 < r)%Z -> make_paths s r = inr ErrNotImplemented.
Proof.
  intros H. rewrite paths_wired_all. unfold spec_paths.
  assert (E : (r >? 2)%Z = true) by lia. rewrite E. reflexivity.
Qed.

Lemma spec_paths_gen_ok s r paths : spec_paths_gen s r = inl paths ->
  (0 <= r)%Z /\ paths = map (fun w => (w, spec_path s w)) (spec_names (Z.to_nat r)).
Proof.
  unfold spec_paths_gen. destruct (r <? 0)%Z eqn:E; [discriminate|].
  assert (0 <= r)%Z by lia. destruct s as [bw|fw bw um].
  - destruct ((r >=? 1)%Z && negb bw); [discriminate|]. intros H'; inversion H'; auto.
  - destruct (((r >=? 1)%Z && negb bw) || ((r >=? 2)%Z && negb fw)); [discriminate|].
    intros H'; inversion H'; auto.
Qed.

(* when the general make_paths returns: exactly when the walls it needs are declared *)
Lemma make_paths_gen_defined s r :
  (exists paths, make_paths_gen s r = inl paths) <->
  (0 <= r)%Z /\
  match s with
  | Immersion bw => (1 <= r)%Z -> bw = true
  | Contact fw bw _ => ((1 <= r)%Z -> bw = true) /\ ((2 <= r)%Z -> fw = true)
  end.
Proof.
  rewrite make_paths_gen_wired. unfold spec_paths_gen.
  destruct (r <? 0)%Z eqn:E0.
  - split; [intros [p Hp]; discriminate | intros [H _]; lia].
  - assert (H0 : (0 <= r)%Z) by lia.
    destruct (r >=? 1)%Z eqn:E1; destruct (r >=? 2)%Z eqn:E2;
      destruct s as [bw|fw bw um]; try destruct fw; destruct bw; cbn [negb andb orb]; split;
      try (intros [p Hp]; try discriminate; repeat split; intros;
           solve [assumption | reflexivity | exfalso; lia]);
      intros (_ & Hs); try (eexists; reflexivity); exfalso;
      repeat match goal with H : _ /\ _ |- _ => destruct H end;
      repeat match goal with
             | H : (_ -> false = true) |- _ =>
                 first [ (assert (false = true) by (apply H; lia)); discriminate | clear H ]
             end.
Qed.

(* ---- the structure of the documented path of ANY word --------------- *)
Lemma nth_error_app_r {A} (l1 l2 : list A) k : nth_error (l1 ++ l2) (length l1 + k) = nth_error l2 k.
Proof. rewrite nth_error_app2 by lia. f_equal. lia. Qed.

Lemma nth_error_map_seq {A} (f : nat -> A) a n k : k < n -> nth_error (map f (seq a n)) k = Some (f (a + k)).
Proof.
  intros H. rewrite nth_error_map, nth_error_nth' with (d := 0) by (rewrite seq_length; auto).
  rewrite seq_nth by auto. reflexivity.
Qed.

Lemma spec_path_length s w : 1 <= length w ->
  length (p_interfaces (spec_path s w)) = length w + 1 + iface_offset s /\
  length (p_materials (spec_path s w)) = length w + iface_offset s /\
  length (p_modes (spec_path s w)) = length w + iface_offset s.
Proof.
  intros H. destruct s; cbn [spec_path p_interfaces p_materials p_modes iface_offset length app];
    rewrite ?app_length, ?map_length, ?seq_length, ?repeat_length; cbn [length]; lia.
Qed.

Lemma spec_path_wall s w k : 1 <= k < length w ->
  nth_error (p_interfaces (spec_path s w)) (k + iface_offset s) = Some (spec_wall s k).
Proof.
  intros H. destruct s as [bw|fw bw um]; cbn [spec_path p_interfaces iface_offset].
  - replace (k + 1) with (length [spec_probe; spec_front_trans] + (k - 1)) by (simpl; lia).
    rewrite nth_error_app_r, nth_error_app1 by (rewrite map_length, seq_length; lia).
    rewrite nth_error_map_seq by lia. f_equal. f_equal. lia.
  - replace (k + 0) with (length [spec_probe] + (k - 1)) by (simpl; lia).
    rewrite nth_error_app_r, nth_error_app1 by (rewrite map_length, seq_length; lia).
    rewrite nth_error_map_seq by lia. f_equal. f_equal. lia.
Qed.

Lemma spec_path_ends s w : 1 <= length w ->
  nth_error (p_interfaces (spec_path s w)) 0 = Some spec_probe /\
  nth_error (p_interfaces (spec_path s w)) (length w + iface_offset s) = Some spec_grid /\
  (iface_offset s = 1 -> nth_error (p_interfaces (spec_path s w)) 1 = Some spec_front_trans).
Proof.
  intros H. destruct s as [bw|fw bw um]; cbn [spec_path p_interfaces iface_offset].
  - split; [reflexivity|]. split; [|reflexivity].
    replace (length w + 1) with (length [spec_probe; spec_front_trans] + (length w - 1)) by (simpl; lia).
    rewrite nth_error_app_r.
    replace (length w - 1) with (length (map (spec_wall (Immersion bw)) (seq 1 (length w - 1))) + 0)
      at 2 by (rewrite map_length, seq_length; lia).
    rewrite nth_error_app_r. reflexivity.
  - split; [reflexivity|]. split; [|discriminate].
    replace (length w + 0) with (length [spec_probe] + (length w - 1)) by (simpl; lia).
    rewrite nth_error_app_r.
    replace (length w - 1) with (length (map (spec_wall (Contact fw bw um)) (seq 1 (length w - 1))) + 0)
      at 2 by (rewrite map_length, seq_length; lia).
    rewrite nth_error_app_r. reflexivity.
Qed.

Lemma spec_path_materials s w :
  p_materials (spec_path s w) =
    (match s with Immersion _ => [Couplant] | Contact _ _ _ => [] end) ++ repeat Block (length w)
  /\ p_modes (spec_path s w) = block_prefix s ++ w /\ p_name (spec_path s w) = w
  /\ p_rays (spec_path s w) = None.
Proof. destruct s; repeat split; reflexivity. Qed.

(* what a wall crossing is, for any k *)
Lemma spec_wall_meaning s k : 1 <= k ->
  i_points (spec_wall s k) = (if Nat.odd k then PBack else PFront) /\
  i_inc (spec_wall s k) = Some (Nat.even k) /\ i_out (spec_wall s k) = Some (Nat.even k) /\
  (i_kind (spec_wall s k), i_tr (spec_wall s k), i_against (spec_wall s k)) =
    match s with
    | Immersion _ => (Some SolidFluid, Some Reflection, Some Couplant)
    | Contact _ _ um => if Nat.odd k && um then (Some SolidFluid, Some Reflection, Some Under)
                        else (None, None, None)
    end.
Proof.
  intros Hk. unfold spec_wall, inc_flag, out_flag, leg_down. destruct (Nat.odd k) eqn:E.
  - destruct (parity_odd k E) as [E1 E2]. rewrite E1, E2.
    destruct s as [bw|fw bw um]; [|destruct um]; repeat split; reflexivity.
  - destruct (parity_even k Hk E) as (E1 & E2 & _). rewrite E1, E2.
    destruct s as [bw|fw bw um]; repeat split; reflexivity.
Qed.

(* ---- every documented path can be reversed, for any word ------------ *)
Lemma spec_wall_reverse s k : exists j, iface_reverse (spec_wall s k) = inl j.
Proof.
  unfold spec_wall. destruct s as [bw|fw bw um]; [|destruct (Nat.odd k && um)]; cbn; eexists; reflexivity.
Qed.

Lemma mapM_total {A B} (f : A -> res B) l :
  (forall x, In x l -> exists y, f x = inl y) -> exists m, mapM f l = inl m.
Proof.
  induction l as [|x l IH]; intros H; simpl; [eauto|].
  destruct (H x (or_introl eq_refl)) as [y ->].
  destruct IH as [m ->]; [intros; apply H; simpl; auto|]. eauto.
Qed.

Lemma spec_path_reversible s w : 1 <= length w ->
  exists q, path_reverse (spec_path s w) = inl q.
Proof.
  intros Hw. unfold path_reverse.
  assert (Hm : exists ri, mapM iface_reverse (p_interfaces (spec_path s w)) = inl ri).
  { apply mapM_total. intros x Hx.
    assert (Hc : x = spec_probe \/ x = spec_front_trans \/ x = spec_grid \/ exists k, x = spec_wall s k).
    { destruct s; cbn [spec_path p_interfaces] in Hx; rewrite !in_app_iff in Hx; simpl in Hx;
        rewrite in_map_iff in Hx; firstorder eauto. }
    destruct Hc as [->|[->|[->|[k ->]]]]; try (cbn; eexists; reflexivity). apply spec_wall_reverse. }
  destruct Hm as [ri Eri]. rewrite Eri. pose proof (mapM_length _ _ _ Eri) as Lri.
  destruct (spec_path_length s w Hw) as (L1 & L2 & L3).
  rewrite new_path_ok; [eauto| | |]; rewrite !rev_length; lia.
Qed.

(* ================================================================== *)
(* 6. unique views: closed form of "first of its class"                *)
(* ================================================================== *)
Lemma word_lt_irrefl a : ~ word_lt a a.
Proof.
  intros H. apply word_cmp_lt in H.
  assert (E : word_cmp a a = Eq) by (apply word_cmp_eq; reflexivity). congruence.
Qed.

(* kept by the unique filter = not after its reciprocal in the documented order *)
Definition kept (v : viewname) : Prop := ~ doc_lt (recip v) v.

Lemma kept_explicit tx rx :
  kept (tx, rx) <->
  length rx < length tx \/ (length rx = length tx /\ ~ word_lt (rev rx) tx).
Proof.
  unfold kept, recip, doc_lt; cbn [fst snd]. rewrite !rev_length. split.
  - intros H.
    assert (Hle : ~ length tx < length rx).
    { intros Hlt. apply H. right. split; [lia|]. right. split; [lia|]. left. exact Hlt. }
    destruct (Nat.eq_dec (length rx) (length tx)) as [E|NE]; [|left; lia].
    right. split; auto. intros Hw. apply H.
    right. split; [lia|]. right. split; [lia|]. right. split; [lia|]. right. split; [lia|].
    left. exact Hw.
  - intros H D.
    destruct D as [D|(_ & [D|(_ & [D|(E3 & [D|(E4 & [D|(E5 & D)])])])])]; try lia.
    + destruct H as [H|[_ H]]; [lia | contradiction].
    + subst tx. rewrite rev_involutive in D. exact (word_lt_irrefl rx D).
Qed.

Lemma unique_kept_iff names v : NoDup names -> (forall w, In w names -> In (rev w) names) ->
  (In v (make_viewnames names true) <-> In v (make_viewnames names false) /\ kept v).
Proof.
  intros HN Hc. set (all := make_viewnames names false).
  assert (HS : StronglySorted doc_lt all) by (apply viewnames_sorted_strict; auto).
  assert (HND : NoDup all) by (apply viewnames_NoDup; auto).
  rewrite viewnames_unique_eq. fold all. rewrite (filter_first_of_class all v HND). split.
  - intros (l1 & l2 & E & Hv1 & Hr1).
    assert (Hin : In v all) by (rewrite E; apply in_or_app; simpl; auto).
    split; auto. intros D.
    assert (Hr : In (recip v) all) by (apply viewnames_closed; auto).
    rewrite E in HS. destruct (SS_app_inv _ _ _ _ HS) as [_ Hafter].
    rewrite E in Hr. apply in_app_or in Hr as [Hr|[Hr|Hr]].
    + contradiction.
    + rewrite <- Hr in D. exact (doc_lt_irrefl _ D).
    + apply (doc_lt_irrefl v). eapply doc_lt_trans; [apply Hafter; exact Hr | exact D].
  - intros [Hin Hk]. apply in_split in Hin as (l1 & l2 & E). exists l1, l2. split; auto.
    rewrite E in HS. destruct (SS_app_inv _ _ _ _ HS) as [Hbefore _]. split.
    + intros H. exact (doc_lt_irrefl v (Hbefore v H)).
    + intros H. exact (Hk (Hbefore _ H)).
Qed.

(* ================================================================== *)
(* 7. counting, sub-dictionary                                         *)
(* ================================================================== *)
Lemma views_count_all names : length (make_viewnames names false) = length names * length names.
Proof. apply viewnames_length. Qed.

Lemma build_views_length paths vns vs : build_views paths vns = inl vs -> length vs = length vns.
Proof.
  intros H. apply build_views_spec in H as [H _]. rewrite <- H. symmetry. apply map_length.
Qed.

Lemma build_views_subseq paths u l vl : subseq u l -> build_views paths l = inl vl ->
  exists vu, build_views paths u = inl vu /\ subseq vu vl.
Proof.
  intros Hs. revert vl. induction Hs as [|x u l Hs IH|x u l Hs IH]; intros vl; simpl.
  - intros H; inversion H; subst. exists []. split; auto. constructor.
  - destruct x as [tx rx]. destruct (plookup tx paths); [|discriminate].
    destruct (plookup (rev rx) paths); [|discriminate].
    destruct (build_views paths l) as [vs|] eqn:E; [|discriminate].
    intros H; inversion H; subst. destruct (IH vs eq_refl) as (vu & Hu & Hsub).
    exists vu. split; [exact Hu|]. apply subseq_skip. exact Hsub.
  - destruct x as [tx rx]. destruct (plookup tx paths); [|discriminate].
    destruct (plookup (rev rx) paths); [|discriminate].
    destruct (build_views paths l) as [vs|] eqn:E; [|discriminate].
    intros H; inversion H; subst. destruct (IH vs eq_refl) as (vu & -> & Hsub).
    eexists. split; [reflexivity|]. apply subseq_keep. exact Hsub.
Qed.

Lemma assoc_unique {A B} (l : list (A * B)) k v v' :
  NoDup (map fst l) -> In (k, v) l -> In (k, v') l -> v = v'.
Proof.
  induction l as [|[k0 v0] l IH]; simpl; [tauto|].
  intros HN H1 H2. inversion HN as [|? ? Hn HN']; subst.
  destruct H1 as [H1|H1], H2 as [H2|H2].
  - congruence.
  - inversion H1; subst. exfalso. apply Hn. apply in_map_iff. exists (k, v'); auto.
  - inversion H2; subst. exfalso. apply Hn. apply in_map_iff. exists (k, v); auto.
  - eauto.
Qed.

(* the unique dictionary is a sub-dictionary (same View objects, same order) of the full
   one, and holds exactly the kept names *)
Lemma unique_subdict paths va : NoDup (map fst paths) ->
  (forall w, In w (map fst paths) -> In (rev w) (map fst paths)) ->
  make_views_from_paths paths false = inl va ->
  exists vu, make_views_from_paths paths true = inl vu /\ subseq vu va /\
    forall n v, In (n, v) vu <-> In (n, v) va /\ kept n.
Proof.
  intros HN Hc Ha. unfold make_views_from_paths in *.
  destruct (build_views_subseq paths (make_viewnames (map fst paths) true) _ va
              (filter_subseq _) Ha) as (vu & Hu & Hsub).
  exists vu. split; auto. split; auto.
  pose proof (build_views_spec _ _ _ Hu) as [Hnu _].
  pose proof (build_views_spec _ _ _ Ha) as [Hna _].
  assert (HNa : NoDup (map fst va)) by (rewrite Hna; apply viewnames_NoDup; auto).
  intros n v. split.
  - intros Hin. split; [eapply subseq_In; eauto|].
    assert (Hn : In n (map fst vu)) by (apply in_map_iff; exists (n, v); auto).
    rewrite Hnu in Hn. apply (unique_kept_iff _ n HN Hc) in Hn. tauto.
  - intros [Hin Hk].
    assert (Hn : In n (make_viewnames (map fst paths) true)).
    { apply (unique_kept_iff _ n HN Hc). split; auto.
      assert (Hm : In n (map fst va)) by (apply in_map_iff; exists (n, v); auto).
      rewrite Hna in Hm. exact Hm. }
    assert (Hn' : In n (map fst vu)) by (rewrite Hnu; exact Hn). clear Hn. rename Hn' into Hn.
    apply in_map_iff in Hn as ([n' v'] & En & Hin'). cbn [fst] in En. subst n'.
    assert (v = v') by (eapply assoc_unique; [exact HNa | exact Hin | eapply subseq_In; eauto]).
    subst; auto.
Qed.

(* ================================================================== *)
(* 8. the views of every configuration, any number of reflections      *)
(* ================================================================== *)
Lemma map_fst_spec (f : word -> Path) names : map fst (map (fun w => (w, f w)) names) = names.
Proof. rewrite map_map. cbn [fst]. apply map_id. Qed.

Lemma view_wiring_gen s r uo views : make_views_gen s r uo = inl views ->
  (0 <= r)%Z /\
  map fst views = make_viewnames (spec_names (Z.to_nat r)) uo /\
  forall X Y v, In ((X, Y), v) views ->
    In X (spec_names (Z.to_nat r)) /\ In Y (spec_names (Z.to_nat r)) /\
    v_name v = (X, Y) /\
    v_tx v = spec_path s X /\ v_rx v = spec_path s (rev Y) /\
    p_modes (v_tx v) = block_prefix s ++ X /\ p_modes (v_rx v) = block_prefix s ++ rev Y /\
    scat_key v = Some (last X L, hd L Y).
Proof.
  unfold make_views_gen. rewrite make_paths_gen_wired.
  destruct (spec_paths_gen s r) as [paths|e] eqn:E; [|discriminate]. cbn [bind].
  apply spec_paths_gen_ok in E as [Hr E]. subst paths. intros H. split; auto.
  apply views_from_paths_spec in H as [Hn Hw].
  rewrite map_fst_spec in Hn. split; auto.
  intros X Y v Hin. destruct (Hw X Y v Hin) as (H1 & H2 & H3).
  apply plookup_map_some in H1 as [H1 HX]. apply plookup_map_some in H2 as [H2 HY].
  assert (HYn : In Y (spec_names (Z.to_nat r))).
  { assert (Hv : In (X, Y) (map fst views)) by (apply in_map_iff; exists ((X, Y), v); auto).
    rewrite Hn in Hv. apply viewnames_uo_In in Hv. tauto. }
  repeat split; auto.
  - rewrite H1. apply spec_path_modes.
  - rewrite H2. apply spec_path_modes.
  - apply (scat_key_wired v X Y (block_prefix s) (block_prefix s)).
    + eapply spec_names_nonempty; eauto.
    + eapply spec_names_nonempty; eauto.
    + rewrite H1. apply spec_path_modes.
    + rewrite H2. apply spec_path_modes.
Qed.

Lemma make_views_gen_agrees s r uo : (r <= 2)%Z -> make_views_gen s r uo = make_views s r uo.
Proof. intros H. unfold make_views_gen, make_views. rewrite make_paths_gen_agrees; auto. Qed.

(* make_views_gen returns as soon as make_paths_gen does: the names are reversal-closed *)
Lemma make_views_gen_defined s r uo paths : make_paths_gen s r = inl paths ->
  exists views, make_views_gen s r uo = inl views.
Proof.
  intros E. unfold make_views_gen. rewrite E. cbn [bind]. apply views_from_paths_total.
  rewrite make_paths_gen_wired in E. apply spec_paths_gen_ok in E as [_ ->].
  rewrite map_fst_spec. intros w. apply spec_names_closed.
Qed.

Lemma views_count_gen s r uo views : make_views_gen s r uo = inl views ->
  let n := num_paths (Z.to_nat r) in
  if uo then 2 * length views = n * (n + 1) else length views = n * n.
Proof.
  intros H. apply view_wiring_gen in H as (_ & Hn & _).
  assert (HL : length views = length (make_viewnames (spec_names (Z.to_nat r)) uo))
    by (rewrite <- Hn; symmetry; apply map_length).
  cbv zeta. rewrite HL. destruct uo.
  - rewrite unique_views_count_l; auto using spec_names_NoDup, spec_names_closed.
    rewrite spec_names_length. reflexivity.
  - rewrite viewnames_length, spec_names_length. reflexivity.
Qed.

Lemma make_views_in_range s r uo views : make_views s r uo = inl views -> (0 <= r <= 2)%Z.
Proof.
  unfold make_views. rewrite paths_wired_all. unfold spec_paths.
  destruct (r >? 2)%Z eqn:E1; [discriminate|]. destruct (r <? 0)%Z eqn:E2; [discriminate|]. lia.
Qed.

Lemma views_count_config s r uo views : make_views s r uo = inl views ->
  let n := num_paths (Z.to_nat r) in
  if uo then 2 * length views = n * (n + 1) else length views = n * n.
Proof.
  intros H. pose proof (make_views_in_range _ _ _ _ H) as Hr.
  rewrite <- make_views_gen_agrees in H by lia. exact (views_count_gen s r uo views H).
Qed.

(* the unique dictionary of a configuration *)
Lemma unique_subdict_gen s r va : make_views_gen s r false = inl va ->
  exists vu, make_views_gen s r true = inl vu /\ subseq vu va /\
    forall n v, In (n, v) vu <-> In (n, v) va /\ kept n.
Proof.
  unfold make_views_gen. rewrite make_paths_gen_wired.
  destruct (spec_paths_gen s r) as [paths|e] eqn:E; [|discriminate]. cbn [bind].
  apply spec_paths_gen_ok in E as [Hr E]. subst paths.
  apply unique_subdict; rewrite map_fst_spec.
  - apply spec_names_NoDup.
  - intros w. apply spec_names_closed.
Qed.

Lemma unique_subdict_config s r va : make_views s r false = inl va ->
  exists vu, make_views s r true = inl vu /\ subseq vu va /\
    forall n v, In (n, v) vu <-> In (n, v) va /\ kept n.
Proof.
  intros H. pose proof (make_views_in_range _ _ _ _ H) as Hr.
  rewrite <- !make_views_gen_agrees by lia. apply unique_subdict_gen.
  rewrite make_views_gen_agrees by lia. exact H.
Qed.

(* the views dictionary of a configuration has string keys without collision *)
Lemma views_dict_config s r uo paths : make_paths s r = inl paths ->
  make_views_from_paths_dict paths uo =
    match make_views_from_paths paths uo with inl vs => inl (keyed vs) | inr e => inr e end.
Proof.
  intros E. apply views_dict_spec. apply paths_names_modes in E as [-> _]. apply spec_names_NoDup.
Qed.

(* ================================================================== *)
(* 9. the interfaces dictionary                                        *)
(* ================================================================== *)
Lemma interfaces_wired s : make_interfaces s = inl (spec_interfaces s).
Proof. destruct s as [bw|fw bw um]; try destruct fw; destruct bw; try destruct um; reflexivity. Qed.

Lemma make_paths_gen_from_interfaces s r :
  make_paths_gen s r =
  bind (make_interfaces s) (fun d => match s with
                                     | Immersion _ => make_paths_imm_gen d r
                                     | Contact _ _ _ => make_paths_contact_gen d r
                                     end).
Proof. destruct s; reflexivity. Qed.

(* the two Interface objects of the front wall in immersion *)
Lemma frontwall_two_objects bw :
  ilookup KFrontTrans (spec_interfaces (Immersion bw)) = Some spec_front_trans /\
  ilookup KFrontRefl (spec_interfaces (Immersion bw)) = Some (spec_wall (Immersion bw) 2) /\
  i_points spec_front_trans = i_points (spec_wall (Immersion bw) 2) /\
  i_tr spec_front_trans = Some Transmission /\ i_tr (spec_wall (Immersion bw) 2) = Some Reflection /\
  i_kind spec_front_trans = Some FluidSolid /\ i_kind (spec_wall (Immersion bw) 2) = Some SolidFluid /\
  i_inc spec_front_trans = Some false /\ i_inc (spec_wall (Immersion bw) 2) = Some true.
Proof. destruct bw; repeat split; reflexivity. Qed.

(* ================================================================== *)
(* 10. the reversed path of any word, explicitly                       *)
(* ================================================================== *)
Lemma spec_wall_reverse_fixed s k : 1 <= k -> iface_reverse (spec_wall s k) = inl (spec_wall s k).
Proof.
  intros Hk. rewrite (spec_wall_parity s k Hk).
  destruct (Nat.odd k); destruct s as [bw|fw bw um]; try destruct um; reflexivity.
Qed.

Lemma mapM_walls s ks : (forall k, In k ks -> 1 <= k) ->
  mapM iface_reverse (map (spec_wall s) ks) = inl (map (spec_wall s) ks).
Proof.
  induction ks as [|k ks IH]; intros H; simpl; auto.
  rewrite spec_wall_reverse_fixed by (apply H; simpl; auto).
  rewrite IH by (intros; apply H; simpl; auto). reflexivity.
Qed.

Lemma rev_repeat {A} (x : A) n : rev (repeat x n) = repeat x n.
Proof.
  induction n as [|n IH]; simpl; auto. rewrite IH. symmetry. apply repeat_cons.
Qed.

Lemma spec_path_reverse_explicit s w : 1 <= length w ->
  path_reverse (spec_path s w) = inl (spec_path_reversed s w).
Proof.
  intros Hw. unfold path_reverse.
  assert (HW : mapM iface_reverse (map (spec_wall s) (seq 1 (length w - 1)))
               = inl (map (spec_wall s) (seq 1 (length w - 1)))).
  { apply mapM_walls. intros k Hk. apply in_seq in Hk. lia. }
  assert (EG : mapM iface_reverse [spec_grid] = inl [spec_grid_rev]) by reflexivity.
  destruct s as [bw|fw bw um]; cbn [spec_path p_interfaces p_materials p_modes p_name p_rays].
  - assert (EP : mapM iface_reverse [spec_probe; spec_front_trans] = inl [spec_probe_rev; spec_front_trans_rev])
      by reflexivity.
    rewrite (mapM_app _ _ _ _ _ EP (mapM_app _ _ _ _ _ HW EG)).
    rewrite new_path_ok.
    + cbn [p_interfaces p_materials p_modes p_name option_map spec_path_reversed].
      rewrite !rev_app_distr. cbn [rev app]. rewrite <- map_rev, ?rev_repeat, <- ?app_assoc. reflexivity.
    + rewrite rev_length, !app_length, map_length, seq_length. simpl. lia.
    + rewrite !rev_length, !app_length, map_length, seq_length. simpl. rewrite repeat_length. lia.
    + rewrite !rev_length, !app_length, map_length, seq_length. simpl. lia.
  - assert (EP : mapM iface_reverse [spec_probe] = inl [spec_probe_rev]) by reflexivity.
    rewrite (mapM_app _ _ _ _ _ EP (mapM_app _ _ _ _ _ HW EG)).
    rewrite new_path_ok.
    + cbn [p_interfaces p_materials p_modes p_name option_map spec_path_reversed].
      rewrite !rev_app_distr. cbn [rev app]. rewrite <- map_rev, ?rev_repeat, <- ?app_assoc. reflexivity.
    + rewrite rev_length, !app_length, map_length, seq_length. simpl. lia.
    + rewrite !rev_length, !app_length, map_length, seq_length. simpl. rewrite repeat_length. lia.
    + rewrite !rev_length, !app_length, map_length, seq_length. simpl. lia.
Qed.

Lemma spec_path_reverse_twice s w : 1 <= length w ->
  path_reverse (spec_path_reversed s w) = inl (spec_path s w).
Proof. intros Hw. apply path_reverse_invol. apply spec_path_reverse_explicit; auto. Qed.

(* ================================================================== *)
(* 11. the public make_views on the real objects, end to end           *)
(* ================================================================== *)
Lemma liftX_inl {A} (x : res A) a : liftX x = inl a -> x = inl a.
Proof. destruct x; simpl; intros H; inversion H; reflexivity. Qed.

Lemma make_views_imm_obj_wired o r uo views : make_views_imm_obj o r uo = inl views ->
  exists bw, eo_backwall o = Attr bw /\ eo_frontwall o = Attr true /\
             eo_couplant_material o = Attr true /\ make_views (Immersion bw) r uo = inl views.
Proof.
  unfold make_views_imm_obj.
  destruct (eo_couplant_material o) as [|c]; [discriminate|].
  destruct (eo_block_material o) as [|b]; [discriminate|].
  destruct (eo_frontwall o) as [|fw]; [discriminate|].
  destruct (eo_backwall o) as [|bw]; [discriminate|].
  destruct fw; [|discriminate]. cbn [negb].
  destruct c; [|rewrite make_interfaces_imm_c_none; discriminate].
  rewrite make_interfaces_imm_c_some. intros H. apply liftX_inl in H.
  exists bw. repeat split; auto. unfold make_views, make_paths.
  destruct (make_interfaces_imm bw); exact H.
Qed.

Lemma make_views_contact_obj_wired o r uo views : make_views_contact_obj o r uo = inl views ->
  make_views (Contact (attr_or_none (eo_frontwall o)) (attr_or_none (eo_backwall o))
                      (attr_or_none (eo_under_material o))) r uo = inl views.
Proof.
  intros H. destruct (eo_block_material o) as [|m1] eqn:E1; [destruct (eo_material o) as [|m2] eqn:E2|].
  - rewrite make_views_contact_no_material in H by auto. discriminate.
  - rewrite make_views_contact_setup in H by (right; congruence). apply liftX_inl; auto.
  - rewrite make_views_contact_setup in H by (left; congruence). apply liftX_inl; auto.
Qed.

(* ================================================================== *)
(* 12. the keys of the views dictionary and reciprocal_viewname        *)
(* ================================================================== *)
Lemma views_keys_reciprocal paths vs k :
  (forall w, In w (map fst paths) -> In (rev w) (map fst paths)) ->
  make_views_from_paths paths false = inl vs ->
  In k (map fst (keyed vs)) ->
  exists k', reciprocal_viewname_str k = inl k' /\ In k' (map fst (keyed vs)).
Proof.
  intros Hc Hv Hk. apply views_from_paths_spec in Hv as [Hn _].
  unfold keyed in *. rewrite map_map in *. cbn [fst] in *.
  rewrite <- (map_map fst view_str) in *. rewrite Hn in *.
  apply in_map_iff in Hk as (v & <- & Hin).
  exists (view_str (recip v)). split; [apply reciprocal_str_view|].
  apply in_map. apply viewnames_closed; auto.
Qed.
