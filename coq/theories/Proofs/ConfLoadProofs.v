(* Proofs/ConfLoadProofs.v — lemmas about Model/ConfLoad.v (C20): the *_from_conf
   builders as functions of the configuration tree, frame_from_conf, the BRAIN loader.
   Axiom-free. *)
From Coq Require Import List String Bool ZArith Arith Lia Permutation QArith.
From Arim Require Import Model.Config Model.ConfLoad Proofs.ConfigProofs Proofs.ConfigTimeProofs.
Import ListNotations.
Local Close Scope Q_scope.
Local Open Scope list_scope.
Local Open Scope string_scope.

(* ------------------------------------------------------------------ *)
(* generic: bind, association lists                                    *)
(* ------------------------------------------------------------------ *)
Lemma bind_Ok : forall (A B : Type) (r : res A) (f : A -> res B) b,
  bind r f = Ok b -> exists a, r = Ok a /\ f a = Ok b.
Proof. intros A B [a|e] f b H; cbn in H; [now exists a | discriminate]. Qed.

Lemma bind_Err : forall (A B : Type) (r : res A) (f : A -> res B) e,
  bind r f = Err e -> r = Err e \/ exists a, r = Ok a /\ f a = Err e.
Proof. intros A B [a|e'] f e H; cbn in H; [right; now exists a | left; congruence]. Qed.

Ltac inv_bind H :=
  let a := fresh "a" in let Ha := fresh "Ha" in
  apply bind_Ok in H; destruct H as [a [Ha H]].

Lemma getitem_Ok : forall (V : Type) k (m : items V) v, getitem k m = Ok v <-> lookup k m = Some v.
Proof. intros V k m v. unfold getitem. destruct (lookup k m); split; intros H; congruence. Qed.

Lemma has_lookup : forall (V : Type) k (m : items V), has k m = true <-> exists v, lookup k m = Some v.
Proof.
  intros V k m. unfold has. destruct (lookup k m) as [v|]; split; try discriminate; eauto.
  intros [v H]. discriminate.
Qed.

Lemma has_false_lookup : forall (V : Type) k (m : items V), has k m = false <-> lookup k m = None.
Proof. intros V k m. unfold has. destruct (lookup k m); split; congruence. Qed.

Lemma lookup_map_values : forall (A B : Type) (f : A -> B) k (m : items A),
  lookup k (map_values f m) = option_map f (lookup k m).
Proof.
  intros A B f k. induction m as [|[k0 v0] m IH]; [reflexivity|]. cbn.
  destruct (String.eqb k k0); [reflexivity | exact IH].
Qed.

Lemma keys_map_values : forall (A B : Type) (f : A -> B) (m : items A), keys (map_values f m) = keys m.
Proof. intros A B f m. unfold keys, map_values. rewrite map_map. reflexivity. Qed.

Lemma has_map_values : forall (A B : Type) (f : A -> B) k (m : items A), has k (map_values f m) = has k m.
Proof. intros. unfold has. rewrite lookup_map_values. now destruct (lookup k m). Qed.

Lemma has_set : forall (V : Type) k k' (v : V) m,
  has k' (set k v m) = if String.eqb k' k then true else has k' m.
Proof.
  intros V k k' v m. unfold has. destruct (String.eqb k' k) eqn:E.
  - apply String.eqb_eq in E; subst. now rewrite lookup_set_eq.
  - apply String.eqb_neq in E. rewrite lookup_set_neq by congruence. reflexivity.
Qed.

Lemma in_keys_has : forall (V : Type) k (m : items V), In k (keys m) <-> has k m = true.
Proof.
  intros V k m. unfold has. destruct (lookup k m) as [v|] eqn:E.
  - split; [reflexivity|]. intros _. apply lookup_In in E. exact (in_map fst m (k, v) E).
  - split; [|discriminate]. intros H. apply lookup_None_notin in E. contradiction.
Qed.

Lemma mem_In : forall k l, mem k l = true <-> In k l.
Proof.
  intros k l. unfold mem. rewrite existsb_exists. split.
  - intros [x [Hx E]]. apply String.eqb_eq in E. now subst.
  - intros H. exists k. split; [exact H | apply String.eqb_refl].
Qed.

(* a permutation of the entries of a dict answers every lookup in the same way *)
Lemma perm_lookup : forall (V : Type) (m m' : items V), NoDup (keys m) -> Permutation m m' ->
  forall k, lookup k m = lookup k m'.
Proof.
  intros V m m' Hnd Hp k.
  assert (Hnd' : NoDup (keys m')).
  { unfold keys. eapply Permutation_NoDup; [apply Permutation_map; exact Hp | exact Hnd]. }
  destruct (lookup k m) as [v|] eqn:E.
  - symmetry. apply In_lookup; [exact Hnd'|]. eapply Permutation_in; [exact Hp | now apply lookup_In].
  - destruct (lookup k m') as [v'|] eqn:E'; [|reflexivity].
    apply lookup_In in E'. apply Permutation_sym in Hp.
    pose proof (Permutation_in _ Hp E') as Hin.
    rewrite (In_lookup m k v' Hnd Hin) in E. discriminate.
Qed.

(* the binding of keyword arguments to a signature looks at the SET of keys only *)
Lemma sig_ok_spec : forall (V : Type) required allowed (kw : items V),
  sig_ok required allowed kw = true <->
  (forall k, has k kw = true -> In k allowed) /\ (forall k, In k required -> has k kw = true).
Proof.
  intros V required allowed kw. unfold sig_ok. rewrite andb_true_iff, !forallb_forall. split.
  - intros [H1 H2]. split; [|exact H2]. intros k Hk. apply mem_In, H1, in_keys_has, Hk.
  - intros [H1 H2]. split; [|exact H2]. intros k Hk. apply mem_In, H1, in_keys_has, Hk.
Qed.

Lemma sig_ok_ext : forall (V W : Type) required allowed (kw : items V) (kw' : items W),
  (forall k, has k kw = has k kw') -> sig_ok required allowed kw = sig_ok required allowed kw'.
Proof.
  intros V W required allowed kw kw' H.
  destruct (sig_ok required allowed kw') eqn:E.
  - apply sig_ok_spec. apply sig_ok_spec in E. destruct E as [E1 E2]. split; intros k Hk.
    + apply E1. now rewrite <- H.
    + rewrite H. now apply E2.
  - destruct (sig_ok required allowed kw) eqn:E'; [|reflexivity].
    apply sig_ok_spec in E'. destruct E' as [E1 E2].
    assert (sig_ok required allowed kw' = true); [|congruence].
    apply sig_ok_spec. split; intros k Hk.
    + apply E1. now rewrite H.
    + rewrite <- H. now apply E2.
Qed.

Lemma sig_check_Ok : forall (V : Type) required allowed (kw : items V) u,
  sig_check required allowed kw = Ok u <-> sig_ok required allowed kw = true.
Proof.
  intros V required allowed kw []. unfold sig_check.
  destruct (sig_ok required allowed kw); split; congruence.
Qed.

(* ------------------------------------------------------------------ *)
(* materials                                                           *)
(* ------------------------------------------------------------------ *)
Section Builders.
  Variable L : Type.
  Variables (is_none is_float : L -> bool) (leaf_has : L -> string -> option bool).
  Variable leaf_seq : L -> option (list L).
  Notation att_arg := (att_arg L is_none is_float).
  Notation material_attenuation_from_conf := (material_attenuation_from_conf L is_float).
  Notation material_from_conf := (material_from_conf L is_none is_float).
  Notation wall_from_conf := (wall_from_conf L).
  Notation get_not_none := (get_not_none L is_none).

  (* what an optional attenuation entry of a material conf becomes (specification) *)
  Definition att_spec (o : option (cfg L)) : res (option (att_call L)) :=
    match o with
    | None => Ok None
    | Some (Leaf v) =>
        if is_none v then Ok None
        else if is_float v then Ok (Some (AttConstant v)) else Err EType
    | Some (Map kw) => if has "kind" kw then Ok (Some (AttFactory kw)) else Err EType
    end.

  Lemma att_arg_spec : forall k (m : items (cfg L)),
    att_arg k (map_values MCfg m) = att_spec (lookup k m).
  Proof.
    intros k m. unfold ConfLoad.att_arg. rewrite lookup_map_values.
    destruct (lookup k m) as [[v|kw]|]; cbn; [| |reflexivity].
    - destruct (is_none v); [reflexivity|]. now destruct (is_float v).
    - now destruct (has "kind" kw).
  Qed.

  Lemma att_arg_set_other : forall k k' a (kw : items (marg L)), k <> k' ->
    att_arg k (set k' a kw) = att_arg k kw.
  Proof. intros k k' a kw H. unfold ConfLoad.att_arg. rewrite lookup_set_neq by congruence. reflexivity. Qed.

  (* the keyword arguments that reach Material(...), as a function of the conf *)
  Definition material_kwargs_of (m : items (cfg L)) (la ta : option (att_call L)) : items (marg L) :=
    set "transverse_att" (MAtt ta) (set "longitudinal_att" (MAtt la) (map_values MCfg m)).

  Lemma material_kwargs_has : forall m la ta k,
    has k (material_kwargs_of m la ta) =
    if String.eqb k "transverse_att" then true
    else if String.eqb k "longitudinal_att" then true else has k m.
  Proof. intros. unfold material_kwargs_of. rewrite !has_set, has_map_values. reflexivity. Qed.

  Lemma material_sig_iff : forall m la ta,
    sig_ok material_required material_params (material_kwargs_of m la ta) = true <->
    (forall k, has k m = true -> In k material_params) /\ has "longitudinal_vel" m = true.
  Proof.
    intros m la ta. rewrite sig_ok_spec. split.
    - intros [H1 H2]. split.
      + intros k Hk. apply H1. rewrite material_kwargs_has, Hk.
        now destruct (String.eqb k "transverse_att"), (String.eqb k "longitudinal_att").
      + specialize (H2 "longitudinal_vel" (or_introl eq_refl)). now rewrite material_kwargs_has in H2.
    - intros [H3 H4]. split.
      + intros k Hk. rewrite material_kwargs_has in Hk.
        destruct (String.eqb k "transverse_att") eqn:E1; [apply String.eqb_eq in E1; subst; cbn; tauto|].
        destruct (String.eqb k "longitudinal_att") eqn:E2; [apply String.eqb_eq in E2; subst; cbn; tauto|].
        now apply H3.
      + intros k [<-|[]]. now rewrite material_kwargs_has.
  Qed.

  (* MATERIAL_ACCEPTS_IFF: exactly when material_from_conf returns, and what *)
  Lemma material_from_conf_iff : forall (m : items (cfg L)) kw,
    material_from_conf (Map m) = Ok kw <->
    exists la ta,
      att_spec (lookup "longitudinal_att" m) = Ok la /\
      att_spec (lookup "transverse_att" m) = Ok ta /\
      (forall k, has k m = true -> In k material_params) /\
      has "longitudinal_vel" m = true /\
      kw = material_kwargs_of m la ta.
  Proof.
    intros m kw. unfold ConfLoad.material_from_conf. rewrite att_arg_spec.
    destruct (att_spec (lookup "longitudinal_att" m)) as [la|e1] eqn:E1; cbn [bind].
    2: { split; [discriminate | intros [la [ta [H _]]]; discriminate]. }
    rewrite att_arg_set_other by discriminate. rewrite att_arg_spec.
    destruct (att_spec (lookup "transverse_att" m)) as [ta|e2] eqn:E2; cbn [bind].
    2: { split; [discriminate | intros [la' [ta [_ [H _]]]]; discriminate]. }
    fold (material_kwargs_of m la ta). unfold sig_check.
    destruct (sig_ok material_required material_params (material_kwargs_of m la ta)) eqn:ES; cbn [bind].
    - apply material_sig_iff in ES. destruct ES as [H3 H4]. split.
      + intros [= <-]. exists la, ta. repeat split; assumption.
      + intros [la' [ta' [H1 [H2 [_ [_ ->]]]]]]. injection H1 as <-. injection H2 as <-. reflexivity.
    - split; [discriminate|]. intros [la' [ta' [_ [_ [H3 [H4 _]]]]]].
      assert (sig_ok material_required material_params (material_kwargs_of m la ta) = true); [|congruence].
      apply material_sig_iff. now split.
  Qed.

  (* every configured value reaches Material unchanged; each attenuation is built from
     ITS OWN entry *)
  Lemma material_kwargs_lookup : forall m la ta k,
    lookup k (material_kwargs_of m la ta) =
    if String.eqb k "transverse_att" then Some (MAtt ta)
    else if String.eqb k "longitudinal_att" then Some (MAtt la)
    else option_map MCfg (lookup k m).
  Proof.
    intros m la ta k. unfold material_kwargs_of.
    destruct (String.eqb k "transverse_att") eqn:E1.
    - apply String.eqb_eq in E1; subst. apply lookup_set_eq.
    - apply String.eqb_neq in E1. rewrite lookup_set_neq by congruence.
      destruct (String.eqb k "longitudinal_att") eqn:E2.
      + apply String.eqb_eq in E2; subst. apply lookup_set_eq.
      + apply String.eqb_neq in E2. rewrite lookup_set_neq by congruence. apply lookup_map_values.
  Qed.

  Lemma material_from_conf_values : forall (m : items (cfg L)) kw,
    material_from_conf (Map m) = Ok kw ->
    (forall k, k <> "longitudinal_att" -> k <> "transverse_att" ->
               lookup k kw = option_map MCfg (lookup k m)) /\
    (exists la, att_spec (lookup "longitudinal_att" m) = Ok la /\
                lookup "longitudinal_att" kw = Some (MAtt la)) /\
    (exists ta, att_spec (lookup "transverse_att" m) = Ok ta /\
                lookup "transverse_att" kw = Some (MAtt ta)).
  Proof.
    intros m kw H. apply material_from_conf_iff in H.
    destruct H as [la [ta [H1 [H2 [_ [_ ->]]]]]]. repeat split.
    - intros k K1 K2. rewrite material_kwargs_lookup.
      apply String.eqb_neq in K1, K2. now rewrite K1, K2.
    - exists la. split; [exact H1|]. now rewrite material_kwargs_lookup.
    - exists ta. split; [exact H2|]. now rewrite material_kwargs_lookup.
  Qed.

  (* only the lookups of the conf matter: the order of the keys in the file is irrelevant
     for every lookup in the result *)
  Lemma material_from_conf_key_order : forall (m m' : items (cfg L)) kw,
    (forall k, lookup k m = lookup k m') ->
    material_from_conf (Map m) = Ok kw ->
    exists kw', material_from_conf (Map m') = Ok kw' /\ forall k, lookup k kw' = lookup k kw.
  Proof.
    intros m m' kw Hl H. apply material_from_conf_iff in H.
    destruct H as [la [ta [H1 [H2 [H3 [H4 ->]]]]]].
    exists (material_kwargs_of m' la ta). split.
    - apply material_from_conf_iff. exists la, ta. rewrite <- !Hl. repeat split; try assumption.
      + intros k Hk. apply H3. unfold has in *. now rewrite Hl.
      + unfold has in *. now rewrite <- Hl.
    - intros k. rewrite !material_kwargs_lookup, Hl. reflexivity.
  Qed.

  Lemma material_from_conf_leaf : forall v, material_from_conf (Leaf v) = Err EAttr.
  Proof. reflexivity. Qed.

  (* attributes of the Material: absent or null entries are None, metadata defaults to {} *)
  Lemma material_defaults : forall m la ta,
    let M := material_of_kwargs L is_none (material_kwargs_of m la ta) in
    mat_longitudinal_att L M = la /\ mat_transverse_att L M = ta /\
    (lookup "transverse_vel" m = None -> mat_transverse_vel L M = None) /\
    (lookup "density" m = None -> mat_density L M = None) /\
    (lookup "state_of_matter" m = None -> mat_state_of_matter L M = None) /\
    (lookup "metadata" m = None -> mat_metadata L M = MCfg (Map [])) /\
    (forall c, lookup "transverse_vel" m = Some (Map c) -> mat_transverse_vel L M = Some (MCfg (Map c))) /\
    (forall v, lookup "transverse_vel" m = Some (Leaf v) ->
               mat_transverse_vel L M = if is_none v then None else Some (MCfg (Leaf v))) /\
    (forall v, lookup "density" m = Some (Leaf v) ->
               mat_density L M = if is_none v then None else Some (MCfg (Leaf v))) /\
    (forall v, lookup "longitudinal_vel" m = Some (Leaf v) -> is_none v = false ->
               mat_longitudinal_vel L M = Some (MCfg (Leaf v))).
  Proof.
    intros m la ta. cbn zeta. unfold material_of_kwargs. cbn [mat_longitudinal_att mat_transverse_att
      mat_transverse_vel mat_density mat_state_of_matter mat_metadata mat_longitudinal_vel].
    rewrite !material_kwargs_lookup. cbn [String.eqb Ascii.eqb Bool.eqb andb att_of].
    repeat split.
    - intros ->. reflexivity.
    - intros ->. reflexivity.
    - intros ->. reflexivity.
    - intros ->. reflexivity.
    - intros c ->. reflexivity.
    - intros v ->. cbn. now destruct (is_none v).
    - intros v ->. cbn. now destruct (is_none v).
    - intros v -> Hv. cbn. now rewrite Hv.
  Qed.

  (* ---------------------------------------------------------------- *)
  (* walls and examination objects                                     *)
  (* ---------------------------------------------------------------- *)
  Notation block_in_immersion_from_conf := (block_in_immersion_from_conf L is_none is_float).
  Notation block_in_contact_from_conf := (block_in_contact_from_conf L is_none is_float).
  Notation examination_object_from_conf := (examination_object_from_conf L is_none is_float).

  (* a wall is built from ITS OWN mapping, all of it, and nothing else *)
  Lemma wall_from_conf_iff : forall c name w,
    wall_from_conf c name = Ok w <->
    exists m, c = Map m /\ has "name" m = false /\
              sig_ok wall_required wall_params m = true /\ w = mkWall m name.
  Proof.
    intros c name w. destruct c as [v|m]; cbn.
    - split; [discriminate | intros [m [H _]]; discriminate].
    - unfold sig_check. destruct (has "name" m) eqn:En.
      + split; [discriminate | intros [m' [[= <-] [H _]]]; congruence].
      + destruct (sig_ok wall_required wall_params m) eqn:Es; cbn.
        * split; [intros [= <-]; now exists m | intros [m' [[= <-] [_ [_ ->]]]]; reflexivity].
        * split; [discriminate | intros [m' [[= <-] [_ [H _]]]]; congruence].
  Qed.

  Lemma immersion_fields : forall conf o, block_in_immersion_from_conf conf = Ok o ->
    exists bc cc fm km b c,
      lookup "block_material" conf = Some bc /\ material_from_conf bc = Ok b /\
      lookup "couplant_material" conf = Some cc /\ material_from_conf cc = Ok c /\
      lookup "frontwall" conf = Some (Map fm) /\ lookup "backwall" conf = Some (Map km) /\
      o = BlockInImmersion b c (mkWall fm "Frontwall") (mkWall km "Backwall").
  Proof.
    intros conf o H. unfold ConfLoad.block_in_immersion_from_conf in H.
    inv_bind H. inv_bind H. inv_bind H. inv_bind H. inv_bind H. inv_bind H. inv_bind H. inv_bind H.
    injection H as <-.
    apply getitem_Ok in Ha, Ha1, Ha3, Ha5.
    apply wall_from_conf_iff in Ha4, Ha6.
    destruct Ha4 as [fm [-> [_ [_ ->]]]]. destruct Ha6 as [km [-> [_ [_ ->]]]].
    exists a1, a, fm, km, a2, a0. repeat split; assumption.
  Qed.

  Definition opt_wall_spec (o : option (cfg L)) (name : string) (w : option (wall_call L)) : Prop :=
    match o with
    | None => w = None
    | Some c => exists m, c = Map m /\ w = Some (mkWall m name)
    end.

  Lemma opt_wall_Ok : forall o name w, opt_wall L o name = Ok w -> opt_wall_spec o name w.
  Proof.
    intros [c|] name w H; cbn in *; [|now injection H as <-].
    inv_bind H. injection H as <-. apply wall_from_conf_iff in Ha.
    destruct Ha as [m [-> [_ [_ ->]]]]. now exists m.
  Qed.

  Lemma contact_fields : forall conf o, block_in_contact_from_conf conf = Ok o ->
    exists bc b f k u,
      lookup "block_material" conf = Some bc /\ material_from_conf bc = Ok b /\
      opt_wall_spec (get_not_none "frontwall" conf) "Frontwall" f /\
      opt_wall_spec (get_not_none "backwall" conf) "Backwall" k /\
      match get_not_none "under_material" conf with
      | None => u = None
      | Some c => exists kw, material_from_conf c = Ok kw /\ u = Some kw
      end /\
      o = BlockInContact b f k u.
  Proof.
    intros conf o H. unfold ConfLoad.block_in_contact_from_conf in H.
    inv_bind H. inv_bind H. inv_bind H. inv_bind H. inv_bind H. injection H as <-.
    apply getitem_Ok in Ha. apply opt_wall_Ok in Ha1, Ha2.
    exists a, a0, a1, a2, a3. repeat split; try assumption.
    destruct (get_not_none "under_material" conf) as [c|]; [|now injection Ha3 as <-].
    inv_bind Ha3. injection Ha3 as <-. now exists a4.
  Qed.

  (* absent / null walls and under-material of a block in contact are None *)
  Lemma get_not_none_spec : forall k (m : items (cfg L)),
    get_not_none k m = match lookup k m with
                       | Some (Leaf v) => if is_none v then None else Some (Leaf v)
                       | o => o
                       end.
  Proof. intros k m. unfold ConfLoad.get_not_none. now destruct (lookup k m) as [[v|c]|]. Qed.

  (* no builder below the dispatch raises NotImplementedError *)
  Definition noNI {A} (r : res A) : Prop := r <> Err ENotImplemented.
  Lemma noNI_bind : forall (A B : Type) (r : res A) (f : A -> res B),
    noNI r -> (forall a, noNI (f a)) -> noNI (bind r f).
  Proof. intros A B [a|e] f H1 H2; cbn; [apply H2 | intros H; apply H1; congruence]. Qed.
  Lemma noNI_Ok : forall (A : Type) (a : A), noNI (Ok a).
  Proof. intros A a H. discriminate. Qed.
  Lemma noNI_getitem : forall (V : Type) k (m : items V), noNI (getitem k m).
  Proof. intros V k m. unfold getitem, noNI. destruct (lookup k m); discriminate. Qed.
  Lemma noNI_sig_check : forall (V : Type) r a (m : items V), noNI (sig_check r a m).
  Proof. intros V r a m. unfold sig_check, noNI. destruct (sig_ok r a m); discriminate. Qed.
  Lemma noNI_att : forall c, noNI (material_attenuation_from_conf c).
  Proof.
    intros [v|kw]; unfold noNI; cbn; [destruct (is_float v) | destruct (has "kind" kw)]; discriminate.
  Qed.
  Lemma noNI_att_arg : forall k kw, noNI (att_arg k kw).
  Proof.
    intros k kw. unfold ConfLoad.att_arg.
    destruct (lookup k kw) as [[[v|c]|[a|]]|]; try (intros H; discriminate).
    - destruct (is_none v); [intros H; discriminate|].
      apply noNI_bind; [apply noNI_att | intros; apply noNI_Ok].
    - apply noNI_bind; [apply noNI_att | intros; apply noNI_Ok].
  Qed.
  Lemma noNI_material : forall c, noNI (material_from_conf c).
  Proof.
    intros [v|m]; [intros H; discriminate|]. unfold ConfLoad.material_from_conf.
    apply noNI_bind; [apply noNI_att_arg | intros la].
    apply noNI_bind; [apply noNI_att_arg | intros ta].
    apply noNI_bind; [apply noNI_sig_check | intros; apply noNI_Ok].
  Qed.
  Lemma noNI_wall : forall c name, noNI (wall_from_conf c name).
  Proof.
    intros [v|m] name; [intros H; discriminate|]. cbn.
    destruct (has "name" m); [intros H; discriminate|].
    apply noNI_bind; [apply noNI_sig_check | intros; apply noNI_Ok].
  Qed.
  Lemma noNI_opt_wall : forall o name, noNI (opt_wall L o name).
  Proof.
    intros [c|] name; cbn; [|apply noNI_Ok].
    apply noNI_bind; [apply noNI_wall | intros; apply noNI_Ok].
  Qed.
  Lemma noNI_immersion : forall conf, noNI (block_in_immersion_from_conf conf).
  Proof.
    intros conf. unfold ConfLoad.block_in_immersion_from_conf.
    repeat (apply noNI_bind; [first [apply noNI_getitem | apply noNI_material | apply noNI_wall] | intros]).
    apply noNI_Ok.
  Qed.
  Lemma noNI_contact : forall conf, noNI (block_in_contact_from_conf conf).
  Proof.
    intros conf. unfold ConfLoad.block_in_contact_from_conf.
    apply noNI_bind; [apply noNI_getitem | intros].
    apply noNI_bind; [apply noNI_material | intros].
    apply noNI_bind; [apply noNI_opt_wall | intros].
    apply noNI_bind; [apply noNI_opt_wall | intros].
    apply noNI_bind; [|intros; apply noNI_Ok].
    destruct (get_not_none "under_material" conf); [|apply noNI_Ok].
    apply noNI_bind; [apply noNI_material | intros; apply noNI_Ok].
  Qed.

  (* the KIND of object built is decided by the set of keys present, and
     NotImplementedError means exactly: no block_material *)
  Lemma exam_kind : forall conf,
    match examination_object_from_conf conf with
    | Ok (BlockInImmersion _ _ _ _) => exam_dispatch conf = ExImmersion
    | Ok (BlockInContact _ _ _ _) => exam_dispatch conf = ExContact
    | Err ENotImplemented => exam_dispatch conf = ExNotImplemented
    | Err _ => exam_dispatch conf <> ExNotImplemented
    end.
  Proof.
    intros conf. unfold ConfLoad.examination_object_from_conf.
    destruct (exam_dispatch conf) eqn:Ed.
    - destruct (block_in_immersion_from_conf conf) as [o|e] eqn:E.
      + apply immersion_fields in E. destruct E as [? [? [? [? [? [? [_ [_ [_ [_ [_ [_ ->]]]]]]]]]]]]. reflexivity.
      + destruct e; try discriminate. exfalso. exact (noNI_immersion conf E).
    - destruct (block_in_contact_from_conf conf) as [o|e] eqn:E.
      + apply contact_fields in E. destruct E as [? [? [? [? [? [_ [_ [_ [_ [_ ->]]]]]]]]]]. reflexivity.
      + destruct e; try discriminate. exfalso. exact (noNI_contact conf E).
    - reflexivity.
  Qed.

  Lemma exam_dispatch_spec : forall (V : Type) (conf : items V),
    exam_dispatch conf =
    if has "block_material" conf
    then if has "frontwall" conf && has "backwall" conf && has "couplant_material" conf
         then ExImmersion else ExContact
    else ExNotImplemented.
  Proof.
    intros V conf. unfold exam_dispatch.
    destruct (has "frontwall" conf), (has "backwall" conf), (has "couplant_material" conf),
             (has "block_material" conf); reflexivity.
  Qed.

  (* ---------------------------------------------------------------- *)
  (* probe                                                             *)
  (* ---------------------------------------------------------------- *)
  (* [repair] the probe library is a parameter: Some true = registered key, Some false =
     unregistered (KeyError), None = unhashable key (TypeError) *)
  Variable registered : cfg L -> option bool.
  Notation probe_source := (probe_source L registered).
  Notation probe_location_ops := (probe_location_ops L leaf_has).
  Notation probe_from_conf := (probe_from_conf L leaf_has registered).

  (* [repair: the PsLibrary case used to be Ok (SrcLibrary k) for every k] *)
  Lemma probe_source_spec : forall conf,
    probe_source conf =
    match probe_dispatch conf with
    | PsError => Err EAttr
    | PsLibrary => match lookup "probe_key" conf with
                   | Some k => match registered k with
                               | Some true => Ok (SrcLibrary k)
                               | Some false => Err EKey
                               | None => Err EType
                               end
                   | None => Err EKey end
    | PsMatrix => match lookup "probe" conf with
                  | None => Err EKey
                  | Some (Leaf _) => Err EType
                  | Some (Map kw) => if sig_ok matrix_required matrix_params kw
                                     then Ok (SrcMatrix kw) else Err EType
                  end
    end.
  Proof.
    intros conf. unfold ConfLoad.probe_source, probe_dispatch.
    destruct (has "probe_key" conf) eqn:E1, (has "probe" conf) eqn:E2; cbn [andb]; try reflexivity.
    - unfold getitem, registry_lookup. now destruct (lookup "probe_key" conf).
    - unfold getitem. destruct (lookup "probe" conf) as [[v|kw]|]; cbn; try reflexivity.
      unfold sig_check. now destruct (sig_ok matrix_required matrix_params kw).
    - unfold getitem. destruct (lookup "probe" conf) as [[v|kw]|]; cbn; try reflexivity.
      unfold sig_check. now destruct (sig_ok matrix_required matrix_params kw).
  Qed.

  (* a probe taken from the library: the key is the value under "probe_key", it is
     registered, and there is no "probe" entry *)
  Lemma probe_source_library : forall conf k,
    probe_source conf = Ok (SrcLibrary k) <->
    lookup "probe_key" conf = Some k /\ has "probe" conf = false /\ registered k = Some true.
  Proof.
    intros conf k. rewrite probe_source_spec. unfold probe_dispatch, has.
    destruct (lookup "probe_key" conf) as [k'|]; destruct (lookup "probe" conf) as [[v|kw]|]; cbn [andb].
    all: try (split; [discriminate | intros [H1 [H2 H3]]; discriminate]).
    - destruct (registered k') as [[|]|] eqn:Er.
      + split; [intros [= <-]; now repeat split | intros [[= <-] _]; reflexivity].
      + split; [discriminate | intros [[= <-] [_ H]]; congruence].
      + split; [discriminate | intros [[= <-] [_ H]]; congruence].
    - split; [|intros [H _]; discriminate].
      destruct (sig_ok matrix_required matrix_params kw); discriminate.
  Qed.

  (* an unregistered key is a KeyError, an unhashable one a TypeError - whatever else the
     configuration holds, unless "probe" is there too (AttributeError first) *)
  Lemma probe_source_unregistered : forall conf k,
    lookup "probe_key" conf = Some k -> has "probe" conf = false ->
    probe_source conf = match registered k with
                        | Some true => Ok (SrcLibrary k)
                        | Some false => Err EKey
                        | None => Err EType
                        end.
  Proof.
    intros conf k Hk Hp. rewrite probe_source_spec. unfold probe_dispatch.
    unfold has in *. rewrite Hk. destruct (lookup "probe" conf); [discriminate|]. reflexivity.
  Qed.

  (* the calls made on the probe for a probe_location mapping: presence of a key decides
     (not its value), the value passed is the one under that key, the order is fixed *)
  Definition ops_spec (pl : items (cfg L)) : list (probe_op L) :=
    (match lookup "ref_element" pl with Some v => [OpSetRef v; OpToO] | None => [] end) ++
    (match lookup "angle_deg" pl with Some v => [OpRotY v] | None => [] end) ++
    (match lookup "standoff" pl with Some v => [OpTranslateZ v] | None => [] end).

  Lemma probe_location_ops_map : forall conf pl, lookup "probe_location" conf = Some (Map pl) ->
    probe_location_ops conf = Ok (ops_spec pl).
  Proof.
    intros conf pl H. unfold ConfLoad.probe_location_ops, getitem, ops_spec. rewrite H.
    cbn [bind contains subitem]. unfold has, getitem.
    destruct (lookup "ref_element" pl), (lookup "angle_deg" pl), (lookup "standoff" pl); reflexivity.
  Qed.

  (* a probe_location that is not a mapping: a container without any of the three names
     leaves the probe where it is; everything else raises TypeError *)
  Lemma probe_location_ops_leaf : forall conf v, lookup "probe_location" conf = Some (Leaf v) ->
    probe_location_ops conf =
    match leaf_has v "ref_element", leaf_has v "angle_deg", leaf_has v "standoff" with
    | Some false, Some false, Some false => Ok []
    | _, _, _ => Err EType
    end.
  Proof.
    intros conf v H. unfold ConfLoad.probe_location_ops, getitem. rewrite H.
    cbn [bind contains subitem].
    destruct (leaf_has v "ref_element") as [[|]|]; cbn; try reflexivity.
    destruct (leaf_has v "angle_deg") as [[|]|]; cbn; try reflexivity.
    destruct (leaf_has v "standoff") as [[|]|]; cbn; reflexivity.
  Qed.

  Lemma probe_location_ops_missing : forall conf, lookup "probe_location" conf = None ->
    probe_location_ops conf = Err EKey.
  Proof. intros conf H. unfold ConfLoad.probe_location_ops, getitem. now rewrite H. Qed.

  Lemma probe_from_conf_spec : forall conf apply,
    probe_from_conf conf apply =
    match probe_source conf with
    | Err e => Err e
    | Ok src => if apply
                then match probe_location_ops conf with
                     | Ok ops => Ok (mkPlan src ops) | Err e => Err e end
                else Ok (mkPlan src [])
    end.
  Proof.
    intros conf apply. unfold ConfLoad.probe_from_conf.
    destruct (probe_source conf) as [src|e]; cbn [bind]; [|reflexivity].
    destruct apply; cbn [bind]; [|reflexivity].
    now destruct (probe_location_ops conf).
  Qed.

End Builders.

(* ------------------------------------------------------------------ *)
(* grid                                                                *)
(* ------------------------------------------------------------------ *)
Section Grid.
  Variable L : Type.
  Variable zero : L.
  Notation grid_from_conf := (grid_from_conf L zero).

  Definition grid_defaults_of (m : items (cfg L)) : items (cfg L) :=
    with_default "ymax" (Leaf zero) (with_default "ymin" (Leaf zero) m).

  Lemma has_with_default : forall (V : Type) k k' (d : V) m,
    has k' (with_default k d m) = if String.eqb k' k then true else has k' m.
  Proof.
    intros V k k' d m. unfold has. rewrite with_default_lookup.
    destruct (String.eqb k' k); [now destruct (lookup k m) | reflexivity].
  Qed.

  Definition grid_given := ["xmin"; "xmax"; "zmin"; "zmax"; "pixel_size"].

  Lemma grid_sig_iff : forall m,
    sig_ok grid_params grid_params (grid_defaults_of m) = true <->
    (forall k, has k m = true -> In k grid_params) /\ (forall k, In k grid_given -> has k m = true).
  Proof.
    intros m. rewrite sig_ok_spec. unfold grid_defaults_of. split.
    - intros [H1 H2]. split.
      + intros k Hk. apply H1. rewrite !has_with_default, Hk.
        now destruct (String.eqb k "ymax"), (String.eqb k "ymin").
      + intros k Hk. assert (Hp : In k grid_params) by (cbn in *; tauto).
        specialize (H2 k Hp). rewrite !has_with_default in H2.
        destruct (String.eqb k "ymax") eqn:E1.
        { apply String.eqb_eq in E1; subst. cbn in Hk. repeat (destruct Hk as [Hk|Hk]; [discriminate|]). destruct Hk. }
        destruct (String.eqb k "ymin") eqn:E2; [|exact H2].
        apply String.eqb_eq in E2; subst. cbn in Hk. repeat (destruct Hk as [Hk|Hk]; [discriminate|]). destruct Hk.
    - intros [H1 H2]. split.
      + intros k Hk. rewrite !has_with_default in Hk.
        destruct (String.eqb k "ymax") eqn:E1; [apply String.eqb_eq in E1; subst; cbn; tauto|].
        destruct (String.eqb k "ymin") eqn:E2; [apply String.eqb_eq in E2; subst; cbn; tauto|].
        now apply H1.
      + intros k Hk. rewrite !has_with_default.
        destruct (String.eqb k "ymax") eqn:E1; [reflexivity|].
        destruct (String.eqb k "ymin") eqn:E2; [reflexivity|].
        apply String.eqb_neq in E1, E2. apply H2. cbn in *. intuition congruence.
  Qed.

  Lemma grid_from_conf_iff : forall conf kw,
    grid_from_conf conf = Ok kw <->
    exists m, lookup "grid" conf = Some (Map m) /\
              (forall k, has k m = true -> In k grid_params) /\
              (forall k, In k grid_given -> has k m = true) /\
              kw = grid_defaults_of m.
  Proof.
    intros conf kw. unfold ConfLoad.grid_from_conf, getitem.
    destruct (lookup "grid" conf) as [[v|m]|]; cbn [bind].
    - split; [discriminate | intros [m [H _]]; discriminate].
    - fold (grid_defaults_of m). unfold sig_check.
      destruct (sig_ok grid_params grid_params (grid_defaults_of m)) eqn:Es; cbn [bind].
      + apply grid_sig_iff in Es. destruct Es as [H1 H2]. split.
        * intros [= <-]. exists m. repeat split; assumption.
        * intros [m' [[= <-] [_ [_ ->]]]]. reflexivity.
      + split; [discriminate|]. intros [m' [[= <-] [H1 [H2 _]]]].
        assert (sig_ok grid_params grid_params (grid_defaults_of m) = true); [|congruence].
        apply grid_sig_iff. now split.
    - split; [discriminate | intros [m [H _]]; discriminate].
  Qed.

  (* every configured number reaches Grid unchanged; ymin and ymax default to 0.0
     INDEPENDENTLY of each other *)
  Lemma grid_defaults_lookup : forall m k,
    lookup k (grid_defaults_of m) =
    if String.eqb k "ymax" then Some (match lookup "ymax" m with Some v => v | None => Leaf zero end)
    else if String.eqb k "ymin" then Some (match lookup "ymin" m with Some v => v | None => Leaf zero end)
    else lookup k m.
  Proof.
    intros m k. unfold grid_defaults_of. rewrite with_default_lookup.
    destruct (String.eqb k "ymax") eqn:E1.
    - rewrite with_default_lookup. cbn [String.eqb Ascii.eqb Bool.eqb andb].
      now destruct (lookup "ymax" m).
    - rewrite with_default_lookup. destruct (String.eqb k "ymin"); [|reflexivity].
      now destruct (lookup "ymin" m).
  Qed.

  (* agreement with the earlier (weaker) view Model/Config.grid_kwargs *)
  Lemma grid_from_conf_refines : forall conf kw,
    grid_from_conf conf = Ok kw -> grid_kwargs zero conf = Some kw.
  Proof.
    intros conf kw H. apply grid_from_conf_iff in H. destruct H as [m [H [_ [_ ->]]]].
    unfold grid_kwargs. now rewrite H.
  Qed.

End Grid.

Section GridAxes.
  Variable L : Type.
  Variable leaf_seq : L -> option (list L).
  Notation grid_axes := (grid_axes L leaf_seq).

  (* pixel_size: three values go to the three axes in the order x, y, z; one value to all *)
  Lemma grid_axes_spec : forall kw ps xmin xmax ymin ymax zmin zmax,
    lookup "pixel_size" kw = Some ps ->
    lookup "xmin" kw = Some xmin -> lookup "xmax" kw = Some xmax ->
    lookup "ymin" kw = Some ymin -> lookup "ymax" kw = Some ymax ->
    lookup "zmin" kw = Some zmin -> lookup "zmax" kw = Some zmax ->
    grid_axes kw =
    match unpack_pixel_size L leaf_seq ps with
    | Ok (dx, dy, dz) => Ok ((xmin, xmax, dx), (ymin, ymax, dy), (zmin, zmax, dz))
    | Err e => Err e
    end.
  Proof.
    intros kw ps xmin xmax ymin ymax zmin zmax Hp H1 H2 H3 H4 H5 H6.
    unfold ConfLoad.grid_axes, getitem. rewrite Hp. cbn [bind].
    destruct (unpack_pixel_size L leaf_seq ps) as [[[dx dy] dz]|e]; cbn [bind]; [|reflexivity].
    now rewrite H1, H2, H3, H4, H5, H6.
  Qed.

  Lemma unpack_three : forall v a b d, leaf_seq v = Some [a; b; d] ->
    unpack_pixel_size L leaf_seq (Leaf v) = Ok (PxLeaf a, PxLeaf b, PxLeaf d).
  Proof. intros v a b d H. cbn. now rewrite H. Qed.

  Lemma unpack_scalar : forall v, leaf_seq v = None ->
    unpack_pixel_size L leaf_seq (Leaf v) = Ok (PxLeaf v, PxLeaf v, PxLeaf v).
  Proof. intros v H. cbn. now rewrite H. Qed.

  Lemma unpack_bad_length : forall v l, leaf_seq v = Some l -> List.length l <> 3 ->
    unpack_pixel_size L leaf_seq (Leaf v) = Err EValue.
  Proof.
    intros v l H Hl. cbn. rewrite H.
    destruct l as [|a [|b [|d [|e l]]]]; try reflexivity. cbn in Hl. congruence.
  Qed.

End GridAxes.

(* ------------------------------------------------------------------ *)
(* frame_from_conf                                                     *)
(* ------------------------------------------------------------------ *)
Section Frame.
  Variable L : Type.
  Variables (is_none is_float : L -> bool) (leaf_has : L -> string -> option bool).
  Variable zero : L.
  Notation get_not_none := (get_not_none L is_none).
  Notation examination_object_from_conf := (examination_object_from_conf L is_none is_float).
  Variable registered : cfg L -> option bool.
  Notation probe_from_conf := (probe_from_conf L leaf_has registered).
  Notation grid_from_conf := (grid_from_conf L zero).
  Variable known_dataset : cfg L -> bool.
  Variable load_expdata : frame_src L -> res unit.
  Notation frame_source := (frame_source L known_dataset).
  Notation frame_from_conf := (frame_from_conf L is_none is_float leaf_has registered known_dataset load_expdata).

  Lemma frame_source_spec : forall conf,
    frame_source conf =
    match lookup "frame" conf with
    | None => Err EKey
    | Some (Leaf _) => Err EType
    | Some (Map f) =>
        match lookup "datafile" f with
        | Some v => Ok (FromFile v, f)            (* dataset_name / dataset_item ignored *)
        | None =>
            match lookup "dataset_name" f with
            | None => Err EKey
            | Some n => if known_dataset n
                        then match lookup "dataset_item" f with
                             | Some i => Ok (FromDataset n i, f) | None => Err EKey end
                        else Err EValue
            end
        end
    end.
  Proof.
    intros conf. unfold ConfLoad.frame_source, getitem.
    destruct (lookup "frame" conf) as [[v|f]|]; cbn [bind]; try reflexivity.
    unfold has. destruct (lookup "datafile" f) as [v|]; cbn [bind]; [reflexivity|].
    destruct (lookup "dataset_name" f) as [n|]; cbn [bind]; [|reflexivity].
    destruct (known_dataset n); [|reflexivity].
    now destruct (lookup "dataset_item" f).
  Qed.

  (* what a successful frame_from_conf did *)
  Lemma frame_from_conf_Ok : forall conf up ue fp,
    frame_from_conf conf up ue = Ok fp ->
    exists f,
      frame_source conf = Ok (fp_src fp, f) /\
      load_expdata (fp_src fp) = Ok tt /\
      fp_delay fp = get_not_none "instrument_delay" f /\
      (if up then exists p, probe_from_conf conf true = Ok p /\ fp_probe fp = Some p
       else fp_probe fp = None) /\
      (if ue then exists e, examination_object_from_conf conf = Ok e /\ fp_exam fp = Some e
       else fp_exam fp = None).
  Proof.
    intros conf up ue fp H. unfold ConfLoad.frame_from_conf in H.
    inv_bind H. destruct a as [src f]. inv_bind H. destruct a. inv_bind H. inv_bind H.
    injection H as <-. cbn [fp_src fp_delay fp_probe fp_exam].
    exists f. repeat split; try assumption.
    - destruct up; [|now injection Ha1 as <-].
      apply bind_Ok in Ha1. destruct Ha1 as [p [Hp Ha1]]. injection Ha1 as <-. now exists p.
    - destruct ue; [|now injection Ha2 as <-].
      apply bind_Ok in Ha2. destruct Ha2 as [e [He Ha2]]. injection Ha2 as <-. now exists e.
  Qed.

  (* with both switches off nothing but conf["frame"] is read *)
  Lemma frame_from_conf_switches_off : forall conf conf',
    lookup "frame" conf = lookup "frame" conf' ->
    frame_from_conf conf false false = frame_from_conf conf' false false.
  Proof.
    intros conf conf' H. unfold ConfLoad.frame_from_conf.
    assert (Hs : frame_source conf = frame_source conf') by (now rewrite !frame_source_spec, H).
    now rewrite Hs.
  Qed.

  (* ---------------------------------------------------------------- *)
  (* the order of the keys of the root mapping is irrelevant           *)
  (* ---------------------------------------------------------------- *)
  Lemma root_lookup_ext : forall conf conf' : items (cfg L),
    (forall k, lookup k conf = lookup k conf') ->
    examination_object_from_conf conf = examination_object_from_conf conf' /\
    (forall apply, probe_from_conf conf apply = probe_from_conf conf' apply) /\
    grid_from_conf conf = grid_from_conf conf' /\
    (forall up ue, frame_from_conf conf up ue = frame_from_conf conf' up ue).
  Proof.
    intros conf conf' H.
    assert (He : examination_object_from_conf conf = examination_object_from_conf conf').
    { unfold ConfLoad.examination_object_from_conf, exam_dispatch,
        ConfLoad.block_in_immersion_from_conf, ConfLoad.block_in_contact_from_conf,
        ConfLoad.get_not_none, getitem, has.
      rewrite !H. reflexivity. }
    assert (Hp : forall apply, probe_from_conf conf apply = probe_from_conf conf' apply).
    { intros apply. unfold ConfLoad.probe_from_conf, ConfLoad.probe_source,
        ConfLoad.probe_location_ops, getitem, has.
      rewrite !H. reflexivity. }
    repeat split; try assumption.
    - unfold ConfLoad.grid_from_conf, getitem. now rewrite H.
    - intros up ue. unfold ConfLoad.frame_from_conf.
      rewrite He, Hp. unfold ConfLoad.frame_source, getitem. now rewrite H.
  Qed.

  Lemma root_key_order : forall conf conf' : items (cfg L),
    NoDup (keys conf) -> Permutation conf conf' ->
    examination_object_from_conf conf = examination_object_from_conf conf' /\
    (forall apply, probe_from_conf conf apply = probe_from_conf conf' apply) /\
    grid_from_conf conf = grid_from_conf conf' /\
    (forall up ue, frame_from_conf conf up ue = frame_from_conf conf' up ue).
  Proof. intros conf conf' Hn Hp. apply root_lookup_ext. now apply perm_lookup. Qed.
End Frame.
