(* Proofs/ProbeOpsProofs.v — C16, lemmas over the reals about Model/ProbeOps.v and about the
   composition of the motions of Model/Probe.v: convert_to_gcs inverts convert_from_gcs, every
   history is ONE rigid motion in closed form, composition laws, the probe_location block and
   move_probe_over_flat_surface's placement, convert_from_gcs_pairwise, Probe.__init__ /
   make_matrix_probe on the whole object, subprobe. *)
From Coq Require Import String.
From Coq Require Import List Reals Lra Lia ZArith Nsatz Bool.
From Flocq Require Import Core.Raux.
From Arim Require Import Base.Num Base.NumR Model.Vec3 Proofs.Vec3Proofs Model.Probe
  Proofs.ProbeProofs Proofs.ProbeHistoryProofs Proofs.ProbeTheorems Model.ProbeOps
  Proofs.ProbeOpsGenProofs.
Import ListNotations.
Local Open Scope R_scope.

(* ---- convert_to_gcs is the inverse of convert_from_gcs ---- *)
Lemma cs_to_gcs_R (c : csys) (q : vec) :
  cs_to_gcs NumR c q = vadd NumR (mtvec NumR (cs_axes NumR c) q) (cs_o c).
Proof.
  destruct c as [o i j]. unfold cs_to_gcs, cs_basis_matrix, cs_axes, cs_k. cbn [cs_o cs_i cs_j].
  v3_start. v3_split; ring.
Qed.

Lemma to_gcs_from_gcs (c : csys) (p : vec) : frame_ok c ->
  cs_to_gcs NumR c (cs_from_gcs NumR c p) = p.
Proof.
  intros Hf. rewrite cs_to_gcs_R, cs_from_gcs_R.
  pose proof (frame_axes_proper c Hf) as [[_ Hc] _].
  rewrite (mtvec_mvec _ _ Hc). apply vadd_vsub_cancel.
Qed.

Lemma from_gcs_to_gcs (c : csys) (q : vec) : frame_ok c ->
  cs_from_gcs NumR c (cs_to_gcs NumR c q) = q.
Proof.
  intros Hf. rewrite cs_from_gcs_R, cs_to_gcs_R.
  pose proof (frame_axes_proper c Hf) as [[Hr _] _].
  rewrite vsub_vadd_cancel. apply (mvec_mtvec _ _ Hr).
Qed.

Lemma map_id_ext {A} (f : A -> A) (l : list A) : (forall x, f x = x) -> map f l = l.
Proof. intros H. rewrite (map_ext f (fun x => x) H). apply map_id. Qed.

(* the pair (locations_pcs, pcs) determines the locations, (orientations_pcs, axes) the normals *)
Lemma locations_determined_good (n : nat) (p : probeR) : good n p ->
  p_locs p = map (cs_to_gcs NumR (p_pcs p)) (locations_pcs NumR p) /\
  exists ops, orientations_pcs NumR p = Some ops /\
    p_oris p = option_map (map (cs_to_gcs NumR (mkCS (0, 0, 0) (cs_i (p_pcs p)) (cs_j (p_pcs p))))) ops.
Proof.
  intros (Hf & _ & _). split.
  - unfold locations_pcs. rewrite map_map. symmetry. apply map_id_ext. intros x. apply to_gcs_from_gcs. exact Hf.
  - rewrite (orientations_pcs_R p Hf). eexists. split; [reflexivity|].
    destruct (p_oris p) as [os|]; [|reflexivity]. cbn [option_map]. f_equal. rewrite map_map. symmetry.
    apply map_id_ext. intros v.
    set (c0 := mkCS (0, 0, 0) (cs_i (p_pcs p)) (cs_j (p_pcs p))).
    assert (Hf0 : frame_ok c0) by exact Hf.
    replace (mvec NumR (cs_axes NumR (p_pcs p)) v) with (cs_from_gcs NumR c0 v).
    + apply to_gcs_from_gcs. exact Hf0.
    + rewrite cs_from_gcs_R. cbn [cs_o c0]. rewrite vsub_zero. reflexivity.
Qed.

(* ---- every history is ONE rigid motion, in closed form ---- *)
Definition placed (M : mat) (t r : vec) (p p' : probeR) : Prop :=
  proper_rotation NumR M /\
  p_locs p' = map (affine M t) (p_locs p) /\
  p_oris p' = option_map (map (mvec NumR M)) (p_oris p) /\
  cs_i (p_pcs p') = mvec NumR M (cs_i (p_pcs p)) /\
  cs_j (p_pcs p') = mvec NumR M (cs_j (p_pcs p)) /\
  cs_o (p_pcs p') = affine M t r.

Lemma affine_id0 (x : vec) : affine (mid3 NumR) (vzero NumR) x = x.
Proof. unfold affine. v3_start. v3_split; ring. Qed.

Lemma step_placed (n : nat) (o : opR) (p : probeR) : good n p -> op_ok n o ->
  exists p' M t r, apply_op NumR o p = Some p' /\ placed M t r p p' /\
    (is_set_ref o = false -> r = cs_o (p_pcs p)).
Proof.
  intros Hg Hok. destruct (apply_op_cases n o p Hg Hok) as (p' & E & H).
  destruct (is_set_ref o) eqn:Hs.
  - destruct H as (Hl & Ho & Hi & Hj).
    exists p', (mid3 NumR), (vzero NumR), (cs_o (p_pcs p')). split; [exact E|]. split; [|discriminate].
    split; [exact mid3_proper|]. rewrite Hl, Ho, Hi, Hj, !mvec_id, affine_id0.
    split; [symmetry; apply map_id_ext; exact affine_id0|].
    split; [symmetry; apply option_map_map_id; exact mvec_id|]. repeat split.
  - destruct H as (M & t & HM & (Hl & Ho & Hor & Hi & Hj)).
    exists p', M, t, (cs_o (p_pcs p)). split; [exact E|]. split; [|reflexivity].
    split; [exact HM|]. repeat (split; [assumption|]). exact Hor.
Qed.

Lemma affine_affine (M1 M2 : mat) (t1 t2 x : vec) :
  affine M2 t2 (affine M1 t1 x) = affine (mmul NumR M2 M1) (vadd NumR (mvec NumR M2 t1) t2) x.
Proof. unfold affine. v3_start. v3_split; ring. Qed.

Lemma affine_unaffine (M : mat) (t r : vec) : rows_orthonormal NumR M ->
  affine M t (mtvec NumR M (vsub NumR r t)) = r.
Proof. intros Hr. unfold affine. rewrite (mvec_mtvec _ _ Hr). apply vadd_vsub_cancel. Qed.

Lemma placed_compose (M1 M2 : mat) (t1 t2 r1 r2 : vec) (p q p' : probeR) :
  placed M1 t1 r1 p q -> placed M2 t2 r2 q p' ->
  placed (mmul NumR M2 M1) (vadd NumR (mvec NumR M2 t1) t2) (mtvec NumR M1 (vsub NumR r2 t1)) p p'.
Proof.
  intros (HM1 & Hl1 & Ho1 & Hi1 & Hj1 & _) (HM2 & Hl2 & Ho2 & Hi2 & Hj2 & Hor2).
  split; [exact (mmul_proper _ _ HM2 HM1)|].
  split; [rewrite Hl2, Hl1, map_map; apply map_ext; intros x; apply affine_affine|].
  split.
  { rewrite Ho2, Ho1. destruct (p_oris p) as [os|]; [|reflexivity]. cbn [option_map]. f_equal.
    rewrite map_map. apply map_ext. intros v. symmetry. apply mvec_mmul. }
  split; [rewrite Hi2, Hi1; symmetry; apply mvec_mmul|].
  split; [rewrite Hj2, Hj1; symmetry; apply mvec_mmul|].
  rewrite Hor2, <- affine_affine. f_equal. symmetry. apply affine_unaffine. apply HM1.
Qed.

Lemma placed_good (n : nat) (M : mat) (t r : vec) (p p' : probeR) : placed M t r p p' -> good n p -> good n p'.
Proof.
  intros (HM & Hl & Ho & Hi & Hj & _) ((Fi & Fj & Fij) & Hn & Hnorm). pose proof HM as [[_ Hc] _].
  split; [|split].
  - unfold frame_ok. rewrite Hi, Hj. repeat split; try (apply mvec_unit; assumption).
    rewrite mvec_dot by exact Hc. exact Fij.
  - rewrite Hl, map_length. exact Hn.
  - unfold normals_ok in *. rewrite Ho, Hl. destruct (p_oris p) as [os|]; cbn [option_map]; [|exact I].
    destruct Hnorm as [Hu Hlen]. split.
    + apply Forall_map. eapply Forall_impl; [|exact Hu]. intros v Hv. apply mvec_unit; assumption.
    + rewrite !map_length. exact Hlen.
Qed.

Lemma run_placed (n : nat) (ops : list opR) : forall p : probeR, good n p -> Forall (op_ok n) ops ->
  exists p' M t r, run_ops NumR ops p = Some p' /\ placed M t r p p'.
Proof.
  induction ops as [|o ops IH]; intros p Hg Hok.
  - exists p, (mid3 NumR), (vzero NumR), (cs_o (p_pcs p)). split; [reflexivity|].
    split; [exact mid3_proper|]. rewrite !mvec_id, affine_id0.
    split; [symmetry; apply map_id_ext; exact affine_id0|].
    split; [symmetry; apply option_map_map_id; exact mvec_id|]. repeat split.
  - inversion Hok as [|? ? Ho Hrest]; subst.
    destruct (step_placed n o p Hg Ho) as (q & M1 & t1 & r1 & E1 & P1 & _).
    destruct (IH q (placed_good n _ _ _ _ _ P1 Hg) Hrest) as (p' & M2 & t2 & r2 & E2 & P2).
    exists p'. eexists _, _, _. cbn [run_ops]. rewrite E1. split; [exact E2|].
    exact (placed_compose _ _ _ _ _ _ _ _ _ P1 P2).
Qed.

Lemma mvec_e1 (M : mat) : mvec NumR M (1, 0, 0) = mcol0 M.
Proof. v3_start. unfold mcol0. v3_unfold. v3_split; ring. Qed.
Lemma mvec_e2 (M : mat) : mvec NumR M (0, 1, 0) = mcol1 M.
Proof. v3_start. unfold mcol1. v3_unfold. v3_split; ring. Qed.

Lemma history_rigid_motion_R (n : nat) (p0 p : probeR) : reachable n p0 p ->
  exists (M : mat) (t r : vec), proper_rotation NumR M /\
    p_locs p = map (affine M t) (p_locs p0) /\
    p_oris p = option_map (map (mvec NumR M)) (p_oris p0) /\
    cs_i (p_pcs p) = mcol0 M /\ cs_j (p_pcs p) = mcol1 M /\ cs_k NumR (p_pcs p) = mcol2 M /\
    cs_o (p_pcs p) = affine M t r /\
    locations_pcs NumR p = map (fun x => vsub NumR x r) (p_locs p0).
Proof.
  intros Hre. pose proof (reachable_facts n p0 p Hre) as (Hg0 & _ & _ & Hpcs & _).
  destruct Hre as (numx & numy & px & py & a & ops & Hx & Hy & Hn & Ha & Hops & E0 & Er).
  destruct (run_placed n ops p0 Hg0 Hops) as (p' & M & t & r & E & (HM & Hl & Ho & Hi & Hj & Hor)).
  rewrite Er in E. injection E as <-.
  rewrite Hpcs in Hi, Hj. unfold gcs in Hi, Hj. cbn [cs_i cs_j] in Hi, Hj.
  change (n1 NumR) with 1 in *. change (n0 NumR) with 0 in *. rewrite mvec_e1 in Hi. rewrite mvec_e2 in Hj.
  exists M, t, r. split; [exact HM|]. repeat (split; [assumption|]).
  split.
  { unfold cs_k. rewrite Hi, Hj. pose proof (mtrans_proper M HM) as Ht. unfold mtrans in Ht.
    symmetry. exact (proper_third_row _ _ _ Ht). }
  split; [exact Hor|].
  unfold locations_pcs. rewrite Hl, map_map. apply map_ext. intros x.
  rewrite cs_from_gcs_R, Hor, affine_diff. unfold cs_axes, cs_k. rewrite Hi, Hj, <- mvec_e1, <- mvec_e2.
  rewrite (axes_rotated M _ _ _ HM). v3_start. v3_split; ring.
Qed.



(* ---- explicit forms of rotate / translate over R ---- *)
Definition rotated (M : mat) (ce : option vec) (p : probeR) : probeR :=
  mkProbe (map (rotate_pt NumR M ce) (p_locs p)) (option_map (map (mvec NumR M)) (p_oris p))
          (mkCS (rotate_pt NumR M ce (cs_o (p_pcs p))) (mvec NumR M (cs_i (p_pcs p))) (mvec NumR M (cs_j (p_pcs p)))).
Definition translated (v : vec) (p : probeR) : probeR :=
  mkProbe (map (fun l => vadd NumR l v) (p_locs p)) (p_oris p)
          (mkCS (vadd NumR (cs_o (p_pcs p)) v) (cs_i (p_pcs p)) (cs_j (p_pcs p))).

Lemma p_rotate_R (M : mat) (ce : option vec) (p : probeR) : cols_orthonormal NumR M -> frame_ok (p_pcs p) ->
  p_rotate NumR M ce p = Some (rotated M ce p).
Proof. intros HM Hf. unfold p_rotate. rewrite (cs_rotate_R _ M ce HM Hf). reflexivity. Qed.

Lemma p_translate_R (v : vec) (p : probeR) : frame_ok (p_pcs p) -> p_translate NumR v p = Some (translated v p).
Proof. intros Hf. unfold p_translate. rewrite (cs_translate_R _ v Hf). reflexivity. Qed.

Lemma rotated_frame_ok (M : mat) (ce : option vec) (p : probeR) : cols_orthonormal NumR M -> frame_ok (p_pcs p) ->
  frame_ok (p_pcs (rotated M ce p)).
Proof.
  intros Hc (Fi & Fj & Fij). unfold frame_ok, rotated. cbn [p_pcs cs_i cs_j].
  repeat split; try (apply mvec_unit; assumption). rewrite mvec_dot by exact Hc. exact Fij.
Qed.
Lemma translated_frame_ok (v : vec) (p : probeR) : frame_ok (p_pcs p) -> frame_ok (p_pcs (translated v p)).
Proof. intros H. exact H. Qed.

Lemma probe_eq (l l' : list vec) (o o' : option (list vec)) (c c' : csys (T:=R)) :
  l = l' -> o = o' -> c = c' -> mkProbe l o c = mkProbe l' o' c'.
Proof. intros -> -> ->. reflexivity. Qed.
Lemma cs_eq (o o' i i' j j' : vec) : o = o' -> i = i' -> j = j' -> mkCS o i j = mkCS o' i' j'.
Proof. intros -> -> ->. reflexivity. Qed.
Lemma probe_eta (p : probeR) : mkProbe (p_locs p) (p_oris p) (mkCS (cs_o (p_pcs p)) (cs_i (p_pcs p)) (cs_j (p_pcs p))) = p.
Proof. destruct p as [l o [a b c]]. reflexivity. Qed.

Lemma option_map_map_compose (f g h : vec -> vec) (o : option (list vec)) : (forall v, g (f v) = h v) ->
  option_map (map g) (option_map (map f) o) = option_map (map h) o.
Proof. intros H. destruct o as [l|]; [|reflexivity]. cbn [option_map]. f_equal. rewrite map_map. apply map_ext. exact H. Qed.

Lemma rotate_pt_compose (M1 M2 : mat) (ce : option vec) (x : vec) :
  rotate_pt NumR M2 ce (rotate_pt NumR M1 ce x) = rotate_pt NumR (mmul NumR M2 M1) ce x.
Proof. destruct ce as [c|]; cbn [rotate_pt]; v3_start; v3_split; ring. Qed.


(* two rotations about the same centre compose into the rotation by the product *)
Lemma rotate_rotate_R (M1 M2 : mat) (ce : option vec) (p : probeR) :
  cols_orthonormal NumR M1 -> cols_orthonormal NumR M2 -> frame_ok (p_pcs p) ->
  bind (p_rotate NumR M1 ce p) (p_rotate NumR M2 ce) = p_rotate NumR (mmul NumR M2 M1) ce p.
Proof.
  intros H1 H2 Hf. rewrite (p_rotate_R M1 ce p H1 Hf). cbn [bind].
  rewrite (p_rotate_R M2 ce _ H2 (rotated_frame_ok M1 ce p H1 Hf)).
  assert (H12 : cols_orthonormal NumR (mmul NumR M2 M1)).
  { apply rows_to_cols. apply mmul_rows_orthonormal; apply cols_to_rows; assumption. }
  rewrite (p_rotate_R _ ce p H12 Hf). f_equal. unfold rotated. cbn [p_locs p_oris p_pcs cs_o cs_i cs_j].
  apply probe_eq.
  - rewrite map_map. apply map_ext. intros x. apply rotate_pt_compose.
  - apply option_map_map_compose. intros v. symmetry. apply mvec_mmul.
  - apply cs_eq; [apply rotate_pt_compose| |]; symmetry; apply mvec_mmul.
Qed.

(* two translations compose into the translation by the sum *)
Lemma translate_translate_R (v1 v2 : vec) (p : probeR) : frame_ok (p_pcs p) ->
  bind (p_translate NumR v1 p) (p_translate NumR v2) = p_translate NumR (vadd NumR v1 v2) p.
Proof.
  intros Hf. rewrite (p_translate_R v1 p Hf). cbn [bind]. rewrite (p_translate_R v2 _ (translated_frame_ok v1 p Hf)), (p_translate_R _ p Hf).
  f_equal. unfold translated. cbn [p_locs p_oris p_pcs cs_o cs_i cs_j]. apply probe_eq; [|reflexivity|].
  - rewrite map_map. apply map_ext. intros x. v3_start. v3_split; ring.
  - apply cs_eq; [|reflexivity|reflexivity]. generalize (cs_o (p_pcs p)). intros o. v3_start. v3_split; ring.
Qed.

(* translate then rotate = rotate then translate by the rotated vector *)
Lemma translate_rotate_R (M : mat) (ce : option vec) (v : vec) (p : probeR) :
  cols_orthonormal NumR M -> frame_ok (p_pcs p) ->
  bind (p_translate NumR v p) (p_rotate NumR M ce) = bind (p_rotate NumR M ce p) (p_translate NumR (mvec NumR M v)).
Proof.
  intros HM Hf. rewrite (p_translate_R v p Hf), (p_rotate_R M ce p HM Hf). cbn [bind].
  rewrite (p_rotate_R M ce _ HM (translated_frame_ok v p Hf)), (p_translate_R _ _ (rotated_frame_ok M ce p HM Hf)).
  f_equal. unfold rotated, translated. cbn [p_locs p_oris p_pcs cs_o cs_i cs_j]. apply probe_eq; [|reflexivity|].
  - rewrite !map_map. apply map_ext. intros x. destruct ce as [c|]; cbn [rotate_pt]; v3_start; v3_split; ring.
  - apply cs_eq; [|reflexivity|reflexivity]. generalize (cs_o (p_pcs p)). intros o.
    destruct ce as [c|]; cbn [rotate_pt]; v3_start; v3_split; ring.
Qed.

(* a rotation about a centre c = translate(-c), rotate about O, translate(c) *)
Lemma rotate_about_centre_R (M : mat) (c : vec) (p : probeR) :
  cols_orthonormal NumR M -> frame_ok (p_pcs p) ->
  p_rotate NumR M (Some c) p =
  bind (bind (p_translate NumR (vopp NumR c) p) (p_rotate NumR M None)) (p_translate NumR c).
Proof.
  intros HM Hf. rewrite (p_translate_R _ p Hf). cbn [bind].
  rewrite (p_rotate_R M None _ HM (translated_frame_ok (vopp NumR c) p Hf)). cbn [bind].
  rewrite (p_translate_R c _ (rotated_frame_ok M None _ HM (translated_frame_ok (vopp NumR c) p Hf))), (p_rotate_R M (Some c) p HM Hf).
  f_equal. unfold rotated, translated. cbn [p_locs p_oris p_pcs cs_o cs_i cs_j rotate_pt]. apply probe_eq; [|reflexivity|].
  - rewrite !map_map. apply map_ext. intros x. cbn [rotate_pt]. v3_start. v3_split; ring.
  - apply cs_eq; [|reflexivity|reflexivity]. generalize (cs_o (p_pcs p)). intros o. cbn [rotate_pt]. v3_start. v3_split; ring.
Qed.

Lemma rotate_pt_inverse (M : mat) (ce : option vec) (x : vec) : cols_orthonormal NumR M ->
  rotate_pt NumR (mtrans M) ce (rotate_pt NumR M ce x) = x.
Proof.
  intros Hc. destruct ce as [c|]; cbn [rotate_pt].
  - rewrite vsub_vadd_cancel, <- mtvec_is_mvec_trans, (mtvec_mvec _ _ Hc). apply vadd_vsub_cancel.
  - rewrite <- mtvec_is_mvec_trans. apply (mtvec_mvec _ _ Hc).
Qed.

(* rotating back by the transposed matrix about the same centre restores the probe *)
Lemma rotate_inverse_R (M : mat) (ce : option vec) (p : probeR) :
  cols_orthonormal NumR M -> frame_ok (p_pcs p) ->
  bind (p_rotate NumR M ce p) (p_rotate NumR (mtrans M) ce) = Some p.
Proof.
  intros HM Hf. rewrite (p_rotate_R M ce p HM Hf). cbn [bind].
  assert (Ht : cols_orthonormal NumR (mtrans M)).
  { apply orthonormal_trans. apply orthonormal_of_cols. exact HM. }
  rewrite (p_rotate_R _ ce _ Ht (rotated_frame_ok M ce p HM Hf)). f_equal.
  rewrite <- (probe_eta p) at 2. unfold rotated. cbn [p_locs p_oris p_pcs cs_o cs_i cs_j]. apply probe_eq.
  - rewrite map_map. apply map_id_ext. intros x. apply rotate_pt_inverse. exact HM.
  - rewrite (option_map_map_compose _ _ (fun v => v)).
    + destruct (p_oris p) as [l|]; [|reflexivity]. cbn [option_map]. rewrite map_id. reflexivity.
    + intros v. rewrite <- mtvec_is_mvec_trans. apply (mtvec_mvec _ _ HM).
  - apply cs_eq; [apply rotate_pt_inverse; exact HM| |]; rewrite <- mtvec_is_mvec_trans; apply (mtvec_mvec _ _ HM).
Qed.

(* flipping twice restores the probe *)
Lemma flip_flip_R (p : probeR) : frame_ok (p_pcs p) -> bind (p_flip NumR p) (p_flip NumR) = Some p.
Proof.
  intros Hf. pose proof (rotation_matrix_z_proper PI) as [[_ Hc] _]. change PI with (npi NumR) in Hc.
  change (bind (p_flip NumR p) (p_flip NumR)) with
    (bind (p_rotate NumR (rotation_matrix_z NumR (npi NumR)) None p) (p_rotate NumR (rotation_matrix_z NumR (npi NumR)) None)).
  rewrite (rotate_rotate_R _ _ None p Hc Hc Hf).
  assert (E : mmul NumR (rotation_matrix_z NumR (npi NumR)) (rotation_matrix_z NumR (npi NumR)) = mid3 NumR).
  { rewrite flip_matrix_R. v3_unfold. v3_split; ring. }
  rewrite E. pose proof mid3_proper as [[_ Hi] _]. rewrite (p_rotate_R _ None p Hi Hf). f_equal.
  rewrite <- (probe_eta p) at 2. unfold rotated. cbn [rotate_pt]. apply probe_eq.
  - apply map_id_ext. exact mvec_id.
  - apply option_map_map_id. exact mvec_id.
  - apply cs_eq; apply mvec_id.
Qed.

(* reset_position of a probe whose PCS is the GCS changes nothing; hence reset is idempotent *)
Lemma reset_at_gcs_R (p : probeR) : p_pcs p = gcs NumR -> p_reset NumR p = Some p.
Proof.
  intros E. assert (Hf : frame_ok (p_pcs p)) by (rewrite E; exact gcs_frame_ok).
  rewrite (p_reset_R p Hf). f_equal. destruct p as [l o c]. cbn [p_pcs p_locs p_oris] in *. subst c.
  apply probe_eq; [|apply option_map_map_id; exact gcs_axes_id|reflexivity].
  unfold locations_pcs. cbn [p_pcs p_locs]. apply map_id_ext. exact gcs_from_gcs.
Qed.

Lemma reset_idempotent_R (p : probeR) : frame_ok (p_pcs p) ->
  bind (p_reset NumR p) (p_reset NumR) = p_reset NumR p.
Proof. intros Hf. rewrite (p_reset_R p Hf). cbn [bind]. apply reset_at_gcs_R. reflexivity. Qed.

(* translate_to_point_O twice = once *)
Lemma to_O_idempotent_R (p : probeR) : frame_ok (p_pcs p) ->
  bind (p_to_O NumR p) (p_to_O NumR) = p_to_O NumR p.
Proof.
  intros Hf. unfold p_to_O at 1 3. rewrite (p_translate_R _ p Hf). cbn [bind]. unfold p_to_O.
  rewrite (p_translate_R _ _ (translated_frame_ok _ p Hf)). f_equal. unfold translated at 1. cbn [p_locs p_oris p_pcs cs_o cs_i cs_j].
  rewrite <- (probe_eta (translated _ p)) at 2. unfold translated. cbn [p_locs p_oris p_pcs cs_o cs_i cs_j].
  generalize (cs_o (p_pcs p)). intros o. apply probe_eq; [|reflexivity|].
  - apply map_id_ext. intros x. v3_start. v3_split; ring.
  - apply cs_eq; [|reflexivity|reflexivity]. v3_start. v3_split; ring.
Qed.

(* ---- isclose(GCS): the gate of move_probe_over_flat_surface ---- *)
Lemma close1_refl (b : R) : close1 NumR (atol_default NumR) 0 b b = true.
Proof.
  unfold close1, atol_default. rewrite !nabs_R. cbn [nleb nsub nadd nmul ndiv n1 n0 nofZ NumR].
  apply Rle_bool_true. replace (b - b) with 0 by ring. rewrite Rabs_R0. lra.
Qed.
Lemma cs_isclose_refl (c : csys (T:=R)) : cs_isclose NumR c c (atol_default NumR) 0 = true.
Proof. unfold cs_isclose, vclose. rewrite !close1_refl. reflexivity. Qed.


(* reachable states are closed under admissible histories *)
Lemma reachable_run (n : nat) (p0 : probeR) (ops : list opR) : forall p : probeR,
  reachable n p0 p -> Forall (op_ok n) ops ->
  exists p', run_ops NumR ops p = Some p' /\ reachable n p0 p'.
Proof.
  induction ops as [|o ops IH]; intros p Hre Hok.
  - exists p. split; [reflexivity|exact Hre].
  - inversion Hok as [|? ? Ho Hrest]; subst.
    destruct (reachable_step n p0 p o Hre Ho) as (q & E & Hq).
    destruct (IH q Hq Hrest) as (p' & E' & Hp'). exists p'. cbn [run_ops]. rewrite E. split; assumption.
Qed.

Lemma location_ops_ok (n : nat) (ref : option refelt) (a h : option R) :
  match ref with Some r => op_ok n (OpSetRef r) | None => True end ->
  Forall (op_ok n) (location_ops NumR ref a h).
Proof.
  intros Hr. unfold location_ops. apply Forall_app. split; [|apply Forall_app; split].
  - destruct ref as [r|]; [|constructor]. constructor; [exact Hr|]. constructor; [exact I|constructor].
  - destruct a as [a|]; [|constructor]. constructor; [|constructor]. apply rotation_matrix_y_proper.
  - destruct h as [h|]; [|constructor]. constructor; [exact I|constructor].
Qed.

(* placing a probe never raises and gives a reachable state, for every subset of the keys *)
Lemma probe_location_total_R (n : nat) (p0 p : probeR) (ref : option refelt) (a h : option R) :
  reachable n p0 p -> match ref with Some r => op_ok n (OpSetRef r) | None => True end ->
  exists p', apply_probe_location NumR ref a h p = Some p' /\ reachable n p0 p'.
Proof.
  intros Hre Hr. rewrite apply_probe_location_history_gen.
  apply (reachable_run n p0 _ p Hre). apply location_ops_ok. exact Hr.
Qed.

(* the pose after the full block: the reference point q sits at (0, 0, standoff), which is
   the PCS origin; the elements are R_y(angle) (x - q) + (0, 0, standoff); axes and normals
   are turned by R_y(angle); the probe-frame coordinates are those of set_reference_element *)
Lemma probe_location_pose_R (n : nat) (p : probeR) (r : refelt) (a h : R) :
  good n p -> op_ok n (OpSetRef r) ->
  let Ry := rotation_matrix_y NumR (deg2rad NumR a) in
  exists q p', ref_point NumR r (p_locs p) = Some q /\
    apply_probe_location NumR (Some r) (Some a) (Some h) p = Some p' /\
    p_locs p' = map (fun x => vadd NumR (mvec NumR Ry (vsub NumR x q)) (0, 0, h)) (p_locs p) /\
    p_oris p' = option_map (map (mvec NumR Ry)) (p_oris p) /\
    cs_o (p_pcs p') = (0, 0, h) /\
    cs_i (p_pcs p') = mvec NumR Ry (cs_i (p_pcs p)) /\ cs_j (p_pcs p') = mvec NumR Ry (cs_j (p_pcs p)) /\
    locations_pcs NumR p' = map (fun x => vsub NumR x (cs_from_gcs NumR (p_pcs p) q)) (locations_pcs NumR p).
Proof.
  intros Hg Hok Ry. pose proof Hg as (Hf & _).
  destruct (p_set_ref_R n r p Hg Hok) as (q & Hq & E1 & Hg1 & Hl1 & _). cbn zeta in *.
  exists q. unfold apply_probe_location. rewrite E1.
  set (p1 := mkProbe (p_locs p) (p_oris p) (mkCS q (cs_i (p_pcs p)) (cs_j (p_pcs p)))) in *.
  assert (Hf1 : frame_ok (p_pcs p1)) by exact Hf.
  unfold p_to_O. rewrite (p_translate_R _ p1 Hf1).
  pose proof (rotation_matrix_y_proper (deg2rad NumR a)) as HRy. fold Ry in HRy. pose proof HRy as [[_ Hc] _].
  rewrite (p_rotate_R Ry None _ Hc (translated_frame_ok _ p1 Hf1)).
  rewrite (p_translate_R _ _ (rotated_frame_ok Ry None _ Hc (translated_frame_ok _ p1 Hf1))).
  eexists. split; [exact Hq|]. split; [reflexivity|].
  unfold translated, rotated. cbn [p_locs p_oris p_pcs cs_o cs_i cs_j rotate_pt p1].
  split; [|split; [reflexivity|split; [|split; [reflexivity|split; [reflexivity|]]]]].
  - rewrite !map_map. apply map_ext. intros x. cbn [rotate_pt]. generalize Ry. intros M. v3_start. v3_split; ring.
  - generalize Ry. intros M. v3_start. v3_split; ring.
  - rewrite <- Hl1. unfold locations_pcs. cbn [p_locs p_pcs p1]. rewrite !map_map. apply map_ext. intros x.
    rewrite !cs_from_gcs_R. unfold cs_axes, cs_k. cbn [cs_o cs_i cs_j rotate_pt].
    replace (vsub NumR (vadd NumR (mvec NumR Ry (vadd NumR x (vopp NumR q))) (n0 NumR, n0 NumR, h))
                  (vadd NumR (mvec NumR Ry (vadd NumR q (vopp NumR q))) (n0 NumR, n0 NumR, h)))
      with (mvec NumR Ry (vsub NumR x q)) by (generalize Ry; intros M; v3_start; v3_split; ring).
    apply (axes_rotated Ry _ _ _ HRy).
Qed.

(* for a probe whose PCS is the GCS (as constructed, or after reset_position), the axes after
   the block are the columns of R_y: i = (cos, 0, -sin), j = (0, 1, 0), k = (sin, 0, cos) *)
Lemma rot_y_axes (th : R) :
  mvec NumR (rotation_matrix_y NumR th) (1, 0, 0) = (cos th, 0, - sin th) /\
  mvec NumR (rotation_matrix_y NumR th) (0, 1, 0) = (0, 1, 0) /\
  vcross NumR (cos th, 0, - sin th) (0, 1, 0) = (sin th, 0, cos th).
Proof.
  unfold rotation_matrix_y, rot_y_cs. cbn [ncos nsin NumR]. v3_unfold. repeat split; v3_split; ring.
Qed.

(* ---- move_probe_over_flat_surface: gate and step V ---- *)
Lemma place_over_surface_R (th z : R) (p : probeR) : p_pcs p = gcs NumR ->
  let Ry := rotation_matrix_y NumR th in
  exists p', place_over_surface NumR th z p = Some p' /\
    place_over_surface NumR th z p = run_ops NumR [OpRotate Ry None; OpTranslate (0, 0, z)] p /\
    p_locs p' = map (fun x => vadd NumR (mvec NumR Ry x) (0, 0, z)) (p_locs p) /\
    cs_o (p_pcs p') = (0, 0, z) /\
    cs_i (p_pcs p') = (cos th, 0, - sin th) /\ cs_j (p_pcs p') = (0, 1, 0) /\
    cs_k NumR (p_pcs p') = (sin th, 0, cos th) /\
    locations_pcs NumR p' = p_locs p.
Proof.
  intros E Ry. assert (Hf : frame_ok (p_pcs p)) by (rewrite E; exact gcs_frame_ok).
  unfold place_over_surface. rewrite E, cs_isclose_refl. cbn [run_ops apply_op]. change (n0 NumR) with 0.
  pose proof (rotation_matrix_y_proper th) as HRy. fold Ry in HRy. pose proof HRy as [[_ Hc] _]. fold Ry.
  rewrite (p_rotate_R Ry None p Hc Hf).
  rewrite (p_translate_R _ _ (rotated_frame_ok Ry None p Hc Hf)).
  eexists. split; [reflexivity|]. split; [reflexivity|].
  unfold translated, rotated. cbn [p_locs p_oris p_pcs cs_o cs_i cs_j rotate_pt]. unfold cs_k. cbn [cs_i cs_j].
  rewrite E. unfold gcs. cbn [cs_o cs_i cs_j]. change (n1 NumR) with 1. change (n0 NumR) with 0.
  destruct (rot_y_axes th) as (Hi & Hj & Hk). fold Ry in Hi, Hj. rewrite Hi, Hj.
  split; [rewrite map_map; reflexivity|].
  split; [generalize Ry; intros M; v3_start; v3_split; ring|].
  split; [reflexivity|]. split; [reflexivity|]. split; [exact Hk|].
  unfold locations_pcs. cbn [p_locs p_pcs]. rewrite !map_map. apply map_id_ext. intros x. cbn [rotate_pt].
  rewrite cs_from_gcs_R. unfold cs_axes, cs_k. cbn [cs_o cs_i cs_j]. rewrite <- Hi, <- Hj.
  replace (vsub NumR (vadd NumR (mvec NumR Ry x) (0, 0, z)) (vadd NumR (mvec NumR Ry (0, 0, 0)) (0, 0, z)))
    with (mvec NumR Ry x) by (generalize Ry; intros M; v3_start; v3_split; ring).
  rewrite (axes_rotated Ry _ _ _ HRy). v3_start. v3_split; ring.
Qed.

(* ---- convert_from_gcs_pairwise ---- *)
Lemma pairwise_moved_R (M : mat) (t : vec) (p p' : probeR) (pts origins : list vec) :
  proper_rotation NumR M -> moved M t p p' ->
  cs_from_gcs_pairwise NumR (p_pcs p') (map (affine M t) pts) origins =
  cs_from_gcs_pairwise NumR (p_pcs p) pts origins.
Proof.
  intros HM (_ & _ & Ho & Hi & Hj). unfold cs_from_gcs_pairwise.
  assert (E : map (cs_from_gcs NumR (p_pcs p')) (map (affine M t) pts) = map (cs_from_gcs NumR (p_pcs p)) pts).
  { rewrite map_map. apply map_ext. intros x. rewrite !cs_from_gcs_R. unfold cs_axes, cs_k.
    rewrite Ho, Hi, Hj, affine_diff. apply axes_rotated. exact HM. }
  rewrite E. reflexivity.
Qed.

Lemma relative_coordinates_R (n : nat) (p0 p : probeR) : reachable n p0 p ->
  cs_from_gcs_pairwise NumR (p_pcs p) (p_locs p) (locations_pcs NumR p) =
  cs_from_gcs_pairwise NumR (gcs NumR) (p_locs p0) (p_locs p0).
Proof.
  intros Hre. destruct (pcs_attached_shift_R n p0 p Hre) as ((d & Hd) & _).
  unfold cs_from_gcs_pairwise. fold (locations_pcs NumR p). rewrite Hd.
  rewrite (map_id_ext (cs_from_gcs NumR (gcs NumR)) _ gcs_from_gcs).
  rewrite !map_map. f_equal; [f_equal|]; apply map_ext; intros x; rewrite map_map; apply map_ext; intros y;
    v3_start; ring.
Qed.

Notation probe_xR := (probe_x (T:=R)).

(* ---- Probe.__init__ / make_matrix_probe, the whole object ---- *)
Definition arg_ok {A} (n : nat) (a : arg1 A) : Prop :=
  match a with ArgEach l => length l = n | _ => True end.
Definition to_ori (a : arg1 vec) : ori_arg (T:=R) :=
  match a with ArgNone => OriNone | ArgOne v => OriOne v | ArgEach l => OriEach l end.
Definition arg_value {A} (n : nat) (a : arg1 A) : option (list A) :=
  match a with ArgNone => None | ArgOne v => Some (repeat v n) | ArgEach l => Some l end.

Lemma init_arg_ok {A} (n : nat) (a : arg1 A) : arg_ok n a ->
  init_arg n a = Some (arg_value n a) /\ opt_len n (arg_value n a).
Proof.
  destruct a as [|v|l]; cbn [arg_ok init_arg arg_value opt_len]; intros H.
  - split; [reflexivity|exact I].
  - split; [reflexivity|apply repeat_length].
  - split; [rewrite H, Nat.eqb_refl; reflexivity|exact H].
Qed.

Lemma init_arg_bad {A} (n : nat) (a : arg1 A) : ~ arg_ok n a -> init_arg n a = None.
Proof.
  destruct a as [|v|l]; cbn [arg_ok init_arg]; intros H; try (contradiction H; exact I).
  destruct (Nat.eqb_spec (length l) n); [contradiction|reflexivity].
Qed.

Lemma init_oris_init_arg (n : nat) (a : arg1 vec) : init_oris n (to_ori a) = init_arg n a.
Proof. destruct a; reflexivity. Qed.

Lemma cs_copy_gcs : cs_copy NumR (gcs NumR) = Some (gcs NumR).
Proof. destruct gcs_frame_ok as (Hi & Hj & _). unfold cs_copy. apply cs_make_R; assumption. Qed.

Lemma matrix_locations_length (numx numy : Z) (px py : R) : (1 <= numx)%Z -> (1 <= numy)%Z ->
  length (matrix_locations NumR numx px numy py) = (Z.to_nat numy * Z.to_nat numx)%nat.
Proof. intros Hx Hy. rewrite (matrix_locations_R numx numy px py Hx Hy). apply length_grid. Qed.

Definition dead_value (n : nat) (a : arg1 bool) : list bool :=
  match a with ArgNone => repeat false n | ArgOne b => repeat b n | ArgEach l => l end.

(* make_matrix_probe builds the motion state of Model/Probe.v (so every theorem about
   reachable states applies to the object), n-entry slots, and the documented metadata *)
Lemma make_matrix_probe_x_R (numx numy : Z) (pitx pity : R) (f bw : option R) (dims oris : arg1 vec)
    (shapes : arg1 Z) (dead : arg1 bool) (meta : option (dict R)) :
  (1 <= numx)%Z -> (1 <= numy)%Z ->
  let n := (Z.to_nat numy * Z.to_nat numx)%nat in
  arg_ok n dims -> arg_ok n oris -> arg_ok n shapes -> arg_ok n dead ->
  exists px, make_matrix_probe_x NumR numx pitx numy pity f dims oris shapes dead bw None meta = Some px /\
    make_matrix_probe NumR numx pitx numy pity (to_ori oris) = Some (x_core px) /\
    wf_len n px /\ x_numel px = (numx * numy)%Z /\
    x_dims px = arg_value n dims /\ x_shapes px = arg_value n shapes /\ x_dead px = dead_value n dead /\
    x_freq px = f /\ x_bw px = bw /\
    x_meta px = matrix_metadata (match meta with None => [] | Some m => m end) numx numy
                  (if (numx =? 1)%Z then MNan else MNum pitx) (if (numy =? 1)%Z then MNan else MNum pity).
Proof.
  intros Hx Hy n Hd Ho Hs Hdd. unfold make_matrix_probe_x, make_matrix_probe.
  destruct (Z.ltb_spec numx 1); [lia|]. destruct (Z.ltb_spec numy 1); [lia|]. cbn [orb].
  cbn [nmul n1 NumR]. rewrite !Rmult_1_r.
  pose proof (matrix_locations_length numx numy pitx pity Hx Hy) as Hlen. fold n in Hlen.
  unfold init_probe. rewrite Hlen, init_oris_init_arg.
  destruct (init_arg_ok n dims Hd) as [E1 L1]. destruct (init_arg_ok n oris Ho) as [E2 L2].
  destruct (init_arg_ok n shapes Hs) as [E3 L3]. rewrite E1, E2, E3.
  assert (E4 : (match dead with ArgNone => Some (Some (repeat false n)) | _ => init_arg n dead end)
               = Some (Some (dead_value n dead)) /\ length (dead_value n dead) = n).
  { destruct dead as [|b|l]; cbn [init_arg dead_value arg_ok] in *.
    - split; [reflexivity|apply repeat_length].
    - split; [reflexivity|apply repeat_length].
    - split; [rewrite Hdd, Nat.eqb_refl; reflexivity|exact Hdd]. }
  destruct E4 as [E4 L4]. rewrite E4, cs_copy_gcs. eexists. split; [reflexivity|].
  cbn [x_core x_dims x_shapes x_dead x_freq x_bw x_meta x_numel]. split; [reflexivity|].
  split.
  { unfold wf_len. cbn [x_core x_dims x_shapes x_dead x_numel p_locs p_oris]. repeat split; assumption. }
  split; [unfold n; rewrite Nat2Z.inj_mul, !Z2Nat.id by lia; ring|]. repeat split.
Qed.

(* ... and it raises when a size is < 1 or a per-element argument has the wrong length *)
Lemma make_matrix_probe_x_raises (numx numy : Z) (pitx pity : R) (f bw : option R) (dims oris : arg1 vec)
    (shapes : arg1 Z) (dead : arg1 bool) (pcs : option (csys (T:=R))) (meta : option (dict R)) :
  let n := (Z.to_nat numy * Z.to_nat numx)%nat in
  (numx < 1)%Z \/ (numy < 1)%Z \/ ~ arg_ok n dims \/ ~ arg_ok n oris \/ ~ arg_ok n shapes \/ ~ arg_ok n dead ->
  make_matrix_probe_x NumR numx pitx numy pity f dims oris shapes dead bw pcs meta = None.
Proof.
  intros n H. unfold make_matrix_probe_x.
  destruct (Z.ltb_spec numx 1) as [|Hx]; [reflexivity|]. destruct (Z.ltb_spec numy 1) as [|Hy]; [reflexivity|]. cbn [orb].
  destruct H as [H|[H|H]]; [lia|lia|].
  pose proof (matrix_locations_length numx numy (nmul NumR pitx (n1 NumR)) (nmul NumR pity (n1 NumR)) Hx Hy) as Hlen.
  fold n in Hlen. unfold init_probe. rewrite Hlen.
  destruct (init_arg n dims) as [ds|] eqn:E1; [|reflexivity].
  destruct (init_arg n oris) as [os|] eqn:E2; [|reflexivity].
  destruct (init_arg n shapes) as [ss|] eqn:E3; [|reflexivity].
  destruct H as [H|[H|[H|H]]].
  - rewrite (init_arg_bad n dims H) in E1. discriminate.
  - rewrite (init_arg_bad n oris H) in E2. discriminate.
  - rewrite (init_arg_bad n shapes H) in E3. discriminate.
  - destruct dead as [|b|l]; cbn [arg_ok] in H; try (contradiction H; exact I).
    rewrite (init_arg_bad n (ArgEach l) H). reflexivity.
Qed.

(* set_element_dimensions writes one (size_x, size_y, size_z) per element and nothing else *)
Lemma set_element_dimensions_R (n : nat) (sx sy sz : R) (px : probe_xR) : wf_len n px ->
  let q := set_element_dimensions NumR sx sy sz px in
  x_dims q = Some (repeat (sx, sy, sz) n) /\ wf_len n q /\ x_core q = x_core px /\
  x_shapes q = x_shapes px /\ x_dead q = x_dead px /\ x_freq q = x_freq px /\ x_bw q = x_bw px /\
  x_meta q = x_meta px /\ x_numel q = x_numel px.
Proof.
  intros (Hl & Ho & Hd & Hs & Hdd & Hnum). cbn zeta. unfold set_element_dimensions.
  cbn [x_core x_dims x_shapes x_dead x_freq x_bw x_meta x_numel nmul n1 NumR].
  rewrite Hnum, Nat2Z.id, !Rmult_1_l. split; [reflexivity|]. split; [|repeat split].
  unfold wf_len. cbn [x_core x_dims x_shapes x_dead x_numel opt_len]. rewrite repeat_length. repeat split; assumption.
Qed.

(* ---- subprobe over the reals ---- *)
Lemma Forall_incl {A} (P : A -> Prop) (l r : list A) : incl r l -> Forall P l -> Forall P r.
Proof. intros Hi Hl. apply Forall_forall. intros x Hx. exact (proj1 (Forall_forall P l) Hl x (Hi x Hx)). Qed.

Lemma take_or_nil_positions {A} (idx : np_idx) (l : list A) (d : A) (ps : list nat) :
  np_positions idx (length l) = Some ps -> take_or_nil idx l = map (fun i => List.nth i l d) ps.
Proof. intros E. unfold take_or_nil. rewrite (np_take_positions idx l d), E. reflexivity. Qed.

Lemma subprobe_R (n : nat) (idx : np_idx) (sm : bool) (px : probe_xR) (ps : list nat) :
  wf_len n px -> good n (x_core px) -> np_positions idx n = Some ps ->
  let m := length ps in
  exists sp, subprobe NumR idx sm px = Some sp /\
    wf_len m sp /\ good m (x_core sp) /\ Forall (fun i => (i < n)%nat) ps /\
    p_pcs (x_core sp) = p_pcs (x_core px) /\
    p_locs (x_core sp) = map (fun i => List.nth i (p_locs (x_core px)) (vzero NumR)) ps /\
    locations_pcs NumR (x_core sp) = map (fun i => List.nth i (locations_pcs NumR (x_core px)) (vzero NumR)) ps /\
    p_oris (x_core sp) = option_map (fun l => map (fun i => List.nth i l (vzero NumR)) ps) (p_oris (x_core px)) /\
    x_dims sp = option_map (fun l => map (fun i => List.nth i l (vzero NumR)) ps) (x_dims px) /\
    x_shapes sp = option_map (fun l => map (fun i => List.nth i l 0%Z) ps) (x_shapes px) /\
    x_dead sp = map (fun i => List.nth i (x_dead px) false) ps /\
    x_freq sp = x_freq px /\ x_bw sp = x_bw px /\ x_meta sp = (if sm then x_meta px else []) /\
    x_numel sp = Z.of_nat m.
Proof.
  intros Hwf Hg Hps m. pose proof Hwf as (Hl & Ho & Hd & Hs & Hdd & Hnum). pose proof Hg as (Hf & _ & Hnorm).
  rewrite (subprobe_spec_gen NumR n idx sm px Hwf).
  assert (Elocs : np_take idx (p_locs (x_core px)) = Some (map (fun i => List.nth i (p_locs (x_core px)) (vzero NumR)) ps)).
  { rewrite (np_take_positions idx _ (vzero NumR)), Hl, Hps. reflexivity. }
  rewrite Elocs. eexists. split; [reflexivity|].
  cbn [x_core x_dims x_shapes x_dead x_freq x_bw x_meta x_numel p_locs p_oris p_pcs].
  assert (Eo : option_map (take_or_nil idx) (p_oris (x_core px)) =
               option_map (fun l => map (fun i => List.nth i l (vzero NumR)) ps) (p_oris (x_core px))).
  { destruct (p_oris (x_core px)) as [l|]; [|reflexivity]. cbn [option_map opt_len] in *. f_equal.
    apply take_or_nil_positions. rewrite Ho. exact Hps. }
  assert (Ed : option_map (take_or_nil idx) (x_dims px) =
               option_map (fun l => map (fun i => List.nth i l (vzero NumR)) ps) (x_dims px)).
  { destruct (x_dims px) as [l|]; [|reflexivity]. cbn [option_map opt_len] in *. f_equal.
    apply take_or_nil_positions. rewrite Hd. exact Hps. }
  assert (Es : option_map (take_or_nil idx) (x_shapes px) =
               option_map (fun l => map (fun i => List.nth i l 0%Z) ps) (x_shapes px)).
  { destruct (x_shapes px) as [l|]; [|reflexivity]. cbn [option_map opt_len] in *. f_equal.
    apply take_or_nil_positions. rewrite Hs. exact Hps. }
  assert (Edd : take_or_nil idx (x_dead px) = map (fun i => List.nth i (x_dead px) false) ps).
  { apply take_or_nil_positions. rewrite Hdd. exact Hps. }
  rewrite Eo, Ed, Es, Edd, map_length. fold m.
  pose proof (np_positions_in_range idx n ps Hps) as Hrange.
  split.
  { unfold wf_len. cbn [x_core x_dims x_shapes x_dead x_numel p_locs p_oris]. rewrite !map_length.
    repeat split; try reflexivity.
    - destruct (p_oris (x_core px)); cbn [option_map opt_len]; [apply map_length|exact I].
    - destruct (x_dims px); cbn [option_map opt_len]; [apply map_length|exact I].
    - destruct (x_shapes px); cbn [option_map opt_len]; [apply map_length|exact I]. }
  split.
  { split; [exact Hf|]. split; [cbn [p_locs]; apply map_length|]. unfold normals_ok in *. cbn [p_oris p_locs].
    destruct (p_oris (x_core px)) as [l|]; cbn [option_map]; [|exact I]. destruct Hnorm as [Hu Hlen].
    split; [|rewrite !map_length; reflexivity].
    apply Forall_forall. intros v Hv. apply in_map_iff in Hv. destruct Hv as (i & <- & Hi).
    apply (proj1 (Forall_forall _ l) Hu). apply List.nth_In. cbn [opt_len] in Ho. rewrite Ho.
    exact (proj1 (Forall_forall _ ps) Hrange i Hi). }
  split; [exact Hrange|]. split; [reflexivity|]. split; [reflexivity|].
  split.
  { unfold locations_pcs. cbn [p_locs p_pcs]. rewrite !map_map. apply map_ext_in. intros i Hi.
    symmetry.
    rewrite (nth_indep (map _ _) (vzero NumR) (cs_from_gcs NumR (p_pcs (x_core px)) (vzero NumR)))
      by (rewrite map_length, Hl; exact (proj1 (Forall_forall _ ps) Hrange i Hi)).
    apply (map_nth (cs_from_gcs NumR (p_pcs (x_core px)))). }
  repeat split.
Qed.

Lemma subprobe_raises_R (n : nat) (idx : np_idx) (sm : bool) (px : probe_xR) :
  wf_len n px -> np_positions idx n = None -> subprobe NumR idx sm px = None.
Proof.
  intros Hwf Hps. rewrite (subprobe_spec_gen NumR n idx sm px Hwf). pose proof Hwf as (Hl & _).
  rewrite (np_take_positions idx _ (vzero NumR)), Hl, Hps. reflexivity.
Qed.

(* ---- corollaries for reachable states and for the whole object ---- *)
Lemma locations_determined_R (n : nat) (p0 p : probeR) : reachable n p0 p ->
  p_locs p = map (cs_to_gcs NumR (p_pcs p)) (locations_pcs NumR p) /\
  locations_pcs NumR p = map (cs_from_gcs NumR (p_pcs p)) (p_locs p) /\
  (forall q : vec, cs_from_gcs NumR (p_pcs p) (cs_to_gcs NumR (p_pcs p) q) = q) /\
  (forall x : vec, cs_to_gcs NumR (p_pcs p) (cs_from_gcs NumR (p_pcs p) x) = x) /\
  p_oris p = option_map (map (cs_to_gcs NumR (mkCS (0, 0, 0) (cs_i (p_pcs p)) (cs_j (p_pcs p))))) (p_oris p0).
Proof.
  intros Hre. pose proof (reachable_facts n p0 p Hre) as (_ & Hg & _ & _ & _ & _ & Ho).
  destruct (locations_determined_good n p Hg) as (Hl & ops & Eo & Hor). pose proof Hg as (Hf & _).
  split; [exact Hl|]. split; [reflexivity|].
  split; [intros q; apply from_gcs_to_gcs; exact Hf|]. split; [intros x; apply to_gcs_from_gcs; exact Hf|].
  rewrite Eo in Ho. injection Ho as ->. exact Hor.
Qed.

Lemma nth_map_positions {A} (l : list A) (ps : list nat) (a n : nat) (d d' : A) :
  Forall (fun i => (i < n)%nat) ps -> length l = n -> (a < length ps)%nat ->
  List.nth a (map (fun i => List.nth i l d') ps) d = List.nth (List.nth a ps 0%nat) l d.
Proof.
  intros Hr Hl Ha.
  rewrite (nth_indep _ d (List.nth 0%nat l d')) by (rewrite map_length; exact Ha).
  rewrite (map_nth (fun i => List.nth i l d')). apply nth_indep. rewrite Hl.
  apply (proj1 (Forall_forall _ ps) Hr). apply List.nth_In. exact Ha.
Qed.

(* a subprobe followed by any admissible history (for its own number of elements): nothing
   raises, the distances are those of the retained elements of the original probe, the
   probe-frame coordinates are those of the retained elements up to the common vector of
   set_reference_element, the non-motion slots are those selected by subprobe *)
Lemma subprobe_history_R (n : nat) (idx : np_idx) (sm : bool) (px : probe_xR) (ps : list nat) (ops : list opR) :
  wf_len n px -> good n (x_core px) -> np_positions idx n = Some ps ->
  let m := length ps in
  Forall (op_ok m) ops ->
  exists sp q, subprobe NumR idx sm px = Some sp /\ run_ops_x NumR ops sp = Some q /\
    wf_len m q /\ good m (x_core q) /\
    (forall (a b : nat) (d : vec), (a < m)%nat -> (b < m)%nat ->
       dist2 (List.nth a (p_locs (x_core q)) d) (List.nth b (p_locs (x_core q)) d) =
       dist2 (List.nth (List.nth a ps 0%nat) (p_locs (x_core px)) d) (List.nth (List.nth b ps 0%nat) (p_locs (x_core px)) d)) /\
    (exists d, locations_pcs NumR (x_core q) =
               map (fun i => vsub NumR (List.nth i (locations_pcs NumR (x_core px)) (vzero NumR)) d) ps /\
               (forallb (fun o => negb (is_set_ref o)) ops = true -> d = vzero NumR)) /\
    orientations_pcs NumR (x_core q) = orientations_pcs NumR (x_core sp) /\
    x_dead q = map (fun i => List.nth i (x_dead px) false) ps /\ x_dims q = x_dims sp /\ x_shapes q = x_shapes sp /\
    x_meta q = (if sm then x_meta px else []) /\ x_numel q = Z.of_nat m.
Proof.
  intros Hwf Hg Hps m Hops.
  destruct (subprobe_R n idx sm px ps Hwf Hg Hps)
    as (sp & E & Hwf' & Hg' & Hr & Hpcs & Hlocs & Hlp & _ & _ & _ & Hdead & _ & _ & Hmeta & Hnum).
  fold m in Hwf', Hg', Hnum.
  destruct (run_ops_props m ops (x_core sp) Hg' Hops) as (p' & Er & Hgp & Hrig & (d & Hd & Hd0) & Ho).
  exists sp, (with_core sp p'). split; [exact E|]. rewrite run_ops_x_core, Er. split; [reflexivity|].
  cbn [with_core x_core x_dims x_shapes x_dead x_meta x_numel].
  pose proof Hwf as (Hl & _). pose proof Hwf' as (Hl' & Ho' & Hd' & Hs' & Hdd' & _). pose proof Hgp as (_ & Hlp' & Hnp').
  split.
  { unfold wf_len. cbn [with_core x_core x_dims x_shapes x_dead x_numel]. repeat split; try assumption.
    unfold normals_ok in Hnp'. destruct (p_oris p') as [l|]; cbn [opt_len]; [|exact I].
    destruct Hnp' as [_ Hlen]. rewrite Hlen. exact Hlp'. }
  split; [exact Hgp|]. split.
  { intros a b dd Ha Hb. rewrite (Hrig a b dd Ha Hb), Hlocs.
    rewrite !(nth_map_positions _ ps _ n dd (vzero NumR) Hr Hl) by assumption. reflexivity. }
  split.
  { exists d. split; [|exact Hd0]. rewrite Hd, Hlp, map_map. reflexivity. }
  split; [exact Ho|]. repeat split; assumption.
Qed.

(* the whole object through make_matrix_probe and any admissible history *)
Lemma object_history_R (numx numy : Z) (pitx pity : R) (f bw : option R) (dims oris : arg1 vec)
    (shapes : arg1 Z) (dead : arg1 bool) (meta : option (dict R)) (ops : list opR) :
  (1 <= numx)%Z -> (1 <= numy)%Z ->
  let n := (Z.to_nat numy * Z.to_nat numx)%nat in
  arg_ok n dims -> ori_arg_ok n (to_ori oris) -> arg_ok n shapes -> arg_ok n dead -> Forall (op_ok n) ops ->
  exists px q, make_matrix_probe_x NumR numx pitx numy pity f dims oris shapes dead bw None meta = Some px /\
    run_ops_x NumR ops px = Some q /\ reachable n (x_core px) (x_core q) /\ wf_len n q /\
    x_dims q = arg_value n dims /\ x_shapes q = arg_value n shapes /\ x_dead q = dead_value n dead /\
    x_freq q = f /\ x_bw q = bw /\ x_meta q = x_meta px /\ x_numel q = (numx * numy)%Z.
Proof.
  intros Hx Hy n Hd Ho Hs Hdd Hops.
  assert (Ho' : arg_ok n oris).
  { destruct oris as [|v|l]; cbn [arg_ok to_ori ori_arg_ok] in *; try exact I. apply Ho. }
  destruct (make_matrix_probe_x_R numx numy pitx pity f bw dims oris shapes dead meta Hx Hy Hd Ho' Hs Hdd)
    as (px & E & Ecore & Hwf & Hnum & H1 & H2 & H3 & H4 & H5 & _).
  destruct (history_total numx numy pitx pity (to_ori oris) ops Hx Hy Ho Hops) as (p0 & p & E0 & Er & Hre).
  rewrite Ecore in E0. injection E0 as <-.
  exists px, (with_core px p). split; [exact E|]. rewrite run_ops_x_core, Er. split; [reflexivity|].
  cbn [with_core x_core x_dims x_shapes x_dead x_freq x_bw x_meta x_numel].
  split; [exact Hre|]. split; [|repeat split; assumption].
  pose proof (reachable_facts n _ _ Hre) as (_ & (_ & Hlp & Hnp) & _).
  destruct Hwf as (_ & _ & Hd' & Hs' & Hdd' & Hnum').
  unfold wf_len. cbn [with_core x_core x_dims x_shapes x_dead x_numel]. repeat split; try assumption.
  unfold normals_ok in Hnp. destruct (p_oris p) as [l|]; cbn [opt_len]; [|exact I].
  destruct Hnp as [_ Hlen]. rewrite Hlen. exact Hlp.
Qed.

(* reset_position followed by move_probe_over_flat_surface's placement: the gate passes,
   nothing raises, the elements sit at R_y(theta) (probe-frame location) + (0, 0, z_o) *)
Lemma place_after_reset_R (n : nat) (p0 p : probeR) (th z : R) : reachable n p0 p ->
  let Ry := rotation_matrix_y NumR th in
  exists p1 p', p_reset NumR p = Some p1 /\ place_over_surface NumR th z p1 = Some p' /\
    reachable n p0 p' /\
    p_locs p' = map (fun x => vadd NumR (mvec NumR Ry x) (0, 0, z)) (locations_pcs NumR p) /\
    cs_o (p_pcs p') = (0, 0, z) /\ cs_i (p_pcs p') = (cos th, 0, - sin th) /\
    cs_j (p_pcs p') = (0, 1, 0) /\ cs_k NumR (p_pcs p') = (sin th, 0, cos th) /\
    locations_pcs NumR p' = locations_pcs NumR p.
Proof.
  intros Hre Ry.
  destruct (reset_restores_reachable n p0 p Hre) as (p1 & E1 & Hpcs & Hl1 & _).
  destruct (reachable_step n p0 p OpReset Hre I) as (p1' & E1' & Hre1). cbn [apply_op] in E1'.
  rewrite E1 in E1'. injection E1' as <-.
  destruct (place_over_surface_R th z p1 Hpcs) as (p' & E & Eh & Hl & Ho & Hi & Hj & Hk & Hlp).
  exists p1, p'. split; [exact E1|]. split; [exact E|]. split.
  { assert (Hok : Forall (op_ok n) [OpRotate Ry None; OpTranslate (0, 0, z)]).
    { constructor; [apply rotation_matrix_y_proper|]. constructor; [exact I|constructor]. }
    destruct (reachable_run n p0 _ p1 Hre1 Hok) as (p'' & E'' & Hre''). unfold Ry in E''. rewrite <- Eh, E in E''.
    injection E'' as <-. exact Hre''. }
  rewrite Hl, Hl1, Hlp, Hl1. repeat split; assumption.
Qed.
