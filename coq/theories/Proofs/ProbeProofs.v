(* Proofs/ProbeProofs.v — lemmas about Model/Probe.v over the reals (C16), part 1:
   the coordinate system, the rigid-motion characterisation of every probe
   operation and its consequences for one step. *)
From Coq Require Import List Reals Lra Lia ZArith Nsatz Psatz.
From Flocq Require Import Core.Raux.
From Arim Require Import Base.Num Base.NumR Model.Vec3 Proofs.Vec3Proofs Model.Probe.
Import ListNotations.
Local Open Scope R_scope.

Notation vec := (vec3 R).
Notation mat := (mat3 R).

(* ---- the normalisation check of the CoordinateSystem setters -------------------- *)
Lemma nabs_R (x : R) : nabs NumR x = Rabs x.
Proof.
  unfold nabs. cbn [nltb nopp n0 NumR].
  destruct (Rlt_bool_spec x 0) as [H|H]; [rewrite Rabs_left | rewrite Rabs_right]; lra.
Qed.

Definition unit_v (v : vec) : Prop := vdot NumR v v = 1.

Lemma norm2v_unit (v : vec) : unit_v v -> norm2v NumR v = 1.
Proof.
  unfold unit_v, norm2v. intros H. v3_start.
  replace (0 + r * r + r0 * r0 + r1 * r1) with 1 by lra. apply sqrt_1.
Qed.

Lemma isclose1_one : isclose1 NumR 1 = true.
Proof.
  unfold isclose1. rewrite !nabs_R. cbn [nleb nsub nadd nmul ndiv n1 nofZ NumR].
  apply Rle_bool_true. replace (1 - 1) with 0 by ring. rewrite Rabs_R0, Rabs_R1. lra.
Qed.

Lemma unit_ok_R (v : vec) : unit_v v -> unit_ok NumR v = true.
Proof. intros H. unfold unit_ok. rewrite (norm2v_unit v H). exact isclose1_one. Qed.

Lemma cs_make_R (o i j : vec) : unit_v i -> unit_v j -> cs_make NumR o i j = Some (mkCS o i j).
Proof. intros Hi Hj. unfold cs_make. rewrite (unit_ok_R i Hi), (unit_ok_R j Hj). reflexivity. Qed.

(* ---- frames -------------------------------------------------------------------- *)
Definition frame_ok (c : csys (T:=R)) : Prop :=
  unit_v (cs_i c) /\ unit_v (cs_j c) /\ vdot NumR (cs_i c) (cs_j c) = 0.

Lemma frame_axes_proper (c : csys) : frame_ok c -> proper_rotation NumR (cs_axes NumR c).
Proof. intros (Hi & Hj & Hij). unfold cs_axes, cs_k. apply cross_frame; assumption. Qed.

Lemma gcs_frame_ok : frame_ok (gcs NumR).
Proof. unfold frame_ok, unit_v, gcs. cbn [cs_i cs_j]. v3_unfold. repeat split; ring. Qed.

(* ---- algebra of rotate_pt ------------------------------------------------------- *)
Definition affine (M : mat) (t : vec) (p : vec) : vec := vadd NumR (mvec NumR M p) t.

Lemma rotate_pt_affine (M : mat) (ce : option vec) (p : vec) :
  rotate_pt NumR M ce p =
  affine M (match ce with None => vzero NumR | Some c => vsub NumR c (mvec NumR M c) end) p.
Proof. unfold affine. destruct ce as [c|]; cbn [rotate_pt]; v3_start; v3_split; ring. Qed.

Lemma affine_diff (M : mat) (t a b : vec) :
  vsub NumR (affine M t a) (affine M t b) = mvec NumR M (vsub NumR a b).
Proof. unfold affine. v3_start. v3_split; ring. Qed.

Lemma vadd_vsub_l (o i : vec) : vsub NumR (vadd NumR o i) o = i.
Proof. v3_start. v3_split; ring. Qed.

Lemma mvec_unit (M : mat) (v : vec) : cols_orthonormal NumR M -> unit_v v -> unit_v (mvec NumR M v).
Proof. unfold unit_v. intros HM Hv. rewrite mvec_dot by exact HM. exact Hv. Qed.

(* a proper rotation has every row equal to the cross product of the two others *)
Lemma proper_rows_cross (a b c : vec) : proper_rotation NumR (a, b, c) ->
  a = vcross NumR b c /\ b = vcross NumR c a /\ c = vcross NumR a b.
Proof.
  intros [[Hr _] Hd]. v3_start. repeat split; v3_split; nsatz.
Qed.

(* ... hence it commutes with the cross product *)
Lemma mvec_cross (M : mat) (a b : vec) : proper_rotation NumR M ->
  vcross NumR (mvec NumR M a) (mvec NumR M b) = mvec NumR M (vcross NumR a b).
Proof.
  intros HM. destruct M as [[r0 r1] r2].
  destruct (proper_rows_cross r0 r1 r2 HM) as (E0 & E1 & E2). clear HM.
  v3_start. v3_split; nsatz.
Qed.

(* ---- CoordinateSystem operations over R ------------------------------------------ *)
Lemma cs_from_gcs_R (c : csys) (p : vec) :
  cs_from_gcs NumR c p = mvec NumR (cs_axes NumR c) (vsub NumR p (cs_o c)).
Proof.
  destruct c as [o i j]. unfold cs_from_gcs, cs_basis_matrix, cs_axes, cs_k. cbn [cs_o cs_i cs_j].
  v3_start. v3_split; ring.
Qed.

Lemma cs_translate_R (c : csys) (v : vec) : frame_ok c ->
  cs_translate NumR c v = Some (mkCS (vadd NumR (cs_o c) v) (cs_i c) (cs_j c)).
Proof. intros (Hi & Hj & _). unfold cs_translate. apply cs_make_R; assumption. Qed.

Lemma cs_rotate_R (c : csys) (M : mat) (ce : option vec) : cols_orthonormal NumR M -> frame_ok c ->
  cs_rotate NumR c M ce =
  Some (mkCS (rotate_pt NumR M ce (cs_o c)) (mvec NumR M (cs_i c)) (mvec NumR M (cs_j c))).
Proof.
  intros HM (Hi & Hj & _). unfold cs_rotate.
  rewrite !rotate_pt_affine, !affine_diff, !vadd_vsub_l.
  apply cs_make_R; apply mvec_unit; assumption.
Qed.

(* the axes of a rotated frame applied to a rotated vector *)
Lemma axes_rotated (M : mat) (i j q : vec) : proper_rotation NumR M ->
  mvec NumR (mvec NumR M i, mvec NumR M j, vcross NumR (mvec NumR M i) (mvec NumR M j)) (mvec NumR M q)
  = mvec NumR (i, j, vcross NumR i j) q.
Proof.
  intros HM. rewrite (mvec_cross M i j HM). destruct HM as [[_ Hc] _].
  set (a := mvec NumR M i). set (b := mvec NumR M j). set (c := mvec NumR M (vcross NumR i j)).
  set (w := mvec NumR M q). unfold mvec at 1 2. cbn [mrow0 mrow1 mrow2 fst snd].
  subst a b c w. rewrite !mvec_dot by exact Hc. reflexivity.
Qed.

(* ---- rigid motions of a probe ------------------------------------------------------ *)
Notation probeR := (probe (T:=R)).
Notation opR := (op (T:=R)).

(* p' is p moved by x |-> M x + t : elements and PCS origin by the affine map, normals
   and PCS axes by its linear part *)
Definition moved (M : mat) (t : vec) (p p' : probeR) : Prop :=
  p_locs p' = map (affine M t) (p_locs p) /\
  p_oris p' = option_map (map (mvec NumR M)) (p_oris p) /\
  cs_o (p_pcs p') = affine M t (cs_o (p_pcs p)) /\
  cs_i (p_pcs p') = mvec NumR M (cs_i (p_pcs p)) /\
  cs_j (p_pcs p') = mvec NumR M (cs_j (p_pcs p)).

Definition normals_ok (p : probeR) : Prop :=
  match p_oris p with
  | None => True
  | Some os => Forall unit_v os /\ length os = length (p_locs p)
  end.

(* the invariant of reachable states: n elements, orthonormal (i, j), unit normals *)
Definition good (n : nat) (p : probeR) : Prop :=
  frame_ok (p_pcs p) /\ length (p_locs p) = n /\ normals_ok p.

Lemma moved_good (n : nat) (M : mat) (t : vec) (p p' : probeR) :
  proper_rotation NumR M -> moved M t p p' -> good n p -> good n p'.
Proof.
  intros [[_ Hc] _] (Hl & Ho & _ & Hi & Hj) ((Fi & Fj & Fij) & Hn & Hnorm).
  split; [|split].
  - unfold frame_ok. rewrite Hi, Hj. repeat split; try (apply mvec_unit; assumption).
    rewrite mvec_dot by exact Hc. exact Fij.
  - rewrite Hl, map_length. exact Hn.
  - unfold normals_ok in *. rewrite Ho, Hl. destruct (p_oris p) as [os|]; cbn [option_map]; [|exact I].
    destruct Hnorm as [Hu Hlen]. split.
    + apply Forall_map. eapply Forall_impl; [|exact Hu]. intros v Hv. apply mvec_unit; assumption.
    + rewrite !map_length. exact Hlen.
Qed.

Lemma moved_locations_pcs (M : mat) (t : vec) (p p' : probeR) :
  proper_rotation NumR M -> moved M t p p' -> locations_pcs NumR p' = locations_pcs NumR p.
Proof.
  intros HM (Hl & _ & Ho & Hi & Hj). unfold locations_pcs. rewrite Hl, map_map.
  apply map_ext. intros q. rewrite !cs_from_gcs_R. unfold cs_axes, cs_k.
  rewrite Ho, Hi, Hj, affine_diff. apply axes_rotated. exact HM.
Qed.

Lemma vsub_zero (v : vec) : vsub NumR v (n0 NumR, n0 NumR, n0 NumR) = v.
Proof. v3_start. v3_split; ring. Qed.

Lemma orientations_pcs_R (p : probeR) : frame_ok (p_pcs p) ->
  orientations_pcs NumR p =
  Some (option_map (map (mvec NumR (cs_axes NumR (p_pcs p)))) (p_oris p)).
Proof.
  intros (Hi & Hj & _). unfold orientations_pcs. destruct (p_oris p) as [os|]; [|reflexivity].
  rewrite (cs_make_R _ _ _ Hi Hj). cbn [option_map]. do 2 f_equal. apply map_ext. intros v.
  rewrite cs_from_gcs_R. cbn [cs_o]. rewrite vsub_zero. reflexivity.
Qed.

Lemma moved_orientations_pcs (n : nat) (M : mat) (t : vec) (p p' : probeR) :
  proper_rotation NumR M -> moved M t p p' -> good n p ->
  orientations_pcs NumR p' = orientations_pcs NumR p.
Proof.
  intros HM Hm Hg. pose proof (moved_good n M t p p' HM Hm Hg) as Hg'.
  rewrite (orientations_pcs_R p') by apply Hg'. rewrite (orientations_pcs_R p) by apply Hg.
  destruct Hm as (_ & Ho & _ & Hi & Hj). rewrite Ho. f_equal.
  destruct (p_oris p) as [os|]; [|reflexivity]. cbn [option_map]. f_equal. rewrite map_map.
  apply map_ext. intros v. unfold cs_axes, cs_k. rewrite Hi, Hj. apply axes_rotated. exact HM.
Qed.

(* squared distance *)
Definition dist2 (a b : vec) : R := vnorm2 NumR (vsub NumR a b).

Lemma affine_dist2 (M : mat) (t a b : vec) : cols_orthonormal NumR M ->
  dist2 (affine M t a) (affine M t b) = dist2 a b.
Proof. intros Hc. unfold dist2. rewrite affine_diff. apply mvec_norm2. exact Hc. Qed.

Lemma moved_rigid (M : mat) (t : vec) (p p' : probeR) :
  proper_rotation NumR M -> moved M t p p' ->
  forall (a b : nat) (d : vec), (a < length (p_locs p))%nat -> (b < length (p_locs p))%nat ->
  dist2 (List.nth a (p_locs p') d) (List.nth b (p_locs p') d) =
  dist2 (List.nth a (p_locs p) d) (List.nth b (p_locs p) d).
Proof.
  intros [[_ Hc] _] (Hl & _) a b d Ha Hb. rewrite Hl.
  rewrite (nth_indep _ d (affine M t d)) by (rewrite map_length; exact Ha).
  rewrite (nth_indep (map _ _) d (affine M t d)) by (rewrite map_length; exact Hb).
  rewrite !map_nth. apply affine_dist2. exact Hc.
Qed.

(* ---- every operation except set_reference_element is a rigid motion ----------------- *)
Lemma mvec_id (v : vec) : mvec NumR (mid3 NumR) v = v.
Proof. v3_start. v3_split; ring. Qed.

Lemma mid3_proper : proper_rotation NumR (mid3 NumR).
Proof.
  split; [apply orthonormal_of_rows|]; v3_unfold; [v3_split|]; ring.
Qed.

Lemma option_map_map_id (f : vec -> vec) (o : option (list vec)) :
  (forall v, f v = v) -> option_map (map f) o = o.
Proof.
  intros H. destruct o as [l|]; [|reflexivity]. cbn [option_map]. f_equal.
  rewrite (map_ext f (fun v => v) H). apply map_id.
Qed.

Definition centre_shift (M : mat) (ce : option vec) : vec :=
  match ce with None => vzero NumR | Some c => vsub NumR c (mvec NumR M c) end.

Lemma p_rotate_moved (M : mat) (ce : option vec) (p : probeR) :
  cols_orthonormal NumR M -> frame_ok (p_pcs p) ->
  exists p', p_rotate NumR M ce p = Some p' /\ moved M (centre_shift M ce) p p'.
Proof.
  intros HM Hf. unfold p_rotate. rewrite (cs_rotate_R _ M ce HM Hf).
  eexists. split; [reflexivity|]. unfold moved. cbn [p_locs p_oris p_pcs cs_o cs_i cs_j].
  repeat split.
  - apply map_ext. intros q. apply rotate_pt_affine.
  - apply rotate_pt_affine.
Qed.

Lemma affine_id (v q : vec) : affine (mid3 NumR) v q = vadd NumR q v.
Proof. unfold affine. rewrite mvec_id. reflexivity. Qed.

Lemma p_translate_moved (v : vec) (p : probeR) : frame_ok (p_pcs p) ->
  exists p', p_translate NumR v p = Some p' /\ moved (mid3 NumR) v p p'.
Proof.
  intros Hf. unfold p_translate. rewrite (cs_translate_R _ v Hf).
  eexists. split; [reflexivity|]. unfold moved. cbn [p_locs p_oris p_pcs cs_o cs_i cs_j].
  rewrite !mvec_id, affine_id. repeat split.
  - apply map_ext. intros q. rewrite affine_id. reflexivity.
  - symmetry. apply option_map_map_id. exact mvec_id.
Qed.

(* elementary rotation matrices and yaw-pitch-roll are proper rotations *)
Lemma rot_x_proper (c s : R) : c * c + s * s = 1 -> proper_rotation NumR (rot_x_cs NumR c s).
Proof.
  intros H. split; [apply orthonormal_of_rows|]; unfold rot_x_cs; v3_unfold; [v3_split|]; nsatz.
Qed.
Lemma rot_y_proper (c s : R) : c * c + s * s = 1 -> proper_rotation NumR (rot_y_cs NumR c s).
Proof.
  intros H. split; [apply orthonormal_of_rows|]; unfold rot_y_cs; v3_unfold; [v3_split|]; nsatz.
Qed.
Lemma rot_z_proper (c s : R) : c * c + s * s = 1 -> proper_rotation NumR (rot_z_cs NumR c s).
Proof.
  intros H. split; [apply orthonormal_of_rows|]; unfold rot_z_cs; v3_unfold; [v3_split|]; nsatz.
Qed.

Lemma cos_sin_1 (x : R) : cos x * cos x + sin x * sin x = 1.
Proof. pose proof (sin2_cos2 x) as H. unfold Rsqr in H. lra. Qed.

Lemma rotation_matrix_x_proper (th : R) : proper_rotation NumR (rotation_matrix_x NumR th).
Proof. apply rot_x_proper. cbn [ncos nsin NumR]. apply cos_sin_1. Qed.
Lemma rotation_matrix_y_proper (th : R) : proper_rotation NumR (rotation_matrix_y NumR th).
Proof. apply rot_y_proper. cbn [ncos nsin NumR]. apply cos_sin_1. Qed.
Lemma rotation_matrix_z_proper (th : R) : proper_rotation NumR (rotation_matrix_z NumR th).
Proof. apply rot_z_proper. cbn [ncos nsin NumR]. apply cos_sin_1. Qed.
Lemma rotation_matrix_ypr_proper (yaw pitch roll : R) :
  proper_rotation NumR (rotation_matrix_ypr NumR yaw pitch roll).
Proof.
  unfold rotation_matrix_ypr. apply mmul_proper; [apply mmul_proper|].
  - apply rotation_matrix_z_proper.
  - apply rotation_matrix_y_proper.
  - apply rotation_matrix_x_proper.
Qed.

(* the flip matrix is diag(-1, -1, 1) *)
Lemma flip_matrix_R :
  rotation_matrix_z NumR (npi NumR) = ((-1, -0, 0), (0, -1, 0), (0, 0, 1)).
Proof.
  unfold rotation_matrix_z, rot_z_cs. cbn [ncos nsin npi nopp n0 n1 NumR]. rewrite cos_PI, sin_PI. reflexivity.
Qed.

Lemma p_flip_moved (p : probeR) : frame_ok (p_pcs p) ->
  exists p', p_flip NumR p = Some p' /\ moved (rotation_matrix_z NumR PI) (vzero NumR) p p'.
Proof.
  intros Hf. unfold p_flip. cbn [npi NumR].
  apply (p_rotate_moved _ None p); [|exact Hf]. apply (rotation_matrix_z_proper PI).
Qed.

Lemma p_to_O_moved (p : probeR) : frame_ok (p_pcs p) ->
  exists p', p_to_O NumR p = Some p' /\ moved (mid3 NumR) (vopp NumR (cs_o (p_pcs p))) p p'.
Proof. intros Hf. unfold p_to_O. apply p_translate_moved. exact Hf. Qed.

(* reset_position, explicitly: the elements land on their PCS coordinates, the normals
   on their PCS components, the PCS on the GCS *)
Lemma axes_i (c : csys) : frame_ok c -> mvec NumR (cs_axes NumR c) (cs_i c) = (1, 0, 0).
Proof.
  destruct c as [o i j]. unfold frame_ok, unit_v, cs_axes, cs_k. cbn [cs_i cs_j cs_o].
  intros (Hi & Hj & Hij). v3_start. v3_split; nsatz.
Qed.
Lemma axes_j (c : csys) : frame_ok c -> mvec NumR (cs_axes NumR c) (cs_j c) = (0, 1, 0).
Proof.
  destruct c as [o i j]. unfold frame_ok, unit_v, cs_axes, cs_k. cbn [cs_i cs_j cs_o].
  intros (Hi & Hj & Hij). v3_start. v3_split; nsatz.
Qed.

Lemma p_reset_R (p : probeR) : frame_ok (p_pcs p) ->
  p_reset NumR p =
  Some (mkProbe (locations_pcs NumR p)
                (option_map (map (mvec NumR (cs_axes NumR (p_pcs p)))) (p_oris p))
                (gcs NumR)).
Proof.
  intros Hf. pose proof Hf as (Hi & Hj & Hij).
  unfold p_reset, p_to_O, p_translate. rewrite (cs_translate_R _ _ Hf).
  unfold p_rotate. cbn [p_pcs p_locs p_oris].
  set (c1 := mkCS (vadd NumR (cs_o (p_pcs p)) (vopp NumR (cs_o (p_pcs p)))) (cs_i (p_pcs p)) (cs_j (p_pcs p))).
  assert (Hf1 : frame_ok c1) by (unfold frame_ok, c1; cbn [cs_i cs_j]; auto).
  assert (Hax : cs_axes NumR c1 = cs_axes NumR (p_pcs p)) by reflexivity.
  pose proof (frame_axes_proper _ Hf) as [[_ Hc] _].
  rewrite (cs_rotate_R c1 _ None); [|rewrite Hax; exact Hc|exact Hf1].
  rewrite Hax. f_equal. f_equal.
  - unfold locations_pcs. rewrite map_map. apply map_ext. intros q.
    rewrite cs_from_gcs_R. cbn [rotate_pt]. reflexivity.
  - unfold gcs, c1. cbn [cs_o cs_i cs_j rotate_pt]. rewrite (axes_i _ Hf), (axes_j _ Hf). f_equal.
    generalize (cs_axes NumR (p_pcs p)). intros A. destruct (cs_o (p_pcs p)) as [[ox oy] oz].
    v3_start. v3_split; ring.
Qed.

Lemma p_reset_moved (p : probeR) : frame_ok (p_pcs p) ->
  exists p', p_reset NumR p = Some p' /\
    moved (cs_axes NumR (p_pcs p)) (mvec NumR (cs_axes NumR (p_pcs p)) (vopp NumR (cs_o (p_pcs p)))) p p'.
Proof.
  intros Hf. rewrite (p_reset_R p Hf). eexists. split; [reflexivity|].
  unfold moved. cbn [p_locs p_oris p_pcs]. unfold gcs. cbn [cs_o cs_i cs_j].
  rewrite (axes_i _ Hf), (axes_j _ Hf). repeat split.
  - unfold locations_pcs. apply map_ext. intros q. rewrite cs_from_gcs_R. unfold affine.
    generalize (cs_axes NumR (p_pcs p)). intros A. destruct (cs_o (p_pcs p)) as [[ox oy] oz].
    v3_start. v3_split; ring.
  - unfold affine. generalize (cs_axes NumR (p_pcs p)). intros A. destruct (cs_o (p_pcs p)) as [[ox oy] oz].
    v3_start. v3_split; ring.
Qed.
